(* Proofs/LimitsPrefix.v — C14, prefix relation on the atom path: for a matcher whose process_ac_match
   does not read start_position (MatcherKind::Literals), over any regions with pairwise distinct
   starts, the list kept under string_max_nb_matches = lim is the first lim elements of the list
   kept without limit.  Reason: within a region matches are inserted in offset order, one per
   offset, and truncation drops the largest offsets, so "insert then keep lim" commutes with
   "keep lim". *)
From Coq Require Import Sorting.Sorted.
From Boreal Require Import Base.Prelude Base.ListX Base.Bytes Base.Sorted Model.Literals Model.Ac Model.AcScan
  Model.Limits Proofs.AcScanInsert Proofs.AcScanDecomp Proofs.LimitsProofs Proofs.FragProofs.

(* ------------------------------------------------------------------ insert_match, front to back *)
Fixpoint insert_front (c : list smatch) (x : smatch) : list smatch :=
  match c with
  | [] => [x]
  | y :: c' => if sm_off x <? sm_off y then x :: c
               else if sm_off x =? sm_off y then c
               else y :: insert_front c' x
  end.

Lemma insert_rev_all_greater l x :
  (forall z, In z l -> sm_base z = sm_base x /\ sm_off x < sm_off z) -> insert_rev l x = l ++ [x].
Proof.
  induction l as [|z l IH]; intros H; [reflexivity|]. cbn [insert_rev app].
  destruct (H z (or_introl eq_refl)) as [Hb Ho].
  replace ((sm_base z =? sm_base x) && (sm_off x <? sm_off z)) with true by lia.
  f_equal. apply IH. intros z' Hz'. apply H. now right.
Qed.

Lemma insert_rev_dup_last l y x :
  (forall z, In z l -> sm_base z = sm_base x /\ sm_off x < sm_off z) ->
  sm_base y = sm_base x -> sm_off y = sm_off x -> insert_rev (l ++ [y]) x = l ++ [y].
Proof.
  induction l as [|z l IH]; intros H Hb Ho; cbn [insert_rev app].
  - replace ((sm_base y =? sm_base x) && (sm_off x <? sm_off y)) with false by lia.
    replace ((sm_base y =? sm_base x) && (sm_off y =? sm_off x)) with true by lia. reflexivity.
  - destruct (H z (or_introl eq_refl)) as [Hzb Hzo].
    replace ((sm_base z =? sm_base x) && (sm_off x <? sm_off z)) with true by lia.
    f_equal. apply IH; auto. intros z' Hz'. apply H. now right.
Qed.

Lemma insert_rev_before_last l y x :
  sm_off y < sm_off x -> insert_rev (l ++ [y]) x = insert_rev l x ++ [y].
Proof.
  intros Ho. induction l as [|z l IH]; cbn [insert_rev app].
  - replace ((sm_base y =? sm_base x) && (sm_off x <? sm_off y)) with false by lia.
    replace ((sm_base y =? sm_base x) && (sm_off y =? sm_off x)) with false by lia. reflexivity.
  - destruct ((sm_base z =? sm_base x) && (sm_off x <? sm_off z)); [now rewrite IH|].
    destruct ((sm_base z =? sm_base x) && (sm_off z =? sm_off x)); reflexivity.
Qed.

Lemma insert_match_front b c x :
  all_base b c -> sm_base x = b -> asc (map sm_off c) -> insert_match c x = insert_front c x.
Proof.
  induction c as [|y c IH]; intros Hb Hx Ha; [reflexivity|].
  assert (Hy : sm_base y = b) by (apply Hb; now left).
  assert (Hb' : all_base b c) by (intros z Hz; apply Hb; now right).
  cbn [map] in Ha. apply asc_cons_inv in Ha as [Ha Hf]. rewrite Forall_forall in Hf.
  assert (Hgt : forall z, In z (rev c) -> sm_base z = b /\ sm_off y < sm_off z).
  { intros z Hz. apply in_rev in Hz. split; [now apply Hb'|]. apply Hf. now apply in_map. }
  unfold insert_match. cbn [rev insert_front].
  destruct (sm_off x <? sm_off y) eqn:E1.
  - rewrite insert_rev_all_greater.
    + rewrite rev_app_distr. cbn [rev app]. rewrite rev_app_distr, rev_involutive. reflexivity.
    + intros z Hz. apply in_app_or in Hz as [Hz|[<-|[]]]; [|split; lia].
      destruct (Hgt z Hz). split; lia.
  - destruct (sm_off x =? sm_off y) eqn:E2.
    + rewrite insert_rev_dup_last; try lia.
      * rewrite rev_app_distr, rev_involutive. reflexivity.
      * intros z Hz. destruct (Hgt z Hz). split; lia.
    + rewrite insert_rev_before_last by lia. rewrite rev_app_distr. cbn [rev app]. f_equal.
      apply (IH Hb' Hx Ha).
Qed.

Lemma firstn_insert_front j : forall c x,
  firstn j (insert_front (firstn j c) x) = firstn j (insert_front c x).
Proof.
  induction j as [|j IH]; intros c x; [reflexivity|].
  destruct c as [|y c]; [reflexivity|]. cbn [firstn insert_front].
  destruct (sm_off x <? sm_off y).
  - cbn [firstn]. f_equal. change (y :: firstn j c) with (firstn (S j) (y :: c)).
    rewrite firstn_firstn. f_equal. lia.
  - destruct (sm_off x =? sm_off y).
    + cbn [firstn]. f_equal. rewrite firstn_firstn. f_equal. lia.
    + cbn [firstn]. f_equal. apply IH.
Qed.

(* ------------------------------------------------------------------ the state of one variable *)
(* earlier regions' matches (other bases) followed by this region's, ascending *)
Definition Struct (b : N) (v : list smatch) : Prop :=
  exists dn c, v = dn ++ c /\ other_base b dn /\ all_base b c /\ asc (map sm_off c).

Lemma Struct_other b v : other_base b v -> Struct b v.
Proof.
  intros H. exists v, []. rewrite app_nil_r. repeat split; auto using all_base_nil, asc_nil.
Qed.

Lemma Struct_insert b v x : Struct b v -> sm_base x = b -> Struct b (insert_match v x).
Proof.
  intros (dn & c & -> & Hd & Hc & Ha) Hx. exists dn, (insert_match c x). split; [|split; [exact Hd|split]].
  - apply insert_match_prefix. now rewrite Hx.
  - now apply insert_match_all_base.
  - now apply (insert_match_asc b).
Qed.

Lemma ntake_app_split {A} k (a c : list A) :
  ntake k (a ++ c) = if k <=? nlen a then ntake k a else a ++ ntake (k - nlen a) c.
Proof.
  destruct (k <=? nlen a) eqn:E.
  - apply ntake_app_le. lia.
  - unfold ntake, nlen in *. rewrite firstn_app. rewrite firstn_all2 by lia. f_equal. f_equal. lia.
Qed.

Lemma Struct_ntake b v k : Struct b v -> Struct b (ntake k v).
Proof.
  intros (dn & c & -> & Hd & Hc & Ha). rewrite ntake_app_split. destruct (k <=? nlen dn).
  - apply Struct_other. intros y Hy. apply Hd. unfold ntake in Hy.
    rewrite <- (firstn_skipn (N.to_nat k) dn). apply in_or_app. now left.
  - exists dn, (ntake (k - nlen dn) c). repeat split; auto.
    + intros y Hy. apply Hc. unfold ntake in Hy.
      rewrite <- (firstn_skipn (N.to_nat (k - nlen dn)) c). apply in_or_app. now left.
    + unfold ntake. rewrite <- firstn_map. apply (asc_ntake (k - nlen dn)). exact Ha.
Qed.

(* insert, then keep k  =  keep k, insert, keep k *)
Lemma ntake_insert b v x k :
  Struct b v -> sm_base x = b ->
  ntake k (insert_match (ntake k v) x) = ntake k (insert_match v x).
Proof.
  intros (dn & c & -> & Hd & Hc & Ha) Hx.
  assert (Hd' : other_base (sm_base x) dn) by now rewrite Hx.
  rewrite (insert_match_prefix dn c x Hd'). rewrite (ntake_app_split k dn c).
  destruct (k <=? nlen dn) eqn:E.
  - assert (Hd1 : other_base (sm_base x) (ntake k dn)).
    { intros y Hy. apply Hd'. unfold ntake in Hy.
      rewrite <- (firstn_skipn (N.to_nat k) dn). apply in_or_app. now left. }
    rewrite <- (app_nil_r (ntake k dn)) at 1. rewrite (insert_match_prefix _ [] x Hd1).
    rewrite ntake_app_le by (rewrite nlen_ntake; lia).
    rewrite ntake_app_le by lia.
    unfold ntake. rewrite firstn_firstn. f_equal. lia.
  - rewrite (insert_match_prefix dn _ x Hd').
    rewrite !ntake_app_split. replace (k <=? nlen dn) with false. f_equal.
    assert (Hc1 : all_base b (ntake (k - nlen dn) c)).
    { intros y Hy. apply Hc. unfold ntake in Hy.
      rewrite <- (firstn_skipn (N.to_nat (k - nlen dn)) c). apply in_or_app. now left. }
    assert (Ha1 : asc (map sm_off (ntake (k - nlen dn) c))).
    { unfold ntake. rewrite <- firstn_map. now apply (asc_ntake (k - nlen dn)). }
    rewrite (insert_match_front b _ x Hc1 Hx Ha1), (insert_match_front b c x Hc Hx Ha).
    unfold ntake. apply firstn_insert_front.
Qed.

(* ------------------------------------------------------------------ lengths only grow (below the limit) *)
Lemma insert_rev_len rv x : nlen rv <= nlen (insert_rev rv x).
Proof.
  induction rv as [|y rv IH]; cbn [insert_rev]; [cbn; lia|].
  destruct ((sm_base y =? sm_base x) && (sm_off x <? sm_off y)); [rewrite !nlen_cons; lia|].
  destruct ((sm_base y =? sm_base x) && (sm_off y =? sm_off x)); rewrite ?nlen_cons; lia.
Qed.

Lemma insert_match_len v x : nlen v <= nlen (insert_match v x).
Proof. unfold insert_match. rewrite nlen_rev. rewrite <- (nlen_rev v). apply insert_rev_len. Qed.

Lemma fold_insert_len prm rg l : forall v,
  nlen v <= nlen (fold_left (fun acc se => insert_match acc (string_match_new prm rg (fst se) (snd se) 0)) l v).
Proof.
  induction l as [|se l IH]; intros v; cbn [fold_left]; [lia|].
  etransitivity; [apply (insert_match_len v)|apply IH].
Qed.

Lemma var_step_mono prm rg var v c :
  nlen v <= p_max_nb_matches prm -> nlen v <= nlen (var_step prm rg var v c).
Proof.
  intros H. destruct c as [[i s] e]. unfold var_step, var_step_with.
  destruct (confirm_ac_literal var (rg_mem rg) s e i); [|lia].
  unfold truncate_matches. rewrite nlen_ntake.
  destruct (mt_process var (rg_mem rg) s e (start_position rg v) _) as [|s' e'|l].
  - lia.
  - pose proof (insert_match_len v (string_match_new prm rg s' e' (get_xor_key var i))). lia.
  - pose proof (fold_insert_len prm rg l v). lia.
Qed.

Lemma fold_var_step_mono prm rg var cs : forall v,
  nlen v <= p_max_nb_matches prm -> nlen v <= nlen (fold_left (var_step prm rg var) cs v).
Proof.
  induction cs as [|c cs IH]; intros v H; cbn [fold_left]; [lia|].
  pose proof (var_step_mono prm rg var v c H). pose proof (var_step_limit prm rg var v c H).
  specialize (IH _ H1). lia.
Qed.

Lemma scan_var_region_mono prm var rg v :
  nlen v <= p_max_nb_matches prm -> nlen v <= nlen (scan_var_region prm var rg v).
Proof.
  intros H. unfold scan_var_region.
  pose proof (fold_var_step_mono prm rg var (own_cands var rg) v H).
  destruct (mt_literals var); [|exact H0].
  pose proof (scan_single_variable_grows prm rg var (fold_left (var_step prm rg var) (own_cands var rg) v)). lia.
Qed.

(* ------------------------------------------------------------------ one candidate *)
Definition sp_indep (var : matcher) : Prop :=
  forall mem s e sp sp' t, mt_process var mem s e sp t = mt_process var mem s e sp' t.

Lemma not_truncated big (v : list smatch) : nlen (ntake big v) < big -> ntake big v = v.
Proof. intros H. rewrite nlen_ntake in H. apply ntake_all. lia. Qed.

Lemma ntake_ntake {A} a b (l : list A) : a <= b -> ntake a (ntake b l) = ntake a l.
Proof. intros H. unfold ntake. rewrite firstn_firstn. f_equal. lia. Qed.

Lemma fold_insert_struct prm rg l : forall v,
  Struct (rg_start rg) v ->
  Struct (rg_start rg) (fold_left (fun acc se => insert_match acc (string_match_new prm rg (fst se) (snd se) 0)) l v).
Proof.
  induction l as [|se l IH]; intros v Hs; cbn [fold_left]; [exact Hs|].
  apply IH. now apply Struct_insert.
Qed.

Lemma ntake_fold_insert prm rg k l : forall v,
  Struct (rg_start rg) v ->
  ntake k (fold_left (fun acc se => insert_match acc (string_match_new prm rg (fst se) (snd se) 0)) l (ntake k v))
  = ntake k (fold_left (fun acc se => insert_match acc (string_match_new prm rg (fst se) (snd se) 0)) l v).
Proof.
  induction l as [|se l IH]; intros v Hs; cbn [fold_left].
  - unfold ntake. rewrite firstn_firstn. f_equal. lia.
  - set (x := string_match_new prm rg (fst se) (snd se) 0).
    rewrite <- (IH (insert_match v x)) by (now apply Struct_insert).
    rewrite <- (ntake_insert (rg_start rg) v x k Hs eq_refl).
    rewrite (IH (insert_match (ntake k v) x)); [reflexivity|].
    apply Struct_insert; [now apply Struct_ntake | reflexivity].
Qed.

Section Step.
  Variables (prm : sparams) (big : N) (rg : mregion) (var : matcher).
  Hypothesis Hsp : sp_indep var.
  Hypothesis Hbig : p_max_nb_matches prm <= big.
  Let unl := prm_unl prm big.
  Let lim := p_max_nb_matches prm.

  Lemma var_step_struct v c : Struct (rg_start rg) v -> Struct (rg_start rg) (var_step unl rg var v c).
  Proof.
    intros Hs. destruct c as [[i s] e]. unfold var_step, var_step_with.
    destruct (confirm_ac_literal var (rg_mem rg) s e i); [|exact Hs].
    apply Struct_ntake.
    destruct (mt_process var (rg_mem rg) s e (start_position rg v) _) as [|s' e'|l]; [exact Hs | |].
    - apply Struct_insert; [exact Hs | reflexivity].
    - now apply fold_insert_struct.
  Qed.

  Lemma var_step_prefix_lim v c :
    Struct (rg_start rg) v -> nlen (var_step unl rg var v c) < big ->
    var_step prm rg var (ntake lim v) c = ntake lim (var_step unl rg var v c).
  Proof.
    intros Hs Hlt. destruct c as [[i s] e]. unfold var_step, var_step_with in *.
    destruct (confirm_ac_literal var (rg_mem rg) s e i) as [t|]; [|reflexivity].
    rewrite (Hsp (rg_mem rg) s e (start_position rg (ntake lim v)) (start_position rg v) t).
    unfold truncate_matches in *. cbn [unl prm_unl p_max_nb_matches] in *. fold lim.
    destruct (mt_process var (rg_mem rg) s e (start_position rg v) t) as [|s' e'|l].
    - rewrite (not_truncated big v Hlt). unfold ntake. rewrite firstn_firstn. f_equal. lia.
    - rewrite (not_truncated big _ Hlt).
      change (string_match_new unl rg s' e' (get_xor_key var i))
        with (string_match_new prm rg s' e' (get_xor_key var i)).
      apply (ntake_insert (rg_start rg) v (string_match_new prm rg s' e' (get_xor_key var i)) lim Hs); reflexivity.
    - rewrite (not_truncated big _ Hlt).
      exact (ntake_fold_insert prm rg lim l v Hs).
  Qed.

  Lemma fold_var_step_prefix_lim cs : forall v,
    Struct (rg_start rg) v -> nlen v <= big ->
    nlen (fold_left (var_step unl rg var) cs v) < big ->
    fold_left (var_step prm rg var) cs (ntake lim v) = ntake lim (fold_left (var_step unl rg var) cs v)
    /\ Struct (rg_start rg) (fold_left (var_step unl rg var) cs v).
  Proof.
    induction cs as [|c cs IH]; intros v Hs Hv Hlt; cbn [fold_left] in *; [split; [reflexivity | exact Hs]|].
    assert (Hv1 : nlen (var_step unl rg var v c) <= big) by (apply (var_step_limit unl rg var v c); exact Hv).
    assert (Hlt1 : nlen (var_step unl rg var v c) < big).
    { pose proof (fold_var_step_mono unl rg var cs (var_step unl rg var v c) Hv1). lia. }
    rewrite (var_step_prefix_lim v c Hs Hlt1).
    apply IH; auto. now apply var_step_struct.
  Qed.

  Theorem scan_var_region_prefix_lim v :
    other_base (rg_start rg) v -> nlen v <= big ->
    nlen (scan_var_region unl var rg v) < big ->
    scan_var_region prm var rg (ntake lim v) = ntake lim (scan_var_region unl var rg v).
  Proof.
    intros Ho Hv Hlt. unfold scan_var_region in *.
    set (w := fold_left (var_step unl rg var) (own_cands var rg) v) in *.
    assert (Hw : nlen w <= big) by (apply (fold_var_step_limit unl rg var); exact Hv).
    assert (Hwlt : nlen w < big).
    { destruct (mt_literals var); [|exact Hlt].
      pose proof (scan_single_variable_grows unl rg var w). lia. }
    destruct (fold_var_step_prefix_lim (own_cands var rg) v (Struct_other _ _ Ho) Hv Hwlt) as [E _].
    fold w in E. rewrite E.
    destruct (mt_literals var); [|reflexivity].
    apply (scan_single_variable_prefix prm big rg var w Hbig Hlt).
  Qed.
End Step.

(* ------------------------------------------------------------------ over the regions *)
Theorem prefix_ac_fragmented prm big var regions :
  sp_indep var -> p_max_nb_matches prm <= big ->
  nlen (scan_var_fragmented (prm_unl prm big) var regions) < big ->
  NoDup (map f_start regions) ->
  scan_var_fragmented prm var regions
  = ntake (p_max_nb_matches prm) (scan_var_fragmented (prm_unl prm big) var regions).
Proof.
  intros Hsp Hbig Hlt Hnd. unfold scan_var_fragmented in *.
  set (stepL := fun vm r => if f_fail r then vm
                 else scan_var_region prm var {| rg_start := f_start r; rg_mem := f_mem r |} vm).
  set (stepU := fun vm r => if f_fail r then vm
                 else scan_var_region (prm_unl prm big) var {| rg_start := f_start r; rg_mem := f_mem r |} vm).
  assert (G : forall v,
    nlen v <= big ->
    (forall y, In y v -> ~ In (sm_base y) (map f_start regions)) ->
    NoDup (map f_start regions) ->
    nlen (fold_left stepU regions v) < big ->
    fold_left stepL regions (ntake (p_max_nb_matches prm) v)
    = ntake (p_max_nb_matches prm) (fold_left stepU regions v)).
  { clear Hlt Hnd. induction regions as [|r regions IH]; intros v Hv Hb Hn Hlt; cbn [fold_left] in *; [reflexivity|].
    cbn [map] in Hn. inversion Hn as [|? ? Hni Hn']; subst.
    assert (Hb' : forall y, In y v -> ~ In (sm_base y) (map f_start regions)).
    { intros y Hy Hc. apply (Hb y Hy). cbn [map In]. now right. }
    assert (Hmono : forall w, nlen w <= big -> nlen w <= nlen (fold_left stepU regions w)).
    { clear. induction regions as [|r0 regions IH0]; intros w Hw; cbn [fold_left]; [lia|].
      assert (nlen w <= nlen (stepU w r0) /\ nlen (stepU w r0) <= big).
      { unfold stepU. destruct (f_fail r0); [lia|]. split.
        - apply (scan_var_region_mono (prm_unl prm big)). exact Hw.
        - apply (scan_var_region_limit (prm_unl prm big)). exact Hw. }
      destruct H as [H1 H2]. specialize (IH0 _ H2). lia. }
    unfold stepL at 2, stepU at 2. unfold stepU at 2 in Hlt. destruct (f_fail r) eqn:Ef.
    - apply IH; auto.
    - set (rg := {| rg_start := f_start r; rg_mem := f_mem r |}) in *.
      assert (Hob : other_base (rg_start rg) v).
      { intros y Hy E. apply (Hb y Hy). cbn [map In]. left. unfold rg in E. cbn in E. congruence. }
      set (w := scan_var_region (prm_unl prm big) var rg v) in *.
      assert (Hw : nlen w <= big) by (apply (scan_var_region_limit (prm_unl prm big)); exact Hv).
      assert (Hwlt : nlen w < big) by (pose proof (Hmono w Hw); lia).
      rewrite (scan_var_region_prefix_lim prm big rg var Hsp Hbig v Hob Hv Hwlt). fold w.
      apply IH; auto.
      intros y Hy. unfold w in Hy. apply scan_var_region_bases in Hy as [Hy|E]; [now apply Hb'|].
      rewrite E. unfold rg. cbn [rg_start]. exact Hni. }
  assert (Hnil : ntake (p_max_nb_matches prm) (@nil smatch) = []) by (unfold ntake; apply firstn_nil).
  assert (H0 : nlen (@nil smatch) <= big) by (cbn; lia).
  pose proof (G [] H0 (fun y (H : In y []) => match H with end) Hnd Hlt) as E.
  rewrite Hnil in E. exact E.
Qed.

Lemma literals_sp_indep lits md : sp_indep (literals_matcher lits md).
Proof. intros mem s e sp sp' t. reflexivity. Qed.

Theorem prefix_ac_text prm big d regions :
  p_max_nb_matches prm <= big ->
  nlen (scan_var_fragmented (prm_unl prm big) (text_matcher d) regions) < big ->
  NoDup (map f_start regions) ->
  scan_var_fragmented prm (text_matcher d) regions
  = ntake (p_max_nb_matches prm) (scan_var_fragmented (prm_unl prm big) (text_matcher d) regions).
Proof. apply prefix_ac_fragmented. apply literals_sp_indep. Qed.
