From Boreal Require Import Base.Prelude Model.Process Spec.ProcessSpec.

Lemma round_page_pos v p : 0 < p -> 0 < round_page v p.
Proof.
  intros Hp. unfold round_page. cbv zeta.
  destruct (N.eqb_spec (v - v mod p) 0) as [E|E]; lia.
Qed.

Lemma round_page_multiple v p : 0 < p -> (round_page v p) mod p = 0.
Proof.
  intros Hp. unfold round_page. cbv zeta.
  destruct (N.eqb_spec (v - v mod p) 0) as [E|E].
  - apply N.mod_same. lia.
  - assert (H : v - v mod p = p * (v / p)).
    { pose proof (N.div_mod v p ltac:(lia)). lia. }
    rewrite H, N.mul_comm. apply N.mod_mul. lia.
Qed.

Lemma round_page_le v p : p <= v -> round_page v p <= v.
Proof.
  intros H. unfold round_page. cbv zeta.
  destruct (N.eqb_spec (v - v mod p) 0) as [E|E]; lia.
Qed.

(* one region, pending list empty, current at offset off *)
Definition at_off (r : region) (off : N) : pstate :=
  {| pending := []; current := Some {| c_reg := r; c_off := off |}; listing := [r] |}.

Lemma np_more prm r cs off :
  chunk prm = Some cs -> r_len r <= umax -> off + round_page cs (page prm) < r_len r ->
  next_position prm (at_off r off) = at_off r (off + round_page cs (page prm)).
Proof.
  intros Hc Hmax Hlt. unfold next_position, next_position_with, at_off. cbn [current pending listing].
  unfold advance_with, chunk_step, sat_add. rewrite Hc. cbn [c_off c_reg].
  replace (N.min (off + round_page cs (page prm)) umax) with (off + round_page cs (page prm)) by lia.
  destruct (N.ltb_spec (off + round_page cs (page prm)) (r_len r)); [reflexivity|lia].
Qed.

Lemma np_last prm r cs off :
  chunk prm = Some cs -> r_len r <= umax -> r_len r <= off + round_page cs (page prm) ->
  next_position prm (at_off r off) = {| pending := []; current := None; listing := [r] |}.
Proof.
  intros Hc Hmax Hge. unfold next_position, next_position_with, at_off. cbn [current pending listing].
  unfold advance_with, chunk_step, sat_add. rewrite Hc. cbn [c_off c_reg].
  destruct (N.ltb_spec (N.min (off + round_page cs (page prm)) umax) (r_len r)); [lia|reflexivity].
Qed.

Lemma describe_at prm r cs off :
  chunk prm = Some cs -> r_start r + off <= umax ->
  describe prm {| c_reg := r; c_off := off |}
  = (r_start r + off, N.min (round_page cs (page prm)) (r_len r - off)).
Proof.
  intros Hc Hmax. unfold describe, sat_add. rewrite Hc. cbn [c_reg c_off]. f_equal. lia.
Qed.

Lemma walk_tiles_from :
  forall fuel prm r cs off,
    chunk prm = Some cs -> 0 < page prm ->
    r_start r + r_len r <= umax -> off < r_len r ->
    r_len r - off <= N.of_nat fuel * round_page cs (page prm) ->
    tiles_end (r_start r + off)
      (describe prm {| c_reg := r; c_off := off |} :: walk fuel prm (at_off r off))
    = Some (r_start r + r_len r).
Proof.
  induction fuel as [|f IH]; intros prm r cs off Hc Hp Hmax Hoff Hfuel.
  - cbn in Hfuel. lia.
  - pose proof (round_page_pos cs (page prm) Hp) as Hst.
    rewrite (describe_at prm r cs off Hc) by lia.
    cbn [tiles_end]. rewrite N.eqb_refl.
    replace (0 <? N.min (round_page cs (page prm)) (r_len r - off)) with true by lia.
    cbn [andb]. unfold walk. cbn [walk_with]. fold (next_position prm (at_off r off)).
    destruct (N.lt_ge_cases (off + round_page cs (page prm)) (r_len r)) as [Hlt|Hge].
    + rewrite (np_more prm r cs off Hc) by lia.
      cbn [current at_off]. fold (at_off r (off + round_page cs (page prm))). fold (walk f prm).
      replace (N.min (round_page cs (page prm)) (r_len r - off)) with (round_page cs (page prm)) by lia.
      replace (r_start r + off + round_page cs (page prm))
        with (r_start r + (off + round_page cs (page prm))) by lia.
      rewrite Nat2N.inj_succ, N.mul_succ_l in Hfuel.
      apply (IH prm r cs); try assumption; lia.
    + rewrite (np_last prm r cs off Hc) by lia.
      cbn [current tiles_end]. f_equal. lia.
Qed.

Lemma walk_first_step :
  forall fuel prm r,
    walk (S fuel) prm (pinit [r]) =
    describe prm {| c_reg := r; c_off := 0 |} :: walk fuel prm (at_off r 0).
Proof. intros. reflexivity. Qed.

Theorem chunks_tile :
  forall prm r cs fuel,
    chunk prm = Some cs -> 0 < page prm ->
    0 < r_len r -> r_start r + r_len r <= umax ->
    r_len r <= N.of_nat fuel * round_page cs (page prm) ->
    Tiles (r_start r) (r_len r) (walk (S fuel) prm (pinit [r])).
Proof.
  intros prm r cs fuel Hc Hp Hlen Hmax Hfuel. unfold Tiles.
  rewrite walk_first_step.
  replace (r_start r) with (r_start r + 0) at 1 by lia.
  apply (walk_tiles_from fuel prm r cs 0); try assumption; lia.
Qed.

Theorem no_chunk_whole_region :
  forall prm r fuel, chunk prm = None -> r_start r + r_len r <= umax ->
    walk (S (S fuel)) prm (pinit [r]) = [(r_start r, r_len r)].
Proof.
  intros prm r fuel Hc Hmax. unfold walk. cbn [walk_with].
  unfold next_position_with. cbn [current pinit pending listing].
  unfold advance_with. rewrite Hc. cbn [current pending].
  unfold describe. rewrite Hc. cbn [c_reg c_off]. unfold sat_add.
  f_equal. f_equal; lia.
Qed.

(* chunk lengths never exceed the rounded chunk size, and a chunk shorter than it is the
   last of its region *)
Theorem chunk_len_bound :
  forall prm c cs, chunk prm = Some cs ->
    snd (describe prm c) <= round_page cs (page prm).
Proof. intros prm c cs Hc. unfold describe. rewrite Hc. cbn [snd]. lia. Qed.

Theorem short_chunk_is_last :
  forall prm c cs, chunk prm = Some cs -> r_len (c_reg c) <= umax ->
    snd (describe prm c) < round_page cs (page prm) -> advance prm c = None.
Proof.
  intros prm c cs Hc Hmax. unfold describe, advance, advance_with, chunk_step. rewrite Hc.
  cbn [snd]. intros H. unfold sat_add.
  destruct (N.ltb_spec (N.min (c_off c + round_page cs (page prm)) umax) (r_len (c_reg c))); [lia|reflexivity].
Qed.

(* when a region is exhausted, `next` moves to the head of the remaining listing *)
Theorem next_region :
  forall prm l c r rest, advance prm c = None ->
    next_position prm {| pending := r :: rest; current := Some c; listing := l |}
    = {| pending := rest; current := Some {| c_reg := r; c_off := 0 |}; listing := l |}.
Proof.
  intros prm l c r rest H. unfold next_position, next_position_with. cbn [current pending listing].
  fold (advance prm c). rewrite H. reflexivity.
Qed.

(* fetch length *)
Theorem fetch_cap :
  forall prm c, fetch_len prm c = N.min (snd (describe prm c)) (round_page (max_fetch prm) (page prm)).
Proof. reflexivity. Qed.

Theorem fetch_within_description :
  forall prm c, fetch_len prm c <= snd (describe prm c).
Proof. intros. unfold fetch_len. lia. Qed.

(* reset *)
Lemma listing_pstep m prm s o : listing (fst (pstep m prm s o)) = listing s.
Proof.
  destruct o; cbn [pstep fst]; try reflexivity.
  unfold next_position, next_position_with.
  destruct (match current s with Some c => advance_with chunk_step prm c | None => None end);
    [reflexivity|]. destruct (pending s); reflexivity.
Qed.

Fixpoint pstate_after (m : procfs) (prm : mparams) (s : pstate) (ops : list pop) : pstate :=
  match ops with [] => s | o :: r => pstate_after m prm (fst (pstep m prm s o)) r end.

Lemma listing_after m prm ops : forall s, listing (pstate_after m prm s ops) = listing s.
Proof.
  induction ops as [|o ops IH]; intros s; cbn [pstate_after]; [reflexivity|].
  rewrite IH. apply listing_pstep.
Qed.

Theorem reset_is_fresh :
  forall m prm l ops ops',
    prun m prm (model_reset (pstate_after m prm (pinit l) ops)) ops' = prun m prm (pinit l) ops'.
Proof.
  intros. unfold model_reset. rewrite listing_after. reflexivity.
Qed.

(* pagemap decision table: finite domain *)
Theorem pagemap_table :
  forall b, b < 16 -> page_from_mem b = spec_page_from_mem b.
Proof.
  intros b Hb.
  assert (H : forallb (fun b => Bool.eqb (page_from_mem b) (spec_page_from_mem b))
                (map N.of_nat (seq 0 16)) = true) by (vm_compute; reflexivity).
  rewrite forallb_forall in H.
  apply Bool.eqb_prop. apply H. apply in_map_iff. exists (N.to_nat b). split; [lia|].
  apply in_seq. lia.
Qed.

(* ---- recorded (fixed) findings: the pinned behaviour does not satisfy the statements ---- *)
Definition kf_prm := {| chunk := Some 5000; max_fetch := 1000000; page := 4096 |}.
Definition kf_reg := {| r_start := 65536; r_len := 12288; r_backed := false; r_foff := 0; r_file := [] |}.

Lemma chunks_tile_pinned_refuted :
  tiles_end (r_start kf_reg) (walk_with chunk_step_pinned 10 kf_prm (pinit [kf_reg])) = None.
Proof. vm_compute. reflexivity. Qed.

Definition kf_fs := {| mem_size := 0; mem_segs := []; pm_entries := 0; pm_bits := [] |}.
Lemma reset_pinned_refuted :
  let prm := {| chunk := Some 4096; max_fetch := 1000000; page := 4096 |} in
  let s := fst (pstep kf_fs prm (pinit [kf_reg]) PNext) in
  fst (pstep kf_fs prm (model_reset_pinned s) PNext) <> fst (pstep kf_fs prm (pinit [kf_reg]) PNext).
Proof. vm_compute. discriminate. Qed.

(* ---- what a tiling means for occurrences: every address of the mapping lies in exactly one chunk, and an
   occurrence that starts in a chunk either lies wholly inside it or straddles its end ---- *)
Definition in_chunk (x : N) (c : N * N) : Prop := fst c <= x < fst c + snd c.

Lemma tiles_end_cover : forall l pos e x,
  tiles_end pos l = Some e -> pos <= x < e -> exists c, In c l /\ in_chunk x c.
Proof.
  induction l as [|[s n] l IH]; intros pos e x H Hx; cbn [tiles_end] in H.
  - inversion H; subst. lia.
  - destruct (N.eqb_spec s pos) as [->|]; [|discriminate]. destruct (N.ltb_spec 0 n); [|discriminate].
    cbn [andb] in H.
    destruct (N.lt_ge_cases x (pos + n)) as [Hlt|Hge].
    + exists (pos, n). split; [left; reflexivity|]. unfold in_chunk; cbn [fst snd]. lia.
    + destruct (IH (pos + n) e x H ltac:(lia)) as [c [Hin Hc]]. exists c. split; [right; exact Hin|exact Hc].
Qed.

Lemma tiles_end_bounds : forall l pos e c,
  tiles_end pos l = Some e -> In c l -> pos <= fst c /\ fst c + snd c <= e /\ 0 < snd c.
Proof.
  induction l as [|[s n] l IH]; intros pos e c H Hin; cbn [tiles_end] in H; [destruct Hin|].
  destruct (N.eqb_spec s pos) as [->|]; [|discriminate]. destruct (N.ltb_spec 0 n); [|discriminate].
  cbn [andb] in H.
  assert (Hmono : pos + n <= e).
  { clear -H. revert H. generalize (pos + n). revert e.
    induction l as [|[s' n'] l IH]; intros e p H; cbn [tiles_end] in H; [inversion H; lia|].
    destruct (N.eqb_spec s' p) as [->|]; [|discriminate]. destruct (N.ltb_spec 0 n'); [|discriminate].
    cbn [andb] in H. specialize (IH _ _ H). lia. }
  destruct Hin as [<-|Hin]; cbn [fst snd]; [lia|].
  destruct (IH (pos + n) e c H Hin) as [H1 [H2 H3]]. lia.
Qed.

Lemma tiles_end_disjoint : forall l pos e c1 c2 x,
  tiles_end pos l = Some e -> In c1 l -> In c2 l -> in_chunk x c1 -> in_chunk x c2 -> c1 = c2.
Proof.
  induction l as [|[s n] l IH]; intros pos e c1 c2 x H H1 H2 Hx1 Hx2; [destruct H1|].
  cbn [tiles_end] in H.
  destruct (N.eqb_spec s pos) as [->|]; [|discriminate]. destruct (N.ltb_spec 0 n); [|discriminate].
  cbn [andb] in H. unfold in_chunk in *.
  destruct H1 as [<-|H1], H2 as [<-|H2]; cbn [fst snd] in *.
  - reflexivity.
  - destruct (tiles_end_bounds l (pos + n) e c2 H H2) as [B _]. lia.
  - destruct (tiles_end_bounds l (pos + n) e c1 H H1) as [B _]. lia.
  - eapply IH; eassumption.
Qed.

Theorem occurrence_in_one_chunk :
  forall start len l a n,
    Tiles start len l -> 0 < n -> start <= a -> a + n <= start + len ->
    exists c, In c l /\ in_chunk a c
              /\ (forall c', In c' l -> in_chunk a c' -> c' = c)
              /\ (a + n <= fst c + snd c \/ (a < fst c + snd c < a + n)).
Proof.
  intros start len l a n Ht Hn Ha Hend. unfold Tiles in Ht.
  destruct (tiles_end_cover l start (start + len) a Ht ltac:(lia)) as [c [Hin Hc]].
  exists c. split; [exact Hin|]. split; [exact Hc|]. split.
  - intros c' Hin' Hc'. eapply tiles_end_disjoint; eassumption.
  - unfold in_chunk in Hc. lia.
Qed.
