(* Proofs/InterruptProofs.v — an interrupted scan delivers a prefix of what the uninterrupted scan
   delivers.  Simulation between a run under an interruption `it` and the run under `Never`:
   both stay in the same state until the interruption fires; from then on the interrupted run emits
   nothing more (outside the timeout handler of the no-scan pass, treated separately) while the
   uninterrupted run only extends its event list. *)
From Boreal Require Import Base.Prelude Base.Res Model.Eval Spec.CondSem Model.EvalCost Model.Scanner.

Definition insync (it : intr) (s : sstate) : Prop :=
  match it with
  | AbortAt k => nlen (evs s) < k
  | TimeoutAt j => nchecks s < j
  | Never => True
  end.

Definition ierr (it : intr) : err := match it with AbortAt _ => EAbort | _ => ETimeout end.

(* the uninterrupted run only appends events (newest first) and never reports an interruption *)
Definition Ext {A} (mN : M A) : Prop :=
  forall s, (exists newer, evs (fst (mN s)) = newer ++ evs s)
            /\ snd (mN s) <> inr ETimeout /\ snd (mN s) <> inr EAbort
            /\ nchecks s <= nchecks (fst (mN s)).

(* the state in which the interruption fired *)
Definition atpoint (it : intr) (s : sstate) : Prop :=
  match it with
  | AbortAt k => nlen (evs s) = k
  | TimeoutAt j => nchecks s = j
  | Never => True
  end.

Definition Sim {A} (it : intr) (mN mI : M A) : Prop :=
  forall s, insync it s ->
    (insync it (fst (mN s)) /\ mI s = mN s)
    \/ (snd (mI s) = inr (ierr it) /\ atpoint it (fst (mI s))
        /\ nchecks (fst (mI s)) <= nchecks (fst (mN s))
        /\ exists newer, evs (fst (mN s)) = newer ++ evs (fst (mI s))).

Definition Good {A} (it : intr) (mN mI : M A) : Prop := Ext mN /\ Sim it mN mI.

(* ------------------------------------------------------------------ combinators *)
Lemma good_ret {A} it (a : A) : Good it (ret a) (ret a).
Proof.
  split.
  - intros s. cbn. repeat split; try discriminate; try lia. exists []. reflexivity.
  - intros s H. left. split; [exact H|reflexivity].
Qed.

Lemma good_fail_panic {A} it : Good it (@fail A EPanic) (@fail A EPanic).
Proof.
  split.
  - intros s. cbn. repeat split; try discriminate; try lia. exists []. reflexivity.
  - intros s H. left. split; [exact H|reflexivity].
Qed.

Lemma ext_bind {A B} (m : M A) (f : A -> M B) : Ext m -> (forall a, Ext (f a)) -> Ext (bindM m f).
Proof.
  intros Hm Hf s. unfold bindM. specialize (Hm s). destruct (m s) as [s1 r1]. cbn [fst snd] in Hm.
  destruct Hm as [[n1 E1] [Ht [Ha Hc]]].
  destruct r1 as [a|e].
  - specialize (Hf a s1). destruct (f a s1) as [s2 r2]. cbn [fst snd] in *.
    destruct Hf as [[n2 E2] [Ht2 [Ha2 Hc2]]]. repeat split; try assumption; try lia.
    exists (n2 ++ n1). rewrite E2, E1. apply app_assoc.
  - cbn [fst snd]. split; [exists n1; exact E1|].
    split; [|split; [|exact Hc]]; intros H; injection H as ->; [apply Ht|apply Ha]; reflexivity.
Qed.

Lemma good_bind {A B} it (mN mI : M A) (fN fI : A -> M B) :
  Good it mN mI -> (forall a, Good it (fN a) (fI a)) -> Good it (bindM mN fN) (bindM mI fI).
Proof.
  intros [Em Sm] Hf. split.
  - apply ext_bind; [exact Em|]. intros a. apply Hf.
  - intros s Hs. unfold bindM.
    destruct (Sm s Hs) as [[Hs1 Eq]|[Er [Hat [Hck [n En]]]]].
    + rewrite Eq. destruct (mN s) as [s1 r1]. cbn [fst snd] in *.
      destruct r1 as [a|e].
      * destruct (Hf a) as [_ Sf]. exact (Sf s1 Hs1).
      * left. split; [exact Hs1|reflexivity].
    + right. destruct (mI s) as [s2 r2]. cbn [fst snd] in *. subst r2. cbn [fst snd]. split; [reflexivity|].
      split; [exact Hat|].
      specialize (Em s). destruct (mN s) as [s1 r1]. cbn [fst snd] in *.
      destruct r1 as [a|e].
      * destruct (Hf a) as [Ef _]. specialize (Ef s1). destruct (fN a s1) as [s1' r1']. cbn [fst snd] in *.
        destruct Ef as [[n' En'] [_ [_ Hc']]]. split; [lia|]. exists (n' ++ n). rewrite En', En. apply app_assoc.
      * split; [exact Hck|]. exists n. exact En.
Qed.

(* state-only primitives that do not touch events or the check counter *)
Lemma good_pend_op it (f : sstate -> list erule) :
  Good it (fun s => ({| pend := f s; evs := evs s; nchecks := nchecks s |}, inl tt))
          (fun s => ({| pend := f s; evs := evs s; nchecks := nchecks s |}, inl tt)).
Proof.
  split.
  - intros s. cbn. repeat split; try discriminate; try lia. exists []. reflexivity.
  - intros s H. left. split; [|reflexivity]. destruct it; exact H.
Qed.

Lemma good_push it r : Good it (push r) (push r).
Proof. apply (good_pend_op it (fun s => pend s ++ [r])). Qed.
Lemma good_clear it : Good it clear_pend clear_pend.
Proof. apply (good_pend_op it (fun _ => [])). Qed.
Lemma good_set it l : Good it (set_pend l) (set_pend l).
Proof. apply (good_pend_op it (fun _ => l)). Qed.
Lemma good_get it : Good it get_pend get_pend.
Proof.
  split.
  - intros s. cbn. repeat split; try discriminate; try lia. exists []. reflexivity.
  - intros s H. left. split; [exact H|reflexivity].
Qed.

Lemma good_tick it n : it <> Never -> Good it (tick Never n) (tick it n).
Proof.
  intros Hit. split.
  - intros s. unfold tick. destruct (n =? 0); cbn; repeat split; try discriminate; try lia; exists []; reflexivity.
  - intros s Hs. unfold tick. destruct (N.eqb_spec n 0) as [E|E].
    + left. split; [exact Hs|reflexivity].
    + destruct it as [|k|j]; [congruence| |].
      * left. split; [exact Hs|reflexivity].
      * cbn [insync] in Hs. destruct (N.leb_spec j (nchecks s)); [lia|].
        destruct (N.leb_spec j (nchecks s + n)).
        -- right. cbn [fst snd evs ierr atpoint nchecks]. split; [reflexivity|]. split; [reflexivity|].
           split; [lia|]. exists []. reflexivity.
        -- left. cbn [fst insync nchecks]. split; [lia|reflexivity].
Qed.

Lemma good_emit it ev : it <> Never -> Good it (emit Never ev) (emit it ev).
Proof.
  intros Hit. split.
  - intros s. unfold emit. cbn. repeat split; try discriminate; try lia. exists [ev]. reflexivity.
  - intros s Hs. unfold emit. destruct it as [|k|j]; [congruence| |].
    + cbn [insync] in Hs. cbn [evs].
      destruct (N.eqb_spec (nlen (ev :: evs s)) k) as [E|E].
      * right. cbn [fst snd evs ierr atpoint nchecks]. split; [reflexivity|]. split; [exact E|]. split; [lia|].
        exists []. reflexivity.
      * left. cbn [fst insync evs]. split; [|reflexivity].
        unfold nlen in *. cbn [length] in *. lia.
    + left. cbn [fst insync nchecks]. split; [exact Hs|reflexivity].
Qed.

(* ------------------------------------------------------------------ the scan procedures *)
Section Procs.
  Variable c : cfg.
  Variable it : intr.
  Hypothesis Hit : it <> Never.
  Variable inp : inputs.

  Lemma good_report r : Good it (report c Never r) (report c it r).
  Proof.
    unfold report. destruct (er_matched r).
    - destruct (c_ev_match c); [apply good_emit; exact Hit|apply good_ret].
    - destruct (c_ev_nomatch c); [apply good_emit; exact Hit|apply good_ret].
  Qed.

  Lemma good_flush_list l : Good it (flush_list c Never l) (flush_list c it l).
  Proof.
    induction l as [|r l IH]; cbn [flush_list]; [apply good_ret|].
    apply good_bind; [apply good_report|]. intros _. exact IH.
  Qed.

  Lemma good_flush : Good it (flush c Never) (flush c it).
  Proof.
    unfold flush. destruct (c_cb c); [|apply good_ret].
    apply good_bind; [apply good_get|]. intros l.
    apply good_bind; [apply good_clear|]. intros _. apply good_flush_list.
  Qed.

  Lemma good_emit_all l : Good it (emit_all Never l) (emit_all it l).
  Proof.
    induction l as [|e l IH]; cbn [emit_all]; [apply good_ret|].
    apply good_bind; [apply good_emit; exact Hit|]. intros _. exact IH.
  Qed.

  Lemma good_send_imports : Good it (send_imports c Never inp) (send_imports c it inp).
  Proof. unfold send_imports. destruct (c_cb c && c_ev_import c); [apply good_emit_all|apply good_ret]. Qed.

  Lemma good_ac_phase hits : Good it (ac_phase c Never hits) (ac_phase c it hits).
  Proof.
    induction hits as [|lim hits IH]; cbn [ac_phase]; [apply good_ret|].
    apply good_bind; [apply good_tick; exact Hit|]. intros _.
    apply good_bind; [|intros _; exact IH].
    destruct (c_cb c && c_ev_limit c); [apply good_emit_all|apply good_ret].
  Qed.

  Lemma good_eval_rule_inner x r cb : Good it (eval_rule_inner c Never inp x r cb) (eval_rule_inner c it inp x r cb).
  Proof.
    unfold eval_rule_inner.
    destruct (ns_disabled x (r_ns r)).
    - destruct (r_private r); [apply good_ret|].
      destruct (c_nm c); [|apply good_ret].
      apply good_bind; [|intros _; apply good_ret].
      destruct (c_cb c && cb); [apply good_report|apply good_push].
    - apply good_bind; [apply good_tick; exact Hit|]. intros _.
      destruct (eval_rule _ (r_cond r)) as [matched| | |].
      + destruct (r_private r); [apply good_ret|].
        destruct (matched || c_nm c); [|apply good_ret].
        apply good_bind; [|intros _; apply good_ret].
        destruct (c_cb c && cb); [apply good_report|apply good_push].
      + apply good_fail_panic.
      + apply good_ret.
      + apply good_fail_panic.
  Qed.

  Lemma good_eval_globals gs : forall x u,
    Good it (eval_globals c Never inp x gs u) (eval_globals c it inp x gs u).
  Proof.
    induction gs as [|g gs IH]; intros x u; cbn [eval_globals]; [apply good_ret|].
    apply good_bind; [apply good_eval_rule_inner|]. intros [x' r].
    destruct r as [[|]|]; apply IH.
  Qed.

  Lemma good_eval_rules rs : forall x cb,
    Good it (eval_rules c Never inp x rs cb) (eval_rules c it inp x rs cb).
  Proof.
    induction rs as [|r rs IH]; intros x cb; cbn [eval_rules]; [apply good_ret|].
    apply good_bind; [apply good_eval_rule_inner|]. intros [x' res].
    destruct res as [b|]; [apply IH|apply good_ret].
  Qed.

  Lemma good_fixup x : Good it (fixup c x) (fixup c x).
  Proof.
    unfold fixup. apply good_bind; [apply good_get|]. intros l.
    destruct (c_nm c); apply good_set.
  Qed.

  Lemma good_full_scan sc : Good it (full_scan c Never inp sc) (full_scan c it inp sc).
  Proof.
    unfold full_scan.
    apply good_bind; [apply good_ac_phase|]. intros _.
    apply good_bind; [destruct (c_direct c); [apply good_ret|apply good_send_imports]|]. intros _.
    apply good_bind; [apply good_eval_globals|]. intros [x u].
    apply good_bind; [apply good_fixup|]. intros _.
    destruct (negb (c_nm c) && all_disabled x); [apply good_clear|].
    apply good_bind; [apply good_flush|]. intros _.
    apply good_bind; [apply good_eval_rules|]. intros _. apply good_ret.
  Qed.

  Lemma good_eval_without_matches sc :
    Good it (eval_without_matches c Never inp sc) (eval_without_matches c it inp sc).
  Proof.
    unfold eval_without_matches.
    apply good_bind; [apply good_eval_globals|]. intros [x u].
    destruct (all_disabled x).
    - apply good_bind; [apply good_clear|]. intros _. apply good_ret.
    - destruct u; [apply good_ret|].
      apply good_bind; [apply good_fixup|]. intros _.
      apply good_bind; [apply good_eval_rules|]. intros ok. apply good_ret.
  Qed.
End Procs.

(* ------------------------------------------------------------------ the timeout handler of the no-scan pass *)
Lemma on_timeout_noop {A} (m h : M A) s : snd (m s) <> inr ETimeout -> on_timeout m h s = m s.
Proof.
  unfold on_timeout. destruct (m s) as [s' r]. cbn [snd]. intros H.
  destruct r as [a|[| |]]; try reflexivity. congruence.
Qed.

Lemma good_on_timeout_abort {A} k (mN mI hN hI : M A) :
  Good (AbortAt k) mN mI -> Good (AbortAt k) (on_timeout mN hN) (on_timeout mI hI).
Proof.
  intros [Em Sm]. split.
  - intros s. rewrite on_timeout_noop by apply Em. apply Em.
  - intros s Hs. rewrite (on_timeout_noop mN hN s) by apply Em.
    destruct (Sm s Hs) as [[Hs1 Eq]|[Er [Hat Hn]]].
    + left. split; [exact Hs1|]. rewrite on_timeout_noop; [exact Eq|]. rewrite Eq. apply Em.
    + right. rewrite on_timeout_noop by (rewrite Er; discriminate). auto.
Qed.

Lemma good_do_scan_abort c k inp sc :
  Good (AbortAt k) (do_scan c Never inp sc) (do_scan c (AbortAt k) inp sc).
Proof.
  assert (Hit : AbortAt k <> Never) by discriminate.
  unfold do_scan.
  apply good_bind; [destruct (c_direct c); [apply good_send_imports; exact Hit|apply good_ret]|]. intros _.
  destruct (can_noscan c); [|apply good_full_scan; exact Hit].
  apply good_bind.
  - apply good_on_timeout_abort. apply good_eval_without_matches. exact Hit.
  - intros [|].
    + apply good_flush. exact Hit.
    + apply good_bind; [apply good_clear|]. intros _. apply good_full_scan. exact Hit.
Qed.

Lemma good_do_scan_full c it inp sc : it <> Never -> can_noscan c = false ->
  Good it (do_scan c Never inp sc) (do_scan c it inp sc).
Proof.
  intros Hit Hns. unfold do_scan. rewrite Hns.
  apply good_bind; [destruct (c_direct c); [apply good_send_imports; exact Hit|apply good_ret]|]. intros _.
  apply good_full_scan. exact Hit.
Qed.

Lemma nlen_cons' {A} (x : A) l : nlen (x :: l) = 1 + nlen l.
Proof. unfold nlen. cbn [length]. lia. Qed.

Lemma rev_prefix {A} (newer old : list A) : firstn (length old) (rev (newer ++ old)) = rev old.
Proof.
  rewrite rev_app_distr. rewrite <- (rev_length old). rewrite firstn_app, Nat.sub_diag, firstn_all.
  cbn [firstn]. apply app_nil_r.
Qed.

(* C15, callback abort at the k-th event *)
Theorem abort_prefix c k inp sc : 1 <= k ->
  let oN := run_scan c Never inp sc in
  let oA := run_scan c (AbortAt k) inp sc in
  (oA = oN /\ nlen (o_events oN) < k)
  \/ (o_err oA = Some EAbort /\ nlen (o_events oA) = k
      /\ o_events oA = firstn (N.to_nat k) (o_events oN)).
Proof.
  intros Hk oN oA. subst oN oA. unfold run_scan.
  destruct (good_do_scan_abort c k inp sc) as [_ S].
  specialize (S {| pend := []; evs := []; nchecks := 0 |}). cbn [insync evs] in S.
  specialize (S ltac:(unfold nlen; cbn; lia)).
  destruct S as [[Hs1 Eq]|[Er [Hat [_ [n En]]]]].
  - left. rewrite Eq. destruct (do_scan c Never inp sc _) as [s1 r1]. cbn [fst] in Hs1. cbn [o_events].
    split; [reflexivity|]. unfold nlen in *. rewrite rev_length. exact Hs1.
  - right. destruct (do_scan c (AbortAt k) inp sc _) as [s2 r2].
    destruct (do_scan c Never inp sc _) as [s1 r1]. cbn [fst snd ierr atpoint] in *. subst r2.
    cbn [o_err o_events]. split; [reflexivity|]. split; [unfold nlen in *; rewrite rev_length; exact Hat|].
    rewrite En. unfold nlen in Hat. rewrite <- Hat. rewrite Nat2N.id. symmetry. apply rev_prefix.
Qed.

(* C15, timeout at the j-th check, configurations that always scan for strings (no timeout handler) *)
Theorem timeout_prefix_full c j inp sc : can_noscan c = false -> 1 <= j ->
  let oN := run_scan c Never inp sc in
  let oT := run_scan c (TimeoutAt j) inp sc in
  (oT = oN /\ o_checks oN < j)
  \/ (o_err oT = Some ETimeout /\ o_checks oT = j
      /\ exists later, o_events oN = o_events oT ++ later).
Proof.
  intros Hns Hj oN oT. subst oN oT. unfold run_scan.
  destruct (good_do_scan_full c (TimeoutAt j) inp sc ltac:(discriminate) Hns) as [_ S].
  specialize (S {| pend := []; evs := []; nchecks := 0 |}). cbn [insync nchecks] in S.
  specialize (S ltac:(lia)).
  destruct S as [[Hs1 Eq]|[Er [Hat [_ [n En]]]]].
  - left. rewrite Eq. destruct (do_scan c Never inp sc _) as [s1 r1]. cbn [fst] in Hs1. cbn [o_checks].
    split; [reflexivity|exact Hs1].
  - right. destruct (do_scan c (TimeoutAt j) inp sc _) as [s2 r2].
    destruct (do_scan c Never inp sc _) as [s1 r1]. cbn [fst snd ierr atpoint] in *. subst r2.
    cbn [o_err o_events o_checks]. split; [reflexivity|]. split; [exact Hat|].
    exists (rev n). rewrite En. apply rev_app_distr.
Qed.

(* ------------------------------------------------------------------ rules returned with a timeout (list API) *)
(* During the evaluation of ordinary rules the pending list only grows: an interrupted run holds a
   prefix of what the uninterrupted run holds. *)
Definition ExtP {A} (mN : M A) : Prop :=
  forall s, exists more, pend (fst (mN s)) = pend s ++ more.

Definition SimP {A} (it : intr) (mN mI : M A) : Prop :=
  forall s, insync it s ->
    (insync it (fst (mN s)) /\ mI s = mN s)
    \/ (snd (mI s) = inr (ierr it) /\ exists more, pend (fst (mN s)) = pend (fst (mI s)) ++ more).

Definition GoodP {A} (it : intr) (mN mI : M A) : Prop := ExtP mN /\ SimP it mN mI.

Lemma goodp_ret {A} it (a : A) : GoodP it (ret a) (ret a).
Proof.
  split; [intros s; exists []; cbn; symmetry; apply app_nil_r|].
  intros s H. left. split; [exact H|reflexivity].
Qed.

Lemma goodp_fail {A} it e : GoodP it (@fail A e) (@fail A e).
Proof.
  split; [intros s; exists []; cbn; symmetry; apply app_nil_r|].
  intros s H. left. split; [exact H|reflexivity].
Qed.

Lemma goodp_bind {A B} it (mN mI : M A) (fN fI : A -> M B) :
  GoodP it mN mI -> (forall a, GoodP it (fN a) (fI a)) -> GoodP it (bindM mN fN) (bindM mI fI).
Proof.
  intros [Em Sm] Hf. split.
  - intros s. unfold bindM. specialize (Em s). destruct (mN s) as [s1 r1]. cbn [fst] in Em.
    destruct Em as [m1 E1]. destruct r1 as [a|e]; [|exists m1; exact E1].
    destruct (Hf a) as [Ef _]. specialize (Ef s1). destruct (fN a s1) as [s2 r2]. cbn [fst] in *.
    destruct Ef as [m2 E2]. exists (m1 ++ m2). rewrite E2, E1. symmetry. apply app_assoc.
  - intros s Hs. unfold bindM.
    destruct (Sm s Hs) as [[Hs1 Eq]|[Er [m Em']]].
    + rewrite Eq. destruct (mN s) as [s1 r1]. cbn [fst snd] in *.
      destruct r1 as [a|e]; [|left; split; [exact Hs1|reflexivity]].
      destruct (Hf a) as [_ Sf]. exact (Sf s1 Hs1).
    + right. destruct (mI s) as [s2 r2]. cbn [fst snd] in *. subst r2. cbn [fst snd]. split; [reflexivity|].
      specialize (Em s). destruct (mN s) as [s1 r1]. cbn [fst snd] in *.
      destruct r1 as [a|e]; [|exists m; exact Em'].
      destruct (Hf a) as [Ef _]. specialize (Ef s1). destruct (fN a s1) as [s1' r1']. cbn [fst] in *.
      destruct Ef as [m' Em'']. exists (m ++ m'). rewrite Em'', Em'. symmetry. apply app_assoc.
Qed.

Lemma goodp_tick it n : it <> Never -> GoodP it (tick Never n) (tick it n).
Proof.
  intros Hit. split.
  - intros s. unfold tick. destruct (n =? 0); cbn; exists []; symmetry; apply app_nil_r.
  - intros s Hs. unfold tick. destruct (N.eqb_spec n 0) as [E|E]; [left; split; [exact Hs|reflexivity]|].
    destruct it as [|k|j]; [congruence|left; split; [exact Hs|reflexivity]|].
    cbn [insync] in Hs. destruct (N.leb_spec j (nchecks s)); [lia|].
    destruct (N.leb_spec j (nchecks s + n)).
    + right. cbn [fst snd pend ierr]. split; [reflexivity|]. exists []. symmetry. apply app_nil_r.
    + left. cbn [fst insync nchecks]. split; [lia|reflexivity].
Qed.

Lemma goodp_emit it ev : it <> Never -> GoodP it (emit Never ev) (emit it ev).
Proof.
  intros Hit. split.
  - intros s. unfold emit. cbn. exists []. symmetry. apply app_nil_r.
  - intros s Hs. unfold emit. destruct it as [|k|j]; [congruence| |].
    + cbn [insync] in Hs. cbn [evs].
      destruct (N.eqb_spec (nlen (ev :: evs s)) k) as [E|E].
      * right. cbn [fst snd pend ierr]. split; [reflexivity|]. exists []. symmetry. apply app_nil_r.
      * left. cbn [fst insync evs]. split; [|reflexivity]. unfold nlen in *. cbn [length] in *. lia.
    + left. cbn [fst insync nchecks]. split; [exact Hs|reflexivity].
Qed.

Lemma goodp_push it r : GoodP it (push r) (push r).
Proof.
  split; [intros s; exists [r]; reflexivity|].
  intros s H. left. split; [|reflexivity]. destruct it; exact H.
Qed.

Section ProcsP.
  Variable c : cfg.
  Variable it : intr.
  Hypothesis Hit : it <> Never.
  Variable inp : inputs.

  Lemma goodp_report r : GoodP it (report c Never r) (report c it r).
  Proof.
    unfold report. destruct (er_matched r).
    - destruct (c_ev_match c); [apply goodp_emit; exact Hit|apply goodp_ret].
    - destruct (c_ev_nomatch c); [apply goodp_emit; exact Hit|apply goodp_ret].
  Qed.

  Lemma goodp_eval_rule_inner x r cb : GoodP it (eval_rule_inner c Never inp x r cb) (eval_rule_inner c it inp x r cb).
  Proof.
    unfold eval_rule_inner.
    destruct (ns_disabled x (r_ns r)).
    - destruct (r_private r); [apply goodp_ret|].
      destruct (c_nm c); [|apply goodp_ret].
      apply goodp_bind; [|intros _; apply goodp_ret].
      destruct (c_cb c && cb); [apply goodp_report|apply goodp_push].
    - apply goodp_bind; [apply goodp_tick; exact Hit|]. intros _.
      destruct (eval_rule _ (r_cond r)) as [matched| | |].
      + destruct (r_private r); [apply goodp_ret|].
        destruct (matched || c_nm c); [|apply goodp_ret].
        apply goodp_bind; [|intros _; apply goodp_ret].
        destruct (c_cb c && cb); [apply goodp_report|apply goodp_push].
      + apply goodp_fail.
      + apply goodp_ret.
      + apply goodp_fail.
  Qed.

  Lemma goodp_eval_rules rs : forall x cb,
    GoodP it (eval_rules c Never inp x rs cb) (eval_rules c it inp x rs cb).
  Proof.
    induction rs as [|r rs IH]; intros x cb; cbn [eval_rules]; [apply goodp_ret|].
    apply goodp_bind; [apply goodp_eval_rule_inner|]. intros [x' res].
    destruct res as [b|]; [apply IH|apply goodp_ret].
  Qed.
End ProcsP.

(* the pending list is untouched by the string scan and the import events *)
Definition PendSame {A} (m : M A) : Prop := forall s, pend (fst (m s)) = pend s.

Lemma pendsame_ret {A} (a : A) : PendSame (ret a).
Proof. intros s. reflexivity. Qed.
Lemma pendsame_bind {A B} (m : M A) (f : A -> M B) : PendSame m -> (forall a, PendSame (f a)) -> PendSame (bindM m f).
Proof.
  intros Hm Hf s. unfold bindM. specialize (Hm s). destruct (m s) as [s1 [a|e]]; cbn [fst] in *; [|exact Hm].
  rewrite (Hf a s1). exact Hm.
Qed.
Lemma pendsame_tick it n : PendSame (tick it n).
Proof.
  intros s. unfold tick. destruct (n =? 0); [reflexivity|]. destruct it as [|k|j]; try reflexivity.
  destruct (j <=? nchecks s); [reflexivity|]. destruct (j <=? nchecks s + n); reflexivity.
Qed.
Lemma pendsame_emit it e : PendSame (emit it e).
Proof. intros s. unfold emit. destruct it as [|k|j]; try reflexivity. cbn [evs]. destruct (_ =? k); reflexivity. Qed.
Lemma pendsame_emit_all it l : PendSame (emit_all it l).
Proof.
  induction l as [|e l IH]; cbn [emit_all]; [apply pendsame_ret|].
  apply pendsame_bind; [apply pendsame_emit|intros _; exact IH].
Qed.
Lemma pendsame_send_imports c it inp : PendSame (send_imports c it inp).
Proof. unfold send_imports. destruct (_ && _); [apply pendsame_emit_all|apply pendsame_ret]. Qed.
Lemma pendsame_ac_phase c it hits : PendSame (ac_phase c it hits).
Proof.
  induction hits as [|lim hits IH]; cbn [ac_phase]; [apply pendsame_ret|].
  apply pendsame_bind; [apply pendsame_tick|]. intros _.
  apply pendsame_bind; [destruct (_ && _); [apply pendsame_emit_all|apply pendsame_ret]|intros _; exact IH].
Qed.

Lemma emit_all_never_checks l : forall s,
  exists s', emit_all Never l s = (s', inl tt) /\ nchecks s' = nchecks s.
Proof.
  induction l as [|e l IH]; intros s; cbn [emit_all]; [exists s; split; reflexivity|].
  unfold bindM, emit.
  destruct (IH {| pend := pend s; evs := e :: evs s; nchecks := nchecks s |}) as [s' [E Hn]].
  exists s'. split; [exact E|exact Hn].
Qed.

Lemma ac_phase_never_checks c hits : forall s,
  exists s', ac_phase c Never hits s = (s', inl tt) /\ nchecks s' = nchecks s + nlen hits.
Proof.
  induction hits as [|lim hits IH]; intros s; cbn [ac_phase].
  - exists s. split; [reflexivity|]. unfold nlen. cbn. lia.
  - unfold bindM, tick. replace (1 =? 0) with false by reflexivity.
    set (s1 := {| pend := pend s; evs := evs s; nchecks := nchecks s + 1 |}).
    destruct (c_cb c && c_ev_limit c).
    + destruct (emit_all_never_checks (map EvLimit lim) s1) as [s2 [E2 Hn2]]. rewrite E2.
      destruct (IH s2) as [s3 [E3 Hn3]]. exists s3. split; [exact E3|].
      rewrite Hn3, Hn2. subst s1. cbn [nchecks]. rewrite nlen_cons'. lia.
    + unfold ret. destruct (IH s1) as [s3 [E3 Hn3]]. exists s3. split; [exact E3|].
      rewrite Hn3. subst s1. cbn [nchecks]. rewrite nlen_cons'. lia.
Qed.

Lemma bind_fail_first {A B} (m : M A) (k : A -> M B) s s' e :
  m s = (s', inr e) -> bindM m k s = (s', inr e).
Proof. intros H. unfold bindM. rewrite H. reflexivity. Qed.

Definition s_init : sstate := {| pend := []; evs := []; nchecks := 0 |}.

Definition scan_p0 (c : cfg) (it : intr) (inp : inputs) : M unit := ac_phase c it (i_ac inp).

Definition scan_p1 (c : cfg) (it : intr) (inp : inputs) (sc : scanner) : M (ectx * bool) :=
  bindM (if c_direct c then ret tt else send_imports c it inp)
        (fun _ : unit => eval_globals c it inp (ctx0 sc (Some (i_matches inp))) (s_globals sc) false).

Definition scan_rest (c : cfg) (it : intr) (inp : inputs) (sc : scanner) (xu : ectx * bool) : M unit :=
  bindM (fixup c (fst xu)) (fun _ : unit =>
    if negb (c_nm c) && all_disabled (fst xu) then clear_pend
    else bindM (flush c it) (fun _ : unit =>
           bindM (eval_rules c it inp (fst xu) (s_rules sc) true) (fun _ : bool => ret tt))).

Lemma full_scan_split c it inp sc s :
  full_scan c it inp sc s
  = bindM (scan_p0 c it inp) (fun _ : unit => bindM (scan_p1 c it inp sc) (scan_rest c it inp sc)) s.
Proof.
  unfold full_scan, scan_p0, scan_p1, scan_rest, bindM.
  destruct (ac_phase c it (i_ac inp) s) as [st [u|e]]; [|reflexivity].
  destruct ((if c_direct c then ret tt else send_imports c it inp) st) as [si [u'|e]]; [|reflexivity].
  destruct (eval_globals c it inp (ctx0 sc (Some (i_matches inp))) (s_globals sc) false si) as [sg [[x u'']|e]];
    reflexivity.
Qed.

(* state after the string scan and the evaluation of the global rules, uninterrupted *)
Definition after_globals (c : cfg) (inp : inputs) (sc : scanner) : sstate :=
  fst (bindM (scan_p0 c Never inp) (fun _ : unit => scan_p1 c Never inp sc) s_init).

Lemma scan_rest_prefix c j inp sc xu sG :
  c_cb c = false -> nchecks sG < j ->
  exists more, pend (fst (scan_rest c Never inp sc xu sG))
               = pend (fst (scan_rest c (TimeoutAt j) inp sc xu sG)) ++ more.
Proof.
  intros Hcb Hsync. assert (Hit : TimeoutAt j <> Never) by discriminate.
  unfold scan_rest. unfold bindM at 1. unfold bindM at 3.
  assert (Hfix : forall s, fixup c (fst xu) s
                 = ({| pend := pend (fst (fixup c (fst xu) s)); evs := evs s; nchecks := nchecks s |}, inl tt)).
  { intros s. unfold fixup, bindM, get_pend, set_pend. destruct (c_nm c); reflexivity. }
  rewrite (Hfix sG).
  set (sF := {| pend := pend (fst (fixup c (fst xu) sG)); evs := evs sG; nchecks := nchecks sG |}).
  destruct (negb (c_nm c) && all_disabled (fst xu)).
  - exists []. symmetry. apply app_nil_r.
  - unfold flush. rewrite Hcb. unfold bindM, ret.
    destruct (goodp_eval_rules c (TimeoutAt j) Hit inp (s_rules sc) (fst xu) true) as [_ SR].
    specialize (SR sF ltac:(subst sF; cbn [insync nchecks]; exact Hsync)).
    destruct SR as [[_ Eq]|[Er [more Em]]].
    + rewrite Eq. exists []. symmetry. apply app_nil_r.
    + destruct (eval_rules c (TimeoutAt j) inp (fst xu) (s_rules sc) true sF) as [s2 r2]. cbn [fst snd] in *. subst r2.
      destruct (eval_rules c Never inp (fst xu) (s_rules sc) true sF) as [s1 [b|e]]; cbn [fst] in *;
        exists more; exact Em.
Qed.

(* C15, list API: the rules returned with a timeout are a prefix of the rules of the complete scan,
   provided the timeout does not fire while global rules are being evaluated (recorded finding) *)
Theorem timeout_rules_prefix c j inp sc :
  can_noscan c = false -> 1 <= j ->
  (j <= i_ac_checks inp \/ nchecks (after_globals c inp sc) < j) ->
  exists more, o_rules (run_scan c Never inp sc) = o_rules (run_scan c (TimeoutAt j) inp sc) ++ more.
Proof.
  intros Hns Hj Hwhere. unfold run_scan, do_scan. rewrite Hns.
  destruct (c_cb c) eqn:Hcb.
  { destruct (bindM _ _ _) as [s1 r1]. destruct (bindM _ _ _) as [s2 r2].
    cbn [o_rules]. exists []. reflexivity. }
  assert (Hit : TimeoutAt j <> Never) by discriminate.
  fold s_init.
  (* the import events of a direct scan are not sent to a list-API scan *)
  assert (Himp : forall it, (if c_direct c then send_imports c it inp else ret tt) s_init = (s_init, inl tt)).
  { intros it. unfold send_imports. rewrite Hcb. destruct (c_direct c); reflexivity. }
  assert (Hdrop : forall it, bindM (if c_direct c then send_imports c it inp else ret tt)
                                   (fun _ : unit => full_scan c it inp sc) s_init = full_scan c it inp sc s_init).
  { intros it. unfold bindM. rewrite Himp. reflexivity. }
  rewrite !Hdrop.
  rewrite !full_scan_split.
  destruct Hwhere as [Hac|Hafter].
  - (* fires during the string scan: nothing is pending yet *)
    destruct (good_ac_phase c (TimeoutAt j) Hit (i_ac inp)) as [_ S0].
    specialize (S0 s_init ltac:(cbn; lia)).
    destruct (ac_phase_never_checks c (i_ac inp) s_init) as [sN [EN Hn]].
    pose proof (pendsame_ac_phase c (TimeoutAt j) (i_ac inp) s_init) as Hp.
    destruct S0 as [[Hs1 _]|[Er _]].
    + exfalso. cbn [insync] in Hs1. rewrite EN in Hs1. cbn [fst] in Hs1. rewrite Hn in Hs1.
      unfold i_ac_checks in Hac. cbn [nchecks s_init] in Hs1. lia.
    + destruct (ac_phase c (TimeoutAt j) (i_ac inp) s_init) as [s2 r2] eqn:E2. cbn [fst snd] in *. subst r2.
      rewrite (bind_fail_first (scan_p0 c (TimeoutAt j) inp) _ s_init s2 ETimeout E2).
      destruct (bindM (scan_p0 c Never inp) _ s_init) as [s1 r1].
      cbn [o_rules]. rewrite Hp. cbn [pend s_init]. exists (pend s1). reflexivity.
  - (* fires after the global rules: both runs agree up to there *)
    set (P := fun it => bindM (scan_p0 c it inp) (fun _ : unit => scan_p1 c it inp sc)).
    assert (HP : Good (TimeoutAt j) (P Never) (P (TimeoutAt j))).
    { unfold P, scan_p0, scan_p1. apply good_bind; [apply good_ac_phase; exact Hit|]. intros _.
      apply good_bind; [destruct (c_direct c); [apply good_ret|apply good_send_imports; exact Hit]|]. intros _.
      apply good_eval_globals. exact Hit. }
    assert (Hassoc : forall it, bindM (scan_p0 c it inp) (fun _ : unit => bindM (scan_p1 c it inp sc) (scan_rest c it inp sc)) s_init
                                = bindM (P it) (scan_rest c it inp sc) s_init).
    { intros it. unfold P, bindM. destruct (scan_p0 c it inp s_init) as [st [u|e]]; reflexivity. }
    rewrite !Hassoc.
    destruct HP as [_ SP]. specialize (SP s_init ltac:(cbn; lia)).
    assert (Esame : P (TimeoutAt j) s_init = P Never s_init /\ nchecks (fst (P Never s_init)) < j).
    { destruct SP as [[Hs1 Eq]|[_ [Hat [Hck _]]]].
      - split; [exact Eq|]. exact Hafter.
      - exfalso. cbn [atpoint] in Hat. unfold after_globals in Hafter. fold (P Never) in Hafter. lia. }
    destruct Esame as [Esame HsyncG]. clear SP.
    unfold bindM. rewrite Esame.
    destruct (P Never s_init) as [sG rG]. cbn [fst] in HsyncG.
    destruct rG as [xu|e]; [|cbn [o_rules]; exists []; symmetry; apply app_nil_r].
    destruct (scan_rest_prefix c j inp sc xu sG Hcb HsyncG) as [more Em].
    destruct (scan_rest c Never inp sc xu sG) as [s1 r1]. destruct (scan_rest c (TimeoutAt j) inp sc xu sG) as [s2 r2].
    cbn [fst o_rules] in *. exists more. exact Em.
Qed.

(* ---- recorded finding C15-timeout-unvalidated-globals (open): witness ---- *)
Definition kf15_scanner : scanner :=
  {| s_globals := [{| r_ns := 0; r_id := 0; r_global := true; r_private := false; r_nvars := 0; r_cond := EBool true |};
                   {| r_ns := 0; r_id := 1; r_global := true; r_private := false; r_nvars := 0; r_cond := EBool false |}];
     s_rules := []; s_nns := 1 |}.
Definition kf15_inputs : inputs :=
  {| i_matches := []; i_ext := []; i_filesize := Some 2; i_mem := Some [97; 98]; i_ac := []; i_imports := [] |}.
Definition kf15_cfg : cfg :=
  {| c_full := true; c_nm := false; c_cb := false; c_ev_match := true; c_ev_nomatch := false; c_ev_import := false; c_ev_limit := false; c_direct := true;
     c_frag_noscan := false |}.

Lemma timeout_in_globals_refuted :
  o_rules (run_scan kf15_cfg Never kf15_inputs kf15_scanner) = []
  /\ map er_id (filter er_matched (o_rules (run_scan kf15_cfg (TimeoutAt 2) kf15_inputs kf15_scanner))) = [0]
  /\ ~ (2 <= i_ac_checks kf15_inputs \/ nchecks (after_globals kf15_cfg kf15_inputs kf15_scanner) < 2).
Proof.
  split; [vm_compute; reflexivity|]. split; [vm_compute; reflexivity|].
  vm_compute. intros [H|H]; [apply H; reflexivity|discriminate H].
Qed.
