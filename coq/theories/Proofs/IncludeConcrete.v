(* Proofs/IncludeConcrete.v — the generic include theorems instantiated on the concrete compiler
   state of Model/Include.v (rules, global rules, namespaces with imports and rule-set prefixes). *)
From Coq Require Import String.
From Boreal Require Import Base.Prelude Spec.IncludeSpec Model.Include Proofs.IncludeProofs.
Open Scope string_scope.
Open Scope list_scope.

(* two compiler states that a finalized scanner cannot tell apart: same rules and global rules, same
   content for every namespace name (a namespace that was only looked up is as good as absent), any
   callback log *)
Definition ceq (a b : cstate) : Prop :=
  c_rules a = c_rules b /\ c_globals a = c_globals b /\ forall ns, get_ns a ns = get_ns b ns.

Lemma ceq_refl : forall a, ceq a a.
Proof. intros a; repeat split. Qed.
Lemma ceq_sym : forall a b, ceq a b -> ceq b a.
Proof. intros a b (H1 & H2 & H3); repeat split; congruence. Qed.
Lemma ceq_trans : forall a b c, ceq a b -> ceq b c -> ceq a c.
Proof. intros a b c (H1 & H2 & H3) (H4 & H5 & H6); repeat split; try congruence. all: intros ns; rewrite H3; apply H6. Qed.

Lemma assoc_set_get : forall A (l : list (string * A)) k v k',
    assoc (assoc_set l k v) k' = if String.eqb k k' then Some v else assoc l k'.
Proof.
  induction l as [|[k0 v0] l IH]; intros k v k'; cbn [assoc assoc_set].
  - reflexivity.
  - destruct (String.eqb k0 k) eqn:E0; cbn [assoc].
    + apply String.eqb_eq in E0; subst k0. destruct (String.eqb k k'); reflexivity.
    + rewrite IH. destruct (String.eqb k k') eqn:E2; [|reflexivity].
      apply String.eqb_eq in E2; subst k'. rewrite E0. reflexivity.
Qed.

Lemma get_set : forall st ns n ns', get_ns (set_ns st ns n) ns' = if String.eqb ns ns' then n else get_ns st ns'.
Proof.
  intros st ns n ns'. unfold get_ns, set_ns; cbn [c_ns]. rewrite assoc_set_get.
  destruct (String.eqb ns ns'); reflexivity.
Qed.

Lemma c_touch_ceq : forall a ns, ceq (c_touch a ns) a.
Proof.
  intros a ns. unfold c_touch. destruct (assoc (c_ns a) ns) eqn:E; [apply ceq_refl|].
  repeat split. intros ns'. rewrite get_set. destruct (String.eqb ns ns') eqn:E1; [|reflexivity].
  apply String.eqb_eq in E1; subst ns'. unfold get_ns. rewrite E. reflexivity.
Qed.

Lemma c_log_ceq : forall a k, ceq (c_log_call a k) a.
Proof. intros a k; repeat split. Qed.

Lemma set_ns_ceq : forall a b ns n, ceq a b -> ceq (set_ns a ns n) (set_ns b ns n).
Proof.
  intros a b ns n (H1 & H2 & H3). repeat split; try assumption.
  intros ns'. rewrite !get_set. destruct (String.eqb ns ns'); [reflexivity|apply H3].
Qed.

Lemma c_step_ceq : forall a b ns x, ceq a b ->
    ceq (fst (c_step a ns x)) (fst (c_step b ns x)) /\ snd (c_step a ns x) = snd (c_step b ns x).
Proof.
  intros a b ns x H. pose proof H as (H1 & H2 & H3). unfold c_step. rewrite (H3 ns).
  destruct x as [m|r].
  - destruct (mem_str m available_modules); cbn [fst snd]; [|split; [exact H|reflexivity]].
    split; [apply set_ns_ceq; exact H|reflexivity].
  - destruct (existsb _ (n_forbidden (get_ns b ns))); cbn [fst snd]; [split; [exact H|reflexivity]|].
    destruct (compile_rule (get_ns b ns) r); cbn [fst snd]; [split; [exact H|reflexivity]|].
    destruct (mem_str (r_name r) (n_rules (get_ns b ns))); cbn [fst snd]; [split; [exact H|reflexivity]|].
    split; [|reflexivity].
    match goal with |- ceq (if _ then ?x else ?y) (if _ then ?x' else ?y') =>
      assert (Hs : ceq (set_ns a ns {| n_rules := n_rules (get_ns b ns) ++ [r_name r]; n_mods := n_mods (get_ns b ns);
                                       n_forbidden := n_forbidden (get_ns b ns) ++ r_wild r |})
                       (set_ns b ns {| n_rules := n_rules (get_ns b ns) ++ [r_name r]; n_mods := n_mods (get_ns b ns);
                                       n_forbidden := n_forbidden (get_ns b ns) ++ r_wild r |}))
        by (apply set_ns_ceq; exact H) end.
    destruct Hs as (S1 & S2 & S3).
    destruct (r_global r); repeat split; cbn [c_rules c_globals]; try congruence; exact S3.
Qed.

Lemma ceq_listing : forall a b, ceq a b -> listing a = listing b.
Proof. intros a b (H1 & H2 & _). unfold listing. rewrite H1, H2. reflexivity. Qed.
Lemma ceq_scan : forall a b, ceq a b -> scan_matched a = scan_matched b.
Proof. intros a b (H1 & H2 & _). unfold scan_matched. rewrite H1, H2. reflexivity. Qed.

(* ---------------------------------------------------------------- instances *)
Definition c_resolve := resolve plain cerr.
Definition c_compile := compile_items plain cstate cerr c_step c_touch.
Definition c_inline (en : env plain) (ns : string) :=
  inline plain cerr curdoc (c_resolve en ns) (e_disabled en).
Definition c_Inl (en : env plain) (ns : string) := Inl plain cerr curdoc (c_resolve en ns).
Definition c_item := item plain cerr.
Definition c_IPlain := IPlain plain cerr.
Definition c_doc_items := doc_items plain cerr curdoc.

Section Inst.
  Variable en : env plain.
  Variable ns : string.
  Notation INST f := (f plain cstate cerr c_step c_touch c_log_call ceq ceq_refl ceq_sym ceq_trans c_step_ceq
                        c_touch_ceq c_log_ceq en ns).

  Theorem c_add_doc_inline : forall d c doc a,
      let m := c_add_doc d en ns c doc a in
      let s := c_compile a ns (c_doc_items (c_inline en ns d) c doc) in
      snd m = snd s /\ listing (fst m) = listing (fst s) /\ scan_matched (fst m) = scan_matched (fst s).
  Proof.
    intros d c doc a.
    destruct (INST add_doc_inline d c doc a a (ceq_refl a)) as [H1 H2].
    cbn zeta. split; [exact H2|]. split; [apply ceq_listing|apply ceq_scan]; exact H1.
  Qed.

  Theorem c_transparent : forall d c cs a a1,
      c_add_doc d en ns c (FText cs) a = (a1, None) ->
      exists xs b1, c_Inl en ns d c cs xs /\ c_compile a ns (map c_IPlain xs) = (b1, None)
                    /\ listing a1 = listing b1 /\ scan_matched a1 = scan_matched b1.
  Proof.
    intros d c cs a a1 H.
    destruct (INST transparent_ok d c cs a a1 H) as (xs & b1 & H1 & H2 & H3).
    exists xs, b1. split; [exact H1|]. split; [exact H2|]. split; [apply ceq_listing|apply ceq_scan]; exact H3.
  Qed.

  Theorem c_transparent_complete : forall n d c cs xs a,
      c_Inl en ns n c cs xs -> (n <= d)%nat -> e_disabled en = false ->
      let m := c_add_doc d en ns c (FText cs) a in
      let s := c_compile a ns (map c_IPlain xs) in
      snd m = snd s /\ listing (fst m) = listing (fst s) /\ scan_matched (fst m) = scan_matched (fst s).
  Proof.
    intros n d c cs xs a HI Hn Hd.
    destruct (INST transparent_complete n d c cs xs a HI Hn Hd) as [H1 H2].
    cbn zeta. split; [exact H2|]. split; [apply ceq_listing|apply ceq_scan]; exact H1.
  Qed.

  Theorem c_Inl_functional : forall n m c cs xs ys, e_disabled en = false ->
      c_Inl en ns n c cs xs -> c_Inl en ns m c cs ys -> xs = ys.
  Proof. exact (INST Inl_functional). Qed.

  Theorem c_error_same : forall d c doc a a1 k,
      c_add_doc d en ns c doc a = (a1, Some k) ->
      exists b1, c_compile a ns (c_doc_items (c_inline en ns d) c doc) = (b1, Some k)
                 /\ listing a1 = listing b1 /\ scan_matched a1 = scan_matched b1.
  Proof.
    intros d c doc a a1 k H.
    destruct (INST error_same d c doc a a1 k H) as (b1 & H1 & H2).
    exists b1. split; [exact H1|]. split; [apply ceq_listing|apply ceq_scan]; exact H2.
  Qed.

  Theorem c_disabled : forall d c pre name post a b1,
      e_disabled en = true ->
      c_compile a ns (map c_IPlain pre) = (b1, None) ->
      exists a1, c_add_doc d en ns c (FText (map inr pre ++ inl name :: post)) a = (a1, Some EUnauthorized)
                 /\ listing a1 = listing b1 /\ c_log a1 = c_log a.
  Proof.
    intros d c pre name post a b1 Hd Hpre.
    destruct (INST disabled_unauthorized d c pre name post a b1 Hd Hpre) as (a1 & H1 & H2).
    exists a1. split; [exact H1|]. split; [apply ceq_listing; exact H2|].
    (* no callback is invoked: the log is unchanged *)
    clear H2 Hpre b1. revert a a1 H1. unfold c_add_doc. rewrite (INST add_doc_unfold). cbn [add_doc_with].
    generalize (mrec plain cstate cerr c_step c_touch c_log_call en ns d) as rc.
    intros rc. generalize (map (@inr string plain) pre ++ inl name :: post) as cs.
    induction cs as [|[nm|x] rest IH]; intros a a1 H; cbn [add_cs] in H.
    - discriminate.
    - rewrite Hd in H. inversion H; subst. unfold c_touch. destruct (assoc (c_ns a) ns); reflexivity.
    - destruct (c_step (c_touch a ns) ns x) as [a' [e|]] eqn:Hs; [discriminate|].
      rewrite (IH _ _ H).
      assert (Hl : forall s y, c_log (fst (c_step s ns y)) = c_log s).
      { intros s y. unfold c_step. destruct y as [m|r].
        - destruct (mem_str m available_modules); reflexivity.
        - destruct (existsb _ _); [reflexivity|]. destruct (compile_rule _ r); [reflexivity|].
          destruct (mem_str _ _); [reflexivity|]. destruct (r_global r); reflexivity. }
      specialize (Hl (c_touch a ns) x). rewrite Hs in Hl. cbn [fst] in Hl. rewrite Hl.
      unfold c_touch. destruct (assoc (c_ns a) ns); reflexivity.
  Qed.

  (* the recursion of the code as written, with the limit of the fix, always returns *)
  Theorem c_total : forall fuel c doc a, (MAX_INCLUDE_DEPTH < fuel)%nat ->
      c_add_doc_fuel (Some MAX_INCLUDE_DEPTH) fuel 0 en ns c doc a = Some (c_add_doc MAX_INCLUDE_DEPTH en ns c doc a).
  Proof.
    intros fuel c doc a H. unfold c_add_doc_fuel, c_add_doc.
    rewrite (INST fuel_enough MAX_INCLUDE_DEPTH fuel 0%nat c doc a) by lia.
    rewrite Nat.sub_0_r. reflexivity.
  Qed.

  Theorem c_cycle : forall c name, e_disabled en = false ->
      c_resolve en ns c name = inr (c, FText [inl name]) ->
      forall a, snd (c_add_doc MAX_INCLUDE_DEPTH en ns c (FText [inl name]) a) = Some ETooDeep.
  Proof. intros c name Hd Hr a. exact (INST cycle_too_deep c name Hd Hr _ a). Qed.
End Inst.

(* the statements at the depth limit of the code *)
Lemma c_transparent_max : forall en ns c cs a a1,
    c_add_doc MAX_INCLUDE_DEPTH en ns c (FText cs) a = (a1, None) ->
    exists xs b1, c_Inl en ns MAX_INCLUDE_DEPTH c cs xs
                  /\ c_compile a ns (map c_IPlain xs) = (b1, None)
                  /\ listing a1 = listing b1 /\ scan_matched a1 = scan_matched b1.
Proof. intros en ns. exact (c_transparent en ns MAX_INCLUDE_DEPTH). Qed.

Lemma c_transparent_complete_max : forall en ns n c cs xs a,
    c_Inl en ns n c cs xs -> (n <= MAX_INCLUDE_DEPTH)%nat -> e_disabled en = false ->
    let m := c_add_doc MAX_INCLUDE_DEPTH en ns c (FText cs) a in
    let s := c_compile a ns (map c_IPlain xs) in
    snd m = snd s /\ listing (fst m) = listing (fst s) /\ scan_matched (fst m) = scan_matched (fst s).
Proof. intros en ns n. exact (c_transparent_complete en ns n MAX_INCLUDE_DEPTH). Qed.

Lemma c_error_same_max : forall en ns c doc a a1 k,
    c_add_doc MAX_INCLUDE_DEPTH en ns c doc a = (a1, Some k) ->
    exists b1, c_compile a ns (c_doc_items (c_inline en ns MAX_INCLUDE_DEPTH) c doc) = (b1, Some k)
               /\ listing a1 = listing b1 /\ scan_matched a1 = scan_matched b1.
Proof. intros en ns. exact (c_error_same en ns MAX_INCLUDE_DEPTH). Qed.

Lemma c_callback_verbatim : forall en ns tbl rc c name a,
    e_cb en = Some tbl -> e_disabled en = false ->
    add_cs plain cstate cerr c_step c_touch c_log_call (Some rc) en ns c [inl name] a =
    let a1 := c_log_call (c_touch a ns) (name, cur_arg c, ns) in
    match cb_lookup tbl name (cur_arg c) ns with
    | None => (a1, Some EInvalidInclude)
    | Some doc => match rc (CurRaw name) doc a1 with (a2, None) => (a2, None) | bad => bad end
    end.
Proof.
  intros en ns.
  exact (callback_verbatim plain cstate cerr c_step c_touch c_log_call ceq ceq_refl ceq_sym ceq_trans
                           c_step_ceq c_touch_ceq c_log_ceq en ns).
Qed.

Lemma c_walk_Resolves : forall (fs : fsys plain) segs d q, walk fs d segs = Some q <-> Resolves fs d segs q.
Proof. exact (walk_Resolves plain). Qed.

(* the limit is tight: a self-including file needs all 17 levels (16 nested directives + the document itself) *)
Theorem c_total_tight :
  exists (en : env plain) ns c doc a, c_add_doc_fuel (Some MAX_INCLUDE_DEPTH) MAX_INCLUDE_DEPTH 0 en ns c doc a = None.
Proof.
  exists (self_env plain), "default", CurNone, (self_doc plain), cstate_empty. vm_compute. reflexivity.
Qed.

(* inlining = concatenation in document (depth-first) order; no include-once *)
Theorem c_inline_concat : forall en ns d c cs,
    c_inline en ns d c cs
    = flat_map (expand plain cerr en ns (srec plain cerr en ns d) c) cs.
Proof.
  intros en ns d c cs.
  exact (inline_concat plain cstate cerr c_step c_touch c_log_call ceq ceq_refl ceq_sym ceq_trans c_step_ceq
                       c_touch_ceq c_log_ceq en ns d c cs).
Qed.

Theorem c_include_twice : forall en ns d c name rest,
    c_inline en ns d c (inl name :: inl name :: rest)
    = expand plain cerr en ns (srec plain cerr en ns d) c (inl name)
      ++ expand plain cerr en ns (srec plain cerr en ns d) c (inl name) ++ c_inline en ns d c rest.
Proof.
  intros en ns d c name rest.
  exact (include_twice plain cstate cerr c_step c_touch c_log_call ceq ceq_refl ceq_sym ceq_trans c_step_ceq
                       c_touch_ceq c_log_ceq en ns d c name rest).
Qed.

(* consequence for rules: a rule that compiled cannot be compiled a second time into the same namespace
   (so a file holding a rule, included twice, is an error — duplicate rule, or its own rule-set prefix) *)
Lemma get_ns_touch : forall st ns ns', get_ns (c_touch st ns) ns' = get_ns st ns'.
Proof. intros st ns ns'. destruct (c_touch_ceq st ns) as (_ & _ & H). apply H. Qed.

Lemma mem_str_app_r : forall x l, mem_str x (l ++ [x]) = true.
Proof.
  intros x l. unfold mem_str. rewrite existsb_app. cbn [existsb]. rewrite String.eqb_refl.
  rewrite orb_true_r. reflexivity.
Qed.

Theorem c_rule_twice_fails : forall st ns r st1,
    c_step (c_touch st ns) ns (PRule r) = (st1, None) ->
    exists e, snd (c_step (c_touch st1 ns) ns (PRule r)) = Some e /\ (e = CDupRule \/ e = CWildcard).
Proof.
  intros st ns r st1 H. unfold c_step in H. rewrite get_ns_touch in H.
  set (n := get_ns st ns) in *.
  destruct (existsb (fun p => String.prefix p (r_name r)) (n_forbidden n)) eqn:Ef; [discriminate|].
  destruct (compile_rule n r) as [e|] eqn:Ec; [discriminate|].
  destruct (mem_str (r_name r) (n_rules n)) eqn:Em; [discriminate|].
  set (n' := {| n_rules := n_rules n ++ [r_name r]; n_mods := n_mods n; n_forbidden := n_forbidden n ++ r_wild r |}) in *.
  assert (Hn1 : get_ns st1 ns = n').
  { destruct (r_global r); inversion H; subst st1;
      (transitivity (get_ns (set_ns (c_touch st ns) ns n') ns);
       [reflexivity | rewrite get_set, String.eqb_refl; reflexivity]). }
  unfold c_step. rewrite get_ns_touch, Hn1.
  destruct (existsb (fun p => String.prefix p (r_name r)) (n_forbidden n')) eqn:Ef'.
  - exists CWildcard. split; [reflexivity|right; reflexivity].
  - assert (Hc' : compile_rule n' r = None).
    { unfold compile_rule in *. destruct (r_bad r); [discriminate|].
      destruct (forallb (fun d => mem_str d (n_rules n)) (r_deps r)
                && forallb (fun m => mem_str m (n_mods n)) (r_mods r)
                && forallb (fun p => existsb (String.prefix p) (n_rules n)) (r_wild r)) eqn:Eall; [|discriminate].
      apply andb_true_iff in Eall as [Eall E3]. apply andb_true_iff in Eall as [E1 E2].
      cbn [n' n_rules n_mods].
      assert (F1 : forallb (fun d => mem_str d (n_rules n ++ [r_name r])) (r_deps r) = true).
      { rewrite forallb_forall in *. intros d Hd. specialize (E1 d Hd). unfold mem_str in *.
        rewrite existsb_app, E1. reflexivity. }
      assert (F3 : forallb (fun p => existsb (String.prefix p) (n_rules n ++ [r_name r])) (r_wild r) = true).
      { rewrite forallb_forall in *. intros d Hd. specialize (E3 d Hd). rewrite existsb_app, E3. reflexivity. }
      rewrite F1, E2, F3. reflexivity. }
    rewrite Hc'. cbn [n' n_rules]. rewrite mem_str_app_r.
    exists CDupRule. split; [reflexivity|left; reflexivity].
Qed.

(* the pinned tree: the same code without the limit does not return on a self-including file *)
Theorem c_pinned_refuted :
  exists (en : env plain) ns c doc, forall fuel a, c_add_doc_fuel None fuel 0 en ns c doc a = None.
Proof.
  exists (self_env plain), "default", CurNone, (self_doc plain). intros fuel a.
  exact (proj2 (self_include_diverges plain cstate cerr c_step c_touch c_log_call fuel 0 CurNone a) eq_refl).
Qed.

(* path resolution, file-system mode *)
Theorem c_nested_relative : forall (en : env plain) p name isegs,
    Reach plain (e_fs en) p -> segs_of name = (false, isegs) ->
    fs_target plain en (CurCanon p) name = walk (e_fs en) (removelast p) isegs.
Proof.
  intros en p name isegs Hr Hs. unfold fs_target. rewrite Hs. apply walk_from_parent. exact Hr.
Qed.

Theorem c_target_reach : forall (en : env plain) c name q,
    Reach plain (e_fs en) (e_cwd en) ->
    fs_target plain en c name = Some q -> Reach plain (e_fs en) q.
Proof.
  intros en c name q Hcwd. unfold fs_target. destruct (segs_of name) as [abs isegs].
  destruct abs; [apply walk_Reach, Reach_nil|].
  destruct c as [|s|p].
  - apply walk_Reach; exact Hcwd.
  - destruct (segs_of s) as [sabs ssegs]. apply walk_Reach. destruct sabs; [apply Reach_nil|exact Hcwd].
  - apply walk_Reach, Reach_nil.
Qed.
