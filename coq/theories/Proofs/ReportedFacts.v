(* Proofs/ReportedFacts.v — C05, read from the result list of the model of the scan: whatever the
   configuration, a reported rule is a non-private rule of the set, carrying its own id and namespace;
   and a rule flagged "not matched" is reported only when not-matched rules were asked for. *)
From Boreal Require Import Base.Prelude Base.Res Model.Eval Spec.CondSem Model.EvalCost Model.Scanner Spec.RuleSetSpec
     Proofs.ScannerProofs Proofs.NoScanScannerProofs.

Lemma spec_verdicts_rule sc inp rb :
  In rb (spec_verdicts sc inp) -> In (fst rb) (s_globals sc ++ s_rules sc).
Proof.
  unfold spec_verdicts. intros H. apply in_app_or in H. apply in_or_app.
  destruct rb as [r b]. cbn [fst].
  destruct H as [H|H]; [left|right]; exact (in_combine_l _ _ _ _ H).
Qed.

Lemma spec_reported_facts sc inp nm e :
  In e (spec_reported sc inp nm) ->
  (exists r, In r (s_globals sc ++ s_rules sc) /\ r_private r = false
             /\ er_id e = r_id r /\ er_ns e = r_ns r)
  /\ (nm = false -> er_matched e = true).
Proof.
  unfold spec_reported. intros H. apply in_map_iff in H. destruct H as [rb [<- H]].
  apply filter_In in H. destruct H as [Hin Hf]. apply andb_true_iff in Hf. destruct Hf as [Hp Hm].
  split.
  - exists (fst rb). split; [exact (spec_verdicts_rule sc inp rb Hin)|].
    split; [now apply negb_true_iff in Hp|]. split; reflexivity.
  - intros ->. cbn [er_matched]. now rewrite orb_false_r in Hm.
Qed.

Theorem reported_rules_facts c inp sc e :
  c_cb c = false ->
  wf_scanner inp sc = true -> ns_bound (s_nns sc) (s_globals sc) -> ns_bound (s_nns sc) (s_rules sc) ->
  In e (o_rules (run_scan c Never inp sc)) ->
  (exists r, In r (s_globals sc ++ s_rules sc) /\ r_private r = false
             /\ er_id e = r_id r /\ er_ns e = r_ns r)
  /\ (c_nm c = false -> er_matched e = true).
Proof.
  intros Hc Hwf Hg Hr Hin.
  destruct (run_scan_list_spec_any c inp sc Hc Hwf Hg Hr) as [_ E].
  rewrite E in Hin. exact (spec_reported_facts sc inp (c_nm c) e Hin).
Qed.
