(* Proofs/CallGraphFlow.v — soundness of `check_prog` (the `balanced` predicate of the C08 checker):
   a certificate that passes the node-by-node check holds on every path of the function's control-flow
   graph, for every value of the counter on entry.  Consequences: every Ok exit hands back the entry
   counter, the counter never goes below it, and every call site runs its callees with entry + call_delta. *)
From Boreal Require Import Base.Prelude Model.CallGraphCheck.

Lemma elook_eset : forall e v d w, elook (eset e v d) w = if Nat.eqb v w then Some d else elook e w.
Proof. intros e v d w. unfold eset. cbn [elook]. reflexivity. Qed.

Lemma elook_In : forall e v d, elook e v = Some d -> In (v, d) e.
Proof.
  induction e as [|[w x] e IH]; intros v d H; cbn [elook] in H; [discriminate|].
  destruct (Nat.eqb w v) eqn:E.
  - apply Nat.eqb_eq in E. inversion H; subst. left; reflexivity.
  - right. apply IH; exact H.
Qed.

Lemma sub_env_look : forall a b, sub_env a b = true -> forall v d, elook a v = Some d -> elook b v = Some d.
Proof.
  intros a b H v d Hl. unfold sub_env in H. rewrite forallb_forall in H.
  specialize (H (v, d) (elook_In _ _ _ Hl)). cbn [fst snd] in H.
  destruct (elook b v) as [d'|]; [|discriminate]. apply Nat.eqb_eq in H. subst; reflexivity.
Qed.

Lemma all_eq_look : forall e srcs d, all_eq e srcs = Some d -> forall s, In s srcs -> elook e s = Some d.
Proof.
  intros e [|s0 r] d H s Hin; [contradiction|]. cbn [all_eq] in H.
  destruct (elook e s0) as [d0|] eqn:E0; [|discriminate].
  destruct (forallb _ r) eqn:Ef; [|discriminate]. inversion H; subst d0.
  destruct Hin as [->|Hin]; [exact E0|].
  rewrite forallb_forall in Ef. specialize (Ef s Hin).
  destruct (elook e s) as [d'|]; [|discriminate]. apply Nat.eqb_eq in Ef. subst; reflexivity.
Qed.

(* ---- concrete runs: the counters are numbers, a bind takes the counter of any of its sources *)
Inductive cstep : ginstr -> env -> env -> Prop :=
| cs_nop : forall e, cstep INop e e
| cs_call : forall cs ss e, cstep (ICall cs ss) e e
| cs_inc : forall v e m, elook e v = Some m -> cstep (IInc v) e (eset e v (S m))
| cs_dec : forall v e m, elook e v = Some (S m) -> cstep (IDec v) e (eset e v m)
| cs_bind : forall dst srcs s e m, In s srcs -> elook e s = Some m -> cstep (IBind dst srcs) e (eset e dst m).

(* reach p c k e: node k can be reached with concrete carrier values e when the function is entered with counter c *)
Inductive reach (p : gprog) (c : nat) : nat -> env -> Prop :=
| r_entry : reach p c O (init_env p c)
| r_step : forall k n e e' s,
    reach p c k e -> nth_error (gp_nodes p) k = Some n -> cstep (gn_instr n) e e' -> In s (gn_succs n) ->
    reach p c s e'.

Definition agrees (c : nat) (cert e : env) : Prop :=
  forall v d, elook cert v = Some d -> elook e v = Some (c + d)%nat.

Lemma init_agrees : forall p c, agrees c (init_env p O) (init_env p c).
Proof.
  intros p c v d. unfold init_env. induction (gp_params p) as [|w ps IH]; cbn [map elook]; [discriminate|].
  destruct (Nat.eqb w v); [|exact IH]. intros H; inversion H; subst. rewrite Nat.add_0_r. reflexivity.
Qed.

Lemma step_agrees : forall c i cert cert' e e',
    agrees c cert e -> atransfer i cert = Some cert' -> cstep i e e' -> agrees c cert' e'.
Proof.
  intros c i cert cert' e e' Ha Ht Hs. destruct Hs; cbn [atransfer] in Ht.
  - inversion Ht; subst; exact Ha.
  - inversion Ht; subst; exact Ha.
  - destruct (elook cert v) as [d|] eqn:E; [|discriminate]. inversion Ht; subst cert'.
    pose proof (Ha v d E) as Hv. rewrite H in Hv. inversion Hv; subst m.
    intros w x. rewrite !elook_eset. destruct (Nat.eqb v w); [|apply Ha].
    intros Hx; inversion Hx; subst. f_equal. lia.
  - destruct (elook cert v) as [[|d]|] eqn:E; try discriminate. inversion Ht; subst cert'.
    pose proof (Ha v (S d) E) as Hv. rewrite H in Hv. inversion Hv.
    intros w x. rewrite !elook_eset. destruct (Nat.eqb v w); [|apply Ha].
    intros Hx; inversion Hx; subst. f_equal. lia.
  - destruct (all_eq cert srcs) as [d|] eqn:E; [|discriminate]. inversion Ht; subst cert'.
    pose proof (Ha s d (all_eq_look _ _ _ E s H)) as Hv. rewrite H0 in Hv. inversion Hv; subst m.
    intros w x. rewrite !elook_eset. destruct (Nat.eqb dst w); [|apply Ha].
    intros Hx; inversion Hx; subst. reflexivity.
Qed.

(* the soundness lemma of `balanced` *)
Theorem cert_sound : forall p, check_prog p = true ->
  forall c k e, reach p c k e ->
    exists n, nth_error (gp_nodes p) k = Some n /\ agrees c (gn_cert n) e.
Proof.
  intros p Hc c k e Hr. unfold check_prog in Hc. apply andb_true_iff in Hc as [H0 Hall].
  rewrite forallb_forall in Hall.
  induction Hr as [|k n e e' s Hr IH Hn Hs Hin].
  - destruct (gp_nodes p) as [|n0 ns]; [discriminate|]. exists n0. split; [reflexivity|].
    intros v d Hl. apply (init_agrees p c). eapply sub_env_look; eassumption.
  - destruct IH as (n1 & Hn1 & Ha). rewrite Hn in Hn1. inversion Hn1; subst n1.
    pose proof (Hall n (nth_error_In _ _ Hn)) as Hck. unfold check_node in Hck.
    destruct (atransfer (gn_instr n) (gn_cert n)) as [cert'|] eqn:Ht; [|discriminate].
    rewrite forallb_forall in Hck. specialize (Hck s Hin).
    destruct (nth_error (gp_nodes p) s) as [n'|]; [|discriminate].
    exists n'. split; [reflexivity|].
    pose proof (step_agrees c _ _ _ _ _ Ha Ht Hs) as Ha'.
    intros v d Hl. apply Ha'. eapply sub_env_look; eassumption.
Qed.

(* every Ok exit hands back the counter the function was entered with *)
Corollary ok_exit_balanced : forall p, check_prog p = true ->
  forall c k e n v, reach p c k e -> nth_error (gp_nodes p) k = Some n -> gn_instr n = IRetOk v ->
    elook e v = Some c.
Proof.
  intros p Hc c k e n v Hr Hn Hi. destruct (cert_sound p Hc c k e Hr) as (n1 & Hn1 & Ha).
  rewrite Hn in Hn1; inversion Hn1; subst n1.
  unfold check_prog in Hc. apply andb_true_iff in Hc as [_ Hall]. rewrite forallb_forall in Hall.
  pose proof (Hall n (nth_error_In _ _ Hn)) as Hck. unfold check_node in Hck. rewrite Hi in Hck. cbn [atransfer] in Hck.
  destruct (elook (gn_cert n) v) as [[|d]|] eqn:E; try discriminate.
  rewrite (Ha v O E). f_equal. lia.
Qed.

(* the counter of a carrier the certificate knows is never below the entry counter *)
Corollary never_below_entry : forall p, check_prog p = true ->
  forall c k e n v d, reach p c k e -> nth_error (gp_nodes p) k = Some n -> elook (gn_cert n) v = Some d ->
    exists m, elook e v = Some m /\ (c <= m)%nat.
Proof.
  intros p Hc c k e n v d Hr Hn Hl. destruct (cert_sound p Hc c k e Hr) as (n1 & Hn1 & Ha).
  rewrite Hn in Hn1; inversion Hn1; subst n1. exists (c + d)%nat. split; [apply Ha; exact Hl|lia].
Qed.

(* the callees of a call node run with at least entry + call_delta on every carrier the expression mentions *)
Lemma call_delta_le : forall cert srcs s d, In s srcs -> elook cert s = Some d -> (call_delta cert srcs <= d)%nat.
Proof.
  intros cert srcs s d Hin Hl. destruct srcs as [|s0 r]; [contradiction|]. unfold call_delta.
  revert Hin. generalize (s0 :: r) as l. induction l as [|x l IH]; intros Hin; [contradiction|].
  cbn [fold_right]. destruct Hin as [->|Hin].
  - rewrite Hl. lia.
  - specialize (IH Hin). destruct (elook cert x); lia.
Qed.

Corollary call_counter : forall p, check_prog p = true ->
  forall c k e n cs srcs s d, reach p c k e -> nth_error (gp_nodes p) k = Some n -> gn_instr n = ICall cs srcs ->
    In s srcs -> elook (gn_cert n) s = Some d ->
    exists m, elook e s = Some m /\ (c + call_delta (gn_cert n) srcs <= m)%nat.
Proof.
  intros p Hc c k e n cs srcs s d Hr Hn Hi Hin Hl. destruct (cert_sound p Hc c k e Hr) as (n1 & Hn1 & Ha).
  rewrite Hn in Hn1; inversion Hn1; subst n1. exists (c + d)%nat. split; [apply Ha; exact Hl|].
  pose proof (call_delta_le _ _ _ _ Hin Hl). lia.
Qed.

(* what `progs_ok` gives for the graph *)
Lemma progs_ok_balanced : forall g, guards_cut_all_cycles g = true -> forall p, In p (cg_progs g) -> check_prog p = true.
Proof.
  intros g Hg p Hin. unfold guards_cut_all_cycles in Hg. apply andb_true_iff in Hg as [_ Hp].
  unfold progs_ok in Hp. apply andb_true_iff in Hp as [Hp _]. rewrite forallb_forall in Hp.
  specialize (Hp p Hin). do 3 (apply andb_true_iff in Hp as [Hp _]). exact Hp.
Qed.

Lemma progs_ok_uncovered_in_copy : forall g, guards_cut_all_cycles g = true ->
  forall p n cs srcs callee, In p (cg_progs g) -> In n (gp_nodes p) -> gn_instr n = ICall cs srcs -> In callee cs ->
    if Nat.leb 1 (call_delta (gn_cert n) srcs) then is_edge g (gp_fn p) callee = true
    else exists f', gp_copy p = Some f' /\ guarded g f' = false /\ is_edge g f' callee = true.
Proof.
  intros g Hg p n cs srcs callee Hin Hn Hi Hc. unfold guards_cut_all_cycles in Hg. apply andb_true_iff in Hg as [_ Hp].
  unfold progs_ok in Hp. apply andb_true_iff in Hp as [Hp _]. rewrite forallb_forall in Hp. specialize (Hp p Hin).
  apply andb_true_iff in Hp as [Hp _]. apply andb_true_iff in Hp as [Hp Hcopy]. apply andb_true_iff in Hp as [_ Hm].
  unfold prog_matches in Hm. rewrite forallb_forall in Hm. specialize (Hm n Hn). rewrite Hi in Hm.
  destruct (Nat.leb 1 (call_delta (gn_cert n) srcs)).
  - rewrite forallb_forall in Hm. apply Hm; exact Hc.
  - destruct (gp_copy p) as [f'|] eqn:Ec; [|discriminate]. exists f'. split; [reflexivity|].
    unfold copy_ok in Hcopy. rewrite Ec in Hcopy. apply andb_true_iff in Hcopy as [Hng _].
    split; [apply negb_true_iff in Hng; exact Hng|]. rewrite forallb_forall in Hm. apply Hm; exact Hc.
Qed.
