(* Proofs/CliProofs.v — lemmas about Model/Cli.v: option -> ScanParams mapping, thread count,
   instantiation of the pool theorems at the CLI's producer / worker. *)
From Coq Require Import String Ascii Permutation.
From Boreal Require Import Base.Prelude Spec.CliSpec Model.Cli Model.Pool Proofs.PoolProofs.

(* ------------------------------------------------------------------ options -> ScanParams *)
Lemma opt_eqb_N_refl (x : option N) : opt_eqb N.eqb x x = true.
Proof. destruct x; cbn; [ apply N.eqb_refl | reflexivity ]. Qed.

(* the parameters main.rs installs meet the documented meaning of the options, for all options *)
Theorem params_meet_spec : forall s o, spec_params_ok s o (params_of_flags s o) = true.
Proof.
  intros [mcs to mfr fm smax] [os ol ox om ons ot oc ost omd omml olim oid otag oneg ow].
  unfold spec_params_ok, params_of_flags, update_params_from_callback_options, build_scan_params, print_strings,
    print_strings_matches.
  cbn [s_memory_chunk_size s_timeout s_max_fetched_region_size s_frag_mode s_string_max_nb_matches
       o_strings o_length o_xor o_meta o_ns o_tags o_count o_stats o_module_data o_match_max_length o_limit
       o_ident o_tag o_negate o_warning].
  assert (E : forall b, Bool.eqb b b = true) by (intros []; reflexivity).
  destruct omml, smax, mfr, fm;
    cbn [p_full_matches p_match_max_length p_string_max_nb_matches p_include_not_matched p_events p_statistics
         p_memory_chunk_size p_timeout p_max_fetched_region_size p_frag_mode
         set_match_max_length set_string_max set_frag_mode set_max_fetched set_timeout set_memory_chunk_size
         default_params dflt];
    rewrite ?E, ?N.eqb_refl, ?opt_eqb_N_refl; cbn [andb];
    destruct ow, omd, ost, oneg; vm_compute; reflexivity.
Qed.

(* params_eqb is equality *)
Lemma params_eqb_refl p : params_eqb p p = true.
Proof.
  unfold params_eqb. assert (E : forall b, Bool.eqb b b = true) by (intros []; reflexivity).
  now rewrite !E, !N.eqb_refl, !opt_eqb_N_refl.
Qed.

(* ------------------------------------------------------------------ thread count *)
Theorem nb_threads_positive : forall io available, 1 <= available -> 1 <= nb_threads io available.
Proof. intros io a Ha. unfold nb_threads. destruct (i_threads io); lia. Qed.

Theorem channel_capacity_positive : forall io available, 1 <= available ->
  5 <= channel_capacity (nb_threads io available).
Proof. intros io a Ha. pose proof (nb_threads_positive io a Ha). unfold channel_capacity. lia. Qed.

(* pinned tree: `--threads 0` gave a pool without workers (send on a disconnected channel panics),
   and every `--threads n` ran at most one worker *)
Theorem nb_threads_pinned_refuted :
  exists io, nb_threads_pinned io 16 = 0.
Proof.
  exists {| i_scan_list := false; i_no_follow := false; i_recursive := false; i_skip_larger := None;
            i_no_mmap := false; i_threads := Some 0 |}.
  reflexivity.
Qed.
Theorem nb_threads_pinned_at_most_one : forall io n available, i_threads io = Some n -> nb_threads_pinned io available <= 1.
Proof. intros io n a H. unfold nb_threads_pinned. rewrite H. lia. Qed.

(* ------------------------------------------------------------------ the pool at the CLI's types *)
Section CliPool.
  Variable o : cb_options.
  Variable io : in_options.
  Variable lib : libfn.
  Variable t : target.
  Variable n cap : nat.

  Definition cli_state := Pool.state bytes line.
  Definition cli_init : cli_state := init (producer io t) n.
  Definition cli_reachable := reachable (worker_blocks o lib) cap cli_init.

  Lemma sent_files_eq acts : sent_files acts = sent_of acts.
  Proof. reflexivity. Qed.
  Lemma producer_lines_eq acts : producer_lines acts = said_of acts.
  Proof. reflexivity. Qed.

  Theorem cli_exactly_once : forall s, cli_reachable s -> terminal s ->
    Permutation (scanned s) (sent_files (producer io t)).
  Proof. intros s R T. rewrite sent_files_eq. eapply exactly_once; eauto. Qed.

  Theorem cli_multiset : forall s, (forall p, t <> TFile p) -> cli_reachable s -> terminal s ->
    Permutation (out s) (fst (cli_run o io lib t)).
  Proof.
    intros s NF R T.
    assert (E : fst (cli_run o io lib t)
                = said_of (producer io t) ++ flat_map (lines_of (worker_blocks o lib)) (sent_of (producer io t))).
    { destruct t; [ reflexivity | exfalso; eapply NF; reflexivity | reflexivity ]. }
    rewrite E. eapply output_multiset; eauto.
  Qed.

  Theorem cli_stdout_multiset : forall s, (forall p, t <> TFile p) -> cli_reachable s -> terminal s ->
    Permutation (stdout_of (out s)) (stdout_of (fst (cli_run o io lib t))).
  Proof.
    intros s NF R T. unfold stdout_of. apply Permutation_flat_map. now apply cli_multiset.
  Qed.

  (* blocks are never split and every file's blocks keep their order *)
  Theorem cli_interleaving : forall s, cli_reachable s -> terminal s ->
    out s = concat (log s)
    /\ Permutation (scanned s) (sent_files (producer io t))
    /\ MergeR (map (fun l => [l]) (producer_lines (producer io t)) :: map (worker_blocks o lib) (scanned s)) (log s).
  Proof. intros s R T. eapply output_interleaving; eauto. Qed.

  Theorem cli_progress : forall s, (0 < n)%nat -> (0 < cap)%nat -> cli_reachable s -> ~ terminal s ->
    exists s', step (worker_blocks o lib) cap s s'.
  Proof. intros s Hn Hc R NT. exact (progress _ _ (worker_blocks o lib) cap (producer io t) n s Hn Hc R NT). Qed.

  Theorem cli_completes : forall s, (0 < n)%nat -> (0 < cap)%nat -> cli_reachable s ->
    exists k s', run _ _ (worker_blocks o lib) cap k s s' /\ terminal s'.
  Proof. intros s Hn Hc R. exact (completes _ _ (worker_blocks o lib) cap (producer io t) n s Hn Hc R). Qed.

  Theorem cli_run_bounded : forall k s s', run _ _ (worker_blocks o lib) cap k s s' ->
    (k + measure (worker_blocks o lib) s' <= measure (worker_blocks o lib) s)%nat.
  Proof. intros. eapply run_bounded; eauto. Qed.
End CliPool.

(* ------------------------------------------------------------------ rendering: model = documented format *)
(* Contract of the library assumed here (it is the subject of C05/C15, and is checked on every
   generated case by CliCase.v, which evaluates model and specification on the two APIs' actual
   answers): under params_of_flags the callback API delivers, in result-list order, one rule event
   per non-private rule whose verdict is the wanted one, carrying the declared namespace / name /
   tags / metadata and the match lists of the non-private strings. *)
Definition event_of (ds : list decl) (r : rres) : event :=
  match find_decl ds (rr_ns r) (rr_name r) with
  | Some d => EvRule (rr_matched r) (d_info d) (rr_strings r)
  | None => EvOther
  end.
Definition lib_events (o : cb_options) (ds : list decl) (rs : list rres) : list event :=
  map (event_of ds) (filter (wanted o) rs).

Definition results_ok (ds : list decl) (rs : list rres) : Prop :=
  forall r, In r rs -> exists d, find_decl ds (rr_ns r) (rr_name r) = Some d /\ d_private d = false
                                 /\ forall s, In s (rr_strings r) -> string_is_private d (fst s) = false.

Lemma bytes_eqb_sym a b : bytes_eqb a b = bytes_eqb b a.
Proof.
  unfold bytes_eqb. revert b. induction a as [|x a IH]; intros [|y b]; cbn [list_eqb]; auto.
  now rewrite IH, N.eqb_sym.
Qed.

Lemma print_bytes_escaped data key : print_bytes data key = escaped (xor_bytes key data).
Proof.
  unfold print_bytes, escaped, xor_bytes. induction data as [|c data IH]; cbn [flat_map map]; [ reflexivity | ].
  now rewrite IH.
Qed.

Lemma xor_bytes_0 data : xor_bytes 0 data = data.
Proof.
  unfold xor_bytes. induction data as [|c data IH]; cbn [map]; [ reflexivity | ].
  now rewrite IH, N.lxor_0_r.
Qed.

Lemma print_match_eq o sname m : print_match o sname m = match_line o sname m.
Proof.
  unfold print_match, match_line. rewrite !print_bytes_escaped, xor_bytes_0. reflexivity.
Qed.

Lemma print_metadata_items_join ms :
  print_metadata_items true ms = join (B ",") (map meta_text ms)
  /\ print_metadata_items false ms = match ms with [] => [] | _ => B "," ++ join (B ",") (map meta_text ms) end.
Proof.
  induction ms as [|[name v] ms [IH1 IH2]]; [ split; reflexivity | ].
  assert (E : forall first, print_metadata_items first ((name, v) :: ms)
              = (if first then [] else B ",") ++ meta_text (name, v) ++ print_metadata_items false ms).
  { intros first. cbn [print_metadata_items]. unfold meta_text. cbn [fst snd].
    destruct v as [b | z | []]; rewrite ?print_bytes_escaped, ?xor_bytes_0, <- ?app_assoc; reflexivity. }
  split; rewrite E, IH2; destruct ms; cbn [map join app]; rewrite ?app_nil_r; reflexivity.
Qed.

Lemma header_eq o info what :
  (if o_ns o then r_ns info ++ B ":" else [])
    ++ r_name info
    ++ (if o_tags o then B " [" ++ join (B ",") (r_tags info) ++ B "]" else [])
    ++ (if o_meta o then print_metadata (r_metas info) else [])
    ++ B " " ++ what
  = rule_line o info what.
Proof.
  unfold rule_line, print_metadata. destruct (print_metadata_items_join (r_metas info)) as [-> _]. reflexivity.
Qed.

Lemma tag_filter_eq tag tags :
  forallb (fun t => negb (bytes_eqb t tag)) tags = negb (mem_bytes tag tags).
Proof.
  unfold mem_bytes. induction tags as [|t tags IH]; cbn [forallb existsb]; [ reflexivity | ].
  rewrite IH, negb_orb, (bytes_eqb_sym t tag). reflexivity.
Qed.

Lemma match_lines_eq o d ms :
  (forall s, In s ms -> string_is_private d (fst s) = false) ->
  flat_map (fun s : bytes * list smatch => map (print_match o (fst s)) (snd s)) ms
  = flat_map (fun s => if string_is_private d (fst s) then [] else map (match_line o (fst s)) (snd s)) ms.
Proof.
  induction ms as [|s ms IH]; intros H; cbn [flat_map]; [ reflexivity | ].
  rewrite (H s (or_introl eq_refl)), IH by (intros; apply H; now right).
  f_equal. apply map_ext. intros. apply print_match_eq.
Qed.

Lemma display_rule_eq o ds what r d :
  find_decl ds (rr_ns r) (rr_name r) = Some d -> d_private d = false ->
  (forall s, In s (rr_strings r) -> string_is_private d (fst s) = false) ->
  rule_lines o ds what r = Some (display_rule o what (d_info d) (rr_strings r)).
Proof.
  intros Hf Hp Hs. unfold rule_lines, display_rule. rewrite Hf, Hp. unfold shown.
  destruct (o_ident o) as [id |]; [ destruct (bytes_eqb (r_name (d_info d)) id); cbn [negb andb]; auto | ];
    (destruct (o_tag o) as [tag |]; [ rewrite tag_filter_eq; destruct (mem_bytes tag (r_tags (d_info d))) | ]);
    cbn [negb andb]; auto;
    rewrite header_eq; unfold print_strings, print_strings_matches;
    destruct (o_strings o || o_length o || o_xor o); auto; now rewrite (match_lines_eq o d).
Qed.

Definition block_of (o : cb_options) (what : bytes) (e : event) : list line :=
  match e with
  | EvRule _ info ms => if o_count o then [] else map so (display_rule o what info ms)
  | _ => []
  end.
Definition is_rule (e : event) : bool := match e with EvRule _ _ _ => true | _ => false end.

Definition take_limit {A} (o : cb_options) (nb : N) (l : list A) : list A :=
  match o_limit o with Some lim => firstn (N.to_nat (lim - nb)) l | None => l end.

(* the callback loop over rule events stops after the event that makes nb_rules reach the limit *)
Lemma run_events_rules o what evs : forallb is_rule evs = true -> forall nb,
  match o_limit o with Some lim => nb < lim | None => True end ->
  run_events o what evs nb = (map (block_of o what) (take_limit o nb evs), nb + nlen (take_limit o nb evs)).
Proof.
  unfold take_limit. induction evs as [|e evs IH]; intros Hr nb Hl.
  - cbn [run_events]. destruct (o_limit o); rewrite ?firstn_nil; cbn; f_equal; lia.
  - cbn [forallb] in Hr. apply andb_true_iff in Hr as [He Hr]. destruct e as [m info ms | |]; try discriminate.
    cbn [run_events handle_event].
    destruct (o_limit o) as [lim |] eqn:EL.
    + destruct (lim <=? nb + 1) eqn:Ele.
      * assert (E1 : N.to_nat (lim - nb) = 1%nat) by lia. rewrite E1. cbn [firstn map block_of].
        rewrite ?firstn_O. cbn [map]. unfold nlen. cbn [length]. f_equal.
      * assert (E1 : N.to_nat (lim - nb) = S (N.to_nat (lim - (nb + 1)))) by lia.
        rewrite E1. cbn [firstn map block_of].
        specialize (IH Hr (nb + 1)). try rewrite EL in IH. rewrite IH by lia.
        f_equal. unfold nlen. cbn [length]. lia.
    + specialize (IH Hr (nb + 1) I). try rewrite EL in IH. rewrite IH. cbn [map block_of].
      f_equal. unfold nlen. cbn [length]. lia.
Qed.

Lemma stdout_of_so l : stdout_of (map so l) = l.
Proof. unfold stdout_of. induction l as [|x l IH]; cbn; [ reflexivity | now f_equal ]. Qed.
Lemma stdout_of_app a b : stdout_of (a ++ b) = stdout_of a ++ stdout_of b.
Proof. apply flat_map_app. Qed.

Lemma lib_events_rules o ds rs : results_ok ds rs -> forallb is_rule (lib_events o ds rs) = true.
Proof.
  intros H. unfold lib_events. apply forallb_forall. intros e He.
  apply in_map_iff in He as (r & <- & Hr). apply filter_In in Hr as [Hr _].
  destruct (H r Hr) as (d & Hf & _). unfold event_of. now rewrite Hf.
Qed.

Lemma in_firstn {A} (x : A) k l : In x (firstn k l) -> In x l.
Proof.
  revert l. induction k as [|k IH]; intros [|y l]; cbn [firstn]; intros H; try contradiction.
  destruct H as [-> | H]; [ now left | right; auto ].
Qed.

Lemma firstn_results_ok ds rs k : results_ok ds rs -> results_ok ds (firstn k rs).
Proof. intros H r Hr. apply H. eapply in_firstn; eauto. Qed.
Lemma filter_results_ok ds rs f : results_ok ds rs -> results_ok ds (filter f rs).
Proof. intros H r Hr. apply H. apply filter_In in Hr. tauto. Qed.

Lemma rules_render o ds what rs : results_ok ds rs -> o_count o = false ->
  concat_opt (map (rule_lines o ds what) rs)
  = Some (stdout_of (concat (map (block_of o what) (map (event_of ds) rs)))).
Proof.
  intros H Hc. induction rs as [|r rs IH]; [ reflexivity | ].
  cbn [map concat_opt concat]. destruct (H r (or_introl eq_refl)) as (d & Hf & Hp & Hs).
  rewrite (display_rule_eq o ds what r d Hf Hp Hs), IH by (intros x Hx; apply H; now right).
  assert (Ee : event_of ds r = EvRule (rr_matched r) (d_info d) (rr_strings r)) by (unfold event_of; now rewrite Hf).
  rewrite stdout_of_app, Ee. cbn [block_of]. rewrite Hc, stdout_of_so. reflexivity.
Qed.

Lemma count_blocks_empty o what evs : o_count o = true -> forallb is_rule evs = true ->
  concat (map (block_of o what) evs) = [].
Proof.
  intros Hc. induction evs as [|e evs IH]; [ reflexivity | ].
  cbn [forallb map concat]. intros H. apply andb_true_iff in H as [He H].
  destruct e; try discriminate. cbn [block_of]. rewrite Hc. cbn [app]. auto.
Qed.

Lemma events_rules ds S : results_ok ds S -> forallb is_rule (map (event_of ds) S) = true.
Proof.
  intros H. apply forallb_forall. intros e He. apply in_map_iff in He as (r & <- & Hr).
  destruct (H r Hr) as (d & Hf & _). unfold event_of. now rewrite Hf.
Qed.

Lemma render_sel o ds what S : results_ok ds S ->
  (if o_count o then Some [what ++ B ": " ++ dec (nlen S)] else concat_opt (map (rule_lines o ds what) S))
  = Some (stdout_of (concat (map (block_of o what) (map (event_of ds) S)))
          ++ stdout_of (concat (if o_count o then [[so (what ++ B ": " ++ dec (nlen (map (event_of ds) S)))]] else []))).
Proof.
  intros H. destruct (o_count o) eqn:Hc.
  - rewrite count_blocks_empty by (auto using events_rules).
    unfold nlen. rewrite map_length. reflexivity.
  - rewrite (rules_render o ds what S H Hc). cbn [concat]. unfold stdout_of at 3. cbn [flat_map].
    now rewrite app_nil_r.
Qed.

(* C18_render: for one scanned file, the model's stdout lines are the documented rendering of the
   library's result list (filters -i -t, negate, count, limit, flags -s -L -X -m -g -e) *)
Theorem render_file : forall o ds what rs,
  o_limit o <> Some 0 -> results_ok ds rs ->
  spec_file_lines o ds what (Some rs)
  = Some (stdout_of (worker_lines o (fun _ => inr (lib_events o ds rs)) what)).
Proof.
  intros o ds what rs Hl Hok.
  pose proof (lib_events_rules o ds rs Hok) as Hr.
  assert (Hnb : match o_limit o with Some lim => 0 < lim | None => True end).
  { destruct (o_limit o) as [[|p] |]; [ congruence | lia | exact I ]. }
  unfold worker_lines, worker_blocks, scan_file.
  rewrite (run_events_rules o what _ Hr 0 Hnb).
  rewrite concat_app, stdout_of_app.
  unfold spec_file_lines, limited, take_limit, lib_events in *.
  assert (HW : results_ok ds (filter (wanted o) rs)) by now apply filter_results_ok.
  destruct (o_limit o) as [lim |]; rewrite N.add_0_l.
  - rewrite N.sub_0_r, firstn_map. apply render_sel. now apply firstn_results_ok.
  - now apply render_sel.
Qed.

(* ------------------------------------------------------------------ argument splitting *)
(* split_once cuts at the *first* separator: the namespace of `ns:path` and the name of `VAR=VALUE`
   contain no separator, and nothing is lost *)
Theorem split_once_spec : forall sep s a b,
  split_once sep s = Some (a, b) -> s = a ++ sep :: b /\ ~ In sep a.
Proof.
  intros sep s. induction s as [|c s IH]; intros a b H; cbn [split_once] in H; [ discriminate | ].
  destruct (c =? sep) eqn:E.
  - inversion H; subst. apply N.eqb_eq in E. subst. split; [ reflexivity | intros [] ].
  - destruct (split_once sep s) as [[a' b'] |]; [ | discriminate ]. inversion H; subst.
    destruct (IH a' b eq_refl) as [-> Hn]. split; [ reflexivity | ].
    intros [-> | Hin]; [ rewrite N.eqb_refl in E; discriminate | auto ].
Qed.

Theorem split_once_none : forall sep s, split_once sep s = None -> ~ In sep s.
Proof.
  intros sep s. induction s as [|c s IH]; cbn [split_once]; intros H; [ intros [] | ].
  destruct (c =? sep) eqn:E; [ discriminate | ].
  destruct (split_once sep s) as [[a b] |]; [ discriminate | ].
  intros [-> | Hin]; [ rewrite N.eqb_refl in E; discriminate | now apply IH ].
Qed.

(* an existing file always wins over the namespace reading *)
Theorem resolve_existing : forall ex arg, ex arg = true -> resolve_rules_arg ex arg = (None, arg).
Proof. intros ex arg H. unfold resolve_rules_arg. now rewrite H. Qed.

(* integers accepted by -d are i64 values *)
Theorem parse_i64_range : forall s z, parse_i64 s = Some z ->
  (-9223372036854775808 <= z <= 9223372036854775807)%Z.
Proof.
  intros s z. unfold parse_i64.
  destruct (match s with 45 :: r => (true, r) | 43 :: r => (false, r) | _ => (false, s) end) as [neg body].
  destruct body; [ discriminate | ].
  destruct (digits_value 0 (n :: body)) as [v |]; [ | discriminate ].
  destruct ((-9223372036854775808 <=? (if neg then (- v)%Z else v))%Z
            && ((if neg then (- v)%Z else v) <=? 9223372036854775807)%Z) eqn:E; [ | discriminate ].
  intros H. inversion H; subst. apply andb_true_iff in E as [E1 E2]. lia.
Qed.

(* ------------------------------------------------------------------ list-modules *)
Lemma bytes_leb_total a b : bytes_leb a b = true \/ bytes_leb b a = true.
Proof.
  revert b. induction a as [|x a IH]; intros [|y b]; cbn [bytes_leb]; auto.
  destruct (x <? y) eqn:E1; destruct (y <? x) eqn:E2; auto; try lia.
Qed.

Inductive SortedB : list bytes -> Prop :=
| SB_nil : SortedB []
| SB_one : forall x, SortedB [x]
| SB_cons : forall x y l, bytes_leb x y = true -> SortedB (y :: l) -> SortedB (x :: y :: l).

Lemma insert_sorted_perm x l : Permutation (insert_sorted x l) (x :: l).
Proof.
  induction l as [|y l IH]; cbn [insert_sorted]; [ reflexivity | ].
  destruct (bytes_leb x y); [ reflexivity | ]. rewrite IH. apply perm_swap.
Qed.

Lemma insert_sorted_sorted x l : SortedB l -> SortedB (insert_sorted x l).
Proof.
  induction 1 as [| y | y z l Hyz Hs IH]; cbn [insert_sorted].
  - constructor.
  - destruct (bytes_leb x y) eqn:E; [ now repeat constructor | ].
    destruct (bytes_leb_total x y) as [H | H]; [ congruence | ]. now repeat constructor.
  - destruct (bytes_leb x y) eqn:E; [ now repeat constructor | ].
    destruct (bytes_leb_total x y) as [H | H]; [ congruence | ].
    cbn [insert_sorted] in IH. destruct (bytes_leb x z) eqn:E2.
    + now repeat constructor.
    + constructor; auto.
Qed.

(* `list-modules` prints the library's module names, each once, in ascending byte order *)
Theorem list_modules_sorted_perm : forall available,
  Permutation (list_modules available) available /\ SortedB (list_modules available).
Proof.
  induction available as [|x l [IHp IHs]]; cbn [list_modules fold_right]; [ split; constructor | ].
  split; [ rewrite insert_sorted_perm; now constructor | now apply insert_sorted_sorted ].
Qed.

(* yr: an error unless at least one rules argument and a target are given, and exactly one with -C *)
Theorem from_yr_args_ok : forall load positional,
  from_yr_args false load positional <> YrError <->
  (2 <= length positional)%nat /\ (load = true -> length positional = 2%nat).
Proof.
  intros load positional. unfold from_yr_args.
  destruct (length positional <? 2)%nat eqn:E.
  - apply Nat.ltb_lt in E. split; [ congruence | intros [H _]; lia ].
  - apply Nat.ltb_ge in E. destruct load.
    + destruct positional as [|a [|b [|c rest]]]; cbn in E; try lia.
      * cbn. split; [ intros _; split; auto | congruence ].
      * assert (Hr : exists r1 r2 rs, removelast (a :: b :: c :: rest) = r1 :: r2 :: rs).
        { cbn [removelast]. destruct rest as [|d rest']; [ exists a, b, []; reflexivity | ].
          exists a, b, (removelast (c :: d :: rest')). reflexivity. }
        destruct Hr as (r1 & r2 & rs & ->). split; [ congruence | ].
        intros [_ H]. specialize (H eq_refl). cbn in H. lia.
    + split; [ intros _; split; [ exact E | discriminate ] | congruence ].
Qed.
