(* Proofs/CliProofs.v — lemmas about Model/Cli.v: option -> ScanParams mapping, thread count,
   instantiation of the pool theorems at the CLI's producer / worker. *)
From Coq Require Import String Ascii Permutation.
From Boreal Require Import Base.Prelude Spec.CliSpec Model.Cli Model.Pool Proofs.PoolProofs.

(* ------------------------------------------------------------------ options -> ScanParams *)
Lemma opt_eqb_N_refl (x : option N) : opt_eqb N.eqb x x = true.
Proof. destruct x; cbn; [ apply N.eqb_refl | reflexivity ]. Qed.

(* the parameters main.rs installs meet the documented meaning of the options, for all options *)
Theorem params_meet_spec : forall s o, spec_params_ok s o (params_of_flags s o) = true.
Proof.
  intros [mcs to mfr fm smax] [os ol ox om ons ot oc ost omd omml olim oid otag oneg ow].
  unfold spec_params_ok, params_of_flags, update_params_from_callback_options, build_scan_params, print_strings,
    print_strings_matches.
  cbn [s_memory_chunk_size s_timeout s_max_fetched_region_size s_frag_mode s_string_max_nb_matches
       o_strings o_length o_xor o_meta o_ns o_tags o_count o_stats o_module_data o_match_max_length o_limit
       o_ident o_tag o_negate o_warning].
  assert (E : forall b, Bool.eqb b b = true) by (intros []; reflexivity).
  destruct omml, smax, mfr, fm;
    cbn [p_full_matches p_match_max_length p_string_max_nb_matches p_include_not_matched p_events p_statistics
         p_memory_chunk_size p_timeout p_max_fetched_region_size p_frag_mode
         set_match_max_length set_string_max set_frag_mode set_max_fetched set_timeout set_memory_chunk_size
         default_params dflt];
    rewrite ?E, ?N.eqb_refl, ?opt_eqb_N_refl; cbn [andb];
    destruct ow, omd, ost, oneg; vm_compute; reflexivity.
Qed.

(* params_eqb is equality *)
Lemma params_eqb_refl p : params_eqb p p = true.
Proof.
  unfold params_eqb. assert (E : forall b, Bool.eqb b b = true) by (intros []; reflexivity).
  now rewrite !E, !N.eqb_refl, !opt_eqb_N_refl.
Qed.

(* ------------------------------------------------------------------ thread count *)
Theorem nb_threads_positive : forall io available, 1 <= available -> 1 <= nb_threads io available.
Proof. intros io a Ha. unfold nb_threads. destruct (i_threads io); lia. Qed.

Theorem channel_capacity_positive : forall io available, 1 <= available ->
  5 <= channel_capacity (nb_threads io available).
Proof. intros io a Ha. pose proof (nb_threads_positive io a Ha). unfold channel_capacity. lia. Qed.

(* pinned tree: `--threads 0` gave a pool without workers (send on a disconnected channel panics),
   and every `--threads n` ran at most one worker *)
Theorem nb_threads_pinned_refuted :
  exists io, nb_threads_pinned io 16 = 0.
Proof.
  exists {| i_scan_list := false; i_no_follow := false; i_recursive := false; i_skip_larger := None;
            i_no_mmap := false; i_threads := Some 0 |}.
  reflexivity.
Qed.
Theorem nb_threads_pinned_at_most_one : forall io n available, i_threads io = Some n -> nb_threads_pinned io available <= 1.
Proof. intros io n a H. unfold nb_threads_pinned. rewrite H. lia. Qed.

(* ------------------------------------------------------------------ the pool at the CLI's types *)
Section CliPool.
  Variable o : cb_options.
  Variable io : in_options.
  Variable lib : libfn.
  Variable t : target.
  Variable n cap : nat.

  Definition cli_state := Pool.state bytes line.
  Definition cli_init : cli_state := init (producer io t) n.
  Definition cli_reachable := reachable (worker_blocks o lib) cap cli_init.

  Lemma sent_files_eq acts : sent_files acts = sent_of acts.
  Proof. reflexivity. Qed.
  Lemma producer_lines_eq acts : producer_lines acts = said_of acts.
  Proof. reflexivity. Qed.

  Theorem cli_exactly_once : forall s, cli_reachable s -> terminal s ->
    Permutation (scanned s) (sent_files (producer io t)).
  Proof. intros s R T. rewrite sent_files_eq. eapply exactly_once; eauto. Qed.

  Theorem cli_multiset : forall s, (forall p, t <> TFile p) -> cli_reachable s -> terminal s ->
    Permutation (out s) (fst (cli_run o io lib t)).
  Proof.
    intros s NF R T.
    assert (E : fst (cli_run o io lib t)
                = said_of (producer io t) ++ flat_map (lines_of (worker_blocks o lib)) (sent_of (producer io t))).
    { destruct t; [ reflexivity | exfalso; eapply NF; reflexivity | reflexivity ]. }
    rewrite E. eapply output_multiset; eauto.
  Qed.

  Theorem cli_stdout_multiset : forall s, (forall p, t <> TFile p) -> cli_reachable s -> terminal s ->
    Permutation (stdout_of (out s)) (stdout_of (fst (cli_run o io lib t))).
  Proof.
    intros s NF R T. unfold stdout_of. apply Permutation_flat_map. now apply cli_multiset.
  Qed.

  Theorem cli_progress : forall s, (0 < n)%nat -> (0 < cap)%nat -> cli_reachable s -> ~ terminal s ->
    exists s', step (worker_blocks o lib) cap s s'.
  Proof. intros s Hn Hc R NT. exact (progress _ _ (worker_blocks o lib) cap (producer io t) n s Hn Hc R NT). Qed.

  Theorem cli_run_bounded : forall k s s', run _ _ (worker_blocks o lib) cap k s s' ->
    (k + measure (worker_blocks o lib) s' <= measure (worker_blocks o lib) s)%nat.
  Proof. intros. eapply run_bounded; eauto. Qed.
End CliPool.
