(* Proofs/AcScanDecomp.v — per-variable decomposition of the shared Aho-Corasick pass (C12, used by
   C01 and C11): the matches of variable i after `scan_region` over ALL variables are what that
   variable computes from its own atoms alone (`scan_var_region`). *)
From Boreal Require Import Base.Prelude Base.ListX Base.Bytes Model.Literals Model.Atoms Model.Ac Model.AcScan.

(* ------------------------------------------------------------------ list helpers *)
Lemma flat_map_flat_map {A B C} (f : B -> list C) (g : A -> list B) l :
  flat_map f (flat_map g l) = flat_map (fun x => flat_map f (g x)) l.
Proof.
  induction l as [|x l IH]; cbn [flat_map]; [reflexivity|]. now rewrite flat_map_app, IH.
Qed.

Lemma flat_map_nil_all {A B} (f : A -> list B) l : (forall x, In x l -> f x = []) -> flat_map f l = [].
Proof.
  induction l as [|x l IH]; intros H; cbn [flat_map]; [reflexivity|].
  rewrite H by now left. cbn [app]. apply IH. intros; apply H; now right.
Qed.

Lemma flat_map_ext_in {A B} (f g : A -> list B) l :
  (forall x, In x l -> f x = g x) -> flat_map f l = flat_map g l.
Proof.
  induction l as [|x l IH]; intros H; cbn [flat_map]; [reflexivity|].
  rewrite H by now left. f_equal. apply IH. intros; apply H; now right.
Qed.

Lemma filter_filter_comm {A} (f g : A -> bool) l : filter f (filter g l) = filter g (filter f l).
Proof.
  induction l as [|x l IH]; cbn [filter]; [reflexivity|].
  destruct (g x) eqn:Eg, (f x) eqn:Ef; cbn [filter]; rewrite ?Eg, ?Ef, IH; reflexivity.
Qed.

Lemma filter_nil_all {A} (f : A -> bool) l : (forall x, In x l -> f x = false) -> filter f l = [].
Proof.
  induction l as [|x l IH]; intros H; cbn [filter]; [reflexivity|].
  rewrite H by now left. apply IH. intros; apply H; now right.
Qed.

Lemma filter_all {A} (f : A -> bool) l : (forall x, In x l -> f x = true) -> filter f l = l.
Proof.
  induction l as [|x l IH]; intros H; cbn [filter]; [reflexivity|].
  rewrite H by now left. f_equal. apply IH. intros; apply H; now right.
Qed.

Lemma fold_left_flat_map {A B S} (step : S -> B -> S) (g : A -> list B) l s :
  fold_left step (flat_map g l) s = fold_left (fun s x => fold_left step (g x) s) l s.
Proof.
  revert s; induction l as [|x l IH]; intros s; cbn [flat_map fold_left]; [reflexivity|].
  now rewrite fold_left_app, IH.
Qed.

Lemma iota_nat_app s a b : iota_nat s (a + b) = iota_nat s a ++ iota_nat (s + N.of_nat a) b.
Proof.
  revert s; induction a as [|a IH]; intros s; cbn [iota_nat Nat.add app].
  - f_equal. lia.
  - f_equal. rewrite IH. do 2 f_equal. lia.
Qed.

Lemma iota_app s a b : iota s (a + b) = iota s a ++ iota (s + a) b.
Proof.
  unfold iota. rewrite Nnat.N2Nat.inj_add, iota_nat_app. do 2 f_equal. lia.
Qed.

(* ------------------------------------------------------------------ handle_literal touches one slot *)
Section OneVariable.
  Variables (prm : sparams) (rg : mregion) (vars : list matcher) (k : nat) (var : matcher).
  Hypothesis Hvar : nth_error vars k = Some var.

  Lemma handle_literal_length hs he matches li :
    length (handle_literal prm rg vars hs he matches li) = length matches.
  Proof.
    unfold handle_literal, handle_literal_with. destruct (nnth_opt (li_var li) vars); [|reflexivity].
    destruct (hs <? li_so li); [reflexivity|].
    destruct (nlen (rg_mem rg) <? he + li_eo li); [reflexivity|].
    apply update_nth_length.
  Qed.

  Lemma handle_literal_nth hs he matches li :
    (k < length matches)%nat ->
    nth k (handle_literal prm rg vars hs he matches li) [] =
    if li_var li =? N.of_nat k
    then fold_left (var_step prm rg var) (lit_cand rg hs he li) (nth k matches [])
    else nth k matches [].
  Proof.
    intros Hk. unfold handle_literal, handle_literal_with, lit_cand.
    destruct (li_var li =? N.of_nat k) eqn:E.
    - apply N.eqb_eq in E. unfold nnth_opt. rewrite E, Nnat.Nat2N.id, Hvar.
      destruct (hs <? li_so li); [reflexivity|].
      destruct (nlen (rg_mem rg) <? he + li_eo li); [reflexivity|].
      unfold nupdate. rewrite Nnat.Nat2N.id. rewrite nth_update_nth_eq by exact Hk. reflexivity.
    - destruct (nnth_opt (li_var li) vars); [|reflexivity].
      destruct (hs <? li_so li); [reflexivity|].
      destruct (nlen (rg_mem rg) <? he + li_eo li); [reflexivity|].
      unfold nupdate. apply nth_update_nth_neq. lia.
  Qed.

  Lemma fold_handle_literal_length hs he lis : forall matches,
    length (fold_left (handle_literal prm rg vars hs he) lis matches) = length matches.
  Proof.
    induction lis as [|li lis IH]; intros matches; cbn [fold_left]; [reflexivity|].
    now rewrite IH, handle_literal_length.
  Qed.

  Lemma fold_handle_literal_nth hs he lis : forall matches,
    (k < length matches)%nat ->
    nth k (fold_left (handle_literal prm rg vars hs he) lis matches) [] =
    fold_left (var_step prm rg var)
              (flat_map (lit_cand rg hs he) (filter (fun li => li_var li =? N.of_nat k) lis))
              (nth k matches []).
  Proof.
    induction lis as [|li lis IH]; intros matches Hk; cbn [fold_left filter flat_map]; [reflexivity|].
    rewrite IH by now rewrite handle_literal_length.
    rewrite handle_literal_nth by exact Hk.
    destruct (li_var li =? N.of_nat k); cbn [flat_map]; [|reflexivity].
    now rewrite fold_left_app.
  Qed.

  Lemma fold_hpm_length a hits : forall matches,
    length (fold_left (handle_possible_match a prm rg vars) hits matches) = length matches.
  Proof.
    induction hits as [|[[p hs] he] hits IH]; intros matches; cbn [fold_left]; [reflexivity|].
    rewrite IH. unfold handle_possible_match, handle_possible_match_with.
    apply fold_handle_literal_length.
  Qed.

  Lemma fold_hpm_nth a hits : forall matches,
    (k < length matches)%nat ->
    nth k (fold_left (handle_possible_match a prm rg vars) hits matches) [] =
    fold_left (var_step prm rg var) (var_cands a (N.of_nat k) rg hits) (nth k matches []).
  Proof.
    induction hits as [|[[p hs] he] hits IH]; intros matches Hk; cbn [fold_left]; [reflexivity|].
    unfold var_cands. cbn [flat_map]. rewrite fold_left_app.
    rewrite IH.
    - unfold handle_possible_match, handle_possible_match_with.
      rewrite (fold_handle_literal_nth hs he) by exact Hk. reflexivity.
    - unfold handle_possible_match, handle_possible_match_with.
      now rewrite fold_handle_literal_length.
  Qed.

  (* the raw pass: index k is rescanned iff it is listed *)
  Lemma fold_raw_length raw : forall matches,
    length (fold_left (fun ms vi => match nnth_opt vi vars with
                                    | Some v => nupdate vi (scan_single_variable prm rg v) ms
                                    | None => ms end) raw matches) = length matches.
  Proof.
    induction raw as [|vi raw IH]; intros matches; cbn [fold_left]; [reflexivity|].
    rewrite IH. destruct (nnth_opt vi vars); [apply update_nth_length | reflexivity].
  Qed.

  Lemma fold_raw_nth_notin raw : forall matches,
    ~ In (N.of_nat k) raw ->
    nth k (fold_left (fun ms vi => match nnth_opt vi vars with
                                   | Some v => nupdate vi (scan_single_variable prm rg v) ms
                                   | None => ms end) raw matches) [] = nth k matches [].
  Proof.
    induction raw as [|vi raw IH]; intros matches Hn; cbn [fold_left]; [reflexivity|].
    rewrite IH by (intros Hc; apply Hn; now right).
    destruct (nnth_opt vi vars); [|reflexivity].
    unfold nupdate. apply nth_update_nth_neq. intros E. apply Hn. left. lia.
  Qed.

  Lemma fold_raw_nth_in raw : forall matches,
    (k < length matches)%nat -> NoDup raw -> In (N.of_nat k) raw ->
    nth k (fold_left (fun ms vi => match nnth_opt vi vars with
                                   | Some v => nupdate vi (scan_single_variable prm rg v) ms
                                   | None => ms end) raw matches) [] =
    scan_single_variable prm rg var (nth k matches []).
  Proof.
    induction raw as [|vi raw IH]; intros matches Hk Hnd Hin; cbn [fold_left]; [destruct Hin|].
    inversion Hnd as [|? ? Hni Hnd']; subst.
    destruct Hin as [E|Hin].
    - subst vi. rewrite fold_raw_nth_notin by exact Hni.
      unfold nnth_opt, nupdate. rewrite Nnat.Nat2N.id, Hvar. now rewrite nth_update_nth_eq.
    - rewrite IH; auto.
      + destruct (nnth_opt vi vars); [|reflexivity].
        unfold nupdate. rewrite nth_update_nth_neq; [reflexivity|].
        intros E. apply Hni. replace vi with (N.of_nat k) by lia. exact Hin.
      + destruct (nnth_opt vi vars); [unfold nupdate; now rewrite update_nth_length | exact Hk].
  Qed.
End OneVariable.

(* ------------------------------------------------------------------ the registration list *)
Lemma var_lit_infos_var i v li : In li (var_lit_infos i v) -> li_var li = i.
Proof.
  unfold var_lit_infos, mapi. intros H. apply in_mapi_from in H as (n & lit & _ & ->).
  destruct (pick_atom_in_literal lit). reflexivity.
Qed.

Lemma filter_var_concat_mapi vars : forall i0 k var,
  nth_error vars k = Some var ->
  filter (fun li => li_var li =? i0 + N.of_nat k) (concat (mapi_from var_lit_infos i0 vars))
  = var_lit_infos (i0 + N.of_nat k) var.
Proof.
  induction vars as [|v vars IH]; intros i0 k var Hk; [destruct k; discriminate|].
  cbn [mapi_from concat]. rewrite filter_app. destruct k as [|k]; cbn [nth_error] in Hk.
  - inversion Hk; subst v. replace (i0 + N.of_nat 0) with i0 by lia.
    rewrite filter_all.
    + rewrite filter_nil_all; [apply app_nil_r|].
      intros li Hli. apply in_concat in Hli as (blk & Hblk & Hli).
      apply in_mapi_from in Hblk as (n & v' & _ & ->).
      apply var_lit_infos_var in Hli. lia.
    + intros li Hli. apply var_lit_infos_var in Hli. lia.
  - rewrite filter_nil_all.
    + cbn [app]. replace (i0 + N.of_nat (S k)) with (i0 + 1 + N.of_nat k) by lia. now apply IH.
    + intros li Hli. apply var_lit_infos_var in Hli. lia.
Qed.

Lemma filter_var_all_infos vars k var :
  nth_error vars k = Some var ->
  filter (fun li => li_var li =? N.of_nat k) (all_lit_infos vars) = var_lit_infos (N.of_nat k) var.
Proof.
  intros H. unfold all_lit_infos, mapi. apply (filter_var_concat_mapi vars 0 k var H).
Qed.

(* renumbering the variable does not change what a LiteralInfo does *)
Definition set_var (i : N) (li : lit_info) : lit_info :=
  {| li_var := i; li_lit := li_lit li; li_so := li_so li; li_eo := li_eo li; li_atom := li_atom li;
     li_raw := li_raw li |}.

Definition mk_info (i : N) (literal_index : N) (lit : bytes) : lit_info :=
  let '(s, e) := pick_atom_in_literal lit in
  {| li_var := i; li_lit := literal_index; li_so := s; li_eo := e;
     li_atom := lower_bytes (slice s (nlen lit - e) lit); li_raw := slice s (nlen lit - e) lit |}.

Lemma mapi_from_mk_info i i' lits : forall j,
  mapi_from (mk_info i) j lits = map (set_var i) (mapi_from (mk_info i') j lits).
Proof.
  induction lits as [|lit lits IH]; intros j; cbn [mapi_from map]; [reflexivity|].
  rewrite IH. f_equal. unfold mk_info. destruct (pick_atom_in_literal lit). reflexivity.
Qed.

Lemma var_lit_infos_set_var i v : var_lit_infos i v = map (set_var i) (var_lit_infos 0 v).
Proof. apply (mapi_from_mk_info i 0 (mt_literals v) 0). Qed.

Lemma lit_cand_set_var rg hs he i li : lit_cand rg hs he (set_var i li) = lit_cand rg hs he li.
Proof. reflexivity. Qed.

Lemma filter_atom_set_var i w l :
  filter (fun li => bytes_eqb (li_atom li) w) (map (set_var i) l)
  = map (set_var i) (filter (fun li => bytes_eqb (li_atom li) w) l).
Proof.
  induction l as [|x l IH]; cbn [map filter]; [reflexivity|].
  change (li_atom (set_var i x)) with (li_atom x).
  destruct (bytes_eqb (li_atom x) w); cbn [map]; now rewrite IH.
Qed.

Lemma flat_map_cand_set_var rg hs he i l :
  flat_map (lit_cand rg hs he) (map (set_var i) l) = flat_map (lit_cand rg hs he) l.
Proof.
  induction l as [|x l IH]; cbn [map flat_map]; [reflexivity|]. now rewrite IH, lit_cand_set_var.
Qed.

(* ------------------------------------------------------------------ candidates without the pattern table *)

(* candidates of the infos `mine` (all of one variable) for the suffix of length L ending at e *)
Definition cands_at (mine : list lit_info) (rg : mregion) (e L : N) : list (N * N * N) :=
  if L <=? e then
    let w := lower_bytes (slice (e - L) e (rg_mem rg)) in
    flat_map (lit_cand rg (e - L) e) (filter (fun li => bytes_eqb (li_atom li) w) mine)
  else [].

Definition cands_free (mine : list lit_info) (rg : mregion) (maxlen : N) : list (N * N * N) :=
  flat_map (fun e => flat_map (cands_at mine rg e) (lens_desc maxlen)) (iota 1 (nlen (rg_mem rg))).

Lemma ac_maxlen_ge pats p : In p pats -> nlen p <= ac_maxlen pats.
Proof.
  unfold ac_maxlen. induction pats as [|q pats IH]; cbn [map fold_right In]; [tauto|].
  intros [->|H]; [lia|]. specialize (IH H). lia.
Qed.

Lemma var_cands_free a k rg :
  acs_pats a = dedup bytes_eqb (map li_atom (acs_infos a)) ->
  var_cands a (N.of_nat k) rg (ac_find_overlapping (acs_pats a) (rg_mem rg))
  = cands_free (filter (fun li => li_var li =? N.of_nat k) (acs_infos a)) rg (ac_maxlen (acs_pats a)).
Proof.
  intros Hp. unfold var_cands, ac_find_overlapping, cands_free.
  rewrite flat_map_flat_map. apply flat_map_ext_in. intros e _.
  unfold ac_hits_at. rewrite flat_map_flat_map. apply flat_map_ext_in. intros L _.
  unfold cands_at. destruct (L <=? e); [|reflexivity].
  set (w := lower_bytes (slice (e - L) e (rg_mem rg))).
  rewrite filter_filter_comm.
  destruct (memb bytes_eqb w (acs_pats a)) eqn:E; cbn [flat_map].
  - rewrite app_nil_r. reflexivity.
  - unfold fanout. rewrite (filter_nil_all _ (acs_infos a)); [reflexivity|].
    intros li Hli. apply bytes_eqb_false. intros Hw.
    assert (In w (acs_pats a)).
    { rewrite Hp. apply (dedup_In bytes_eqb bytes_eqb_eq). rewrite <- Hw. now apply in_map. }
    apply (memb_In bytes_eqb bytes_eqb_eq) in H. congruence.
Qed.

(* lengths above the longest atom of the variable contribute nothing *)
Lemma cands_at_long mine rg e L :
  e <= nlen (rg_mem rg) -> (forall li, In li mine -> nlen (li_atom li) < L) -> cands_at mine rg e L = [].
Proof.
  intros He Hlen. unfold cands_at. destruct (L <=? e) eqn:E; [|reflexivity].
  rewrite filter_nil_all; [reflexivity|].
  intros li Hli. apply bytes_eqb_false. intros Hw. specialize (Hlen li Hli).
  rewrite Hw, nlen_lower, nlen_slice in Hlen. lia.
Qed.

Lemma cands_free_maxlen mine rg M0 M :
  M0 <= M -> (forall li, In li mine -> nlen (li_atom li) <= M0) ->
  cands_free mine rg M = cands_free mine rg M0.
Proof.
  intros HM Hlen. unfold cands_free. apply flat_map_ext_in. intros e He. apply in_iota in He.
  unfold lens_desc. replace M with (M0 + (M - M0)) by lia. rewrite iota_app, rev_app_distr, flat_map_app.
  rewrite flat_map_nil_all; [reflexivity|].
  intros L HL. apply in_rev in HL. apply in_iota in HL.
  apply cands_at_long; [lia|]. intros li Hli. specialize (Hlen li Hli). lia.
Qed.

Lemma cands_free_set_var i mine rg M : cands_free (map (set_var i) mine) rg M = cands_free mine rg M.
Proof.
  unfold cands_free. apply flat_map_ext_in. intros e _. apply flat_map_ext_in. intros L _.
  unfold cands_at. destruct (L <=? e); [|reflexivity].
  now rewrite filter_atom_set_var, flat_map_cand_set_var.
Qed.

(* ------------------------------------------------------------------ candidates do not depend on the other variables *)
Lemma acscan_new_pats vars : acs_pats (acscan_new vars) = dedup bytes_eqb (map li_atom (acs_infos (acscan_new vars))).
Proof. reflexivity. Qed.

Lemma all_lit_infos_single v : all_lit_infos [v] = var_lit_infos 0 v.
Proof. unfold all_lit_infos, mapi. cbn [mapi_from concat]. apply app_nil_r. Qed.

Lemma atom_len_le_maxlen vars li :
  In li (all_lit_infos vars) -> nlen (li_atom li) <= ac_maxlen (acs_pats (acscan_new vars)).
Proof.
  intros H. apply ac_maxlen_ge. cbn [acscan_new acs_pats].
  apply (dedup_In bytes_eqb bytes_eqb_eq). now apply in_map.
Qed.

Theorem var_cands_own vars k var rg :
  nth_error vars k = Some var ->
  var_cands (acscan_new vars) (N.of_nat k) rg
            (ac_find_overlapping (acs_pats (acscan_new vars)) (rg_mem rg))
  = own_cands var rg.
Proof.
  intros Hk. unfold own_cands.
  rewrite (var_cands_free (acscan_new vars) k rg (acscan_new_pats vars)).
  change 0 with (N.of_nat 0).
  rewrite (var_cands_free (acscan_new [var]) 0 rg (acscan_new_pats [var])).
  cbn [acscan_new acs_infos].
  rewrite (filter_var_all_infos vars k var Hk).
  rewrite (filter_var_all_infos [var] 0 var eq_refl).
  rewrite (var_lit_infos_set_var (N.of_nat k)). rewrite cands_free_set_var.
  change (N.of_nat 0) with 0.
  set (M0 := ac_maxlen (acs_pats (acscan_new [var]))).
  assert (Hown : forall li, In li (var_lit_infos 0 var) -> nlen (li_atom li) <= M0).
  { intros li Hli. apply atom_len_le_maxlen. now rewrite all_lit_infos_single. }
  change (dedup bytes_eqb (map li_atom (all_lit_infos [var]))) with (acs_pats (acscan_new [var])).
  change (dedup bytes_eqb (map li_atom (all_lit_infos vars))) with (acs_pats (acscan_new vars)).
  destruct (N.le_ge_cases M0 (ac_maxlen (acs_pats (acscan_new vars)))) as [Hle|Hge].
  - apply cands_free_maxlen; auto.
  - symmetry. apply cands_free_maxlen; auto.
    intros li Hli.
    assert (In (set_var (N.of_nat k) li) (all_lit_infos vars)).
    { pose proof (filter_var_all_infos vars k var Hk) as E.
      assert (In (set_var (N.of_nat k) li) (var_lit_infos (N.of_nat k) var)).
      { rewrite var_lit_infos_set_var. now apply in_map. }
      rewrite <- E in H. now apply filter_In in H. }
    apply atom_len_le_maxlen in H. exact H.
Qed.

(* ------------------------------------------------------------------ the raw index list *)
Definition raw_blk (i : N) (v : matcher) : list N := match mt_literals v with [] => [i] | _ => [] end.

Lemma in_raw_from vars : forall i0 x,
  In x (concat (mapi_from raw_blk i0 vars)) <->
  exists k v, nth_error vars k = Some v /\ x = i0 + N.of_nat k /\ mt_literals v = [].
Proof.
  induction vars as [|v vars IH]; intros i0 x; cbn [mapi_from concat].
  - split; [intros [] | intros (k & v & H & _); destruct k; discriminate].
  - rewrite in_app_iff, IH. split.
    + intros [H|(k & v' & Hk & -> & Hl)].
      * unfold raw_blk in H. destruct (mt_literals v) eqn:E; [|destruct H].
        destruct H as [<-|[]]. exists O, v. repeat split; [lia | exact E].
      * exists (S k), v'. repeat split; [exact Hk | lia | exact Hl].
    + intros (k & v' & Hk & -> & Hl). destruct k as [|k]; cbn [nth_error] in Hk.
      * inversion Hk; subst. left. unfold raw_blk. rewrite Hl. left. lia.
      * right. exists k, v'. repeat split; [exact Hk | lia | exact Hl].
Qed.

Lemma nodup_raw_from vars : forall i0, NoDup (concat (mapi_from raw_blk i0 vars)).
Proof.
  induction vars as [|v vars IH]; intros i0; cbn [mapi_from concat]; [constructor|].
  unfold raw_blk at 1. destruct (mt_literals v); cbn [app]; [|apply IH].
  constructor; [|apply IH]. intros H. apply in_raw_from in H as (k & v' & _ & E & _). lia.
Qed.

Lemma acs_raw_new vars : acs_raw (acscan_new vars) = concat (mapi_from raw_blk 0 vars).
Proof. reflexivity. Qed.

(* ------------------------------------------------------------------ C12: per-variable decomposition *)
Lemma scan_region_length a prm vars rg matches :
  length (scan_region a prm vars rg matches) = length matches.
Proof.
  unfold scan_region, scan_region_with. rewrite fold_raw_length. apply fold_hpm_length.
Qed.

Theorem scan_region_nth prm vars rg matches k var :
  nth_error vars k = Some var -> length matches = length vars ->
  nth k (scan_region (acscan_new vars) prm vars rg matches) [] =
  scan_var_region prm var rg (nth k matches []).
Proof.
  intros Hk Hlen.
  assert (Hklt : (k < length matches)%nat).
  { rewrite Hlen. apply nth_error_Some. congruence. }
  unfold scan_region, scan_region_with, scan_var_region.
  destruct (mt_literals var) eqn:El.
  - rewrite (fold_raw_nth_in prm rg vars k var Hk).
    + f_equal. rewrite (fold_hpm_nth prm rg vars k var Hk) by exact Hklt.
      now rewrite (var_cands_own vars k var rg Hk).
    + now rewrite fold_hpm_length.
    + rewrite acs_raw_new. apply nodup_raw_from.
    + rewrite acs_raw_new. apply in_raw_from. exists k, var. split; [exact Hk|]. split; [lia | exact El].
  - rewrite fold_raw_nth_notin.
    + rewrite (fold_hpm_nth prm rg vars k var Hk) by exact Hklt.
      now rewrite (var_cands_own vars k var rg Hk).
    + rewrite acs_raw_new. intros H. apply in_raw_from in H as (k' & v' & Hk' & E & El').
      assert (k' = k) by lia. subst k'. congruence.
Qed.

Lemma combine_map_r {A B} (g : A -> B) l : combine l (map g l) = map (fun x => (x, g x)) l.
Proof. induction l as [|x l IH]; cbn [map combine]; [reflexivity|]. now rewrite IH. Qed.

Theorem scan_region_per_variable prm vars rg (g : matcher -> list smatch) :
  scan_region (acscan_new vars) prm vars rg (map g vars)
  = map (fun var => scan_var_region prm var rg (g var)) vars.
Proof.
  apply (nth_ext_len []).
  - now rewrite scan_region_length, !map_length.
  - intros k Hk. rewrite scan_region_length, map_length in Hk.
    destruct (nth_error vars k) as [var|] eqn:E; [|apply nth_error_None in E; lia].
    rewrite (scan_region_nth prm vars rg (map g vars) k var E) by apply map_length.
    pose proof (nth_error_nth vars k (literals_matcher [] (new_bytes_mods
       {| t_text := []; t_ascii := false; t_wide := false; t_nocase := false; t_fullword := false;
          t_xor := None; t_b64 := None |})) E) as Hn.
    set (dflt := literals_matcher _ _) in Hn.
    rewrite (nth_indep _ [] (g dflt)) by now rewrite map_length.
    rewrite (nth_indep _ [] (scan_var_region prm dflt rg (g dflt))) by now rewrite map_length.
    rewrite (map_nth g vars dflt k).
    rewrite (map_nth (fun var => scan_var_region prm var rg (g var)) vars dflt k).
    now rewrite Hn.
Qed.

Theorem scan_direct_per_variable prm vars mem :
  scan_direct prm vars mem = map (fun var => scan_var_direct prm var mem) vars.
Proof.
  unfold scan_direct, empty_matches, scan_var_direct.
  apply (scan_region_per_variable prm vars _ (fun _ => [])).
Qed.

Theorem scan_fragmented_per_variable prm vars regions :
  scan_fragmented prm vars regions = map (fun var => scan_var_fragmented prm var regions) vars.
Proof.
  unfold scan_fragmented, scan_var_fragmented, empty_matches.
  change (map (fun _ : matcher => @nil smatch) vars) with (map (fun _ : matcher => @nil smatch) vars).
  assert (G : forall (g : matcher -> list smatch),
    fold_left (fun ms r => if f_fail r then ms
                           else scan_region (acscan_new vars) prm vars
                                  {| rg_start := f_start r; rg_mem := f_mem r |} ms) regions (map g vars)
    = map (fun var => fold_left (fun vm r => if f_fail r then vm
                           else scan_var_region prm var {| rg_start := f_start r; rg_mem := f_mem r |} vm)
                        regions (g var)) vars).
  { induction regions as [|r regions IH]; intros g; cbn [fold_left]; [reflexivity|].
    destruct (f_fail r).
    - apply IH.
    - rewrite scan_region_per_variable. apply (IH (fun var => scan_var_region prm var _ (g var))). }
  apply (G (fun _ => [])).
Qed.

(* a variable compiled with others behaves as if compiled alone *)
Corollary scan_direct_alone prm vars mem k var :
  nth_error vars k = Some var ->
  nth_error (scan_direct prm vars mem) k = nth_error (scan_direct prm [var] mem) 0.
Proof.
  intros H. rewrite !scan_direct_per_variable. cbn [map nth_error].
  rewrite nth_error_map, H. reflexivity.
Qed.
