(* Proofs/HexScanProofs.v — invariants of the per-string scan loop of Model/HirScan.v. *)
From Boreal Require Import Base.Prelude Spec.Regex Model.Widen Model.Validator Model.Raw Model.HirScan.
From Coq Require Import Sorted.

(* strictly ascending offsets: one match per offset, sorted *)
Definition asc (ms : list (N * N)) : Prop := StronglySorted (fun a b => fst a < fst b) ms.

Lemma insert_match_In ms x y : In y (insert_match ms x) -> y = x \/ In y ms.
Proof.
  induction ms as [|z r IH]; cbn [insert_match]; intros H.
  - destruct H as [<-|[]]; auto.
  - destruct (fst x <? fst z) eqn:E1; [destruct H as [<-|H]; auto|].
    destruct (fst x =? fst z) eqn:E2; [auto|].
    destruct H as [<-|H]; [right; left; reflexivity|].
    apply IH in H as [->|H]; auto. right; right; exact H.
Qed.

Lemma insert_match_keeps ms x y : In y ms -> In y (insert_match ms x).
Proof.
  induction ms as [|z r IH]; cbn [insert_match]; intros H; [destruct H|].
  destruct (fst x <? fst z); [right; exact H|].
  destruct (fst x =? fst z); [exact H|].
  destruct H as [<-|H]; [left; reflexivity|right; auto].
Qed.

Lemma insert_match_asc ms x : asc ms -> asc (insert_match ms x).
Proof.
  unfold asc. induction ms as [|z r IH]; cbn [insert_match]; intros H.
  - repeat constructor.
  - inversion H as [|? ? Hr Hz]; subst.
    destruct (fst x <? fst z) eqn:E1.
    + constructor; [exact H|]. constructor; [lia|].
      rewrite Forall_forall in *. intros y Hy. specialize (Hz y Hy). lia.
    + destruct (fst x =? fst z) eqn:E2; [exact H|].
      constructor; [apply IH; exact Hr|].
      rewrite Forall_forall in *. intros y Hy.
      apply insert_match_In in Hy as [->|Hy]; [lia|auto].
Qed.

(* the offset of x is present after insertion (possibly with the length of an earlier arrival) *)
Lemma insert_match_has_offset ms x : exists l, In (fst x, l) (insert_match ms x).
Proof.
  induction ms as [|z r IH]; cbn [insert_match].
  - exists (snd x). left. destruct x; reflexivity.
  - destruct (fst x <? fst z) eqn:E1; [exists (snd x); left; destruct x; reflexivity|].
    destruct (fst x =? fst z) eqn:E2.
    + exists (snd z). left. destruct z as [a b]. cbn [fst snd] in *. f_equal. lia.
    + destruct IH as [l Hl]. exists l. right. exact Hl.
Qed.

Lemma In_firstn {A} n (l : list A) x : In x (firstn n l) -> In x l.
Proof.
  revert n. induction l as [|y r IH]; intros [|n] H; cbn [firstn] in H; try (destruct H; fail).
  destruct H as [<-|H]; [left; reflexivity|right; eapply IH; eauto].
Qed.

Lemma firstn_asc n ms : asc ms -> asc (firstn n ms).
Proof.
  unfold asc. revert n. induction ms as [|z r IH]; intros [|n] H; cbn [firstn]; try constructor.
  - inversion H; subst. apply IH; assumption.
  - inversion H as [|? ? Hr Hz]; subst. rewrite Forall_forall in *. intros y Hy.
    apply Hz. eapply In_firstn; eauto.
Qed.

Lemma handle_hit_asc use_sp d mem max_nb acc h : asc acc -> asc (handle_hit use_sp d mem max_nb acc h).
Proof.
  intros Ha. unfold handle_hit. destruct h as [[[i ms] me] mt].
  set (found := process_ac_match _ _ _ _ _ _). clearbody found.
  assert (Hf : asc (fold_left (fun a se => insert_match a (fst se, snd se - fst se)) found acc)).
  { revert acc Ha. induction found as [|f fr IH]; intros acc Ha; cbn [fold_left]; [exact Ha|].
    apply IH. apply insert_match_asc. exact Ha. }
  destruct (max_nb <? _); [apply firstn_asc|]; exact Hf.
Qed.

(* C02 clause "offsets strictly increasing, at most one match per offset" for the AC path,
   whatever the decomposition, the validators and the input *)
Theorem ac_scan_ascending use_sp d mem max_nb : asc (ac_scan use_sp d mem max_nb).
Proof.
  unfold ac_scan. generalize (hits d mem). intros hs.
  assert (H0 : asc []) by constructor. revert H0. generalize (@nil (N * N)).
  induction hs as [|h hs IH]; intros acc Ha; cbn [fold_left]; [exact Ha|].
  apply IH. apply handle_hit_asc. exact Ha.
Qed.
