(* Proofs/SpanProofs.v — well-formedness of the spans the Atomized and Raw matchers report, and the
   length-choice clause where it can be proved:
   * every match recorded by the AC path of a non-nullable pattern has positive length and lies inside
     the input (the span contract C14's record theorem asks of a matcher);
   * Greedy kind and raw path: the reported length is the leftmost-first one. *)
From Boreal Require Import Base.Prelude Base.Consts Spec.Regex Model.Widen Model.Validator Model.SimpleValidator Model.Raw Model.HirScan
  Proofs.RegexBasics Proofs.RegexStruct Proofs.HexScanProofs Proofs.ValidatorProofs Proofs.RawProofs.

(* no empty match anywhere *)
Definition non_nullable (md : mods) (mem : list N) (h : hir) : Prop :=
  forall o, ~ In o (ends (flags_of md) mem h o).

Theorem atomized_spans_ok use_sp d mem max_nb :
  plain (s_mods d) -> atoms_ok d -> kind_ok d ->
  (s_kind d = KGreedy \/ DecompGlue (s_mods d) mem (s_hir d) (s_lits d) (s_pre d) (s_post d)) ->
  non_nullable (s_mods d) mem (s_hir d) ->
  Forall (fun y => 0 < snd y /\ fst y + snd y <= nlen mem) (ac_scan use_sp d mem max_nb).
Proof.
  intros Hp Ha Hk Hg Hnn.
  pose proof (atomized_sound use_sp d mem max_nb Hp Ha Hk Hg) as Hs.
  pose proof (ac_scan_good d mem max_nb (fun y => fst y <= nlen mem)
                (fun idx ms me mt sp se Hh Hse => process_bound d mem Hp Ha Hk idx ms me mt sp se Hh Hse) use_sp) as Hb.
  rewrite Forall_forall in *. intros y Hy. specialize (Hs y Hy). specialize (Hb y Hy). cbn beta in Hb.
  unfold Lens in Hs. apply in_map_iff in Hs as (e & He & Hin).
  pose proof (ends_ge _ _ _ _ _ Hin) as Hge.
  pose proof (ends_le _ _ _ _ _ Hb Hin) as Hle.
  assert (e <> fst y) by (intros ->; exact (Hnn _ Hin)).
  lia.
Qed.

Lemma filter_id_le (lim : N) l : (forall j, In j l -> j <= lim) -> filter (fun j => j <=? lim) l = l.
Proof.
  induction l as [|x r IH]; intros H; cbn [filter]; [reflexivity|].
  replace (x <=? lim) with true by (specialize (H x (or_introl eq_refl)); lia).
  f_equal. apply IH. intros j Hj. apply H. right. exact Hj.
Qed.

(* Greedy kind: the end of every recorded match is the leftmost-first end of the whole regex from
   its start (inputs within the window) *)
Theorem greedy_length_leftmost_first use_sp d mem max_nb :
  plain (s_mods d) -> atoms_ok d -> s_kind d = KGreedy -> (exists q, s_pre d = Some q) ->
  nlen mem <= MAX_SPLIT_MATCH_LENGTH ->
  Forall (fun y => hd_error (Lens (flags_of (s_mods d)) mem (s_hir d) (fst y)) = Some (snd y))
         (ac_scan use_sp d mem max_nb).
Proof.
  intros Hp Ha Hk (q & Hq) Hwin.
  apply (ac_scan_good d mem max_nb).
  intros idx ms me mt sp [s e] Hh Hse. unfold to_match. cbn [fst snd].
  apply hits_sound in Hh as (l & Hl & [Hocc Hlen] & -> & ->); [|exact Hp|exact Ha].
  unfold process_ac_match in Hse. rewrite Hk, Hq in Hse.
  apply filter_In in Hse as [Hse _]. unfold validate_greedy in Hse.
  apply rev_loop_sound in Hse as (st & Hrv & Hf).
  rewrite plain_dfa_rev in Hrv by exact Hp. destruct (st <=? _); [|discriminate].
  apply rev_min_start_spec in Hrv as (Hs & _ & _).
  rewrite plain_dfa_fwd in Hf by exact Hp. unfold lf_end in Hf.
  rewrite filter_id_le in Hf.
  - unfold Lens. destruct (ends (flags_of (s_mods d)) mem (s_hir d) s) as [|e0 r]; [discriminate|].
    cbn [hd_error map] in *. injection Hf as <-. reflexivity.
  - intros j Hj. apply ends_le in Hj; [|lia]. unfold sat_add.
    unfold MAX_SPLIT_MATCH_LENGTH, Consts.MAX_SPLIT_MATCH_LENGTH, umax in *. lia.
Qed.

(* Raw path: positive lengths inside the input, and the length is the leftmost-first one *)
Theorem raw_spans_and_choice md h mem max_nb :
  plain md -> non_nullable md mem h -> nlen mem < max_nb ->
  Forall (fun y => 0 < snd y /\ fst y + snd y <= nlen mem
                   /\ hd_error (Lens (flags_of md) mem h (fst y)) = Some (snd y))
         (raw_scan md h mem max_nb).
Proof.
  intros Hp Hnn Hbig.
  assert (Hend : ends (flags_of md) mem h (nlen mem) = []).
  { destruct (ends (flags_of md) mem h (nlen mem)) as [|e r] eqn:E; [reflexivity|]. exfalso.
    assert (Hin : In e (ends (flags_of md) mem h (nlen mem))) by (rewrite E; left; reflexivity).
    pose proof (ends_ge _ _ _ _ _ Hin). pose proof (ends_le _ _ _ _ _ (N.le_refl _) Hin).
    assert (e = nlen mem) by lia. subst e. exact (Hnn _ Hin). }
  rewrite (raw_scan_exact md h mem max_nb Hp Hend Hbig).
  apply Forall_forall. intros y Hy. apply in_map_iff in Hy as (s & <- & Hs).
  apply filter_In in Hs as [Hs1 Hs2]. apply iota_In in Hs1.
  unfold lf_match, first_end, has_match in *. cbn [fst snd].
  destruct (ends (flags_of md) mem h s) as [|e r] eqn:E; [discriminate|].
  assert (Hin : In e (ends (flags_of md) mem h s)) by (rewrite E; left; reflexivity).
  pose proof (ends_ge _ _ _ _ _ Hin). assert (Hsl : s <= nlen mem) by lia.
  pose proof (ends_le _ _ _ _ _ Hsl Hin).
  assert (e <> s) by (intros ->; exact (Hnn _ Hin)).
  repeat split; try lia. unfold Lens. rewrite E. reflexivity.
Qed.
