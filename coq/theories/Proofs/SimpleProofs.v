(* Proofs/SimpleProofs.v — the SimpleValidator (Model/SimpleValidator.v) computes exactly what the
   DFA validator computes (the searches of Spec/Regex.v) whenever `SimpleValidator::new` accepts the
   HIR: forward = anchored leftmost-first end within the span, reverse = smallest start within the
   span.  So the choice Simple / Dfa made by `HalfValidator::new` never changes a result. *)
From Boreal Require Import Base.Prelude Spec.Regex Model.Widen Model.Validator Model.SimpleValidator
  Proofs.RegexBasics Proofs.RegexStruct.

Definition obind {A B} (o : option A) (f : A -> option B) : option B :=
  match o with Some x => f x | None => None end.
Definition olist (o : option N) : list N := match o with Some x => [x] | None => [] end.

(* the fragment SimpleValidator accepts *)
Fixpoint frag (h : hir) : bool :=
  match h with
  | HLit _ | HMask _ _ _ | HDot | HEmpty => true
  | HGroup h' => frag h'
  | HConcat l => (fix go (l : list hir) : bool := match l with [] => true | x :: r => frag x && go r end) l
  | _ => false
  end.

Section Simple.
  Variable da : bool.
  Variable mem : list N.
  Let fl : rflags := {| nocase := false; dot_all := da; wide := false |}.
  Let n := nlen mem.

  Definition byte_step (p : N -> bool) (q : N) : option N :=
    match byte_at mem q with Some c => if p c then Some (q + 1) else None | None => None end.
  Definition byte_step_rev (p : N -> bool) (q : N) : option N :=
    if 0 <? q then match byte_at mem (q - 1) with Some c => if p c then Some (q - 1) else None | None => None end
    else None.

  (* deterministic matchers for the fragment, forwards and backwards *)
  Fixpoint det (h : hir) (p : N) : option N :=
    match h with
    | HLit b => byte_step (fun c => c =? b) p
    | HMask v m neg => byte_step (mask_mem v m neg) p
    | HDot => byte_step (fun c => da || negb (c =? 10)) p
    | HEmpty => Some p
    | HGroup h' => det h' p
    | HConcat l => (fix go (l : list hir) (p : N) : option N :=
                      match l with [] => Some p | x :: r => obind (det x p) (go r) end) l p
    | _ => None
    end.

  Fixpoint det_rev (h : hir) (p : N) : option N :=
    match h with
    | HLit b => byte_step_rev (fun c => c =? b) p
    | HMask v m neg => byte_step_rev (mask_mem v m neg) p
    | HDot => byte_step_rev (fun c => da || negb (c =? 10)) p
    | HEmpty => Some p
    | HGroup h' => det_rev h' p
    | HConcat l => (fix go (l : list hir) (p : N) : option N :=
                      match l with [] => Some p | x :: r => obind (go r p) (det_rev x) end) l p
    | _ => None
    end.

  Definition det_list : list hir -> N -> option N :=
    fix go (l : list hir) (p : N) : option N := match l with [] => Some p | x :: r => obind (det x p) (go r) end.
  Definition det_rev_list : list hir -> N -> option N :=
    fix go (l : list hir) (p : N) : option N := match l with [] => Some p | x :: r => obind (go r p) (det_rev x) end.
  Definition frag_list : list hir -> bool :=
    fix go (l : list hir) : bool := match l with [] => true | x :: r => frag x && go r end.

  (* ---- ends = det on the fragment *)
  Lemma dedup_olist o : dedup (olist o) = olist o.
  Proof. destruct o; reflexivity. Qed.

  Lemma step1_byte_step p q : step1 false p mem q = olist (byte_step p q).
  Proof. unfold step1, byte_step. destruct (byte_at mem q) as [c|]; [destruct (p c)|]; reflexivity. Qed.

  Lemma ends_det h : frag h = true -> forall p, ends fl mem h p = olist (det h p).
  Proof.
    induction h using hir_ind2; cbn [frag]; try discriminate; intros Hf p.
    - cbn [ends det]. rewrite step1_byte_step. unfold mask_mem. reflexivity.
    - (* concat *)
      rewrite ends_concat. change (det (HConcat l) p) with (det_list l p).
      change ((fix go (l0 : list hir) : bool := match l0 with [] => true | x :: r => frag x && go r end) l)
        with (frag_list l) in Hf.
      revert p. induction H as [|x r Hx Hr IH]; intros p; [reflexivity|].
      cbn [frag_list] in Hf. apply andb_true_iff in Hf as [Hfx Hfr].
      rewrite cat_ends_cons. cbn [det_list]. rewrite (Hx Hfx).
      destruct (det x p) as [q|]; cbn [olist obind]; [|reflexivity].
      unfold bind. cbn [flat_map]. rewrite app_nil_r. rewrite (IH Hfr). apply dedup_olist.
    - cbn [ends det]. rewrite step1_byte_step. reflexivity.
    - reflexivity.
    - cbn [ends det]. rewrite step1_byte_step. unfold byte_step.
      destruct (byte_at mem p) as [c|]; [|reflexivity].
      unfold eq_nocase. cbn [nocase fl andb]. rewrite orb_false_r, (N.eqb_sym b c). reflexivity.
    - cbn [ends det]. apply IHh. exact Hf.
  Qed.

  (* ---- forward and backward matchers are converse *)
  Lemma byte_step_conv p s e : byte_step p s = Some e <-> byte_step_rev p e = Some s.
  Proof.
    unfold byte_step, byte_step_rev. split.
    - destruct (byte_at mem s) as [c|] eqn:E; [|discriminate]. destruct (p c) eqn:Ep; [|discriminate].
      intros [= <-]. replace (0 <? s + 1) with true by lia. replace (s + 1 - 1) with s by lia.
      rewrite E, Ep. reflexivity.
    - destruct (0 <? e) eqn:E0; [|discriminate].
      destruct (byte_at mem (e - 1)) as [c|] eqn:E; [|discriminate]. destruct (p c) eqn:Ep; [|discriminate].
      intros [= <-]. rewrite E, Ep. f_equal. lia.
  Qed.

  Lemma det_conv h : frag h = true -> forall s e, det h s = Some e <-> det_rev h e = Some s.
  Proof.
    induction h using hir_ind2; cbn [frag]; try discriminate; intros Hf s e.
    - cbn [det det_rev]. apply byte_step_conv.
    - change (det (HConcat l) s) with (det_list l s). change (det_rev (HConcat l) e) with (det_rev_list l e).
      change ((fix go (l0 : list hir) : bool := match l0 with [] => true | x :: r => frag x && go r end) l)
        with (frag_list l) in Hf.
      revert s. induction H as [|x r Hx Hr IH]; intros s; cbn [det_list det_rev_list].
      + split; intros [= ->]; reflexivity.
      + cbn [frag_list] in Hf. apply andb_true_iff in Hf as [Hfx Hfr]. split.
        * destruct (det x s) as [q|] eqn:E; cbn [obind]; [|discriminate]. intros H1.
          apply (IH Hfr) in H1. rewrite H1. cbn [obind]. apply (Hx Hfx). exact E.
        * destruct (det_rev_list r e) as [q|] eqn:E; cbn [obind]; [|discriminate]. intros H1.
          apply (Hx Hfx) in H1. rewrite H1. cbn [obind]. apply (IH Hfr). reflexivity.
    - cbn [det det_rev]. apply byte_step_conv.
    - cbn [det det_rev]. split; intros [= ->]; reflexivity.
    - cbn [det det_rev]. apply byte_step_conv.
    - cbn [det det_rev]. apply IHh. exact Hf.
  Qed.
End Simple.

(* ------------------------------------------------------------------ the node walks *)
Section Walk.
  Variable da : bool.
  Variable mem : list N.
  Let n := nlen mem.

  Lemma byte_at_lt q : q < n -> exists c, byte_at mem q = Some c.
  Proof.
    intros H. unfold byte_at. destruct (nth_error mem (N.to_nat q)) as [c|] eqn:E; [eauto|].
    apply nth_error_None in E. unfold n, nlen in H. lia.
  Qed.

  (* checked variants: a jump never leaves [0, n] (the length test of the validator guarantees it) *)
  Definition node_step (nd : snode) (q : N) : option N :=
    match nd with
    | SJump k => if q + k <=? n then Some (q + k) else None
    | _ => byte_step mem (check_byte nd) q
    end.
  Definition node_step_rev (nd : snode) (q : N) : option N :=
    match nd with
    | SJump k => if (k <=? q) && (q <=? n) then Some (q - k) else None
    | _ => byte_step_rev mem (check_byte nd) q
    end.
  Fixpoint walk_chk (nodes : list snode) (q : N) : option N :=
    match nodes with [] => Some q | nd :: r => obind (node_step nd q) (walk_chk r) end.
  Fixpoint walk_rev_chk (nodes : list snode) (q : N) : option N :=
    match nodes with [] => Some q | nd :: r => obind (node_step_rev nd q) (walk_rev_chk r) end.

  Lemma byte_step_ext p p' q : (forall c, p c = p' c) -> byte_step mem p q = byte_step mem p' q.
  Proof. intros H. unfold byte_step. destruct (byte_at mem q); [rewrite H|]; reflexivity. Qed.
  Lemma byte_step_rev_ext p p' q : (forall c, p c = p' c) -> byte_step_rev mem p q = byte_step_rev mem p' q.
  Proof. intros H. unfold byte_step_rev. destruct (0 <? q); [|reflexivity]. destruct (byte_at mem (q - 1)); [rewrite H|]; reflexivity. Qed.

  Lemma walk_chk_app l1 l2 q : walk_chk (l1 ++ l2) q = obind (walk_chk l1 q) (walk_chk l2).
  Proof.
    revert q. induction l1 as [|nd r IH]; intros q; cbn [app walk_chk obind]; [reflexivity|].
    destruct (node_step nd q); cbn [obind]; [apply IH|reflexivity].
  Qed.
  Lemma walk_rev_chk_app l1 l2 q : walk_rev_chk (l1 ++ l2) q = obind (walk_rev_chk l1 q) (walk_rev_chk l2).
  Proof.
    revert q. induction l1 as [|nd r IH]; intros q; cbn [app walk_rev_chk obind]; [reflexivity|].
    destruct (node_step_rev nd q); cbn [obind]; [apply IH|reflexivity].
  Qed.

  Lemma obind_assoc {A B C} (o : option A) (f : A -> option B) (g : B -> option C) :
    obind (obind o f) g = obind o (fun x => obind (f x) g).
  Proof. destruct o; reflexivity. Qed.

  Lemma obind_ext {A B} (o : option A) (f g : A -> option B) : (forall x, f x = g x) -> obind o f = obind o g.
  Proof. intros H. destruct o; cbn [obind]; auto. Qed.

  Lemma obind_some {A} (o : option A) : obind o Some = o.
  Proof. destruct o; reflexivity. Qed.

  (* pushing one node = one more step at the end of the walk *)
  Lemma walk_push nd acc q : walk_chk (rev (nd :: acc)) q = obind (walk_chk (rev acc) q) (node_step nd).
  Proof.
    cbn [rev]. rewrite walk_chk_app. apply obind_ext. intros x. cbn [walk_chk]. apply obind_some.
  Qed.
  Lemma walk_rev_push nd acc q : walk_rev_chk (rev (nd :: acc)) q = obind (walk_rev_chk (rev acc) q) (node_step_rev nd).
  Proof.
    cbn [rev]. rewrite walk_rev_chk_app. apply obind_ext. intros x. cbn [walk_rev_chk]. apply obind_some.
  Qed.

  Lemma dot_all_step q : byte_step mem (fun c => true || negb (c =? 10)) q = if q + 1 <=? n then Some (q + 1) else None.
  Proof.
    unfold byte_step. destruct (q + 1 <=? n) eqn:E.
    - destruct (byte_at_lt q) as [c Hc]; [lia|]. rewrite Hc. reflexivity.
    - destruct (byte_at mem q) as [c|] eqn:Hc; [|reflexivity]. apply byte_at_Some in Hc. fold n in Hc. lia.
  Qed.
  Lemma dot_all_step_rev q :
    byte_step_rev mem (fun c => true || negb (c =? 10)) q = if (1 <=? q) && (q <=? n) then Some (q - 1) else None.
  Proof.
    unfold byte_step_rev. destruct (0 <? q) eqn:E0.
    - replace (1 <=? q) with true by lia. cbn [andb]. destruct (q <=? n) eqn:E.
      + destruct (byte_at_lt (q - 1)) as [c Hc]; [lia|]. rewrite Hc. reflexivity.
      + destruct (byte_at mem (q - 1)) as [c|] eqn:Hc; [|reflexivity]. apply byte_at_Some in Hc. fold n in Hc. lia.
    - replace (1 <=? q) with false by lia. reflexivity.
  Qed.

  (* ---- add_nodes extends the walk by the deterministic matcher of the node *)
  Lemma add_nodes_fwd h : forall acc acc',
    add_nodes da false h acc = Some acc' ->
    frag h = true /\ forall q, walk_chk (rev acc') q = obind (walk_chk (rev acc) q) (det da mem h).
  Proof.
    induction h using hir_ind2; intros acc acc'; cbn [add_nodes]; try discriminate.
    - (* mask *) intros [= <-]. split; [reflexivity|]. intros q. rewrite walk_push. apply obind_ext. intros x.
      cbn [det]. destruct n0; cbn [node_step]; apply byte_step_ext; intros c; unfold mask_mem; cbn [check_byte];
        destruct (N.land c m =? v); reflexivity.
    - (* concat *)
      change (frag (HConcat l)) with (frag_list l).
      assert (G : forall acc acc',
                 (fix go (l0 : list hir) (acc0 : list snode) : option (list snode) :=
                    match l0 with
                    | [] => Some acc0
                    | x :: r => match add_nodes da false x acc0 with Some acc'0 => go r acc'0 | None => None end
                    end) l acc = Some acc' ->
                 frag_list l = true /\ forall q, walk_chk (rev acc') q = obind (walk_chk (rev acc) q) (det_list da mem l)).
      { clear acc acc'. induction H as [|x r Hx Hr IH]; intros acc acc'.
        - intros [= <-]. split; [reflexivity|]. intros q. cbn [det_list]. rewrite obind_some. reflexivity.
        - destruct (add_nodes da false x acc) as [acc1|] eqn:E; [|discriminate]. intros H2.
          destruct (Hx _ _ E) as [Fx Wx]. destruct (IH _ _ H2) as [Fr Wr].
          split; [cbn [frag_list]; rewrite Fx, Fr; reflexivity|].
          intros q. rewrite Wr, Wx, obind_assoc. reflexivity. }
      intros H2. apply G in H2. exact H2.
    - (* dot *)
      destruct da eqn:Eda.
      + intros H2. split; [reflexivity|]. intros q. cbn [det].
        assert (Hpush : forall acc0, walk_chk (rev (SJump 1 :: acc0)) q
                                     = obind (walk_chk (rev acc0) q) (byte_step mem (fun c => true || negb (c =? 10)))).
        { intros acc0. rewrite walk_push. apply obind_ext. intros x. cbn [node_step]. rewrite dot_all_step. reflexivity. }
        destruct acc as [|[b|v m|v m|k|] t]; try (injection H2 as <-; apply Hpush).
        destruct (k <? 255); [|injection H2 as <-; apply Hpush].
        injection H2 as <-. rewrite !walk_push, obind_assoc. apply obind_ext. intros x.
        cbn [node_step]. rewrite (obind_ext _ _ _ dot_all_step).
        destruct (x + k <=? n) eqn:E1; cbn [obind].
        * replace (x + (k + 1)) with (x + k + 1) by lia. reflexivity.
        * replace (x + (k + 1) <=? n) with false by lia. reflexivity.
      + intros [= <-]. split; [reflexivity|]. intros q. rewrite walk_push. apply obind_ext. intros x. reflexivity.
    - intros [= <-]. split; [reflexivity|]. intros q. cbn [det]. rewrite obind_some. reflexivity.
    - intros [= <-]. split; [reflexivity|]. intros q. rewrite walk_push. apply obind_ext. intros x. reflexivity.
    - apply IHh.
  Qed.

  Lemma add_nodes_rev h : forall acc acc',
    add_nodes da true h acc = Some acc' ->
    frag h = true /\ forall q, walk_rev_chk (rev acc') q = obind (walk_rev_chk (rev acc) q) (det_rev da mem h).
  Proof.
    induction h using hir_ind2; intros acc acc'; cbn [add_nodes]; try discriminate.
    - intros [= <-]. split; [reflexivity|]. intros q. rewrite walk_rev_push. apply obind_ext. intros x.
      cbn [det_rev]. destruct n0; cbn [node_step_rev]; apply byte_step_rev_ext; intros c; unfold mask_mem; cbn [check_byte];
        destruct (N.land c m =? v); reflexivity.
    - change (frag (HConcat l)) with (frag_list l).
      assert (G : forall acc acc',
                 (fix go (l0 : list hir) (acc0 : list snode) : option (list snode) :=
                    match l0 with
                    | [] => Some acc0
                    | x :: r => match go r acc0 with Some acc'0 => add_nodes da true x acc'0 | None => None end
                    end) l acc = Some acc' ->
                 frag_list l = true /\ forall q, walk_rev_chk (rev acc') q = obind (walk_rev_chk (rev acc) q) (det_rev_list da mem l)).
      { clear acc acc'. induction H as [|x r Hx Hr IH]; intros acc acc'.
        - intros [= <-]. split; [reflexivity|]. intros q. cbn [det_rev_list]. rewrite obind_some. reflexivity.
        - destruct ((fix go (l0 : list hir) (acc0 : list snode) : option (list snode) :=
                       match l0 with
                       | [] => Some acc0
                       | x0 :: r0 => match go r0 acc0 with Some acc'0 => add_nodes da true x0 acc'0 | None => None end
                       end) r acc) as [acc1|] eqn:E; [|discriminate]. intros H2.
          destruct (IH _ _ E) as [Fr Wr]. destruct (Hx _ _ H2) as [Fx Wx].
          split; [cbn [frag_list]; rewrite Fx, Fr; reflexivity|].
          intros q. rewrite Wx, Wr, obind_assoc. reflexivity. }
      intros H2. apply G in H2. exact H2.
    - destruct da eqn:Eda.
      + intros H2. split; [reflexivity|]. intros q. cbn [det_rev].
        assert (Hpush : forall acc0, walk_rev_chk (rev (SJump 1 :: acc0)) q
                                     = obind (walk_rev_chk (rev acc0) q) (byte_step_rev mem (fun c => true || negb (c =? 10)))).
        { intros acc0. rewrite walk_rev_push. apply obind_ext. intros x. cbn [node_step_rev]. rewrite dot_all_step_rev. reflexivity. }
        destruct acc as [|[b|v m|v m|k|] t]; try (injection H2 as <-; apply Hpush).
        destruct (k <? 255); [|injection H2 as <-; apply Hpush].
        injection H2 as <-. rewrite !walk_rev_push, obind_assoc. apply obind_ext. intros x.
        cbn [node_step_rev]. rewrite (obind_ext _ _ _ dot_all_step_rev).
        destruct ((k <=? x) && (x <=? n)) eqn:E1; cbn [obind].
        * apply andb_true_iff in E1 as [E1 E2].
          destruct ((1 <=? x - k) && (x - k <=? n)) eqn:E3.
          -- replace ((k + 1 <=? x) && (x <=? n)) with true by lia. f_equal. lia.
          -- replace ((k + 1 <=? x) && (x <=? n)) with false by lia. reflexivity.
        * replace ((k + 1 <=? x) && (x <=? n)) with false by lia. reflexivity.
      + intros [= <-]. split; [reflexivity|]. intros q. rewrite walk_rev_push. apply obind_ext. intros x. reflexivity.
    - intros [= <-]. split; [reflexivity|]. intros q. cbn [det_rev]. rewrite obind_some. reflexivity.
    - intros [= <-]. split; [reflexivity|]. intros q. rewrite walk_rev_push. apply obind_ext. intros x. reflexivity.
    - apply IHh.
  Qed.
End Walk.

(* ------------------------------------------------------------------ lengths; the unchecked walks *)
Section Final.
  Variable mem : list N.
  Let n := nlen mem.

  Lemma byte_step_len p q q' : byte_step mem p q = Some q' -> q' = q + 1 /\ q' <= n.
  Proof.
    unfold byte_step. destruct (byte_at mem q) as [c|] eqn:E; [|discriminate].
    destruct (p c); [|discriminate]. intros [= <-]. apply byte_at_Some in E. fold n in E. lia.
  Qed.
  Lemma byte_step_rev_len p q q' : byte_step_rev mem p q = Some q' -> q = q' + 1 /\ q <= n.
  Proof.
    unfold byte_step_rev. destruct (0 <? q) eqn:E0; [|discriminate].
    destruct (byte_at mem (q - 1)) as [c|] eqn:E; [|discriminate].
    destruct (p c); [|discriminate]. intros [= <-]. apply byte_at_Some in E. fold n in E. lia.
  Qed.

  Lemma walk_chk_len nodes q q' : walk_chk mem nodes q = Some q' -> q' = q + nodes_len nodes.
  Proof.
    revert q. induction nodes as [|nd r IH]; intros q; cbn [walk_chk nodes_len fold_right].
    - intros [= <-]. lia.
    - destruct (node_step mem nd q) as [q1|] eqn:E; cbn [obind]; [|discriminate]. intros H. apply IH in H.
      fold (nodes_len r) in *.
      destruct nd; cbn [node_step node_len] in *;
        try (apply byte_step_len in E; lia).
      fold n in E. destruct (q + k <=? n); [|discriminate]. injection E as <-. lia.
  Qed.
  Lemma walk_rev_chk_len nodes q q' : walk_rev_chk mem nodes q = Some q' -> q = q' + nodes_len nodes.
  Proof.
    revert q. induction nodes as [|nd r IH]; intros q; cbn [walk_rev_chk nodes_len fold_right].
    - intros [= <-]. lia.
    - destruct (node_step_rev mem nd q) as [q1|] eqn:E; cbn [obind]; [|discriminate]. intros H. apply IH in H.
      fold (nodes_len r) in *.
      destruct nd; cbn [node_step_rev node_len] in *;
        try (apply byte_step_rev_len in E; lia).
      fold n in E. destruct ((k <=? q) && (q <=? n)) eqn:E1; [|discriminate]. injection E as <-. lia.
  Qed.

  (* inside the length bound the validator's own walks (no bound test on jumps) are the checked ones *)
  Lemma walk_fwd_chk nodes q : q + nodes_len nodes <= n -> walk_fwd nodes mem q = walk_chk mem nodes q.
  Proof.
    revert q. induction nodes as [|nd r IH]; intros q; cbn [walk_fwd walk_chk nodes_len fold_right]; [reflexivity|].
    fold (nodes_len r). intros Hb.
    destruct nd; cbn [node_step node_len] in *; unfold byte_step;
      try (destruct (byte_at mem q) as [c|]; [|reflexivity];
           match goal with |- context [check_byte ?nd c] => destruct (check_byte nd c) end;
           cbn [obind]; [apply IH; lia|reflexivity]).
    fold n. replace (q + k <=? n) with true by lia. cbn [obind]. apply IH. lia.
  Qed.
  Lemma walk_rev_chk_eq nodes q : nodes_len nodes <= q -> q <= n -> walk_rev nodes mem q = walk_rev_chk mem nodes q.
  Proof.
    revert q. induction nodes as [|nd r IH]; intros q; cbn [walk_rev walk_rev_chk nodes_len fold_right]; [reflexivity|].
    fold (nodes_len r). intros Hb Hn.
    destruct nd; cbn [node_step_rev node_len] in *; unfold byte_step_rev;
      try (replace (0 <? q) with true by lia; cbn [andb];
           destruct (byte_at mem (q - 1)) as [c|]; [|reflexivity];
           match goal with |- context [check_byte ?nd c] => destruct (check_byte nd c) end;
           cbn [obind]; [apply IH; lia|reflexivity]).
    fold n. replace ((k <=? q) && (q <=? n)) with true by lia. cbn [obind]. apply IH; lia.
  Qed.

  Lemma find_all_false (P : N -> bool) l : (forall x, In x l -> P x = false) -> find P l = None.
  Proof.
    induction l as [|y r IH]; intros H; cbn [find]; [reflexivity|].
    rewrite (H y (or_introl eq_refl)). apply IH. intros x Hx. apply H. right. exact Hx.
  Qed.

  Variable md : mods.
  Let fl := flags_of md.

  Lemma simple_new_flags h rv sv : simple_new md h rv = Some sv ->
    fl = {| nocase := false; dot_all := m_dot_all md; wide := false |}
    /\ exists acc, add_nodes (m_dot_all md) rv h [] = Some acc /\ sv_nodes sv = rev acc /\ sv_length sv = nodes_len (rev acc).
  Proof.
    unfold simple_new. destruct (m_nocase md) eqn:E1; [discriminate|]. destruct (m_wide md) eqn:E2; [discriminate|].
    cbn [orb]. destruct (add_nodes _ _ _ _) as [acc|]; [|discriminate]. intros [= <-].
    split; [unfold fl, flags_of; rewrite E1; reflexivity|]. exists acc. repeat split.
  Qed.

  (* forward: the anchored leftmost-first end within [start, lim) *)
  Theorem simple_fwd_correct h sv start lim :
    simple_new md h false = Some sv -> start <= lim <= n ->
    simple_fwd sv mem start lim = lf_end fl mem h start lim.
  Proof.
    intros Hs Hb. apply simple_new_flags in Hs as (Hfl & acc & Ha & Hn & Hl).
    destruct (add_nodes_fwd (m_dot_all md) mem h [] acc Ha) as [Hf Hw].
    unfold simple_fwd, lf_end. rewrite Hfl, (ends_det (m_dot_all md) mem h Hf), Hn, Hl.
    specialize (Hw start). cbn [rev walk_chk obind] in Hw. rewrite <- Hw.
    destruct (walk_chk mem (rev acc) start) as [q|] eqn:E.
    - pose proof (walk_chk_len _ _ _ E) as Hq. cbn [olist filter].
      destruct (lim - start <? nodes_len (rev acc)) eqn:E1.
      + replace (q <=? lim) with false by lia. reflexivity.
      + replace (q <=? lim) with true by lia. cbn [hd_error]. rewrite walk_fwd_chk by (fold n; lia). exact E.
    - cbn [olist filter hd_error]. destruct (lim - start <? _) eqn:E1; [reflexivity|].
      rewrite walk_fwd_chk by (fold n; lia). exact E.
  Qed.

  (* reverse: the smallest start within [lo, e) *)
  Theorem simple_rev_correct h sv lo e :
    simple_new md h true = Some sv -> lo <= e <= n ->
    simple_rev sv mem lo e = rev_min_start fl mem h lo e.
  Proof.
    intros Hs Hb. apply simple_new_flags in Hs as (Hfl & acc & Ha & Hn & Hl).
    destruct (add_nodes_rev (m_dot_all md) mem h [] acc Ha) as [Hf Hw].
    unfold simple_rev, rev_min_start. rewrite Hfl, Hn, Hl.
    specialize (Hw e). cbn [rev walk_rev_chk obind] in Hw.
    assert (HP : forall s, mem_N e (ends {| nocase := false; dot_all := m_dot_all md; wide := false |} mem h s) = true
                           <-> det_rev (m_dot_all md) mem h e = Some s).
    { intros s. rewrite (ends_det (m_dot_all md) mem h Hf). rewrite <- (det_conv (m_dot_all md) mem h Hf).
      destruct (det (m_dot_all md) mem h s) as [q|]; cbn [olist mem_N existsb].
      - rewrite orb_false_r, N.eqb_eq. split; [intros ->; reflexivity|intros [= ->]; reflexivity].
      - split; discriminate. }
    rewrite <- Hw in HP.
    destruct (walk_rev_chk mem (rev acc) e) as [s0|] eqn:E.
    - pose proof (walk_rev_chk_len _ _ _ E) as Hq.
      destruct (e - lo <? nodes_len (rev acc)) eqn:E1.
      + symmetry. apply find_all_false. intros x Hx. apply iota_In in Hx.
        destruct (mem_N e _) eqn:Em; [|reflexivity]. apply HP in Em. injection Em as <-. lia.
      + rewrite walk_rev_chk_eq by (fold n; lia). rewrite E. symmetry.
        apply find_iota_least; [lia|apply HP; reflexivity|].
        intros x Hx. destruct (mem_N e _) eqn:Em; [|reflexivity]. apply HP in Em. injection Em as <-. lia.
    - assert (Hnone : find (fun s => mem_N e (ends {| nocase := false; dot_all := m_dot_all md; wide := false |} mem h s))
                           (iota lo (e + 1 - lo)) = None).
      { apply find_all_false. intros x _. destruct (mem_N e _) eqn:Em; [|reflexivity]. apply HP in Em. discriminate. }
      rewrite Hnone. destruct (e - lo <? _) eqn:E1; [reflexivity|].
      rewrite walk_rev_chk_eq by (fold n; lia). exact E.
  Qed.
End Final.
