(* Proofs/ModFuncsAll.v — C16_model_eq_spec: for every well-formed scan (bytes < 256, sizes far below 2^64/255,
   regions without address overflow) and every list of well-typed probes with i64 arguments, what the model of
   boreal's hash / math / string functions computes — including the hash cache threaded through the probes — is what
   the specification says.  (So on such cases corr_ok and spec_ok of the correspondence term coincide.) *)
From Coq Require Import QArith.
From Boreal Require Import Base.Prelude Spec.MathSpec Spec.Digest Spec.Strtol Spec.RangeSpec
  Model.ModFuncs Model.HashMod Model.MathMod Model.StringMod Model.ModFuncsCase
  Proofs.ModFuncsProofs Proofs.ModFuncsFrag Proofs.ModFuncsToInt Proofs.ModFuncsMath Proofs.ModFuncsCrc
  Proofs.ModFuncsMath2.
Open Scope N_scope.

Definition i64 (z : Z) : Prop := (-9223372036854775808 <= z <= 9223372036854775807)%Z.
Definition bytes_ok (s : list N) : Prop := Forall (fun x => x < 256) s /\ 255 * nlen s <= umax.
Definition mem_ok (m : memory) : Prop :=
  match m with Direct l => bytes_ok l | Frag _ rs => regions_ok rs /\ bytes_ok (flat rs) end.

Definition data_fns : list fn := [HMd5; HSha1; HSha256; HCrc32; HChecksum32; MEntropy; MMean; MSerial; MMonte].

(* the argument shapes the modules declare (and the compiler enforces), with i64 integers *)
Inductive wf_probe : fn -> list arg -> Prop :=
| wf_range : forall f o n, In f data_fns -> i64 o -> i64 n -> wf_probe f [AInt o; AInt n]
| wf_lit : forall f s, In f data_fns -> bytes_ok s -> wf_probe f [AStr s]
| wf_dev_range : forall o n mu, i64 o -> i64 n -> wf_probe MDeviation [AInt o; AInt n; AFlt mu]
| wf_dev_lit : forall s mu, bytes_ok s -> wf_probe MDeviation [AStr s; AFlt mu]
| wf_cnt_range : forall f b o n, In f [MCount; MPercentage] -> i64 o -> i64 n -> wf_probe f [AInt b; AInt o; AInt n]
| wf_cnt_whole : forall f b, In f [MCount; MPercentage] -> wf_probe f [AInt b]
| wf_mode_range : forall o n, i64 o -> i64 n -> wf_probe MMode [AInt o; AInt n]
| wf_mode_whole : wf_probe MMode []
| wf_minmax : forall f a b, In f [MMin; MMax] -> i64 a -> i64 b -> wf_probe f [AInt a; AInt b]
| wf_abs : forall v, wf_probe MAbs [AInt v]
| wf_to_number : forall b, wf_probe MToNumber [ABool b]
| wf_to_string1 : forall v, i64 v -> wf_probe MToString [AInt v]
| wf_to_string2 : forall v b, i64 v -> wf_probe MToString [AInt v; AInt b]
| wf_to_int1 : forall s, wf_probe SToInt [AStr s]
| wf_to_int2 : forall s b, wf_probe SToInt [AStr s; AInt b]
| wf_length : forall s, wf_probe SLength [AStr s].

(* the value a call has when the cache is ignored *)
Definition uncached_call (m : memory) (f : fn) (args : list arg) : mres :=
  match f with
  | HMd5 => hash_call md5_d m args
  | HSha1 => hash_call sha1_d m args
  | HSha256 => hash_call sha256_d m args
  | _ => snd (model_call m no_caches f args)
  end.

(* ------------------------------------------------------------------ ranges *)
Lemma bytes_ok_sums : forall s, bytes_ok s -> Forall (fun x => x < 256) s /\ sum_list s <= umax /\ nlen s <= umax.
Proof. intros s [H1 H2]. pose proof (sum_list_bound s H1). repeat split; [assumption|lia|lia]. Qed.

Lemma spec_range_ok : forall m o n l, mem_ok m -> spec_range m o n = Some l -> bytes_ok l.
Proof.
  intros m o n l Hm Hs. destruct m as [mem|refetch rs]; cbn [mem_ok spec_range] in *.
  - destruct Hm as [H1 H2]. split; [eapply clip_forall; eassumption|].
    pose proof (clip_length _ _ _ _ Hs). lia.
  - destruct Hm as (Hok & H1 & H2).
    destruct ((o <? 0)%Z || (n <? 0)%Z || negb refetch); [discriminate|].
    destruct (spec_frag_bounds _ _ _ _ _ Hs H1) as [Hb Hl]. split; [assumption|lia].
Qed.

Lemma hash_call_range : forall d m o n,
  streaming d -> (forall st, d_update d st [] = st) -> mem_ok m -> i64 o -> i64 n ->
  hash_call d m [AInt o; AInt n] = match spec_range m o n with Some l => from_bytes d l | None => RUndef end.
Proof.
  intros d m o n Hs Hnil Hm Ho Hn. unfold i64 in *.
  destruct m as [mem|refetch rs].
  - rewrite hash_range by (unfold i64max; lia). cbn [spec_range]. unfold clip_direct.
    destruct ((o <? 0)%Z || (n <? 0)%Z || (Z.of_N (nlen mem) <=? o)%Z); reflexivity.
  - destruct Hm as (Hok & _). unfold hash_call, get_args.
    destruct (o <? 0)%Z eqn:E1; [rewrite start_end_neg, spec_range_neg by lia; reflexivity|].
    destruct (n <? 0)%Z eqn:E2; [rewrite start_end_neg, spec_range_neg by lia; reflexivity|].
    rewrite start_end_total by (unfold i64max; lia). rewrite spec_range_frag by lia.
    destruct refetch.
    + rewrite hash_fragmented by (assumption || lia).
      replace (Z.to_N o + Z.to_N n - Z.to_N o) with (Z.to_N n) by lia. reflexivity.
    + unfold from_mem, from_mem_gen. change (on_range_gen (d_update d) true) with (on_range (d_update d)).
      now rewrite on_range_no_refetch.
Qed.

Lemma nil_bytes : forall f st, d_update (bytes_digest f) st [] = st.
Proof. intros. cbn. apply app_nil_r. Qed.

(* ------------------------------------------------------------------ one call, cache ignored *)
Lemma uncached_spec : forall m f args, mem_ok m -> wf_probe f args -> uncached_call m f args = spec_call m f args.
Proof.
  intros m f args Hm Hw. destruct Hw.
  - (* (offset, size) *)
    assert (Ho : (o <= i64max)%Z) by (unfold i64, i64max in *; lia).
    assert (Hn : (n <= i64max)%Z) by (unfold i64, i64max in *; lia).
    assert (Hmath : In f [MEntropy; MMean; MSerial; MMonte; MMode] ->
                    snd (model_call m no_caches f [AInt o; AInt n]) = spec_call m f [AInt o; AInt n]).
    { destruct m as [mem|refetch rs].
      - destruct Hm as [M1 M2]. now apply (math_ranges mem o n no_caches M1 M2 Ho Hn).
      - destruct Hm as (Hok & M1 & M2). now apply (math_fragmented refetch rs o n no_caches Hok M1 M2 Ho Hn). }
    unfold data_fns in H. cbn in H.
    destruct H as [<-|[<-|[<-|[<-|[<-|[<-|[<-|[<-|[<-|[]]]]]]]]]];
      try (apply Hmath; cbn; tauto);
      cbn [uncached_call model_call snd spec_call spec_data].
    + rewrite hash_call_range by (assumption || apply bytes_digest_streaming || apply nil_bytes).
      destruct (spec_range m o n); reflexivity.
    + rewrite hash_call_range by (assumption || apply bytes_digest_streaming || apply nil_bytes).
      destruct (spec_range m o n); reflexivity.
    + rewrite hash_call_range by (assumption || apply bytes_digest_streaming || apply nil_bytes).
      destruct (spec_range m o n); reflexivity.
    + rewrite hash_call_range by (assumption || apply crc_streaming || (intros; reflexivity)).
      destruct (spec_range m o n) as [l|] eqn:E; [|reflexivity].
      apply crc32_correct. now destruct (spec_range_ok _ _ _ _ Hm E).
    + rewrite hash_call_range by (assumption || apply checksum_streaming || (intros; reflexivity)).
      destruct (spec_range m o n) as [l|] eqn:E; [|reflexivity]. apply checksum32_correct.
  - (* literal *)
    destruct (bytes_ok_sums s H0) as (Hb & Hs & Hl).
    assert (Hmath : In f [MEntropy; MMean; MSerial; MMonte] ->
                    snd (model_call m no_caches f [AStr s]) = spec_call m f [AStr s]).
    { intros Hin. now apply (math_literals m s no_caches Hb Hs Hl). }
    unfold data_fns in H. cbn in H.
    destruct H as [<-|[<-|[<-|[<-|[<-|[<-|[<-|[<-|[<-|[]]]]]]]]]];
      try (apply Hmath; cbn; tauto);
      cbn [uncached_call model_call snd spec_call spec_data]; unfold hash_call; cbn [get_args]; try reflexivity.
    + now apply crc32_correct.
    + apply checksum32_correct.
  - (* deviation over a range *)
    assert (Ho : (o <= i64max)%Z) by (unfold i64, i64max in *; lia).
    assert (Hn : (n <= i64max)%Z) by (unfold i64, i64max in *; lia).
    cbn [uncached_call]. destruct m as [mem|refetch rs].
    + destruct Hm as [M1 M2]. now apply (math_ranges mem o n no_caches M1 M2 Ho Hn).
    + destruct Hm as (Hok & M1 & M2). now apply (math_fragmented refetch rs o n no_caches Hok M1 M2 Ho Hn).
  - destruct (bytes_ok_sums s H) as (Hb & Hs & Hl). cbn [uncached_call].
    now apply (math_literals m s no_caches Hb Hs Hl).
  - (* count / percentage over a range *)
    assert (Ho : (o <= i64max)%Z) by (unfold i64, i64max in *; lia).
    assert (Hn : (n <= i64max)%Z) by (unfold i64, i64max in *; lia).
    assert (Hu : uncached_call m f [AInt b; AInt o; AInt n] = snd (model_call m no_caches f [AInt b; AInt o; AInt n]))
      by (cbn in H; destruct H as [<-|[<-|[]]]; reflexivity).
    rewrite Hu. destruct m as [mem|refetch rs].
    + destruct Hm as [M1 M2]. now apply (math_ranges mem o n no_caches M1 M2 Ho Hn).
    + destruct Hm as (Hok & M1 & M2). now apply (math_fragmented refetch rs o n no_caches Hok M1 M2 Ho Hn).
  - (* count / percentage of the whole input *)
    cbn in H. destruct m as [mem|refetch rs].
    + destruct Hm as [M1 _]. destruct H as [<-|[<-|[]]]; cbn [uncached_call model_call snd];
        [now apply count_whole|now apply percentage_whole].
    + destruct H as [<-|[<-|[]]]; cbn [uncached_call model_call snd spec_call whole_or_range get_direct];
        unfold count_call, percentage_call, to_usize; cbn [dist_of_args get_direct with_dist];
        destruct (b <? 0)%Z; reflexivity.
  - (* mode over a range *)
    assert (Ho : (o <= i64max)%Z) by (unfold i64, i64max in *; lia).
    assert (Hn : (n <= i64max)%Z) by (unfold i64, i64max in *; lia).
    cbn [uncached_call]. destruct m as [mem|refetch rs].
    + destruct Hm as [M1 M2]. apply (math_ranges mem o n no_caches M1 M2 Ho Hn). cbn. tauto.
    + destruct Hm as (Hok & M1 & M2). apply (math_fragmented refetch rs o n no_caches Hok M1 M2 Ho Hn). cbn. tauto.
  - (* mode of the whole input *)
    cbn [uncached_call model_call snd]. destruct m as [mem|refetch rs].
    + destruct Hm as [M1 _]. now destruct (mode_whole mem M1) as [-> _].
    + reflexivity.
  - cbn in H. unfold i64 in *. destruct (min_max_spec a b H0 H1) as [Hmin Hmax].
    destruct H as [<-|[<-|[]]]; cbn [uncached_call model_call snd spec_call]; assumption.
  - cbn [uncached_call model_call snd]. apply (small_ints_spec m).
  - cbn [uncached_call model_call snd]. apply (small_ints_spec m).
  - cbn [uncached_call model_call snd]. now apply (to_string_spec_eq m v).
  - cbn [uncached_call model_call snd]. now apply (to_string_spec_eq m v).
  - cbn [uncached_call model_call snd spec_call]. apply to_int_spec1.
  - cbn [uncached_call model_call snd spec_call]. apply to_int_spec2.
  - cbn [uncached_call model_call snd]. apply (small_ints_spec m).
Qed.

(* ------------------------------------------------------------------ the cache threaded through the probes *)
Definition caches_ok (m : memory) (c : caches) : Prop :=
  cache_ok md5_d m (k_md5 c) /\ cache_ok sha1_d m (k_sha1 c) /\ cache_ok sha256_d m (k_sha256 c).

Lemma model_call_uncached : forall m c f args, caches_ok m c ->
  caches_ok m (fst (model_call m c f args)) /\ snd (model_call m c f args) = uncached_call m f args.
Proof.
  intros m c f args (H1 & H2 & H3).
  destruct f; try (split; [repeat split; assumption|reflexivity]); cbn [model_call uncached_call].
  - pose proof (cached_step md5_d m (k_md5 c) args H1) as H.
    destruct (hash_call_cached md5_d m (k_md5 c) args) as [k v]. destruct H as [Hk ->].
    cbn [fst snd]. repeat split; assumption.
  - pose proof (cached_step sha1_d m (k_sha1 c) args H2) as H.
    destruct (hash_call_cached sha1_d m (k_sha1 c) args) as [k v]. destruct H as [Hk ->].
    cbn [fst snd]. repeat split; assumption.
  - pose proof (cached_step sha256_d m (k_sha256 c) args H3) as H.
    destruct (hash_call_cached sha256_d m (k_sha256 c) args) as [k v]. destruct H as [Hk ->].
    cbn [fst snd]. repeat split; assumption.
Qed.

Lemma model_run_spec : forall m ps c, mem_ok m -> caches_ok m c ->
  Forall (fun p => wf_probe (fst p) (snd p)) ps -> model_run m c ps = spec_run m ps.
Proof.
  intros m ps; induction ps as [|[f args] ps IH]; intros c Hm Hc Hw; [reflexivity|].
  inversion Hw as [|? ? Hp Hps]; subst. cbn [fst snd] in Hp.
  cbn [model_run]. unfold spec_run. cbn [map fst snd]. fold (spec_run m ps).
  destruct (model_call_uncached m c f args Hc) as [Hc' Hv].
  destruct (model_call m c f args) as [c' v]. cbn [fst snd] in *.
  rewrite Hv, (uncached_spec m f args Hm Hp). f_equal. now apply IH.
Qed.

(* C16_model_eq_spec *)
Lemma model_eq_spec : forall m ps, mem_ok m ->
  Forall (fun p => wf_probe (fst p) (snd p)) ps -> model_run m no_caches ps = spec_run m ps.
Proof.
  intros m ps Hm Hw. apply model_run_spec; try assumption.
  repeat split; intros k v [].
Qed.

(* the hypotheses are satisfiable: a fragmented scan with probes of several kinds *)
Definition ex_mem : memory :=
  Frag true [{| rg_start := 16; rg_len := 3; rg_data := [97; 98; 99]; rg_fail := false |};
             {| rg_start := 19; rg_len := 4; rg_data := [100; 101; 102; 103]; rg_fail := false |}].
Definition ex_probes : list (fn * list arg) :=
  [(HMd5, [AInt 17; AInt 4]); (HMd5, [AInt 17; AInt 4]); (HCrc32, [AInt 16; AInt 100]); (MMode, [AInt 16; AInt 7]);
   (MDeviation, [AInt 18; AInt 3; AFlt (199 # 2)]); (MCount, [AInt 97]); (SToInt, [AStr [48; 120; 49; 48]; AInt 16]);
   (MMonte, [AStr [0; 0; 0; 0; 0; 0; 255]]); (MToString, [AInt (-1); AInt 16])].

Lemma ex_wf : mem_ok ex_mem /\ Forall (fun p => wf_probe (fst p) (snd p)) ex_probes.
Proof.
  split.
  - cbn. split.
    + intros r [<-|[<-|[]]]; cbn; unfold umax; lia.
    + split; [repeat constructor; lia|unfold umax, nlen; cbn; lia].
  - unfold ex_probes. repeat apply Forall_cons; try apply Forall_nil; cbn [fst snd].
    + apply wf_range; [cbn; tauto|unfold i64; lia|unfold i64; lia].
    + apply wf_range; [cbn; tauto|unfold i64; lia|unfold i64; lia].
    + apply wf_range; [cbn; tauto|unfold i64; lia|unfold i64; lia].
    + apply wf_mode_range; unfold i64; lia.
    + apply wf_dev_range; unfold i64; lia.
    + apply wf_cnt_whole. cbn. tauto.
    + apply wf_to_int2.
    + apply wf_lit; [cbn; tauto|]. split; [repeat constructor; lia|unfold umax, nlen; cbn; lia].
    + apply wf_to_string2. unfold i64. lia.
Qed.
