(* Proofs/TextFull.v — C01 at full strength: the base64 validation hypothesis of Proofs/TextMain.v is
   discharged by Proofs/TextBase64.v for every well-formed declaration. *)
From Boreal Require Import Base.Prelude Base.ListX Base.Bytes Model.Literals Model.AcScan
  Spec.TextSpec Model.TextCase Proofs.TextLiterals Proofs.TextMain Proofs.TextBase64.

Theorem text_matches_full d m prm :
  wf_decl d = true ->
  nlen (spec_offsets d m) <= p_max_nb_matches prm ->
  let r := model_scan_text prm d m in
  map sm_off r = spec_offsets d m
  /\ Forall (fun x => exists e, In e (enc_set d) /\ occ d m (sm_off x) e = true
                       /\ sm_len x = nlen (e_bytes e) /\ sm_key x = e_key e) r
  /\ Forall (fun x => sm_base x = 0
                      /\ sm_data x = slice (sm_off x) (sm_off x + N.min (sm_len x) (p_match_max_length prm)) m) r.
Proof. intros Hwf. apply text_matches_main; [exact Hwf | now apply b64_okb_wf]. Qed.

Theorem lit_to_enc_full d i lit :
  wf_decl d = true ->
  nnth_opt i (new_bytes_literals d) = Some lit -> exists e, In e (enc_set d) /\ link d i e.
Proof. intros Hwf. apply lit_to_enc; [exact Hwf | now apply b64_okb_wf]. Qed.

Theorem enc_to_lit_full d e :
  wf_decl d = true -> In e (enc_set d) -> exists i, link d i e.
Proof. intros Hwf. apply enc_to_lit; [exact Hwf | now apply b64_okb_wf]. Qed.
