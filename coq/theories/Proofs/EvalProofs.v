From Boreal Require Import Base.Prelude Base.Res Model.Eval Spec.CondSem.

(* evaluate_rule: an undefined condition does not match *)
Lemma eval_rule_undef en c : eval en None [] c = Undef -> eval_rule en c = Ok false.
Proof. intros H. unfold eval_rule. rewrite H. reflexivity. Qed.
