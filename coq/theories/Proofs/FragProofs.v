(* Proofs/FragProofs.v — C11: a fragmented scan is the concatenation, in region order, of independent
   scans of the fetched regions (each started from an empty list, with the part of the match limit
   that is left); a failed fetch contributes nothing and disturbs nothing; one region based at zero
   is the direct scan; filesize is undefined. *)
From Boreal Require Import Base.Prelude Base.ListX Base.Bytes Model.Literals Model.Ac Model.AcScan Model.Memory
  Spec.FragSpec Proofs.AcScanInsert Proofs.AcScanDecomp Proofs.LimitsProofs.

(* ------------------------------------------------------------------ matches of earlier regions are a frozen prefix *)
Definition other_base (b : N) (dn : list smatch) : Prop := forall y, In y dn -> sm_base y <> b.

Lemma insert_rev_app rc rd x :
  (forall y, In y rd -> sm_base y <> sm_base x) ->
  insert_rev (rc ++ rd) x = insert_rev rc x ++ rd.
Proof.
  intros Hd. induction rc as [|z rc IH]; cbn [app insert_rev].
  - destruct rd as [|y rd]; [reflexivity|]. cbn [insert_rev].
    assert (sm_base y <> sm_base x) by (apply Hd; now left).
    replace (sm_base y =? sm_base x) with false by lia. reflexivity.
  - destruct ((sm_base z =? sm_base x) && (sm_off x <? sm_off z)); [now rewrite IH|].
    destruct ((sm_base z =? sm_base x) && (sm_off z =? sm_off x)); reflexivity.
Qed.

Lemma insert_match_prefix dn c x :
  other_base (sm_base x) dn -> insert_match (dn ++ c) x = dn ++ insert_match c x.
Proof.
  intros Hd. unfold insert_match. rewrite rev_app_distr, insert_rev_app.
  - now rewrite rev_app_distr, rev_involutive.
  - intros y Hy. apply Hd. now apply in_rev.
Qed.

Lemma start_position_prefix rg dn c :
  other_base (rg_start rg) dn -> start_position rg (dn ++ c) = start_position rg c.
Proof.
  intros Hd. unfold start_position, last_opt. rewrite rev_app_distr.
  destruct (rev c) as [|x rc] eqn:E; cbn [app]; [|reflexivity].
  destruct (rev dn) as [|y rd] eqn:E2; [reflexivity|].
  assert (sm_base y <> rg_start rg).
  { apply Hd. apply in_rev. rewrite E2. now left. }
  replace (sm_base y =? rg_start rg) with false by lia. reflexivity.
Qed.

(* the limit that is left once k matches are frozen *)
Definition shift (prm : sparams) (k : N) : sparams :=
  {| p_match_max_length := p_match_max_length prm; p_max_nb_matches := p_max_nb_matches prm - k |}.

Lemma smn_shift prm k rg s e key : string_match_new (shift prm k) rg s e key = string_match_new prm rg s e key.
Proof. reflexivity. Qed.

Lemma truncate_prefix prm dn x :
  nlen dn <= p_max_nb_matches prm ->
  truncate_matches prm (dn ++ x) = dn ++ truncate_matches (shift prm (nlen dn)) x.
Proof.
  intros H. unfold truncate_matches, ntake, shift. cbn [p_max_nb_matches]. rewrite firstn_app.
  rewrite firstn_all2 by (unfold nlen in H; lia). f_equal. f_equal. unfold nlen in *. lia.
Qed.

Lemma fold_insert_prefix prm rg dn l : forall c,
  other_base (rg_start rg) dn ->
  fold_left (fun acc se => insert_match acc (string_match_new prm rg (fst se) (snd se) 0)) l (dn ++ c)
  = dn ++ fold_left (fun acc se => insert_match acc (string_match_new prm rg (fst se) (snd se) 0)) l c.
Proof.
  induction l as [|se l IH]; intros c Hd; cbn [fold_left]; [reflexivity|].
  rewrite insert_match_prefix by exact Hd. now apply IH.
Qed.

Lemma var_step_prefix prm rg var dn c cand :
  other_base (rg_start rg) dn -> nlen dn <= p_max_nb_matches prm ->
  var_step prm rg var (dn ++ c) cand = dn ++ var_step (shift prm (nlen dn)) rg var c cand.
Proof.
  intros Hd Hl. destruct cand as [[i s] e]. unfold var_step, var_step_with.
  destruct (confirm_ac_literal var (rg_mem rg) s e i) as [t|]; [|reflexivity].
  rewrite start_position_prefix by exact Hd.
  destruct (mt_process var (rg_mem rg) s e (start_position rg c) t) as [|s' e'|l].
  - now apply truncate_prefix.
  - rewrite insert_match_prefix by exact Hd. rewrite smn_shift. now apply truncate_prefix.
  - rewrite fold_insert_prefix by exact Hd. rewrite truncate_prefix by exact Hl. reflexivity.
Qed.

Lemma fold_var_step_prefix prm rg var dn cs : forall c,
  other_base (rg_start rg) dn -> nlen dn <= p_max_nb_matches prm ->
  fold_left (var_step prm rg var) cs (dn ++ c)
  = dn ++ fold_left (var_step (shift prm (nlen dn)) rg var) cs c.
Proof.
  induction cs as [|cand cs IH]; intros c Hd Hl; cbn [fold_left]; [reflexivity|].
  rewrite var_step_prefix by assumption. now apply IH.
Qed.

Lemma single_loop_prefix_dn prm rg var dn fuel : forall offset c,
  nlen dn <= p_max_nb_matches prm ->
  single_loop fuel prm rg var offset (dn ++ c)
  = dn ++ single_loop fuel (shift prm (nlen dn)) rg var offset c.
Proof.
  induction fuel as [|fuel IH]; intros offset c Hl; cbn [single_loop]; [reflexivity|].
  destruct (offset <? nlen (rg_mem rg)); [|reflexivity].
  cbn [shift p_max_nb_matches]. rewrite nlen_app.
  replace (p_max_nb_matches prm - nlen dn <=? nlen c) with (p_max_nb_matches prm <=? nlen dn + nlen c) by lia.
  destruct (p_max_nb_matches prm <=? nlen dn + nlen c); [reflexivity|].
  destruct (mt_find_next var (rg_mem rg) offset) as [[s e]|]; [|reflexivity].
  rewrite smn_shift. rewrite <- app_assoc. rewrite !nlen_app.
  replace (p_max_nb_matches prm - nlen dn <=? nlen c + nlen [string_match_new prm rg s e 0])
    with (p_max_nb_matches prm <=? nlen dn + (nlen c + nlen [string_match_new prm rg s e 0])) by lia.
  destruct (p_max_nb_matches prm <=? nlen dn + (nlen c + nlen [string_match_new prm rg s e 0])); [reflexivity|].
  now apply IH.
Qed.

(* one region: what was saved before is kept as it is, and the region is scanned as if on its own *)
Theorem scan_var_region_prefix prm var rg dn :
  other_base (rg_start rg) dn -> nlen dn <= p_max_nb_matches prm ->
  scan_var_region prm var rg dn = dn ++ scan_var_region (shift prm (nlen dn)) var rg [].
Proof.
  intros Hd Hl. unfold scan_var_region.
  assert (E : fold_left (var_step prm rg var) (own_cands var rg) dn
              = dn ++ fold_left (var_step (shift prm (nlen dn)) rg var) (own_cands var rg) []).
  { rewrite <- (fold_var_step_prefix prm rg var dn (own_cands var rg) [] Hd Hl). now rewrite app_nil_r. }
  cbv zeta. rewrite E.
  destruct (mt_literals var); [|reflexivity].
  unfold scan_single_variable. now apply single_loop_prefix_dn.
Qed.

(* ------------------------------------------------------------------ the union over regions *)
(* per-region scans, each from an empty list with the limit that is left, concatenated *)
Fixpoint union_from (prm : sparams) (var : matcher) (regions : list fregion) (k : N) : list smatch :=
  match regions with
  | [] => []
  | r :: rest =>
      if f_fail r then union_from prm var rest k
      else
        let own := scan_var_region (shift prm k) var {| rg_start := f_start r; rg_mem := f_mem r |} [] in
        own ++ union_from prm var rest (k + nlen own)
  end.

Lemma scan_var_region_bases prm var rg vm y :
  In y (scan_var_region prm var rg vm) -> In y vm \/ sm_base y = rg_start rg.
Proof.
  intros H. apply scan_var_region_built in H as [H|H]; [now left|]. right.
  now apply built_on_fields in H.
Qed.

Lemma shift_shift prm a b : shift (shift prm a) b = shift prm (a + b).
Proof. unfold shift. cbn. f_equal. lia. Qed.

Theorem fragmented_union prm var regions :
  NoDup (map f_start regions) ->
  scan_var_fragmented prm var regions = union_from prm var regions 0.
Proof.
  intros Hnd. unfold scan_var_fragmented.
  assert (G : forall dn,
    nlen dn <= p_max_nb_matches prm ->
    (forall y, In y dn -> ~ In (sm_base y) (map f_start regions)) ->
    NoDup (map f_start regions) ->
    fold_left (fun vm r => if f_fail r then vm
                 else scan_var_region prm var {| rg_start := f_start r; rg_mem := f_mem r |} vm) regions dn
    = dn ++ union_from prm var regions (nlen dn)).
  { clear Hnd. induction regions as [|r regions IH]; intros dn Hl Hb Hn; cbn [fold_left union_from].
    - now rewrite app_nil_r.
    - cbn [map] in Hn. inversion Hn as [|? ? Hni Hn']; subst.
      assert (Hb' : forall y, In y dn -> ~ In (sm_base y) (map f_start regions)).
      { intros y Hy Hc. apply (Hb y Hy). cbn [map In]. now right. }
      destruct (f_fail r); [now apply IH|].
      set (rg := {| rg_start := f_start r; rg_mem := f_mem r |}).
      assert (Hob : other_base (rg_start rg) dn).
      { intros y Hy E. apply (Hb y Hy). cbn [map In]. left. unfold rg in E. cbn in E. congruence. }
      rewrite (scan_var_region_prefix prm var rg dn Hob Hl).
      set (own := scan_var_region (shift prm (nlen dn)) var rg []).
      rewrite IH.
      + rewrite <- app_assoc. f_equal. f_equal. f_equal. now rewrite nlen_app.
      + rewrite nlen_app. pose proof (scan_var_region_limit (shift prm (nlen dn)) var rg []) as Hlim.
        fold own in Hlim. cbn [shift p_max_nb_matches] in Hlim.
        assert (nlen (@nil smatch) <= p_max_nb_matches prm - nlen dn) by (cbn; lia). specialize (Hlim H). lia.
      + intros y Hy. apply in_app_or in Hy as [Hy|Hy]; [now apply Hb'|].
        unfold own in Hy. apply scan_var_region_bases in Hy as [[]|E].
        rewrite E. unfold rg. cbn [rg_start]. exact Hni.
      + exact Hn'. }
  rewrite (G []); [reflexivity | cbn; lia | intros y [] | exact Hnd].
Qed.

(* ------------------------------------------------------------------ small facts *)
(* a single region based at zero gives the direct scan (string results) *)
Theorem single_region_zero prm vars mem dl :
  scan_fragmented prm vars [{| f_start := 0; f_mem := mem; f_fail := false; f_described := dl |}]
  = scan_direct prm vars mem.
Proof. reflexivity. Qed.

(* a region whose fetch fails contributes nothing and disturbs no other region *)
Theorem failed_region_skipped prm vars pre r post :
  f_fail r = true ->
  scan_fragmented prm vars (pre ++ r :: post) = scan_fragmented prm vars (pre ++ post).
Proof.
  intros Hf. unfold scan_fragmented. rewrite !fold_left_app. cbn [fold_left]. now rewrite Hf.
Qed.

Theorem filesize_undefined regions : filesize_fragmented regions = None.
Proof. reflexivity. Qed.

(* no refetch allowed: every integer read and every range walk is undefined *)
Theorem no_refetch_undefined regions a n s e :
  read_uint false regions a n = None /\ on_range false regions s e = None.
Proof.
  unfold read_uint, get_contiguous, on_range. split.
  - destruct (umax <? a + n); [reflexivity|]. destruct (a + n <? a); reflexivity.
  - destruct (e <? s); reflexivity.
Qed.

(* an integer read that succeeds returns bytes of one fetched region that covers the whole span *)
Theorem get_contiguous_sound regions : forall start end_ bs,
  get_contiguous_loop regions start end_ = Some bs ->
  exists r, In r regions /\ f_fail r = false /\ f_start r <= start
            /\ end_ - f_start r <= nlen (f_mem r)
            /\ bs = slice (start - f_start r) (end_ - f_start r) (f_mem r).
Proof.
  induction regions as [|r regions IH]; intros start end_ bs H; cbn [get_contiguous_loop] in H; [discriminate|].
  destruct (start <? f_start r) eqn:E1; [discriminate|].
  destruct (f_described r <=? start - f_start r).
  - apply IH in H as (r' & Hin & Hr). exists r'. split; [now right | exact Hr].
  - destruct (f_fail r) eqn:Ef; [discriminate|].
    destruct ((start - f_start r <=? end_ - f_start r) && (end_ - f_start r <=? nlen (f_mem r))) eqn:E2;
      [|discriminate].
    inversion H; subst. exists r. repeat split; auto; [now left | lia | lia].
Qed.
