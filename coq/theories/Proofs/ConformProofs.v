(* Proofs/ConformProofs.v — lemmas behind Properties/C07.v.
   (1) what the two boolean checks of Model/ConformCase.v mean, and that agreement with a list that
       conforms to the specification transfers the specification to the other list (this is how a
       validated case composes "libyara = spec" with "boreal = libyara" into "boreal = spec");
   (2) the offsets ConformCase uses for a text string are Spec/TextSpec.spec_offsets, so the C01
       theorem applies to them. *)
From Boreal Require Import Base.Prelude Base.ListX Base.Bytes Base.Res Model.Literals Model.AcScan Spec.TextSpec
  Spec.Regex Model.Hir Model.Eval Spec.CondSem Model.EvalCost Model.Scanner Spec.RuleSetSpec Model.TextCase
  Model.ConformCase Proofs.TextMain.

Open Scope bool_scope.

Lemma memN_In x l : mem_N x l = true <-> In x l.
Proof.
  unfold mem_N. rewrite existsb_exists. split.
  - intros [y [Hi He]]. apply N.eqb_eq in He. now subst.
  - intros Hi. exists x. split; [exact Hi | apply N.eqb_refl].
Qed.

(* ---- meaning of string_spec_ok *)
Lemma string_spec_ok_sound s m out :
  string_spec_ok s m out = true ->
  map fst out = spec_offsets_of s m
  /\ Forall (fun ol => In (snd ol) (spec_lens s m (fst ol))) out.
Proof.
  unfold string_spec_ok. intros H. apply andb_true_iff in H. destruct H as [H1 H2]. split.
  - apply (proj1 (list_eqb_spec N.eqb Neqb_iff _ _)). exact H1.
  - apply Forall_forall. intros ol Hi. rewrite forallb_forall in H2. apply memN_In. now apply H2.
Qed.

(* ---- meaning of string_agree: pointwise, same offsets, same length where unique *)
Lemma forallb2_offsets {A B} (f : A -> B -> bool) (ka : A -> N) (kb : B -> N) l l' :
  (forall a b, f a b = true -> ka a = kb b) ->
  forallb2 f l l' = true -> map ka l = map kb l'.
Proof.
  intros Hk. revert l'. induction l as [|a r IH]; intros [|b r']; cbn [forallb2 map]; try discriminate; auto.
  intros H. apply andb_true_iff in H. destruct H as [H1 H2]. f_equal; [now apply Hk | now apply IH].
Qed.

Lemma string_agree_offsets s m y b : string_agree s m y b = true -> map fst y = map fst b.
Proof.
  unfold string_agree. apply forallb2_offsets. intros yo bo H.
  apply andb_true_iff in H. destruct H as [H _]. now apply N.eqb_eq in H.
Qed.

Lemma string_agree_lengths s m y b :
  string_agree s m y b = true ->
  Forall (fun ol => In (snd ol) (spec_lens s m (fst ol))) y ->
  Forall (fun bo => uniq_len s m (fst bo) = true -> In (snd bo) (spec_lens s m (fst bo))) b.
Proof.
  unfold string_agree. revert b. induction y as [|yo r IH]; intros [|bo r']; cbn [forallb2]; try discriminate.
  - constructor.
  - intros H Hy. apply andb_true_iff in H. destruct H as [H1 H2].
    apply andb_true_iff in H1. destruct H1 as [Ho Hl]. apply N.eqb_eq in Ho.
    inversion Hy as [|? ? Hy1 Hy2]; subst. constructor; [|now apply IH].
    intros Hu. rewrite <- Ho in Hu. rewrite Hu in Hl. cbn [negb orb] in Hl. apply N.eqb_eq in Hl.
    rewrite <- Ho, <- Hl. exact Hy1.
Qed.

(* ---- transfer: libyara's list conforms to the specification and boreal agrees with libyara, hence
   boreal's offsets are the specification's and its lengths are member lengths wherever unique *)
Lemma agreement_transfers s m y b :
  string_spec_ok s m y = true -> string_agree s m y b = true ->
  map fst b = spec_offsets_of s m
  /\ Forall (fun bo => uniq_len s m (fst bo) = true -> In (snd bo) (spec_lens s m (fst bo))) b.
Proof.
  intros Hs Ha. destruct (string_spec_ok_sound s m y Hs) as [Ho Hl]. split.
  - rewrite <- (string_agree_offsets s m y b Ha). exact Ho.
  - exact (string_agree_lengths s m y b Ha Hl).
Qed.

(* ---- the text-string offsets of ConformCase are those of Spec/TextSpec *)
Lemma nonempty_map_filter {A B} (f : A -> B) (p : A -> bool) l :
  nonempty (map f (filter p l)) = existsb p l.
Proof.
  induction l as [|a r IH]; cbn [filter map existsb nonempty]; [reflexivity|].
  destruct (p a); cbn [map nonempty orb]; [reflexivity | exact IH].
Qed.

Lemma text_offsets_eq d m : spec_offsets_of (SText d) m = spec_offsets d m.
Proof.
  unfold spec_offsets_of, spec_offsets, spec_lens, text_lens. apply filter_ext. intros o.
  apply nonempty_map_filter.
Qed.

(* C01 restated on ConformCase's notion of "offsets the specification predicts" *)
Lemma text_chain d m prm :
  wf_decl d = true -> b64_okb d = true ->
  nlen (spec_offsets_of (SText d) m) <= p_max_nb_matches prm ->
  map sm_off (model_scan_text prm d m) = spec_offsets_of (SText d) m.
Proof.
  intros Hw Hb Hn. rewrite text_offsets_eq in *. exact (proj1 (text_matches_main d m prm Hw Hb Hn)).
Qed.

(* ---- classes: a documented deviation is never a recorded finding and conversely *)
Lemma documented_below_findings k : is_documented k = true -> k < K_FIXED_OFFSET.
Proof. unfold is_documented, K_FIXED_OFFSET. intros H. apply andb_true_iff in H. destruct H as [_ H]. apply N.leb_le in H. lia. Qed.

(* the verdict reported for a class of recorded findings never claims boreal agrees *)
Lemma case_class_means_disagreement rs ins ys bs ds ok s b k :
  C07_case rs ins ys bs ds ok = (s, b, k) -> K_FIXED_OFFSET <= k -> b = false.
Proof.
  unfold C07_case. intros H Hk.
  destruct (negb (forallb2 _ bs ds)) eqn:Es in H; [now inversion H|].
  destruct (negb (cond_class rs =? 0) && _) eqn:Ew in H.
  - destruct (is_documented (cond_class rs)) eqn:Ed in H.
    + inversion H; subst. apply documented_below_findings in Ed. lia.
    + now inversion H.
  - repeat match type of H with
           | context [if ?c then _ else _] => destruct c
           end; inversion H; subst; try reflexivity; unfold K_FIXED_OFFSET in Hk; lia.
Qed.
