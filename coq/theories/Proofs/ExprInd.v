(* Proofs/ExprInd.v — induction principle for `expr` giving `Forall P` on the nested operand lists. *)
From Boreal Require Import Base.Prelude Base.Res Model.Eval.

Section ExprInd.
  Variable P : expr -> Prop.
  Hypothesis HInt : forall z, P (EInt z).
  Hypothesis HBytes : forall b, P (EBytes b).
  Hypothesis HBool : forall b, P (EBool b).
  Hypothesis HFilesize : P EFilesize.
  Hypothesis HReadInt : forall ty a, P a -> P (EReadInt ty a).
  Hypothesis HCount : forall v, P (ECount v).
  Hypothesis HCountIn : forall v f t, P f -> P t -> P (ECountIn v f t).
  Hypothesis HOffset : forall v a, P a -> P (EOffset v a).
  Hypothesis HLength : forall v a, P a -> P (ELength v a).
  Hypothesis HVar : forall v, P (EVar v).
  Hypothesis HVarAt : forall v a, P a -> P (EVarAt v a).
  Hypothesis HVarIn : forall v f t, P f -> P t -> P (EVarIn v f t).
  Hypothesis HUn : forall o a, P a -> P (EUn o a).
  Hypothesis HBin : forall o l r, P l -> P r -> P (EBin o l r).
  Hypothesis HAnd : forall l, Forall P l -> P (EAnd l).
  Hypothesis HOr : forall l, Forall P l -> P (EOr l).
  Hypothesis HDefined : forall a, P a -> P (EDefined a).
  Hypothesis HFor : forall k se set body, P se -> P body -> P (EFor k se set body).
  Hypothesis HForRange : forall k se f t body, P se -> P f -> P t -> P body -> P (EForRange k se f t body).
  Hypothesis HForList : forall k se elems body, P se -> Forall P elems -> P body -> P (EForList k se elems body).
  Hypothesis HForRules : forall k se already elems, P se -> P (EForRules k se already elems).
  Hypothesis HRule : forall i, P (ERule i).
  Hypothesis HExt : forall i, P (EExt i).
  Hypothesis HBound : forall i, P (EBound i).
  Hypothesis HDouble : forall f, P (EDouble f).

  Fixpoint expr_ind' (e : expr) : P e :=
    let list_ind := fix go (l : list expr) : Forall P l :=
      match l with
      | [] => Forall_nil P
      | x :: r => Forall_cons x (expr_ind' x) (go r)
      end in
    match e with
    | EInt z => HInt z
    | EDouble f => HDouble f
    | EBytes b => HBytes b
    | EBool b => HBool b
    | EFilesize => HFilesize
    | EReadInt ty a => HReadInt ty a (expr_ind' a)
    | ECount v => HCount v
    | ECountIn v f t => HCountIn v f t (expr_ind' f) (expr_ind' t)
    | EOffset v a => HOffset v a (expr_ind' a)
    | ELength v a => HLength v a (expr_ind' a)
    | EVar v => HVar v
    | EVarAt v a => HVarAt v a (expr_ind' a)
    | EVarIn v f t => HVarIn v f t (expr_ind' f) (expr_ind' t)
    | EUn o a => HUn o a (expr_ind' a)
    | EBin o l r => HBin o l r (expr_ind' l) (expr_ind' r)
    | EAnd l => HAnd l (list_ind l)
    | EOr l => HOr l (list_ind l)
    | EDefined a => HDefined a (expr_ind' a)
    | EFor k se set body => HFor k se set body (expr_ind' se) (expr_ind' body)
    | EForRange k se f t body => HForRange k se f t body (expr_ind' se) (expr_ind' f) (expr_ind' t) (expr_ind' body)
    | EForList k se elems body => HForList k se elems body (expr_ind' se) (list_ind elems) (expr_ind' body)
    | EForRules k se already elems => HForRules k se already elems (expr_ind' se)
    | ERule i => HRule i
    | EExt i => HExt i
    | EBound i => HBound i
    end.
End ExprInd.
