(* Proofs/InterleaveProofs.v — every interleaving of T scans gives each job the result it has alone (C13).
   The hypothesis that does the work is named `pool_irrelevant`: what a step returns (next private state or
   result) does not depend on the content of the shared cache pools.  That is the contract of
   regex-automata's `Cache` ("a cache is scratch space; any cache created for the regex, or reset, gives the
   same search results"), not something proved here. *)
From Boreal Require Import Base.Prelude Model.ScannerState Model.Interleave Proofs.ScannerStateProofs.
Open Scope nat_scope.

Section Proofs.
  Variable inner job pstate pool result : Type.
  Variable init : inner -> job -> pstate.
  Variable step : inner -> pool -> pstate -> pool * (pstate + result).
  Notation tstate := (tstate pstate result).
  Notation sys := (sys pstate pool result).
  Notation alone := (alone step).
  Notation exec := (exec step).
  Notation sys_step := (sys_step step).

  Hypothesis pool_irrelevant : forall i p1 p2 s, snd (step i p1 s) = snd (step i p2 s).

  Lemma alone_pool (i : inner) n : forall p1 p2 ts, alone i n p1 ts = alone i n p2 ts.
  Proof.
    induction n as [|n IH]; intros p1 p2 ts; cbn [Interleave.alone]; auto.
    destruct ts as [s|r]; auto.
    pose proof (pool_irrelevant i p1 p2 s) as E.
    destruct (step i p1 s) as [p1' r1], (step i p2 s) as [p2' r2]. cbn [snd] in E. subst r2. apply IH.
  Qed.

  (* one step then n steps = n+1 steps, whatever pools are used *)
  Lemma alone_S (i : inner) n p p' ts : alone i n p' (alone i 1 p ts) = alone i (S n) p ts.
  Proof.
    cbn [Interleave.alone]. destruct ts as [s|r].
    - destruct (step i p s) as [p1 r1]. apply alone_pool.
    - destruct n; reflexivity.
  Qed.

  Lemma sys_step_thread (i : inner) (y : sys) u t :
    nth_error (sy_threads (sys_step i y u)) t
    = if Nat.eqb u t then option_map (alone i 1 (sy_pool y)) (nth_error (sy_threads y) t)
      else nth_error (sy_threads y) t.
  Proof.
    unfold Interleave.sys_step. destruct (Nat.eqb_spec u t) as [->|N].
    - destruct (nth_error (sy_threads y) t) as [[s|r]|] eqn:E; cbn [option_map Interleave.alone].
      + destruct (step i (sy_pool y) s) as [p' r]. cbn [sy_threads].
        apply nth_set_slot_eq. eapply nth_error_lt; eauto.
      + exact E.
      + exact E.
    - destruct (nth_error (sy_threads y) u) as [[s|r]|]; auto.
      destruct (step i (sy_pool y) s) as [p' r]. cbn [sy_threads]. apply nth_set_slot_neq; auto.
  Qed.

  (* the state of thread t after any schedule: as many steps alone as the schedule gave it *)
  Lemma exec_thread (i : inner) (sched : list nat) : forall (y : sys) t p,
    nth_error (sy_threads (exec i y sched)) t
    = option_map (alone i (count_occ Nat.eq_dec sched t) p) (nth_error (sy_threads y) t).
  Proof.
    induction sched as [|u sched IH]; intros y t p; cbn [Interleave.exec fold_left count_occ].
    - destruct (nth_error (sy_threads y) t); reflexivity.
    - fold (exec i (sys_step i y u) sched). rewrite (IH _ t p), sys_step_thread.
      destruct (Nat.eq_dec u t) as [->|N].
      + rewrite Nat.eqb_refl. destruct (nth_error (sy_threads y) t) as [ts|]; cbn [option_map]; auto.
        f_equal. rewrite alone_S. apply alone_pool.
      + destruct (Nat.eqb_spec u t); [contradiction|reflexivity].
  Qed.

  (* C13_interleaving *)
  Lemma interleaving (i : inner) (jobs : list job) (p0 p1 : pool) (sched : list nat) t j :
    nth_error jobs t = Some j ->
    nth_error (sy_threads (exec i (start init i p0 jobs) sched)) t
    = Some (alone i (count_occ Nat.eq_dec sched t) p1 (Running (init i j))).
  Proof.
    intros H. rewrite (exec_thread i sched _ t p1). unfold start. cbn [sy_threads].
    rewrite (map_nth_error _ _ _ H). reflexivity.
  Qed.

  (* a finished job stays finished with the same result *)
  Lemma alone_done (i : inner) n p r : alone i n p (Done r) = Done r.
  Proof. destruct n; reflexivity. Qed.

  Lemma alone_add (i : inner) n m p ts : alone i (n + m) p ts = alone i m p (alone i n p ts).
  Proof.
    revert p ts; induction n as [|n IH]; intros p ts; cbn [Nat.add Interleave.alone]; auto.
    destruct ts as [s|r]; [|symmetry; apply alone_done].
    destruct (step i p s) as [p' r']. rewrite IH. apply alone_pool.
  Qed.

  Lemma alone_done_mono (i : inner) n m p p' ts r : alone i n p ts = Done r -> n <= m -> alone i m p' ts = Done r.
  Proof.
    intros H L. replace m with (n + (m - n)) by lia. rewrite alone_add, (alone_pool i n p' p), H. apply alone_done.
  Qed.

  (* the result of a job run alone (the sequential oracle): some number of steps with some pool finishes with r *)
  Definition seq_result (i : inner) (j : job) (r : result) : Prop :=
    exists n p, alone i n p (Running (init i j)) = Done r.

  Lemma seq_result_unique (i : inner) j r1 r2 : seq_result i j r1 -> seq_result i j r2 -> r1 = r2.
  Proof.
    intros (n1 & p1 & H1) (n2 & p2 & H2).
    pose proof (alone_done_mono i n1 (max n1 n2) p1 p1 _ r1 H1 (Nat.le_max_l _ _)) as A.
    pose proof (alone_done_mono i n2 (max n1 n2) p2 p1 _ r2 H2 (Nat.le_max_r _ _)) as B.
    congruence.
  Qed.

  (* whatever the schedule, a job that is finished has its sequential result *)
  Lemma interleaving_result (i : inner) (jobs : list job) (p0 : pool) (sched : list nat) t j r :
    nth_error jobs t = Some j ->
    nth_error (sy_threads (exec i (start init i p0 jobs) sched)) t = Some (Done r) ->
    seq_result i j r.
  Proof.
    intros Hj H. rewrite (interleaving i jobs p0 p0 sched t j Hj) in H. injection H as H.
    exists (count_occ Nat.eq_dec sched t), p0. exact H.
  Qed.

  (* two schedules (e.g. the OS's and the sequential one), any initial pool content: same results *)
  Lemma schedule_independent (i : inner) (jobs : list job) (p0 p0' : pool) (sched sched' : list nat) t r r' :
    nth_error (sy_threads (exec i (start init i p0 jobs) sched)) t = Some (Done r) ->
    nth_error (sy_threads (exec i (start init i p0' jobs) sched')) t = Some (Done r') ->
    r = r'.
  Proof.
    intros H H'. destruct (nth_error jobs t) as [j|] eqn:Hj.
    - eapply seq_result_unique; eapply interleaving_result; eauto.
    - rewrite (exec_thread i sched _ t p0) in H. unfold start in H. cbn [sy_threads] in H.
      rewrite nth_error_map, Hj in H. discriminate.
  Qed.

  (* a fair enough schedule finishes every job that finishes alone *)
  Lemma interleaving_complete (i : inner) (jobs : list job) (p0 : pool) (sched : list nat) t j r n p :
    nth_error jobs t = Some j -> alone i n p (Running (init i j)) = Done r ->
    n <= count_occ Nat.eq_dec sched t ->
    nth_error (sy_threads (exec i (start init i p0 jobs) sched)) t = Some (Done r).
  Proof.
    intros Hj H L. rewrite (interleaving i jobs p0 p0 sched t j Hj). f_equal. eapply alone_done_mono; eauto.
  Qed.

  (* the sequential oracle is one of the schedules: thread 0 for n0 steps, then thread 1 for n1 steps, ... *)
  Lemma count_repeat_same t n : count_occ Nat.eq_dec (repeat t n) t = n.
  Proof. induction n as [|n IH]; cbn [repeat count_occ]; auto. destruct (Nat.eq_dec t t); [lia|contradiction]. Qed.

  Lemma count_repeat_other t u n : t <> u -> count_occ Nat.eq_dec (repeat u n) t = 0.
  Proof.
    intros H. induction n as [|n IH]; cbn [repeat count_occ]; auto.
    destruct (Nat.eq_dec u t); [congruence|exact IH].
  Qed.

  Lemma count_seq_schedule fuels : forall base t,
    count_occ Nat.eq_dec (seq_schedule base fuels) t = if Nat.ltb t base then 0 else nth (t - base) fuels 0.
  Proof.
    induction fuels as [|n r IH]; intros base t; cbn [seq_schedule].
    - cbn [count_occ]. destruct (Nat.ltb t base); auto. destruct (t - base); reflexivity.
    - rewrite count_occ_app, IH.
      destruct (Nat.eq_dec t base) as [->|Hn].
      + rewrite count_repeat_same. destruct (Nat.ltb_spec base (S base)); [|lia].
        destruct (Nat.ltb_spec base base); [lia|]. rewrite Nat.sub_diag. cbn [nth]. lia.
      + rewrite count_repeat_other; auto.
        destruct (Nat.ltb_spec t (S base)), (Nat.ltb_spec t base); try lia; auto.
        replace (t - base) with (S (t - S base)) by lia. reflexivity.
  Qed.

  Lemma sequential_schedule (i : inner) (jobs : list job) (p0 : pool) (fuels : list nat) t j r p :
    nth_error jobs t = Some j -> alone i (nth t fuels 0) p (Running (init i j)) = Done r ->
    nth_error (sy_threads (exec i (start init i p0 jobs) (seq_schedule 0 fuels))) t = Some (Done r).
  Proof.
    intros Hj H. eapply interleaving_complete; eauto.
    rewrite count_seq_schedule. cbn [Nat.ltb Nat.leb]. rewrite Nat.sub_0_r. lia.
  Qed.

  (* ---------------------------------------------------------------- several jobs per worker *)
  Lemma qstep_pool_irrelevant : forall i p1 p2 q,
    snd (qstep init step i p1 q) = snd (qstep init step i p2 q).
  Proof.
    intros i p1 p2 [[cur pend] acc]. unfold qstep. destruct cur as [s|].
    - pose proof (pool_irrelevant i p1 p2 s) as E.
      destruct (step i p1 s) as [p1' r1], (step i p2 s) as [p2' r2]. cbn [snd] in E. subst r2.
      destruct r1; reflexivity.
    - destruct pend; reflexivity.
  Qed.
End Proofs.

(* ---------------------------------------------------------------- the queue system: results of a worker *)
Section Queue.
  Variable inner job pstate pool result : Type.
  Variable init : inner -> job -> pstate.
  Variable step : inner -> pool -> pstate -> pool * (pstate + result).
  Hypothesis pool_irrelevant : forall i p1 p2 s, snd (step i p1 s) = snd (step i p2 s).

  Notation qstep := (qstep init step).
  Notation seq_result := (seq_result inner job pstate pool result init step).

  (* invariant of a worker: the results so far are the sequential results of the jobs taken so far, and the
     scan in progress is some number of steps into its job *)
  Definition qinv (i : inner) (js : list job) (q : qstate job pstate result) : Prop :=
    let '(cur, pend, acc) := q in
    exists done_js,
      Forall2 (seq_result i) done_js acc /\
      match cur with
      | None => js = done_js ++ pend
      | Some s => exists j n p, js = done_js ++ j :: pend /\ alone step i n p (Running (init i j)) = Running s
      end.

  Lemma qinv_step (i : inner) js q p :
    qinv i js q ->
    match snd (qstep i p q) with
    | inl q' => qinv i js q'
    | inr rs => Forall2 (seq_result i) js rs
    end.
  Proof.
    destruct q as [[cur pend] acc]. intros (dj & HF & Hc). unfold Interleave.qstep. destruct cur as [s|].
    - destruct Hc as (j & n & p1 & Hjs & Hal).
      destruct (step i p s) as [p' r] eqn:E. destruct r as [s'|x]; cbn [snd].
      + exists dj. split; auto. exists j, (n + 1), p1. split; auto.
        rewrite (alone_add _ _ _ _ step pool_irrelevant), Hal. cbn [alone].
        pose proof (pool_irrelevant i p1 p s) as Ep. rewrite E in Ep. cbn [snd] in Ep.
        destruct (step i p1 s) as [p1' r1]. cbn [snd] in Ep. subst r1. reflexivity.
      + exists (dj ++ [j]). split.
        * apply Forall2_app; auto. constructor; [|constructor].
          exists (n + 1), p1. rewrite (alone_add _ _ _ _ step pool_irrelevant), Hal. cbn [alone].
          pose proof (pool_irrelevant i p1 p s) as Ep. rewrite E in Ep. cbn [snd] in Ep.
          destruct (step i p1 s) as [p1' r1]. cbn [snd] in Ep. subst r1. reflexivity.
        * rewrite Hjs, <- app_assoc. reflexivity.
    - destruct pend as [|j rest]; cbn [snd].
      + subst js. rewrite app_nil_r. exact HF.
      + exists dj. split; auto. exists j, 0, p. split; auto.
  Qed.

  Lemma qalone_inv (i : inner) js n : forall p q rs,
    qinv i js q -> alone qstep i n p (Running q) = Done rs -> Forall2 (seq_result i) js rs.
  Proof.
    induction n as [|n IH]; intros p q rs Hq H; cbn [alone] in H; [discriminate|].
    pose proof (qinv_step i js q p Hq) as S. destruct (qstep i p q) as [p' r]. cbn [snd] in S.
    destruct r as [q'|rs']; cbn [after_step] in H.
    - eapply IH; eauto.
    - rewrite alone_done in H. injection H as <-. exact S.
  Qed.

  (* C13_worker_queues: workers with queues of jobs, any schedule: a finished worker returns, job by job, the
     sequential results (a scan never sees what the previous scan of the same thread left behind) *)
  Lemma worker_queues (i : inner) (queues : list (list job)) (p0 : pool) (sched : list nat) t js rs :
    nth_error queues t = Some js ->
    nth_error (sy_threads (exec qstep i (start (@qinit inner job pstate result) i p0 queues) sched)) t
      = Some (Done rs) ->
    Forall2 (seq_result i) js rs.
  Proof.
    intros Hq H.
    pose proof (qstep_pool_irrelevant _ _ _ _ _ init step pool_irrelevant) as QI.
    rewrite (interleaving _ _ _ _ _ _ qstep QI i queues p0 p0 sched t js Hq) in H. injection H as H.
    eapply qalone_inv; [|exact H]. unfold qinit. exists []. split; [constructor|reflexivity].
  Qed.
End Queue.
