(* Proofs/HexHirProofs.v — facts about the lowering of hex strings (Model/Hir.v): the HIR of a hex
   string has no line anchor, no word boundary and no greedy repetition.  Hence (Matcher::new_regex,
   Validator::new) a hex string is never scanned raw because of anchors, never gets the Greedy
   validator and never needs the custom wide runner. *)
From Boreal Require Import Base.Prelude Spec.Regex Model.Hir Model.Widen Model.Validator.

Section TokenInd.
  Variable P : token -> Prop.
  Hypothesis Hb : forall b, P (TByte b).
  Hypothesis Hnb : forall b, P (TNotByte b).
  Hypothesis Hm : forall b m, P (TMasked b m).
  Hypothesis Hnm : forall b m, P (TNotMasked b m).
  Hypothesis Hj : forall f t, P (TJump f t).
  Hypothesis Ha : forall alts, Forall (Forall P) alts -> P (TAlts alts).

  Fixpoint token_ind2 (t : token) : P t :=
    match t with
    | TByte b => Hb b
    | TNotByte b => Hnb b
    | TMasked b m => Hm b m
    | TNotMasked b m => Hnm b m
    | TJump f to => Hj f to
    | TAlts alts =>
        Ha alts ((fix go (l : list (list token)) : Forall (Forall P) l :=
                    match l with
                    | [] => Forall_nil _
                    | ts :: r =>
                        Forall_cons _ ((fix go2 (ts : list token) : Forall P ts :=
                                          match ts with
                                          | [] => Forall_nil _
                                          | t' :: r2 => Forall_cons _ (token_ind2 t') (go2 r2)
                                          end) ts) (go r)
                    end) alts)
    end.
End TokenInd.

Definition tame (h : hir) : Prop :=
  has_line_anchor h = false /\ has_word_boundary h = false /\ has_greedy h = false.

Lemma hla_list l : has_line_anchor (HConcat l) = existsb has_line_anchor l /\ has_line_anchor (HAlt l) = existsb has_line_anchor l.
Proof. induction l as [|x r [IH1 IH2]]; split; try reflexivity; cbn [has_line_anchor existsb] in *; f_equal; assumption. Qed.
Lemma hwb_list l : has_word_boundary (HConcat l) = existsb has_word_boundary l /\ has_word_boundary (HAlt l) = existsb has_word_boundary l.
Proof. induction l as [|x r [IH1 IH2]]; split; try reflexivity; cbn [has_word_boundary existsb] in *; f_equal; assumption. Qed.
Lemma hg_list l : has_greedy (HConcat l) = existsb has_greedy l /\ has_greedy (HAlt l) = existsb has_greedy l.
Proof. induction l as [|x r [IH1 IH2]]; split; try reflexivity; cbn [has_greedy existsb] in *; f_equal; assumption. Qed.

Lemma existsb_false {A} (f : A -> bool) l : Forall (fun x => f x = false) l -> existsb f l = false.
Proof. induction 1 as [|x r Hx Hr IH]; cbn [existsb]; [reflexivity|]. rewrite Hx, IH. reflexivity. Qed.

Lemma tame_concat l : Forall tame l -> tame (HConcat l).
Proof.
  intros H. unfold tame. rewrite (proj1 (hla_list l)), (proj1 (hwb_list l)), (proj1 (hg_list l)).
  repeat split; apply existsb_false; eapply Forall_impl; try exact H; intros x (H1 & H2 & H3); assumption.
Qed.

Lemma tame_alt l : Forall tame l -> tame (HAlt l).
Proof.
  intros H. unfold tame. rewrite (proj2 (hla_list l)), (proj2 (hwb_list l)), (proj2 (hg_list l)).
  repeat split; apply existsb_false; eapply Forall_impl; try exact H; intros x (H1 & H2 & H3); assumption.
Qed.

Lemma token_tame t : tame (token_to_hir t).
Proof.
  induction t using token_ind2; try (repeat split; fail).
  - destruct m; repeat split.
  - destruct m; repeat split.
  - destruct t; repeat split.
  - cbn [token_to_hir].
    assert (G : tame (HAlt ((fix go (l : list (list token)) : list hir :=
                               match l with
                               | [] => []
                               | ts :: r =>
                                   HConcat ((fix go2 (ts0 : list token) : list hir :=
                                               match ts0 with [] => [] | t :: r2 => token_to_hir t :: go2 r2 end) ts)
                                   :: go r
                               end) alts))).
    { apply tame_alt. induction H as [|ts r Hts Hr IH]; constructor; [|exact IH].
      apply tame_concat. induction Hts as [|t r2 Ht Hr2 IH2]; constructor; assumption. }
    destruct G as (G1 & G2 & G3). repeat split; assumption.
Qed.

Theorem hex_hir_tame ts : tame (hir_of_tokens ts).
Proof.
  unfold hir_of_tokens. apply tame_concat. induction ts as [|t r IH]; constructor; [apply token_tame|exact IH].
Qed.
