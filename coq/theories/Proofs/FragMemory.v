(* Proofs/FragMemory.v — C11, completeness of the refetching reads (boreal/src/memory.rs):
   * integer reads: on a layout delivered in ascending address order, `get_contiguous` / `read_uint`
     succeed exactly when the declarative `spec_read` does (one fetched region covers the whole span),
     with the same bytes;
   * ranges: when [s, e) is covered by a run of adjacent, fully fetched regions (regions below s before
     it, anything after it), `on_range` hands the callback exactly the bytes of [s, e). *)
From Boreal Require Import Base.Prelude Base.ListX Base.Bytes Model.Literals Model.AcScan Model.Memory
  Spec.FragSpec Model.FragCase.

(* ------------------------------------------------------------------ integer reads *)
Definition contains (a : N) (r : fregion) : bool := (f_start r <=? a) && (a <? f_start r + f_described r).

Lemma ascending_none_below regions : forall q a,
  ascending_regions q regions = true -> a < q -> filter (contains a) regions = [].
Proof.
  induction regions as [|r regions IH]; intros q a H Ha; cbn [filter]; [reflexivity|].
  cbn [ascending_regions] in H. apply andb_true_iff in H as [Hq H].
  unfold contains at 1. replace (f_start r <=? a) with false by lia. cbn [andb].
  apply (IH (f_start r + f_described r)); [exact H | lia].
Qed.

Theorem get_contiguous_complete regions : forall q a n,
  ascending_regions q regions = true ->
  get_contiguous_loop regions a (a + n) = spec_read true regions a n.
Proof.
  induction regions as [|r regions IH]; intros q a n H; [reflexivity|].
  cbn [ascending_regions] in H. apply andb_true_iff in H as [Hq H].
  unfold spec_read.
  change (fun r0 : fregion => (f_start r0 <=? a) && (a <? f_start r0 + f_described r0)) with (contains a).
  cbn [get_contiguous_loop filter].
  destruct (a <? f_start r) eqn:E1.
  - unfold contains at 1. replace (f_start r <=? a) with false by lia. cbn [andb].
    rewrite (ascending_none_below regions (f_start r + f_described r) a H) by lia. reflexivity.
  - destruct (f_described r <=? a - f_start r) eqn:E2.
    + unfold contains at 1. replace (a <? f_start r + f_described r) with false by lia.
      rewrite andb_false_r. rewrite (IH _ a n H). unfold spec_read.
      change (fun r0 : fregion => (f_start r0 <=? a) && (a <? f_start r0 + f_described r0)) with (contains a).
      reflexivity.
    + unfold contains at 1. replace (f_start r <=? a) with true by lia.
      replace (a <? f_start r + f_described r) with true by lia. cbn [andb].
      destruct (f_fail r); [reflexivity|]. cbn [negb andb].
      replace (a - f_start r <=? a + n - f_start r) with true by lia. cbn [andb].
      replace (a + n - f_start r <=? nlen (f_mem r)) with (a + n <=? f_start r + nlen (f_mem r)) by lia.
      destruct (a + n <=? f_start r + nlen (f_mem r)); [|reflexivity].
      do 2 f_equal. lia.
Qed.

Theorem read_uint_complete regions a n :
  ascending_regions 0 regions = true -> a + n <= umax ->
  read_uint true regions a n = option_map le_value (spec_read true regions a n).
Proof.
  intros H Hu. unfold read_uint, get_contiguous.
  replace (umax <? a + n) with false by lia. replace (a + n <? a) with false by lia.
  rewrite (get_contiguous_complete regions 0 a n H).
  destruct (spec_read true regions a n) as [bs|] eqn:E; [|reflexivity].
  cbn [option_map]. unfold spec_read in E.
  destruct (filter (fun r => (f_start r <=? a) && (a <? f_start r + f_described r)) regions) as [|r l] eqn:Ef;
    [discriminate|].
  assert (Hin : In r (filter (fun r => (f_start r <=? a) && (a <? f_start r + f_described r)) regions))
    by (rewrite Ef; now left).
  apply filter_In in Hin as [_ Hc]. apply andb_true_iff in Hc as [Hc1 Hc2].
  destruct (negb (f_fail r) && (a + n <=? f_start r + nlen (f_mem r))) eqn:E2; [|discriminate].
  inversion E; subst bs. apply andb_true_iff in E2 as [_ E2].
  rewrite nlen_slice.
  replace (N.min (a - f_start r + n - (a - f_start r)) (nlen (f_mem r) - (a - f_start r)) =? n) with true by lia.
  reflexivity.
Qed.

(* ------------------------------------------------------------------ ranges over a covering run *)
(* a run of adjacent regions starting at q: each fetched, fetched length = described length > 0 *)
Fixpoint adjacent (q : N) (run : list fregion) : Prop :=
  match run with
  | [] => True
  | r :: rest => f_start r = q /\ f_fail r = false /\ f_described r = nlen (f_mem r)
                 /\ 0 < nlen (f_mem r) /\ adjacent (q + nlen (f_mem r)) rest
  end.
Definition flat (run : list fregion) : bytes := concat (map f_mem run).
(* regions lying entirely below address s *)
Definition below (s : N) (pre : list fregion) : Prop := forall r, In r pre -> f_start r + f_described r <= s.

Lemma slice_in_left {A} a b (x t : list A) : b <= nlen x -> slice a b (x ++ t) = slice a b x.
Proof.
  intros H. unfold slice, ntake, ndrop, nlen in *. rewrite skipn_app, firstn_app.
  replace (N.to_nat (b - a) - length (skipn (N.to_nat a) x))%nat with O by (rewrite skipn_length; lia).
  cbn [firstn]. now rewrite app_nil_r.
Qed.

Lemma slice_across {A} a b (x t : list A) :
  a <= nlen x -> nlen x <= b -> slice a b (x ++ t) = slice a (nlen x) x ++ slice 0 (b - nlen x) t.
Proof.
  intros Ha Hb. unfold slice, ntake, ndrop, nlen in *. rewrite skipn_app, firstn_app.
  rewrite skipn_length. cbn [skipn N.to_nat].
  replace (N.to_nat a - length x)%nat with O by lia. cbn [skipn].
  f_equal.
  - rewrite firstn_all2 by (rewrite skipn_length; lia). rewrite firstn_all2 by (rewrite skipn_length; lia). reflexivity.
  - f_equal. lia.
Qed.

Lemma skip_below pre : forall l s e acc,
  below s pre -> on_range_loop (pre ++ l) s e false acc = on_range_loop l s e false acc.
Proof.
  induction pre as [|r pre IH]; intros l s e acc Hb; [reflexivity|].
  assert (Hr : f_start r + f_described r <= s) by (apply Hb; now left).
  cbn [app on_range_loop andb]. replace (s <? f_start r) with false by lia.
  replace (f_described r <=? s - f_start r) with true by lia.
  apply IH. intros r' Hr'. apply Hb. now right.
Qed.

Lemma nlen_flat_cons r rest : nlen (flat (r :: rest)) = nlen (f_mem r) + nlen (flat rest).
Proof. unfold flat. cbn [map concat]. apply nlen_app. Qed.

Lemma run_loop e post : forall run q start called acc,
  adjacent q run ->
  match run with [] => False | r :: _ => q <= start < q + nlen (f_mem r) end ->
  (called = true -> start = q) ->
  start <= e -> e <= q + nlen (flat run) -> q + nlen (flat run) <= umax ->
  on_range_loop (run ++ post) start e called acc = Some (acc ++ slice (start - q) (e - q) (flat run)).
Proof.
  induction run as [|r rest IH]; intros q start called acc Hadj Hin Hc Hse He Hu; [destruct Hin|].
  cbn [adjacent] in Hadj. destruct Hadj as (Hq & Hf & Hd & Hpos & Hadj).
  rewrite nlen_flat_cons in He, Hu.
  cbn [app on_range_loop]. rewrite Hq, Hf, Hd.
  replace (called && negb (start =? q)) with false
    by (destruct called; [rewrite (Hc eq_refl), N.eqb_refl; reflexivity | reflexivity]).
  replace (start <? q) with false by lia.
  replace (nlen (f_mem r) <=? start - q) with false by lia.
  set (rel_end := N.min (nlen (f_mem r)) (e - q)).
  replace (N.min rel_end (nlen (f_mem r))) with rel_end by (unfold rel_end; lia).
  replace (rel_end <? rel_end) with false by lia.
  replace (umax <? q + nlen (f_mem r)) with false by lia.
  unfold flat. cbn [map concat]. fold (flat rest).
  destruct (e <=? q + nlen (f_mem r)) eqn:Ee.
  - f_equal. f_equal. unfold rel_end. replace (N.min (nlen (f_mem r)) (e - q)) with (e - q) by lia.
    symmetry. apply slice_in_left. lia.
  - assert (Hrest : rest <> []).
    { intros ->. unfold flat in He. cbn in He. lia. }
    destruct rest as [|r2 rest2]; [congruence|].
    rewrite (IH (q + nlen (f_mem r)) (q + nlen (f_mem r)) true); auto; try lia.
    + rewrite <- app_assoc. f_equal. f_equal.
      unfold rel_end. replace (N.min (nlen (f_mem r)) (e - q)) with (nlen (f_mem r)) by lia.
      rewrite slice_across by lia. f_equal. f_equal; lia.
    + cbn [adjacent] in Hadj. destruct Hadj as (_ & _ & _ & Hp2 & _). lia.
Qed.

(* [s, e) covered by the run: exactly its bytes *)
Theorem on_range_covered pre r1 rest post q s e :
  below s pre -> adjacent q (r1 :: rest) ->
  q <= s < q + nlen (f_mem r1) -> s <= e -> e <= q + nlen (flat (r1 :: rest)) ->
  q + nlen (flat (r1 :: rest)) <= umax ->
  on_range true (pre ++ (r1 :: rest) ++ post) s e = Some (slice (s - q) (e - q) (flat (r1 :: rest))).
Proof.
  intros Hb Hadj Hs Hse He Hu. unfold on_range. replace (e <? s) with false by lia.
  rewrite skip_below by exact Hb.
  rewrite (run_loop e post (r1 :: rest) q s false []); auto. discriminate.
Qed.

(* a region whose fetch fails inside the range, or a gap before further regions, makes it undefined:
   concrete layouts are in the Examples of Properties/C11.v *)

(* the range runs past the end of the covering run: the walk arrives at what follows it with the run's
   bytes from s on already handed over *)
Lemma run_loop_past e post : forall run q start called acc,
  adjacent q run ->
  match run with [] => False | r :: _ => q <= start < q + nlen (f_mem r) end ->
  (called = true -> start = q) ->
  q + nlen (flat run) < e -> q + nlen (flat run) <= umax ->
  on_range_loop (run ++ post) start e called acc
  = on_range_loop post (q + nlen (flat run)) e true (acc ++ slice (start - q) (nlen (flat run)) (flat run)).
Proof.
  induction run as [|r rest IH]; intros q start called acc Hadj Hin Hc He Hu; [destruct Hin|].
  cbn [adjacent] in Hadj. destruct Hadj as (Hq & Hf & Hd & Hpos & Hadj).
  rewrite nlen_flat_cons in *.
  cbn [app on_range_loop]. rewrite Hq, Hf, Hd.
  replace (called && negb (start =? q)) with false
    by (destruct called; [rewrite (Hc eq_refl), N.eqb_refl; reflexivity | reflexivity]).
  replace (start <? q) with false by lia.
  replace (nlen (f_mem r) <=? start - q) with false by lia.
  replace (N.min (nlen (f_mem r)) (e - q)) with (nlen (f_mem r)) by lia.
  replace (N.min (nlen (f_mem r)) (nlen (f_mem r))) with (nlen (f_mem r)) by lia.
  replace (nlen (f_mem r) <? nlen (f_mem r)) with false by lia.
  replace (umax <? q + nlen (f_mem r)) with false by lia.
  replace (e <=? q + nlen (f_mem r)) with false by lia.
  unfold flat. cbn [map concat]. fold (flat rest).
  destruct rest as [|r2 rest2].
  - cbn [app]. unfold flat. cbn [map concat]. rewrite app_nil_r. rewrite nlen_nil.
    replace (q + (nlen (f_mem r) + 0)) with (q + nlen (f_mem r)) by lia.
    replace (nlen (f_mem r) + 0) with (nlen (f_mem r)) by lia. reflexivity.
  - rewrite (IH (q + nlen (f_mem r)) (q + nlen (f_mem r)) true); auto; try lia.
    + replace (q + nlen (f_mem r) + nlen (flat (r2 :: rest2))) with (q + (nlen (f_mem r) + nlen (flat (r2 :: rest2)))) by lia.
      f_equal. rewrite <- app_assoc. f_equal.
      rewrite slice_across by lia. f_equal. f_equal; lia.
    + cbn [adjacent] in Hadj. destruct Hadj as (_ & _ & _ & Hp2 & _). lia.
Qed.

(* … past the LAST region: the bytes up to its end (truncated range) *)
Theorem on_range_past_last pre r1 rest q s e :
  below s pre -> adjacent q (r1 :: rest) ->
  q <= s < q + nlen (f_mem r1) -> q + nlen (flat (r1 :: rest)) < e ->
  q + nlen (flat (r1 :: rest)) <= umax ->
  on_range true (pre ++ (r1 :: rest)) s e
  = Some (slice (s - q) (nlen (flat (r1 :: rest))) (flat (r1 :: rest))).
Proof.
  intros Hb Hadj Hs He Hu. pose proof (nlen_flat_cons r1 rest) as Hn.
  unfold on_range. replace (e <? s) with false by lia.
  rewrite skip_below by exact Hb. rewrite <- (app_nil_r (r1 :: rest)) at 1.
  assert (Hc : false = true -> s = q) by discriminate.
  rewrite (run_loop_past e [] (r1 :: rest) q s false [] Hadj Hs Hc He Hu). reflexivity.
Qed.

(* … followed by a gap (the next region does not start where the run ends) or by a region whose fetch
   fails: undefined *)
Theorem on_range_gap_or_failed pre r1 rest p post q s e :
  below s pre -> adjacent q (r1 :: rest) ->
  q <= s < q + nlen (f_mem r1) -> q + nlen (flat (r1 :: rest)) < e ->
  q + nlen (flat (r1 :: rest)) <= umax ->
  f_start p <> q + nlen (flat (r1 :: rest))
  \/ (f_start p = q + nlen (flat (r1 :: rest)) /\ 0 < f_described p /\ f_fail p = true) ->
  on_range true (pre ++ (r1 :: rest) ++ p :: post) s e = None.
Proof.
  intros Hb Hadj Hs He Hu Hp. pose proof (nlen_flat_cons r1 rest) as Hn.
  unfold on_range. replace (e <? s) with false by lia.
  rewrite skip_below by exact Hb.
  assert (Hc : false = true -> s = q) by discriminate.
  rewrite (run_loop_past e (p :: post) (r1 :: rest) q s false [] Hadj Hs Hc He Hu).
  cbn [on_range_loop andb]. destruct Hp as [Hp|(Hp & Hd & Hf)].
  - replace (q + nlen (flat (r1 :: rest)) =? f_start p) with false by lia. reflexivity.
  - rewrite <- Hp, N.eqb_refl. cbn [negb]. replace (f_start p <? f_start p) with false by lia.
    replace (f_described p <=? f_start p - f_start p) with false by lia. now rewrite Hf.
Qed.
