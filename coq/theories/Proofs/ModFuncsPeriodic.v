(* Proofs/ModFuncsPeriodic.v — C16, huge periodic inputs: the closed forms of Spec/PeriodicSpec.v are the list-based
   MathSpec / Digest specifications of `rep p q` (q copies of the pattern), for every pattern and every q:
   sum, length, count, histogram, hence mean, count, percentage, entropy's histogram, deviation and checksum32.
   mode likewise (scaling a histogram changes no comparison).  For serial correlation and monte-carlo the closed forms
   are checked against the list specifications on all q <= 13 for a family of patterns (bounded check, stated as such). *)
From Coq Require Import QArith Qabs Qreduction.
From Boreal Require Import Base.Prelude Spec.MathSpec Spec.Digest Spec.PeriodicSpec Model.ModFuncs Model.MathMod
  Model.ModFuncsCase Proofs.ModFuncsProofs Proofs.ModFuncsMath Proofs.ModFuncsMath2.
Open Scope N_scope.

Lemma sum_list_app : forall a b, sum_list (a ++ b) = sum_list a + sum_list b.
Proof. unfold sum_list. induction a as [|x a IH]; intros b; cbn [app fold_right]; [lia|]. rewrite IH. lia. Qed.

Lemma count_of_app : forall c a b, count_of c (a ++ b) = count_of c a + count_of c b.
Proof. intros. unfold count_of. rewrite filter_app, nlen_app. reflexivity. Qed.

Lemma rep_sum : forall p q, sum_list (rep p q) = N.of_nat q * sum_list p.
Proof. induction q as [|q IH]; cbn [rep]; [reflexivity|]. rewrite sum_list_app, IH. lia. Qed.

Lemma rep_len : forall p q, nlen (rep p q) = N.of_nat q * nlen p.
Proof. induction q as [|q IH]; cbn [rep]; [reflexivity|]. rewrite nlen_app, IH. lia. Qed.

Lemma rep_count : forall c p q, count_of c (rep p q) = N.of_nat q * count_of c p.
Proof. induction q as [|q IH]; cbn [rep]; [reflexivity|]. rewrite count_of_app, IH. lia. Qed.

Lemma rep_histogram : forall p q, histogram (rep p q) = p_hist p (N.of_nat q).
Proof.
  intros. unfold p_hist, histogram. rewrite map_map. apply map_ext. intros c. apply rep_count.
Qed.

Lemma rep_forall : forall (P : N -> Prop) p q, Forall P p -> Forall P (rep p q).
Proof. induction q as [|q IH]; intros H; cbn [rep]; [constructor|]. apply Forall_app. split; auto. Qed.

Lemma match_nil_len : forall (s : list N) L (X : fval), nlen s = L ->
  match s with [] => None | _ :: _ => Some X end = if L =? 0 then None else Some X.
Proof.
  intros s L X <-. destruct s as [|x r]; [reflexivity|].
  destruct (nlen (x :: r) =? 0) eqn:E; [unfold nlen in E; cbn in E; lia|reflexivity].
Qed.

(* C16_periodic_closed_forms *)
Lemma periodic_closed_forms : forall p q,
  mean_spec (rep p q) = p_mean p (N.of_nat q)
  /\ (forall b, count_spec b (rep p q) = p_count_opt p (N.of_nat q) b)
  /\ (forall b, percentage_spec b (rep p q) = p_percentage p (N.of_nat q) b)
  /\ entropy_spec (rep p q) = p_entropy p (N.of_nat q)
  /\ checksum32_ref (rep p q) = p_checksum32 p (N.of_nat q)
  /\ (forall mu, Forall (fun x => x < 256) p -> deviation_spec (rep p q) mu = p_deviation p (N.of_nat q) mu).
Proof.
  intros p q. set (qn := N.of_nat q).
  assert (Hlen : nlen (rep p q) = p_len p qn) by apply rep_len.
  repeat split.
  - unfold mean_spec. rewrite (match_nil_len _ _ _ Hlen). unfold p_mean, p_sum. now rewrite rep_sum, Hlen.
  - intros b. unfold count_spec, p_count_opt, p_count. now rewrite rep_count.
  - intros b. unfold percentage_spec, p_percentage, p_count. destruct (256 <=? b); [reflexivity|].
    rewrite (match_nil_len _ _ _ Hlen). now rewrite rep_count, Hlen.
  - unfold entropy_spec, p_entropy. now rewrite rep_histogram, Hlen.
  - unfold checksum32_ref, p_checksum32, p_sum, sum_bytes.
    change (fold_right N.add 0 (rep p q)) with (sum_list (rep p q)). now rewrite rep_sum.
  - intros mu Hp. unfold deviation_spec. rewrite (match_nil_len _ _ _ Hlen). unfold p_deviation. rewrite Hlen.
    destruct (p_len p qn =? 0); [reflexivity|].
    f_equal. unfold fq. f_equal. apply Qred_complete. unfold qdiv_n. apply Qmult_comp; [|reflexivity].
    symmetry.
    rewrite (sumq_map_ext _ _ (fun c => Qabs (NQ c - mu) * NQ (count_of c (rep p q)))%Q)
      by (intros c _; unfold p_count; rewrite rep_count; reflexivity).
    apply (bucket_sum (fun c => Qabs (NQ c - mu)) (rep p q) 256 0).
    intros y Hy. assert (Hf : Forall (fun x0 => x0 < 256) (rep p q)) by now apply rep_forall.
    rewrite Forall_forall in Hf. specialize (Hf y Hy). lia.
Qed.

(* bounded check of the remaining closed forms against the list specifications *)
Definition fval_eqb (a b : fval) : bool :=
  match a, b with
  | FQ x, FQ y => Qeq_bool x y
  | FMonte h t, FMonte h' t' => (h =? h') && (t =? t')
  | _, _ => false
  end.
Definition ofval_eqb (a b : option fval) : bool :=
  match a, b with Some x, Some y => fval_eqb x y | None, None => true | _, _ => false end.

Definition check_patterns : list (list N) :=
  [[255]; [255; 0; 255; 255; 254; 255]; [255; 255; 255; 0; 0; 0; 181; 4; 243; 181; 4; 243];
   [255; 128; 255; 1; 255; 255; 192]; [0; 255]; [1; 2; 3; 4; 5]; [7; 7; 9]; [0; 1; 2; 3; 4; 5; 6; 7; 8; 9; 10]].

Lemma periodic_bounded_check :
  forallb (fun p => forallb (fun q =>
      fval_eqb (scc_spec (rep p q)) (p_scc p (N.of_nat q))
      && ofval_eqb (monte_spec (rep p q)) (p_monte p (N.of_nat q))) (seq 0 14)) check_patterns = true.
Proof. vm_compute. reflexivity. Qed.

(* mode: scaling a histogram by q > 0 changes no comparison *)
Lemma forallb_map' : forall (f : N -> bool) (g : N -> N) l, forallb f (map g l) = forallb (fun x => f (g x)) l.
Proof. induction l as [|x l IH]; cbn; [reflexivity|]. now rewrite IH. Qed.

Lemma nth_map_mul : forall q l i, nth i (map (N.mul q) l) 0 = q * nth i l 0.
Proof. induction l as [|x l IH]; destruct i; cbn [map nth]; try lia. apply IH. Qed.

Lemma find_ext' : forall (f g : N -> bool) l, (forall x, f x = g x) -> find f l = find g l.
Proof. intros f g l H. induction l as [|x l IH]; cbn; [reflexivity|]. now rewrite H, IH. Qed.

Lemma forallb_ext' : forall (f g : N -> bool) l, (forall x, f x = g x) -> forallb f l = forallb g l.
Proof. intros f g l H. induction l as [|x l IH]; cbn; [reflexivity|]. now rewrite H, IH. Qed.

Lemma rep_mode : forall p q, mode_spec (rep p q) = p_mode p (N.of_nat q).
Proof.
  intros p q. unfold p_mode. destruct q as [|q].
  - reflexivity.
  - assert (N.of_nat (S q) =? 0 = false) as -> by lia.
    unfold mode_spec. rewrite rep_histogram. unfold p_hist.
    set (h := histogram p). set (k := N.of_nat (S q)).
    rewrite (find_ext' _ (fun b => forallb (fun c => c <=? nth (N.to_nat b) h 0) h)); [reflexivity|].
    intros b. rewrite forallb_map'. apply forallb_ext'. intros c. rewrite nth_map_mul.
    assert (0 < k) by (unfold k; lia).
    destruct (c <=? nth (N.to_nat b) h 0) eqn:E1; destruct (k * c <=? k * nth (N.to_nat b) h 0) eqn:E2; try reflexivity; nia.
Qed.

(* ------------------------------------------------------------------ the ranges of the family *)
Lemma rep_length : forall p q, length (rep p q) = (q * length p)%nat.
Proof. induction q as [|q IH]; cbn [rep]; [reflexivity|]. rewrite app_length, IH. lia. Qed.

Lemma skipn_rep : forall p j k, (j <= k)%nat -> skipn (j * length p) (rep p k) = rep p (k - j).
Proof.
  induction j as [|j IH]; intros k H.
  - cbn [Nat.mul skipn]. f_equal. lia.
  - destruct k as [|k]; [lia|]. cbn [rep]. replace (S j * length p)%nat with (length p + j * length p)%nat by lia.
    rewrite skipn_app. rewrite skipn_all2 by lia. cbn [app].
    replace (length p + j * length p - length p)%nat with (j * length p)%nat by lia.
    rewrite IH by lia. f_equal.
Qed.

Lemma firstn_rep : forall p m k, (m <= k)%nat -> firstn (m * length p) (rep p k) = rep p m.
Proof.
  induction m as [|m IH]; intros k H.
  - reflexivity.
  - destruct k as [|k]; [lia|]. cbn [rep]. replace (S m * length p)%nat with (length p + m * length p)%nat by lia.
    rewrite firstn_app. rewrite firstn_all2 by lia.
    replace (length p + m * length p - length p)%nat with (m * length p)%nat by lia.
    rewrite IH by lia. reflexivity.
Qed.

(* C16_periodic_ranges: what `periods` says about an (offset, size) range is what the range specification says *)
Lemma periods_clip : forall p k o n, p <> [] ->
  match periods (nlen p) (N.of_nat k) o n with
  | Some None => Spec.RangeSpec.clip_direct (rep p k) o n = None
  | Some (Some q) => Spec.RangeSpec.clip_direct (rep p k) o n = Some (rep p (N.to_nat q))
  | None => True
  end.
Proof.
  intros p k o n Hp. unfold periods, Spec.RangeSpec.clip_direct.
  assert (Hpl : 0 < nlen p) by (destruct p; [congruence|unfold nlen; cbn; lia]).
  destruct (nlen p =? 0) eqn:E0; [lia|].
  rewrite rep_len.
  destruct (o <? 0)%Z eqn:E1; [reflexivity|]. destruct (n <? 0)%Z eqn:E2; [reflexivity|]. cbn [orb].
  set (pl := nlen p) in *. set (L := pl * N.of_nat k).
  replace (N.of_nat k * pl) with L by (unfold L; lia).
  destruct (L <=? Z.to_N o) eqn:E3.
  { destruct (Z.of_N L <=? o)%Z eqn:E4; [reflexivity|lia]. }
  destruct (Z.of_N L <=? o)%Z eqn:E4; [lia|].
  destruct (Z.to_N o mod pl =? 0) eqn:E5; cbn [negb]; [|exact I].
  destruct (N.min L (Z.to_N o + Z.to_N n) mod pl =? 0) eqn:E6; cbn [negb]; [|exact I].
  set (e := N.min L (Z.to_N o + Z.to_N n)) in *.
  (* o = pl * j, e = pl * m; products are kept as atoms for lia *)
  assert (Hj : Z.to_N o = pl * (Z.to_N o / pl)) by (apply N.div_exact; lia).
  assert (Hm : e = pl * (e / pl)) by (apply N.div_exact; lia).
  assert (HL : L = pl * N.of_nat k) by reflexivity.
  assert (He : e = N.min L (Z.to_N o + Z.to_N n)) by reflexivity.
  assert (Hplen : pl = N.of_nat (length p)) by reflexivity.
  clearbody L e pl.
  set (j := Z.to_N o / pl) in *. set (m := e / pl) in *. clearbody j m.
  assert (Hq : (e - Z.to_N o) / pl = m - j).
  { rewrite Hj, Hm. rewrite <- N.mul_sub_distr_l. rewrite N.mul_comm. apply N.div_mul. lia. }
  rewrite Hq. f_equal.
  assert (Hjk : j < N.of_nat k) by (apply (N.mul_lt_mono_pos_l pl); lia).
  assert (Hmk : m <= N.of_nat k) by (apply (N.mul_le_mono_pos_l _ _ pl); lia).
  assert (Hjm : j <= m) by (apply (N.mul_le_mono_pos_l _ _ pl); lia).
  assert (Ho : Z.to_nat o = (N.to_nat j * length p)%nat).
  { replace (Z.to_nat o) with (N.to_nat (Z.to_N o)) by lia. rewrite Hj, N2Nat.inj_mul, Hplen, Nat2N.id. lia. }
  rewrite Ho. rewrite skipn_rep by lia.
  assert (H1 : N.of_nat (length (rep p (k - N.to_nat j))) = L - Z.to_N o).
  { rewrite rep_length, Nat2N.inj_mul, Nat2N.inj_sub, N2Nat.id, <- Hplen.
    rewrite N.mul_comm, N.mul_sub_distr_l. lia. }
  assert (H2 : N.of_nat (N.to_nat (m - j) * length p) = e - Z.to_N o).
  { rewrite Nat2N.inj_mul, N2Nat.id, <- Hplen. rewrite N.mul_comm, N.mul_sub_distr_l. lia. }
  rewrite (firstn_same_min _ _ (N.to_nat (m - j) * length p)).
  - rewrite firstn_rep by lia. reflexivity.
  - lia.
Qed.
