(* Proofs/CallGraphProofs.v — soundness of `guards_cut_all_cycles`, once for all graphs. *)
From Boreal Require Import Base.Prelude Model.CallGraphCheck.

Section Sound.
  Variable g : cgraph.
  Variable t : rank_tbl.
  Hypothesis Hchk : check_rank g t = true.

  Lemma edge_rank : forall u v, is_edge g u v = true -> guarded g u = false -> guarded g v = false ->
                                (rk t v < rk t u)%nat.
  Proof.
    intros u v He Hu Hv. unfold is_edge, succs in He.
    destruct (find (fun p => fst p =? u) (cg_adj g)) as [p|] eqn:Hf; [|discriminate].
    apply find_some in Hf as [Hin Hp]. apply N.eqb_eq in Hp.
    unfold check_rank in Hchk. rewrite forallb_forall in Hchk. specialize (Hchk p Hin).
    rewrite Hp, Hu in Hchk. cbn [orb] in Hchk. rewrite forallb_forall in Hchk.
    apply existsb_exists in He as [w [Hw Hvw]]. apply N.eqb_eq in Hvw; subst w.
    specialize (Hchk v Hw). rewrite Hv in Hchk. cbn [orb] in Hchk. apply Nat.ltb_lt in Hchk. exact Hchk.
  Qed.

  Lemma rk_le_max : forall u, (rk t u <= max_rank t)%nat.
  Proof.
    intros u. unfold rk. destruct (find (fun p => fst p =? u) t) as [p|] eqn:Hf; [|lia].
    apply find_some in Hf as [Hin _]. clear -Hin. induction t as [|q t' IH]; [contradiction|].
    cbn [max_rank fold_right]. destruct Hin as [->|Hin]; [lia|]. specialize (IH Hin). unfold max_rank in IH. lia.
  Qed.

  Let L := S (max_rank t).

  Lemma gc_cons : forall u l, guard_count g (u :: l) = ((if guarded g u then 1 else 0) + guard_count g l)%nat.
  Proof. intros u l. unfold guard_count. cbn [filter]. destruct (guarded g u); reflexivity. Qed.

  (* between two guarded functions the rank strictly decreases *)
  Lemma path_bound_aux : forall l, is_path g l = true ->
      match l with
      | [] => True
      | u :: _ => if guarded g u then (length l <= guard_count g l + guard_count g l * L)%nat
                  else (length l <= guard_count g l + guard_count g l * L + S (rk t u))%nat
      end.
  Proof.
    induction l as [|u r IH]; intros Hp; [exact I|].
    destruct r as [|v r'].
    - rewrite gc_cons. unfold guard_count at 1 2 3. cbn [filter length]. destruct (guarded g u); cbn; lia.
    - cbn [is_path] in Hp. apply andb_true_iff in Hp as [He Hp]. specialize (IH Hp). cbn beta iota in IH.
      rewrite gc_cons. set (n := guard_count g (v :: r')) in *. set (len := length (v :: r')) in *.
      change (length (u :: v :: r')) with (S len).
      pose proof (rk_le_max v) as Hv. pose proof (rk_le_max u) as Hu. fold L in Hv, Hu.
      destruct (guarded g u) eqn:Gu, (guarded g v) eqn:Gv.
      + nia.
      + assert (S (rk t v) <= L)%nat by (unfold L; lia). nia.
      + nia.
      + pose proof (edge_rank u v He Gu Gv). nia.
  Qed.

  Lemma path_bound : forall l, is_path g l = true ->
      (length l <= guard_count g l + S (guard_count g l) * L)%nat.
  Proof.
    intros l Hp. pose proof (path_bound_aux l Hp) as H. destruct l as [|u r]; [cbn; lia|].
    pose proof (rk_le_max u). destruct (guarded g u); unfold L in *; nia.
  Qed.
End Sound.

Lemma guard_count_classes : forall g l, classes_ok g = true ->
    guard_count g l = (class_count g 0 l + class_count g 1 l + class_count g 2 l + class_count g 3 l)%nat.
Proof.
  intros g l Hc. unfold guard_count, class_count. induction l as [|u l IH]; [reflexivity|].
  cbn [filter]. destruct (class_of g u) as [c|] eqn:Hcl.
  - assert (Hg : guarded g u = true) by (unfold guarded; rewrite Hcl; reflexivity). rewrite Hg.
    cbn [length]. rewrite IH.
    assert (Hlt : c < 4).
    { unfold class_of in Hcl. destruct (find (fun p => fst p =? u) (cg_guards g)) as [p|] eqn:Hf; [|discriminate].
      inversion Hcl; subst c. apply find_some in Hf as [Hin _].
      unfold classes_ok in Hc. rewrite forallb_forall in Hc. specialize (Hc p Hin). apply N.ltb_lt in Hc. exact Hc. }
    assert (Hcase : c = 0 \/ c = 1 \/ c = 2 \/ c = 3) by lia.
    destruct Hcase as [ -> | [ -> | [ -> | -> ] ] ]; cbv [N.eqb Pos.eqb]; cbn [length]; lia.
  - assert (Hg : guarded g u = false) by (unfold guarded; rewrite Hcl; reflexivity). rewrite Hg. exact IH.
Qed.

(* The theorem: if the checker accepts a graph, every call chain that the guards allow is short. *)
Theorem depth_bounded : forall g, guards_cut_all_cycles g = true ->
  forall l0 l1 l2 l3 chain, is_path g chain = true -> respects g l0 l1 l2 l3 chain ->
    (length chain <= depth_bound g l0 l1 l2 l3)%nat.
Proof.
  intros g Hg l0 l1 l2 l3 chain Hp (H0 & H1 & H2 & H3).
  unfold guards_cut_all_cycles in Hg. apply andb_true_iff in Hg as [Hg _]. apply andb_true_iff in Hg as [Hr Hc].
  pose proof (path_bound g (compute_rank g) Hr chain Hp) as Hb.
  rewrite (guard_count_classes g chain Hc) in Hb.
  unfold depth_bound, longest_unguarded.
  set (L := S (max_rank (compute_rank g))) in *.
  set (c0 := class_count g 0 chain) in *. set (c1 := class_count g 1 chain) in *.
  set (c2 := class_count g 2 chain) in *. set (c3 := class_count g 3 chain) in *.
  nia.
Qed.

(* the guard semantics implies the per-class bound that `depth_bounded` asks for *)
Lemma guards_pass_count : forall g lim k rest below,
    guards_pass g lim below rest -> (class_count g k below <= lim k)%nat ->
    (class_count g k (below ++ rest) <= S (lim k))%nat.
Proof.
  intros g lim k. induction rest as [|u r IH]; intros below Hp Hb.
  - rewrite app_nil_r. lia.
  - cbn [guards_pass] in Hp. destruct Hp as [Hu Hr].
    assert (Hcc : forall a b, class_count g k (a ++ b) = (class_count g k a + class_count g k b)%nat).
    { intros a b. unfold class_count. rewrite filter_app, app_length. reflexivity. }
    destruct r as [|v r'].
    + rewrite Hcc. unfold class_count at 2. cbn [filter].
      destruct (match class_of g u with Some c => c =? k | None => false end); cbn [length]; lia.
    + replace (below ++ u :: v :: r') with ((below ++ [u]) ++ v :: r') by (rewrite <- app_assoc; reflexivity).
      apply IH; [exact Hr|]. rewrite Hcc. unfold class_count at 2. cbn [filter].
      destruct (class_of g u) as [c|] eqn:Hc; [|cbn [length]; lia].
      destruct (c =? k) eqn:Hck; [|cbn [length]; lia].
      apply N.eqb_eq in Hck; subst c. specialize (Hu ltac:(discriminate) k eq_refl). cbn [length]. lia.
Qed.

Lemma guards_pass_respects : forall g l0 l1 l2 l3 chain,
    guards_pass g (lim4 l0 l1 l2 l3) [] chain -> respects g l0 l1 l2 l3 chain.
Proof.
  intros g l0 l1 l2 l3 chain H. unfold respects.
  pose proof (fun k => guards_pass_count g (lim4 l0 l1 l2 l3) k chain [] H) as Hk. cbn [app] in Hk.
  repeat split; [apply (Hk 0) | apply (Hk 1) | apply (Hk 2) | apply (Hk 3)]; cbn; lia.
Qed.

(* The theorem without the `respects` hypothesis: what is assumed of a chain is only that the guards behave as
   guards (a guarded function whose counter is at the limit calls nothing). *)
Theorem depth_bounded_exec : forall g, guards_cut_all_cycles g = true ->
  forall l0 l1 l2 l3 chain, is_path g chain = true -> guards_pass g (lim4 l0 l1 l2 l3) [] chain ->
    (length chain <= depth_bound g l0 l1 l2 l3)%nat.
Proof.
  intros g Hg l0 l1 l2 l3 chain Hp Hgp.
  apply (depth_bounded g Hg l0 l1 l2 l3 chain Hp). apply guards_pass_respects. exact Hgp.
Qed.

(* the checker does reject: a two-function cycle without guard, and accepts it with one *)
Example checker_rejects : guards_cut_all_cycles {| cg_adj := [(0, [1]); (1, [0])]; cg_guards := []; cg_progs := [] |} = false.
Proof. vm_compute. reflexivity. Qed.
Example checker_accepts : guards_cut_all_cycles {| cg_adj := [(0, [1]); (1, [0])]; cg_guards := [(1, 3)]; cg_progs := [] |} = true.
Proof. vm_compute. reflexivity. Qed.
