(* Proofs/IndepProofs.v — rule-level independence (used by C12 and C05): in the declarative rule-set
   semantics, the verdicts of the rules of a set A do not change when rules of other namespaces are added
   after them: global rules gB (with their strings) and ordinary rules rB. *)
From Boreal Require Import Base.Prelude Base.Res Model.Eval Spec.CondSem Model.EvalCost Model.Scanner
     Spec.RuleSetSpec Proofs.ExprInd.

Definition with_matches (inp : inputs) (ms : list (list smatch)) : inputs :=
  {| i_matches := ms; i_ext := i_ext inp; i_filesize := i_filesize inp; i_mem := i_mem inp; i_ac := i_ac inp;
     i_imports := i_imports inp |}.

Lemma nvars_of_app a b : nvars_of (a ++ b) = (nvars_of a + nvars_of b)%nat.
Proof. induction a as [|r a IH]; cbn [app nvars_of fold_right]; [reflexivity|]. fold (nvars_of (a ++ b)) (nvars_of a). lia. Qed.

Lemma skipn_add {A} (a b : nat) (l : list A) : skipn a (skipn b l) = skipn (b + a) l.
Proof.
  revert l; induction b as [|b IH]; intros l; [reflexivity|]. destruct l as [|x l]; [destruct a; reflexivity|].
  cbn [skipn Nat.add]. apply IH.
Qed.

(* equal prefixes give equal sub-prefixes and equal prefixes of the remainders *)
Lemma firstn_eq_le {A} (n k : nat) (l l' : list A) :
  (k <= n)%nat -> firstn n l = firstn n l' -> firstn k l = firstn k l'.
Proof.
  intros Hk H. rewrite <- (Nat.min_l k n Hk), <- !firstn_firstn, H. reflexivity.
Qed.

Lemma firstn_eq_skip {A} (n k : nat) (l l' : list A) :
  firstn (k + n) l = firstn (k + n) l' -> firstn n (skipn k l) = firstn n (skipn k l').
Proof.
  revert l l'; induction k as [|k IH]; intros l l' H; [exact H|].
  destruct l as [|x l], l' as [|y l']; cbn [Nat.add firstn skipn] in *.
  - reflexivity.
  - destruct n; [reflexivity|]. cbn [firstn skipn]. discriminate H.
  - discriminate H.
  - injection H as _ H. apply IH. exact H.
Qed.

(* ---- global rules *)
Lemma gowns_length inp ms gs : length (gowns inp ms gs) = length gs.
Proof. revert ms; induction gs as [|g gs IH]; intros ms; cbn [gowns length]; [reflexivity|]. rewrite IH. reflexivity. Qed.

Lemma gowns_app inp g1 : forall ms g2,
  gowns inp ms (g1 ++ g2) = gowns inp ms g1 ++ gowns inp (skipn (nvars_of g1) ms) g2.
Proof.
  induction g1 as [|g g1 IH]; intros ms g2; [reflexivity|].
  cbn [app gowns nvars_of fold_right]. fold (nvars_of g1). rewrite IH, skipn_add. reflexivity.
Qed.

Lemma gowns_ext inp inp' gs : forall ms ms',
  i_ext inp = i_ext inp' -> i_filesize inp = i_filesize inp' -> i_mem inp = i_mem inp' ->
  firstn (nvars_of gs) ms = firstn (nvars_of gs) ms' -> gowns inp ms gs = gowns inp' ms' gs.
Proof.
  intros ms ms' He Hf Hm. revert ms ms'.
  induction gs as [|g gs IH]; intros ms ms' H; [reflexivity|].
  cbn [gowns nvars_of fold_right] in *. fold (nvars_of gs) in *.
  rewrite (firstn_eq_le (r_nvars g + nvars_of gs) (r_nvars g) ms ms' ltac:(lia) H), He, Hf, Hm. f_equal.
  apply IH. apply firstn_eq_skip. exact H.
Qed.

Lemma ns_ok_app g1 o1 g2 o2 ns : length g1 = length o1 ->
  ns_ok (g1 ++ g2) (o1 ++ o2) ns = ns_ok g1 o1 ns && ns_ok g2 o2 ns.
Proof.
  intros Hl. unfold ns_ok. revert o1 Hl; induction g1 as [|g g1 IH]; intros [|o o1] Hl; try discriminate Hl.
  - reflexivity.
  - cbn [app combine forallb]. rewrite IH by (injection Hl as Hl; exact Hl). rewrite andb_assoc. reflexivity.
Qed.

Lemma ns_ok_other gs own ns : (forall g, In g gs -> r_ns g <> ns) -> ns_ok gs own ns = true.
Proof.
  unfold ns_ok. revert own; induction gs as [|g gs IH]; intros own H; [reflexivity|].
  destruct own as [|o own]; [reflexivity|]. cbn [combine forallb fst snd].
  rewrite IH by (intros g' Hg; apply H; right; exact Hg).
  destruct (Nat.eqb_spec (r_ns g) ns) as [E|E]; [exfalso; apply (H g); [left; reflexivity|exact E]|reflexivity].
Qed.

(* ---- ordinary rules *)
Lemma rverdicts_length inp ok rs : forall ms prev, length (rverdicts inp ok ms prev rs) = length rs.
Proof. induction rs as [|r rs IH]; intros ms prev; cbn [rverdicts length]; [reflexivity|]. rewrite IH. reflexivity. Qed.

Lemma rverdicts_app inp ok r1 : forall ms prev r2,
  rverdicts inp ok ms prev (r1 ++ r2)
  = rverdicts inp ok ms prev r1
    ++ rverdicts inp ok (skipn (nvars_of r1) ms) (prev ++ rverdicts inp ok ms prev r1) r2.
Proof.
  induction r1 as [|r r1 IH]; intros ms prev r2.
  - cbn [app rverdicts nvars_of fold_right skipn]. rewrite app_nil_r. reflexivity.
  - cbn [app rverdicts nvars_of fold_right]. fold (nvars_of r1). rewrite IH, skipn_add, <- app_assoc. reflexivity.
Qed.

Lemma rverdicts_ext inp inp' ok ok' rs : forall ms ms' prev,
  i_ext inp = i_ext inp' -> i_filesize inp = i_filesize inp' -> i_mem inp = i_mem inp' ->
  (forall r, In r rs -> ok (r_ns r) = ok' (r_ns r)) ->
  firstn (nvars_of rs) ms = firstn (nvars_of rs) ms' ->
  rverdicts inp ok ms prev rs = rverdicts inp' ok' ms' prev rs.
Proof.
  intros ms ms' prev He Hf Hm. revert ms ms' prev.
  induction rs as [|r rs IH]; intros ms ms' prev Hok H; [reflexivity|].
  cbn [rverdicts nvars_of fold_right] in *. fold (nvars_of rs) in *.
  rewrite (firstn_eq_le (r_nvars r + nvars_of rs) (r_nvars r) ms ms' ltac:(lia) H), He, Hf, Hm, (Hok r (or_introl eq_refl)). f_equal.
  apply IH; [intros r' Hr'; apply Hok; right; exact Hr'|]. apply firstn_eq_skip. exact H.
Qed.

Lemma combine_app {A B} (a1 a2 : list A) (b1 b2 : list B) : length a1 = length b1 ->
  combine (a1 ++ a2) (b1 ++ b2) = combine a1 b1 ++ combine a2 b2.
Proof.
  revert b1; induction a1 as [|x a1 IH]; intros [|y b1] H; try discriminate H; [reflexivity|].
  cbn [app combine]. rewrite IH by (injection H as H; exact H). reflexivity.
Qed.

Lemma firstn_app_exact {A} (a b : list A) n : length a = n -> firstn n (a ++ b) = a.
Proof. intros <-. rewrite firstn_app, Nat.sub_diag, firstn_all. cbn [firstn]. apply app_nil_r. Qed.

Lemma skipn_app_exact {A} (a b : list A) n : length a = n -> skipn n (a ++ b) = b.
Proof. intros <-. rewrite skipn_app, Nat.sub_diag, skipn_all. reflexivity. Qed.

(* Rules of other namespaces added after those of A: global rules gB and ordinary rules rB, with the
   matches of their strings (mgB, mrB) at the positions the compiler gives them.  The verdicts of the
   global and ordinary rules of A are those of A alone; the added rules get verdicts of their own. *)
Theorem spec_verdicts_independent inp n n' gA gB rA rB mgA mgB mrA mrB :
  length mgA = nvars_of gA -> length mgB = nvars_of gB -> length mrA = nvars_of rA ->
  (forall a b, In a (gA ++ rA) -> In b gB -> r_ns b <> r_ns a) ->
  let scA := {| s_globals := gA; s_rules := rA; s_nns := n |} in
  let scAB := {| s_globals := gA ++ gB; s_rules := rA ++ rB; s_nns := n' |} in
  let vA := spec_verdicts scA (with_matches inp (mgA ++ mrA)) in
  exists vgB vrB,
    spec_verdicts scAB (with_matches inp (mgA ++ mgB ++ mrA ++ mrB))
    = firstn (length gA) vA ++ combine gB vgB ++ skipn (length gA) vA ++ combine rB vrB
    /\ length vgB = length gB /\ length vrB = length rB.
Proof.
  intros HgA HgB HrA Hdis scA scAB vA.
  subst vA scA scAB. unfold spec_verdicts. cbn [s_globals s_rules i_matches with_matches].
  set (ms := mgA ++ mgB ++ mrA ++ mrB). set (msA := mgA ++ mrA).
  set (inpAB := with_matches inp ms). set (inpA := with_matches inp msA).
  (* own conditions of the global rules *)
  assert (EgA : gowns inpAB ms gA = gowns inpA msA gA).
  { apply gowns_ext; try reflexivity. subst ms msA. rewrite !firstn_app_exact by exact HgA. reflexivity. }
  rewrite gowns_app, EgA.
  set (oA := gowns inpA msA gA). set (oB := gowns inpAB (skipn (nvars_of gA) ms) gB).
  assert (LoA : length gA = length oA) by (subst oA; rewrite gowns_length; reflexivity).
  assert (LoB : length gB = length oB) by (subst oB; rewrite gowns_length; reflexivity).
  (* namespaces of A are judged by the global rules of A alone *)
  assert (Hok : forall a, In a (gA ++ rA) -> ns_ok (gA ++ gB) (oA ++ oB) (r_ns a) = ns_ok gA oA (r_ns a)).
  { intros a Ha. rewrite ns_ok_app by exact LoA.
    rewrite (ns_ok_other gB oB (r_ns a)) by (intros b Hb; apply (Hdis a b Ha Hb)). apply andb_true_r. }
  (* global part *)
  rewrite combine_app by exact LoA. rewrite map_app.
  rewrite combine_app by (rewrite map_length, combine_length, <- LoA, Nat.min_id; reflexivity).
  assert (EmapA : map (fun gb => snd gb && ns_ok (gA ++ gB) (oA ++ oB) (r_ns (fst gb))) (combine gA oA)
                  = map (fun gb => snd gb && ns_ok gA oA (r_ns (fst gb))) (combine gA oA)).
  { apply map_ext_in. intros [g o] Hin. cbn [fst snd]. rewrite Hok; [reflexivity|].
    apply in_or_app. left. exact (in_combine_l _ _ _ _ Hin). }
  rewrite EmapA.
  set (VgA := combine gA (map (fun gb => snd gb && ns_ok gA oA (r_ns (fst gb))) (combine gA oA))).
  assert (LVgA : length VgA = length gA).
  { subst VgA. rewrite combine_length, map_length, combine_length, <- LoA, !Nat.min_id. reflexivity. }
  (* ordinary part *)
  rewrite nvars_of_app.
  assert (EskA : skipn (nvars_of gA) msA = mrA) by (subst msA; apply skipn_app_exact; exact HgA).
  assert (EskAB : skipn (nvars_of gA + nvars_of gB) ms = mrA ++ mrB).
  { subst ms. rewrite <- skipn_add. rewrite (skipn_app_exact mgA _ _ HgA). apply skipn_app_exact. exact HgB. }
  rewrite EskA, EskAB, rverdicts_app.
  assert (ErA : rverdicts inpAB (ns_ok (gA ++ gB) (oA ++ oB)) (mrA ++ mrB) [] rA
                = rverdicts inpA (ns_ok gA oA) mrA [] rA).
  { apply rverdicts_ext; try reflexivity.
    - intros r Hr. apply Hok. apply in_or_app. right. exact Hr.
    - rewrite firstn_app_exact by exact HrA. rewrite <- HrA. symmetry. apply firstn_all. }
  rewrite ErA. set (vrA := rverdicts inpA (ns_ok gA oA) mrA [] rA).
  rewrite combine_app by (subst vrA; rewrite rverdicts_length; reflexivity).
  (* assemble *)
  rewrite (firstn_app_exact VgA _ _ LVgA), (skipn_app_exact VgA _ _ LVgA).
  eexists. eexists. split; [rewrite <- !app_assoc; reflexivity|].
  split; [rewrite map_length, combine_length, <- LoB, Nat.min_id; reflexivity|apply rverdicts_length].
Qed.

(* ------------------------------------------------------------------ rules added BEFORE those of A *)
(* The compiler numbers ordinary rules in declaration order: when rules are declared before those of A, the
   references of A's conditions to earlier rules of A are the same references shifted by the number of ordinary
   rules added. *)
Fixpoint shift_rules (k : nat) (e : expr) {struct e} : expr :=
  match e with
  | EReadInt ty a => EReadInt ty (shift_rules k a)
  | ECountIn v f t => ECountIn v (shift_rules k f) (shift_rules k t)
  | EOffset v a => EOffset v (shift_rules k a)
  | ELength v a => ELength v (shift_rules k a)
  | EVarAt v a => EVarAt v (shift_rules k a)
  | EVarIn v f t => EVarIn v (shift_rules k f) (shift_rules k t)
  | EUn o a => EUn o (shift_rules k a)
  | EBin o l r => EBin o (shift_rules k l) (shift_rules k r)
  | EAnd l => EAnd (map (shift_rules k) l)
  | EOr l => EOr (map (shift_rules k) l)
  | EDefined a => EDefined (shift_rules k a)
  | EFor q se set body => EFor q (shift_rules k se) set (shift_rules k body)
  | EForRange q se f t body => EForRange q (shift_rules k se) (shift_rules k f) (shift_rules k t) (shift_rules k body)
  | EForList q se elems body => EForList q (shift_rules k se) (map (shift_rules k) elems) (shift_rules k body)
  | EForRules q se already elems => EForRules q (shift_rules k se) already (map (fun i => (k + i)%nat) elems)
  | ERule i => ERule (k + i)
  | _ => e
  end.

Definition shift_rule (k : nat) (r : rule) : rule :=
  {| r_ns := r_ns r; r_id := r_id r; r_global := r_global r; r_private := r_private r; r_nvars := r_nvars r;
     r_cond := shift_rules k (r_cond r) |}.

Definition with_prev (q : senv) (p : list bool) : senv :=
  {| q_matches := q_matches q; q_prev := p; q_ext := q_ext q; q_filesize := q_filesize q; q_mem := q_mem q |}.

Lemma map_shift_sem (f g : expr -> option value) k (l : list expr) :
  Forall (fun e => f (shift_rules k e) = g e) l -> map f (map (shift_rules k) l) = map g l.
Proof. intros H. rewrite map_map. induction H as [|e l He _ IH]; cbn [map]; [reflexivity|]. rewrite He, IH. reflexivity. Qed.

Lemma sem_shift q pB e :
  forall sel stack,
    sem (with_prev q (pB ++ q_prev q)) sel stack (shift_rules (length pB) e) = sem q sel stack e.
Proof.
  set (q' := with_prev q (pB ++ q_prev q)). set (k := length pB).
  assert (Hvm : forall sel v, var_ms q' sel v = var_ms q sel v) by reflexivity.
  induction e using expr_ind'; intros sel stack; cbn [shift_rules sem]; rewrite ?Hvm;
    repeat match goal with IH : forall _ _, sem q' _ _ (shift_rules k ?x) = _ |- _ => rewrite !IH; clear IH end;
    try reflexivity.
  - (* and *) rewrite (map_shift_sem (sem q' sel stack) (sem q sel stack) k l); [reflexivity|].
    eapply Forall_impl; [|exact H]. intros a Ha. apply Ha.
  - (* or *) rewrite (map_shift_sem (sem q' sel stack) (sem q sel stack) k l); [reflexivity|].
    eapply Forall_impl; [|exact H]. intros a Ha. apply Ha.
  - (* for over strings *)
    f_equal. f_equal. f_equal. apply map_ext. intros idx. rewrite IHe2. reflexivity.
  - (* for over a range *)
    destruct (quota_of k0 (sem q sel stack e1) 0); try reflexivity;
      destruct (onum (sem q sel stack e2)); try reflexivity; destruct (onum (sem q sel stack e3)); try reflexivity;
      destruct (_ <? _)%Z; try reflexivity; do 3 f_equal; apply map_ext; intros zz; rewrite IHe4; reflexivity.
  - (* for over a list *)
    assert (Hitems : map (fun el => match sem q' sel stack el with
                                    | Some (VBool _) => None
                                    | Some v => Some (holds (sem q' sel (stack ++ [v]) (shift_rules k e2)))
                                    | None => None end) (map (shift_rules k) elems)
                     = map (fun el => match sem q sel stack el with
                                      | Some (VBool _) => None
                                      | Some v => Some (holds (sem q sel (stack ++ [v]) e2))
                                      | None => None end) elems).
    { rewrite map_map. induction H as [|a l Ha _ IHl]; cbn [map]; [reflexivity|]. rewrite Ha, IHl.
      destruct (sem q sel stack a) as [[| | |]|]; try reflexivity; rewrite IHe2; reflexivity. }
    rewrite Hitems. reflexivity.
  - (* rule set *)
    unfold nlen. rewrite map_length. do 4 f_equal. rewrite map_map. apply map_ext. intros i.
    unfold q'. cbn [q_prev with_prev]. subst k. rewrite app_nth2 by lia. f_equal. lia.
  - (* rule reference *)
    unfold q'. cbn [q_prev with_prev]. subst k. rewrite nth_error_app2 by lia. do 2 f_equal. lia.
Qed.

Lemma rverdicts_shift inp ok pB rs : forall ms prev,
  rverdicts inp ok ms (pB ++ prev) (map (shift_rule (length pB)) rs) = rverdicts inp ok ms prev rs.
Proof.
  induction rs as [|r rs IH]; intros ms prev; [reflexivity|].
  cbn [map rverdicts shift_rule r_ns r_nvars r_cond].
  set (q := {| q_matches := firstn (r_nvars r) ms; q_prev := prev; q_ext := i_ext inp;
               q_filesize := i_filesize inp; q_mem := i_mem inp |}).
  assert (E : sem_rule {| q_matches := firstn (r_nvars r) ms; q_prev := pB ++ prev; q_ext := i_ext inp;
                          q_filesize := i_filesize inp; q_mem := i_mem inp |} (shift_rules (length pB) (r_cond r))
              = sem_rule q (r_cond r)).
  { unfold sem_rule. change {| q_matches := firstn (r_nvars r) ms; q_prev := pB ++ prev; q_ext := i_ext inp;
                               q_filesize := i_filesize inp; q_mem := i_mem inp |} with (with_prev q (pB ++ q_prev q)).
    rewrite sem_shift. reflexivity. }
  rewrite E. f_equal. rewrite <- app_assoc. apply IH.
Qed.

Lemma map_shift_nvars k rs : nvars_of (map (shift_rule k) rs) = nvars_of rs.
Proof. induction rs as [|r rs IH]; [reflexivity|]. cbn [map nvars_of fold_right shift_rule r_nvars] in *. fold (nvars_of (map (shift_rule k) rs)) (nvars_of rs). rewrite IH. reflexivity. Qed.

(* Rules of other namespaces declared BEFORE those of A.  Verdicts only (the rules of A appear with shifted
   references): the verdicts of A's global rules and ordinary rules are those of A alone. *)
Theorem spec_verdicts_independent_before inp n n' gA gB rA rB mgA mgB mrA mrB :
  length mgA = nvars_of gA -> length mgB = nvars_of gB -> length mrB = nvars_of rB ->
  (forall a b, In a (gA ++ rA) -> In b gB -> r_ns b <> r_ns a) ->
  let scA := {| s_globals := gA; s_rules := rA; s_nns := n |} in
  let scBA := {| s_globals := gB ++ gA; s_rules := rB ++ map (shift_rule (length rB)) rA; s_nns := n' |} in
  let vA := map snd (spec_verdicts scA (with_matches inp (mgA ++ mrA))) in
  exists vgB vrB,
    map snd (spec_verdicts scBA (with_matches inp (mgB ++ mgA ++ mrB ++ mrA)))
    = vgB ++ firstn (length gA) vA ++ vrB ++ skipn (length gA) vA
    /\ length vgB = length gB /\ length vrB = length rB.
Proof.
  intros HgA HgB HrB Hdis scA scBA vA.
  subst vA scA scBA. unfold spec_verdicts. cbn [s_globals s_rules i_matches with_matches].
  set (ms := mgB ++ mgA ++ mrB ++ mrA). set (msA := mgA ++ mrA).
  set (inpBA := with_matches inp ms). set (inpA := with_matches inp msA).
  rewrite gowns_app.
  set (oB := gowns inpBA ms gB).
  assert (EskB : skipn (nvars_of gB) ms = mgA ++ mrB ++ mrA) by (subst ms; apply skipn_app_exact; exact HgB).
  assert (EgA : gowns inpBA (skipn (nvars_of gB) ms) gA = gowns inpA msA gA).
  { apply gowns_ext; try reflexivity. rewrite EskB. subst msA. rewrite !firstn_app_exact by exact HgA. reflexivity. }
  rewrite EgA. set (oA := gowns inpA msA gA).
  assert (LoA : length gA = length oA) by (subst oA; rewrite gowns_length; reflexivity).
  assert (LoB : length gB = length oB) by (subst oB; rewrite gowns_length; reflexivity).
  assert (Hok : forall a, In a (gA ++ rA) -> ns_ok (gB ++ gA) (oB ++ oA) (r_ns a) = ns_ok gA oA (r_ns a)).
  { intros a Ha. rewrite ns_ok_app by exact LoB.
    rewrite (ns_ok_other gB oB (r_ns a)) by (intros b Hb; apply (Hdis a b Ha Hb)). reflexivity. }
  rewrite combine_app by exact LoB. rewrite !map_app.
  rewrite combine_app by (rewrite map_length, combine_length, <- LoB, Nat.min_id; reflexivity).
  assert (EmapA : map (fun gb => snd gb && ns_ok (gB ++ gA) (oB ++ oA) (r_ns (fst gb))) (combine gA oA)
                  = map (fun gb => snd gb && ns_ok gA oA (r_ns (fst gb))) (combine gA oA)).
  { apply map_ext_in. intros [g o] Hin. cbn [fst snd]. rewrite Hok; [reflexivity|].
    apply in_or_app. left. exact (in_combine_l _ _ _ _ Hin). }
  rewrite EmapA.
  set (VA := map (fun gb => snd gb && ns_ok gA oA (r_ns (fst gb))) (combine gA oA)).
  assert (LVA : length VA = length gA) by (subst VA; rewrite map_length, combine_length, <- LoA, Nat.min_id; reflexivity).
  (* ordinary part *)
  rewrite nvars_of_app.
  assert (EskA : skipn (nvars_of gA) msA = mrA) by (subst msA; apply skipn_app_exact; exact HgA).
  assert (EskBA : skipn (nvars_of gB + nvars_of gA) ms = mrB ++ mrA).
  { subst ms. rewrite <- skipn_add. rewrite (skipn_app_exact mgB _ _ HgB). apply skipn_app_exact. exact HgA. }
  rewrite EskA, EskBA, rverdicts_app.
  set (okBA := ns_ok (gB ++ gA) (oB ++ oA)).
  set (vrB := rverdicts inpBA okBA (mrB ++ mrA) [] rB).
  assert (LvrB : length vrB = length rB) by (subst vrB; apply rverdicts_length).
  rewrite (skipn_app_exact mrB mrA _ HrB). cbn [app].
  replace (rverdicts inpBA okBA mrA vrB (map (shift_rule (length rB)) rA)) with (rverdicts inpBA okBA mrA [] rA)
    by (rewrite <- LvrB, <- (rverdicts_shift inpBA okBA vrB rA mrA []), app_nil_r; reflexivity).
  assert (ErA : rverdicts inpBA okBA mrA [] rA = rverdicts inpA (ns_ok gA oA) mrA [] rA).
  { apply rverdicts_ext; try reflexivity. intros r Hr. apply Hok. apply in_or_app. right. exact Hr. }
  rewrite ErA. set (vrA := rverdicts inpA (ns_ok gA oA) mrA [] rA).
  assert (LvrA : length vrA = length rA) by (subst vrA; apply rverdicts_length).
  (* project on verdicts *)
  assert (Hsnd : forall (X : list rule) (Y : list bool), length X = length Y -> map snd (combine X Y) = Y).
  { intros X. induction X as [|x X IH]; intros [|y Y] H; try discriminate H; [reflexivity|].
    cbn [combine map snd]. rewrite IH by (injection H as H; exact H). reflexivity. }
  rewrite (combine_app rB _ vrB vrA) by (symmetry; exact LvrB).
  rewrite !map_app.
  rewrite (Hsnd gB) by (rewrite map_length, combine_length, <- LoB, Nat.min_id; reflexivity).
  rewrite !(Hsnd gA VA) by (symmetry; exact LVA).
  rewrite (Hsnd rB vrB) by (symmetry; exact LvrB).
  rewrite (Hsnd (map (shift_rule (length rB)) rA) vrA) by (rewrite map_length; symmetry; exact LvrA).
  rewrite !(Hsnd rA vrA) by (symmetry; exact LvrA).
  rewrite (firstn_app_exact VA _ _ LVA), (skipn_app_exact VA _ _ LVA).
  exists (map (fun gb => snd gb && okBA (r_ns (fst gb))) (combine gB oB)), vrB.
  split; [rewrite <- !app_assoc; reflexivity|].
  split; [rewrite map_length, combine_length, <- LoB, Nat.min_id; reflexivity|exact LvrB].
Qed.

(* ------------------------------------------------------------------ what is reported *)
Definition in_ids (ids : list N) (e : erule) : bool := existsb (N.eqb (er_id e)) ids.

Definition rep_of (nm : bool) (l : list (rule * bool)) : list erule :=
  map (fun rb => {| er_id := r_id (fst rb); er_ns := r_ns (fst rb); er_matched := snd rb |})
      (filter (fun rb => negb (r_private (fst rb)) && (snd rb || nm)) l).

Lemma rep_of_app nm a b : rep_of nm (a ++ b) = rep_of nm a ++ rep_of nm b.
Proof. unfold rep_of. rewrite filter_app, map_app. reflexivity. Qed.

Lemma filter_ids_all ids nm l :
  (forall rb, In rb l -> existsb (N.eqb (r_id (fst rb))) ids = true) ->
  filter (in_ids ids) (rep_of nm l) = rep_of nm l.
Proof.
  intros H. unfold rep_of. induction l as [|rb l IH]; [reflexivity|].
  cbn [filter]. destruct (negb (r_private (fst rb)) && (snd rb || nm)); cbn [map filter].
  - unfold in_ids at 1. cbn [er_id]. rewrite (H rb (or_introl eq_refl)). f_equal. apply IH. intros x Hx. apply H. right. exact Hx.
  - apply IH. intros x Hx. apply H. right. exact Hx.
Qed.

Lemma filter_ids_none ids nm l :
  (forall rb, In rb l -> existsb (N.eqb (r_id (fst rb))) ids = false) ->
  filter (in_ids ids) (rep_of nm l) = [].
Proof.
  intros H. unfold rep_of. induction l as [|rb l IH]; [reflexivity|].
  cbn [filter]. destruct (negb (r_private (fst rb)) && (snd rb || nm)); cbn [map filter].
  - unfold in_ids at 1. cbn [er_id]. rewrite (H rb (or_introl eq_refl)). apply IH. intros x Hx. apply H. right. exact Hx.
  - apply IH. intros x Hx. apply H. right. exact Hx.
Qed.

Lemma in_firstn {A} (x : A) n l : In x (firstn n l) -> In x l.
Proof. intros H. rewrite <- (firstn_skipn n l). apply in_or_app. left. exact H. Qed.
Lemma in_skipn {A} (x : A) n l : In x (skipn n l) -> In x l.
Proof. intros H. rewrite <- (firstn_skipn n l). apply in_or_app. right. exact H. Qed.

(* The rules of A reported for the union are the rules reported for A alone, in the same order with the same
   verdicts (rule identifiers of A and of the added rules being distinct). *)
Theorem spec_reported_independent inp n n' gA gB rA rB mgA mgB mrA mrB nm ids :
  length mgA = nvars_of gA -> length mgB = nvars_of gB -> length mrA = nvars_of rA ->
  (forall a b, In a (gA ++ rA) -> In b gB -> r_ns b <> r_ns a) ->
  (forall a, In a (gA ++ rA) -> existsb (N.eqb (r_id a)) ids = true) ->
  (forall b, In b (gB ++ rB) -> existsb (N.eqb (r_id b)) ids = false) ->
  filter (in_ids ids)
         (spec_reported {| s_globals := gA ++ gB; s_rules := rA ++ rB; s_nns := n' |}
                        (with_matches inp (mgA ++ mgB ++ mrA ++ mrB)) nm)
  = spec_reported {| s_globals := gA; s_rules := rA; s_nns := n |} (with_matches inp (mgA ++ mrA)) nm.
Proof.
  intros HgA HgB HrA Hdis HidA HidB.
  destruct (spec_verdicts_independent inp n n' gA gB rA rB mgA mgB mrA mrB HgA HgB HrA Hdis)
    as [vgB [vrB [E [LgB LrB]]]].
  change (spec_reported ?sc ?i nm) with (rep_of nm (spec_verdicts sc i)).
  rewrite E. set (vA := spec_verdicts {| s_globals := gA; s_rules := rA; s_nns := n |} (with_matches inp (mgA ++ mrA))).
  rewrite !rep_of_app, !filter_app.
  assert (HvA : forall rb, In rb vA -> In (fst rb) (gA ++ rA)).
  { intros [r b] Hin. subst vA. unfold spec_verdicts in Hin. cbn [s_globals s_rules fst] in *.
    apply in_app_or in Hin as [Hin|Hin]; apply in_or_app; [left|right]; exact (in_combine_l _ _ _ _ Hin). }
  rewrite (filter_ids_all ids nm (firstn (length gA) vA))
    by (intros rb Hrb; apply HidA, HvA; exact (in_firstn _ _ _ Hrb)).
  rewrite (filter_ids_all ids nm (skipn (length gA) vA))
    by (intros rb Hrb; apply HidA, HvA; exact (in_skipn _ _ _ Hrb)).
  rewrite (filter_ids_none ids nm (combine gB vgB))
    by (intros [r b] Hrb; apply HidB; apply in_or_app; left; exact (in_combine_l _ _ _ _ Hrb)).
  rewrite (filter_ids_none ids nm (combine rB vrB))
    by (intros [r b] Hrb; apply HidB; apply in_or_app; right; exact (in_combine_l _ _ _ _ Hrb)).
  cbn [app]. rewrite app_nil_r, <- rep_of_app, firstn_skipn. reflexivity.
Qed.
