(* Proofs/ModFuncsToInt.v — C16_to_int: boreal's hand-written parser (as fixed by 8bfdd31) computes strtoll with full
   consumption for every byte string and every base argument; the pinned parser does not (witnesses). *)
From Boreal Require Import Base.Prelude Spec.MathSpec Spec.Strtol Model.ModFuncs Model.StringMod Model.ModFuncsCase.
Open Scope N_scope.

Lemma skip_ws_spaces : forall s, skip_ws true s = skip_spaces s.
Proof. induction s as [|b r IH]; cbn; [reflexivity|]. unfold ws_fixed, c_isspace. now rewrite IH. Qed.

Lemma split_sign_of : forall s, split_sign s = sign_of s.
Proof. reflexivity. Qed.

Lemma to_digit_in : forall c base, (0 <= base)%Z ->
  to_digit c base = match digit_in (Z.to_N base) c with Some d => Some (Z.of_N d) | None => None end.
Proof.
  intros c base Hb. unfold to_digit, digit_in, digit_val.
  destruct ((48 <=? c) && (c <=? 57)) eqn:E1.
  - destruct (Z.of_N (c - 48) <? base)%Z eqn:E2; destruct (c - 48 <? Z.to_N base) eqn:E3; try reflexivity; lia.
  - destruct ((97 <=? c) && (c <=? 122)) eqn:E4.
    + destruct (Z.of_N (c - 97 + 10) <? base)%Z eqn:E2; destruct (c - 87 <? Z.to_N base) eqn:E3;
        try reflexivity; try lia. do 2 f_equal. lia.
    + destruct ((65 <=? c) && (c <=? 90)) eqn:E5; [|reflexivity].
      destruct (Z.of_N (c - 65 + 10) <? base)%Z eqn:E2; destruct (c - 55 <? Z.to_N base) eqn:E3;
        try reflexivity; try lia. do 2 f_equal. lia.
Qed.

Definition step (b : N) (acc : Z) (d : N) : Z := (acc * Z.of_N b + Z.of_N d)%Z.

Lemma fold_step_mono : forall b ds x, (0 <= x)%Z -> (1 <= b) -> (x <= fold_left (step b) ds x)%Z.
Proof.
  intros b ds; induction ds as [|d ds IH]; intros x Hx Hb; cbn [fold_left]; [lia|].
  assert (H : (x <= step b x d)%Z) by (unfold step; nia).
  specialize (IH (step b x d)). lia.
Qed.

Definition signed (neg : bool) (v : Z) : Z := if neg then (- v)%Z else v.

(* the digit loop with checked arithmetic = longest digit run, leftover test, range test at the end *)
Lemma parse_span : forall b neg s v0,
  (2 <= b <= 36)%Z -> (0 <= v0)%Z -> fits_i64 (signed neg v0) = true ->
  parse_digits neg b s (signed neg v0) =
    let '(ds, rest) := span_digits (Z.to_N b) s in
    match rest with
    | _ :: _ => None
    | [] => let r := signed neg (fold_left (step (Z.to_N b)) ds v0) in if in_i64 r then Some r else None
    end.
Proof.
  intros b neg s; induction s as [|c r IH]; intros v0 Hb Hv Hfit; cbn [parse_digits span_digits].
  - cbn [fold_left]. unfold in_i64, i64_min, i64_max. unfold fits_i64 in Hfit. now rewrite Hfit.
  - rewrite to_digit_in by lia.
    destruct (digit_in (Z.to_N b) c) as [d|] eqn:Ed; [|reflexivity].
    assert (Hd : d < Z.to_N b).
    { unfold digit_in in Ed. destruct (digit_val c) as [d'|]; [|discriminate].
      destruct (d' <? Z.to_N b) eqn:E; [|discriminate]. injection Ed as <-. lia. }
    specialize (IH (v0 * b + Z.of_N d)%Z).
    destruct (span_digits (Z.to_N b) r) as [ds rest] eqn:Es.
    cbn [fold_left].
    assert (Hstep : step (Z.to_N b) v0 d = (v0 * b + Z.of_N d)%Z) by (unfold step; lia).
    rewrite Hstep.
    pose proof (fold_step_mono (Z.to_N b) ds (v0 * b + Z.of_N d)%Z) as Hm.
    assert (Hm' : (v0 * b + Z.of_N d <= fold_left (step (Z.to_N b)) ds (v0 * b + Z.of_N d))%Z) by (apply Hm; nia).
    clear Hm.
    destruct (fits_i64 (signed neg v0 * b)) eqn:F1; cbn [negb].
    + assert (Hv' : (if neg then (signed neg v0 * b - Z.of_N d)%Z else (signed neg v0 * b + Z.of_N d)%Z)
                    = signed neg (v0 * b + Z.of_N d)) by (unfold signed; destruct neg; lia).
      rewrite Hv'.
      destruct (fits_i64 (signed neg (v0 * b + Z.of_N d))) eqn:F2.
      * apply IH; [assumption|nia|reflexivity].
      * destruct rest; [|reflexivity]. cbv zeta.
        set (F := fold_left (step (Z.to_N b)) ds (v0 * b + Z.of_N d)%Z) in *.
        assert (in_i64 (signed neg F) = false) as ->; [|reflexivity].
        unfold in_i64, i64_min, i64_max, fits_i64, signed in *. destruct neg; lia.
    + destruct rest; [|reflexivity]. cbv zeta.
      set (F := fold_left (step (Z.to_N b)) ds (v0 * b + Z.of_N d)%Z) in *.
      assert (in_i64 (signed neg F) = false) as ->; [|reflexivity].
      unfold in_i64, i64_min, i64_max, fits_i64, signed in *. destruct neg; nia.
Qed.

Lemma finish_convert : forall neg b s, (2 <= b <= 36)%Z ->
  finish neg b s = of_opt_z (convert neg (Z.to_N b) s).
Proof.
  intros neg b s Hb. unfold finish, convert.
  destruct s as [|c r]; [reflexivity|].
  pose proof (parse_span b neg (c :: r) 0%Z Hb) as H.
  assert (Hs0 : signed neg 0 = 0%Z) by (destruct neg; reflexivity).
  rewrite Hs0 in H. rewrite H by (reflexivity || lia). clear H.
  destruct (span_digits (Z.to_N b) (c :: r)) as [ds rest] eqn:Es.
  destruct ds as [|d ds'].
  - (* no digit: the rest is the whole string *)
    cbn [span_digits] in Es. destruct (digit_in (Z.to_N b) c); [destruct (span_digits (Z.to_N b) r); discriminate|].
    injection Es as <-. reflexivity.
  - destruct rest; [|reflexivity].
    unfold value_of. change (fun acc d0 => (acc * Z.of_N (Z.to_N b) + Z.of_N d0)%Z) with (step (Z.to_N b)).
    unfold signed. destruct (in_i64 _); reflexivity.
Qed.

(* "0x" not followed by a hexadecimal digit: strtoll converts the "0" and stops at the x *)
Lemma convert_0x_stops : forall neg b c x t, (b = 8 \/ b = 16) -> c =? 48 = true -> is_x x = true ->
  convert neg b (c :: x :: t) = None.
Proof.
  intros neg b c x t Hb Hc Hx. unfold convert. cbn [span_digits].
  assert (c = 48) as -> by lia.
  assert (Hx' : x = 120 \/ x = 88) by (unfold is_x in Hx; lia).
  destruct Hb as [-> | ->]; destruct Hx' as [-> | ->]; reflexivity.
Qed.

Lemma finish_no_hex : forall neg t,
  match t with h :: _ => is_digit_of 16 h = false | [] => True end -> finish neg 16 t = RUndef.
Proof.
  intros neg t H. unfold finish. destruct t as [|h r]; [reflexivity|].
  cbn [parse_digits]. rewrite to_digit_in by lia. change (Z.to_N 16) with 16.
  unfold is_digit_of in H. destruct (digit_in 16 h); [discriminate|reflexivity].
Qed.

Lemma to_int_core_spec : forall s base, base_ok base = true ->
  to_int_core true s base = of_opt_z (strtoll_full s base).
Proof.
  intros s base Hok. unfold to_int_core, strtoll_full. rewrite Hok. cbn [negb].
  rewrite skip_ws_spaces, split_sign_of.
  destruct (sign_of (skip_spaces s)) as [neg s2].
  assert (Hb : (base = 0 \/ 2 <= base <= 36)%Z) by (unfold base_ok in Hok; lia).
  (* shape of s2 *)
  assert (Hpre : has_hex_prefix s2 = true -> starts_0x s2 = true).
  { destruct s2 as [|c [|x [|h r]]]; cbn; try discriminate. unfold is_x. intros H.
    destruct (c =? 48); [|discriminate]. destruct ((x =? 120) || (x =? 88)); [reflexivity|discriminate]. }
  assert (Hnopre : starts_0x s2 = true -> has_hex_prefix s2 = false ->
                   (forall b, b = 8 \/ b = 16 -> convert neg b s2 = None) /\ finish neg 16 (skipn 2 s2) = RUndef).
  { destruct s2 as [|c [|x t]]; cbn [starts_0x]; try discriminate. intros H1 H2.
    assert (Hc : c =? 48 = true) by (destruct (c =? 48); [reflexivity|discriminate]).
    assert (Hx : is_x x = true) by (unfold is_x; destruct (c =? 48); [exact H1|discriminate]).
    split.
    - intros b Hb8. now apply convert_0x_stops.
    - cbn [skipn]. apply finish_no_hex. destruct t as [|h r]; [exact I|].
      cbn [has_hex_prefix] in H2. rewrite Hc, Hx in H2. exact H2. }
  destruct (base =? 0)%Z eqn:E0.
  - assert (base = 0%Z) as -> by lia. cbn [orb andb].
    destruct (has_hex_prefix s2) eqn:Ep.
    + rewrite (Hpre eq_refl). apply (finish_convert neg 16). lia.
    + destruct (starts_0x s2) eqn:Ex.
      * destruct (Hnopre eq_refl eq_refl) as [Hc Hf]. rewrite Hf.
        assert (leading_zero s2 = true) as ->.
        { destruct s2 as [|c [|x t]]; cbn in Ex |- *; try discriminate. destruct (c =? 48); [reflexivity|discriminate]. }
        rewrite Hc by (now left). reflexivity.
      * assert (Hz : starts_0 s2 = leading_zero s2) by reflexivity. rewrite Hz.
        destruct (leading_zero s2); [apply (finish_convert neg 8)|apply (finish_convert neg 10)]; lia.
  - cbn [orb andb].
    destruct (base =? 16)%Z eqn:E16.
    + assert (base = 16%Z) as -> by lia.
      destruct (has_hex_prefix s2) eqn:Ep.
      * rewrite (Hpre eq_refl). apply (finish_convert neg 16). lia.
      * destruct (starts_0x s2) eqn:Ex.
        -- destruct (Hnopre eq_refl eq_refl) as [Hc Hf]. rewrite Hf.
           change (Z.to_N 16) with 16. rewrite Hc by (now right). reflexivity.
        -- apply (finish_convert neg 16). lia.
    + apply finish_convert. lia.
Qed.

Lemma base_arg_ok : forall i,
  base_arg [AInt i] = if base_ok i then Some i else None.
Proof.
  intros i. unfold base_arg, base_ok.
  destruct ((0 <=? i)%Z && (i <? 4294967296)%Z) eqn:E1;
    destruct ((i =? 0)%Z || ((2 <=? i)%Z && (i <=? 36)%Z)) eqn:E2; try reflexivity; lia.
Qed.

(* C16_to_int *)
Lemma to_int_spec1 : forall s, to_int_call [AStr s] = of_opt_z (strtoll_full s 0).
Proof. intros s. unfold to_int_call, to_int_gen. cbn [base_arg]. now apply to_int_core_spec. Qed.

Lemma to_int_spec2 : forall s b, to_int_call [AStr s; AInt b] = of_opt_z (strtoll_full s b).
Proof.
  intros s b. unfold to_int_call, to_int_gen. rewrite base_arg_ok.
  destruct (base_ok b) eqn:E.
  - now apply to_int_core_spec.
  - unfold strtoll_full. rewrite E. reflexivity.
Qed.

(* the pinned parser: DESIGN 9.14 *)
Lemma to_int_pinned_refuted :
  to_int_pinned [AStr [48;120;49;48]; AInt 16] <> of_opt_z (strtoll_full [48;120;49;48] 16)
  /\ to_int_pinned [AStr [11;49;50]] <> of_opt_z (strtoll_full [11;49;50] 0).
Proof. split; vm_compute; discriminate. Qed.
