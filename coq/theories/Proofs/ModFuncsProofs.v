(* Proofs/ModFuncsProofs.v — C16: argument decoding, ranges over direct and fragmented memory, streaming digests,
   the hash cache. *)
From Coq Require Import QArith.
From Boreal Require Import Base.Prelude Spec.MathSpec Spec.Digest Spec.Strtol Spec.RangeSpec
  Model.ModFuncs Model.HashMod Model.MathMod Model.StringMod Model.ModFuncsCase.
Open Scope N_scope.

Definition i64max : Z := 9223372036854775807.

(* ------------------------------------------------------------------ arguments *)
(* i64 arguments never overflow usize: the checked_add of get_args / offset_length_to_start_end cannot fail *)
Lemma start_end_total : forall o n,
  (0 <= o <= i64max)%Z -> (0 <= n <= i64max)%Z ->
  start_end o n = Some (Z.to_N o, Z.to_N o + Z.to_N n).
Proof.
  intros o n Ho Hn. unfold i64max in *. unfold start_end, to_usize, checked_add, umax.
  destruct (o <? 0)%Z eqn:E1; [lia|]. destruct (n <? 0)%Z eqn:E2; [lia|].
  destruct (Z.to_N o + Z.to_N n <=? 18446744073709551615) eqn:E3; [reflexivity|lia].
Qed.

Lemma start_end_neg : forall o n, (o < 0)%Z \/ (n < 0)%Z -> start_end o n = None.
Proof.
  intros o n H. unfold start_end, to_usize.
  destruct (o <? 0)%Z eqn:E1; [reflexivity|]. destruct (n <? 0)%Z eqn:E2; [reflexivity|lia].
Qed.

(* ------------------------------------------------------------------ lists *)
Lemma nlen_length : forall {A} (l : list A), N.to_nat (nlen l) = length l.
Proof. intros. unfold nlen. lia. Qed.

Lemma firstn_same_min : forall {A} (x : list A) k1 k2,
  Nat.min k1 (length x) = Nat.min k2 (length x) -> firstn k1 x = firstn k2 x.
Proof.
  intros A x; induction x as [|a x IH]; intros k1 k2 H.
  - now rewrite !firstn_nil.
  - destruct k1, k2; cbn [firstn length] in *; try reflexivity; try lia.
    f_equal. apply IH. lia.
Qed.

Lemma nlen_app : forall {A} (a b : list A), nlen (a ++ b) = nlen a + nlen b.
Proof. intros. unfold nlen. rewrite app_length. lia. Qed.

Lemma nlen_skipn : forall {A} k (l : list A), nlen (skipn k l) = nlen l - N.of_nat k.
Proof. intros. unfold nlen. rewrite skipn_length. lia. Qed.

Lemma nlen_firstn : forall {A} k (l : list A), nlen (firstn k l) = N.min (N.of_nat k) (nlen l).
Proof. intros. unfold nlen. rewrite firstn_length. lia. Qed.

(* ------------------------------------------------------------------ direct memory: the clipped range *)
Lemma on_range_direct : forall S (cb : S -> list N -> S) fixed l start end_ s,
  start <= end_ ->
  on_range_gen cb fixed (Direct l) start end_ s =
    if nlen l <=? start then OrNone
    else OrOk (cb s (firstn (N.to_nat (N.min (end_ - start) (nlen l))) (skipn (N.to_nat start) l))).
Proof.
  intros S cb fixed l start end_ s Hle. unfold on_range_gen.
  destruct (end_ <? start) eqn:E; [lia|].
  destruct (nlen l <=? start) eqn:E2; [reflexivity|].
  unfold slice.
  destruct ((start <=? N.min (nlen l) end_) && (N.min (nlen l) end_ <=? nlen l)) eqn:E3; [|lia].
  do 2 f_equal. apply firstn_same_min. rewrite skipn_length. unfold nlen in *. lia.
Qed.

Lemma from_mem_direct : forall d fixed l o n,
  (o <= i64max)%Z -> (n <= i64max)%Z ->
  match start_end o n with
  | Some (s, e) => from_mem_gen fixed d (Direct l) s e
  | None => RUndef
  end
  = match clip_direct l o n with Some bytes => from_bytes d bytes | None => RUndef end.
Proof.
  intros d fixed l o n Ho Hn. unfold clip_direct.
  destruct (o <? 0)%Z eqn:E1; [rewrite start_end_neg by lia; reflexivity|].
  destruct (n <? 0)%Z eqn:E2; [rewrite start_end_neg by lia; reflexivity|].
  rewrite start_end_total by (unfold i64max in *; lia).
  unfold from_mem_gen. rewrite on_range_direct by lia.
  cbn [orb].
  destruct (Z.of_N (nlen l) <=? o)%Z eqn:E3.
  - destruct (nlen l <=? Z.to_N o) eqn:E4; [reflexivity|lia].
  - destruct (nlen l <=? Z.to_N o) eqn:E4; [lia|].
    unfold from_bytes. do 3 f_equal.
    + f_equal. lia.
    + f_equal. lia.
Qed.

(* C16_hash_range *)
Lemma hash_range : forall d mem o n,
  (o <= i64max)%Z -> (n <= i64max)%Z ->
  hash_call d (Direct mem) [AInt o; AInt n] =
    if (o <? 0)%Z || (n <? 0)%Z || (Z.of_N (nlen mem) <=? o)%Z then RUndef
    else from_bytes d (firstn (N.to_nat (N.min (Z.to_N n) (nlen mem))) (skipn (Z.to_nat o) mem)).
Proof.
  intros d mem o n Ho Hn. unfold hash_call, get_args.
  pose proof (from_mem_direct d true mem o n Ho Hn) as H. unfold clip_direct in H.
  destruct ((o <? 0)%Z || (n <? 0)%Z || (Z.of_N (nlen mem) <=? o)%Z);
    destruct (start_end o n) as [[s e]|]; exact H.
Qed.

(* C16_hash_literal_same: a range call equals the call on the literal made of the clipped bytes *)
Lemma hash_literal_same : forall d mem m' o n bytes,
  (o <= i64max)%Z -> (n <= i64max)%Z ->
  clip_direct mem o n = Some bytes ->
  hash_call d (Direct mem) [AInt o; AInt n] = hash_call d m' [AStr bytes].
Proof.
  intros d mem m' o n bytes Ho Hn Hc. rewrite hash_range by assumption.
  unfold clip_direct in Hc.
  destruct ((o <? 0)%Z || (n <? 0)%Z || (Z.of_N (nlen mem) <=? o)%Z); [discriminate|].
  injection Hc as <-. reflexivity.
Qed.

(* the five instances are streaming digests *)
Definition streaming (d : digest) : Prop :=
  forall st a b, d_update d (d_update d st a) b = d_update d st (a ++ b).

Lemma bytes_digest_streaming : forall f, streaming (bytes_digest f).
Proof. intros f st a b. cbn. now rewrite app_assoc. Qed.
Lemma checksum_streaming : streaming checksum_d.
Proof. intros st a b. cbn. now rewrite fold_left_app. Qed.
Lemma crc_streaming : streaming crc_d.
Proof. intros st a b. cbn. now rewrite fold_left_app. Qed.

(* ------------------------------------------------------------------ checksum32 *)
Lemma checksum_fold : forall l acc,
  fold_left (fun a b => (a + b) mod 4294967296) l acc mod 4294967296 = (acc + sum_bytes l) mod 4294967296.
Proof.
  unfold sum_bytes. induction l as [|b l IH]; intros acc; cbn [fold_left fold_right].
  - f_equal. lia.
  - rewrite IH. rewrite N.add_mod_idemp_l by lia. f_equal. lia.
Qed.

Lemma checksum_fold_lt : forall l acc, acc < 4294967296 ->
  fold_left (fun a b => (a + b) mod 4294967296) l acc < 4294967296.
Proof.
  induction l as [|b l IH]; intros acc H; cbn [fold_left]; [assumption|].
  apply IH. apply N.mod_lt. lia.
Qed.

Lemma checksum32_correct : forall l, from_bytes checksum_d l = RInt (Z.of_N (checksum32_ref l)).
Proof.
  intros l. unfold from_bytes, checksum32_ref. cbn. do 2 f_equal.
  pose proof (checksum_fold l 0) as H. rewrite N.add_0_l in H. rewrite <- H.
  symmetry. apply N.mod_small. apply checksum_fold_lt. lia.
Qed.

(* ------------------------------------------------------------------ cache *)
Fixpoint run_cached (d : digest) (m : memory) (c : cmap) (calls : list (list arg)) : list mres :=
  match calls with
  | [] => []
  | a :: r => let (c', v) := hash_call_cached d m c a in v :: run_cached d m c' r
  end.

Definition cache_ok (d : digest) (m : memory) (c : cmap) : Prop :=
  forall k v, In (k, v) c -> v = from_mem d m (fst k) (snd k).

Lemma cget_in : forall k c v, cget k c = Some v -> exists k', In (k', v) c /\ fst k' = fst k /\ snd k' = snd k.
Proof.
  intros k c v H. unfold cget in H.
  destruct (find _ c) as [[k' v']|] eqn:F; [|discriminate].
  injection H as <-. apply find_some in F as [Hin Hk]. cbn in Hk.
  exists k'. repeat split; [assumption| |]; lia.
Qed.

Lemma cached_step : forall d m c args,
  cache_ok d m c ->
  let (c', v) := hash_call_cached d m c args in cache_ok d m c' /\ v = hash_call d m args.
Proof.
  intros d m c args Hc. unfold hash_call_cached, hash_call.
  destruct (get_args args) as [[s|o e]|]; try (split; [assumption|reflexivity]).
  destruct (cget (o, e) c) as [v|] eqn:G.
  - split; [assumption|]. apply cget_in in G as (k' & Hin & H1 & H2). apply Hc in Hin.
    cbn in H1, H2. now rewrite H1, H2 in Hin.
  - destruct (is_value (from_mem d m o e)); (split; [|reflexivity]); [|assumption].
    intros k v [E|Hin]; [|now apply Hc]. now injection E as <- <-.
Qed.

Lemma run_cached_inv : forall d m calls c, cache_ok d m c -> run_cached d m c calls = map (hash_call d m) calls.
Proof.
  intros d m calls; induction calls as [|a r IH]; intros c Hc; [reflexivity|].
  cbn [run_cached map]. pose proof (cached_step d m c a Hc) as H.
  destruct (hash_call_cached d m c a) as [c' v]. destruct H as [Hc' ->]. f_equal. now apply IH.
Qed.

(* C16_cache_consistent *)
Lemma cache_consistent : forall d m calls, run_cached d m [] calls = map (hash_call d m) calls.
Proof. intros. apply run_cached_inv. intros k v []. Qed.
