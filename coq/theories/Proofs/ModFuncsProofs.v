(* Proofs/ModFuncsProofs.v — lemmas for C16 (argument decoding, ranges, streaming, cache). *)
From Coq Require Import QArith.
From Boreal Require Import Base.Prelude Spec.MathSpec Spec.Digest Spec.Strtol Spec.RangeSpec
  Model.ModFuncs Model.HashMod Model.MathMod Model.StringMod Model.ModFuncsCase.
Open Scope N_scope.

(* i64 arguments never overflow usize: the checked_add of get_args / offset_length_to_start_end cannot fail *)
Lemma start_end_total : forall o n,
  (0 <= o <= 9223372036854775807)%Z -> (0 <= n <= 9223372036854775807)%Z ->
  start_end o n = Some (Z.to_N o, Z.to_N o + Z.to_N n).
Proof.
  intros o n Ho Hn. unfold start_end, to_usize, checked_add, umax.
  destruct (o <? 0)%Z eqn:E1; [lia|]. destruct (n <? 0)%Z eqn:E2; [lia|].
  destruct (Z.to_N o + Z.to_N n <=? 18446744073709551615) eqn:E3; [reflexivity|lia].
Qed.
