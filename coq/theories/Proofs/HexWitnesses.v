(* Proofs/HexWitnesses.v — concrete witnesses: the known findings are real (`_refuted`), the
   decompositions of the pinned tree that were repaired were wrong (`_pinned_refuted`), and the
   hypotheses of the theorems are satisfiable (`_example`).  All by evaluation on closed terms. *)
From Boreal Require Import Base.Prelude Spec.Regex Model.Hir Model.Widen Model.Validator Model.Raw Model.HirScan
  Model.Decomp Model.HexCase Proofs.RegexBasics Proofs.HexScanProofs Proofs.ValidatorProofs Proofs.DecompProofs Proofs.HexProofs.

Definition md_hex : mods :=
  {| m_fullword := false; m_wide := false; m_ascii := true; m_nocase := false; m_dot_all := true |}.

(* ---- 9.5: { 61 ( ?? ?? ?? ?? ?? | 62 ) 62 62 } on "axxabbbb" *)
Definition h_95 : hir :=
  HConcat [HLit 97; HGroup (HAlt [HConcat [HDot; HDot; HDot; HDot; HDot]; HConcat [HLit 98]]); HLit 98; HLit 98].
Definition d_95 : sdesc :=
  {| s_lits := [[98;98]]; s_atoms := [(0, 0)]; s_kind := KNonGreedy; s_mods := md_hex;
     s_hir := h_95; s_pre := Some h_95; s_post := None |}.
Definition m_95 : list N := [97;120;120;97;98;98;98;98].

(* offset 0 starts a member, the scan does not report it, the input is in the recorded class, and
   without the start_position mechanism the same model reports it *)
Lemma start_position_refuted :
  In 0 (starts_spec (flags_of md_hex) m_95 h_95)
  /\ ~ In 0 (map fst (model_scan d_95 m_95 1000))
  /\ kf_start_position d_95 m_95 1000 = true
  /\ In 0 (map fst (ac_scan false d_95 m_95 1000)).
Proof.
  repeat split.
  - vm_compute. left. reflexivity.
  - vm_compute. intros [H|[]]. discriminate.
  - vm_compute. left. reflexivity.
Qed.

(* ---- alt glue: { ?? ( AA BB DD | DD [2] CC ) [1-2] 62 } on 00 AA BB DD 01 62 *)
Definition alt_g : hir :=
  HGroup (HAlt [HConcat [HLit 170; HLit 187; HLit 221]; HConcat [HLit 221; HRep HDot (Bounded 2 2) false; HLit 204]]).
Definition h_glue : hir := HConcat [HDot; alt_g; HRep HDot (Bounded 1 2) false; HLit 98].
Definition d_glue : sdesc :=
  {| s_lits := [[170;187;221]; [221]]; s_atoms := [(0, 0); (0, 0)]; s_kind := KNonGreedy; s_mods := md_hex;
     s_hir := h_glue;
     s_pre := Some (HConcat [HDot; HGroup (HAlt [HConcat [HLit 170; HLit 187; HLit 221]; HConcat [HLit 221]])]);
     s_post := Some (HConcat [alt_g; HRep HDot (Bounded 1 2) false; HLit 98]) |}.
Definition m_glue : list N := [0;170;187;221;1;98].

(* (2, 4) is reported and is not a member; the glue property fails for this decomposition *)
Lemma alt_glue_refuted :
  In (2, 4) (model_scan d_glue m_glue 1000)
  /\ ~ In 4 (Lens (flags_of md_hex) m_glue h_glue 2)
  /\ kf_alt_glue d_glue h_glue m_glue = true
  /\ ~ DecompGlue md_hex m_glue h_glue (s_lits d_glue) (s_pre d_glue) (s_post d_glue).
Proof.
  split; [vm_compute; right; left; reflexivity|].
  split; [vm_compute; intros []|].
  split; [vm_compute; reflexivity|].
  intros HG.
  assert (Hm : M md_hex m_glue h_glue 2 6).
  { apply (HG [170;187;221] 1 2 6).
    - left. reflexivity.
    - split; vm_compute; [reflexivity|discriminate].
    - vm_compute. left. reflexivity.
    - vm_compute. left. reflexivity. }
  vm_compute in Hm. destruct Hm.
Qed.

(* ---- fullword, single length: /a\w*?/ fullword on " ab " *)
Definition h_fw : hir := HConcat [HLit 97; HRep (HClass (ClsPerl PWord false)) ZeroOrMore false].
Definition md_fw : mods :=
  {| m_fullword := true; m_wide := false; m_ascii := true; m_nocase := false; m_dot_all := false |}.
Definition d_fw : sdesc :=
  {| s_lits := [[97]]; s_atoms := [(0, 0)]; s_kind := KNonGreedy; s_mods := md_fw;
     s_hir := h_fw; s_pre := None; s_post := Some h_fw |}.
Definition m_fw : list N := [32;97;98;32].

(* "ab" at offset 1 is a delimited member; nothing is reported *)
Lemma fullword_single_length_refuted :
  members_at md_fw h_fw m_fw 1 = ([2], [])
  /\ model_scan d_fw m_fw 1000 = []
  /\ kf_fullword_other_length md_fw h_fw m_fw = true.
Proof. vm_compute. repeat split. Qed.

(* ---- pinned tree: { ( 41 [1-3] CC | 55 34 BC ) 63 ?? 31 }, the forward validator was the whole pattern *)
Definition alt_p : hir :=
  HGroup (HAlt [HConcat [HLit 65; HRep HDot (Bounded 1 3) false; HLit 204]; HConcat [HLit 85; HLit 52; HLit 188]]).
Definition h_pin : hir := HConcat [alt_p; HLit 99; HDot; HLit 49].
Definition d_pin (post : hir) : sdesc :=
  {| s_lits := [[204;99]; [85;52;188;99]]; s_atoms := [(0, 0); (0, 0)]; s_kind := KNonGreedy; s_mods := md_hex;
     s_hir := h_pin; s_pre := Some (HConcat [alt_p; HLit 99]); s_post := Some post |}.
Definition m_pin : list N := [65;69;0;204;99;0;49].

Lemma alt_first_post_pinned_refuted :
  In 0 (starts_spec (flags_of md_hex) m_pin h_pin)
  /\ model_scan (d_pin h_pin) m_pin 1000 = []
  /\ model_scan (d_pin (HConcat [HGroup (HAlt [HConcat [HLit 204]; HConcat [HLit 85; HLit 52; HLit 188]]); HLit 99; HDot; HLit 49]))
                m_pin 1000 = [(0, 7)].
Proof.
  split; [vm_compute; left; reflexivity|]. vm_compute. split; reflexivity.
Qed.

(* ---- pinned tree: /[^a-b]/i, literals from the bitmap compared ignoring case, no validator *)
Definition h_nc : hir := HClass (ClsBracket [CRange 97 98] true).
Definition md_nc : mods :=
  {| m_fullword := false; m_wide := false; m_ascii := true; m_nocase := true; m_dot_all := false |}.
Definition lits_nc : list (list N) := map (fun b => [b]) (filter (fun b => negb (in_range 97 98 b)) (iota 0 256)).
Definition d_nc (post : option hir) : sdesc :=
  {| s_lits := lits_nc; s_atoms := map (fun _ => (0, 0)) lits_nc; s_kind := KNonGreedy; s_mods := md_nc;
     s_hir := h_nc; s_pre := None; s_post := post |}.

Lemma nocase_negated_class_pinned_refuted :
  ends (flags_of md_nc) [97;98;99] h_nc 0 = []
  /\ model_scan (d_nc None) [97;98;99] 1000 = [(0, 1); (1, 1); (2, 1)]
  /\ model_scan (d_nc (Some h_nc)) [97;98;99] 1000 = [(2, 1)].
Proof. vm_compute. repeat split. Qed.

(* ---- the hypotheses of flat_hex_exact are satisfiable: { AA [1-3] BB CC DD ?? EE } *)
Definition A_ex : list hir := [HLit 170; HRep HDot (Bounded 1 3) false].
Definition R_ex : list hir := [HLit 187; HLit 204; HLit 221].
Definition B_ex : list hir := [HDot; HLit 238].
Definition m_ex : list N := [170;0;187;204;221;1;238;170;0;0;187;204;221;2;238].

Lemma flat_example_hyps :
  let d := flat_desc md_hex A_ex R_ex B_ex [(0, 0)] KNonGreedy in
  plain md_hex /\ m_nocase md_hex = false /\ forallb is_leaf R_ex = true /\ R_ex <> []
  /\ atoms_ok d /\ bytes_ok m_ex /\ nlen m_ex <= MAX_SPLIT_MATCH_LENGTH /\ nlen m_ex < 1000
  /\ kf_start_position d m_ex 1000 = false
  /\ model_scan d m_ex 1000 = [(0, 7); (7, 8)].
Proof.
  cbv zeta. split; [split; reflexivity|]. split; [reflexivity|]. split; [reflexivity|].
  split; [discriminate|]. split.
  { split; [reflexivity|]. vm_compute. constructor; [discriminate|constructor]. }
  split; [unfold bytes_ok, m_ex; repeat (constructor; [reflexivity|]); constructor|].
  split; [vm_compute; discriminate|]. split; [vm_compute; reflexivity|].
  vm_compute. split; reflexivity.
Qed.

(* ---- 9.5 on a regex: /a(.....)??bb/ on "axxabbbb" *)
Definition h_95r : hir :=
  HConcat [HLit 97; HRep (HGroup (HConcat [HDot; HDot; HDot; HDot; HDot])) ZeroOrOne false; HLit 98; HLit 98].
Definition md_re : mods :=
  {| m_fullword := false; m_wide := false; m_ascii := true; m_nocase := false; m_dot_all := false |}.
Definition d_95r : sdesc :=
  {| s_lits := [[98;98]]; s_atoms := [(0, 0)]; s_kind := KNonGreedy; s_mods := md_re;
     s_hir := h_95r; s_pre := Some h_95r; s_post := None |}.

Lemma start_position_regex_refuted :
  In 0 (starts_spec (flags_of md_re) m_95 h_95r)
  /\ ~ In 0 (map fst (model_scan d_95r m_95 1000))
  /\ kf_start_position d_95r m_95 1000 = true.
Proof.
  repeat split.
  - vm_compute. left. reflexivity.
  - vm_compute. intros [H|[]]. discriminate.
Qed.

(* ---- the raw path: /^ab+$/ is scanned raw; hypotheses of raw_scan_exact are satisfiable *)
Definition h_raw : hir := HConcat [HLit 97; HRep (HLit 98) OneOrMore true; HLit 99].
Lemma raw_example_hyps :
  plain md_re /\ ends (flags_of md_re) [120;97;98;98;99;97;98;99] h_raw 8 = []
  /\ raw_scan md_re h_raw [120;97;98;98;99;97;98;99] 1000 = [(1, 4); (5, 3)].
Proof. split; [split; reflexivity|]. vm_compute. split; reflexivity. Qed.

(* ---- a greedy regex: /x.+ab/ has kind Greedy (pre contains a greedy repetition); soundness needs no Decomp *)
Definition h_gr : hir := HConcat [HLit 120; HRep HDot OneOrMore true; HLit 97; HLit 98].
Definition d_gr : sdesc :=
  {| s_lits := [[97;98]]; s_atoms := [(0, 0)]; s_kind := KGreedy; s_mods := md_re;
     s_hir := h_gr; s_pre := Some h_gr; s_post := None |}.
Lemma greedy_example_hyps :
  plain md_re /\ atoms_ok d_gr /\ kind_ok d_gr
  /\ model_scan d_gr [120;49;97;98;50;97;98;120;97;98] 1000 = [(0, 10)].
Proof.
  split; [split; reflexivity|]. split.
  { split; [reflexivity|]. vm_compute. constructor; [discriminate|constructor]. }
  split; [right; right; split; [reflexivity|eexists; reflexivity]|]. vm_compute. reflexivity.
Qed.

(* ---- pinned tree: /[^\x00-\xff]ab/ was compiled to the literal "ab" *)
Definition h_ec : hir := HConcat [HClass (ClsBracket [CRange 0 255] true); HLit 97; HLit 98].
Definition d_ec : sdesc :=
  {| s_lits := [[97;98]]; s_atoms := [(0, 0)]; s_kind := KLiterals; s_mods := md_re;
     s_hir := h_ec; s_pre := None; s_post := None |}.
Lemma empty_class_pinned_refuted :
  starts_spec (flags_of md_re) [97;98] h_ec = [] /\ model_scan d_ec [97;98] 1000 = [(0, 2)].
Proof. vm_compute. split; reflexivity. Qed.

(* ---- wide boundary, reverse context: /\Bb{0,2}a/s wide on b\0b\0a\0 *)
Definition h_wrc : hir := HConcat [HAssert NonWordBoundary; HRep (HLit 98) (Bounded 0 2) true; HLit 97].
Definition md_wrc : mods :=
  {| m_fullword := false; m_wide := true; m_ascii := false; m_nocase := false; m_dot_all := true |}.
Definition d_wrc : sdesc :=
  {| s_lits := [[97;0]]; s_atoms := [(0, 0)]; s_kind := KGreedy; s_mods := md_wrc;
     s_hir := h_wrc; s_pre := Some h_wrc; s_post := None |}.
Definition m_wrc : list N := [98;0;98;0;97;0].

(* offset 4 starts a member under the wide reading (\B between b and a); only offset 2 is reported *)
Lemma wide_rev_context_refuted :
  members_at md_wrc h_wrc m_wrc 4 = ([], [2])
  /\ model_scan d_wrc m_wrc 1000 = [(2, 4)]
  /\ kf_wide_rev_context d_wrc m_wrc = true.
Proof. vm_compute. repeat split. Qed.

(* ---- length by arrival: { ( cbaabbad | cbaabb | cbaa ) } on "cbaabbad" *)
Definition w_len : list N := [99;98;97;97;98;98;97;100].
Definition h_len : hir :=
  HConcat [HGroup (HAlt [HConcat (map HLit w_len); HConcat (map HLit (firstn 6 w_len)); HConcat (map HLit (firstn 4 w_len))])].
Definition d_len : sdesc :=
  {| s_lits := [w_len; firstn 6 w_len; firstn 4 w_len]; s_atoms := [(4, 0); (0, 2); (0, 0)]; s_kind := KLiterals;
     s_mods := md_hex; s_hir := h_len; s_pre := None; s_post := None |}.

(* member lengths at 0 are 8 (leftmost-first, longest), 6, 4 (shortest); 6 is reported *)
Lemma length_by_arrival_refuted :
  Lens (flags_of md_hex) w_len h_len 0 = [8; 6; 4]
  /\ model_scan d_len w_len 1000 = [(0, 6)]
  /\ len_choice_ok [8; 6; 4] 6 = false
  /\ kf_len_arrival d_len (Lens (flags_of md_hex) w_len h_len) w_len = true.
Proof. vm_compute. repeat split. Qed.
