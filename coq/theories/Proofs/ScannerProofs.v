(* Proofs/ScannerProofs.v — the two-phase scan procedure (global rules first, delayed reporting,
   namespace disabling, fix-up) computes the declarative rule-set semantics of Spec/RuleSetSpec.v.
   Stage 1: the monadic model, list API, uninterrupted, equals pure folds.
   Stage 2: the pure folds equal the specification. *)
From Boreal Require Import Base.Prelude Base.Res Model.Eval Spec.CondSem Model.EvalCost Model.Scanner
     Spec.RuleSetSpec Proofs.SemProofs.

Definition upd (s : sstate) (p : list erule) (k : N) : sstate := {| pend := p; evs := evs s; nchecks := k |}.

Lemma upd_id s : upd s (pend s) (nchecks s) = s.
Proof. destruct s; reflexivity. Qed.

Lemma tick_never n s : exists k, tick Never n s = (upd s (pend s) k, inl tt).
Proof.
  unfold tick. destruct (n =? 0).
  - exists (nchecks s). rewrite upd_id. reflexivity.
  - exists (nchecks s + n). reflexivity.
Qed.

Definition mk_er (r : rule) (v : bool) : erule := {| er_id := r_id r; er_ns := r_ns r; er_matched := v |}.

Definition reported_of (c : cfg) (r : rule) (v : bool) : list erule :=
  if negb (r_private r) && (v || c_nm c) then [mk_er r v] else [].

Definition rule_q (inp : inputs) (ms : list (list smatch)) (prev : list bool) (r : rule) : senv :=
  qM (firstn (r_nvars r) ms) prev (i_ext inp) (i_filesize inp) (i_mem inp).

Definition wf_rule (inp : inputs) (ms : list (list smatch)) (nprev : nat) (r : rule) : bool :=
  wf_expr (i_ext inp) (length (firstn (r_nvars r) ms)) nprev (r_cond r).

Definition pure_verdict (inp : inputs) (dis : list bool) (ms : list (list smatch)) (prev : list bool) (r : rule) : bool :=
  if nth (r_ns r) dis false then false else sem_rule (rule_q inp ms prev r) (r_cond r).

Definition adv (x : ectx) (ms : list (list smatch)) (r : rule) : ectx :=
  {| x_matches := Some (skipn (r_nvars r) ms); x_prev := x_prev x; x_disabled := x_disabled x |}.

Lemma eval_rule_inner_list c inp x ms r cb :
  c_cb c = false -> x_matches x = Some ms -> wf_rule inp ms (length (x_prev x)) r = true ->
  forall s, exists k,
    eval_rule_inner c Never inp x r cb s
    = (upd s (pend s ++ reported_of c r (pure_verdict inp (x_disabled x) ms (x_prev x) r)) k,
       inl (adv x ms r, RBool (pure_verdict inp (x_disabled x) ms (x_prev x) r))).
Proof.
  intros Hcb Hm Hw s. unfold eval_rule_inner, pure_verdict, reported_of, ns_disabled. rewrite Hm, Hcb. cbn [andb].
  fold (adv x ms r).
  destruct (nth (r_ns r) (x_disabled x) false).
  - (* namespace disabled: not evaluated *)
    cbn [orb]. destruct (r_private r); cbn [negb andb].
    + exists (nchecks s). unfold ret. rewrite app_nil_r, upd_id. reflexivity.
    + destruct (c_nm c).
      * exists (nchecks s). unfold bindM, push, ret. reflexivity.
      * exists (nchecks s). unfold ret. rewrite app_nil_r, upd_id. reflexivity.
  - unfold bindM.
    set (en := {| e_matches := Some (firstn (r_nvars r) ms); e_prev := x_prev x; e_ext := i_ext inp;
                  e_filesize := i_filesize inp; e_mem := i_mem inp |}).
    destruct (tick_never (cost_rule en (r_cond r)) s) as [k Hk]. rewrite Hk.
    change en with (envM (firstn (r_nvars r) ms) (x_prev x) (i_ext inp) (i_filesize inp) (i_mem inp)).
    rewrite (rule_verdict_sem _ _ _ _ _ _ Hw). fold (rule_q inp ms (x_prev x) r).
    set (v := sem_rule (rule_q inp ms (x_prev x) r) (r_cond r)).
    destruct (r_private r); cbn [negb andb].
    + exists k. unfold ret. cbn [pend upd]. rewrite app_nil_r. reflexivity.
    + destruct (v || c_nm c).
      * exists k. unfold push, ret. reflexivity.
      * exists k. unfold ret. cbn [pend upd]. rewrite app_nil_r. reflexivity.
Qed.

(* ------------------------------------------------------------------ pure folds *)
Fixpoint g_fold (c : cfg) (inp : inputs) (dis : list bool) (ms : list (list smatch)) (gs : list rule)
  : list bool * list (list smatch) * list erule :=
  match gs with
  | [] => (dis, ms, [])
  | g :: rest =>
      let v := pure_verdict inp dis ms [] g in
      let dis' := if v then dis else set_nth dis (r_ns g) true in
      let '(d, m, reps) := g_fold c inp dis' (skipn (r_nvars g) ms) rest in
      (d, m, reported_of c g v ++ reps)
  end.

Fixpoint wf_globals (inp : inputs) (ms : list (list smatch)) (gs : list rule) : bool :=
  match gs with
  | [] => true
  | g :: rest => wf_rule inp ms 0 g && wf_globals inp (skipn (r_nvars g) ms) rest
  end.

Lemma eval_globals_list c inp gs :
  c_cb c = false ->
  forall dis ms u s, wf_globals inp ms gs = true ->
  exists k,
    eval_globals c Never inp {| x_matches := Some ms; x_prev := []; x_disabled := dis |} gs u s
    = (upd s (pend s ++ snd (g_fold c inp dis ms gs)) k,
       inl ({| x_matches := Some (snd (fst (g_fold c inp dis ms gs))); x_prev := [];
               x_disabled := fst (fst (g_fold c inp dis ms gs)) |}, u)).
Proof.
  intros Hcb. induction gs as [|g gs IH]; intros dis ms u s Hw; cbn [eval_globals g_fold wf_globals] in *.
  - exists (nchecks s). unfold ret. cbn [fst snd]. rewrite app_nil_r, upd_id. reflexivity.
  - apply andb_true_iff in Hw as [Hw1 Hw2].
    unfold bindM at 1.
    destruct (eval_rule_inner_list c inp {| x_matches := Some ms; x_prev := []; x_disabled := dis |} ms g false
                Hcb eq_refl Hw1 s) as [k1 E1].
    rewrite E1. unfold adv. cbn [x_disabled x_prev x_matches].
    set (v := pure_verdict inp dis ms [] g).
    destruct (g_fold c inp (if v then dis else set_nth dis (r_ns g) true) (skipn (r_nvars g) ms) gs)
      as [[d m] reps] eqn:Eg.
    cbn [fst snd].
    destruct v.
    + destruct (IH dis (skipn (r_nvars g) ms) u (upd s (pend s ++ reported_of c g true) k1) Hw2) as [k2 E2].
      rewrite E2. rewrite Eg. cbn [fst snd pend upd evs]. exists k2. rewrite <- app_assoc. reflexivity.
    + destruct (IH (set_nth dis (r_ns g) true) (skipn (r_nvars g) ms) u
                  (upd s (pend s ++ reported_of c g false) k1) Hw2) as [k2 E2].
      rewrite E2. rewrite Eg. cbn [fst snd pend upd evs]. exists k2. rewrite <- app_assoc. reflexivity.
Qed.

Fixpoint r_fold (c : cfg) (inp : inputs) (dis : list bool) (ms : list (list smatch)) (prev : list bool)
         (rs : list rule) : list erule :=
  match rs with
  | [] => []
  | r :: rest =>
      let v := pure_verdict inp dis ms prev r in
      reported_of c r v ++ r_fold c inp dis (skipn (r_nvars r) ms) (prev ++ [v]) rest
  end.

Fixpoint wf_rules (inp : inputs) (ms : list (list smatch)) (nprev : nat) (rs : list rule) : bool :=
  match rs with
  | [] => true
  | r :: rest => wf_rule inp ms nprev r && wf_rules inp (skipn (r_nvars r) ms) (S nprev) rest
  end.

Lemma eval_rules_list c inp rs cb :
  c_cb c = false ->
  forall dis ms prev s, wf_rules inp ms (length prev) rs = true ->
  exists k,
    eval_rules c Never inp {| x_matches := Some ms; x_prev := prev; x_disabled := dis |} rs cb s
    = (upd s (pend s ++ r_fold c inp dis ms prev rs) k, inl true).
Proof.
  intros Hcb. induction rs as [|r rs IH]; intros dis ms prev s Hw; cbn [eval_rules r_fold wf_rules] in *.
  - exists (nchecks s). unfold ret. rewrite app_nil_r, upd_id. reflexivity.
  - apply andb_true_iff in Hw as [Hw1 Hw2].
    unfold bindM at 1.
    destruct (eval_rule_inner_list c inp {| x_matches := Some ms; x_prev := prev; x_disabled := dis |} ms r cb
                Hcb eq_refl Hw1 s) as [k1 E1].
    rewrite E1. unfold adv. cbn [x_disabled x_prev x_matches].
    set (v := pure_verdict inp dis ms prev r).
    assert (Hlen : length (prev ++ [v]) = S (length prev)) by (rewrite app_length; cbn; lia).
    rewrite <- Hlen in Hw2.
    destruct (IH dis (skipn (r_nvars r) ms) (prev ++ [v]) (upd s (pend s ++ reported_of c r v) k1) Hw2) as [k2 E2].
    rewrite E2. cbn [pend upd evs]. exists k2. rewrite <- app_assoc. reflexivity.
Qed.

(* ------------------------------------------------------------------ the whole scan, list API *)
Definition flip_er (r : erule) (v : bool) : erule := {| er_id := er_id r; er_ns := er_ns r; er_matched := v |}.

Definition fix_list (c : cfg) (D : list bool) (l : list erule) : list erule :=
  if c_nm c then map (fun r => if nth (er_ns r) D false then flip_er r false else r) l
  else filter (fun r => negb (nth (er_ns r) D false)) l.

Definition scan_result (c : cfg) (inp : inputs) (sc : scanner) : list erule :=
  let '(D, m, greps) := g_fold c inp (repeat false (s_nns sc)) (i_matches inp) (s_globals sc) in
  if negb (c_nm c) && forallb (fun b => b) D then []
  else fix_list c D greps ++ r_fold c inp D m [] (s_rules sc).

Definition wf_scanner (inp : inputs) (sc : scanner) : bool :=
  wf_globals inp (i_matches inp) (s_globals sc)
  && wf_rules inp (snd (fst (g_fold {| c_full := true; c_nm := false; c_cb := false; c_ev_match := true;
                                       c_ev_nomatch := false; c_ev_import := false; c_ev_limit := false; c_direct := true; c_frag_noscan := false |}
                                    inp (repeat false (s_nns sc)) (i_matches inp) (s_globals sc))))
              0 (s_rules sc).

(* the remaining matches after the global rules do not depend on the configuration *)
Lemma g_fold_ms c c' inp gs : forall dis dis' ms,
  snd (fst (g_fold c inp dis ms gs)) = snd (fst (g_fold c' inp dis' ms gs)).
Proof.
  induction gs as [|g gs IH]; intros dis dis' ms; cbn [g_fold]; [reflexivity|].
  set (d1 := if pure_verdict inp dis ms [] g then dis else set_nth dis (r_ns g) true).
  set (d2 := if pure_verdict inp dis' ms [] g then dis' else set_nth dis' (r_ns g) true).
  specialize (IH d1 d2 (skipn (r_nvars g) ms)).
  destruct (g_fold c inp d1 (skipn (r_nvars g) ms) gs) as [[a b] r1].
  destruct (g_fold c' inp d2 (skipn (r_nvars g) ms) gs) as [[a' b'] r2].
  cbn [fst snd] in *. exact IH.
Qed.

Lemma fixup_list c D s :
  fixup c {| x_matches := None; x_prev := []; x_disabled := D |} s = (upd s (fix_list c D (pend s)) (nchecks s), inl tt).
Proof.
  unfold fixup, bindM, get_pend, set_pend, fix_list, ns_disabled. cbn [x_disabled].
  destruct (c_nm c); reflexivity.
Qed.

Lemma fixup_list' c x s :
  fixup c x s = (upd s (fix_list c (x_disabled x) (pend s)) (nchecks s), inl tt).
Proof.
  unfold fixup, bindM, get_pend, set_pend, fix_list, ns_disabled.
  destruct (c_nm c); reflexivity.
Qed.

Lemma ac_phase_list c hits : c_cb c = false ->
  forall s, exists k, ac_phase c Never hits s = (upd s (pend s) k, inl tt).
Proof.
  intros Hcb. induction hits as [|lim hits IH]; intros s; cbn [ac_phase].
  - exists (nchecks s). unfold ret. rewrite upd_id. reflexivity.
  - unfold bindM. destruct (tick_never 1 s) as [k1 E1]. rewrite E1. rewrite Hcb. cbn [andb]. unfold ret.
    destruct (IH (upd s (pend s) k1)) as [k2 E2]. rewrite E2. exists k2. reflexivity.
Qed.

Lemma send_imports_list c inp : c_cb c = false -> forall s, send_imports c Never inp s = (s, inl tt).
Proof. intros Hcb s. unfold send_imports. rewrite Hcb. reflexivity. Qed.

Lemma full_scan_list c inp sc :
  c_cb c = false -> wf_scanner inp sc = true ->
  forall s, pend s = [] ->
  exists k, full_scan c Never inp sc s = (upd s (scan_result c inp sc) k, inl tt).
Proof.
  intros Hcb Hw s Hp. unfold wf_scanner in Hw. apply andb_true_iff in Hw as [Hwg Hwr].
  unfold full_scan, scan_result.
  unfold bindM at 1. destruct (ac_phase_list c (i_ac inp) Hcb s) as [k0 E0]. rewrite E0.
  unfold bindM at 1.
  replace ((if c_direct c then ret tt else send_imports c Never inp) (upd s (pend s) k0))
    with (upd s (pend s) k0, @inl unit err tt)
    by (destruct (c_direct c); [reflexivity|rewrite send_imports_list by exact Hcb; reflexivity]).
  unfold bindM at 1. unfold ctx0.
  destruct (eval_globals_list c inp (s_globals sc) Hcb (repeat false (s_nns sc)) (i_matches inp) false
              (upd s (pend s) k0) Hwg) as [k1 E1].
  rewrite E1. clear E1.
  rewrite (g_fold_ms _ c inp (s_globals sc) _ (repeat false (s_nns sc)) (i_matches inp)) in Hwr.
  destruct (g_fold c inp (repeat false (s_nns sc)) (i_matches inp) (s_globals sc)) as [[D m] greps].
  cbn [fst snd pend upd evs] in *. rewrite Hp. cbn [app].
  unfold bindM at 1. rewrite fixup_list'. cbn [x_disabled pend upd evs nchecks].
  unfold all_disabled. cbn [x_disabled].
  destruct (negb (c_nm c) && forallb (fun b : bool => b) D).
  - unfold clear_pend. exists k1. reflexivity.
  - unfold bindM at 1. unfold flush. rewrite Hcb. unfold ret at 1.
    unfold bindM at 1.
    match goal with |- context [eval_rules c Never inp ?x (s_rules sc) true ?st] =>
      destruct (eval_rules_list c inp (s_rules sc) true Hcb D m [] st Hwr) as [k2 E2]; rewrite E2
    end.
    unfold ret. cbn [pend upd evs]. exists k2. reflexivity.
Qed.

(* ------------------------------------------------------------------ stage 2: folds = specification *)
Lemma set_nth_length l n v : length (set_nth l n v) = length l.
Proof. revert n; induction l as [|b l IH]; intros [|n]; cbn [set_nth length]; try reflexivity. rewrite IH; reflexivity. Qed.

Lemma nth_set_nth_eq l n v : (n < length l)%nat -> nth n (set_nth l n v) false = v.
Proof.
  revert n; induction l as [|b l IH]; intros [|n] H; cbn [set_nth nth length] in *; try lia; [reflexivity|].
  apply IH. lia.
Qed.

Lemma nth_set_nth_neq l n m v : n <> m -> nth m (set_nth l n v) false = nth m l false.
Proof.
  revert n m; induction l as [|b l IH]; intros [|n] [|m] H; cbn [set_nth nth]; try reflexivity; try congruence.
  apply IH. congruence.
Qed.

Definition ns_bound (n : nat) (rs : list rule) : Prop := Forall (fun r => (r_ns r < n)%nat) rs.

Definition own_g (inp : inputs) (ms : list (list smatch)) (g : rule) : bool :=
  sem_rule (rule_q inp ms [] g) (r_cond g).

Lemma gowns_cons inp ms g gs :
  gowns inp ms (g :: gs) = own_g inp ms g :: gowns inp (skipn (r_nvars g) ms) gs.
Proof. reflexivity. Qed.

(* L1: a namespace is disabled at the end of the global phase iff it was at the start or one of its
   global rules does not hold *)
Lemma g_fold_disabled c inp gs : forall dis ms,
  ns_bound (length dis) gs ->
  forall ns, nth ns (fst (fst (g_fold c inp dis ms gs))) false
             = nth ns dis false || negb (ns_ok gs (gowns inp ms gs) ns).
Proof.
  induction gs as [|g gs IH]; intros dis ms Hb ns.
  - cbn. rewrite orb_false_r. reflexivity.
  - inversion Hb as [|? ? Hg Hrest]; subst.
    cbn [g_fold]. rewrite gowns_cons. unfold ns_ok. cbn [combine forallb fst snd].
    fold (ns_ok gs (gowns inp (skipn (r_nvars g) ms) gs) ns).
    set (v := pure_verdict inp dis ms [] g).
    set (dis' := if v then dis else set_nth dis (r_ns g) true).
    assert (Hlen : length dis' = length dis) by (subst dis'; destruct v; [reflexivity|apply set_nth_length]).
    specialize (IH dis' (skipn (r_nvars g) ms) ltac:(rewrite Hlen; exact Hrest) ns).
    destruct (g_fold c inp dis' (skipn (r_nvars g) ms) gs) as [[D m] reps]. cbn [fst snd] in *.
    rewrite IH. subst dis' v. unfold pure_verdict. fold (own_g inp ms g).
    destruct (nth (r_ns g) dis false) eqn:Ed.
    + (* already disabled: v = false, set_nth keeps the flag *)
      destruct (Nat.eqb_spec (r_ns g) ns) as [E|Hne].
      * rewrite <- E. rewrite nth_set_nth_eq by assumption. rewrite Ed. reflexivity.
      * rewrite nth_set_nth_neq by assumption. cbn [negb orb andb]. reflexivity.
    + destruct (own_g inp ms g) eqn:Eo.
      * cbn [negb orb andb]. rewrite orb_true_r. cbn [andb]. reflexivity.
      * destruct (Nat.eqb_spec (r_ns g) ns) as [E|Hne].
        -- rewrite <- E. rewrite nth_set_nth_eq by assumption. cbn [negb orb andb]. rewrite orb_true_r. reflexivity.
        -- rewrite nth_set_nth_neq by assumption. cbn [negb orb andb]. reflexivity.
Qed.

(* L2: the flags only grow *)
Lemma g_fold_mono c inp gs : forall dis ms ns,
  nth ns dis false = true -> ns_bound (length dis) gs ->
  nth ns (fst (fst (g_fold c inp dis ms gs))) false = true.
Proof.
  intros dis ms ns H Hb. rewrite (g_fold_disabled c inp gs dis ms Hb ns). rewrite H. reflexivity.
Qed.

Definition entry (c : cfg) (D : list bool) (g : rule) : list erule :=
  let okg := negb (nth (r_ns g) D false) in
  if negb (r_private g) && (okg || c_nm c) then [mk_er g okg] else [].

Lemma fix_list_app c D a b : fix_list c D (a ++ b) = fix_list c D a ++ fix_list c D b.
Proof. unfold fix_list. destruct (c_nm c); [apply map_app|apply filter_app]. Qed.

Lemma g_fold_fixed c inp gs : forall dis ms,
  ns_bound (length dis) gs ->
  fix_list c (fst (fst (g_fold c inp dis ms gs))) (snd (g_fold c inp dis ms gs))
  = flat_map (entry c (fst (fst (g_fold c inp dis ms gs)))) gs.
Proof.
  induction gs as [|g gs IH]; intros dis ms Hb.
  - cbn. unfold fix_list. destruct (c_nm c); reflexivity.
  - inversion Hb as [|? ? Hg Hrest]; subst.
    cbn [g_fold flat_map].
    set (v := pure_verdict inp dis ms [] g).
    set (dis' := if v then dis else set_nth dis (r_ns g) true).
    assert (Hlen : length dis' = length dis) by (subst dis'; destruct v; [reflexivity|apply set_nth_length]).
    assert (Hb' : ns_bound (length dis') gs) by (rewrite Hlen; exact Hrest).
    specialize (IH dis' (skipn (r_nvars g) ms) Hb').
    (* when the rule did not hold, its namespace is disabled at the end *)
    assert (Hv : v = false -> nth (r_ns g) (fst (fst (g_fold c inp dis' (skipn (r_nvars g) ms) gs))) false = true).
    { intros Ev. apply g_fold_mono; [|exact Hb']. subst dis'. rewrite Ev. apply nth_set_nth_eq. exact Hg. }
    (* when its namespace is already disabled, the rule does not hold *)
    destruct (g_fold c inp dis' (skipn (r_nvars g) ms) gs) as [[D m] reps]. cbn [fst snd] in *.
    rewrite fix_list_app, IH. f_equal.
    unfold reported_of, entry, fix_list, mk_er.
    destruct (r_private g); cbn [negb andb]; [destruct (c_nm c); reflexivity|].
    destruct v.
    + (* v = true *)
      cbn [orb]. destruct (c_nm c); cbn [map filter er_ns].
      * destruct (nth (r_ns g) D false); cbn [negb orb]; reflexivity.
      * destruct (nth (r_ns g) D false); cbn [negb orb]; reflexivity.
    + rewrite (Hv eq_refl). cbn [negb orb]. destruct (c_nm c); cbn [map filter er_ns]; [|reflexivity].
      rewrite (Hv eq_refl). reflexivity.
Qed.

(* L3: ordinary rules *)
Definition okD (D : list bool) (ns : nat) : bool := negb (nth ns D false).

Lemma r_fold_spec c inp D rs : forall ms prev,
  r_fold c inp D ms prev rs
  = flat_map (fun rb => reported_of c (fst rb) (snd rb)) (combine rs (rverdicts inp (okD D) ms prev rs)).
Proof.
  induction rs as [|r rs IH]; intros ms prev; cbn [r_fold rverdicts combine flat_map fst snd]; [reflexivity|].
  assert (E : pure_verdict inp D ms prev r
              = okD D (r_ns r) && sem_rule {| q_matches := firstn (r_nvars r) ms; q_prev := prev; q_ext := i_ext inp;
                                               q_filesize := i_filesize inp; q_mem := i_mem inp |} (r_cond r)).
  { unfold pure_verdict, okD, rule_q, qM. destruct (nth (r_ns r) D false); reflexivity. }
  rewrite E. rewrite IH. reflexivity.
Qed.

Lemma map_filter_flat_map {A B} (f : A -> B) (p : A -> bool) l :
  map f (filter p l) = flat_map (fun x => if p x then [f x] else []) l.
Proof.
  induction l as [|x l IH]; cbn [filter map flat_map]; [reflexivity|].
  destruct (p x); cbn [map app]; rewrite IH; reflexivity.
Qed.

Lemma gowns_length inp gs : forall ms, length (gowns inp ms gs) = length gs.
Proof. induction gs as [|g gs IH]; intros ms; cbn [gowns length]; [reflexivity|]. rewrite IH; reflexivity. Qed.

Lemma ns_ok_own gs gown g own :
  In (g, own) (combine gs gown) -> ns_ok gs gown (r_ns g) = true -> own = true.
Proof.
  intros Hin Hok. unfold ns_ok in Hok. rewrite forallb_forall in Hok. specialize (Hok (g, own) Hin).
  cbn [fst snd] in Hok. rewrite Nat.eqb_refl in Hok. exact Hok.
Qed.

Lemma globals_spec_entries c (ok : nat -> bool) gs : forall gown,
  length gown = length gs ->
  (forall g own, In (g, own) (combine gs gown) -> ok (r_ns g) = true -> own = true) ->
  flat_map (fun rb : rule * bool => reported_of c (fst rb) (snd rb))
           (combine gs (map (fun gb : rule * bool => snd gb && ok (r_ns (fst gb))) (combine gs gown)))
  = flat_map (fun g => if negb (r_private g) && (ok (r_ns g) || c_nm c) then [mk_er g (ok (r_ns g))] else []) gs.
Proof.
  induction gs as [|g gs IH]; intros gown Hl Hown; [reflexivity|].
  destruct gown as [|own gown]; [discriminate|]. cbn [combine map flat_map fst snd].
  rewrite IH.
  - f_equal. unfold reported_of.
    assert (E : own && ok (r_ns g) = ok (r_ns g)).
    { destruct (ok (r_ns g)) eqn:Eok; [|apply andb_false_r].
      rewrite (Hown g own (or_introl eq_refl) Eok). reflexivity. }
    rewrite E. reflexivity.
  - cbn [length] in Hl. lia.
  - intros g' own' Hin. apply Hown. right. exact Hin.
Qed.

Lemma spec_reported_decomp c inp sc :
  let D := fst (fst (g_fold c inp (repeat false (s_nns sc)) (i_matches inp) (s_globals sc))) in
  ns_bound (s_nns sc) (s_globals sc) ->
  spec_reported sc inp (c_nm c)
  = flat_map (entry c D) (s_globals sc)
    ++ flat_map (fun rb => reported_of c (fst rb) (snd rb))
         (combine (s_rules sc)
            (rverdicts inp (okD D) (skipn (nvars_of (s_globals sc)) (i_matches inp)) [] (s_rules sc))).
Proof.
  intros D Hb. unfold spec_reported, spec_verdicts.
  set (gown := gowns inp (i_matches inp) (s_globals sc)).
  assert (Hok : forall ns, ns_ok (s_globals sc) gown ns = okD D ns).
  { intros ns. unfold okD. subst D.
    rewrite (g_fold_disabled c inp (s_globals sc) (repeat false (s_nns sc)) (i_matches inp)
               ltac:(rewrite repeat_length; exact Hb) ns).
    replace (nth ns (repeat false (s_nns sc)) false) with false.
    - cbn [orb]. rewrite negb_involutive. reflexivity.
    - symmetry. clear. revert ns. induction (s_nns sc) as [|n IH]; intros [|ns]; cbn; try reflexivity. apply IH. }
  rewrite map_filter_flat_map. rewrite flat_map_app. f_equal.
  - transitivity (flat_map (fun rb : rule * bool => reported_of c (fst rb) (snd rb))
                   (combine (s_globals sc)
                      (map (fun gb : rule * bool => snd gb && ns_ok (s_globals sc) gown (r_ns (fst gb)))
                           (combine (s_globals sc) gown)))).
    { apply flat_map_ext. intros [r b]. reflexivity. }
    rewrite (globals_spec_entries c (ns_ok (s_globals sc) gown) (s_globals sc) gown).
    + apply flat_map_ext. intros g. unfold entry. rewrite Hok. reflexivity.
    + apply gowns_length.
    + intros g own Hin. apply ns_ok_own. exact Hin.
  - transitivity (flat_map (fun rb : rule * bool => reported_of c (fst rb) (snd rb))
                   (combine (s_rules sc)
                      (rverdicts inp (ns_ok (s_globals sc) gown)
                         (skipn (nvars_of (s_globals sc)) (i_matches inp)) [] (s_rules sc)))).
    { apply flat_map_ext. intros [r b]. reflexivity. }
    f_equal. f_equal.
    (* rverdicts only uses ok pointwise *)
    generalize (skipn (nvars_of (s_globals sc)) (i_matches inp)) (@nil bool).
    induction (s_rules sc) as [|r rs IH]; intros ms prev; cbn [rverdicts]; [reflexivity|].
    rewrite Hok. f_equal. apply IH.
Qed.

Lemma skipn_add {A} (a b : nat) (l : list A) : skipn b (skipn a l) = skipn (a + b) l.
Proof.
  revert l; induction a as [|a IH]; intros l; cbn [skipn Nat.add]; [reflexivity|].
  destruct l as [|x l]; [rewrite skipn_nil; reflexivity|]. apply IH.
Qed.

Lemma app_nil_both {A} (a b : list A) : a = [] -> b = [] -> a ++ b = [].
Proof. intros -> ->. reflexivity. Qed.

Lemma g_fold_ms_skipn c inp gs : forall dis ms,
  snd (fst (g_fold c inp dis ms gs)) = skipn (nvars_of gs) ms.
Proof.
  induction gs as [|g gs IH]; intros dis ms; cbn [g_fold nvars_of fold_right]; [reflexivity|].
  set (dis' := if pure_verdict inp dis ms [] g then dis else set_nth dis (r_ns g) true).
  specialize (IH dis' (skipn (r_nvars g) ms)).
  destruct (g_fold c inp dis' (skipn (r_nvars g) ms) gs) as [[D m] reps]. cbn [fst snd] in *.
  rewrite IH. fold (nvars_of gs). rewrite skipn_add. reflexivity.
Qed.

Lemma forallb_id_nth D ns : forallb (fun b : bool => b) D = true -> (ns < length D)%nat -> nth ns D false = true.
Proof.
  revert ns; induction D as [|b D IH]; intros [|ns] H Hl; cbn [forallb nth length] in *; try lia.
  - apply andb_true_iff in H as [H _]. exact H.
  - apply andb_true_iff in H as [_ H]. apply IH; [exact H|lia].
Qed.

Lemma g_fold_length c inp gs : forall dis ms, length (fst (fst (g_fold c inp dis ms gs))) = length dis.
Proof.
  induction gs as [|g gs IH]; intros dis ms; cbn [g_fold]; [reflexivity|].
  set (dis' := if pure_verdict inp dis ms [] g then dis else set_nth dis (r_ns g) true).
  assert (Hlen : length dis' = length dis)
    by (subst dis'; destruct (pure_verdict inp dis ms [] g); [reflexivity|apply set_nth_length]).
  specialize (IH dis' (skipn (r_nvars g) ms)).
  destruct (g_fold c inp dis' (skipn (r_nvars g) ms) gs) as [[D m] reps]. cbn [fst snd] in *. lia.
Qed.

Theorem scan_result_spec c inp sc :
  ns_bound (s_nns sc) (s_globals sc) -> ns_bound (s_nns sc) (s_rules sc) ->
  scan_result c inp sc = spec_reported sc inp (c_nm c).
Proof.
  intros Hbg Hbr. rewrite (spec_reported_decomp c inp sc Hbg). unfold scan_result.
  pose proof (g_fold_fixed c inp (s_globals sc) (repeat false (s_nns sc)) (i_matches inp)
                ltac:(rewrite repeat_length; exact Hbg)) as Hfix.
  pose proof (g_fold_ms_skipn c inp (s_globals sc) (repeat false (s_nns sc)) (i_matches inp)) as Hms.
  pose proof (g_fold_length c inp (s_globals sc) (repeat false (s_nns sc)) (i_matches inp)) as Hlen.
  rewrite repeat_length in Hlen.
  destruct (g_fold c inp (repeat false (s_nns sc)) (i_matches inp) (s_globals sc)) as [[D m] greps].
  cbn [fst snd] in *. subst m.
  destruct (negb (c_nm c) && forallb (fun b : bool => b) D) eqn:Eall.
  - (* every namespace is disabled and only matched rules are wanted: nothing is reported *)
    apply andb_true_iff in Eall as [Enm Eall]. apply negb_true_iff in Enm.
    symmetry. apply app_nil_both.
    + (* globals *)
      clear Hfix. induction (s_globals sc) as [|g gs IH]; [reflexivity|].
      inversion Hbg as [|? ? Hg Hrest]; subst. cbn [flat_map]. rewrite IH by assumption.
      unfold entry. rewrite (forallb_id_nth D (r_ns g) Eall ltac:(lia)). rewrite Enm.
      cbn [negb orb]. rewrite andb_false_r. reflexivity.
    + generalize (skipn (nvars_of (s_globals sc)) (i_matches inp)) (@nil bool).
      induction (s_rules sc) as [|r rs IH]; intros ms prev; [reflexivity|].
      inversion Hbr as [|? ? Hr Hrest]; subst. cbn [rverdicts combine flat_map fst snd].
      rewrite IH by assumption. unfold okD at 1. rewrite (forallb_id_nth D (r_ns r) Eall ltac:(lia)).
      cbn [negb andb]. unfold reported_of. rewrite Enm. cbn [orb]. rewrite andb_false_r. reflexivity.
  - rewrite Hfix, r_fold_spec. reflexivity.
Qed.

(* ------------------------------------------------------------------ the list API computes the specification *)
Lemma do_scan_list_full c inp sc :
  c_cb c = false -> can_noscan c = false -> wf_scanner inp sc = true ->
  forall s, pend s = [] -> exists k, do_scan c Never inp sc s = (upd s (scan_result c inp sc) k, inl tt).
Proof.
  intros Hcb Hns Hw s Hp. unfold do_scan. rewrite Hns. unfold bindM.
  replace ((if c_direct c then send_imports c Never inp else ret tt) s) with (s, @inl unit err tt)
    by (destruct (c_direct c); [rewrite send_imports_list by exact Hcb; reflexivity|reflexivity]).
  apply full_scan_list; assumption.
Qed.

Theorem run_scan_list_spec c inp sc :
  c_cb c = false -> can_noscan c = false ->
  wf_scanner inp sc = true -> ns_bound (s_nns sc) (s_globals sc) -> ns_bound (s_nns sc) (s_rules sc) ->
  o_err (run_scan c Never inp sc) = None
  /\ o_rules (run_scan c Never inp sc) = spec_reported sc inp (c_nm c)
  /\ o_events (run_scan c Never inp sc) = [].
Proof.
  intros Hcb Hns Hw Hbg Hbr. unfold run_scan.
  destruct (do_scan_list_full c inp sc Hcb Hns Hw {| pend := []; evs := []; nchecks := 0 |} eq_refl) as [k E].
  rewrite E. cbn [o_err o_rules o_events upd pend evs]. rewrite Hcb.
  repeat split. apply scan_result_spec; assumption.
Qed.

(* the recorded finding: a global rule that refers to an ordinary rule makes the scan panic *)
Definition kf_scanner : scanner :=
  {| s_globals := [{| r_ns := 0; r_id := 1; r_global := true; r_private := false; r_nvars := 0; r_cond := ERule 0 |}];
     s_rules := [{| r_ns := 0; r_id := 0; r_global := false; r_private := false; r_nvars := 0; r_cond := EBool true |}];
     s_nns := 1 |}.
Definition kf_inputs : inputs :=
  {| i_matches := []; i_ext := []; i_filesize := Some 2; i_mem := Some [97; 98]; i_ac := []; i_imports := [] |}.
Definition cfg_full : cfg :=
  {| c_full := true; c_nm := false; c_cb := false; c_ev_match := true; c_ev_nomatch := false; c_ev_import := false; c_ev_limit := false; c_direct := true;
     c_frag_noscan := false |}.

Lemma global_refs_ordinary_refuted :
  kf_global_refs_ordinary kf_scanner = true
  /\ o_err (run_scan cfg_full Never kf_inputs kf_scanner) = Some EPanic
  /\ wf_scanner kf_inputs kf_scanner = false.
Proof. vm_compute. repeat split. Qed.
