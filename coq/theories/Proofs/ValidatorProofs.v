(* Proofs/ValidatorProofs.v — the Atomized path (Model/Validator.v + Model/HirScan.v) is sound and
   complete for ANY decomposition (literals, pre, post) that satisfies `Decomp`, for all inputs.
   Stated for the plain reading of a string (ascii, not wide, no fullword), which is all a hex string
   can have; `nocase` and `dot_all` are arbitrary. *)
From Boreal Require Import Base.Prelude Spec.Regex Model.Widen Model.Validator Model.SimpleValidator Model.Raw Model.HirScan
  Proofs.RegexBasics Proofs.RegexStruct Proofs.SimpleProofs Proofs.HexScanProofs.
From Coq Require Import Sorted.

Definition plain (md : mods) : Prop := m_wide md = false /\ m_fullword md = false.

(* membership: mem[a..b) is a match of h in its context *)
Definition M (md : mods) (mem : list N) (h : hir) (a b : N) : Prop := In b (ends (flags_of md) mem h a).

(* the literal l occurs at s *)
Definition occurs (md : mods) (mem : list N) (l : list N) (s : N) : Prop :=
  lit_at (m_nocase md) l (skipn (N.to_nat s) mem) = true /\ s + nlen l <= nlen mem.

Definition pre_ok (md : mods) (mem : list N) (pre : option hir) (a s e : N) : Prop :=
  match pre with Some p => M md mem p a e | None => a = s end.
Definition post_ok (md : mods) (mem : list N) (post : option hir) (s e b : N) : Prop :=
  match post with Some p => M md mem p s b | None => b = e end.

(* DESIGN §7 C02 `Decomp`, on one haystack.  `pre` covers a match up to the end of the literal, `post`
   from the start of the literal.
   glue:  a pre-match and a post-match around one literal occurrence make a match;
   split: every match contains a literal occurrence with a pre-match before and a post-match after,
          both within the validation window. *)
Definition DecompGlue (md : mods) (mem : list N) (h : hir) (lits : list (list N)) (pre post : option hir) : Prop :=
  forall l s a b, In l lits -> occurs md mem l s ->
    pre_ok md mem pre a s (s + nlen l) -> post_ok md mem post s (s + nlen l) b -> M md mem h a b.

Definition DecompSplit (md : mods) (mem : list N) (h : hir) (lits : list (list N)) (pre post : option hir) : Prop :=
  forall a b, M md mem h a b ->
    exists l s, In l lits /\ occurs md mem l s /\
      pre_ok md mem pre a s (s + nlen l) /\ post_ok md mem post s (s + nlen l) b /\
      a <= s /\ s + nlen l - a <= MAX_SPLIT_MATCH_LENGTH /\ b - s <= MAX_SPLIT_MATCH_LENGTH /\ b <= nlen mem.

(* atom offsets lie inside their literal (always true of pick_atom_in_literal) *)
Definition atoms_ok (d : sdesc) : Prop :=
  length (s_atoms d) = length (s_lits d) /\
  Forall2 (fun l a => fst a + snd a <= nlen l) (s_lits d) (s_atoms d).

(* ------------------------------------------------------------------ plain modifiers *)
Lemma plain_confirm md nl idx lit mem s mt :
  plain md -> confirm_ac_literal md nl idx lit mem s = Some mt ->
  mt = MAscii /\ lit_at (m_nocase md) lit (skipn (N.to_nat s) mem) = true.
Proof.
  intros [Hw _]. unfold confirm_ac_literal. rewrite Hw.
  destruct (lit_at _ _ _); [|discriminate].
  destruct (m_ascii md); intros [= <-]; auto.
Qed.

Lemma plain_fullword md mem s e mt : plain md -> validate_fullword md mem s e mt = true.
Proof. intros [_ Hf]. unfold validate_fullword. rewrite Hf. reflexivity. Qed.

Lemma plain_dfa_fwd md h mem s lim : plain md ->
  dfa_fwd md h MAscii mem s lim = lf_end (flags_of md) mem h s lim.
Proof. intros [Hw _]. unfold dfa_fwd, use_custom. rewrite Hw. reflexivity. Qed.

Lemma plain_dfa_rev md h mem lo e : plain md ->
  dfa_rev md h MAscii mem lo e = if lo <=? e then rev_min_start (flags_of md) mem h lo e else None.
Proof. intros [Hw _]. unfold dfa_rev, use_custom. rewrite Hw. reflexivity. Qed.

(* the simple walker, when chosen, answers what the DFA would (Proofs/SimpleProofs.v) *)
Lemma half_fwd_eq md h mem start lim : plain md -> lim <= nlen mem ->
  half_fwd md h MAscii mem start lim = dfa_fwd md h MAscii mem start lim.
Proof.
  intros Hp Hl. unfold half_fwd. destruct (simple_new md h false) as [sv|] eqn:E; [|reflexivity].
  rewrite plain_dfa_fwd by exact Hp. destruct (start <=? lim) eqn:E1.
  - apply simple_fwd_correct; [exact E|lia].
  - unfold lf_end. destruct (filter _ _) as [|j r] eqn:Ef; [reflexivity|].
    assert (Hj : In j (filter (fun j => j <=? lim) (ends (flags_of md) mem h start))) by (rewrite Ef; left; reflexivity).
    apply filter_In in Hj as [Hj1 Hj2]. apply ends_ge in Hj1. lia.
Qed.

Lemma half_rev_eq md h mem lo e : plain md -> e <= nlen mem ->
  half_rev md h MAscii mem lo e = dfa_rev md h MAscii mem lo e.
Proof.
  intros Hp Hl. unfold half_rev. destruct (simple_new md h true) as [sv|] eqn:E; [|reflexivity].
  rewrite plain_dfa_rev by exact Hp. destruct (lo <=? e) eqn:E1; [|reflexivity].
  apply simple_rev_correct; [exact E|lia].
Qed.

(* ------------------------------------------------------------------ the two searches *)
Lemma lf_end_In fl mem h i lim e : lf_end fl mem h i lim = Some e -> In e (ends fl mem h i) /\ e <= lim.
Proof.
  unfold lf_end. intros H. apply hd_error_In in H. apply filter_In in H as [H1 H2]. split; [exact H1|lia].
Qed.

Lemma lf_end_some fl mem h i lim b : In b (ends fl mem h i) -> b <= lim -> exists e, lf_end fl mem h i lim = Some e.
Proof.
  unfold lf_end. intros H1 H2.
  destruct (filter _ _) as [|e r] eqn:E.
  - assert (Hin : In b (filter (fun j => j <=? lim) (ends fl mem h i))).
    { apply filter_In. split; [exact H1|lia]. }
    rewrite E in Hin. destruct Hin.
  - exists e. reflexivity.
Qed.

Lemma rev_min_start_spec fl mem h lo e s :
  rev_min_start fl mem h lo e = Some s ->
  lo <= s <= e /\ In e (ends fl mem h s) /\ (forall x, lo <= x < s -> ~ In e (ends fl mem h x)).
Proof.
  unfold rev_min_start. intros H. apply find_iota_Some in H as (H1 & H2 & H3).
  split; [lia|]. split; [apply mem_N_In; exact H2|].
  intros x Hx Hin. apply mem_N_In in Hin. rewrite H3 in Hin by exact Hx. discriminate.
Qed.

Lemma rev_min_start_none fl mem h lo e :
  rev_min_start fl mem h lo e = None -> forall x, lo <= x <= e -> ~ In e (ends fl mem h x).
Proof.
  unfold rev_min_start. intros H x Hx Hin. apply mem_N_In in Hin.
  eapply find_iota_None in H; [rewrite H in Hin; discriminate|lia].
Qed.

(* ------------------------------------------------------------------ rev_loop *)
Lemma rev_loop_sound fuel rv endf start mend s e :
  In (s, e) (rev_loop fuel rv endf start mend) -> exists st, rv st mend = Some s /\ endf s = Some e.
Proof.
  revert start. induction fuel as [|f IH]; intros start; cbn [rev_loop]; [intros []|].
  destruct (rv start mend) as [s0|] eqn:E; [|intros []].
  intros H. apply in_app_or in H as [H|H].
  - destruct (endf s0) as [e0|] eqn:E2; [|destruct H]. destruct H as [[= <- <-]|[]].
    exists start. auto.
  - destruct (mend <? s0 + 1); [destruct H|]. eapply IH; eauto.
Qed.

(* rv returns the least start >= lo satisfying Q *)
Definition least_start (Q : N -> Prop) (rv : N -> N -> option N) (mend : N) : Prop :=
  forall lo, (forall s, rv lo mend = Some s -> lo <= s <= mend /\ Q s /\ forall x, lo <= x < s -> ~ Q x)
             /\ (rv lo mend = None -> forall x, lo <= x <= mend -> ~ Q x).

Lemma rev_loop_complete Q rv endf mend a e fuel start :
  least_start Q rv mend -> start <= a <= mend -> Q a -> endf a = Some e ->
  (N.to_nat (mend - start) < fuel)%nat ->
  In (a, e) (rev_loop fuel rv endf start mend).
Proof.
  intros HL. revert start. induction fuel as [|f IH]; intros start Ha Qa He Hf; [lia|].
  cbn [rev_loop]. destruct (HL start) as [H1 H2].
  destruct (rv start mend) as [s|] eqn:E.
  - destruct (H1 s eq_refl) as (Hs & Qs & Hmin).
    apply in_or_app.
    destruct (N.eq_dec s a) as [->|Hne].
    + left. rewrite He. left. reflexivity.
    + right. assert (s < a).
      { destruct (N.lt_trichotomy s a) as [L|[L|L]]; [exact L|congruence|]. exfalso. apply (Hmin a); [lia|exact Qa]. }
      replace (mend <? s + 1) with false by lia.
      apply IH; try assumption; lia.
  - exfalso. apply (H2 eq_refl a); [lia|exact Qa].
Qed.

(* ------------------------------------------------------------------ hits *)
Lemma ins_li_In x l y : In y (ins_li x l) <-> y = x \/ In y l.
Proof.
  induction l as [|z r IH]; cbn [ins_li In]; [intuition|].
  destruct (li_alen z <=? li_alen x); cbn [In]; [intuition|]. rewrite IH. intuition.
Qed.

Lemma sort_lis_In l y : In y (sort_lis l) <-> In y l.
Proof.
  unfold sort_lis. induction l as [|z r IH]; cbn [fold_right In]; [tauto|].
  rewrite ins_li_In, IH. intuition.
Qed.

Lemma mk_litinfos_In idx lits atoms li :
  In li (mk_litinfos idx lits atoms) ->
  exists k, nth_error lits k = Some (li_lit li) /\ nth_error atoms k = Some (li_so li, li_eo li)
            /\ li_idx li = idx + N.of_nat k.
Proof.
  revert idx atoms. induction lits as [|l lr IH]; intros idx [|[so eo] ar]; cbn [mk_litinfos]; try (intros []; fail).
  intros [<-|H].
  - exists 0%nat. cbn. repeat split; lia.
  - apply IH in H as (k & H1 & H2 & H3). exists (S k). cbn [nth_error]. repeat split; try assumption. lia.
Qed.

Lemma mk_litinfos_nth idx lits atoms k l so eo :
  nth_error lits k = Some l -> nth_error atoms k = Some (so, eo) ->
  In {| li_idx := idx + N.of_nat k; li_lit := l; li_so := so; li_eo := eo |} (mk_litinfos idx lits atoms).
Proof.
  revert idx atoms k. induction lits as [|l0 lr IH]; intros idx atoms [|k]; cbn [nth_error]; try discriminate.
  - intros [= ->]. destruct atoms as [|[so0 eo0] ar]; cbn [nth_error]; [discriminate|]. intros [= -> ->].
    cbn [mk_litinfos]. left. f_equal. lia.
  - intros H1. destruct atoms as [|[so0 eo0] ar]; cbn [nth_error]; [discriminate|]. intros H2.
    cbn [mk_litinfos]. right. replace (idx + N.of_nat (S k)) with (idx + 1 + N.of_nat k) by lia.
    apply IH; assumption.
Qed.

Lemma atoms_ok_nth d k l so eo :
  atoms_ok d -> nth_error (s_lits d) k = Some l -> nth_error (s_atoms d) k = Some (so, eo) -> so + eo <= nlen l.
Proof.
  intros [_ HF]. revert k. induction HF as [|l0 a0 lr ar H0 HF IH]; intros [|k]; cbn [nth_error]; try discriminate.
  - intros [= ->] [= ->]. exact H0.
  - apply IH.
Qed.

Lemma atoms_ok_nth_some d k l :
  atoms_ok d -> nth_error (s_lits d) k = Some l -> exists so eo, nth_error (s_atoms d) k = Some (so, eo).
Proof.
  intros [HL _] H. destruct (nth_error (s_atoms d) k) as [[so eo]|] eqn:E; [eauto|].
  apply nth_error_None in E. assert (k < length (s_lits d))%nat by (apply nth_error_Some; congruence). lia.
Qed.

(* every hit is a confirmed occurrence of one of the literals, spanning exactly the literal *)
Lemma hits_sound d mem idx s e mt :
  plain (s_mods d) -> atoms_ok d -> In (idx, s, e, mt) (hits d mem) ->
  exists l, In l (s_lits d) /\ occurs (s_mods d) mem l s /\ e = s + nlen l /\ mt = MAscii.
Proof.
  intros Hp Ha. unfold hits. rewrite in_flat_map. intros (ea & _ & H).
  unfold hits_at in H. rewrite in_flat_map in H. destruct H as (li & Hli & H).
  rewrite sort_lis_In in Hli. apply mk_litinfos_In in Hli as (k & Hk1 & Hk2 & Hk3).
  pose proof (atoms_ok_nth d k _ _ _ Ha Hk1 Hk2) as Hb.
  unfold li_alen in H.
  destruct (ea <? _) eqn:E1; [destruct H|].
  destruct (_ <? li_so li) eqn:E2; [destruct H|].
  destruct (nlen mem <? _) eqn:E3; [destruct H|].
  destruct (confirm_ac_literal _ _ _ _ _ _) as [mt'|] eqn:E4; [|destruct H].
  destruct H as [[= <- <- <- <-]|[]].
  apply plain_confirm in E4 as [-> Hlit]; [|exact Hp].
  exists (li_lit li). split; [eapply nth_error_In; eauto|]. split; [split; [exact Hlit|lia]|]. split; [lia|reflexivity].
Qed.

Lemma hits_complete d mem l s :
  plain (s_mods d) -> atoms_ok d -> In l (s_lits d) -> occurs (s_mods d) mem l s ->
  exists idx, In (idx, s, s + nlen l, MAscii) (hits d mem).
Proof.
  intros Hp Ha Hl [Hocc Hlen].
  apply In_nth_error in Hl as (k & Hk).
  destruct (atoms_ok_nth_some d k l Ha Hk) as (so & eo & Hk2).
  pose proof (atoms_ok_nth d k _ _ _ Ha Hk Hk2) as Hb.
  exists (0 + N.of_nat k). unfold hits. apply in_flat_map.
  exists (s + nlen l - eo). split; [apply iota_In; lia|].
  unfold hits_at. apply in_flat_map.
  exists {| li_idx := 0 + N.of_nat k; li_lit := l; li_so := so; li_eo := eo |}.
  split; [apply sort_lis_In, mk_litinfos_nth; assumption|].
  unfold li_alen. cbn [li_lit li_so li_eo li_idx].
  replace (s + nlen l - eo <? nlen l - so - eo) with false by lia.
  replace (s + nlen l - eo - (nlen l - so - eo) <? so) with false by lia.
  replace (s + nlen l - eo - (nlen l - so - eo) - so) with s by lia.
  replace (s + nlen l - eo + eo) with (s + nlen l) by lia.
  replace (nlen mem <? s + nlen l) with false by lia.
  unfold confirm_ac_literal. rewrite Hocc. destruct Hp as [Hw _]. rewrite Hw.
  destruct (m_ascii (s_mods d)); left; reflexivity.
Qed.

(* ------------------------------------------------------------------ the fold over the hits *)
Definition to_match (se : N * N) : N * N := (fst se, snd se - fst se).

Lemma fold_insert_In found acc y :
  In y (fold_left (fun a se => insert_match a (fst se, snd se - fst se)) found acc) ->
  In y acc \/ exists se, In se found /\ y = to_match se.
Proof.
  revert acc. induction found as [|f fr IH]; intros acc; cbn [fold_left]; [auto|].
  intros H. apply IH in H as [H|(se & H1 & H2)].
  - apply insert_match_In in H as [->|H]; [right; exists f; split; [left; reflexivity|reflexivity]|auto].
  - right. exists se. split; [right; exact H1|exact H2].
Qed.

Lemma fold_insert_keeps_offset found acc o :
  In o (map fst acc) -> In o (map fst (fold_left (fun a se => insert_match a (fst se, snd se - fst se)) found acc)).
Proof.
  revert acc. induction found as [|f fr IH]; intros acc; cbn [fold_left]; [auto|].
  intros H. apply IH. apply in_map_iff in H as (y & <- & Hy). apply in_map_iff. exists y.
  split; [reflexivity|apply insert_match_keeps; exact Hy].
Qed.

Lemma fold_insert_has_offset found acc se :
  In se found -> In (fst se) (map fst (fold_left (fun a se => insert_match a (fst se, snd se - fst se)) found acc)).
Proof.
  revert acc. induction found as [|f fr IH]; intros acc; cbn [fold_left]; [intros []|].
  intros [->|H]; [|apply IH; exact H].
  apply fold_insert_keeps_offset.
  destruct (insert_match_has_offset acc (fst se, snd se - fst se)) as [l Hl]. cbn [fst] in Hl.
  apply in_map_iff. exists (fst se, l). split; [reflexivity|exact Hl].
Qed.

Lemma fold_insert_asc found acc : asc acc -> asc (fold_left (fun a se => insert_match a (fst se, snd se - fst se)) found acc).
Proof.
  revert acc. induction found as [|f fr IH]; intros acc Ha; cbn [fold_left]; [exact Ha|].
  apply IH, insert_match_asc, Ha.
Qed.

(* a strictly ascending list of offsets below a bound is short *)
Lemma asc_length_bound ms lo B :
  asc ms -> (forall x, In x ms -> lo <= fst x < B) -> nlen ms <= B - lo.
Proof.
  unfold asc, nlen. revert lo. induction ms as [|z r IH]; intros lo Ha Hb; cbn [length]; [lia|].
  inversion Ha as [|? ? Hr Hz]; subst.
  assert (Hz' : lo <= fst z < B) by (apply Hb; left; reflexivity).
  assert (N.of_nat (length r) <= B - (fst z + 1)).
  { apply IH; [exact Hr|]. intros x Hx. rewrite Forall_forall in Hz. specialize (Hz x Hx).
    specialize (Hb x (or_intror Hx)). lia. }
  lia.
Qed.

Section Fold.
  Variables (d : sdesc) (mem : list N) (max_nb : N).
  (* what is claimed of a recorded match *)
  Variable Good : N * N -> Prop.

  Hypothesis process_good :
    forall idx ms me mt sp se, In (idx, ms, me, mt) (hits d mem) ->
      In se (process_ac_match d mem ms me sp mt) -> Good (to_match se).

  Lemma handle_hit_good use_sp acc h :
    In h (hits d mem) -> Forall Good acc -> Forall Good (handle_hit use_sp d mem max_nb acc h).
  Proof.
    intros Hh Ha. unfold handle_hit. destruct h as [[[idx ms] me] mt].
    set (sp := if use_sp then _ else _). clearbody sp.
    assert (Hf : Forall Good (fold_left (fun a se => insert_match a (fst se, snd se - fst se))
                                        (process_ac_match d mem ms me sp mt) acc)).
    { apply Forall_forall. intros y Hy. apply fold_insert_In in Hy as [Hy|(se & H1 & ->)].
      - rewrite Forall_forall in Ha. auto.
      - eapply process_good; eauto. }
    destruct (max_nb <? _); [|exact Hf].
    apply Forall_forall. intros y Hy. apply In_firstn in Hy. rewrite Forall_forall in Hf. auto.
  Qed.

  Lemma fold_hits_good use_sp hs acc :
    (forall h, In h hs -> In h (hits d mem)) -> Forall Good acc ->
    Forall Good (fold_left (handle_hit use_sp d mem max_nb) hs acc).
  Proof.
    revert acc. induction hs as [|h hs IH]; intros acc Hs Ha; cbn [fold_left]; [exact Ha|].
    apply IH; [intros; apply Hs; right; assumption|].
    apply handle_hit_good; [apply Hs; left; reflexivity|exact Ha].
  Qed.

  Theorem ac_scan_good use_sp : Forall Good (ac_scan use_sp d mem max_nb).
  Proof. unfold ac_scan. apply fold_hits_good; [auto|constructor]. Qed.
End Fold.

Section FoldComplete.
  Variables (d : sdesc) (mem : list N) (max_nb : N).
  Hypothesis big : nlen mem < max_nb.

  Hypothesis process_bound :
    forall idx ms me mt sp se, In (idx, ms, me, mt) (hits d mem) ->
      In se (process_ac_match d mem ms me sp mt) -> fst se <= nlen mem.

  Let Inv (acc : list (N * N)) : Prop := asc acc /\ Forall (fun x => fst x <= nlen mem) acc.

  Lemma handle_hit_no_trunc use_sp acc h :
    In h (hits d mem) -> Inv acc ->
    Inv (handle_hit use_sp d mem max_nb acc h) /\
    (forall o, In o (map fst acc) -> In o (map fst (handle_hit use_sp d mem max_nb acc h))) /\
    (forall idx ms me mt se, h = (idx, ms, me, mt) ->
       In se (process_ac_match d mem ms me (if use_sp then match last_offset acc with Some o => o + 1 | None => 0 end else 0) mt) ->
       In (fst se) (map fst (handle_hit use_sp d mem max_nb acc h))).
  Proof.
    intros Hh [Ha Hb]. unfold handle_hit. destruct h as [[[idx ms] me] mt].
    set (sp := if use_sp then _ else _).
    set (acc' := fold_left _ (process_ac_match d mem ms me sp mt) acc).
    assert (Ha' : asc acc') by (apply fold_insert_asc; exact Ha).
    assert (Hb' : Forall (fun x => fst x <= nlen mem) acc').
    { apply Forall_forall. intros y Hy. apply fold_insert_In in Hy as [Hy|(se & H1 & ->)].
      - rewrite Forall_forall in Hb. auto.
      - cbn [to_match fst]. eapply process_bound; eauto. }
    assert (Hlen : nlen acc' <= nlen mem + 1).
    { replace (nlen mem + 1) with (nlen mem + 1 - 0) by lia. apply asc_length_bound; [exact Ha'|].
      intros x Hx. rewrite Forall_forall in Hb'. specialize (Hb' x Hx). lia. }
    replace (max_nb <? nlen acc') with false by lia.
    split; [split; assumption|]. split.
    - intros o Ho. apply fold_insert_keeps_offset. exact Ho.
    - intros idx' ms' me' mt' se [= <- <- <- <-] Hse. apply fold_insert_has_offset. exact Hse.
  Qed.

  Lemma fold_hits_keeps use_sp hs acc o :
    (forall h, In h hs -> In h (hits d mem)) -> Inv acc -> In o (map fst acc) ->
    In o (map fst (fold_left (handle_hit use_sp d mem max_nb) hs acc)).
  Proof.
    revert acc. induction hs as [|h hs IH]; intros acc Hs Hi Ho; cbn [fold_left]; [exact Ho|].
    destruct (handle_hit_no_trunc use_sp acc h) as (Hi' & Hk & _); [apply Hs; left; reflexivity|exact Hi|].
    apply IH; [intros; apply Hs; right; assumption|exact Hi'|apply Hk; exact Ho].
  Qed.

  Lemma fold_hits_inv use_sp hs acc :
    (forall h, In h hs -> In h (hits d mem)) -> Inv acc -> Inv (fold_left (handle_hit use_sp d mem max_nb) hs acc).
  Proof.
    revert acc. induction hs as [|h hs IH]; intros acc Hs Hi; cbn [fold_left]; [exact Hi|].
    apply IH; [intros; apply Hs; right; assumption|].
    apply (handle_hit_no_trunc use_sp acc h); [apply Hs; left; reflexivity|exact Hi].
  Qed.

  (* a start produced (with start_position = 0) by the processing of some hit is reported *)
  Theorem ac_scan_reports idx ms me mt se :
    In (idx, ms, me, mt) (hits d mem) -> In se (process_ac_match d mem ms me 0 mt) ->
    In (fst se) (map fst (ac_scan false d mem max_nb)).
  Proof.
    intros Hh Hse. unfold ac_scan. destruct (in_split _ _ Hh) as (h1 & h2 & E).
    assert (H1 : forall h, In h h1 -> In h (hits d mem)) by (intros; rewrite E; apply in_or_app; auto).
    assert (H2 : forall h, In h h2 -> In h (hits d mem)) by (intros; rewrite E; apply in_or_app; right; right; auto).
    rewrite E. rewrite fold_left_app. cbn [fold_left].
    assert (Hi1 : Inv (fold_left (handle_hit false d mem max_nb) h1 [])).
    { apply fold_hits_inv; [exact H1|split; constructor]. }
    destruct (handle_hit_no_trunc false _ (idx, ms, me, mt) Hh Hi1) as (Hi2 & _ & Hhas).
    apply fold_hits_keeps; [exact H2|exact Hi2|].
    eapply Hhas; [reflexivity|exact Hse].
  Qed.
End FoldComplete.

(* ------------------------------------------------------------------ process_ac_match, kind by kind *)
Definition Good (md : mods) (mem : list N) (h : hir) (y : N * N) : Prop :=
  In (snd y) (Lens (flags_of md) mem h (fst y)).

Lemma M_good md mem h s e : M md mem h s e -> Good md mem h (to_match (s, e)).
Proof. intros H. unfold Good, to_match, Lens. cbn [fst snd]. apply in_map_iff. exists e. auto. Qed.

Definition kind_ok (d : sdesc) : Prop :=
  (s_kind d = KLiterals /\ s_pre d = None /\ s_post d = None)
  \/ s_kind d = KNonGreedy
  \/ (s_kind d = KGreedy /\ exists q, s_pre d = Some q).

Lemma least_start_dfa_rev md q mem me : plain md ->
  least_start (fun x => In me (ends (flags_of md) mem q x)) (dfa_rev md q MAscii mem) me.
Proof.
  intros Hp lo. rewrite plain_dfa_rev by exact Hp. split.
  - intros s. destruct (lo <=? me) eqn:E; [|discriminate]. intros H.
    apply rev_min_start_spec in H as (H1 & H2 & H3). repeat split; try lia; assumption.
  - destruct (lo <=? me) eqn:E.
    + intros H x Hx. eapply rev_min_start_none; eauto.
    + intros _ x Hx. lia.
Qed.

Section Process.
  Variables (d : sdesc) (mem : list N).
  Let md := s_mods d.
  Let h := s_hir d.
  Hypothesis Hp : plain md.
  Hypothesis Ha : atoms_ok d.
  Hypothesis Hk : kind_ok d.

  Lemma validate_ng_In fwd rev ms me sp s e :
    In (s, e) (validate_nongreedy (nlen mem) fwd rev ms me sp) ->
    (match fwd with Some f => exists lim, lim <= nlen mem /\ f ms lim = Some e | None => e = me end) /\
    (match rev with Some rv => exists st, rv st me = Some s | None => s = ms end).
  Proof.
    unfold validate_nongreedy.
    destruct fwd as [f|].
    - destruct (f ms _) as [e0|] eqn:E; [|intros []].
      destruct rev as [rv|].
      + intros H. apply rev_loop_sound in H as (st & H1 & H2). destruct (s <=? e0); [|discriminate]. injection H2 as <-.
        split; [exists (N.min (nlen mem) (sat_add ms MAX_SPLIT_MATCH_LENGTH)); split; [lia|exact E]|eauto].
      + intros [[= <- <-]|[]]. split; [exists (N.min (nlen mem) (sat_add ms MAX_SPLIT_MATCH_LENGTH)); split; [lia|exact E]|reflexivity].
    - destruct rev as [rv|].
      + intros H. apply rev_loop_sound in H as (st & H1 & H2). destruct (s <=? me); [|discriminate]. injection H2 as <-.
        split; eauto.
      + intros [[= <- <-]|[]]. split; eauto.
  Qed.

  (* soundness of what one hit produces; the glue property is only needed when the end is not
     computed by the full pattern *)
  Lemma process_sound idx ms me mt sp se :
    (s_kind d = KGreedy \/ DecompGlue md mem h (s_lits d) (s_pre d) (s_post d)) ->
    In (idx, ms, me, mt) (hits d mem) ->
    In se (process_ac_match d mem ms me sp mt) -> Good md mem h (to_match se).
  Proof.
    intros Hg Hh Hse. destruct se as [s e].
    apply hits_sound in Hh as (l & Hl & Hocc & -> & ->); [|exact Hp|exact Ha].
    unfold process_ac_match in Hse. fold md in Hse.
    destruct Hk as [(K & Kpre & Kpost)|[K|(K & q & Kpre)]]; rewrite K in Hse.
    - (* Literals *)
      destruct Hg as [Hg|Hg]; [congruence|].
      destruct (validate_fullword _ _ _ _ _); [|destruct Hse]. destruct Hse as [[= <- <-]|[]].
      apply M_good. apply (Hg l ms); [exact Hl|exact Hocc| |]; [rewrite Kpre|rewrite Kpost]; reflexivity.
    - (* NonGreedy *)
      destruct Hg as [Hg|Hg]; [congruence|].
      apply filter_In in Hse as [Hse _]. apply validate_ng_In in Hse as [H1 H2].
      apply M_good. apply (Hg l ms); [exact Hl|exact Hocc| |].
      + unfold pre_ok. fold md. destruct (s_pre d) as [q|]; cbn [option_map] in H2.
        * destruct H2 as (st & H2). rewrite half_rev_eq in H2 by (try exact Hp; destruct Hocc; lia).
          rewrite plain_dfa_rev in H2 by exact Hp.
          destruct (st <=? _); [|discriminate]. apply rev_min_start_spec in H2 as (_ & H2 & _). exact H2.
        * exact H2.
      + unfold post_ok. fold md. destruct (s_post d) as [q|]; cbn [option_map] in H1.
        * destruct H1 as (lim & Hlim & H1). rewrite half_fwd_eq in H1 by assumption.
          rewrite plain_dfa_fwd in H1 by exact Hp. apply lf_end_In in H1 as [H1 _]. exact H1.
        * exact H1.
    - (* Greedy: the end comes from the whole pattern *)
      rewrite Kpre in Hse. apply filter_In in Hse as [Hse _]. unfold validate_greedy in Hse.
      apply rev_loop_sound in Hse as (st & _ & H2).
      fold h in H2. rewrite plain_dfa_fwd in H2 by exact Hp. apply lf_end_In in H2 as [H2 _].
      apply M_good. exact H2.
  Qed.

  Lemma process_bound idx ms me mt sp se :
    In (idx, ms, me, mt) (hits d mem) -> In se (process_ac_match d mem ms me sp mt) -> fst se <= nlen mem.
  Proof.
    intros Hh Hse. destruct se as [s e]. cbn [fst].
    apply hits_sound in Hh as (l & Hl & [Hocc Hlen] & -> & ->); [|exact Hp|exact Ha].
    unfold process_ac_match in Hse. fold md in Hse.
    destruct Hk as [(K & Kpre & Kpost)|[K|(K & q & Kpre)]]; rewrite K in Hse.
    - destruct (validate_fullword _ _ _ _ _); [|destruct Hse]. destruct Hse as [[= <- <-]|[]]. lia.
    - apply filter_In in Hse as [Hse _]. apply validate_ng_In in Hse as [_ H2].
      destruct (s_pre d) as [q|]; cbn [option_map] in H2.
      + destruct H2 as (st & H2). rewrite half_rev_eq in H2 by (try exact Hp; lia).
        rewrite plain_dfa_rev in H2 by exact Hp.
        destruct (st <=? _); [|discriminate]. apply rev_min_start_spec in H2 as (H2 & _). lia.
      + lia.
    - rewrite Kpre in Hse. apply filter_In in Hse as [Hse _]. unfold validate_greedy in Hse.
      apply rev_loop_sound in Hse as (st & H1 & _).
      rewrite plain_dfa_rev in H1 by exact Hp.
      destruct (st <=? _); [|discriminate]. apply rev_min_start_spec in H1 as (H1 & _). lia.
  Qed.

  Hypothesis Hsplit : DecompSplit md mem h (s_lits d) (s_pre d) (s_post d).
  Hypothesis Hfit : nlen mem <= umax.

  (* every start of a match is produced by the hit of its literal occurrence, when nothing
     restricts the starts (start_position = 0) *)
  Lemma process_complete a b :
    M md mem h a b ->
    exists idx ms me mt e, In (idx, ms, me, mt) (hits d mem) /\ In (a, e) (process_ac_match d mem ms me 0 mt).
  Proof.
    intros Hm. destruct (Hsplit a b Hm) as (l & s & Hl & Hocc & Hpre & Hpost & Has & Hw1 & Hw2 & Hb).
    destruct (hits_complete d mem l s Hp Ha Hl Hocc) as (idx & Hh).
    exists idx, s, (s + nlen l), MAscii.
    assert (Hlim : b <= N.min (nlen mem) (sat_add s MAX_SPLIT_MATCH_LENGTH)).
    { unfold sat_add. lia. }
    unfold process_ac_match. fold md.
    destruct Hk as [(K & Kpre & Kpost)|[K|(K & q & Kpre)]]; rewrite K.
    - (* Literals *)
      rewrite Kpre in Hpre. rewrite Kpost in Hpost. cbn in Hpre, Hpost. subst a b.
      exists (s + nlen l). split; [exact Hh|]. rewrite plain_fullword by exact Hp. left. reflexivity.
    - (* NonGreedy *)
      assert (Hend : exists e,
                match option_map (fun h0 => half_fwd md h0 MAscii mem) (s_post d) with
                | Some f => f s (N.min (nlen mem) (sat_add s MAX_SPLIT_MATCH_LENGTH))
                | None => Some (s + nlen l)
                end = Some e /\ s <= e).
      { unfold post_ok in Hpost. fold md in Hpost. destruct (s_post d) as [p|]; cbn [option_map].
        - rewrite half_fwd_eq by (try exact Hp; lia). rewrite plain_dfa_fwd by exact Hp.
          destruct (lf_end_some (flags_of md) mem p s _ b Hpost Hlim) as (e & He). exists e. split; [exact He|].
          apply lf_end_In in He as [He _]. apply ends_ge in He. exact He.
        - exists (s + nlen l). split; [reflexivity|lia]. }
      destruct Hend as (e & He & Hse). exists e. split; [exact Hh|].
      apply filter_In. split; [|apply plain_fullword; exact Hp].
      unfold validate_nongreedy. rewrite He.
      unfold pre_ok in Hpre. fold md in Hpre. destruct (s_pre d) as [q|]; cbn [option_map].
      + eapply rev_loop_complete with (Q := fun x => In (s + nlen l) (ends (flags_of md) mem q x)).
        * intros lo. rewrite half_rev_eq by (try exact Hp; destruct Hocc; lia).
          apply least_start_dfa_rev. exact Hp.
        * lia.
        * exact Hpre.
        * cbn beta. replace (a <=? e) with true by lia. reflexivity.
        * unfold rev_fuel. lia.
      + subst a. left. reflexivity.
    - (* Greedy *)
      rewrite Kpre. rewrite Kpre in Hpre. unfold pre_ok in Hpre. fold md in Hpre.
      destruct (lf_end_some (flags_of md) mem h a _ b Hm Hlim) as (e & He).
      exists e. split; [exact Hh|].
      apply filter_In. split; [|apply plain_fullword; exact Hp].
      unfold validate_greedy.
      eapply rev_loop_complete with (Q := fun x => In (s + nlen l) (ends (flags_of md) mem q x)).
      + apply least_start_dfa_rev. exact Hp.
      + lia.
      + exact Hpre.
      + fold h. rewrite plain_dfa_fwd by exact Hp. exact He.
      + unfold rev_fuel. lia.
  Qed.
End Process.

(* ------------------------------------------------------------------ the theorems *)
(* Soundness: for any decomposition with the glue property (not even needed for the Greedy kind),
   any input, with or without the start_position mechanism, any limit: every reported (offset,
   length) is a member of the language at that offset. *)
Theorem atomized_sound use_sp d mem max_nb :
  plain (s_mods d) -> atoms_ok d -> kind_ok d ->
  (s_kind d = KGreedy \/ DecompGlue (s_mods d) mem (s_hir d) (s_lits d) (s_pre d) (s_post d)) ->
  Forall (fun y => In (snd y) (Lens (flags_of (s_mods d)) mem (s_hir d) (fst y))) (ac_scan use_sp d mem max_nb).
Proof.
  intros Hp Ha Hk Hg.
  apply (ac_scan_good d mem max_nb (Good (s_mods d) mem (s_hir d))).
  intros idx ms me mt sp se Hh Hse. eapply process_sound; eauto.
Qed.

(* Completeness without the start_position mechanism *)
Theorem atomized_complete_nosp d mem max_nb a b :
  plain (s_mods d) -> atoms_ok d -> kind_ok d ->
  DecompSplit (s_mods d) mem (s_hir d) (s_lits d) (s_pre d) (s_post d) ->
  nlen mem <= umax -> nlen mem < max_nb ->
  In b (ends (flags_of (s_mods d)) mem (s_hir d) a) ->
  In a (map fst (ac_scan false d mem max_nb)).
Proof.
  intros Hp Ha Hk Hs Hfit Hbig Hm.
  destruct (process_complete d mem Hp Ha Hk Hs Hfit a b Hm) as (idx & ms & me & mt & e & Hh & Hse).
  apply (ac_scan_reports d mem max_nb Hbig (process_bound d mem Hp Ha Hk) idx ms me mt (a, e) Hh Hse).
Qed.

(* Completeness of the real scan outside the class of known finding 9.5 *)
Theorem atomized_complete d mem max_nb a b :
  plain (s_mods d) -> atoms_ok d -> kind_ok d ->
  DecompSplit (s_mods d) mem (s_hir d) (s_lits d) (s_pre d) (s_post d) ->
  nlen mem <= umax -> nlen mem < max_nb ->
  kf_start_position d mem max_nb = false ->
  In b (ends (flags_of (s_mods d)) mem (s_hir d) a) ->
  In a (map fst (model_scan d mem max_nb)).
Proof.
  intros Hp Ha Hk Hs Hfit Hbig Hkf Hm.
  assert (Hnr : s_kind d <> KRaw).
  { destruct Hk as [(K & _)|[K|(K & _)]]; congruence. }
  unfold kf_start_position in Hkf. unfold model_scan.
  destruct (s_kind d) eqn:K; try congruence;
    apply negb_false_iff in Hkf; apply (list_eqb_spec N.eqb N.eqb_eq) in Hkf; rewrite Hkf;
    eapply atomized_complete_nosp; eauto; rewrite K; exact Hk || (rewrite <- K; exact Hk).
Qed.
