(* Proofs/RawProofs.v — the raw path (Model/Raw.v: `scan_single_variable` over
   `Matcher::find_next_match_at` over the meta regex search, next offset = start + 1) enumerates exactly
   the offsets where a member starts, ascending, each with its leftmost-first end.  Plain reading
   (not wide, no fullword); any regex, any flags. *)
From Boreal Require Import Base.Prelude Spec.Regex Model.Widen Model.Validator Model.Raw
  Proofs.RegexBasics Proofs.ValidatorProofs.

Definition first_end (fl : rflags) (mem : list N) (h : hir) (s : N) : N :=
  match ends fl mem h s with e :: _ => e | [] => s end.

Definition has_match (fl : rflags) (mem : list N) (h : hir) (s : N) : bool := nonempty (ends fl mem h s).
Definition lf_match (fl : rflags) (mem : list N) (h : hir) (s : N) : N * N := (s, first_end fl mem h s - s).

Lemma filter_none {A} (P : A -> bool) l : (forall x, In x l -> P x = false) -> filter P l = [].
Proof.
  induction l as [|y r IH]; intros H; cbn [filter]; [reflexivity|].
  rewrite (H y (or_introl eq_refl)). apply IH. intros x Hx. apply H. right. exact Hx.
Qed.

Section RawScan.
  Variables (md : mods) (h : hir) (mem : list N) (max_nb : N).
  Hypothesis Hp : plain md.
  Let fl := flags_of md.
  Let n := nlen mem.
  Local Notation P := (has_match fl mem h).
  Local Notation g := (lf_match fl mem h).
  (* no empty match at the very end of the input (true of every non-nullable pattern) *)
  Hypothesis Hend : ends fl mem h n = [].

  Lemma plain_raw_find offset :
    raw_find md h mem offset =
    match find_from fl mem h offset with Some (s, e) => Some (s, e, MAscii) | None => None end.
  Proof.
    unfold raw_find. destruct Hp as [Hw _]. rewrite Hw. destruct (m_ascii md); reflexivity.
  Qed.

  Lemma plain_find_next fuel offset :
    offset < n ->
    find_next_match_at (S fuel) md h mem offset = find_from fl mem h offset.
  Proof.
    intros Ho. cbn [find_next_match_at]. fold n. replace (offset <? n) with true by lia.
    cbn [raw_find_next]. rewrite plain_raw_find.
    destruct (find_from fl mem h offset) as [[s e]|]; [|reflexivity].
    destruct Hp as [Hw Hf]. rewrite Hw. cbn [andb].
    unfold validate_fullword. rewrite Hf. reflexivity.
  Qed.

  Lemma find_from_spec offset :
    offset <= n ->
    match find_from fl mem h offset with
    | Some (s, e) => offset <= s < n /\ P s = true /\ g s = (s, e - s)
                     /\ filter P (iota offset (n - offset)) = s :: filter P (iota (s + 1) (n - (s + 1)))
    | None => filter P (iota offset (n - offset)) = []
    end.
  Proof.
    intros Ho. unfold find_from. fold n. change (fun s => nonempty (ends fl mem h s)) with P.
    destruct (find P (iota offset (n + 1 - offset))) as [s|] eqn:E.
    - apply find_iota_Some in E as (H1 & H2 & H3).
      assert (s <> n). { intros ->. unfold has_match in H2. rewrite Hend in H2. discriminate. }
      unfold has_match in H2. destruct (ends fl mem h s) as [|e r] eqn:Ee; [discriminate|].
      repeat split; try lia.
      + unfold has_match. rewrite Ee. reflexivity.
      + unfold lf_match, first_end. rewrite Ee. reflexivity.
      + rewrite (iota_split offset (n - offset) (s - offset)) by lia.
        rewrite filter_app. rewrite filter_none.
        2:{ intros x Hx. apply iota_In in Hx. apply H3. lia. }
        cbn [app]. replace (offset + (s - offset)) with s by lia.
        rewrite (iota_cons s) by lia. cbn [filter].
        replace (P s) with true by (unfold has_match; rewrite Ee; reflexivity).
        do 3 f_equal. lia.
    - apply filter_none. intros x Hx. apply iota_In in Hx.
      eapply find_iota_None in E; [exact E|lia].
  Qed.

  Lemma raw_loop_exact fuel offset acc :
    offset <= n -> (N.to_nat (n - offset) < fuel)%nat -> nlen acc + (n - offset) < max_nb ->
    raw_scan_loop fuel md h mem max_nb offset acc = acc ++ map g (filter P (iota offset (n - offset))).
  Proof.
    revert offset acc. induction fuel as [|f IH]; intros offset acc Ho Hf Hb; [lia|].
    cbn [raw_scan_loop]. fold n.
    destruct (offset <? n) eqn:E1.
    - replace (max_nb <=? nlen acc) with false by lia. cbn [negb andb].
      rewrite plain_find_next by lia.
      pose proof (find_from_spec offset Ho) as Hs.
      destruct (find_from fl mem h offset) as [[s e]|].
      + destruct Hs as (H1 & H2 & H3 & H4). rewrite H4. cbn [map]. rewrite H3.
        assert (Hl : nlen (acc ++ [(s, e - s)]) = nlen acc + 1).
        { unfold nlen. rewrite app_length. cbn [length]. lia. }
        replace (max_nb <=? nlen (acc ++ [(s, e - s)])) with false by lia.
        rewrite IH; [|lia|lia|lia]. rewrite <- app_assoc. reflexivity.
      + rewrite Hs. cbn [map]. rewrite app_nil_r. reflexivity.
    - cbn [andb]. replace (n - offset) with 0 by lia. rewrite iota_nil. cbn. rewrite app_nil_r. reflexivity.
  Qed.

  Theorem raw_scan_exact :
    n < max_nb ->
    raw_scan md h mem max_nb = map g (filter P (iota 0 n)).
  Proof.
    intros Hb. unfold raw_scan. rewrite raw_loop_exact; [|lia| |].
    - cbn [app]. replace (n - 0) with n by lia. reflexivity.
    - unfold n, nlen. lia.
    - unfold nlen at 1. cbn [length]. lia.
  Qed.
End RawScan.
