(* Proofs/PoolProofs.v — invariants of the thread-pool transition system (Model/Pool.v), for every
   schedule: no path is lost or scanned twice, and the output of a terminal state is a permutation
   of the sequential output; no deadlock; every schedule is finite. *)
From Boreal Require Import Base.Prelude Model.Pool.
From Coq Require Import Permutation.
Local Open Scope nat_scope.

(* ------------------------------------------------------------------ a small permutation solver *)
(* Goals `Permutation L R` where L and R are built from the same atoms with ++ and :: . *)
Lemma perm_nil_r {A} (l r : list A) : Permutation (l ++ []) (r ++ []) -> Permutation l r.
Proof. now rewrite !app_nil_r. Qed.
Lemma pf_here {A} (s r : list A) : Permutation (s ++ r) (s ++ r).
Proof. reflexivity. Qed.
Lemma pf_skip {A} (s t r r' : list A) : Permutation r (s ++ r') -> Permutation (t ++ r) (s ++ (t ++ r')).
Proof. intros H. rewrite H. apply Permutation_app_swap_app. Qed.
Lemma pm_step {A} (s l r r' : list A) : Permutation r (s ++ r') -> Permutation l r' -> Permutation (s ++ l) r.
Proof. intros H1 H2. rewrite H1. now apply Permutation_app_head. Qed.

Ltac perm_norm :=
  apply perm_nil_r;
  repeat match goal with
         | |- context [?x :: ?l] => lazymatch l with [] => fail | _ => change (x :: l) with ([x] ++ l) end
         end;
  repeat rewrite <- app_assoc;
  repeat change (@app ?A [] ?l) with l.
Ltac pfind := first [ apply pf_here | (apply pf_skip; pfind) ].
Ltac psolve_core := first [ apply perm_nil | (eapply pm_step; [ pfind | psolve_core ]) ].
Ltac psolve := perm_norm; psolve_core.

(* ------------------------------------------------------------------ n-way interleavings *)
Section Merge.
  Context {B : Type}.

  Lemma MergeR_add_empty (ls : list (list B)) lg : MergeR ls lg -> MergeR ([] :: ls) lg.
  Proof.
    induction 1 as [ls H | ls1 l x ls2 lg _ IH].
    - apply MR_nil. constructor; auto.
    - apply (MR_snoc ([] :: ls1)). exact IH.
  Qed.

  Lemma MergeR_perm (ls : list (list B)) lg : MergeR ls lg -> forall ls', Permutation ls ls' -> MergeR ls' lg.
  Proof.
    induction 1 as [ls H | ls1 l x ls2 lg _ IH]; intros ls' P.
    - apply MR_nil. eapply Permutation_Forall; eauto.
    - assert (Hin : In (l ++ [x]) ls').
      { eapply Permutation_in; [ exact P | ]. apply in_elt. }
      apply in_split in Hin as (a & b & ->).
      apply MR_snoc. apply IH.
      apply Permutation_app_inv in P. now apply Permutation_elt.
  Qed.

  Lemma MergeR_remove_empty (ls : list (list B)) lg : MergeR ([] :: ls) lg -> MergeR ls lg.
  Proof.
    remember ([] :: ls) as ls0 eqn:E. intros H. revert ls E.
    induction H as [ls0 H | ls1 l x ls2 lg _ IH]; intros ls E.
    - subst. inversion H; subst. now apply MR_nil.
    - destruct ls1 as [|y ls1]; cbn in E.
      + inversion E as [[E1 E2]]. destruct l; discriminate.
      + inversion E as [[E1 E2]]. subst. apply MR_snoc. apply IH. reflexivity.
  Qed.

  Lemma MergeR_drop_empties (es ls : list (list B)) lg :
    Forall (fun l => l = []) es -> MergeR (es ++ ls) lg -> MergeR ls lg.
  Proof.
    induction 1 as [|e es He _ IH]; cbn [app]; auto.
    subst e. intros H. apply IH. now apply MergeR_remove_empty.
  Qed.

  (* what MergeR means: every component is a subsequence of the result, in order, and the result has
     exactly the elements of the components *)
  Inductive Subseq : list B -> list B -> Prop :=
  | SubNil : forall l, Subseq [] l
  | SubTake : forall x a l, Subseq a l -> Subseq (x :: a) (x :: l)
  | SubSkip : forall x a l, Subseq a l -> Subseq a (x :: l).

  Lemma Subseq_app_r a l r : Subseq a l -> Subseq a (l ++ r).
  Proof. induction 1; cbn; constructor; auto. Qed.
  Lemma Subseq_snoc a l x : Subseq a l -> Subseq (a ++ [x]) (l ++ [x]).
  Proof.
    induction 1 as [l | y a l _ IH | y a l _ IH]; cbn.
    - induction l; cbn; [ repeat constructor | now apply SubSkip ].
    - now apply SubTake.
    - now apply SubSkip.
  Qed.

  Lemma MergeR_subseq (ls : list (list B)) lg : MergeR ls lg -> forall l, In l ls -> Subseq l lg.
  Proof.
    induction 1 as [ls H | ls1 l x ls2 lg _ IH]; intros c Hc.
    - rewrite Forall_forall in H. rewrite (H c Hc). constructor.
    - apply in_app_or in Hc as [Hc | [<- | Hc]].
      + apply Subseq_app_r, IH, in_or_app. now left.
      + apply Subseq_snoc, IH, in_elt.
      + apply Subseq_app_r, IH, in_or_app. right. now right.
  Qed.

  Lemma MergeR_perm_concat (ls : list (list B)) lg : MergeR ls lg -> Permutation (concat ls) lg.
  Proof.
    induction 1 as [ls H | ls1 l x ls2 lg _ IH].
    - induction H as [|l ls -> _ IHl]; cbn; auto.
    - rewrite concat_app in *. cbn [concat] in *. rewrite <- IH. psolve.
  Qed.
End Merge.

Section PoolProofs.
  Variables F L : Type.
  Variable blocks_of : F -> list (list L).
  Variable cap : nat.
  Variable acts : list (L + F).
  Variable n : nat.

  Notation state := (state F L).
  Notation step := (step blocks_of cap).
  Notation reachable := (reachable blocks_of cap (init acts n)).
  Notation lines_of := (lines_of blocks_of).
  Notation FM := (flat_map lines_of).

  (* the design's invariant: sent ⊎ unsent = files; queued ⊎ in flight ⊎ done = sent; plus the
     corresponding statement about output lines *)
  Definition Inv (s : state) : Prop :=
    sent s ++ sent_of (todo s) = sent_of acts
    /\ Permutation (sent s) (queue s ++ inflight (workers s) ++ scanned s)
    /\ Permutation (out s ++ pending (workers s) ++ said_of (todo s))
                   (said_of acts ++ FM (inflight (workers s) ++ scanned s)).

  Lemma inflight_repeat_idle k : inflight (repeat (@WIdle F L) k) = [].
  Proof. induction k; cbn; auto. Qed.
  Lemma pending_repeat_idle k : pending (repeat (@WIdle F L) k) = [].
  Proof. induction k; cbn; auto. Qed.

  Lemma inv_init : Inv (init acts n).
  Proof.
    unfold Inv, init; cbn [sent todo queue workers scanned out said log].
    rewrite inflight_repeat_idle, pending_repeat_idle. cbn. rewrite app_nil_r. auto.
  Qed.

  Lemma inflight_app (a b : list (wstate F L)) : inflight (a ++ b) = inflight a ++ inflight b.
  Proof. apply flat_map_app. Qed.
  Lemma pending_app (a b : list (wstate F L)) : pending (a ++ b) = pending a ++ pending b.
  Proof. apply flat_map_app. Qed.

  Lemma inv_step s s' : Inv s -> step s s' -> Inv s'.
  Proof.
    intros (I1 & I2 & I3) St.
    destruct St; unfold Inv in *;
      cbn [sent todo queue workers scanned out closed said log] in *;
      rewrite ?inflight_app, ?pending_app in *;
      cbn [inflight pending flat_map Pool.inflight_of Pool.pending_of sent_of said_of] in *;
      rewrite ?app_nil_r in *; rewrite ?flat_map_app in *; cbn [flat_map] in *; rewrite ?app_nil_r in *.
    - (* Say *)
      repeat split; auto.
      rewrite <- I3. psolve.
    - (* Send *)
      repeat split.
      + rewrite <- I1. now rewrite <- app_assoc.
      + rewrite I2. psolve.
      + exact I3.
    - (* Close *) auto.
    - (* Recv *)
      repeat split; auto.
      + rewrite I2. psolve.
      + unfold Pool.lines_of at 2.
        transitivity (concat (blocks_of f) ++ (o ++ (pending w1 ++ pending w2) ++ said_of td)); [ psolve | ].
        rewrite I3. psolve.
    - (* Emit *)
      repeat split; auto.
      rewrite <- I3. cbn [concat]. psolve.
    - (* Finish *)
      repeat split; auto.
      + rewrite I2. psolve.
      + cbn [concat] in I3. rewrite I3. psolve.
    - (* Exit *) auto.
  Qed.

  Lemma inv_reachable s : reachable s -> Inv s.
  Proof. induction 1; [ apply inv_init | eauto using inv_step ]. Qed.

  Lemma all_exited_inflight ws : Forall (fun w => w = @WExited F L) ws -> inflight ws = [] /\ pending ws = [].
  Proof.
    induction 1 as [|w ws Hw _ [IH1 IH2]]; [ split; reflexivity | ].
    subst w. cbn. auto.
  Qed.

  (* every path the producer walks over is scanned exactly once *)
  Theorem exactly_once s : reachable s -> terminal s -> Permutation (scanned s) (sent_of acts).
  Proof.
    intros R (T1 & _ & T3 & T4). destruct (inv_reachable s R) as (I1 & I2 & _).
    destruct (all_exited_inflight _ T4) as [E1 _].
    rewrite T1 in I1. cbn in I1. rewrite app_nil_r in I1.
    rewrite T3, E1 in I2. cbn in I2. rewrite <- I1. symmetry. exact I2.
  Qed.

  Lemma FM_perm a b : Permutation a b -> Permutation (FM a) (FM b).
  Proof. apply Permutation_flat_map. Qed.

  (* what a terminal state has written is a permutation of the sequential output *)
  Theorem output_multiset s : reachable s -> terminal s ->
    Permutation (out s) (said_of acts ++ FM (sent_of acts)).
  Proof.
    intros R T. pose proof (exactly_once s R T) as EO.
    destruct T as (T1 & _ & T3 & T4). destruct (inv_reachable s R) as (_ & _ & I3).
    destruct (all_exited_inflight _ T4) as [E1 E2].
    rewrite T1, E1, E2 in I3. cbn in I3. rewrite app_nil_r in I3.
    rewrite I3. apply Permutation_app_head, FM_perm, EO.
  Qed.

  (* ---------------------------------------------------------------- no deadlock *)
  (* shape invariant: the number of workers never changes; a worker has exited only after the
     sender was dropped; the sender is dropped only when the walk is over *)
  Definition Shape (s : state) : Prop :=
    length (workers s) = n
    /\ (closed s = false -> Forall (fun w => w <> @WExited F L) (workers s))
    /\ (closed s = true -> todo s = [])
    /\ (queue s = [] \/ Forall (fun w => w <> @WExited F L) (workers s)).

  Lemma shape_init : Shape (init acts n).
  Proof.
    unfold Shape, init; cbn. repeat split.
    - apply repeat_length.
    - intros _. apply Forall_forall. intros w Hw. apply repeat_spec in Hw. subst. discriminate.
    - discriminate.
    - left. reflexivity.
  Qed.

  Lemma Forall_mid {A} (P : A -> Prop) a x y b : P y -> Forall P (a ++ x :: b) -> Forall P (a ++ y :: b).
  Proof.
    intros Hy H. apply Forall_app in H as [Ha Hb]. inversion Hb; subst.
    apply Forall_app; split; auto.
  Qed.

  Lemma shape_step s s' : Shape s -> step s s' -> Shape s'.
  Proof.
    intros (S1 & S2 & S3 & S4) St.
    destruct St; unfold Shape in *; cbn [workers closed todo queue] in *;
      rewrite ?app_length in *; cbn [length] in *.
    - (* Say *) repeat split; auto. intros Hc. specialize (S3 Hc). discriminate.
    - (* Send *) repeat split; auto; try discriminate.
    - (* Close *) repeat split; auto; try discriminate.
    - (* Recv *)
      assert (Fa : Forall (fun w => w <> @WExited F L) (w1 ++ WIdle :: w2)) by (destruct S4; [ discriminate | auto ]).
      repeat split; auto.
      + intros _. eapply Forall_mid; [ | exact Fa ]. discriminate.
      + right. eapply Forall_mid; [ | exact Fa ]. discriminate.
    - (* Emit *)
      repeat split; auto.
      + intros Hc. eapply Forall_mid; [ | exact (S2 Hc) ]. discriminate.
      + destruct S4 as [S4 | S4]; [ left; auto | right; eapply Forall_mid; [ | exact S4 ]; discriminate ].
    - (* Finish *)
      repeat split; auto.
      + intros Hc. eapply Forall_mid; [ | exact (S2 Hc) ]. discriminate.
      + destruct S4 as [S4 | S4]; [ left; auto | right; eapply Forall_mid; [ | exact S4 ]; discriminate ].
    - (* Exit *)
      repeat split; auto. discriminate.
  Qed.

  Lemma shape_reachable s : reachable s -> Shape s.
  Proof. induction 1; [ apply shape_init | eauto using shape_step ]. Qed.

  Lemma not_all_exited ws :
    ~ Forall (fun w => w = @WExited F L) ws ->
    exists w1 w w2, ws = w1 ++ w :: w2 /\ w <> WExited.
  Proof.
    induction ws as [|w ws IH]; intros H.
    - exfalso. apply H. constructor.
    - destruct w.
      + exists [], WIdle, ws. split; [ reflexivity | discriminate ].
      + exists [], (WBusy f pre rest), ws. split; [ reflexivity | discriminate ].
      + destruct IH as (w1 & w & w2 & E & Hw).
        * intros Hf. apply H. constructor; auto.
        * exists (WExited :: w1), w, w2. subst. split; [ reflexivity | exact Hw ].
  Qed.

  Lemma first_worker ws : 0 < length ws -> Forall (fun w => w <> @WExited F L) ws ->
    exists w w2, ws = w :: w2 /\ w <> WExited.
  Proof.
    destruct ws as [|w ws]; cbn; intros Hl Hf; [ lia | ].
    inversion Hf; subst. eauto.
  Qed.

  Definition all_exited_dec ws : {Forall (fun w => w = @WExited F L) ws} + {~ Forall (fun w => w = @WExited F L) ws}.
  Proof.
    apply Forall_dec. intros w. destruct w; [ right | right | left ]; congruence.
  Defined.

  (* a worker that has not exited can always move, except an idle one facing an empty open channel *)
  Lemma worker_can_move td se q c w1 w w2 o sc sd lg :
    w <> WExited -> (q <> [] \/ c = true \/ w <> WIdle) ->
    exists s', step (mk td se q c (w1 ++ w :: w2) o sc sd lg) s'.
  Proof.
    intros Hw Hq. destruct w as [|f pre [|b bs]|]; try congruence.
    - destruct q as [|f q].
      + destruct Hq as [Hq | [-> | Hq]]; try congruence. eexists. apply StepExit.
      + eexists. apply StepRecv.
    - eexists. apply StepFinish.
    - eexists. apply StepEmit.
  Qed.

  Theorem progress s : 0 < n -> 0 < cap -> reachable s -> ~ terminal s -> exists s', step s s'.
  Proof.
    intros Hn Hcap R NT. destruct (shape_reachable s R) as (S1 & S2 & S3 & S4).
    destruct s as [td se q c ws o sc sd lg]; cbn [workers closed todo queue] in *.
    destruct c.
    - (* sender dropped: some worker has not exited, or the state is terminal *)
      specialize (S3 eq_refl). subst td.
      destruct (all_exited_dec ws) as [AE | NAE].
      + destruct S4 as [-> | NE].
        * exfalso. apply NT. repeat split; auto.
        * exfalso. destruct ws as [|w ws]; cbn in S1; [ lia | ].
          inversion AE; inversion NE; subst. congruence.
      + destruct (not_all_exited ws NAE) as (w1 & w & w2 & -> & Hw).
        apply worker_can_move; auto.
    - (* sender alive: no worker has exited *)
      specialize (S2 eq_refl).
      destruct td as [|[l | f] td].
      + eexists. apply StepClose.
      + eexists. apply StepSay.
      + destruct (Nat.lt_ge_cases (length q) cap) as [Hlt | Hge].
        * eexists. apply StepSend. exact Hlt.
        * destruct (first_worker ws) as (w & w2 & -> & Hw); [ lia | exact S2 | ].
          apply (worker_can_move _ _ _ _ []); auto.
          left. destruct q; cbn in Hge; [ lia | discriminate ].
  Qed.

  (* ---------------------------------------------------------------- blocks are atomic, order per file is kept *)
  (* the components being interleaved: the producer's own lines (one block each), what each busy
     worker has written for its file so far, and the complete block lists of the files done *)
  Definition comps (s : state) : list (list (list L)) :=
    map (fun l => [l]) (said s) :: map (@Pool.pre_of F L) (workers s) ++ map blocks_of (scanned s).

  Definition worker_ok (w : wstate F L) : Prop :=
    match w with WBusy f pre rest => pre ++ rest = blocks_of f | _ => True end.

  Definition LogInv (s : state) : Prop :=
    out s = concat (log s)
    /\ said s ++ said_of (todo s) = said_of acts
    /\ Forall worker_ok (workers s)
    /\ MergeR (comps s) (log s).

  Lemma pre_of_repeat_idle k : Forall (fun l => l = []) (map (@Pool.pre_of F L) (repeat WIdle k)).
  Proof. induction k; cbn; constructor; auto. Qed.

  Lemma loginv_init : LogInv (init acts n).
  Proof.
    unfold LogInv, init, comps; cbn. repeat split; auto.
    - apply Forall_forall. intros w Hw. apply repeat_spec in Hw. now subst.
    - apply MR_nil. constructor; auto. rewrite app_nil_r. apply pre_of_repeat_idle.
  Qed.

  Lemma map_pre_mid w1 (w : wstate F L) w2 :
    map (@Pool.pre_of F L) (w1 ++ w :: w2) = map (@Pool.pre_of F L) w1 ++ Pool.pre_of F L w :: map (@Pool.pre_of F L) w2.
  Proof. now rewrite map_app. Qed.

  Lemma loginv_step s s' : LogInv s -> step s s' -> LogInv s'.
  Proof.
    intros (L1 & L2 & L3 & L4) St.
    destruct St; unfold LogInv, comps in *; cbn [out log said todo workers scanned] in *.
    - (* Say *)
      repeat split; auto.
      + rewrite concat_app, L1; cbn; now rewrite ?app_nil_r.
      + rewrite <- L2. cbn [said_of flat_map]. now rewrite <- app_assoc.
      + rewrite map_app. cbn [map]. apply (MR_snoc []). exact L4.
    - (* Send *) repeat split; auto.
    - (* Close *) repeat split; auto.
    - (* Recv *)
      repeat split; auto.
      + eapply Forall_mid; [ | exact L3 ]. reflexivity.
      + rewrite map_pre_mid in *. exact L4.
    - (* Emit *)
      repeat split; auto.
      + rewrite concat_app, L1; cbn; now rewrite ?app_nil_r.
      + assert (Hw : worker_ok (WBusy f pre (b :: bs))).
        { apply Forall_app in L3 as [_ L3]. now inversion L3. }
        eapply Forall_mid; [ | exact L3 ]. cbn in *. now rewrite <- app_assoc.
      + rewrite map_pre_mid in *. cbn [Pool.pre_of] in *. rewrite <- app_assoc in *.
        apply (MR_snoc (map (fun l0 => [l0]) sd :: map (@Pool.pre_of F L) w1) pre b
                       (map (@Pool.pre_of F L) w2 ++ map blocks_of sc)).
        exact L4.
    - (* Finish *)
      assert (Hw : worker_ok (WBusy f pre [])).
      { apply Forall_app in L3 as [_ L3]. now inversion L3. }
      cbn in Hw. rewrite app_nil_r in Hw. subst pre.
      repeat split; auto.
      + eapply Forall_mid; [ | exact L3 ]. exact I.
      + rewrite map_pre_mid in *. cbn [Pool.pre_of] in *. rewrite map_app. cbn [map].
        apply MergeR_add_empty in L4. eapply MergeR_perm; [ exact L4 | ]. psolve.
    - (* Exit *)
      repeat split; auto.
      + eapply Forall_mid; [ | exact L3 ]. exact I.
      + rewrite map_pre_mid in *. exact L4.
  Qed.

  Lemma loginv_reachable s : reachable s -> LogInv s.
  Proof. induction 1; [ apply loginv_init | eauto using loginv_step ]. Qed.

  Lemma all_exited_pre ws : Forall (fun w => w = @WExited F L) ws -> Forall (fun l => l = []) (map (@Pool.pre_of F L) ws).
  Proof. induction 1 as [|w ws -> _ IH]; cbn; constructor; auto. Qed.

  (* terminal states: the sequence of blocks written is an interleaving of the producer's lines and
     of the complete block lists of the scanned files, each in its own order; stdout/stderr is the
     concatenation of these blocks (no block is split) *)
  Theorem output_interleaving s : reachable s -> terminal s ->
    out s = concat (log s)
    /\ Permutation (scanned s) (sent_of acts)
    /\ MergeR (map (fun l => [l]) (said_of acts) :: map blocks_of (scanned s)) (log s).
  Proof.
    intros R T. pose proof (exactly_once s R T) as EO.
    destruct (loginv_reachable s R) as (L1 & L2 & _ & L4).
    destruct T as (T1 & _ & _ & T4).
    repeat split; auto.
    rewrite T1 in L2. cbn in L2. rewrite app_nil_r in L2. unfold comps in L4. rewrite L2 in L4.
    eapply MergeR_perm in L4; [ | apply Permutation_middle ].
    eapply MergeR_drop_empties in L4; [ exact L4 | now apply all_exited_pre ].
  Qed.

  (* ---------------------------------------------------------------- every schedule is finite *)
  Notation measure := (measure blocks_of).

  Lemma list_sum_mid (f : wstate F L -> nat) a x b :
    list_sum (map f (a ++ x :: b)) = f x + list_sum (map f (a ++ b)).
  Proof. rewrite !map_app, !list_sum_app. simpl. lia. Qed.

  Theorem step_decreases s s' : step s s' -> (measure s' < measure s)%nat.
  Proof.
    intros St. destruct St; unfold Pool.measure; cbn [todo closed queue workers];
      rewrite ?list_sum_mid, ?map_app, ?list_sum_app; simpl; lia.
  Qed.

  (* a run of k steps from s needs k <= measure s *)
  Inductive run : nat -> state -> state -> Prop :=
  | RunNil : forall s, run 0 s s
  | RunCons : forall k s s' s'', step s s' -> run k s' s'' -> run (S k) s s''.

  Theorem run_bounded k s s' : run k s s' -> (k + measure s' <= measure s)%nat.
  Proof.
    induction 1 as [|k s s' s'' St _ IH]; [ lia | ].
    apply step_decreases in St. lia.
  Qed.
  (* ---------------------------------------------------------------- every run can be completed *)
  Definition terminal_dec (s : state) : {terminal s} + {~ terminal s}.
  Proof.
    unfold terminal. destruct s as [td se q c ws o sc sd lg]; cbn [todo closed queue workers].
    destruct td; [ | right; intros (H & _); discriminate ].
    destruct c; [ | right; intros (_ & H & _); discriminate ].
    destruct q; [ | right; intros (_ & _ & H & _); discriminate ].
    destruct (all_exited_dec ws) as [A | NA]; [ left; auto | right; intros (_ & _ & _ & H); auto ].
  Defined.

  Lemma reachable_run s k s' : reachable s -> run k s s' -> reachable s'.
  Proof. intros R Hr. induction Hr; auto. apply IHHr. eapply ReachStep; eauto. Qed.

  (* from every reachable state some finite run ends in a terminal state; with run_bounded (all
     runs are finite) and progress (only terminal states are stuck): every maximal run of the pool
     is finite and ends with the process exiting *)
  Theorem completes s : 0 < n -> 0 < cap -> reachable s -> exists k s', run k s s' /\ terminal s'.
  Proof.
    intros Hn Hc. remember (measure s) as m eqn:Em. revert s Em.
    induction m as [m IH] using lt_wf_ind. intros s Em R.
    destruct (terminal_dec s) as [T | NT].
    - exists 0, s. split; [ constructor | exact T ].
    - destruct (progress s Hn Hc R NT) as [s1 St].
      pose proof (step_decreases _ _ St) as Hd.
      destruct (IH (measure s1)) with (s := s1) as (k & s' & Hr & T); try lia; auto.
      { eapply ReachStep; eauto. }
      exists (S k), s'. split; [ econstructor; eauto | exact T ].
  Qed.
End PoolProofs.

(* ------------------------------------------------------------------ a concrete run (non-vacuity) *)
Lemma reach_front {F L} (blocks_of : F -> list (list L)) cap (s0 s1 s : state F L) :
  step blocks_of cap s0 s1 -> reachable blocks_of cap s1 s -> reachable blocks_of cap s0 s.
Proof.
  intros St R. induction R as [|s s' R IH St'].
  - eapply ReachStep; [ apply ReachRefl | exact St ].
  - eapply ReachStep; [ exact IH | exact St' ].
Qed.

Definition ex_blocks (f : N) : list (list N) := [[f; (f + 100)%N]; [(f + 200)%N]].

Lemma example_run :
  exists s, reachable ex_blocks 10 (init [inr 1%N; inl 7%N; inr 2%N] 2) s /\ terminal s
            /\ out s = [7; 2; 102; 1; 101; 201; 202]%N.
Proof.
  eexists. split; [ | split ].
  - unfold init. cbn [repeat].
    eapply reach_front. { apply StepSend; cbn; lia. }
    eapply reach_front. { apply StepSay. }
    eapply reach_front. { apply StepSend; cbn; lia. }
    eapply reach_front. { apply StepClose. }
    eapply reach_front. { apply (StepRecv _ _ ex_blocks 10 1%N [] _ [2%N] true [] [WIdle]). }
    eapply reach_front. { apply (StepRecv _ _ ex_blocks 10 2%N [] _ [] true [WBusy 1%N [] (ex_blocks 1%N)] []). }
    eapply reach_front. { apply (StepEmit _ _ ex_blocks 10 2%N [] [2; 102]%N [[202%N]] [] _ [] true [WBusy 1%N [] (ex_blocks 1%N)] []). }
    eapply reach_front. { apply (StepEmit _ _ ex_blocks 10 1%N [] [1; 101]%N [[201%N]] [] _ [] true [] [WBusy 2%N _ [[202%N]]]). }
    eapply reach_front. { apply (StepEmit _ _ ex_blocks 10 1%N _ [201%N] [] [] _ [] true [] [WBusy 2%N _ [[202%N]]]). }
    eapply reach_front. { apply (StepEmit _ _ ex_blocks 10 2%N _ [202%N] [] [] _ [] true [WBusy 1%N _ []] []). }
    eapply reach_front. { apply (StepFinish _ _ ex_blocks 10 2%N _ [] _ [] true [WBusy 1%N _ []] []). }
    eapply reach_front. { apply (StepFinish _ _ ex_blocks 10 1%N _ [] _ [] true [] [WIdle]). }
    eapply reach_front. { apply (StepExit _ _ ex_blocks 10 [] _ [] [WIdle]). }
    eapply reach_front. { apply (StepExit _ _ ex_blocks 10 [] _ [WExited] []). }
    apply ReachRefl.
  - unfold terminal; cbn. repeat split; auto.
  - reflexivity.
Qed.
