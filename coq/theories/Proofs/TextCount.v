(* Proofs/TextCount.v — C01 read through the operators a condition applies to a text string: below the
   match limit, `#s` is the number of specified offsets, `$s at o` holds exactly for a specified offset,
   `$s` holds exactly when there is one.  Corollaries of the full text-string theorem. *)
From Boreal Require Import Base.Prelude Base.ListX Base.Bytes Base.Sorted Base.Consts Model.Base64 Model.Literals Model.AcScan
  Spec.TextSpec Model.TextCase Proofs.TextFull.

Theorem text_count d m prm :
  wf_decl d = true -> nlen (spec_offsets d m) <= p_max_nb_matches prm ->
  nlen (model_scan_text prm d m) = nlen (spec_offsets d m).
Proof.
  intros Hwf Hl. destruct (text_matches_full d m prm Hwf Hl) as [E _].
  unfold nlen. rewrite <- E, map_length. reflexivity.
Qed.

Theorem text_at d m prm o :
  wf_decl d = true -> nlen (spec_offsets d m) <= p_max_nb_matches prm ->
  ((exists x, In x (model_scan_text prm d m) /\ sm_off x = o) <-> In o (spec_offsets d m)).
Proof.
  intros Hwf Hl. destruct (text_matches_full d m prm Hwf Hl) as [E _].
  rewrite <- E, in_map_iff. split; intros [x [A B]]; exists x; tauto.
Qed.

Theorem text_found d m prm :
  wf_decl d = true -> nlen (spec_offsets d m) <= p_max_nb_matches prm ->
  (model_scan_text prm d m = [] <-> spec_offsets d m = []).
Proof.
  intros Hwf Hl. destruct (text_matches_full d m prm Hwf Hl) as [E _].
  rewrite <- E. split.
  - intros ->. reflexivity.
  - intros H. destruct (model_scan_text prm d m); [reflexivity | discriminate].
Qed.
