(* Proofs/ModFuncsCrc.v — C16_crc32: the byte-wise table-driven CRC-32 (the contract crc32fast is modelled by)
   equals the bit-wise reference of Spec/Digest.v, for all byte strings and every register value. *)
From Boreal Require Import Base.Prelude Spec.MathSpec Spec.Digest Spec.RangeSpec Model.ModFuncs Model.HashMod
  Proofs.ModFuncsProofs Proofs.ModFuncsFrag Proofs.ModFuncsMath.
Open Scope N_scope.

(* crc_step is linear over GF(2) *)
Lemma odd_lxor : forall a b, N.odd (N.lxor a b) = xorb (N.odd a) (N.odd b).
Proof. intros. rewrite <- !N.bit0_odd. apply N.lxor_spec. Qed.

Lemma crc_step_lxor : forall a b, crc_step (N.lxor a b) = N.lxor (crc_step a) (crc_step b).
Proof.
  intros a b. unfold crc_step. rewrite odd_lxor, N.shiftr_lxor.
  destruct (N.odd a), (N.odd b); cbn [xorb].
  - (* p ^ p cancels *)
    rewrite N.lxor_assoc. rewrite (N.lxor_comm crc_poly (N.lxor (N.shiftr b 1) crc_poly)).
    rewrite (N.lxor_assoc (N.shiftr b 1)). rewrite N.lxor_nilpotent, N.lxor_0_r. reflexivity.
  - rewrite !N.lxor_assoc. f_equal. apply N.lxor_comm.
  - rewrite N.lxor_assoc. reflexivity.
  - reflexivity.
Qed.

Lemma crc_iter_lxor : forall k a b, crc_iter k (N.lxor a b) = N.lxor (crc_iter k a) (crc_iter k b).
Proof. induction k; intros a b; cbn [crc_iter]; [reflexivity|]. now rewrite crc_step_lxor, IHk. Qed.

(* k steps on a value whose k low bits are zero just shift *)
Lemma crc_iter_shiftl : forall k y, crc_iter k (N.shiftl y (N.of_nat k)) = y.
Proof.
  induction k; intros y.
  - cbn. apply N.shiftl_0_r.
  - cbn [crc_iter]. unfold crc_step.
    assert (Hodd : N.odd (N.shiftl y (N.of_nat (S k))) = false).
    { rewrite <- N.bit0_odd. apply N.shiftl_spec_low. lia. }
    rewrite Hodd.
    assert (Hs : N.shiftr (N.shiftl y (N.of_nat (S k))) 1 = N.shiftl y (N.of_nat k)).
    { replace (N.of_nat (S k)) with (N.of_nat k + 1) by lia.
      rewrite <- N.shiftl_shiftl. rewrite N.shiftr_shiftl_l by lia.
      replace (1 - 1) with 0 by lia. apply N.shiftl_0_r. }
    rewrite Hs. apply IHk.
Qed.

(* split a register into its low byte and the rest *)
Lemma split_low_byte : forall x, x = N.lxor (N.land x 255) (N.shiftl (N.shiftr x 8) 8).
Proof.
  intros x. apply N.bits_inj. intros n. rewrite N.lxor_spec.
  change 255 with (N.ones 8). rewrite N.land_ones.
  destruct (n <? 8) eqn:E.
  - rewrite N.mod_pow2_bits_low by lia. rewrite N.shiftl_spec_low by lia. now rewrite xorb_false_r.
  - rewrite N.mod_pow2_bits_high by lia. rewrite N.shiftl_spec_high' by lia.
    rewrite N.shiftr_spec'. rewrite xorb_false_l. replace (n - 8 + 8) with n by lia. reflexivity.
Qed.

Lemma crc_table_nth : forall i, i < 256 -> nth (N.to_nat i) crc_table 0 = crc_iter 8 i.
Proof.
  intros i Hi. unfold crc_table.
  rewrite (nth_map_any (crc_iter 8)) by (rewrite upto_length; lia).
  rewrite nth_upto by lia. f_equal. lia.
Qed.

Lemma shiftr_lxor_low : forall c b, b < 256 -> N.shiftr (N.lxor c b) 8 = N.shiftr c 8.
Proof.
  intros c b Hb. rewrite N.shiftr_lxor.
  assert (N.shiftr b 8 = 0) as ->; [|apply N.lxor_0_r].
  rewrite N.shiftr_div_pow2. apply N.div_small. exact Hb.
Qed.

(* one byte: table look-up = eight bit-wise steps *)
Lemma crc_byte_tab_ref : forall c b, b < 256 -> crc_byte_tab c b = crc_byte_ref c b.
Proof.
  intros c b Hb. unfold crc_byte_tab, crc_byte_ref.
  set (x := N.lxor c b).
  assert (Hlow : N.land x 255 < 256).
  { change 255 with (N.ones 8). rewrite N.land_ones. apply N.mod_lt. discriminate. }
  rewrite crc_table_nth by exact Hlow.
  rewrite (split_low_byte x) at 2. rewrite crc_iter_lxor.
  replace (crc_iter 8 (N.shiftl (N.shiftr x 8) 8)) with (N.shiftr x 8)
    by (symmetry; exact (crc_iter_shiftl 8 (N.shiftr x 8))).
  unfold x. now rewrite shiftr_lxor_low.
Qed.

Lemma crc_fold_eq : forall l c, Forall (fun b => b < 256) l ->
  fold_left crc_byte_tab l c = fold_left crc_byte_ref l c.
Proof.
  induction l as [|b l IH]; intros c Hf; cbn [fold_left]; [reflexivity|].
  inversion Hf as [|? ? Hb Hl]; subst. rewrite crc_byte_tab_ref by exact Hb. now apply IH.
Qed.

(* C16_crc32 *)
Lemma crc32_correct : forall l, Forall (fun b => b < 256) l ->
  from_bytes crc_d l = RInt (Z.of_N (crc32_ref l)).
Proof.
  intros l Hf. unfold from_bytes, crc32_ref. cbn. now rewrite crc_fold_eq.
Qed.

(* C16_hash_fragmented: a streaming digest over a fragmented memory = the digest of the bytes RangeSpec describes *)
Lemma hash_fragmented : forall d rs o e,
  streaming d -> (forall st, d_update d st [] = st) -> regions_ok rs -> o <= e ->
  from_mem d (Frag true rs) o e =
    match spec_frag rs o (e - o) with Some t => from_bytes d t | None => RUndef end.
Proof.
  intros d rs o e Hs Hn Hok Hle. unfold from_mem, from_mem_gen.
  change (on_range_gen (d_update d) true) with (on_range (d_update d)).
  rewrite (on_range_frag _ (d_update d) Hs Hn) by assumption.
  destruct (spec_frag rs o (e - o)); reflexivity.
Qed.

Lemma instances_nil : (forall f st, d_update (bytes_digest f) st [] = st)
  /\ (forall st, d_update checksum_d st [] = st) /\ (forall st, d_update crc_d st [] = st).
Proof. repeat split; intros; cbn; auto using app_nil_r. Qed.
