(* Proofs/AcScanAppend.v — C12 at the level of rule SETS: the results of the strings of A are the same
   whether A is compiled alone or together with any other strings B, placed before, after or in
   between; reordering the strings reorders the results and changes none.  All are corollaries of
   the per-variable decomposition (AcScanDecomp). *)
From Coq Require Import Permutation.
From Boreal Require Import Base.Prelude Base.ListX Base.Bytes Model.Literals Model.Ac Model.AcScan
  Proofs.AcScanDecomp.

(* compiling A and B together gives A's results followed by B's results *)
Theorem scan_direct_app prm va vb mem :
  scan_direct prm (va ++ vb) mem = scan_direct prm va mem ++ scan_direct prm vb mem.
Proof. rewrite !scan_direct_per_variable. apply map_app. Qed.

Theorem scan_fragmented_app prm va vb regions :
  scan_fragmented prm (va ++ vb) regions
  = scan_fragmented prm va regions ++ scan_fragmented prm vb regions.
Proof. rewrite !scan_fragmented_per_variable. apply map_app. Qed.

Lemma scan_direct_length prm vars mem : length (scan_direct prm vars mem) = length vars.
Proof. rewrite scan_direct_per_variable. apply map_length. Qed.

Lemma scan_fragmented_length prm vars regions :
  length (scan_fragmented prm vars regions) = length vars.
Proof. rewrite scan_fragmented_per_variable. apply map_length. Qed.

(* the strings of A, with unrelated strings before (pre) and after (post): exactly A alone *)
Theorem scan_direct_embedded prm pre va post mem :
  firstn (length va) (skipn (length pre) (scan_direct prm (pre ++ va ++ post) mem))
  = scan_direct prm va mem.
Proof.
  rewrite !scan_direct_app.
  rewrite <- (scan_direct_length prm pre mem), skipn_app, skipn_all, Nat.sub_diag.
  cbn [skipn app].
  rewrite <- (scan_direct_length prm va mem), firstn_app, firstn_all, Nat.sub_diag.
  cbn [firstn]. apply app_nil_r.
Qed.

Theorem scan_fragmented_embedded prm pre va post regions :
  firstn (length va) (skipn (length pre) (scan_fragmented prm (pre ++ va ++ post) regions))
  = scan_fragmented prm va regions.
Proof.
  rewrite !scan_fragmented_app.
  rewrite <- (scan_fragmented_length prm pre regions), skipn_app, skipn_all, Nat.sub_diag.
  cbn [skipn app].
  rewrite <- (scan_fragmented_length prm va regions), firstn_app, firstn_all, Nat.sub_diag.
  cbn [firstn]. apply app_nil_r.
Qed.

(* reordering the strings reorders the results in the same way *)
Theorem scan_direct_perm prm va vb mem :
  Permutation va vb -> Permutation (scan_direct prm va mem) (scan_direct prm vb mem).
Proof. intros H. rewrite !scan_direct_per_variable. now apply Permutation_map. Qed.

Theorem scan_fragmented_perm prm va vb regions :
  Permutation va vb -> Permutation (scan_fragmented prm va regions) (scan_fragmented prm vb regions).
Proof. intros H. rewrite !scan_fragmented_per_variable. now apply Permutation_map. Qed.

(* the same string at two positions of two different sets gets the same matches *)
Theorem scan_direct_same_string prm va vb mem i j var :
  nth_error va i = Some var -> nth_error vb j = Some var ->
  nth_error (scan_direct prm va mem) i = nth_error (scan_direct prm vb mem) j.
Proof.
  intros Hi Hj. rewrite !scan_direct_per_variable, !nth_error_map, Hi, Hj. reflexivity.
Qed.

Theorem scan_fragmented_same_string prm va vb regions i j var :
  nth_error va i = Some var -> nth_error vb j = Some var ->
  nth_error (scan_fragmented prm va regions) i = nth_error (scan_fragmented prm vb regions) j.
Proof.
  intros Hi Hj. rewrite !scan_fragmented_per_variable, !nth_error_map, Hi, Hj. reflexivity.
Qed.
