(* Proofs/ModFuncsMath.v — C16: the streaming digests of the math module (Mean, SerialCorrelation, MonteCarloPi,
   Distribution): fold update over slices = update of the concatenation; their integer cores equal Spec/MathSpec. *)
From Coq Require Import QArith Qabs Qreduction.
From Boreal Require Import Base.Prelude Spec.MathSpec Model.ModFuncs Model.MathMod Model.StringMod Model.ModFuncsCase
  Proofs.ModFuncsProofs.
Open Scope N_scope.

Definition mstreaming (d : mdigest) (inv : md_state d -> Prop) : Prop :=
  forall st a b, inv st -> md_update d (md_update d st a) b = md_update d st (a ++ b) /\ inv (md_update d st a).

(* fold over slices = one update with the concatenation *)
Lemma fold_update_concat : forall d inv, mstreaming d inv ->
  forall slices st, inv st -> md_update d st [] = st ->
  fold_left (md_update d) slices st = md_update d st (concat slices).
Proof.
  intros d inv Hs slices; induction slices as [|a r IH]; intros st Hi Hnil; cbn [fold_left concat].
  - now rewrite Hnil.
  - destruct (Hs st a [] Hi) as [H1 H2].
    rewrite IH; [|assumption|now rewrite H1, app_nil_r].
    now destruct (Hs st a (concat r) Hi) as [-> _].
Qed.

(* ------------------------------------------------------------------ Mean *)
Lemma sat_add_assoc : forall a b c, sat_add (sat_add a b) c = sat_add a (b + c).
Proof. intros. unfold sat_add, umax. lia. Qed.

Lemma mean_streaming : mstreaming mean_d (fun _ => True).
Proof.
  intros [s n] a b _. split; [|exact I]. cbn. f_equal.
  - now rewrite fold_left_app.
  - rewrite sat_add_assoc, nlen_app. reflexivity.
Qed.

Lemma fold_sat_add : forall l acc, acc + sum_list l <= umax -> fold_left (fun a b => sat_add a b) l acc = acc + sum_list l.
Proof.
  unfold sum_list. induction l as [|b l IH]; intros acc H; cbn [fold_left fold_right] in *; [lia|].
  rewrite IH; unfold sat_add; lia.
Qed.

Lemma mean_bytes : forall s, sum_list s <= umax -> nlen s <= umax ->
  compute_from_bytes mean_d s = of_opt_f (mean_spec s).
Proof.
  intros s H1 H2. unfold compute_from_bytes, mean_spec. cbn.
  rewrite fold_sat_add by lia. rewrite N.add_0_l.
  assert (sat_add 0 (nlen s) = nlen s) as -> by (unfold sat_add; lia).
  destruct s as [|x r]; [reflexivity|].
  destruct (nlen (x :: r) =? 0) eqn:E; [unfold nlen in E; cbn in E; lia|reflexivity].
Qed.

(* ------------------------------------------------------------------ Distribution = histogram *)
Lemma dist_streaming : forall st a b, dist_update (dist_update st a) b = dist_update st (a ++ b).
Proof.
  intros [cs n] a b. unfold dist_update. cbn. f_equal.
  - now rewrite fold_left_app.
  - rewrite nlen_app. lia.
Qed.

Lemma incr_at_length : forall i l, length (incr_at i l) = length l.
Proof. induction i; destruct l; cbn; auto. Qed.

Lemma nth_incr_at : forall i j l, (j < length l)%nat ->
  nth i (incr_at j l) 0 = if Nat.eqb i j then nth i l 0 + 1 else nth i l 0.
Proof.
  induction i; intros j l H; destruct l as [|x l]; cbn in H; try lia; destruct j; cbn; try reflexivity.
  apply IHi. lia.
Qed.

Lemma count_of_cons : forall b x l, count_of b (x :: l) = (if b =? x then 1 else 0) + count_of b l.
Proof. intros. unfold count_of. cbn [filter]. destruct (b =? x); unfold nlen; cbn [length]; lia. Qed.

Lemma fold_incr_nth : forall data cs i, length cs = 256%nat -> Forall (fun b => b < 256) data ->
  length (fold_left (fun cs b => incr_at (N.to_nat b) cs) data cs) = 256%nat /\
  nth i (fold_left (fun cs b => incr_at (N.to_nat b) cs) data cs) 0 = nth i cs 0 + count_of (N.of_nat i) data.
Proof.
  induction data as [|x data IH]; intros cs i Hl Hf; cbn [fold_left].
  - split; [assumption|]. unfold count_of. cbn. lia.
  - inversion Hf as [|? ? Hx Hf']; subst.
    destruct (IH (incr_at (N.to_nat x) cs) i) as [L Hn]; [now rewrite incr_at_length|assumption|].
    split; [assumption|]. rewrite Hn, nth_incr_at by lia. rewrite count_of_cons.
    destruct (Nat.eqb i (N.to_nat x)) eqn:E1; destruct (N.of_nat i =? x) eqn:E2; try lia.
Qed.

Lemma upto_length : forall k from, length (upto k from) = k.
Proof. induction k; intros; cbn; [reflexivity|now rewrite IHk]. Qed.

Lemma nth_upto : forall k from i, (i < k)%nat -> nth i (upto k from) 0 = from + N.of_nat i.
Proof.
  induction k; intros from i H; [lia|]. destruct i; cbn; [lia|]. rewrite IHk by lia. lia.
Qed.

Lemma nth_map_zero : forall (l : list N) i, nth i (map (fun _ => 0) l) 0 = 0.
Proof. induction l; destruct i; cbn; auto. Qed.

Lemma nth_map_any : forall (f : N -> N) l i d, (i < length l)%nat -> nth i (map f l) d = f (nth i l 0).
Proof. induction l; intros i d H; cbn in H; [lia|]. destruct i; cbn; [reflexivity|]. apply IHl. lia. Qed.

Lemma counters_histogram : forall s, Forall (fun b => b < 256) s ->
  counters (distribution_from_bytes s) = histogram s.
Proof.
  intros s Hf. unfold distribution_from_bytes, dist_update, dist_init, histogram. cbn [counters].
  assert (Hz : length zeros256 = 256%nat) by reflexivity.
  apply (nth_ext _ _ 0 0).
  - destruct (fold_incr_nth s zeros256 0 Hz Hf) as [L _]. rewrite L, map_length. reflexivity.
  - intros i Hi. destruct (fold_incr_nth s zeros256 i Hz Hf) as [L Hn]. rewrite L in Hi. rewrite Hn.
    assert (nth i zeros256 0 = 0) as -> by apply nth_map_zero.
    rewrite (nth_map_any (fun b => count_of b s)) by exact Hi.
    unfold all_bytes. rewrite nth_upto by exact Hi. rewrite !N.add_0_l. reflexivity.
Qed.

Lemma nb_values_bytes : forall s, nb_values (distribution_from_bytes s) = nlen s.
Proof. intros. cbn. lia. Qed.

Lemma entropy_bytes : forall s, Forall (fun b => b < 256) s ->
  compute_entropy (distribution_from_bytes s) = RFloat (entropy_spec s).
Proof.
  intros s Hf. unfold compute_entropy, entropy_spec. now rewrite counters_histogram, nb_values_bytes.
Qed.

Lemma histogram_get : forall s b, b < 256 -> counters_get (histogram s) b = Some (count_of b s).
Proof.
  intros s b Hb. unfold counters_get, histogram.
  assert (Hl : nlen (map (fun b0 => count_of b0 s) all_bytes) = 256) by reflexivity.
  rewrite Hl. destruct (b <? 256) eqn:E; [|lia].
  rewrite nth_error_map. unfold all_bytes.
  assert (nth_error (upto 256 0) (N.to_nat b) = Some b) as ->; [|reflexivity].
  rewrite (nth_error_nth' _ 0) by (rewrite upto_length; lia). rewrite nth_upto by lia. f_equal. lia.
Qed.

Lemma histogram_get_high : forall s b, 256 <= b -> counters_get (histogram s) b = None.
Proof.
  intros s b Hb. unfold counters_get, histogram.
  assert (Hl : nlen (map (fun b0 => count_of b0 s) all_bytes) = 256) by reflexivity.
  rewrite Hl. destruct (b <? 256) eqn:E; [lia|reflexivity].
Qed.

(* math.count(byte) / math.percentage(byte) over the whole byte slice *)
Lemma count_whole : forall mem b, Forall (fun x => x < 256) mem ->
  count_call (Direct mem) [AInt b] = spec_call (Direct mem) MCount [AInt b].
Proof.
  intros mem b Hf. unfold count_call, spec_call, to_usize. cbn [dist_of_args whole_or_range get_direct with_dist].
  destruct (b <? 0)%Z eqn:E; [reflexivity|].
  rewrite counters_histogram by assumption. unfold count_spec.
  destruct (256 <=? Z.to_N b) eqn:E2.
  - now rewrite histogram_get_high by lia.
  - now rewrite histogram_get by lia.
Qed.

Lemma percentage_whole : forall mem b, Forall (fun x => x < 256) mem ->
  percentage_call (Direct mem) [AInt b] = spec_call (Direct mem) MPercentage [AInt b].
Proof.
  intros mem b Hf. unfold percentage_call, spec_call, to_usize.
  cbn [dist_of_args whole_or_range get_direct with_dist].
  destruct (b <? 0)%Z eqn:E; [reflexivity|].
  rewrite counters_histogram, nb_values_bytes by assumption. unfold percentage_spec.
  destruct (256 <=? Z.to_N b) eqn:E2.
  - now rewrite histogram_get_high by lia.
  - rewrite histogram_get by lia. destruct mem as [|x r]; [reflexivity|].
    destruct (nlen (x :: r) =? 0) eqn:E3; [unfold nlen in E3; cbn in E3; lia|reflexivity].
Qed.

(* ------------------------------------------------------------------ SerialCorrelation *)
Lemma scc_fold_fields : forall data st,
  sfirst (fold_left scc_byte data st) = sfirst st /\ sfirst_range (fold_left scc_byte data st) = sfirst_range st
  /\ slast (fold_left scc_byte data st) = slast st /\ snb (fold_left scc_byte data st) = snb st.
Proof.
  induction data as [|b r IH]; intros st; cbn [fold_left]; [auto|].
  destruct (IH (scc_byte st b)) as (H1 & H2 & H3 & H4). rewrite H1, H2, H3, H4. cbn. auto.
Qed.

(* the accumulators do not depend on the first/last bookkeeping *)
Lemma scc_fold_acc : forall data st st',
  scct1 st = scct1 st' -> scct2 st = scct2 st' -> scct3 st = scct3 st' -> sprev st = sprev st' ->
  let r := fold_left scc_byte data st in let r' := fold_left scc_byte data st' in
  scct1 r = scct1 r' /\ scct2 r = scct2 r' /\ scct3 r = scct3 r' /\ sprev r = sprev r'.
Proof.
  induction data as [|b r IH]; intros st st' H1 H2 H3 H4; cbn [fold_left]; [auto|].
  apply IH; cbn; congruence.
Qed.

Lemma scc_state_eq : forall a b : scc_state,
  scct1 a = scct1 b -> scct2 a = scct2 b -> scct3 a = scct3 b -> sprev a = sprev b -> sfirst a = sfirst b ->
  sfirst_range a = sfirst_range b -> slast a = slast b -> snb a = snb b -> a = b.
Proof. intros [] []; cbn; intros; subst; reflexivity. Qed.

Lemma last_app_ne : forall (a b : list N) d, b <> [] -> last (a ++ b) d = last b d.
Proof.
  induction a as [|x a IH]; intros b d Hb; [reflexivity|].
  cbn [app]. destruct (a ++ b) eqn:E.
  - destruct a, b; cbn in E; congruence.
  - rewrite <- E. cbn [last]. rewrite E. rewrite <- E. now apply IH.
Qed.

Lemma scc_streaming : mstreaming scc_d (fun _ => True).
Proof.
  intros st a b _. split; [|exact I]. cbn [md_update scc_d].
  destruct a as [|a0 a'].
  - (* empty first slice: identity *)
    assert (scc_update st [] = st) as ->; [|reflexivity].
    destruct st. unfold scc_update. cbn. f_equal. unfold nlen. cbn. lia.
  - destruct b as [|b0 b'].
    + rewrite app_nil_r. set (x := scc_update st (a0 :: a')).
      destruct x eqn:Ex. unfold scc_update at 1. cbn. f_equal. unfold nlen. cbn. lia.
    + unfold scc_update.
      cbn [app].
      set (sa1 := {| scct1 := scct1 st; scct2 := scct2 st; scct3 := scct3 st; sprev := sprev st;
                     sfirst := if sfirst_range st then a0 else sfirst st; sfirst_range := false;
                     slast := last (a0 :: a') 0; snb := snb st |}).
      set (sab1 := {| scct1 := scct1 st; scct2 := scct2 st; scct3 := scct3 st; sprev := sprev st;
                      sfirst := if sfirst_range st then a0 else sfirst st; sfirst_range := false;
                      slast := last (a0 :: a' ++ b0 :: b') 0; snb := snb st |}).
      destruct (scc_fold_fields (a0 :: a') sa1) as (Fa1 & Fa2 & Fa3 & Fa4).
      set (sa := fold_left scc_byte (a0 :: a') sa1) in *.
      cbn [scct1 scct2 scct3 sprev sfirst sfirst_range slast snb].
      rewrite Fa2.
      set (sb1 := {| scct1 := scct1 sa; scct2 := scct2 sa; scct3 := scct3 sa; sprev := sprev sa;
                     sfirst := if sfirst_range sa1 then b0 else sfirst sa; sfirst_range := false;
                     slast := last (b0 :: b') 0;
                     snb := snb sa + nlen (a0 :: a') |}).
      destruct (scc_fold_fields (b0 :: b') sb1) as (Fb1 & Fb2 & Fb3 & Fb4).
      change (a0 :: a' ++ b0 :: b') with ((a0 :: a') ++ (b0 :: b')).
      rewrite fold_left_app.
      destruct (scc_fold_fields (b0 :: b') (fold_left scc_byte (a0 :: a') sab1)) as (Fc1 & Fc2 & Fc3 & Fc4).
      destruct (scc_fold_fields (a0 :: a') sab1) as (Fd1 & Fd2 & Fd3 & Fd4).
      destruct (scc_fold_acc (a0 :: a') sa1 sab1 eq_refl eq_refl eq_refl eq_refl) as (G1 & G2 & G3 & G4).
      fold sa in G1, G2, G3, G4.
      destruct (scc_fold_acc (b0 :: b') sb1 (fold_left scc_byte (a0 :: a') sab1) G1 G2 G3 G4)
        as (K1 & K2 & K3 & K4).
      apply scc_state_eq; cbn [scct1 scct2 scct3 sprev sfirst sfirst_range slast snb].
      * exact K1.
      * exact K2.
      * exact K3.
      * exact K4.
      * rewrite Fb1, Fc1, Fd1. exact Fa1.
      * rewrite Fb2, Fc2, Fd2. reflexivity.
      * rewrite Fb3, Fc3, Fd3. cbn [slast sb1 sab1].
        change (a0 :: a' ++ b0 :: b') with ((a0 :: a') ++ (b0 :: b')).
        symmetry. apply last_app_ne. discriminate.
      * rewrite Fb4, Fc4, Fd4. cbn [snb sb1 sab1]. rewrite Fa4. cbn [snb sa1].
        rewrite nlen_app. lia.
Qed.

(* ------------------------------------------------------------------ MonteCarloPi *)
Definition mc_clear (st : mc_state) : mc_state := {| inmount := inmount st; mcount := mcount st; pending := [] |}.

Lemma mc_chunks_short : forall st l, (length l < 6)%nat ->
  mc_chunks st l = {| inmount := inmount st; mcount := mcount st; pending := l |}.
Proof.
  intros st l H. destruct l as [|a [|b [|c [|d [|e [|g r]]]]]]; try reflexivity. cbn in H. lia.
Qed.

Lemma mc_chunks_six : forall st w r, length w = 6%nat -> mc_chunks st (w ++ r) = mc_chunks (mc_add_group st w []) r.
Proof.
  intros st w r H. destruct w as [|a [|b [|c [|d [|e [|g [|x w]]]]]]]; cbn in H; try lia. reflexivity.
Qed.

Lemma mc_chunks_clear : forall l st, mc_chunks st l = mc_chunks (mc_clear st) l.
Proof.
  intros l st. destruct l as [|a [|b [|c [|d [|e [|g r]]]]]]; reflexivity.
Qed.

(* induction in steps of six *)
Lemma list_ind6 : forall (P : list N -> Prop),
  (forall l, (length l < 6)%nat -> P l) ->
  (forall w r, length w = 6%nat -> P r -> P (w ++ r)) ->
  forall l, P l.
Proof.
  intros P Hs H6 l. remember (length l) as n eqn:Hn. revert l Hn.
  induction n as [n IH] using lt_wf_ind. intros l Hn.
  destruct (Nat.ltb (length l) 6) eqn:E.
  - apply Hs. apply Nat.ltb_lt in E. exact E.
  - apply Nat.ltb_ge in E. rewrite <- (firstn_skipn 6 l). apply H6.
    + rewrite firstn_length. lia.
    + apply (IH (length (skipn 6 l))); [rewrite skipn_length; lia|reflexivity].
Qed.

Lemma mc_chunks_pending_short : forall l st, (length (pending (mc_chunks st l)) < 6)%nat.
Proof.
  intros l. induction l as [l Hl|w r Hw IH] using list_ind6; intros st.
  - rewrite mc_chunks_short by assumption. exact Hl.
  - rewrite mc_chunks_six by assumption. apply IH.
Qed.

(* chunking l ++ b = chunking l, then going on with what l left pending *)
Lemma mc_chunks_app : forall l b st,
  mc_chunks st (l ++ b) = mc_chunks (mc_clear (mc_chunks st l)) (pending (mc_chunks st l) ++ b).
Proof.
  intros l. induction l as [l Hl|w r Hw IH] using list_ind6; intros b st.
  - rewrite (mc_chunks_short st l) by assumption. cbn [pending].
    rewrite (mc_chunks_clear (l ++ b) st). reflexivity.
  - rewrite <- app_assoc. rewrite (mc_chunks_six st w (r ++ b)) by assumption.
    rewrite (mc_chunks_six st w r) by assumption. apply IH.
Qed.

(* MonteCarloPi::update as fixed = chunk (pending ++ data) *)
Lemma mc_update_feed : forall st data, (length (pending st) < 6)%nat ->
  mc_update st data = mc_chunks (mc_clear st) (pending st ++ data).
Proof.
  intros st data Hp. unfold mc_update.
  destruct (pending st) as [|p0 p'] eqn:Ep.
  - cbn [app]. apply mc_chunks_clear.
  - rewrite <- Ep in *. clear Ep p0 p'.
    set (n := Nat.min (6 - length (pending st)) (length data)).
    replace (pending st ++ data) with ((pending st ++ firstn n data) ++ skipn n data)
      by (rewrite <- app_assoc, firstn_skipn; reflexivity).
    destruct (Nat.ltb (length (pending st ++ firstn n data)) 6) eqn:E.
    + apply Nat.ltb_lt in E. rewrite app_length, firstn_length in E.
      assert (Hall : skipn n data = []) by (apply skipn_all2; unfold n in *; lia).
      rewrite Hall, app_nil_r. rewrite mc_chunks_short by (rewrite app_length, firstn_length; lia).
      reflexivity.
    + apply Nat.ltb_ge in E.
      rewrite mc_chunks_six by (rewrite app_length, firstn_length in *; unfold n in *; lia).
      reflexivity.
Qed.

Definition mc_inv (st : mc_state) : Prop := (length (pending st) < 6)%nat.

Lemma mc_streaming : mstreaming mc_d mc_inv.
Proof.
  intros st a b Hi. unfold mc_inv in *. cbn [md_update mc_d].
  assert (Hi' : (length (pending (mc_update st a)) < 6)%nat).
  { rewrite mc_update_feed by assumption. apply mc_chunks_pending_short. }
  split; [|exact Hi'].
  rewrite (mc_update_feed (mc_update st a)) by assumption.
  rewrite !(mc_update_feed st) by assumption.
  rewrite app_assoc. symmetry. apply mc_chunks_app.
Qed.

(* C16_stream: for the three MathDigests, any way of slicing gives the value of the whole *)
Lemma stream_all : forall slices,
  fold_left (md_update mean_d) slices (md_init mean_d) = md_update mean_d (md_init mean_d) (concat slices)
  /\ fold_left (md_update scc_d) slices (md_init scc_d) = md_update scc_d (md_init scc_d) (concat slices)
  /\ fold_left (md_update mc_d) slices (md_init mc_d) = md_update mc_d (md_init mc_d) (concat slices).
Proof.
  intros slices. repeat split.
  - apply (fold_update_concat mean_d _ mean_streaming); [exact I|reflexivity].
  - apply (fold_update_concat scc_d _ scc_streaming); [exact I|reflexivity].
  - apply (fold_update_concat mc_d _ mc_streaming); [unfold mc_inv; cbn; lia|reflexivity].
Qed.

(* the pinned MonteCarloPi: DESIGN 9.13, 24 bytes split 5 + 19 *)
Lemma stream_mc_pinned_refuted : exists slices,
  md_finalize mc_pinned_d (fold_left (md_update mc_pinned_d) slices (md_init mc_pinned_d))
  <> md_finalize mc_pinned_d (md_update mc_pinned_d (md_init mc_pinned_d) (concat slices)).
Proof.
  exists [[0;0;0;0;0]; [0;255;255;255;255;255;255;0;0;0;0;0;0;255;255;255;255;255;255]].
  vm_compute. discriminate.
Qed.

(* MonteCarloPi over a literal = the textbook hit count over complete groups of six *)
Lemma mc_chunks_groups : forall l st,
  inmount (mc_chunks st l) = inmount st + nlen (filter in_circle (groups6 l))
  /\ mcount (mc_chunks st l) = mcount st + nlen (groups6 l).
Proof.
  intros l. induction l as [l Hl|w r Hw IH] using list_ind6; intros st.
  - rewrite mc_chunks_short by assumption.
    assert (groups6 l = []) as -> by (destruct l as [|a [|b [|c [|d [|e [|g r]]]]]]; try reflexivity; cbn in Hl; lia).
    cbn. unfold nlen. cbn. lia.
  - rewrite mc_chunks_six by assumption.
    destruct w as [|a [|b [|c [|d [|e [|g [|x w]]]]]]]; cbn in Hw; try lia.
    destruct (IH (mc_add_group st [a; b; c; d; e; g] [])) as [H1 H2]. rewrite H1, H2.
    change ([a; b; c; d; e; g] ++ r) with (a :: b :: c :: d :: e :: g :: r).
    cbn [groups6 filter]. unfold mc_add_group. cbn [inmount mcount].
    destruct (in_circle [a; b; c; d; e; g]); unfold nlen; cbn [length]; lia.
Qed.

Lemma monte_bytes : forall s, compute_from_bytes mc_d s = of_opt_f (monte_spec s).
Proof.
  intros s. unfold compute_from_bytes, monte_spec. cbn [md_finalize md_update md_init mc_d].
  unfold mc_update, mc_init. cbn [pending].
  destruct (mc_chunks_groups s {| inmount := 0; mcount := 0; pending := [] |}) as [H1 H2].
  unfold mc_finalize. rewrite H1, H2. cbn [inmount mcount]. rewrite !N.add_0_l.
  destruct (groups6 s) as [|g gs]; [reflexivity|].
  destruct (nlen (g :: gs) =? 0) eqn:E; [unfold nlen in E; cbn in E; lia|reflexivity].
Qed.

(* ------------------------------------------------------------------ small integer functions *)
Lemma u64_of_mod : forall z, (-9223372036854775808 <= z <= 9223372036854775807)%Z -> u64_of z = as_u64 z.
Proof. intros z H. unfold u64_of, as_u64, two64. destruct (z <? 0)%Z eqn:E; lia. Qed.

Lemma min_max_spec : forall a b,
  (-9223372036854775808 <= a <= 9223372036854775807)%Z -> (-9223372036854775808 <= b <= 9223372036854775807)%Z ->
  min_call [AInt a; AInt b] = RInt (min_spec a b) /\ max_call [AInt a; AInt b] = RInt (max_spec a b).
Proof.
  intros a b Ha Hb. unfold min_call, max_call, min_spec, max_spec. rewrite !u64_of_mod by assumption.
  split; [reflexivity|]. rewrite Z.gtb_ltb. reflexivity.
Qed.

Lemma small_ints_spec : forall m,
  (forall v, abs_call [AInt v] = spec_call m MAbs [AInt v])
  /\ (forall b, to_number_call [ABool b] = spec_call m MToNumber [ABool b])
  /\ (forall s, length_call [AStr s] = spec_call m SLength [AStr s]).
Proof.
  intros m. repeat split; intros; try reflexivity.
  unfold abs_call, spec_call, abs_spec. destruct (v =? -9223372036854775808)%Z; reflexivity.
Qed.

Lemma to_string_spec_eq : forall m v,
  (-9223372036854775808 <= v <= 9223372036854775807)%Z ->
  to_string_call [AInt v] = spec_call m MToString [AInt v]
  /\ forall b, to_string_call [AInt v; AInt b] = spec_call m MToString [AInt v; AInt b].
Proof.
  intros m v Hv. split; [reflexivity|]. intros b. unfold to_string_call, spec_call, to_string_spec.
  rewrite u64_of_mod by assumption.
  destruct b as [|p|p]; try reflexivity.
  do 6 (destruct p as [p|p|]; try reflexivity).
Qed.

(* ------------------------------------------------------------------ mode: a byte value of maximal count *)
Definition keep_last_max (best y : N * N) : N * N := if snd best <=? snd y then y else best.

Lemma fold_max : forall r x,
  let z := fold_left keep_last_max r x in
  (z = x \/ In z r) /\ snd x <= snd z /\ forall y, In y r -> snd y <= snd z.
Proof.
  induction r as [|y r IH]; intros x; cbn [fold_left].
  - repeat split; [now left|lia|intros y []].
  - destruct (IH (keep_last_max x y)) as (H1 & H2 & H3).
    assert (Hk : (keep_last_max x y = x \/ keep_last_max x y = y) /\ snd x <= snd (keep_last_max x y)
                 /\ snd y <= snd (keep_last_max x y)).
    { unfold keep_last_max. destruct (snd x <=? snd y) eqn:E; repeat split; auto; lia. }
    destruct Hk as (Hk1 & Hk2 & Hk3).
    repeat split.
    + destruct H1 as [H1|H1]; [|right; now right].
      rewrite H1. destruct Hk1 as [->| ->]; [now left|right; now left].
    + lia.
    + intros y' [<-|Hy']; [lia|now apply H3].
Qed.

Lemma in_enumerate : forall l k j m, In (j, m) (enumerate_from k l) ->
  k <= j /\ j < k + nlen l /\ nth (N.to_nat (j - k)) l 0 = m.
Proof.
  induction l as [|x l IH]; intros k j m H; cbn [enumerate_from] in H; [destruct H|].
  destruct H as [E|H].
  - injection E as <- <-. unfold nlen. cbn [length]. rewrite N.sub_diag. cbn. lia.
  - apply IH in H as (H1 & H2 & H3). unfold nlen in *. cbn [length].
    repeat split; try lia.
    replace (N.to_nat (j - k)) with (S (N.to_nat (j - (k + 1)))) by lia. exact H3.
Qed.

Lemma enumerate_in : forall l k i, (i < length l)%nat -> In (k + N.of_nat i, nth i l 0) (enumerate_from k l).
Proof.
  induction l as [|x l IH]; intros k i H; cbn [length] in H; [lia|]. cbn [enumerate_from].
  destruct i; [left; f_equal; lia|]. right.
  replace (k + N.of_nat (S i)) with (k + 1 + N.of_nat i) by lia. apply IH. lia.
Qed.

Lemma histogram_nth : forall s b, b < 256 -> nth (N.to_nat b) (histogram s) 0 = count_of b s.
Proof.
  intros s b Hb. unfold histogram, all_bytes.
  rewrite (nth_map_any (fun b0 => count_of b0 s)) by (rewrite upto_length; lia).
  rewrite nth_upto by lia. f_equal. lia.
Qed.

(* C16_math_mode_partial: math.mode() over a byte slice is a byte value whose count is maximal *)
Lemma mode_whole_max : forall mem, Forall (fun x => x < 256) mem ->
  exists i, mode_call (Direct mem) [] = RInt (Z.of_N i) /\ i < 256 /\ forall b, b < 256 -> count_of b mem <= count_of i mem.
Proof.
  intros mem Hf. unfold mode_call. cbn [dist_of_args get_direct with_dist].
  rewrite counters_histogram by assumption.
  assert (Hlen : length (histogram mem) = 256%nat) by (unfold histogram, all_bytes; rewrite map_length; apply upto_length).
  unfold max_by_key_last.
  destruct (rev (enumerate_from 0 (histogram mem))) as [|x r] eqn:Er.
  - exfalso. assert (Hin : In (0 + N.of_nat 0, nth 0 (histogram mem) 0) (enumerate_from 0 (histogram mem)))
      by (apply enumerate_in; lia).
    apply in_rev in Hin. rewrite Er in Hin. destruct Hin.
  - change (fun best y : N * N => if snd best <=? snd y then y else best) with keep_last_max.
    destruct (fold_max r x) as (H1 & H2 & H3).
    set (z := fold_left keep_last_max r x) in *.
    assert (Hall : forall y, In y (enumerate_from 0 (histogram mem)) -> snd y <= snd z).
    { intros y Hy. apply in_rev in Hy. rewrite Er in Hy. destruct Hy as [<-|Hy]; [exact H2|now apply H3]. }
    assert (Hz : In z (enumerate_from 0 (histogram mem))).
    { apply in_rev. rewrite Er. destruct H1 as [->|H1]; [now left|now right]. }
    destruct z as [i n] eqn:Ez. exists i.
    apply in_enumerate in Hz as (Z1 & Z2 & Z3). unfold nlen in Z2. rewrite Hlen in Z2.
    split; [reflexivity|]. split; [lia|].
    intros b Hb.
    assert (Hb' : In (0 + N.of_nat (N.to_nat b), nth (N.to_nat b) (histogram mem) 0) (enumerate_from 0 (histogram mem)))
      by (apply enumerate_in; lia).
    apply Hall in Hb'. cbn [snd] in Hb'. rewrite histogram_nth in Hb' by exact Hb.
    rewrite N.sub_0_r in Z3. rewrite histogram_nth in Z3 by lia. lia.
Qed.
