(* Proofs/CallbackProofs.v — the callback API delivers exactly the events of the declarative
   semantics, in order (uninterrupted scan, full pass). *)
From Boreal Require Import Base.Prelude Base.Res Model.Eval Spec.CondSem Model.EvalCost Model.Scanner
     Spec.RuleSetSpec Proofs.SemProofs Proofs.ScannerProofs.

Definition updE (s : sstate) (p : list erule) (e : list event) (k : N) : sstate :=
  {| pend := p; evs := e; nchecks := k |}.

Definition events_of (c : cfg) (l : list erule) : list event :=
  flat_map (fun r => if er_matched r then (if c_ev_match c then [EvMatch (er_id r)] else [])
                     else (if c_ev_nomatch c then [EvNoMatch (er_id r)] else [])) l.

Lemma events_of_app c a b : events_of c (a ++ b) = events_of c a ++ events_of c b.
Proof. apply flat_map_app. Qed.

(* a rule whose result is not sent to the callback at once (global rules, or no callback) *)
Lemma eval_rule_inner_nocb c inp x ms r cb :
  c_cb c && cb = false -> x_matches x = Some ms -> wf_rule inp ms (length (x_prev x)) r = true ->
  forall s, exists k,
    eval_rule_inner c Never inp x r cb s
    = (upd s (pend s ++ reported_of c r (pure_verdict inp (x_disabled x) ms (x_prev x) r)) k,
       inl (adv x ms r, RBool (pure_verdict inp (x_disabled x) ms (x_prev x) r))).
Proof.
  intros Hcb Hm Hw s. unfold eval_rule_inner, pure_verdict, reported_of, ns_disabled. rewrite Hm, Hcb.
  fold (adv x ms r).
  destruct (nth (r_ns r) (x_disabled x) false).
  - cbn [orb]. destruct (r_private r); cbn [negb andb].
    + exists (nchecks s). unfold ret. rewrite app_nil_r, upd_id. reflexivity.
    + destruct (c_nm c).
      * exists (nchecks s). unfold bindM, push, ret. reflexivity.
      * exists (nchecks s). unfold ret. rewrite app_nil_r, upd_id. reflexivity.
  - unfold bindM.
    set (en := {| e_matches := Some (firstn (r_nvars r) ms); e_prev := x_prev x; e_ext := i_ext inp;
                  e_filesize := i_filesize inp; e_mem := i_mem inp |}).
    destruct (tick_never (cost_rule en (r_cond r)) s) as [k Hk]. rewrite Hk.
    change en with (envM (firstn (r_nvars r) ms) (x_prev x) (i_ext inp) (i_filesize inp) (i_mem inp)).
    rewrite (rule_verdict_sem _ _ _ _ _ _ Hw). fold (rule_q inp ms (x_prev x) r).
    set (v := sem_rule (rule_q inp ms (x_prev x) r) (r_cond r)).
    destruct (r_private r); cbn [negb andb].
    + exists k. unfold ret. cbn [pend upd]. rewrite app_nil_r. reflexivity.
    + destruct (v || c_nm c).
      * exists k. unfold push, ret. reflexivity.
      * exists k. unfold ret. cbn [pend upd]. rewrite app_nil_r. reflexivity.
Qed.

Lemma eval_globals_any c inp gs :
  forall dis ms u s, wf_globals inp ms gs = true ->
  exists k,
    eval_globals c Never inp {| x_matches := Some ms; x_prev := []; x_disabled := dis |} gs u s
    = (upd s (pend s ++ snd (g_fold c inp dis ms gs)) k,
       inl ({| x_matches := Some (snd (fst (g_fold c inp dis ms gs))); x_prev := [];
               x_disabled := fst (fst (g_fold c inp dis ms gs)) |}, u)).
Proof.
  induction gs as [|g gs IH]; intros dis ms u s Hw; cbn [eval_globals g_fold wf_globals] in *.
  - exists (nchecks s). unfold ret. cbn [fst snd]. rewrite app_nil_r, upd_id. reflexivity.
  - apply andb_true_iff in Hw as [Hw1 Hw2].
    unfold bindM at 1.
    destruct (eval_rule_inner_nocb c inp {| x_matches := Some ms; x_prev := []; x_disabled := dis |} ms g false
                (andb_false_r _) eq_refl Hw1 s) as [k1 E1].
    rewrite E1. unfold adv. cbn [x_disabled x_prev x_matches].
    set (v := pure_verdict inp dis ms [] g).
    destruct (g_fold c inp (if v then dis else set_nth dis (r_ns g) true) (skipn (r_nvars g) ms) gs)
      as [[d m] reps] eqn:Eg.
    cbn [fst snd].
    destruct v.
    + destruct (IH dis (skipn (r_nvars g) ms) u (upd s (pend s ++ reported_of c g true) k1) Hw2) as [k2 E2].
      rewrite E2. rewrite Eg. cbn [fst snd pend upd evs]. exists k2. rewrite <- app_assoc. reflexivity.
    + destruct (IH (set_nth dis (r_ns g) true) (skipn (r_nvars g) ms) u
                  (upd s (pend s ++ reported_of c g false) k1) Hw2) as [k2 E2].
      rewrite E2. rewrite Eg. cbn [fst snd pend upd evs]. exists k2. rewrite <- app_assoc. reflexivity.
Qed.

(* reporting one evaluated rule to the callback *)
Lemma report_never c r s :
  report c Never r s = (updE s (pend s) (rev (events_of c [r]) ++ evs s) (nchecks s), inl tt).
Proof.
  unfold report, events_of, emit, ret, updE. cbn [flat_map app].
  destruct (er_matched r).
  - destruct (c_ev_match c); cbn [rev app]; destruct s; reflexivity.
  - destruct (c_ev_nomatch c); cbn [rev app]; destruct s; reflexivity.
Qed.

Lemma flush_list_never c l : forall s,
  flush_list c Never l s = (updE s (pend s) (rev (events_of c l) ++ evs s) (nchecks s), inl tt).
Proof.
  induction l as [|r l IH]; intros s; cbn [flush_list].
  - unfold ret, updE, events_of. cbn. destruct s; reflexivity.
  - unfold bindM. rewrite report_never. rewrite IH. cbn [pend evs nchecks updE]. unfold updE. f_equal. f_equal.
    change (r :: l) with ([r] ++ l). rewrite events_of_app, rev_app_distr, <- app_assoc. reflexivity.
Qed.

(* a rule whose result goes straight to the callback *)
Lemma eval_rule_inner_cb c inp x ms r :
  c_cb c = true -> x_matches x = Some ms -> wf_rule inp ms (length (x_prev x)) r = true ->
  forall s, exists k,
    eval_rule_inner c Never inp x r true s
    = (updE s (pend s)
            (rev (events_of c (reported_of c r (pure_verdict inp (x_disabled x) ms (x_prev x) r))) ++ evs s) k,
       inl (adv x ms r, RBool (pure_verdict inp (x_disabled x) ms (x_prev x) r))).
Proof.
  intros Hcb Hm Hw s. unfold eval_rule_inner, pure_verdict, reported_of, ns_disabled. rewrite Hm, Hcb. cbn [andb].
  fold (adv x ms r).
  assert (Hnil : forall st : sstate, updE st (pend st) (rev (events_of c []) ++ evs st) (nchecks st) = st)
    by (intros st; destruct st; reflexivity).
  destruct (nth (r_ns r) (x_disabled x) false).
  - cbn [orb]. destruct (r_private r); cbn [negb andb].
    + exists (nchecks s). unfold ret. rewrite Hnil. reflexivity.
    + destruct (c_nm c).
      * exists (nchecks s). unfold bindM. rewrite report_never. unfold ret. reflexivity.
      * exists (nchecks s). unfold ret. rewrite Hnil. reflexivity.
  - unfold bindM.
    set (en := {| e_matches := Some (firstn (r_nvars r) ms); e_prev := x_prev x; e_ext := i_ext inp;
                  e_filesize := i_filesize inp; e_mem := i_mem inp |}).
    destruct (tick_never (cost_rule en (r_cond r)) s) as [k Hk]. rewrite Hk.
    change en with (envM (firstn (r_nvars r) ms) (x_prev x) (i_ext inp) (i_filesize inp) (i_mem inp)).
    rewrite (rule_verdict_sem _ _ _ _ _ _ Hw). fold (rule_q inp ms (x_prev x) r).
    set (v := sem_rule (rule_q inp ms (x_prev x) r) (r_cond r)).
    destruct (r_private r); cbn [negb andb].
    + exists k. unfold ret. cbn [events_of flat_map rev app]. reflexivity.
    + destruct (v || c_nm c).
      * exists k. rewrite report_never. unfold ret. reflexivity.
      * exists k. unfold ret. cbn [events_of flat_map rev app]. reflexivity.
Qed.

Lemma eval_rules_cb c inp rs :
  c_cb c = true ->
  forall dis ms prev s, wf_rules inp ms (length prev) rs = true ->
  exists k,
    eval_rules c Never inp {| x_matches := Some ms; x_prev := prev; x_disabled := dis |} rs true s
    = (updE s (pend s) (rev (events_of c (r_fold c inp dis ms prev rs)) ++ evs s) k, inl true).
Proof.
  intros Hcb. induction rs as [|r rs IH]; intros dis ms prev s Hw; cbn [eval_rules r_fold wf_rules] in *.
  - exists (nchecks s). unfold ret, updE, events_of. cbn. destruct s; reflexivity.
  - apply andb_true_iff in Hw as [Hw1 Hw2].
    unfold bindM at 1.
    destruct (eval_rule_inner_cb c inp {| x_matches := Some ms; x_prev := prev; x_disabled := dis |} ms r
                Hcb eq_refl Hw1 s) as [k1 E1].
    rewrite E1. unfold adv. cbn [x_disabled x_prev x_matches].
    set (v := pure_verdict inp dis ms prev r).
    assert (Hlen : length (prev ++ [v]) = S (length prev)) by (rewrite app_length; cbn; lia).
    rewrite <- Hlen in Hw2.
    match goal with |- context [eval_rules c Never inp ?x rs true ?st] =>
      destruct (IH dis (skipn (r_nvars r) ms) (prev ++ [v]) st Hw2) as [k2 E2]; rewrite E2
    end.
    exists k2. unfold updE. cbn [pend evs]. f_equal. f_equal.
    rewrite events_of_app, rev_app_distr, <- app_assoc. reflexivity.
Qed.

(* events other than rule results: module imports and strings reaching the match limit *)
Definition import_events (c : cfg) (inp : inputs) : list event :=
  if c_ev_import c then map EvImport (i_imports inp) else [].
Definition limit_events (c : cfg) (hits : list (list N)) : list event :=
  if c_ev_limit c then flat_map (map EvLimit) hits else [].
Definition pre_events (c : cfg) (inp : inputs) : list event :=
  (if c_direct c then import_events c inp else [])
  ++ limit_events c (i_ac inp)
  ++ (if c_direct c then [] else import_events c inp).

Lemma emit_all_never l : forall s,
  emit_all Never l s = (updE s (pend s) (rev l ++ evs s) (nchecks s), inl tt).
Proof.
  induction l as [|e l IH]; intros s; cbn [emit_all].
  - unfold ret, updE. cbn. destruct s; reflexivity.
  - unfold bindM, emit. rewrite IH. unfold updE. cbn [pend evs nchecks rev]. rewrite <- app_assoc. reflexivity.
Qed.

Lemma send_imports_cb c inp s : c_cb c = true ->
  send_imports c Never inp s = (updE s (pend s) (rev (import_events c inp) ++ evs s) (nchecks s), inl tt).
Proof.
  intros Hcb. unfold send_imports, import_events. rewrite Hcb. cbn [andb].
  destruct (c_ev_import c); [apply emit_all_never|]. unfold ret, updE. cbn. destruct s; reflexivity.
Qed.

Lemma ac_phase_cb c hits : c_cb c = true -> forall s,
  exists k, ac_phase c Never hits s = (updE s (pend s) (rev (limit_events c hits) ++ evs s) k, inl tt).
Proof.
  intros Hcb. unfold limit_events. induction hits as [|lim hits IH]; intros s; cbn [ac_phase flat_map].
  - exists (nchecks s). unfold ret, updE. destruct (c_ev_limit c); cbn; destruct s; reflexivity.
  - unfold bindM at 1. destruct (tick_never 1 s) as [k1 E1]. rewrite E1. rewrite Hcb. cbn [andb].
    unfold bindM at 1. destruct (c_ev_limit c).
    + rewrite emit_all_never. cbn [pend evs nchecks upd updE].
      destruct (IH (updE (upd s (pend s) k1) (pend s) (rev (map EvLimit lim) ++ evs s) k1)) as [k2 E2].
      rewrite E2. exists k2. unfold updE. cbn [pend evs]. rewrite rev_app_distr, <- app_assoc. reflexivity.
    + unfold ret. destruct (IH (upd s (pend s) k1)) as [k2 E2]. rewrite E2. exists k2. reflexivity.
Qed.

Lemma full_scan_cb c inp sc :
  c_cb c = true -> wf_scanner inp sc = true ->
  forall e0, exists k, full_scan c Never inp sc {| pend := []; evs := e0; nchecks := 0 |}
            = ({| pend := [];
                  evs := rev (limit_events c (i_ac inp) ++ (if c_direct c then [] else import_events c inp)
                              ++ events_of c (scan_result c inp sc)) ++ e0;
                  nchecks := k |}, inl tt).
Proof.
  intros Hcb Hw e0. pose proof Hw as Hw'. unfold wf_scanner in Hw'. apply andb_true_iff in Hw' as [Hwg Hwr].
  unfold full_scan, scan_result.
  set (s0 := {| pend := []; evs := e0; nchecks := 0 |}).
  unfold bindM at 1. destruct (ac_phase_cb c (i_ac inp) Hcb s0) as [k0 E0]. rewrite E0.
  unfold bindM at 1.
  set (ei := if c_direct c then [] else import_events c inp).
  assert (Eimp : (if c_direct c then ret tt else send_imports c Never inp)
                   (updE s0 (pend s0) (rev (limit_events c (i_ac inp)) ++ evs s0) k0)
                 = (updE s0 [] (rev ei ++ rev (limit_events c (i_ac inp)) ++ e0) k0, inl tt)).
  { subst ei s0. destruct (c_direct c); [reflexivity|]. rewrite send_imports_cb by exact Hcb. reflexivity. }
  rewrite Eimp. clear Eimp.
  unfold bindM at 1. unfold ctx0.
  destruct (eval_globals_any c inp (s_globals sc) (repeat false (s_nns sc)) (i_matches inp) false
              (updE s0 [] (rev ei ++ rev (limit_events c (i_ac inp)) ++ e0) k0) Hwg) as [k1 E1].
  rewrite E1. clear E1.
  rewrite (g_fold_ms _ c inp (s_globals sc) _ (repeat false (s_nns sc)) (i_matches inp)) in Hwr.
  destruct (g_fold c inp (repeat false (s_nns sc)) (i_matches inp) (s_globals sc)) as [[D m] greps].
  cbn [fst snd pend upd updE evs app] in *.
  unfold bindM at 1. rewrite fixup_list'. cbn [x_disabled pend upd evs nchecks].
  unfold all_disabled. cbn [x_disabled].
  destruct (negb (c_nm c) && forallb (fun b : bool => b) D).
  - unfold clear_pend. cbn [evs nchecks]. exists k1. f_equal. f_equal.
    cbn [events_of flat_map]. rewrite app_nil_r, rev_app_distr, <- app_assoc. reflexivity.
  - unfold bindM at 1. unfold flush. rewrite Hcb. unfold bindM at 1. unfold get_pend at 1. unfold bindM at 1.
    unfold clear_pend at 1. rewrite flush_list_never. cbn [pend evs nchecks updE].
    unfold bindM at 1.
    match goal with |- context [eval_rules c Never inp ?x (s_rules sc) true ?st] =>
      destruct (eval_rules_cb c inp (s_rules sc) Hcb D m [] st Hwr) as [k2 E2]; rewrite E2
    end.
    unfold ret. cbn [evs pend updE]. exists k2. unfold updE. f_equal. f_equal.
    rewrite events_of_app, !rev_app_distr, <- !app_assoc. reflexivity.
Qed.

Theorem run_scan_callback_spec c inp sc :
  c_cb c = true -> can_noscan c = false ->
  wf_scanner inp sc = true -> ns_bound (s_nns sc) (s_globals sc) -> ns_bound (s_nns sc) (s_rules sc) ->
  o_err (run_scan c Never inp sc) = None
  /\ o_events (run_scan c Never inp sc) = pre_events c inp ++ spec_events c sc inp
  /\ o_rules (run_scan c Never inp sc) = [].
Proof.
  intros Hcb Hns Hw Hbg Hbr.
  assert (Hspec : spec_events c sc inp = events_of c (scan_result c inp sc)).
  { unfold spec_events. rewrite <- (scan_result_spec c inp sc Hbg Hbr). reflexivity. }
  rewrite Hspec. unfold run_scan, do_scan. rewrite Hns.
  set (s0 := {| pend := []; evs := []; nchecks := 0 |}).
  set (ed := if c_direct c then import_events c inp else []).
  assert (Eimp : (if c_direct c then send_imports c Never inp else ret tt) s0
                 = ({| pend := []; evs := rev ed ++ []; nchecks := 0 |}, inl tt)).
  { subst ed s0. destruct (c_direct c); [rewrite send_imports_cb by exact Hcb; reflexivity|reflexivity]. }
  unfold bindM. rewrite Eimp.
  destruct (full_scan_cb c inp sc Hcb Hw (rev ed ++ [])) as [k E]. rewrite E.
  cbn [o_err o_events o_rules evs]. rewrite Hcb. split; [reflexivity|]. split; [|reflexivity].
  unfold pre_events. fold ed. rewrite app_nil_r, rev_app_distr, !rev_involutive, <- !app_assoc. reflexivity.
Qed.

(* ------------------------------------------------------------------ callback API when the no-scan pass is allowed *)
From Boreal Require Import Proofs.InterruptProofs Proofs.NoScanScannerProofs.

Lemma do_scan_noscan_cb c inp sc :
  c_cb c = true -> can_noscan c = true ->
  wf_scanner inp sc = true -> ns_bound (s_nns sc) (s_globals sc) -> ns_bound (s_nns sc) (s_rules sc) ->
  exists k pre,
    do_scan c Never inp sc {| pend := []; evs := []; nchecks := 0 |}
    = ({| pend := []; evs := rev (pre ++ events_of c (scan_result c inp sc)); nchecks := k |}, inl tt)
    /\ (pre = (if c_direct c then import_events c inp else []) \/ pre = pre_events c inp).
Proof.
  intros Hcb Hns Hw Hbg Hbr. pose proof (can_noscan_nm c Hns) as Hnm.
  pose proof Hw as Hw'. unfold wf_scanner in Hw'. apply andb_true_iff in Hw' as [Hwg Hwr].
  set (ed := if c_direct c then import_events c inp else []).
  set (s0 := {| pend := []; evs := []; nchecks := 0 |}).
  unfold do_scan. rewrite Hns. unfold bindM at 1.
  assert (Eimp : (if c_direct c then send_imports c Never inp else ret tt) s0
                 = ({| pend := []; evs := rev ed; nchecks := 0 |}, inl tt)).
  { subst ed s0. destruct (c_direct c); [rewrite send_imports_cb by exact Hcb; cbn [pend evs nchecks updE];
      rewrite app_nil_r; reflexivity|reflexivity]. }
  rewrite Eimp. clear Eimp. set (s1 := {| pend := []; evs := rev ed; nchecks := 0 |}).
  unfold bindM at 1.
  rewrite on_timeout_noop
    by (destruct (good_eval_without_matches c (AbortAt 1) ltac:(discriminate) inp sc) as [E _]; apply E).
  unfold eval_without_matches. unfold bindM at 1. unfold ctx0.
  destruct (eval_globals_pass1 c inp (s_globals sc) (repeat false (s_nns sc)) (repeat false (s_nns sc))
              (i_matches inp) false s1 eq_refl (fun ns H => H) Hwg ltac:(rewrite repeat_length; exact Hbg))
    as [k1 [dis1 [reps1 [unk [E1 [Hl1 [Hs1 Heq]]]]]]].
  rewrite E1. clear E1. cbn [orb]. subst s1. cbn [pend app upd evs].
  rewrite (g_fold_ms _ c inp (s_globals sc) _ (repeat false (s_nns sc)) (i_matches inp)) in Hwr.
  pose proof (g_fold_length c inp (s_globals sc) (repeat false (s_nns sc)) (i_matches inp)) as HlD.
  (* the full pass from this state, when the first pass is discarded *)
  assert (Hfull : forall kx, exists k,
            full_scan c Never inp sc {| pend := []; evs := rev ed; nchecks := kx |}
            = ({| pend := []; evs := rev (pre_events c inp ++ events_of c (scan_result c inp sc)); nchecks := k |}, inl tt)).
  { intros kx. unfold full_scan.
    (* reuse full_scan_cb up to the check counter: run it from the same events *)
    clear - Hcb Hw. pose proof Hw as Hw'. unfold wf_scanner in Hw'. apply andb_true_iff in Hw' as [Hwg Hwr].
    set (s0 := {| pend := []; evs := rev ed; nchecks := kx |}).
    unfold bindM at 1. destruct (ac_phase_cb c (i_ac inp) Hcb s0) as [k0 E0]. rewrite E0.
    unfold bindM at 1.
    set (ei := if c_direct c then [] else import_events c inp).
    assert (Eimp : (if c_direct c then ret tt else send_imports c Never inp)
                     (updE s0 (pend s0) (rev (limit_events c (i_ac inp)) ++ evs s0) k0)
                   = (updE s0 [] (rev ei ++ rev (limit_events c (i_ac inp)) ++ rev ed) k0, inl tt)).
    { subst ei s0. destruct (c_direct c); [reflexivity|]. rewrite send_imports_cb by exact Hcb. reflexivity. }
    rewrite Eimp. clear Eimp.
    unfold bindM at 1. unfold ctx0.
    destruct (eval_globals_any c inp (s_globals sc) (repeat false (s_nns sc)) (i_matches inp) false
                (updE s0 [] (rev ei ++ rev (limit_events c (i_ac inp)) ++ rev ed) k0) Hwg) as [k1 E1].
    rewrite E1. clear E1. unfold scan_result.
    rewrite (g_fold_ms _ c inp (s_globals sc) _ (repeat false (s_nns sc)) (i_matches inp)) in Hwr.
    destruct (g_fold c inp (repeat false (s_nns sc)) (i_matches inp) (s_globals sc)) as [[D m] greps].
    cbn [fst snd pend upd updE evs app] in *.
    unfold bindM at 1. rewrite fixup_list'. cbn [x_disabled pend upd evs nchecks].
    unfold all_disabled. cbn [x_disabled].
    assert (Hpre : rev ei ++ rev (limit_events c (i_ac inp)) ++ rev ed = rev (pre_events c inp)).
    { unfold pre_events. fold ed. fold ei. rewrite !rev_app_distr, <- !app_assoc. reflexivity. }
    destruct (negb (c_nm c) && forallb (fun b : bool => b) D).
    - unfold clear_pend. cbn [evs nchecks]. exists k1. f_equal. f_equal.
      cbn [events_of flat_map]. rewrite app_nil_r. exact Hpre.
    - unfold bindM at 1. unfold flush. rewrite Hcb. unfold bindM at 1. unfold get_pend at 1. unfold bindM at 1.
      unfold clear_pend at 1. rewrite flush_list_never. cbn [pend evs nchecks updE].
      unfold bindM at 1.
      match goal with |- context [eval_rules c Never inp ?x (s_rules sc) true ?st] =>
        destruct (eval_rules_cb c inp (s_rules sc) Hcb D m [] st Hwr) as [k2 E2]; rewrite E2
      end.
      unfold ret. cbn [evs pend updE]. exists k2. unfold updE. f_equal. f_equal.
      rewrite Hpre, events_of_app, !rev_app_distr, <- !app_assoc. reflexivity. }
  unfold scan_result in *.
  destruct (g_fold c inp (repeat false (s_nns sc)) (i_matches inp) (s_globals sc)) as [[D m] greps] eqn:Eg.
  cbn [fst snd] in *. rewrite Hnm in *. cbn [negb andb] in *.
  unfold all_disabled. cbn [x_disabled].
  destruct (forallb (fun b : bool => b) dis1) eqn:Eall.
  - (* every namespace disabled in the first pass: nothing is delivered *)
    rewrite (sub_flags_all dis1 D ltac:(lia) Hs1 Eall) in *.
    unfold bindM, clear_pend, ret, flush. rewrite Hcb. unfold bindM, get_pend, clear_pend. cbn [pend flush_list].
    unfold ret. exists k1, ed. split; [|left; reflexivity].
    cbn [events_of flat_map]. rewrite app_nil_r. reflexivity.
  - destruct unk.
    + unfold ret at 1. unfold bindM at 1. unfold clear_pend. cbn [pend upd evs nchecks].
      destruct (Hfull k1) as [k2 E2]. rewrite E2. exists k2, (pre_events c inp). split; [|right; reflexivity].
      destruct (forallb (fun b : bool => b) D); reflexivity.
    + destruct (Heq eq_refl eq_refl) as [-> ->]. rewrite Eall in *.
      unfold bindM at 1. rewrite fixup_list'. cbn [x_disabled pend upd evs nchecks].
      unfold bindM at 1.
      match goal with |- context [eval_rules c Never inp ?x (s_rules sc) false ?st] =>
        destruct (eval_rules_pass1 c inp (s_rules sc) D m [] st Hwr) as [k2 [ok [reps [E2 [Hok _]]]]]; rewrite E2
      end.
      destruct ok.
      * rewrite (Hok eq_refl). unfold ret at 1. unfold flush. rewrite Hcb. unfold bindM, get_pend, clear_pend.
        cbn [pend upd evs nchecks]. rewrite flush_list_never. cbn [pend evs nchecks updE].
        exists k2, ed. split; [|left; reflexivity]. unfold updE. f_equal. f_equal.
        rewrite rev_app_distr. reflexivity.
      * unfold ret at 1. unfold bindM at 1. unfold clear_pend. cbn [pend upd evs nchecks].
        destruct (Hfull k2) as [k3 E3]. rewrite E3. exists k3, (pre_events c inp). split; [|right; reflexivity].
        reflexivity.
Qed.

(* callback API, any configuration: after the events of the string scan (module imports, match limits)
   the rule events are exactly those of the specification *)
Theorem run_scan_callback_spec_any c inp sc :
  c_cb c = true ->
  wf_scanner inp sc = true -> ns_bound (s_nns sc) (s_globals sc) -> ns_bound (s_nns sc) (s_rules sc) ->
  o_err (run_scan c Never inp sc) = None
  /\ o_rules (run_scan c Never inp sc) = []
  /\ exists pre, o_events (run_scan c Never inp sc) = pre ++ spec_events c sc inp
                 /\ (pre = (if c_direct c then import_events c inp else []) \/ pre = pre_events c inp).
Proof.
  intros Hcb Hw Hbg Hbr. destruct (can_noscan c) eqn:Hns.
  - assert (Hspec : spec_events c sc inp = events_of c (scan_result c inp sc)).
    { unfold spec_events. rewrite <- (scan_result_spec c inp sc Hbg Hbr). reflexivity. }
    unfold run_scan.
    destruct (do_scan_noscan_cb c inp sc Hcb Hns Hw Hbg Hbr) as [k [pre [E Hpre]]]. rewrite E.
    cbn [o_err o_rules o_events evs]. rewrite Hcb. split; [reflexivity|]. split; [reflexivity|].
    exists pre. rewrite rev_involutive, Hspec. split; [reflexivity|exact Hpre].
  - destruct (run_scan_callback_spec c inp sc Hcb Hns Hw Hbg Hbr) as [H1 [H2 H3]].
    split; [exact H1|]. split; [exact H3|]. exists (pre_events c inp). split; [exact H2|right; reflexivity].
Qed.
