(* Proofs/ScannerStateCache.v — the hash module's per-scan cache is transparent (C13), for one scan, for
   sequences of scans, and for interleaved scans (instance of Proofs/InterleaveProofs.v); a cache that outlives
   its scan is not. *)
From Boreal Require Import Base.Prelude Model.ModFuncs Model.HashMod Model.HashCache Model.Interleave
  Proofs.InterleaveProofs.
Open Scope N_scope.

(* ------------------------------------------------------------------ one map (as in C16, re-proved here to keep
   this file independent of Proofs/ModFuncsProofs.v) *)
Definition cmap_ok (d : digest) (m : memory) (c : cmap) : Prop :=
  forall k v, In (k, v) c -> v = from_mem d m (fst k) (snd k).

Lemma cget_in' : forall k c v, cget k c = Some v -> exists k', In (k', v) c /\ fst k' = fst k /\ snd k' = snd k.
Proof.
  intros k c v H. unfold cget in H.
  destruct (find _ c) as [[k' v']|] eqn:F; [|discriminate].
  injection H as <-. apply find_some in F as [Hin Hk]. cbn in Hk.
  exists k'. repeat split; [assumption| |]; lia.
Qed.

Lemma cached_step' : forall d m c args,
  cmap_ok d m c ->
  cmap_ok d m (fst (hash_call_cached d m c args)) /\ snd (hash_call_cached d m c args) = hash_call d m args.
Proof.
  intros d m c args Hc. unfold hash_call_cached, hash_call.
  destruct (get_args args) as [[s|o e]|]; try (split; [assumption|reflexivity]).
  destruct (cget (o, e) c) as [v|] eqn:G; cbn [fst snd].
  - split; [assumption|]. apply cget_in' in G as (k' & Hin & H1 & H2). apply Hc in Hin.
    cbn in H1, H2. now rewrite H1, H2 in Hin.
  - destruct (is_value (from_mem d m o e)); cbn [fst snd]; (split; [|reflexivity]); [|assumption].
    intros k v [E|Hin]; [|now apply Hc]. now injection E as <- <-.
Qed.

(* ------------------------------------------------------------------ the three maps of one scan *)
Section Calls.
  Variable dg : halg -> digest.

  (* every entry (o, e) |-> v of every map is the digest of the range [o, e) of THIS scan's memory *)
  Definition hcache_ok (m : memory) (c : hcache) : Prop :=
    cmap_ok (dg HMd5) m (c_md5 c) /\ cmap_ok (dg HSha1) m (c_sha1 c) /\ cmap_ok (dg HSha256) m (c_sha256 c).

  Lemma hcache_empty_ok m : hcache_ok m hcache_empty.
  Proof. repeat split; intros k v []. Qed.

  Lemma call_cached_step m c k :
    hcache_ok m c -> hcache_ok m (fst (call_cached dg m c k)) /\ snd (call_cached dg m c k) = call_plain dg m k.
  Proof.
    intros (H1 & H2 & H3). destruct k as [alg args]. unfold call_cached, call_plain. cbn [fst snd].
    destruct alg.
    - pose proof (cached_step' (dg HMd5) m (c_md5 c) args H1) as [A B].
      destruct (hash_call_cached _ m (c_md5 c) args) as [c' v]. cbn [fst snd] in *. repeat split; auto.
    - pose proof (cached_step' (dg HSha1) m (c_sha1 c) args H2) as [A B].
      destruct (hash_call_cached _ m (c_sha1 c) args) as [c' v]. cbn [fst snd] in *. repeat split; auto.
    - pose proof (cached_step' (dg HSha256) m (c_sha256 c) args H3) as [A B].
      destruct (hash_call_cached _ m (c_sha256 c) args) as [c' v]. cbn [fst snd] in *. repeat split; auto.
    - repeat split; auto.
    - repeat split; auto.
  Qed.

  Lemma calls_cached_inv m calls : forall c, hcache_ok m c -> calls_cached dg m c calls = map (call_plain dg m) calls.
  Proof.
    induction calls as [|k r IH]; intros c Hc; cbn [calls_cached map]; auto.
    pose proof (call_cached_step m c k Hc) as [A B].
    destruct (call_cached dg m c k) as [c' v]. cbn [fst snd] in *. subst v. f_equal. apply IH, A.
  Qed.

  (* C13_cache_transparent *)
  Lemma cache_transparent m calls : scan_hashes dg m calls = map (call_plain dg m) calls.
  Proof. apply calls_cached_inv, hcache_empty_ok. Qed.

  (* results never leak between scans: a sequence of scans is the sequence of the references *)
  Lemma scans_transparent jobs :
    scans_hashes dg jobs = map (fun j => map (call_plain dg (fst j)) (snd j)) jobs.
  Proof. unfold scans_hashes. apply map_ext. intros [m calls]. apply cache_transparent. Qed.

  (* in particular the order of the scans, and which scans came before, do not matter *)
  Lemma scans_order_irrelevant jobs1 jobs2 j :
    nth (length jobs1) (scans_hashes dg (jobs1 ++ j :: jobs2)) [] = scan_hashes dg (fst j) (snd j).
  Proof. unfold scans_hashes. rewrite map_app, app_nth2; rewrite map_length; [|lia]. rewrite Nat.sub_diag. reflexivity. Qed.

  (* ---------------------------------------------------------------- interleaved scans, each with its private cache *)
  Definition hjob := (memory * list hcall)%type.
  Definition hstate := (memory * hcache * list hcall * list mres)%type.
  Definition hinit (_ : unit) (j : hjob) : hstate := (fst j, hcache_empty, snd j, []).
  (* the pool is a counter of the steps made by anybody: shared, written by every step, irrelevant *)
  Definition hstep (_ : unit) (p : nat) (s : hstate) : nat * (hstate + list mres) :=
    let '(m, c, calls, acc) := s in
    match calls with
    | [] => (S p, inr acc)
    | k :: r => let (c', v) := call_cached dg m c k in (S p, inl (m, c', r, acc ++ [v]))
    end.

  Lemma hstep_pool_irrelevant : forall i p1 p2 s, snd (hstep i p1 s) = snd (hstep i p2 s).
  Proof.
    intros i p1 p2 [[[m c] calls] acc]. unfold hstep. destruct calls as [|k r]; auto.
    destruct (call_cached dg m c k); reflexivity.
  Qed.

  Lemma halone_inv n : forall p m c calls acc rs,
    hcache_ok m c -> alone hstep tt n p (Running (m, c, calls, acc)) = Done rs ->
    rs = acc ++ map (call_plain dg m) calls.
  Proof.
    induction n as [|n IH]; intros p m c calls acc rs Hc H; cbn [alone] in H; [discriminate|].
    unfold hstep in H at 1. destruct calls as [|k r].
    - cbn [after_step] in H. rewrite alone_done in H. injection H as <-. cbn [map]. now rewrite app_nil_r.
    - pose proof (call_cached_step m c k Hc) as [A B].
      destruct (call_cached dg m c k) as [c' v]. cbn [fst snd after_step] in *. subst v.
      apply IH in H; auto. rewrite H, <- app_assoc. reflexivity.
  Qed.

  (* C13_interleaving_hash: T scans, any inputs, any hash calls, any schedule: a finished scan returns the
     unmemoised digests of its own memory *)
  Lemma interleaving_hash (jobs : list hjob) (p0 : nat) (sched : list nat) t j rs :
    nth_error jobs t = Some j ->
    nth_error (sy_threads (exec hstep tt (start hinit tt p0 jobs) sched)) t = Some (Done rs) ->
    rs = map (call_plain dg (fst j)) (snd j).
  Proof.
    intros Hj H.
    rewrite (interleaving _ _ _ _ _ hinit hstep hstep_pool_irrelevant tt jobs p0 p0 sched t j Hj) in H.
    injection H as H. unfold hinit in H. apply halone_inv in H; auto using hcache_empty_ok.
  Qed.

  (* ---------------------------------------------------------------- NOT the code: the cache in the shared pool *)
  Definition sstate := (memory * list hcall * list mres)%type.
  Definition sinit (_ : unit) (j : hjob) : sstate := (fst j, snd j, []).
  Definition sstep (_ : unit) (c : hcache) (s : sstate) : hcache * (sstate + list mres) :=
    let '(m, calls, acc) := s in
    match calls with
    | [] => (c, inr acc)
    | k :: r => let (c', v) := call_cached dg m c k in (c', inl (m, r, acc ++ [v]))
    end.
End Calls.

(* two scans of different inputs asking for the md5 of the same range *)
Definition leak_jobs : list hjob :=
  [(Direct [97; 98; 99], [(HMd5, [AInt 0; AInt 3])]); (Direct [120; 121; 122], [(HMd5, [AInt 0; AInt 3])])].

(* a cache that survives the scan (static, or stored in the scanner) and is keyed by (offset, end) only
   gives the second scan the digest of the first scan's bytes *)
Lemma shared_cache_refuted :
  scans_shared_cache std_dg hcache_empty leak_jobs <> scans_hashes std_dg leak_jobs.
Proof. vm_compute. discriminate. Qed.

(* the same with two threads: with the cache in the shared pool the hypothesis `pool_irrelevant` is false and
   so is the conclusion — the second thread's result depends on the schedule *)
Lemma shared_pool_cache_refuted :
  exists sched1 sched2,
    nth_error (sy_threads (exec (sstep std_dg) tt (start sinit tt hcache_empty leak_jobs) sched1)) 1
    <> nth_error (sy_threads (exec (sstep std_dg) tt (start sinit tt hcache_empty leak_jobs) sched2)) 1
    /\ (forall t, In t [0; 1]%nat ->
          exists r1 r2,
            nth_error (sy_threads (exec (sstep std_dg) tt (start sinit tt hcache_empty leak_jobs) sched1)) t
              = Some (Done r1)
            /\ nth_error (sy_threads (exec (sstep std_dg) tt (start sinit tt hcache_empty leak_jobs) sched2)) t
              = Some (Done r2)).
Proof.
  exists [0; 0; 1; 1]%nat, [1; 1; 0; 0]%nat. split.
  - vm_compute. discriminate.
  - intros t [<-|[<-|[]]]; vm_compute; eauto.
Qed.

Lemma sstep_not_pool_irrelevant :
  ~ (forall i p1 p2 s, snd (sstep std_dg i p1 s) = snd (sstep std_dg i p2 s)).
Proof.
  intros H.
  specialize (H tt hcache_empty
                {| c_md5 := [((0, 3), RBytes [48])]; c_sha1 := []; c_sha256 := [] |}
                (Direct [97; 98; 99], [(HMd5, [AInt 0; AInt 3])], [])).
  vm_compute in H. discriminate.
Qed.
