(* Proofs/ModFuncsFrag.v — C16: Memory::on_range over fragmented memory.
   1. on_range (as fixed by f1e9f5e) never panics; the pinned version does (witness).
   2. for a streaming callback, on_range = the callback applied once to the bytes RangeSpec.spec_frag describes.
   3. over adjacent, completely fetched regions spec_frag is the clipped range of the concatenated bytes. *)
From Coq Require Import QArith.
From Boreal Require Import Base.Prelude Spec.MathSpec Spec.RangeSpec Model.ModFuncs Proofs.ModFuncsProofs.
Open Scope N_scope.

(* ------------------------------------------------------------------ list facts *)
Lemma slice_ok : forall l a b, a <= b -> b <= nlen l ->
  slice l a b = Some (firstn (N.to_nat (b - a)) (skipn (N.to_nat a) l)).
Proof.
  intros l a b H1 H2. unfold slice.
  destruct ((a <=? b) && (b <=? nlen l)) eqn:E; [reflexivity|lia].
Qed.

Lemma firstn_all_ge : forall {A} k (l : list A), (length l <= k)%nat -> firstn k l = l.
Proof. intros. now apply firstn_all2. Qed.

Lemma skipn_nil_iff : forall {A} k (l : list A), skipn k l = [] <-> (length l <= k)%nat.
Proof.
  intros A k l. split; intros H.
  - pose proof (skipn_length k l) as E. rewrite H in E. cbn in E. lia.
  - now apply skipn_all2.
Qed.

Lemma firstn_skipn_firstn : forall {A} n k m (l : list A), (n + k <= m)%nat ->
  firstn n (skipn k (firstn m l)) = firstn n (skipn k l).
Proof.
  intros A n k m l H. rewrite skipn_firstn_comm. rewrite firstn_firstn. f_equal. lia.
Qed.

(* ------------------------------------------------------------------ 1. no panic *)
Section NoPanic.
  Variable S : Type.
  Variable cb : S -> list N -> S.

  Lemma fin_no_panic : forall called s, fin called s <> (OrPanic : ores S).
  Proof. intros [] s; discriminate. Qed.

  Lemma frag_loop_no_panic : forall rs start end_ called s,
    start <= end_ -> frag_loop cb true rs start end_ called s <> OrPanic.
  Proof.
    induction rs as [|r rs IH]; intros start end_ called s Hle; cbn [frag_loop].
    - apply fin_no_panic.
    - destruct (called && negb (start =? rg_start r)); [discriminate|].
      destruct (start <? rg_start r) eqn:E1; [apply fin_no_panic|].
      destruct (rg_len r <=? start - rg_start r) eqn:E2; [now apply IH|].
      destruct (rg_fail r); [discriminate|].
      cbn [andb].
      destruct (nlen (rg_data r) <=? start - rg_start r) eqn:E3; [apply fin_no_panic|].
      rewrite slice_ok by lia.
      destruct (N.min (N.min (rg_len r) (end_ - rg_start r)) (nlen (rg_data r))
                <? N.min (rg_len r) (end_ - rg_start r)); [discriminate|].
      destruct (checked_add (rg_start r) (rg_len r)) as [st'|] eqn:E5; [|discriminate].
      destruct (end_ <=? st') eqn:E6; [discriminate|].
      apply IH. lia.
  Qed.

  Lemma on_range_no_panic : forall m start end_ s, on_range cb m start end_ s <> OrPanic.
  Proof.
    intros m start end_ s. unfold on_range, on_range_gen.
    destruct (end_ <? start) eqn:E; [discriminate|].
    destruct m as [l|refetch rs].
    - destruct (nlen l <=? start) eqn:E2; [discriminate|].
      rewrite slice_ok by lia. discriminate.
    - destruct refetch; [|discriminate]. apply frag_loop_no_panic. lia.
  Qed.
End NoPanic.

(* pinned tree: a region described with 8 bytes whose fetch returns 5 *)
Lemma on_range_pinned_refuted :
  exists m start end_, on_range_pinned (fun (s : list N) d => s ++ d) m start end_ [] = OrPanic.
Proof.
  exists (Frag true [{| rg_start := 0; rg_len := 8; rg_data := [1;2;3;4;5]; rg_fail := false |};
                     {| rg_start := 8; rg_len := 3; rg_data := [6;7;8]; rg_fail := false |}]), 0, 10.
  vm_compute. reflexivity.
Qed.

(* ------------------------------------------------------------------ 2. fragmented = spec *)
Definition regions_ok (rs : list region) : Prop := forall r, In r rs -> rg_start r + rg_len r <= umax.

Section Stream.
  Variable S : Type.
  Variable cb : S -> list N -> S.
  (* the streaming law may hold only on the reachable states: an invariant `inv` kept by the callback *)
  Variable inv : S -> Prop.
  Hypothesis cb_app : forall s a b, inv s -> cb (cb s a) b = cb s (a ++ b).
  Hypothesis cb_inv : forall s a, inv s -> inv (cb s a).
  Hypothesis cb_nil : forall s, inv s -> cb s [] = s.

  Definition lift (s : S) (o : option (list N)) : ores S :=
    match o with Some t => OrOk (cb s t) | None => OrNone end.

  Lemma checked_add_ok : forall a b, a + b <= umax -> checked_add a b = Some (a + b).
  Proof. intros a b H. unfold checked_add. destruct (a + b <=? umax) eqn:E; [reflexivity|lia]. Qed.

  Lemma frag_loop_collect : forall rs pos end_ s,
    inv s -> regions_ok rs -> pos < end_ ->
    frag_loop cb true rs pos end_ true s = lift s (collect rs pos (end_ - pos)).
  Proof.
    induction rs as [|r rs IH]; intros pos end_ s Hi Hok Hlt; cbn [frag_loop collect].
    - cbn. now rewrite cb_nil by assumption.
    - assert (Hr : rg_start r + rg_len r <= umax) by (apply Hok; now left).
      assert (Hok' : regions_ok rs) by (intros x Hx; apply Hok; now right).
      cbn [andb]. rewrite N.eqb_sym.
      destruct (rg_start r =? pos) eqn:E0; cbn [negb]; [|reflexivity].
      apply N.eqb_eq in E0. subst pos.
      rewrite N.ltb_irrefl. rewrite N.sub_diag.
      destruct (rg_len r <=? 0) eqn:E2.
      + assert (rg_len r =? 0 = true) as -> by lia. now apply IH.
      + assert (rg_len r =? 0 = false) as -> by lia.
        destruct (rg_fail r); [reflexivity|].
        set (want := end_ - rg_start r).
        set (flen := nlen (rg_data r)).
        destruct (flen <=? 0) eqn:E3.
        * (* nothing fetched *)
          assert (Hd : rg_data r = []) by (destruct (rg_data r); [reflexivity|unfold flen, nlen in E3; cbn in E3; lia]).
          unfold avail, is_short. rewrite Hd. rewrite firstn_nil.
          change (nlen (@nil N)) with 0.
          destruct (want <=? 0) eqn:E4; [unfold want in E4; lia|].
          assert (0 <? rg_len r = true) as -> by lia. cbn. now rewrite cb_nil by assumption.
        * rewrite slice_ok by (unfold flen in *; lia).
          rewrite N.sub_0_r. cbn [skipn N.to_nat].
          change (skipn (N.to_nat 0) (rg_data r)) with (rg_data r).
          assert (Hav : nlen (avail r) = N.min (rg_len r) flen).
          { unfold avail. rewrite nlen_firstn. unfold flen. lia. }
          rewrite Hav.
          destruct (N.min (N.min (rg_len r) want) flen <? N.min (rg_len r) want) eqn:E5.
          -- (* short fetch, the range goes on: truncated here *)
             destruct (want <=? N.min (rg_len r) flen) eqn:E6; [lia|].
             unfold is_short. fold flen. assert (flen <? rg_len r = true) as -> by lia.
             cbn [lift]. do 2 f_equal. unfold avail.
             rewrite !firstn_all_ge; [reflexivity| |]; unfold flen, nlen in *; lia.
          -- rewrite checked_add_ok by assumption.
             destruct (end_ <=? rg_start r + rg_len r) eqn:E7.
             ++ destruct (want <=? N.min (rg_len r) flen) eqn:E6; [|unfold want in *; lia].
                cbn [lift]. do 2 f_equal. unfold takeN, avail. rewrite firstn_firstn. f_equal.
                unfold want in *. lia.
             ++ destruct (want <=? N.min (rg_len r) flen) eqn:E6; [unfold want in *; lia|].
                unfold is_short. fold flen. assert (flen <? rg_len r = false) as -> by lia.
                rewrite IH by (assumption || lia || (apply cb_inv; assumption)).
                replace (end_ - (rg_start r + rg_len r)) with (want - rg_len r) by (unfold want; lia).
                assert (Hd : firstn (N.to_nat (N.min (N.min (rg_len r) want) flen)) (rg_data r) = avail r).
                { unfold avail. f_equal. unfold want in *. lia. }
                rewrite Hd.
                destruct (collect rs (rg_start r + rg_len r) (want - rg_len r)) as [t|]; cbn [lift];
                  [now rewrite cb_app by assumption|reflexivity].
  Qed.

  Lemma frag_loop_spec : forall rs start end_ s,
    inv s -> regions_ok rs -> start <= end_ ->
    frag_loop cb true rs start end_ false s = lift s (spec_frag rs start (end_ - start)).
  Proof.
    induction rs as [|r rs IH]; intros start end_ s Hi Hok Hle; cbn [frag_loop spec_frag].
    - reflexivity.
    - assert (Hr : rg_start r + rg_len r <= umax) by (apply Hok; now left).
      assert (Hok' : regions_ok rs) by (intros x Hx; apply Hok; now right).
      cbn [andb].
      destruct (start <? rg_start r) eqn:E1; [reflexivity|].
      set (k := start - rg_start r).
      destruct (rg_len r <=? k) eqn:E2.
      + assert (start <? rg_start r + rg_len r = false) as -> by (unfold k in *; lia). now apply IH.
      + assert (start <? rg_start r + rg_len r = true) as -> by (unfold k in *; lia).
        destruct (rg_fail r); [reflexivity|].
        set (flen := nlen (rg_data r)).
        set (n := end_ - start).
        remember (skipn (N.to_nat k) (avail r)) as a eqn:Ea.
        assert (Hla : nlen a = N.min (rg_len r) flen - k).
        { subst a. unfold avail. rewrite nlen_skipn, nlen_firstn. unfold flen. lia. }
        destruct (flen <=? k) eqn:E3.
        * assert (a = []) as ->; [|reflexivity].
          subst a. apply skipn_nil_iff. unfold avail. rewrite firstn_length. unfold flen, nlen in *. lia.
        * destruct a as [|a0 a'].
          { exfalso. symmetry in Ea. apply skipn_nil_iff in Ea. unfold avail in Ea. rewrite firstn_length in Ea.
            unfold flen, nlen in *. lia. }
          rewrite Ea in Hla |- *. clear Ea a0 a'.
          rewrite slice_ok by (unfold flen, k in *; lia).
          fold k.
          destruct (N.min (N.min (rg_len r) (end_ - rg_start r)) flen <? N.min (rg_len r) (end_ - rg_start r)) eqn:E5.
          -- destruct (n <=? nlen (skipn (N.to_nat k) (avail r))) eqn:E6; [unfold n, k in *; lia|].
             unfold is_short. fold flen. assert (flen <? rg_len r = true) as -> by lia.
             cbn [lift]. do 2 f_equal. unfold avail.
             rewrite (firstn_all_ge (N.to_nat (rg_len r))) by (unfold flen, nlen in *; lia).
             apply firstn_all_ge. rewrite skipn_length. unfold flen, nlen, k in *. lia.
          -- rewrite checked_add_ok by assumption.
             destruct (end_ <=? rg_start r + rg_len r) eqn:E7.
             ++ destruct (n <=? nlen (skipn (N.to_nat k) (avail r))) eqn:E6; [|unfold n, k in *; lia].
                cbn [lift]. do 2 f_equal. unfold takeN, avail.
                rewrite firstn_skipn_firstn by (unfold n, k in *; lia).
                f_equal. unfold n, k in *. lia.
             ++ destruct (n <=? nlen (skipn (N.to_nat k) (avail r))) eqn:E6; [unfold n, k in *; lia|].
                unfold is_short. fold flen. assert (flen <? rg_len r = false) as -> by lia.
                rewrite frag_loop_collect by (assumption || lia || (apply cb_inv; assumption)).
                replace (end_ - (rg_start r + rg_len r)) with (n - nlen (skipn (N.to_nat k) (avail r)))
                  by (unfold n, k in *; lia).
                assert (Hd : firstn (N.to_nat (N.min (N.min (rg_len r) (end_ - rg_start r)) flen - k))
                               (skipn (N.to_nat k) (rg_data r)) = skipn (N.to_nat k) (avail r)).
                { unfold avail. rewrite skipn_firstn_comm. f_equal. unfold k in *. lia. }
                rewrite Hd.
                destruct (collect rs (rg_start r + rg_len r) (n - nlen (skipn (N.to_nat k) (avail r)))) as [t|];
                  cbn [lift]; [now rewrite cb_app by assumption|reflexivity].
  Qed.

  Lemma on_range_frag_inv : forall rs start end_ s,
    inv s -> regions_ok rs -> start <= end_ ->
    on_range cb (Frag true rs) start end_ s = lift s (spec_frag rs start (end_ - start)).
  Proof.
    intros rs start end_ s Hi Hok Hle. unfold on_range, on_range_gen.
    destruct (end_ <? start) eqn:E; [lia|]. now apply frag_loop_spec.
  Qed.
End Stream.

(* C16_on_range_fragmented: the law holding on all states *)
Lemma on_range_frag : forall S (cb : S -> list N -> S),
  (forall s a b, cb (cb s a) b = cb s (a ++ b)) -> (forall s, cb s [] = s) ->
  forall rs start end_ s, regions_ok rs -> start <= end_ ->
    on_range cb (Frag true rs) start end_ s = lift S cb s (spec_frag rs start (end_ - start)).
Proof.
  intros S cb Ha Hn rs start end_ s Hok Hle.
  apply (on_range_frag_inv S cb (fun _ => True)); auto.
Qed.

(* ------------------------------------------------------------------ 3. adjacent regions = contiguous bytes *)
Fixpoint adjacent (base : N) (rs : list region) : Prop :=
  match rs with
  | [] => True
  | r :: rs' => rg_start r = base /\ rg_fail r = false /\ nlen (rg_data r) = rg_len r
                /\ adjacent (base + rg_len r) rs'
  end.

Definition flat (rs : list region) : list N := concat (map rg_data rs).

Lemma collect_adjacent : forall rs pos want, adjacent pos rs -> 0 < want ->
  collect rs pos want = Some (takeN want (flat rs)).
Proof.
  induction rs as [|r rs IH]; intros pos want Hadj Hw; cbn [collect flat map concat].
  - unfold takeN. now rewrite firstn_nil.
  - destruct Hadj as (Hs & Hf & Hl & Hrest). rewrite Hs, N.eqb_refl, Hf. cbn [negb].
    fold (flat rs).
    destruct (rg_len r =? 0) eqn:E0.
    + assert (rg_data r = []) as -> by (destruct (rg_data r); [reflexivity|unfold nlen in Hl; cbn in Hl; lia]).
      cbn [app]. apply IH; [|assumption]. replace pos with (pos + rg_len r) at 1 by lia. assumption.
    + assert (Ha : avail r = rg_data r).
      { unfold avail. apply firstn_all_ge. unfold nlen in Hl. lia. }
      rewrite Ha, Hl. unfold is_short. rewrite Hl, N.ltb_irrefl.
      destruct (want <=? rg_len r) eqn:E1.
      * f_equal. unfold takeN. rewrite firstn_app.
        replace (N.to_nat want - length (rg_data r))%nat with 0%nat by (unfold nlen in Hl; lia).
        cbn [firstn]. now rewrite app_nil_r.
      * rewrite IH by (assumption || lia). f_equal. unfold takeN. rewrite firstn_app.
        rewrite (firstn_all_ge (N.to_nat want) (rg_data r)) by (unfold nlen in Hl; lia).
        do 2 f_equal. unfold nlen in Hl. lia.
Qed.

(* C16_hash_fragmented (range part): a range starting in a run of adjacent regions is the clipped range of the
   run's bytes, at the offset relative to the run's base *)
Lemma spec_frag_adjacent : forall rs base start n, adjacent base rs -> base <= start ->
  spec_frag rs start n =
    if nlen (flat rs) <=? start - base then None
    else Some (takeN n (skipn (N.to_nat (start - base)) (flat rs))).
Proof.
  induction rs as [|r rs IH]; intros base start n Hadj Hle; cbn [spec_frag flat map concat].
  - change (nlen (@nil N)) with 0. destruct (0 <=? start - base) eqn:E; [reflexivity|lia].
  - destruct Hadj as (Hs & Hf & Hl & Hrest). fold (flat rs). rewrite Hs, Hf.
    assert (Ha : avail r = rg_data r).
    { unfold avail. apply firstn_all_ge. unfold nlen in Hl. lia. }
    destruct (start <? base) eqn:E1; [lia|].
    rewrite nlen_app, Hl.
    destruct (start <? base + rg_len r) eqn:E2.
    + rewrite Ha.
      destruct (rg_len r + nlen (flat rs) <=? start - base) eqn:E3; [lia|].
      set (k := start - base).
      destruct (skipn (N.to_nat k) (rg_data r)) as [|a0 a'] eqn:Ea.
      { apply skipn_nil_iff in Ea. unfold nlen in Hl. unfold k in *. lia. }
      rewrite <- Ea.
      assert (Hla : nlen (skipn (N.to_nat k) (rg_data r)) = rg_len r - k) by (rewrite nlen_skipn; lia).
      rewrite Hla. unfold is_short. rewrite Hl, N.ltb_irrefl.
      rewrite skipn_app.
      replace (N.to_nat k - length (rg_data r))%nat with 0%nat by (unfold nlen in Hl; unfold k in *; lia).
      cbn [skipn].
      destruct (n <=? rg_len r - k) eqn:E4.
      * f_equal. unfold takeN. rewrite firstn_app. rewrite skipn_length.
        replace (N.to_nat n - (length (rg_data r) - N.to_nat k))%nat with 0%nat
          by (unfold nlen in Hl; unfold k in *; lia).
        cbn [firstn]. now rewrite app_nil_r.
      * rewrite collect_adjacent by (assumption || lia). f_equal. unfold takeN. rewrite firstn_app.
        rewrite skipn_length.
        rewrite (firstn_all_ge (N.to_nat n)) by (rewrite skipn_length; unfold nlen in Hl; unfold k in *; lia).
        do 2 f_equal. unfold nlen in Hl. unfold k in *. lia.
    + rewrite (IH (base + rg_len r)) by (assumption || lia).
      replace (start - (base + rg_len r)) with (start - base - rg_len r) by lia.
      destruct (nlen (flat rs) <=? start - base - rg_len r) eqn:E3;
        destruct (rg_len r + nlen (flat rs) <=? start - base) eqn:E4; try lia; try reflexivity.
      f_equal. f_equal. rewrite skipn_app.
      rewrite (skipn_all2 (rg_data r)) by (unfold nlen in Hl; lia). cbn [app].
      f_equal. unfold nlen in Hl. lia.
Qed.
