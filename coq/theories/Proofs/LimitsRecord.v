(* Proofs/LimitsRecord.v — C14, record faithfulness in full: every reported match has positive length,
   lies inside the fetched region whose base it carries and holds the capped bytes found there.
   Proved for every matcher whose kind-specific functions return well-formed spans
   (`matcher_spans_ok`: the contract of process_ac_match / find_next_match_at), and that contract is
   proved for text strings (MatcherKind::Literals) of every well-formed declaration. *)
From Boreal Require Import Base.Prelude Base.ListX Base.Bytes Model.Literals Model.Ac Model.AcScan Model.Limits
  Spec.TextSpec Model.TextCase
  Proofs.AcScanInsert Proofs.AcScanDecomp Proofs.LimitsProofs Proofs.TextAtoms Proofs.TextLiterals Proofs.TextMain
  Proofs.TextFull.

Definition span_ok (mem : bytes) (s e : N) : Prop := s < e /\ e <= nlen mem.

(* what process_ac_match (for a confirmed candidate inside the region) and find_next_match_at return *)
Definition matcher_spans_ok (var : matcher) : Prop :=
  (forall mem s e i sp t, e <= nlen mem -> confirm_ac_literal var mem s e i = Some t ->
     match mt_process var mem s e sp t with
     | AcNone => True
     | AcSingle s' e' => span_ok mem s' e'
     | AcMultiple l => Forall (fun se => span_ok mem (fst se) (snd se)) l
     end)
  /\ (forall mem o s e, mt_find_next var mem o = Some (s, e) -> span_ok mem s e).

Definition built_span (prm : sparams) (rg : mregion) (x : smatch) : Prop :=
  exists s e k, x = string_match_new prm rg s e k /\ span_ok (rg_mem rg) s e.

Lemma built_span_record prm rg x :
  built_span prm rg x ->
  sm_base x = rg_start rg /\ 0 < sm_len x /\ sm_off x + sm_len x <= nlen (rg_mem rg)
  /\ sm_data x = slice (sm_off x) (sm_off x + N.min (sm_len x) (p_match_max_length prm)) (rg_mem rg).
Proof.
  intros (s & e & k & -> & Hs & He). unfold string_match_new. cbn [sm_base sm_off sm_len sm_data].
  repeat split; try lia. unfold slice. f_equal. lia.
Qed.

Section Spans.
  Variables (prm : sparams) (rg : mregion) (var : matcher).
  Hypothesis Hok : matcher_spans_ok var.

  Lemma fold_insert_span l : forall vm x,
    Forall (fun se => span_ok (rg_mem rg) (fst se) (snd se)) l ->
    In x (fold_left (fun acc se => insert_match acc (string_match_new prm rg (fst se) (snd se) 0)) l vm) ->
    In x vm \/ built_span prm rg x.
  Proof.
    induction l as [|se l IH]; intros vm x Hl H; cbn [fold_left] in H; [now left|].
    inversion Hl as [|? ? Hse Hl']; subst.
    apply IH in H as [H|H]; [|now right | exact Hl'].
    apply insert_match_in in H as [->|H]; [right | now left]. exists (fst se), (snd se), 0. auto.
  Qed.

  Lemma var_step_span vm c x :
    snd c <= nlen (rg_mem rg) ->
    In x (var_step prm rg var vm c) -> In x vm \/ built_span prm rg x.
  Proof.
    destruct c as [[i s] e]. cbn [snd]. intros He. unfold var_step, var_step_with.
    destruct (confirm_ac_literal var (rg_mem rg) s e i) as [t|] eqn:Ec; [|now left].
    intros H. apply truncate_in in H.
    pose proof (proj1 Hok (rg_mem rg) s e i (start_position rg vm) t He Ec) as Hp.
    destruct (mt_process var (rg_mem rg) s e (start_position rg vm) t) as [|s' e'|l].
    - now left.
    - apply insert_match_in in H as [->|H]; [right | now left]. exists s', e', (get_xor_key var i). auto.
    - now apply fold_insert_span in H.
  Qed.

  Lemma single_loop_span fuel : forall offset vm x,
    In x (single_loop fuel prm rg var offset vm) -> In x vm \/ built_span prm rg x.
  Proof.
    induction fuel as [|fuel IH]; intros offset vm x H; cbn [single_loop] in H; [now left|].
    destruct (offset <? nlen (rg_mem rg)); [|now left].
    destruct (p_max_nb_matches prm <=? nlen vm); [now left|].
    destruct (mt_find_next var (rg_mem rg) offset) as [[s e]|] eqn:Ef; [|now left].
    pose proof (proj2 Hok _ _ _ _ Ef) as Hs.
    assert (G : In x (vm ++ [string_match_new prm rg s e 0]) -> In x vm \/ built_span prm rg x).
    { intros Hx. apply in_app_or in Hx as [Hx|[<-|[]]]; [now left | right]. exists s, e, 0. auto. }
    destruct (p_max_nb_matches prm <=? nlen (vm ++ [string_match_new prm rg s e 0])); [now apply G|].
    apply IH in H as [H|H]; [now apply G | now right].
  Qed.

  Lemma own_cands_bounded : Forall (fun c => snd c <= nlen (rg_mem rg)) (own_cands var rg).
  Proof.
    apply Forall_forall. intros [[i s] e] H. cbn [snd]. now apply (candidate_in_bounds var rg i s e).
  Qed.

  Lemma scan_var_region_span vm x :
    In x (scan_var_region prm var rg vm) -> In x vm \/ built_span prm rg x.
  Proof.
    unfold scan_var_region.
    assert (G : forall cs vm0, Forall (fun c => snd c <= nlen (rg_mem rg)) cs ->
                In x (fold_left (var_step prm rg var) cs vm0) -> In x vm0 \/ built_span prm rg x).
    { induction cs as [|c cs IH]; intros vm0 Hcs H; cbn [fold_left] in H; [now left|].
      inversion Hcs; subst. apply IH in H as [H|H]; [|now right | assumption].
      now apply var_step_span in H. }
    destruct (mt_literals var).
    - intros H. apply single_loop_span in H as [H|H]; [|now right]. apply G in H; [exact H | apply own_cands_bounded].
    - intros H. apply G in H; [exact H | apply own_cands_bounded].
  Qed.
End Spans.

(* the record statement, for every matcher that honours the span contract *)
Theorem record_faithful_spans prm var regions x :
  matcher_spans_ok var ->
  In x (scan_var_fragmented prm var regions) ->
  exists r, In r regions /\ f_fail r = false /\ sm_base x = f_start r
    /\ 0 < sm_len x /\ sm_off x + sm_len x <= nlen (f_mem r)
    /\ sm_data x = slice (sm_off x) (sm_off x + N.min (sm_len x) (p_match_max_length prm)) (f_mem r).
Proof.
  intros Hok. unfold scan_var_fragmented.
  assert (G : forall vm, In x (fold_left (fun vm r => if f_fail r then vm
             else scan_var_region prm var {| rg_start := f_start r; rg_mem := f_mem r |} vm) regions vm) ->
    In x vm \/ exists r, In r regions /\ f_fail r = false
                         /\ built_span prm {| rg_start := f_start r; rg_mem := f_mem r |} x).
  { induction regions as [|r regions IH]; intros vm H; cbn [fold_left] in H; [now left|].
    apply IH in H as [H|(r' & Hr' & Hf & Hb)].
    - destruct (f_fail r) eqn:Ef; [now left|].
      apply (scan_var_region_span prm _ var Hok) in H as [H|H]; [now left|].
      right. exists r. repeat split; auto. now left.
    - right. exists r'. repeat split; auto. now right. }
  intros H. apply G in H as [[]|(r & Hr & Hf & Hb)].
  exists r. split; [exact Hr|]. split; [exact Hf|]. apply built_span_record in Hb. exact Hb.
Qed.

(* ------------------------------------------------------------------ the contract holds for text strings *)
Lemma literals_spans_ok lits md :
  Forall (fun l => l <> []) lits -> matcher_spans_ok (literals_matcher lits md).
Proof.
  intros Hne. split.
  - intros mem s e i sp t He Hc. cbn [literals_matcher mt_process]. unfold literals_process.
    destruct (validate_fullword md mem s e t); [|exact I].
    apply confirm_inv in Hc as (lit & Hlit & Htest & _). cbn [literals_matcher mt_literals mt_mods] in *.
    apply nnth_opt_In in Hlit. rewrite Forall_forall in Hne. specialize (Hne lit Hlit).
    apply eq_test_len in Htest as [Hlen _]. rewrite nlen_slice in Hlen.
    assert (0 < nlen lit) by (destruct lit; [congruence | rewrite nlen_cons; lia]).
    unfold span_ok. lia.
  - intros mem o s e H. discriminate.
Qed.

Lemma text_literals_nonempty d : wf_decl d = true -> Forall (fun l => l <> []) (new_bytes_literals d).
Proof.
  intros Hwf. apply Forall_forall. intros lit Hlit. apply In_nnth_opt in Hlit as [i Hi].
  destruct (lit_to_enc_full d i lit Hwf Hi) as (e & He & Hlink). destruct Hlink as (Hl & _).
  pose proof (enc_nonempty d e Hwf He) as Hne. assert (E : Some lit = Some (e_bytes e)) by (rewrite <- Hi; exact Hl).
  inversion E; subst. exact Hne.
Qed.

Theorem text_spans_ok d : wf_decl d = true -> matcher_spans_ok (text_matcher d).
Proof. intros Hwf. apply literals_spans_ok. now apply text_literals_nonempty. Qed.

Theorem record_faithful_text prm d regions x :
  wf_decl d = true ->
  In x (scan_var_fragmented prm (text_matcher d) regions) ->
  exists r, In r regions /\ f_fail r = false /\ sm_base x = f_start r
    /\ 0 < sm_len x /\ sm_off x + sm_len x <= nlen (f_mem r)
    /\ sm_data x = slice (sm_off x) (sm_off x + N.min (sm_len x) (p_match_max_length prm)) (f_mem r).
Proof. intros Hwf. apply record_faithful_spans. now apply text_spans_ok. Qed.


(* ------------------------------------------------------------------ the contract is needed: a nullable raw regex
   (known finding C14-nullable-regex-zero-length).  A raw matcher whose find_next_match_at returns the
   empty span at the current offset (what `/b*/` does on a byte that is not `b`) makes the loop of
   scan_single_variable record zero-length matches: the record statement's "positive length" fails. *)
Definition empty_span_matcher : matcher :=
  {| mt_literals := [];
     mt_mods := {| m_fullword := false; m_wide := false; m_ascii := true; m_nocase := false; m_xor_start := None |};
     mt_process := fun _ _ _ _ _ => AcNone;
     mt_find_next := fun mem o => if o <? nlen mem then Some (o, o) else None |}.

Lemma raw_zero_length_refuted :
  map (fun x => (sm_off x, sm_len x))
      (scan_var_direct {| p_match_max_length := 512; p_max_nb_matches := 1000 |} empty_span_matcher [97; 97; 98])
  = [(0, 0); (1, 0); (2, 0)]
  /\ ~ matcher_spans_ok empty_span_matcher.
Proof.
  split; [vm_compute; reflexivity|].
  intros [_ H]. specialize (H [97] 0 0 0 eq_refl). destruct H as [H _]. lia.
Qed.
