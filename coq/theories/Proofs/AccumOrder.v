(* Proofs/AccumOrder.v — C04: the early-exit accumulators of `and`, `or` and the quantifiers answer the
   same whatever the order of their operands (defined or undefined) — an early exit never makes the
   answer depend on where the deciding operand stands.  Corollaries of the counting characterisations. *)
From Coq Require Import Permutation.
From Boreal Require Import Base.Prelude Base.Res Model.Eval Spec.CondSem Proofs.SemProofs.

Lemma forallb_perm {A} (f : A -> bool) l l' : Permutation l l' -> forallb f l = forallb f l'.
Proof.
  induction 1 as [|x l l' _ IH|x y l|l l' l'' _ IH1 _ IH2]; cbn [forallb].
  - reflexivity.
  - now rewrite IH.
  - destruct (f x), (f y); reflexivity.
  - now rewrite IH1.
Qed.

Lemma existsb_perm {A} (f : A -> bool) l l' : Permutation l l' -> existsb f l = existsb f l'.
Proof.
  induction 1 as [|x l l' _ IH|x y l|l l' l'' _ IH1 _ IH2]; cbn [existsb].
  - reflexivity.
  - now rewrite IH.
  - destruct (f x), (f y); reflexivity.
  - now rewrite IH1.
Qed.

Lemma count_true_perm l l' : Permutation l l' -> count_true l = count_true l'.
Proof.
  intros H. unfold count_true, nlen. f_equal.
  apply Permutation_length. clear -H.
  induction H as [|x l l' _ IH|x y l|l l' l'' _ IH1 _ IH2]; cbn [filter].
  - constructor.
  - destruct x; [now constructor | exact IH].
  - destruct x, y; apply Permutation_refl.
  - eapply Permutation_trans; eassumption.
Qed.

Theorem and_loop_order os os' :
  Permutation os os' -> and_loop false (map to_res os) = and_loop false (map to_res os').
Proof. intros H. rewrite !and_loop_sem. now rewrite (forallb_perm holds os os' H). Qed.

Theorem or_loop_order os os' :
  Permutation os os' -> or_loop false (map to_res os) = or_loop false (map to_res os').
Proof. intros H. rewrite !or_loop_sem. now rewrite (existsb_perm holds os os' H). Qed.

Theorem for_loop_num_order os os' n :
  1 <= n -> Permutation os os' ->
  for_loop (FNum n) 0 (map to_res os) = for_loop (FNum n) 0 (map to_res os').
Proof.
  intros Hn H. rewrite !for_loop_num_sem by exact Hn.
  now rewrite (count_true_perm _ _ (Permutation_map holds H)).
Qed.

Theorem for_loop_all_order os os' :
  Permutation os os' -> for_loop FAll 0 (map to_res os) = for_loop FAll 0 (map to_res os').
Proof.
  intros H. rewrite !for_loop_all_sem.
  rewrite (count_true_perm _ _ (Permutation_map holds H)).
  unfold nlen. now rewrite (Permutation_length (Permutation_map holds H)).
Qed.

Theorem for_loop_none_order os os' :
  Permutation os os' -> for_loop FNone 0 (map to_res os) = for_loop FNone 0 (map to_res os').
Proof.
  intros H. rewrite !for_loop_none_sem.
  now rewrite (count_true_perm _ _ (Permutation_map holds H)).
Qed.
