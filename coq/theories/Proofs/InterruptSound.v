(* Proofs/InterruptSound.v — C15, the reading a user relies on most: nothing delivered by an interrupted
   scan is spurious — every event (rule) it delivered is delivered (returned) by the complete scan.
   Corollaries of the prefix theorems. *)
From Boreal Require Import Base.Prelude Base.Res Model.Eval Spec.CondSem Model.EvalCost Model.Scanner
     Proofs.InterruptProofs Proofs.ScannerProofs Proofs.CallbackProofs Proofs.NoScanInterruptProofs.

Lemma In_firstn_In {A} (l : list A) n x : In x (firstn n l) -> In x l.
Proof. intros H. rewrite <- (firstn_skipn n l). apply in_or_app. now left. Qed.

Theorem abort_no_spurious_event c k inp sc e :
  1 <= k ->
  In e (o_events (run_scan c (AbortAt k) inp sc)) -> In e (o_events (run_scan c Never inp sc)).
Proof.
  intros Hk Hin.
  destruct (abort_prefix c k inp sc Hk) as [[E _] | (_ & _ & E)].
  - now rewrite <- E.
  - rewrite E in Hin. exact (In_firstn_In _ _ _ Hin).
Qed.

Theorem timeout_no_spurious_event c j inp sc e :
  can_noscan c = false -> 1 <= j ->
  In e (o_events (run_scan c (TimeoutAt j) inp sc)) -> In e (o_events (run_scan c Never inp sc)).
Proof.
  intros Hc Hj Hin.
  destruct (timeout_prefix_full c j inp sc Hc Hj) as [[E _] | (_ & _ & later & E)].
  - now rewrite <- E.
  - rewrite E. apply in_or_app. now left.
Qed.

Theorem timeout_no_spurious_rule c j inp sc r :
  can_noscan c = false -> 1 <= j ->
  (j <= i_ac_checks inp \/ nchecks (after_globals c inp sc) < j) ->
  In r (o_rules (run_scan c (TimeoutAt j) inp sc)) -> In r (o_rules (run_scan c Never inp sc)).
Proof.
  intros Hc Hj Hp Hin.
  destruct (timeout_rules_prefix c j inp sc Hc Hj Hp) as [more E].
  rewrite E. apply in_or_app. now left.
Qed.

(* the number of events delivered never exceeds that of the complete scan *)
Theorem abort_events_le c k inp sc :
  1 <= k ->
  (length (o_events (run_scan c (AbortAt k) inp sc)) <= length (o_events (run_scan c Never inp sc)))%nat.
Proof.
  intros Hk.
  destruct (abort_prefix c k inp sc Hk) as [[E _] | (_ & _ & E)].
  - rewrite E. apply Nat.le_refl.
  - rewrite E, firstn_length. apply Nat.le_min_r.
Qed.
