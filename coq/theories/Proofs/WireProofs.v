(* Proofs/WireProofs.v — the generic codec theorem for Model/Wire.v (proved once, no bound on the value). *)
From Boreal Require Import Base.Prelude Model.Wire.
From Coq Require Import String.

(* ---------------------------------------------------------------- little endian *)
Lemma le_length : forall k n, List.length (le k n) = k.
Proof. induction k; intros; cbn [le List.length]; [reflexivity | now rewrite IHk]. Qed.

Lemma unle_le : forall k n, n < 256 ^ N.of_nat k -> unle (le k n) = n.
Proof.
  induction k; intros n H.
  - cbn [le unle]. change (256 ^ N.of_nat 0) with 1 in H. lia.
  - cbn [le unle]. rewrite IHk.
    + pose proof (N.div_mod n 256). lia.
    + rewrite Nat2N.inj_succ, N.pow_succ_r' in H.
      apply N.div_lt_upper_bound; lia.
Qed.

Lemma take_app : forall (a r : bytes), take (List.length a) (a ++ r) = Some (a, r).
Proof.
  intros. unfold take. rewrite app_length.
  replace (List.length a <=? List.length a + List.length r)%nat with true
    by (symmetry; apply Nat.leb_le; lia).
  rewrite firstn_app, Nat.sub_diag, firstn_all, skipn_app, Nat.sub_diag, skipn_all. cbn [firstn skipn].
  now rewrite app_nil_r.
Qed.

Lemma get_le_app : forall k n r, n < 256 ^ N.of_nat k -> get_le k (le k n ++ r) = Some (n, r).
Proof.
  intros. unfold get_le. rewrite <- (le_length k n) at 1. rewrite take_app, unle_le; auto.
Qed.

(* ---------------------------------------------------------------- enum tables *)
Lemma existsb_eqb_in : forall x l, existsb (N.eqb x) l = false -> ~ In x l.
Proof.
  intros x l H I. assert (existsb (N.eqb x) l = true) by (apply existsb_exists; exists x; split; [auto | apply N.eqb_refl]).
  congruence.
Qed.

Lemma find_ctor_in_tags : forall c vs tag t, find_ctor c vs = Some (tag, t) -> In tag (tags_of vs).
Proof.
  induction vs as [|[[c' tag'] t'] vs IH]; intros tag t H; cbn [find_ctor tags_of map] in *; [discriminate|].
  destruct (String.eqb c c'); [inversion H; subst; now left | right; eapply IH; eauto].
Qed.

Lemma find_tag_ctor : forall c vs tag t,
  nodupb (tags_of vs) = true -> find_ctor c vs = Some (tag, t) -> find_tag tag vs = Some (c, t).
Proof.
  induction vs as [|[[c' tag'] t'] vs IH]; intros tag t ND H; cbn [find_ctor find_tag tags_of map nodupb] in *;
    [discriminate|].
  apply andb_true_iff in ND as [ND1 ND2]. apply negb_true_iff in ND1.
  destruct (String.eqb c c') eqn:E.
  - inversion H; subst. rewrite N.eqb_refl. apply String.eqb_eq in E. now subst.
  - pose proof (find_ctor_in_tags _ _ _ _ H) as I.
    destruct (tag =? tag') eqn:E2.
    + apply N.eqb_eq in E2; subst. exfalso. eapply existsb_eqb_in; eauto.
    + apply IH; auto.
Qed.

Lemma find_ctor_in : forall c vs tag t, find_ctor c vs = Some (tag, t) -> In (c, tag, t) vs.
Proof.
  induction vs as [|[[c' tag'] t'] vs IH]; intros tag t H; cbn [find_ctor] in *; [discriminate|].
  destruct (String.eqb c c') eqn:E.
  - inversion H; subst. apply String.eqb_eq in E; subst. now left.
  - right. now apply IH.
Qed.

(* ---------------------------------------------------------------- induction over values *)
Section value_ind_nested.
  Variable P : value -> Prop.
  Hypothesis HN : forall n, P (VN n).
  Hypothesis HB : forall b, P (VB b).
  Hypothesis HS : forall l, P (VS l).
  Hypothesis HSeq : forall l, Forall P l -> P (VSeq l).
  Hypothesis HNone : P (VOpt None).
  Hypothesis HSome : forall x, P x -> P (VOpt (Some x)).
  Hypothesis HRec : forall m, Forall (fun fx => P (snd fx)) m -> P (VRec m).
  Hypothesis HCtor : forall c x, P x -> P (VCtor c x).

  Fixpoint value_ind_nested (v : value) : P v :=
    match v with
    | VN n => HN n
    | VB b => HB b
    | VS l => HS l
    | VSeq l => HSeq l ((fix go (l : list value) : Forall P l :=
                           match l with
                           | [] => Forall_nil _
                           | x :: t => Forall_cons _ (value_ind_nested x) (go t)
                           end) l)
    | VOpt None => HNone
    | VOpt (Some x) => HSome x (value_ind_nested x)
    | VRec m => HRec m ((fix go (m : list (string * value)) : Forall (fun fx => P (snd fx)) m :=
                           match m with
                           | [] => Forall_nil _
                           | fx :: t => Forall_cons _ (value_ind_nested (snd fx)) (go t)
                           end) m)
    | VCtor c x => HCtor c x (value_ind_nested x)
    end.
End value_ind_nested.

(* ---------------------------------------------------------------- list combinators *)
Lemma enc_dec_list : forall {A} (f : A -> option bytes) (g : bytes -> option (A * bytes)) (l : list A),
  Forall (fun x => forall a r, f x = Some a -> g (a ++ r) = Some (x, r)) l ->
  forall bs r, enc_list f l = Some bs -> dec_list g (List.length l) (bs ++ r) = Some (l, r).
Proof.
  intros A f g l H. induction H as [|x l Hx Hl IH]; intros bs r E; cbn [enc_list dec_list List.length] in *.
  - inversion E; subst. reflexivity.
  - destruct (f x) as [a|] eqn:Ea; [|discriminate].
    destruct (enc_list f l) as [b|] eqn:Eb; [|discriminate]. inversion E; subst.
    rewrite <- app_assoc, (Hx a (b ++ r) eq_refl), (IH b r eq_refl). reflexivity.
Qed.

Lemma enc_dec_fields : forall (W : schema -> Prop) (f : value -> schema -> option bytes)
    (g : schema -> bytes -> option (value * bytes)) (m : list (string * value)),
  Forall (fun fx => forall t a r, W t -> f (snd fx) t = Some a -> g t (a ++ r) = Some (snd fx, r)) m ->
  forall fs bs r, Forall (fun ht => W (snd ht)) fs -> enc_fields f m fs = Some bs ->
    dec_fields g fs (bs ++ r) = Some (m, r).
Proof.
  intros W f g m H. induction H as [|[h x] m Hx Hm IH]; intros fs bs r Wf E; cbn [enc_fields] in E.
  - destruct fs; [|discriminate]. inversion E; subst. reflexivity.
  - destruct fs as [|[h' t] fs]; [discriminate|]. cbn [fst snd] in *.
    inversion Wf as [|? ? Wt Wfs]; subst. cbn [snd] in Wt.
    destruct (String.eqb h h') eqn:Eh; [|discriminate]. apply String.eqb_eq in Eh; subst h'.
    destruct (f x t) as [a|] eqn:Ea; [|discriminate].
    destruct (enc_fields f m fs) as [b|] eqn:Eb; [|discriminate]. inversion E; subst.
    cbn [dec_fields]. rewrite <- app_assoc, (Hx t a (b ++ r) Wt Ea), (IH fs b r Wfs Eb). reflexivity.
Qed.

(* ---------------------------------------------------------------- well-formedness is inherited *)
Lemma lookup_in : forall {A} n (e : list (string * A)) s, lookup n e = Some s -> In (n, s) e.
Proof.
  induction e as [|[m x] e IH]; intros s H; cbn [lookup] in H; [discriminate|].
  destruct (String.eqb n m) eqn:E.
  - inversion H; subst. apply String.eqb_eq in E; subst. now left.
  - right. now apply IH.
Qed.

Lemma resolve_wf : forall e s s', wf_envb e = true -> wf_schemab s = true -> resolve e s = Some s' ->
  wf_schemab s' = true.
Proof.
  intros e s s' We Ws R. destruct s; cbn [resolve] in R; try (inversion R; subst; exact Ws).
  destruct (lookup name e) as [x|] eqn:L; [|discriminate].
  assert (wf_schemab x = true) as Wx.
  { apply lookup_in in L. unfold wf_envb in We. rewrite forallb_forall in We. apply (We (name, x) L). }
  destruct x; inversion R; subst; exact Wx.
Qed.

Lemma resolve_not_ref : forall e s n, resolve e s <> Some (SRef n).
Proof.
  intros e s n R. destruct s; cbn [resolve] in R; try discriminate.
  - destruct (lookup name e) as [x|]; [|discriminate]. destruct x; discriminate.
Qed.

Lemma list_max_ge : forall l x, In x l -> (x <= list_max l)%nat.
Proof.
  induction l; intros x H; [contradiction|]. cbn [list_max fold_right]. fold (list_max l).
  destruct H as [->|H]; [lia | apply IHl in H; lia].
Qed.

Lemma nlen_lt_pow : forall {A} (l : list A), nlen l <? two32 = true -> nlen l < 256 ^ N.of_nat 4.
Proof. intros A l H. apply N.ltb_lt in H. exact H. Qed.

(* ---------------------------------------------------------------- the codec theorem *)
Lemma le_1 : forall n, n < 256 -> [n] = le 1 n.
Proof. intros. cbn [le]. rewrite N.mod_small by lia. reflexivity. Qed.

Local Opaque le.

Theorem codec_roundtrip_fuel : forall e, wf_envb e = true ->
  forall v s bs r fuel, wf_schemab s = true -> encode e v s = Some bs -> (vdepth v <= fuel)%nat ->
    decode e fuel s (bs ++ r) = Some (v, r).
Proof.
  intros e We v. induction v using value_ind_nested; intros s bs r fuel Ws E D;
    (destruct fuel as [|f]; [cbn [vdepth] in D; lia|]);
    cbn [encode] in E; cbn [decode];
    destruct (resolve e s) as [s'|] eqn:R; try discriminate;
    pose proof (resolve_wf _ _ _ We Ws R) as Ws';
    pose proof (resolve_not_ref e s) as NR.
  - (* VN *)
    destruct s'; try discriminate.
    + destruct (n <? 256) eqn:C; [|discriminate]. injection E as <-. apply N.ltb_lt in C.
      rewrite (le_1 n C).
      rewrite get_le_app; [reflexivity | exact C].
    + destruct (n <? two32) eqn:C; [|discriminate]. injection E as <-. apply N.ltb_lt in C.
      rewrite get_le_app; [reflexivity | exact C].
    + destruct (n <? two64) eqn:C; [|discriminate]. injection E as <-. apply N.ltb_lt in C.
      rewrite get_le_app; [reflexivity | exact C].
    + destruct ((0 <? n) && (n <? two32)) eqn:C; [|discriminate]. injection E as <-.
      apply andb_true_iff in C as [C0 C]. apply N.ltb_lt in C.
      rewrite get_le_app; [rewrite C0; reflexivity | exact C].
    + destruct (n <? two64) eqn:C; [|discriminate]. injection E as <-. apply N.ltb_lt in C.
      rewrite get_le_app; [reflexivity | exact C].
    + destruct ((n <? two64) && negb (is_nan n)) eqn:C; [|discriminate]. injection E as <-.
      apply andb_true_iff in C as [C C1]. apply N.ltb_lt in C. apply negb_true_iff in C1.
      rewrite get_le_app; [rewrite C1; reflexivity | exact C].
  - (* VB *)
    destruct s'; try discriminate. injection E as <-. destruct b; reflexivity.
  - (* VS *)
    destruct s'; try discriminate.
    + unfold with_len in E. destruct (nlen l <? two32) eqn:C; [|discriminate]. injection E as <-.
      unfold dec_blob. rewrite <- app_assoc, get_le_app by (apply nlen_lt_pow; exact C).
      unfold nlen. rewrite Nat2N.id, take_app. reflexivity.
    + unfold with_len in E. destruct (nlen l <? two32) eqn:C; [|discriminate]. injection E as <-.
      unfold dec_blob. rewrite <- app_assoc, get_le_app by (apply nlen_lt_pow; exact C).
      unfold nlen. rewrite Nat2N.id, take_app. reflexivity.
    + destruct (nlen l =? n) eqn:C; [|discriminate]. injection E as <-. apply N.eqb_eq in C. subst n.
      unfold nlen. rewrite Nat2N.id, take_app. reflexivity.
  - (* VSeq *)
    destruct s'; try discriminate.
    unfold with_len in E. destruct (nlen l <? two32) eqn:C; [|discriminate].
    destruct (enc_list (fun x => encode e x s') l) as [b|] eqn:Eb; [|discriminate]. injection E as <-.
    rewrite <- app_assoc, get_le_app by (apply nlen_lt_pow; exact C).
    unfold nlen. rewrite Nat2N.id.
    rewrite (enc_dec_list (fun x => encode e x s') (decode e f s') l); [reflexivity | | exact Eb].
    rewrite Forall_forall in H |- *. intros x Hx a r0 Ea.
    apply (H x Hx); [exact Ws' | exact Ea |].
    cbn [vdepth] in D. pose proof (list_max_ge (map vdepth l) (vdepth x) (in_map _ _ _ Hx)). lia.
  - (* VOpt None *)
    destruct s'; try discriminate. injection E as <-. reflexivity.
  - (* VOpt Some *)
    destruct s'; try discriminate.
    destruct (encode e v s') as [a|] eqn:Ea; [|discriminate]. injection E as <-.
    cbn [app]. rewrite (IHv s' a r f); [reflexivity | exact Ws' | exact Ea | cbn [vdepth] in D; lia].
  - (* VRec *)
    destruct s'; try discriminate.
    cbn [wf_schemab] in Ws'. rewrite forallb_forall in Ws'.
    rewrite (enc_dec_fields (fun t => wf_schemab t = true) (fun x t => encode e x t) (decode e f) m) with (fs := fs) (bs := bs);
      [reflexivity | | | exact E].
    + rewrite Forall_forall in H |- *. intros fx Hfx t a r0 Wt Ea.
      apply (H fx Hfx); [exact Wt | exact Ea |].
      cbn [vdepth] in D.
      pose proof (list_max_ge (map (fun fx => match fx with (_, x) => vdepth x end) m) (vdepth (snd fx))) as G.
      assert (In (vdepth (snd fx)) (map (fun fx => match fx with (_, x) => vdepth x end) m)) as I.
      { apply in_map_iff. exists fx. split; [destruct fx; reflexivity | exact Hfx]. }
      apply G in I. lia.
    + rewrite Forall_forall. intros [h t] Iht. cbn [snd]. apply (Ws' _ Iht).
  - (* VCtor *)
    destruct s'; try discriminate.
    destruct (find_ctor c vs) as [[tag t]|] eqn:Fc; [|discriminate].
    destruct (tag <? 256) eqn:C; [|discriminate].
    destruct (encode e v t) as [a|] eqn:Ea; [|discriminate]. injection E as <-.
    cbn [wf_schemab] in Ws'. apply andb_true_iff in Ws' as [ND Wvs].
    cbn [app]. rewrite (find_tag_ctor c vs tag t ND Fc).
    rewrite forallb_forall in Wvs. pose proof (Wvs _ (find_ctor_in _ _ _ _ Fc)) as Wt. cbn beta iota in Wt.
    apply andb_true_iff in Wt as [_ Wt].
    rewrite (IHv t a r f); [reflexivity | exact Wt | exact Ea | cbn [vdepth] in D; lia].
Qed.

Corollary codec_roundtrip : forall e v s bs r,
  wf_envb e = true -> wf_schemab s = true -> encode e v s = Some bs ->
  decode e (vdepth v) s (bs ++ r) = Some (v, r).
Proof. intros. eapply codec_roundtrip_fuel; eauto. Qed.

(* ---------------------------------------------------------------- schema equality is Leibniz equality *)
Section schema_ind_nested.
  Variable P : schema -> Prop.
  Hypothesis Hbase : forall s, (match s with SSeq _ | SOpt _ | SStruct _ | SEnum _ => False | _ => True end) -> P s.
  Hypothesis HSeq : forall t, P t -> P (SSeq t).
  Hypothesis HOpt : forall t, P t -> P (SOpt t).
  Hypothesis HStruct : forall fs, Forall (fun ft => P (snd ft)) fs -> P (SStruct fs).
  Hypothesis HEnum : forall vs, Forall (fun v => P (snd v)) vs -> P (SEnum vs).

  Fixpoint schema_ind_nested (s : schema) : P s :=
    match s with
    | SSeq t => HSeq t (schema_ind_nested t)
    | SOpt t => HOpt t (schema_ind_nested t)
    | SStruct fs => HStruct fs ((fix go (l : list (string * schema)) : Forall (fun ft => P (snd ft)) l :=
                                  match l with
                                  | [] => Forall_nil _
                                  | x :: t => Forall_cons _ (schema_ind_nested (snd x)) (go t)
                                  end) fs)
    | SEnum vs => HEnum vs ((fix go (l : list (string * N * schema)) : Forall (fun v => P (snd v)) l :=
                               match l with
                               | [] => Forall_nil _
                               | x :: t => Forall_cons _ (schema_ind_nested (snd x)) (go t)
                               end) vs)
    | s' => Hbase s' I
    end.
End schema_ind_nested.

Lemma schema_eqb_eq : forall a b, schema_eqb a b = true -> a = b.
Proof.
  induction a using schema_ind_nested; intros b E.
  - destruct a; try contradiction; destruct b; cbn [schema_eqb] in E; try discriminate; try reflexivity.
    + apply N.eqb_eq in E. now subst.
    + apply String.eqb_eq in E. now subst.
  - destruct b; cbn [schema_eqb] in E; try discriminate. f_equal. now apply IHa.
  - destruct b; cbn [schema_eqb] in E; try discriminate. f_equal. now apply IHa.
  - destruct b; cbn [schema_eqb] in E; try discriminate. f_equal.
    revert fs0 E. induction H as [|[f x] fs Hx Hfs IH]; intros [|[g y] gs] E; try discriminate; [reflexivity|].
    apply andb_true_iff in E as [E E3]. apply andb_true_iff in E as [E1 E2].
    apply String.eqb_eq in E1. cbn [snd] in Hx. apply Hx in E2. apply IH in E3. now subst.
  - destruct b; cbn [schema_eqb] in E; try discriminate. f_equal.
    revert vs0 E. induction H as [|[[c i] x] vs Hx Hvs IH]; intros [|[[d j] y] ws] E; try discriminate; [reflexivity|].
    apply andb_true_iff in E as [E E4]. apply andb_true_iff in E as [E E3]. apply andb_true_iff in E as [E1 E2].
    apply String.eqb_eq in E1. apply N.eqb_eq in E2. cbn [snd] in Hx. apply Hx in E3. apply IH in E4. now subst.
Qed.

Lemma env_eqb_eq : forall a b, env_eqb a b = true -> a = b.
Proof.
  induction a as [|[n x] a IH]; intros [|[m y] b] E; cbn [env_eqb] in E; try discriminate; [reflexivity|].
  apply andb_true_iff in E as [E E3]. apply andb_true_iff in E as [E1 E2].
  apply String.eqb_eq in E1. apply schema_eqb_eq in E2. apply IH in E3. now subst.
Qed.

Lemma params_eqb_eq : forall a b, params_eqb a b = true -> a = b.
Proof.
  induction a as [|[p x] a IH]; intros [|[q y] b] E; cbn [params_eqb] in E; try discriminate; [reflexivity|].
  apply andb_true_iff in E as [E E3]. apply andb_true_iff in E as [E1 E2].
  apply String.eqb_eq in E1. apply String.eqb_eq in E2. apply IH in E3. now subst.
Qed.

(* Two-schema form: what is written under the write-side tables is read back under the read-side tables,
   provided the two sides agree (decided by env_eqb / schema_eqb on the translated tables). *)
Theorem codec_roundtrip_two_sided : forall we re ws rs v bs r fuel,
  env_eqb we re = true -> schema_eqb ws rs = true ->
  wf_envb we = true -> wf_schemab ws = true ->
  encode we v ws = Some bs -> (vdepth v <= fuel)%nat ->
  decode re fuel rs (bs ++ r) = Some (v, r).
Proof.
  intros we re ws rs v bs r fuel Ee Es We Ws E D.
  apply env_eqb_eq in Ee. apply schema_eqb_eq in Es. subst re rs.
  eapply codec_roundtrip_fuel; eauto.
Qed.

(* ================================================================ converse direction: decode is injective
   on byte strings, i.e. the only byte string that decodes to v (with rest r) is encode v ++ r *)

Definition byte_list (bs : bytes) : Prop := Forall (fun b => b < 256) bs.

Lemma byte_list_app : forall a b, byte_list (a ++ b) <-> byte_list a /\ byte_list b.
Proof. intros. unfold byte_list. apply Forall_app. Qed.

Lemma unle_bound : forall a, byte_list a -> unle a < 256 ^ N.of_nat (List.length a).
Proof.
  induction a as [|b a IH]; intros H; cbn [unle List.length].
  - change (256 ^ N.of_nat 0) with 1. lia.
  - inversion H; subst. specialize (IH H3). rewrite Nat2N.inj_succ, N.pow_succ_r'. lia.
Qed.

Lemma le_unle : forall a, byte_list a -> le (List.length a) (unle a) = a.
Proof.
  induction a as [|b a IH]; intros H; cbn [unle List.length le]; [reflexivity|].
  inversion H; subst. specialize (IH H3).
  assert (E1 : (b + 256 * unle a) mod 256 = b).
  { pose proof (N.div_mod (b + 256 * unle a) 256). pose proof (N.mod_lt (b + 256 * unle a) 256). lia. }
  assert (E2 : (b + 256 * unle a) / 256 = unle a).
  { pose proof (N.div_mod (b + 256 * unle a) 256). pose proof (N.mod_lt (b + 256 * unle a) 256). lia. }
  rewrite E1, E2.
  now rewrite IH.
Qed.

Lemma take_inv : forall k bs a r, take k bs = Some (a, r) -> bs = a ++ r /\ List.length a = k.
Proof.
  intros k bs a r H. unfold take in H. destruct (k <=? List.length bs)%nat eqn:E; [|discriminate].
  injection H as <- <-. apply Nat.leb_le in E. split; [symmetry; apply firstn_skipn | apply firstn_length_le; exact E].
Qed.

Lemma get_le_inv : forall k bs n r, byte_list bs -> get_le k bs = Some (n, r) ->
  bs = le k n ++ r /\ n < 256 ^ N.of_nat k /\ byte_list r.
Proof.
  intros k bs n r B H. unfold get_le in H. destruct (take k bs) as [[a r']|] eqn:T; [|discriminate].
  injection H as <- <-. apply take_inv in T as [-> L]. apply byte_list_app in B as [Ba Br].
  subst k. rewrite le_unle by exact Ba. repeat split; [apply unle_bound; exact Ba | exact Br].
Qed.



Lemma find_tag_in_ctors : forall tag vs c t, find_tag tag vs = Some (c, t) -> In c (ctors_of vs).
Proof.
  induction vs as [|[[c' tag'] t'] vs IH]; intros c t H; cbn [find_tag ctors_of map] in *; [discriminate|].
  destruct (tag =? tag'); [injection H as <- <-; now left | right; eapply IH; eauto].
Qed.

Lemma existsb_streqb_in : forall x l, existsb (String.eqb x) l = false -> ~ In x l.
Proof.
  intros x l H I. assert (existsb (String.eqb x) l = true)
    by (apply existsb_exists; exists x; split; [auto | apply String.eqb_refl]). congruence.
Qed.

Lemma find_ctor_tag : forall tag vs c t,
  nodup_strb (ctors_of vs) = true -> find_tag tag vs = Some (c, t) -> find_ctor c vs = Some (tag, t).
Proof.
  induction vs as [|[[c' tag'] t'] vs IH]; intros c t ND H; cbn [find_ctor find_tag ctors_of map nodup_strb] in *;
    [discriminate|].
  apply andb_true_iff in ND as [ND1 ND2]. apply negb_true_iff in ND1.
  destruct (tag =? tag') eqn:E.
  - injection H as <- <-. rewrite String.eqb_refl. apply N.eqb_eq in E. now subst.
  - pose proof (find_tag_in_ctors _ _ _ _ H) as I.
    destruct (String.eqb c c') eqn:E2.
    + apply String.eqb_eq in E2; subst. exfalso. eapply existsb_streqb_in; eauto.
    + apply IH; auto.
Qed.

Lemma find_tag_in : forall tag vs c t, find_tag tag vs = Some (c, t) -> In (c, tag, t) vs.
Proof.
  induction vs as [|[[c' tag'] t'] vs IH]; intros c t H; cbn [find_tag] in *; [discriminate|].
  destruct (tag =? tag') eqn:E.
  - injection H as <- <-. apply N.eqb_eq in E; subst. now left.
  - right. now apply IH.
Qed.

Lemma resolve_cwf : forall e s s', cwf_envb e = true -> cwf_schemab s = true -> resolve e s = Some s' ->
  cwf_schemab s' = true.
Proof.
  intros e s s' We Ws R. destruct s; cbn [resolve] in R; try (injection R as <-; exact Ws).
  destruct (lookup name e) as [x|] eqn:L; [|discriminate].
  assert (cwf_schemab x = true) as Wx.
  { apply lookup_in in L. unfold cwf_envb in We. rewrite forallb_forall in We. apply (We (name, x) L). }
  destruct x; try discriminate; injection R as <-; exact Wx.
Qed.

(* ---------------------------------------------------------------- list combinators, converse direction *)
Lemma dec_enc_list : forall {A} (f : A -> option bytes) (g : bytes -> option (A * bytes)),
  (forall b x r, byte_list b -> g b = Some (x, r) -> exists a, f x = Some a /\ b = a ++ r) ->
  forall k b l r, byte_list b -> dec_list g k b = Some (l, r) ->
    exists a, enc_list f l = Some a /\ b = a ++ r /\ List.length l = k.
Proof.
  intros A f g H. induction k; intros b l r B D; cbn [dec_list] in D.
  - injection D as <- <-. exists []. repeat split.
  - destruct (g b) as [[x b1]|] eqn:G; [|discriminate].
    destruct (dec_list g k b1) as [[xs b2]|] eqn:D1; [|discriminate]. injection D as <- <-.
    destruct (H _ _ _ B G) as [a [Fa ->]]. apply byte_list_app in B as [_ B1].
    destruct (IHk _ _ _ B1 D1) as [a' [Fa' [-> L]]].
    exists (a ++ a'). cbn [enc_list]. rewrite Fa. fold (enc_list f xs). rewrite Fa'.
    repeat split; [now rewrite app_assoc | cbn [List.length]; now rewrite L].
Qed.

Lemma dec_enc_fields : forall (W : schema -> Prop) (f : value -> schema -> option bytes)
    (g : schema -> bytes -> option (value * bytes)),
  (forall t b x r, W t -> byte_list b -> g t b = Some (x, r) -> exists a, f x t = Some a /\ b = a ++ r) ->
  forall fs b m r, Forall (fun ht => W (snd ht)) fs -> byte_list b -> dec_fields g fs b = Some (m, r) ->
    exists a, enc_fields f m fs = Some a /\ b = a ++ r.
Proof.
  intros W f g H. induction fs as [|[h t] fs IH]; intros b m r Wf B D; cbn [dec_fields] in D.
  - injection D as <- <-. exists []. split; reflexivity.
  - inversion Wf as [|? ? Wt Wfs]; subst. cbn [snd] in Wt.
    destruct (g t b) as [[x b1]|] eqn:G; [|discriminate].
    destruct (dec_fields g fs b1) as [[m' b2]|] eqn:D1; [|discriminate]. injection D as <- <-.
    destruct (H _ _ _ _ Wt B G) as [a [Fa ->]]. apply byte_list_app in B as [_ B1].
    destruct (IH _ _ _ Wfs B1 D1) as [a' [Fa' ->]].
    exists (a ++ a'). cbn [enc_fields fst snd]. rewrite String.eqb_refl, Fa. fold (enc_fields f m' fs).
    rewrite Fa'. split; [reflexivity | now rewrite app_assoc].
Qed.

Lemma blob_inv : forall bs v r, byte_list bs -> dec_blob bs = Some (v, r) ->
  exists l, v = VS l /\ with_len l (Some l) = Some (le 4 (nlen l) ++ l) /\ bs = (le 4 (nlen l) ++ l) ++ r.
Proof.
  intros bs v r B D. unfold dec_blob in D.
  destruct (get_le 4 bs) as [[n b1]|] eqn:G; [|discriminate].
  destruct (take (N.to_nat n) b1) as [[a b2]|] eqn:T; [|discriminate]. injection D as <- <-.
  apply get_le_inv in G as [-> [Hn B1]]; [|exact B]. apply take_inv in T as [-> L].
  assert (nlen a = n) as E by (unfold nlen; rewrite L; apply N2Nat.id).
  exists a. split; [reflexivity|]. unfold with_len. rewrite E.
  replace (n <? two32) with true by (symmetry; apply N.ltb_lt; exact Hn).
  split; [reflexivity | now rewrite app_assoc].
Qed.

Local Opaque le.

Theorem decode_encode : forall e, cwf_envb e = true ->
  forall fuel s bs v r, cwf_schemab s = true -> byte_list bs -> decode e fuel s bs = Some (v, r) ->
    exists a, encode e v s = Some a /\ bs = a ++ r.
Proof.
  intros e We. induction fuel as [|f IH]; intros s bs v r Ws B D; [discriminate|].
  cbn [decode] in D.
  destruct (resolve e s) as [s'|] eqn:R; [|discriminate].
  pose proof (resolve_cwf _ _ _ We Ws R) as Ws'.
  destruct s'.
  - (* U8 *)
    destruct (get_le 1 bs) as [[n b1]|] eqn:G; [|discriminate]. injection D as <- <-.
    apply get_le_inv in G as [-> [Hn _]]; [|exact B].
    exists (le 1 n). split; [|reflexivity]. cbn [encode]. rewrite R.
    replace (n <? 256) with true by (symmetry; apply N.ltb_lt; exact Hn). now rewrite <- le_1 by exact Hn.
  - (* U32 *)
    destruct (get_le 4 bs) as [[n b1]|] eqn:G; [|discriminate]. injection D as <- <-.
    apply get_le_inv in G as [-> [Hn _]]; [|exact B].
    exists (le 4 n). split; [|reflexivity]. cbn [encode]. rewrite R.
    now replace (n <? two32) with true by (symmetry; apply N.ltb_lt; exact Hn).
  - (* U64 *)
    destruct (get_le 8 bs) as [[n b1]|] eqn:G; [|discriminate]. injection D as <- <-.
    apply get_le_inv in G as [-> [Hn _]]; [|exact B].
    exists (le 8 n). split; [|reflexivity]. cbn [encode]. rewrite R.
    now replace (n <? two64) with true by (symmetry; apply N.ltb_lt; exact Hn).
  - (* NZ32 *)
    destruct (get_le 4 bs) as [[n b1]|] eqn:G; [|discriminate].
    destruct (0 <? n) eqn:Z; [|discriminate]. injection D as <- <-.
    apply get_le_inv in G as [-> [Hn _]]; [|exact B].
    exists (le 4 n). split; [|reflexivity]. cbn [encode]. rewrite R, Z.
    now replace (n <? two32) with true by (symmetry; apply N.ltb_lt; exact Hn).
  - (* I64 *)
    destruct (get_le 8 bs) as [[n b1]|] eqn:G; [|discriminate]. injection D as <- <-.
    apply get_le_inv in G as [-> [Hn _]]; [|exact B].
    exists (le 8 n). split; [|reflexivity]. cbn [encode]. rewrite R.
    now replace (n <? two64) with true by (symmetry; apply N.ltb_lt; exact Hn).
  - (* F64 *)
    destruct (get_le 8 bs) as [[n b1]|] eqn:G; [|discriminate].
    destruct (is_nan n) eqn:Z; [discriminate|]. injection D as <- <-.
    apply get_le_inv in G as [-> [Hn _]]; [|exact B].
    exists (le 8 n). split; [|reflexivity]. cbn [encode]. rewrite R, Z.
    now replace (n <? two64) with true by (symmetry; apply N.ltb_lt; exact Hn).
  - (* Bool *)
    destruct bs as [|b0 b1]; [discriminate|].
    destruct b0 as [|p]; [injection D as <- <-; exists [0]; cbn [encode]; rewrite R; split; reflexivity|].
    destruct p; try discriminate. injection D as <- <-. exists [1]. cbn [encode]. rewrite R. split; reflexivity.
  - (* Str *)
    destruct (blob_inv _ _ _ B D) as [l [-> [E ->]]].
    exists (le 4 (nlen l) ++ l). split; [|reflexivity]. cbn [encode]. rewrite R. exact E.
  - (* Bytes *)
    destruct (blob_inv _ _ _ B D) as [l [-> [E ->]]].
    exists (le 4 (nlen l) ++ l). split; [|reflexivity]. cbn [encode]. rewrite R. exact E.
  - (* Fixed *)
    destruct (take (N.to_nat n) bs) as [[a b1]|] eqn:T; [|discriminate]. injection D as <- <-.
    apply take_inv in T as [-> L]. exists a. split; [|reflexivity]. cbn [encode]. rewrite R.
    replace (nlen a =? n) with true; [reflexivity|]. symmetry. apply N.eqb_eq. unfold nlen. rewrite L. apply N2Nat.id.
  - (* Seq *)
    destruct (get_le 4 bs) as [[n b1]|] eqn:G; [|discriminate].
    destruct (dec_list (decode e f s') (N.to_nat n) b1) as [[l b2]|] eqn:DL; [|discriminate]. injection D as <- <-.
    apply get_le_inv in G as [-> [Hn B1]]; [|exact B].
    destruct (dec_enc_list (fun x => encode e x s') (decode e f s')) with (k := N.to_nat n) (b := b1) (l := l) (r := b2)
      as [a [Ea [-> L]]]; [|exact B1|exact DL|].
    { intros b x r0 Bb Db. apply (IH s' b x r0); [exact Ws' | exact Bb | exact Db]. }
    assert (nlen l = n) as E by (unfold nlen; rewrite L; apply N2Nat.id).
    exists (le 4 n ++ a). split; [|now rewrite app_assoc]. cbn [encode]. rewrite R. unfold with_len. rewrite E, Ea.
    now replace (n <? two32) with true by (symmetry; apply N.ltb_lt; exact Hn).
  - (* Opt *)
    destruct bs as [|b0 b1]; [discriminate|].
    destruct b0 as [|p]; [injection D as <- <-; exists [0]; cbn [encode]; rewrite R; split; reflexivity|].
    destruct p; try discriminate.
    destruct (decode e f s' b1) as [[x b2]|] eqn:Dx; [|discriminate]. injection D as <- <-.
    inversion B as [|? ? _ B1]; subst.
    destruct (IH s' b1 x b2 Ws' B1 Dx) as [a [Ea ->]].
    exists (1 :: a). cbn [encode]. rewrite R, Ea. split; reflexivity.
  - (* Struct *)
    destruct (dec_fields (decode e f) fs bs) as [[m b1]|] eqn:DF; [|discriminate]. injection D as <- <-.
    cbn [cwf_schemab] in Ws'. rewrite forallb_forall in Ws'.
    destruct (dec_enc_fields (fun t => cwf_schemab t = true) (fun x t => encode e x t) (decode e f))
      with (fs := fs) (b := bs) (m := m) (r := b1) as [a [Ea ->]]; [| |exact B|exact DF|].
    { intros t b x r0 Wt Bb Db. apply (IH t b x r0 Wt Bb Db). }
    { rewrite Forall_forall. intros [h t] I. cbn [snd]. apply (Ws' _ I). }
    exists a. cbn [encode]. rewrite R. split; [exact Ea | reflexivity].
  - (* Enum *)
    destruct bs as [|tag b1]; [discriminate|].
    destruct (find_tag tag vs) as [[c t]|] eqn:Ft; [|discriminate].
    destruct (decode e f t b1) as [[x b2]|] eqn:Dx; [|discriminate]. injection D as <- <-.
    inversion B as [|? ? Htag B1]; subst.
    cbn [cwf_schemab] in Ws'. apply andb_true_iff in Ws' as [ND Wvs]. rewrite forallb_forall in Wvs.
    pose proof (Wvs _ (find_tag_in _ _ _ _ Ft)) as Wt. cbn beta iota in Wt.
    destruct (IH t b1 x b2 Wt B1 Dx) as [a [Ea ->]].
    exists (tag :: a). cbn [encode]. rewrite R, (find_ctor_tag tag vs c t ND Ft), Ea.
    replace (tag <? 256) with true by (symmetry; apply N.ltb_lt; exact Htag). split; reflexivity.
  - (* Ref: resolve never yields a name *)
    exfalso. eapply resolve_not_ref; eauto.
Qed.
