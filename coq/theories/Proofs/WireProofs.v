(* Proofs/WireProofs.v — the generic codec theorem for Model/Wire.v (proved once, no bound on the value). *)
From Boreal Require Import Base.Prelude Model.Wire.
From Coq Require Import String.

(* ---------------------------------------------------------------- little endian *)
Lemma le_length : forall k n, List.length (le k n) = k.
Proof. induction k; intros; cbn [le List.length]; [reflexivity | now rewrite IHk]. Qed.

Lemma unle_le : forall k n, n < 256 ^ N.of_nat k -> unle (le k n) = n.
Proof.
  induction k; intros n H.
  - cbn [le unle]. change (256 ^ N.of_nat 0) with 1 in H. lia.
  - cbn [le unle]. rewrite IHk.
    + pose proof (N.div_mod n 256). lia.
    + rewrite Nat2N.inj_succ, N.pow_succ_r' in H.
      apply N.div_lt_upper_bound; lia.
Qed.

Lemma take_app : forall (a r : bytes), take (List.length a) (a ++ r) = Some (a, r).
Proof.
  intros. unfold take. rewrite app_length.
  replace (List.length a <=? List.length a + List.length r)%nat with true
    by (symmetry; apply Nat.leb_le; lia).
  rewrite firstn_app, Nat.sub_diag, firstn_all, skipn_app, Nat.sub_diag, skipn_all. cbn [firstn skipn].
  now rewrite app_nil_r.
Qed.

Lemma get_le_app : forall k n r, n < 256 ^ N.of_nat k -> get_le k (le k n ++ r) = Some (n, r).
Proof.
  intros. unfold get_le. rewrite <- (le_length k n) at 1. rewrite take_app, unle_le; auto.
Qed.

(* ---------------------------------------------------------------- enum tables *)
Lemma existsb_eqb_in : forall x l, existsb (N.eqb x) l = false -> ~ In x l.
Proof.
  intros x l H I. assert (existsb (N.eqb x) l = true) by (apply existsb_exists; exists x; split; [auto | apply N.eqb_refl]).
  congruence.
Qed.

Lemma find_ctor_in_tags : forall c vs tag t, find_ctor c vs = Some (tag, t) -> In tag (tags_of vs).
Proof.
  induction vs as [|[[c' tag'] t'] vs IH]; intros tag t H; cbn [find_ctor tags_of map] in *; [discriminate|].
  destruct (String.eqb c c'); [inversion H; subst; now left | right; eapply IH; eauto].
Qed.

Lemma find_tag_ctor : forall c vs tag t,
  nodupb (tags_of vs) = true -> find_ctor c vs = Some (tag, t) -> find_tag tag vs = Some (c, t).
Proof.
  induction vs as [|[[c' tag'] t'] vs IH]; intros tag t ND H; cbn [find_ctor find_tag tags_of map nodupb] in *;
    [discriminate|].
  apply andb_true_iff in ND as [ND1 ND2]. apply negb_true_iff in ND1.
  destruct (String.eqb c c') eqn:E.
  - inversion H; subst. rewrite N.eqb_refl. apply String.eqb_eq in E. now subst.
  - pose proof (find_ctor_in_tags _ _ _ _ H) as I.
    destruct (tag =? tag') eqn:E2.
    + apply N.eqb_eq in E2; subst. exfalso. eapply existsb_eqb_in; eauto.
    + apply IH; auto.
Qed.

Lemma find_ctor_in : forall c vs tag t, find_ctor c vs = Some (tag, t) -> In (c, tag, t) vs.
Proof.
  induction vs as [|[[c' tag'] t'] vs IH]; intros tag t H; cbn [find_ctor] in *; [discriminate|].
  destruct (String.eqb c c') eqn:E.
  - inversion H; subst. apply String.eqb_eq in E; subst. now left.
  - right. now apply IH.
Qed.

(* ---------------------------------------------------------------- induction over values *)
Section value_ind_nested.
  Variable P : value -> Prop.
  Hypothesis HN : forall n, P (VN n).
  Hypothesis HB : forall b, P (VB b).
  Hypothesis HS : forall l, P (VS l).
  Hypothesis HSeq : forall l, Forall P l -> P (VSeq l).
  Hypothesis HNone : P (VOpt None).
  Hypothesis HSome : forall x, P x -> P (VOpt (Some x)).
  Hypothesis HRec : forall m, Forall (fun fx => P (snd fx)) m -> P (VRec m).
  Hypothesis HCtor : forall c x, P x -> P (VCtor c x).

  Fixpoint value_ind_nested (v : value) : P v :=
    match v with
    | VN n => HN n
    | VB b => HB b
    | VS l => HS l
    | VSeq l => HSeq l ((fix go (l : list value) : Forall P l :=
                           match l with
                           | [] => Forall_nil _
                           | x :: t => Forall_cons _ (value_ind_nested x) (go t)
                           end) l)
    | VOpt None => HNone
    | VOpt (Some x) => HSome x (value_ind_nested x)
    | VRec m => HRec m ((fix go (m : list (string * value)) : Forall (fun fx => P (snd fx)) m :=
                           match m with
                           | [] => Forall_nil _
                           | fx :: t => Forall_cons _ (value_ind_nested (snd fx)) (go t)
                           end) m)
    | VCtor c x => HCtor c x (value_ind_nested x)
    end.
End value_ind_nested.

(* ---------------------------------------------------------------- list combinators *)
Lemma enc_dec_list : forall {A} (f : A -> option bytes) (g : bytes -> option (A * bytes)) (l : list A),
  Forall (fun x => forall a r, f x = Some a -> g (a ++ r) = Some (x, r)) l ->
  forall bs r, enc_list f l = Some bs -> dec_list g (List.length l) (bs ++ r) = Some (l, r).
Proof.
  intros A f g l H. induction H as [|x l Hx Hl IH]; intros bs r E; cbn [enc_list dec_list List.length] in *.
  - inversion E; subst. reflexivity.
  - destruct (f x) as [a|] eqn:Ea; [|discriminate].
    destruct (enc_list f l) as [b|] eqn:Eb; [|discriminate]. inversion E; subst.
    rewrite <- app_assoc, (Hx a (b ++ r) eq_refl), (IH b r eq_refl). reflexivity.
Qed.

Lemma enc_dec_fields : forall (W : schema -> Prop) (f : value -> schema -> option bytes)
    (g : schema -> bytes -> option (value * bytes)) (m : list (string * value)),
  Forall (fun fx => forall t a r, W t -> f (snd fx) t = Some a -> g t (a ++ r) = Some (snd fx, r)) m ->
  forall fs bs r, Forall (fun ht => W (snd ht)) fs -> enc_fields f m fs = Some bs ->
    dec_fields g fs (bs ++ r) = Some (m, r).
Proof.
  intros W f g m H. induction H as [|[h x] m Hx Hm IH]; intros fs bs r Wf E; cbn [enc_fields] in E.
  - destruct fs; [|discriminate]. inversion E; subst. reflexivity.
  - destruct fs as [|[h' t] fs]; [discriminate|]. cbn [fst snd] in *.
    inversion Wf as [|? ? Wt Wfs]; subst. cbn [snd] in Wt.
    destruct (String.eqb h h') eqn:Eh; [|discriminate]. apply String.eqb_eq in Eh; subst h'.
    destruct (f x t) as [a|] eqn:Ea; [|discriminate].
    destruct (enc_fields f m fs) as [b|] eqn:Eb; [|discriminate]. inversion E; subst.
    cbn [dec_fields]. rewrite <- app_assoc, (Hx t a (b ++ r) Wt Ea), (IH fs b r Wfs Eb). reflexivity.
Qed.

(* ---------------------------------------------------------------- well-formedness is inherited *)
Lemma lookup_in : forall {A} n (e : list (string * A)) s, lookup n e = Some s -> In (n, s) e.
Proof.
  induction e as [|[m x] e IH]; intros s H; cbn [lookup] in H; [discriminate|].
  destruct (String.eqb n m) eqn:E.
  - inversion H; subst. apply String.eqb_eq in E; subst. now left.
  - right. now apply IH.
Qed.

Lemma resolve_wf : forall e s s', wf_envb e = true -> wf_schemab s = true -> resolve e s = Some s' ->
  wf_schemab s' = true.
Proof.
  intros e s s' We Ws R. destruct s; cbn [resolve] in R; try (inversion R; subst; exact Ws).
  destruct (lookup name e) as [x|] eqn:L; [|discriminate].
  assert (wf_schemab x = true) as Wx.
  { apply lookup_in in L. unfold wf_envb in We. rewrite forallb_forall in We. apply (We (name, x) L). }
  destruct x; inversion R; subst; exact Wx.
Qed.

Lemma resolve_not_ref : forall e s n, resolve e s <> Some (SRef n).
Proof.
  intros e s n R. destruct s; cbn [resolve] in R; try discriminate.
  - destruct (lookup name e) as [x|]; [|discriminate]. destruct x; discriminate.
Qed.

Lemma list_max_ge : forall l x, In x l -> (x <= list_max l)%nat.
Proof.
  induction l; intros x H; [contradiction|]. cbn [list_max fold_right]. fold (list_max l).
  destruct H as [->|H]; [lia | apply IHl in H; lia].
Qed.

Lemma nlen_lt_pow : forall {A} (l : list A), nlen l <? two32 = true -> nlen l < 256 ^ N.of_nat 4.
Proof. intros A l H. apply N.ltb_lt in H. exact H. Qed.

(* ---------------------------------------------------------------- the codec theorem *)
Lemma le_1 : forall n, n < 256 -> [n] = le 1 n.
Proof. intros. cbn [le]. rewrite N.mod_small by lia. reflexivity. Qed.

Local Opaque le.

Theorem codec_roundtrip_fuel : forall e, wf_envb e = true ->
  forall v s bs r fuel, wf_schemab s = true -> encode e v s = Some bs -> (vdepth v <= fuel)%nat ->
    decode e fuel s (bs ++ r) = Some (v, r).
Proof.
  intros e We v. induction v using value_ind_nested; intros s bs r fuel Ws E D;
    (destruct fuel as [|f]; [cbn [vdepth] in D; lia|]);
    cbn [encode] in E; cbn [decode];
    destruct (resolve e s) as [s'|] eqn:R; try discriminate;
    pose proof (resolve_wf _ _ _ We Ws R) as Ws';
    pose proof (resolve_not_ref e s) as NR.
  - (* VN *)
    destruct s'; try discriminate.
    + destruct (n <? 256) eqn:C; [|discriminate]. injection E as <-. apply N.ltb_lt in C.
      rewrite (le_1 n C).
      rewrite get_le_app; [reflexivity | exact C].
    + destruct (n <? two32) eqn:C; [|discriminate]. injection E as <-. apply N.ltb_lt in C.
      rewrite get_le_app; [reflexivity | exact C].
    + destruct (n <? two64) eqn:C; [|discriminate]. injection E as <-. apply N.ltb_lt in C.
      rewrite get_le_app; [reflexivity | exact C].
    + destruct ((0 <? n) && (n <? two32)) eqn:C; [|discriminate]. injection E as <-.
      apply andb_true_iff in C as [C0 C]. apply N.ltb_lt in C.
      rewrite get_le_app; [rewrite C0; reflexivity | exact C].
    + destruct (n <? two64) eqn:C; [|discriminate]. injection E as <-. apply N.ltb_lt in C.
      rewrite get_le_app; [reflexivity | exact C].
    + destruct ((n <? two64) && negb (is_nan n)) eqn:C; [|discriminate]. injection E as <-.
      apply andb_true_iff in C as [C C1]. apply N.ltb_lt in C. apply negb_true_iff in C1.
      rewrite get_le_app; [rewrite C1; reflexivity | exact C].
  - (* VB *)
    destruct s'; try discriminate. injection E as <-. destruct b; reflexivity.
  - (* VS *)
    destruct s'; try discriminate.
    + unfold with_len in E. destruct (nlen l <? two32) eqn:C; [|discriminate]. injection E as <-.
      unfold dec_blob. rewrite <- app_assoc, get_le_app by (apply nlen_lt_pow; exact C).
      unfold nlen. rewrite Nat2N.id, take_app. reflexivity.
    + unfold with_len in E. destruct (nlen l <? two32) eqn:C; [|discriminate]. injection E as <-.
      unfold dec_blob. rewrite <- app_assoc, get_le_app by (apply nlen_lt_pow; exact C).
      unfold nlen. rewrite Nat2N.id, take_app. reflexivity.
    + destruct (nlen l =? n) eqn:C; [|discriminate]. injection E as <-. apply N.eqb_eq in C. subst n.
      unfold nlen. rewrite Nat2N.id, take_app. reflexivity.
  - (* VSeq *)
    destruct s'; try discriminate.
    unfold with_len in E. destruct (nlen l <? two32) eqn:C; [|discriminate].
    destruct (enc_list (fun x => encode e x s') l) as [b|] eqn:Eb; [|discriminate]. injection E as <-.
    rewrite <- app_assoc, get_le_app by (apply nlen_lt_pow; exact C).
    unfold nlen. rewrite Nat2N.id.
    rewrite (enc_dec_list (fun x => encode e x s') (decode e f s') l); [reflexivity | | exact Eb].
    rewrite Forall_forall in H |- *. intros x Hx a r0 Ea.
    apply (H x Hx); [exact Ws' | exact Ea |].
    cbn [vdepth] in D. pose proof (list_max_ge (map vdepth l) (vdepth x) (in_map _ _ _ Hx)). lia.
  - (* VOpt None *)
    destruct s'; try discriminate. injection E as <-. reflexivity.
  - (* VOpt Some *)
    destruct s'; try discriminate.
    destruct (encode e v s') as [a|] eqn:Ea; [|discriminate]. injection E as <-.
    cbn [app]. rewrite (IHv s' a r f); [reflexivity | exact Ws' | exact Ea | cbn [vdepth] in D; lia].
  - (* VRec *)
    destruct s'; try discriminate.
    cbn [wf_schemab] in Ws'. rewrite forallb_forall in Ws'.
    rewrite (enc_dec_fields (fun t => wf_schemab t = true) (fun x t => encode e x t) (decode e f) m) with (fs := fs) (bs := bs);
      [reflexivity | | | exact E].
    + rewrite Forall_forall in H |- *. intros fx Hfx t a r0 Wt Ea.
      apply (H fx Hfx); [exact Wt | exact Ea |].
      cbn [vdepth] in D.
      pose proof (list_max_ge (map (fun fx => match fx with (_, x) => vdepth x end) m) (vdepth (snd fx))) as G.
      assert (In (vdepth (snd fx)) (map (fun fx => match fx with (_, x) => vdepth x end) m)) as I.
      { apply in_map_iff. exists fx. split; [destruct fx; reflexivity | exact Hfx]. }
      apply G in I. lia.
    + rewrite Forall_forall. intros [h t] Iht. cbn [snd]. apply (Ws' _ Iht).
  - (* VCtor *)
    destruct s'; try discriminate.
    destruct (find_ctor c vs) as [[tag t]|] eqn:Fc; [|discriminate].
    destruct (tag <? 256) eqn:C; [|discriminate].
    destruct (encode e v t) as [a|] eqn:Ea; [|discriminate]. injection E as <-.
    cbn [wf_schemab] in Ws'. apply andb_true_iff in Ws' as [ND Wvs].
    cbn [app]. rewrite (find_tag_ctor c vs tag t ND Fc).
    rewrite forallb_forall in Wvs. pose proof (Wvs _ (find_ctor_in _ _ _ _ Fc)) as Wt. cbn beta iota in Wt.
    apply andb_true_iff in Wt as [_ Wt].
    rewrite (IHv t a r f); [reflexivity | exact Wt | exact Ea | cbn [vdepth] in D; lia].
Qed.

Corollary codec_roundtrip : forall e v s bs r,
  wf_envb e = true -> wf_schemab s = true -> encode e v s = Some bs ->
  decode e (vdepth v) s (bs ++ r) = Some (v, r).
Proof. intros. eapply codec_roundtrip_fuel; eauto. Qed.

(* ---------------------------------------------------------------- schema equality is Leibniz equality *)
Section schema_ind_nested.
  Variable P : schema -> Prop.
  Hypothesis Hbase : forall s, (match s with SSeq _ | SOpt _ | SStruct _ | SEnum _ => False | _ => True end) -> P s.
  Hypothesis HSeq : forall t, P t -> P (SSeq t).
  Hypothesis HOpt : forall t, P t -> P (SOpt t).
  Hypothesis HStruct : forall fs, Forall (fun ft => P (snd ft)) fs -> P (SStruct fs).
  Hypothesis HEnum : forall vs, Forall (fun v => P (snd v)) vs -> P (SEnum vs).

  Fixpoint schema_ind_nested (s : schema) : P s :=
    match s with
    | SSeq t => HSeq t (schema_ind_nested t)
    | SOpt t => HOpt t (schema_ind_nested t)
    | SStruct fs => HStruct fs ((fix go (l : list (string * schema)) : Forall (fun ft => P (snd ft)) l :=
                                  match l with
                                  | [] => Forall_nil _
                                  | x :: t => Forall_cons _ (schema_ind_nested (snd x)) (go t)
                                  end) fs)
    | SEnum vs => HEnum vs ((fix go (l : list (string * N * schema)) : Forall (fun v => P (snd v)) l :=
                               match l with
                               | [] => Forall_nil _
                               | x :: t => Forall_cons _ (schema_ind_nested (snd x)) (go t)
                               end) vs)
    | s' => Hbase s' I
    end.
End schema_ind_nested.

Lemma schema_eqb_eq : forall a b, schema_eqb a b = true -> a = b.
Proof.
  induction a using schema_ind_nested; intros b E.
  - destruct a; try contradiction; destruct b; cbn [schema_eqb] in E; try discriminate; try reflexivity.
    + apply N.eqb_eq in E. now subst.
    + apply String.eqb_eq in E. now subst.
  - destruct b; cbn [schema_eqb] in E; try discriminate. f_equal. now apply IHa.
  - destruct b; cbn [schema_eqb] in E; try discriminate. f_equal. now apply IHa.
  - destruct b; cbn [schema_eqb] in E; try discriminate. f_equal.
    revert fs0 E. induction H as [|[f x] fs Hx Hfs IH]; intros [|[g y] gs] E; try discriminate; [reflexivity|].
    apply andb_true_iff in E as [E E3]. apply andb_true_iff in E as [E1 E2].
    apply String.eqb_eq in E1. cbn [snd] in Hx. apply Hx in E2. apply IH in E3. now subst.
  - destruct b; cbn [schema_eqb] in E; try discriminate. f_equal.
    revert vs0 E. induction H as [|[[c i] x] vs Hx Hvs IH]; intros [|[[d j] y] ws] E; try discriminate; [reflexivity|].
    apply andb_true_iff in E as [E E4]. apply andb_true_iff in E as [E E3]. apply andb_true_iff in E as [E1 E2].
    apply String.eqb_eq in E1. apply N.eqb_eq in E2. cbn [snd] in Hx. apply Hx in E3. apply IH in E4. now subst.
Qed.

Lemma env_eqb_eq : forall a b, env_eqb a b = true -> a = b.
Proof.
  induction a as [|[n x] a IH]; intros [|[m y] b] E; cbn [env_eqb] in E; try discriminate; [reflexivity|].
  apply andb_true_iff in E as [E E3]. apply andb_true_iff in E as [E1 E2].
  apply String.eqb_eq in E1. apply schema_eqb_eq in E2. apply IH in E3. now subst.
Qed.

Lemma params_eqb_eq : forall a b, params_eqb a b = true -> a = b.
Proof.
  induction a as [|[p x] a IH]; intros [|[q y] b] E; cbn [params_eqb] in E; try discriminate; [reflexivity|].
  apply andb_true_iff in E as [E E3]. apply andb_true_iff in E as [E1 E2].
  apply String.eqb_eq in E1. apply String.eqb_eq in E2. apply IH in E3. now subst.
Qed.

(* Two-schema form: what is written under the write-side tables is read back under the read-side tables,
   provided the two sides agree (decided by env_eqb / schema_eqb on the translated tables). *)
Theorem codec_roundtrip_two_sided : forall we re ws rs v bs r fuel,
  env_eqb we re = true -> schema_eqb ws rs = true ->
  wf_envb we = true -> wf_schemab ws = true ->
  encode we v ws = Some bs -> (vdepth v <= fuel)%nat ->
  decode re fuel rs (bs ++ r) = Some (v, r).
Proof.
  intros we re ws rs v bs r fuel Ee Es We Ws E D.
  apply env_eqb_eq in Ee. apply schema_eqb_eq in Es. subst re rs.
  eapply codec_roundtrip_fuel; eauto.
Qed.
