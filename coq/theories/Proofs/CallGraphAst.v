(* Proofs/CallGraphAst.v — what the recursion guards do NOT bound: the depth of the tree the parser returns.
   The loops of `primary_expression_*` fold a chain `a op b op c ...` into a left-deep tree without any recursive
   call, so the guard counters stay where they are while the tree grows by one level per operator.  Everything
   that recurses on the tree afterwards is bounded by its own guard (`compile_expression`: max_condition_depth)
   or not at all (the drop glue of `Expression`: known finding C08-ast-drop-recursion). *)
From Boreal Require Import Base.Prelude.

Inductive ast := Leaf | Bin (l r : ast) | Paren (e : ast).

(* recursion depth of anything that walks the tree (drop glue, compile_expression without its guard) *)
Fixpoint height (e : ast) : nat :=
  match e with Leaf => O | Bin l r => S (Nat.max (height l) (height r)) | Paren e' => S (height e') end.
(* depth of parser recursion (guard counter) needed to produce the tree: only parentheses recurse *)
Fixpoint nesting (e : ast) : nat :=
  match e with Leaf => O | Bin l r => Nat.max (nesting l) (nesting r) | Paren e' => S (nesting e') end.

(* what the `while let Ok(..) = op` loop builds from n operators *)
Fixpoint chain (n : nat) : ast := match n with O => Leaf | S k => Bin (chain k) Leaf end.

Lemma chain_depth_unguarded : forall n, nesting (chain n) = O /\ height (chain n) = n.
Proof.
  induction n as [|n [IH1 IH2]]; [split; reflexivity|].
  cbn [chain nesting height]. rewrite IH1, IH2. split; [reflexivity|]. rewrite Nat.max_0_r. reflexivity.
Qed.

(* the statement one would like — the limits bound the depth of the tree — is false *)
Lemma depth_bound_by_limit_refuted : ~ (exists f : nat -> nat, forall e, (height e <= f (nesting e))%nat).
Proof.
  intros [f H]. specialize (H (chain (S (f O)))). destruct (chain_depth_unguarded (S (f O))) as [H1 H2].
  rewrite H1, H2 in H. lia.
Qed.
