(* Proofs/IncludeProofs.v — include expansion (Model/Include.v) against textual inlining
   (Spec/IncludeSpec.v), for any single-component compiler `step`. *)
From Coq Require Import String.
From Boreal Require Import Base.Prelude Spec.IncludeSpec Model.Include.
Open Scope string_scope.
Open Scope list_scope.
(* every lemma of a section takes all the section's variables and hypotheses, in order *)
Local Set Default Proof Using "All".

(* ================================================================ path resolution *)
Section Paths.
  Variable plain : Type.
  Variable fs : fsys plain.

  Lemma walk_Resolves : forall segs d q, walk fs d segs = Some q <-> Resolves fs d segs q.
  Proof.
    induction segs as [|s rest IH]; intros d q; cbn [walk].
    - split; intros H. + inversion H; subst; constructor. + inversion H; subst; reflexivity.
    - destruct (is_dir fs d) eqn:Hd.
      + destruct s.
        * rewrite IH. split; intros H. -- constructor; assumption. -- inversion H; subst; assumption.
        * rewrite IH. split; intros H. -- constructor; assumption. -- inversion H; subst; assumption.
        * destruct (exists_node fs (d ++ [s])) eqn:He.
          -- rewrite IH. split; intros H. ++ constructor; assumption. ++ inversion H; subst; assumption.
          -- split; intros H; [discriminate|]. inversion H; subst. congruence.
      + split; intros H; [discriminate|]. inversion H; subst; congruence.
  Qed.

  Lemma walk_app : forall a b d,
      walk fs d (a ++ b) = match walk fs d a with Some q => walk fs q b | None => None end.
  Proof.
    induction a as [|s a IH]; intros b d; cbn [walk app]; [reflexivity|].
    destruct (is_dir fs d); [|reflexivity].
    destruct s; try apply IH.
    destruct (exists_node fs (d ++ [s])); [apply IH | reflexivity].
  Qed.

  (* a path all of whose proper prefixes are directories and which exists: what `canonicalize` returns *)
  Definition Reach (q : path) : Prop := walk fs [] (map SName q) = Some q.

  Lemma Reach_nil : Reach [].
  Proof. reflexivity. Qed.

  Lemma Reach_snoc_inv : forall d n, Reach (d ++ [n]) -> Reach d.
  Proof.
    unfold Reach. intros d n H. rewrite map_app, walk_app in H.
    destruct (walk fs [] (map SName d)) as [q'|] eqn:Hq; [|discriminate].
    cbn [map walk] in H. destruct (is_dir fs q'); [|discriminate].
    destruct (exists_node fs (q' ++ [n])); [|discriminate].
    inversion H as [H1]. apply app_inj_tail in H1 as [-> _]. reflexivity.
  Qed.

  Lemma Reach_removelast : forall d, Reach d -> Reach (removelast d).
  Proof.
    intros d H. destruct d as [|x d'] using rev_ind; [exact H|].
    rewrite removelast_last. eapply Reach_snoc_inv; exact H.
  Qed.

  Lemma Reach_snoc : forall d n, Reach d -> is_dir fs d = true -> exists_node fs (d ++ [n]) = true ->
                                 Reach (d ++ [n]).
  Proof.
    unfold Reach. intros d n H Hd He. rewrite map_app, walk_app, H. cbn [map walk]. rewrite Hd, He. reflexivity.
  Qed.

  Lemma walk_Reach : forall segs d q, Reach d -> walk fs d segs = Some q -> Reach q.
  Proof.
    induction segs as [|s rest IH]; intros d q Hr H; cbn [walk] in H.
    - inversion H; subst; exact Hr.
    - destruct (is_dir fs d) eqn:Hd; [|discriminate]. destruct s.
      + eapply IH; [|exact H]. apply Reach_removelast; exact Hr.
      + eapply IH; eassumption.
      + destruct (exists_node fs (d ++ [s])) eqn:He; [|discriminate].
        eapply IH; [|exact H]. apply Reach_snoc; assumption.
  Qed.

  (* joining the directory of the including file with the directive and canonicalizing from the
     root is walking the directive from that directory *)
  Lemma walk_from_parent : forall p isegs, Reach p ->
      walk fs [] (map SName (removelast p) ++ isegs) = walk fs (removelast p) isegs.
  Proof.
    intros p isegs H. rewrite walk_app. apply Reach_removelast in H. unfold Reach in H. rewrite H. reflexivity.
  Qed.
  (* canonicalization is idempotent: what `canonicalize` returns is a fixed point of `canonicalize` *)
  Lemma canonicalize_idempotent : forall segs d q, Reach d -> walk fs d segs = Some q ->
      walk fs [] (map SName q) = Some q.
  Proof. intros segs d q Hd H. exact (walk_Reach segs d q Hd H). Qed.

  (* and a canonical path has no `.` / `..` left: it is the list of names itself *)
  Lemma canonical_names_only : forall q, Forall (fun s => match s with SName _ => True | _ => False end) (map SName q).
  Proof. induction q as [|x q IH]; cbn [map]; constructor; [exact I|exact IH]. Qed.
End Paths.

Lemma if_t : forall A (b : bool) (x y : A), b = true -> (if b then x else y) = x.
Proof. intros A b x y ->; reflexivity. Qed.
Lemma if_f : forall A (b : bool) (x y : A), b = false -> (if b then x else y) = y.
Proof. intros A b x y ->; reflexivity. Qed.

(* ================================================================ model = inlining *)
Section Proofs.
  Variables plain St E : Type.
  Variable step : St -> string -> plain -> St * option E.
  Variable touch : St -> string -> St.
  Variable log : St -> string * option string * string -> St.
  (* states that differ in what cannot be observed (empty namespaces, the callback log) *)
  Variable R : St -> St -> Prop.
  Hypothesis R_refl : forall a, R a a.
  Hypothesis R_sym : forall a b, R a b -> R b a.
  Hypothesis R_trans : forall a b c, R a b -> R b c -> R a c.
  Hypothesis step_R : forall a b ns x, R a b ->
      R (fst (step a ns x)) (fst (step b ns x)) /\ snd (step a ns x) = snd (step b ns x).
  Hypothesis touch_R : forall a ns, R (touch a ns) a.
  Hypothesis log_R : forall a k, R (log a k) a.

  Variable en : env plain.
  Variable ns : string.

  Notation res := (St * option (err E))%type.
  Definition Rres (a b : res) : Prop := R (fst a) (fst b) /\ snd a = snd b.

  Notation add_cs := (add_cs plain St E step touch log).
  Notation add_doc := (add_doc plain St E step touch log).
  Notation add_doc_with := (add_doc_with plain St E step touch log).
  Notation resolve := (resolve plain E en ns).
  Notation compile := (compile_items plain St E step touch).
  Notation inline_cs := (inline_cs plain E curdoc resolve (e_disabled en)).
  Notation inline := (inline plain E curdoc resolve (e_disabled en)).
  Notation doc_items := (doc_items plain E curdoc).
  Notation Inl := (Inl plain E curdoc resolve).
  Notation item := (item plain E).
  Notation IPlain := (IPlain plain E).
  Notation IErr := (IErr plain E).

  Lemma touch_R2 : forall a b, R a b -> R (touch a ns) (touch b ns).
  Proof.
    intros a b H. eapply R_trans; [apply touch_R|]. eapply R_trans; [exact H|]. apply R_sym, touch_R.
  Qed.

  Lemma compile_app : forall xs ys st,
      compile st ns (xs ++ ys) =
      match compile st ns xs with (st', None) => compile st' ns ys | bad => bad end.
  Proof.
    induction xs as [|x xs IH]; intros ys st; cbn [app compile_items]; [reflexivity|].
    destruct x as [x|e]; [|reflexivity].
    destruct (step (touch st ns) ns x) as [st' [e|]]; [reflexivity|apply IH].
  Qed.

  Lemma compile_R : forall xs a b, R a b -> Rres (compile a ns xs) (compile b ns xs).
  Proof.
    induction xs as [|x xs IH]; intros a b H; cbn [compile_items].
    - split; [exact H|reflexivity].
    - destruct x as [x|e].
      + destruct (step_R (touch a ns) (touch b ns) ns x (touch_R2 _ _ H)) as [H1 H2].
        destruct (step (touch a ns) ns x) as [a' ea], (step (touch b ns) ns x) as [b' eb].
        cbn [fst snd] in *. subst eb. destruct ea; [split; [exact H1|reflexivity]|]. apply IH; exact H1.
      + split; [apply touch_R2; exact H|reflexivity].
  Qed.

  (* how the model's recursive call and the spec's recursive inlining are related *)
  Definition rec_sim (rc : option (curdoc -> fcontent plain -> St -> res))
             (ri : option (curdoc -> list (string + plain) -> list item)) : Prop :=
    match rc, ri with
    | None, None => True
    | Some r, Some i => forall c doc a b, R a b -> Rres (r c doc a) (compile b ns (doc_items i c doc))
    | _, _ => False
    end.

  Lemma add_cs_sim : forall rc ri, rec_sim rc ri ->
      forall cs c a b, R a b -> Rres (add_cs rc en ns c cs a) (compile b ns (inline_cs ri c cs)).
  Proof.
    intros rc ri Hrec. induction cs as [|comp rest IH]; intros c a b H.
    - cbn. split; [exact H|reflexivity].
    - cbn [Include.add_cs IncludeSpec.inline_cs]. destruct comp as [name|x].
      + (* include *)
        rewrite compile_app.
        destruct (e_disabled en).
        { cbn [compile_items]. split; [apply touch_R2; exact H|reflexivity]. }
        destruct rc as [r|], ri as [i|]; cbn [rec_sim] in Hrec; try contradiction.
        2:{ cbn [compile_items]. split; [apply touch_R2; exact H|reflexivity]. }
        set (a1 := match e_cb en with Some _ => log (touch a ns) (name, cur_arg c, ns) | None => touch a ns end).
        assert (Ha1 : R a1 b).
        { unfold a1. destruct (e_cb en).
          - eapply R_trans; [apply log_R|]. eapply R_trans; [apply touch_R|exact H].
          - eapply R_trans; [apply touch_R|exact H]. }
        destruct (resolve c name) as [e|[c' doc]].
        * cbn [compile_items]. split; [|reflexivity]. cbn [fst].
          eapply R_trans; [exact Ha1|]. apply R_sym, touch_R.
        * destruct (Hrec c' doc a1 b Ha1) as [H1 H2].
          destruct (r c' doc a1) as [a2 ea], (compile b ns (doc_items i c' doc)) as [b2 eb].
          cbn [fst snd] in *. subst eb. destruct ea; [split; [exact H1|reflexivity]|].
          apply IH; exact H1.
      + (* rule / import *)
        cbn [compile_items].
        destruct (step_R (touch a ns) (touch b ns) ns x (touch_R2 _ _ H)) as [H1 H2].
        destruct (step (touch a ns) ns x) as [a' ea], (step (touch b ns) ns x) as [b' eb].
        cbn [fst snd] in *. subst eb. destruct ea; [split; [exact H1|reflexivity]|]. apply IH; exact H1.
  Qed.

  Definition mrec (d : nat) := match d with O => None | S d' => Some (add_doc d' en ns) end.
  Definition srec (d : nat) := match d with O => None | S d' => Some (inline d') end.

  Lemma add_doc_unfold : forall d, add_doc d en ns = add_doc_with (mrec d) en ns.
  Proof. destruct d; reflexivity. Qed.
  Lemma inline_unfold : forall d, inline d = inline_cs (srec d).
  Proof. destruct d; reflexivity. Qed.

  Lemma doc_sim : forall rc i, rec_sim rc (Some i) \/ True ->
      forall (Hcs : forall cs c a b, R a b -> Rres (add_cs rc en ns c cs a) (compile b ns (i c cs))),
      forall c doc a b, R a b -> Rres (add_doc_with rc en ns c doc a) (compile b ns (doc_items i c doc)).
  Proof.
    intros rc i _ Hcs c doc a b H. destruct doc as [cs| |]; cbn [Include.add_doc_with IncludeSpec.doc_items].
    - apply Hcs; exact H.
    - cbn [compile_items]. split; [|reflexivity]. cbn [fst]. eapply R_trans; [exact H|]. apply R_sym, touch_R.
    - cbn [compile_items]. split; [|reflexivity]. cbn [fst]. eapply R_trans; [exact H|]. apply R_sym, touch_R.
  Qed.

  Lemma rec_sim_d : forall d, rec_sim (mrec d) (srec d).
  Proof.
    induction d as [|d IH]; cbn [mrec srec rec_sim]; [exact I|].
    intros c doc a b H. rewrite add_doc_unfold.
    apply doc_sim; [right; exact I| |exact H].
    intros cs c0 a0 b0 H0. rewrite inline_unfold. apply add_cs_sim; [exact IH|exact H0].
  Qed.

  (* T1: compiling with includes = compiling the inlined items (same error, equivalent state) *)
  Theorem add_doc_inline : forall d c doc a b, R a b ->
      Rres (add_doc d en ns c doc a) (compile b ns (doc_items (inline d) c doc)).
  Proof.
    intros d c doc a b H. rewrite add_doc_unfold. apply doc_sim; [right; exact I| |exact H].
    intros cs c0 a0 b0 H0. rewrite inline_unfold. apply add_cs_sim; [apply rec_sim_d|exact H0].
  Qed.

  (* ---------------------------------------------------------------- pure inlining *)
  Definition is_plain (i : item) : bool := match i with IncludeSpec.IPlain _ _ _ => true | _ => false end.
  Fixpoint strip (l : list item) : list plain :=
    match l with
    | [] => []
    | IncludeSpec.IPlain _ _ x :: r => x :: strip r
    | _ :: r => strip r
    end.

  Lemma strip_app : forall a b, strip (a ++ b) = strip a ++ strip b.
  Proof. induction a as [|[x|e] a IH]; intros b; cbn [strip app]; rewrite ?IH; reflexivity. Qed.
  Lemma strip_map : forall xs, strip (map IPlain xs) = xs.
  Proof. induction xs as [|x xs IH]; cbn [strip map]; rewrite ?IH; reflexivity. Qed.
  Lemma all_plain_map : forall l, forallb is_plain l = true -> l = map IPlain (strip l).
  Proof.
    induction l as [|[x|e] l IH]; cbn [forallb is_plain strip map andb]; intros H;
      [reflexivity| rewrite <- IH by exact H; reflexivity | discriminate].
  Qed.

  Lemma compile_ok_plain : forall l st st', compile st ns l = (st', None) -> forallb is_plain l = true.
  Proof.
    induction l as [|[x|e] l IH]; intros st st' H; cbn [compile_items forallb is_plain andb] in *;
      [reflexivity| |discriminate].
    destruct (step (touch st ns) ns x) as [s1 [e|]]; [discriminate|]. eapply IH; exact H.
  Qed.

  (* soundness: when the executable inlining has no error marker, it is the pure inlining *)
  Lemma inline_sound' : forall d cs c, forallb is_plain (inline_cs (srec d) c cs) = true ->
      Inl d c cs (strip (inline_cs (srec d) c cs)).
  Proof.
    induction d as [|d IHd]; cbn [srec].
    - induction cs as [|[name|x] rest IH]; intros c H; cbn [IncludeSpec.inline_cs] in *.
      + constructor.
      + rewrite forallb_app in H. apply andb_true_iff in H as [H _].
        destruct (Bool.bool_dec (e_disabled en) true) as [Hdis|Hdis].
        * rewrite (if_t _ _ _ _ Hdis) in H. discriminate.
        * apply Bool.not_true_is_false in Hdis. rewrite (if_f _ _ _ _ Hdis) in H. discriminate.
      + cbn [forallb is_plain andb strip] in *. constructor. apply IH. exact H.
    - induction cs as [|[name|x] rest IH]; intros c H; cbn [IncludeSpec.inline_cs] in *.
      + constructor.
      + rewrite forallb_app in H. apply andb_true_iff in H as [H1 H2]. rewrite strip_app.
        destruct (Bool.bool_dec (e_disabled en) true) as [Hdis|Hdis].
        { rewrite (if_t _ _ _ _ Hdis) in H1. discriminate. }
        apply Bool.not_true_is_false in Hdis. rewrite (if_f _ _ _ _ Hdis) in *.
        destruct (resolve c name) as [e|[c' doc]] eqn:Hres; [cbn in H1; discriminate|].
        destruct doc as [cs'| |]; cbn [IncludeSpec.doc_items] in *; try (cbn in H1; discriminate).
        rewrite inline_unfold in *.
        eapply Inl_include; [exact Hres| apply IHd; exact H1 |]. apply IH. exact H2.
      + cbn [forallb is_plain andb strip] in *. constructor. apply IH. exact H.
  Qed.

  Lemma inline_sound : forall d cs c, forallb is_plain (inline d c cs) = true -> Inl d c cs (strip (inline d c cs)).
  Proof. intros d cs c. rewrite inline_unfold. apply inline_sound'. Qed.

  (* completeness: a pure inlining of nesting depth <= d is what the executable inlining computes *)
  Lemma inline_complete : forall n c cs xs, Inl n c cs xs -> e_disabled en = false ->
      forall d, (n <= d)%nat -> inline_cs (srec d) c cs = map IPlain xs.
  Proof.
    induction 1 as [n c | n c x cs xs _ IH | n c name cs c' cs' xs ys Hres _ IH1 _ IH2]; intros Hdis d Hd.
    - reflexivity.
    - cbn [IncludeSpec.inline_cs map]. rewrite IH by assumption. reflexivity.
    - destruct d as [|d]; [lia|]. cbn [IncludeSpec.inline_cs]. rewrite (if_f _ _ _ _ Hdis).
      cbn [srec]. rewrite Hres. cbn [IncludeSpec.doc_items].
      change (Some (inline d)) with (srec (S d)). rewrite inline_unfold.
      rewrite IH1 by (try assumption; lia).
      rewrite IH2 by (try assumption; lia). rewrite map_app. reflexivity.
  Qed.

  Lemma map_IPlain_inj : forall xs ys, map IPlain xs = map IPlain ys -> xs = ys.
  Proof.
    induction xs as [|x xs IH]; intros [|y ys] H; cbn [map] in H; try discriminate; [reflexivity|].
    inversion H; subst. f_equal. apply IH; assumption.
  Qed.

  Lemma Inl_functional : forall n m c cs xs ys, e_disabled en = false ->
      Inl n c cs xs -> Inl m c cs ys -> xs = ys.
  Proof.
    intros n m c cs xs ys Hd H1 H2. apply map_IPlain_inj.
    rewrite <- (inline_complete _ _ _ _ H1 Hd (Nat.max n m)) by lia.
    rewrite <- (inline_complete _ _ _ _ H2 Hd (Nat.max n m)) by lia. reflexivity.
  Qed.

  (* T2: success means the components are exactly those of the pure textual inlining, compiled in order *)
  Theorem transparent_ok : forall d c cs a a1,
      add_doc d en ns c (FText cs) a = (a1, None) ->
      exists xs b1, Inl d c cs xs /\ compile a ns (map IPlain xs) = (b1, None) /\ R a1 b1.
  Proof.
    intros d c cs a a1 H.
    destruct (add_doc_inline d c (FText cs) a a (R_refl a)) as [H1 H2]. rewrite H in H1, H2. cbn [fst snd] in *.
    cbn [IncludeSpec.doc_items] in *.
    destruct (compile a ns (inline d c cs)) as [b1 eb] eqn:Hc. cbn [fst snd] in *. subst eb.
    pose proof (compile_ok_plain _ _ _ Hc) as Hp.
    exists (strip (inline d c cs)), b1. split; [apply inline_sound; exact Hp|]. split; [|exact H1].
    rewrite <- all_plain_map by exact Hp. exact Hc.
  Qed.

  (* T2': conversely, whenever the pure inlining exists within the depth limit, compiling with
     includes is compiling the inlined components (same result, ok or error) *)
  Theorem transparent_complete : forall n d c cs xs a, Inl n c cs xs -> (n <= d)%nat -> e_disabled en = false ->
      Rres (add_doc d en ns c (FText cs) a) (compile a ns (map IPlain xs)).
  Proof.
    intros n d c cs xs a HI Hn Hd.
    pose proof (add_doc_inline d c (FText cs) a a (R_refl a)) as H. cbn [IncludeSpec.doc_items] in H.
    rewrite inline_unfold, (inline_complete _ _ _ _ HI Hd d Hn) in H. exact H.
  Qed.

  (* T3: an error is the error of the first problem in inlined document order *)
  Theorem error_same : forall d c doc a a1 k,
      add_doc d en ns c doc a = (a1, Some k) ->
      exists b1, compile a ns (doc_items (inline d) c doc) = (b1, Some k) /\ R a1 b1.
  Proof.
    intros d c doc a a1 k H.
    destruct (add_doc_inline d c doc a a (R_refl a)) as [H1 H2]. rewrite H in H1, H2. cbn [fst snd] in *.
    destruct (compile a ns (doc_items (inline d) c doc)) as [b1 eb]. cbn [fst snd] in *. subst eb.
    exists b1. split; [reflexivity|exact H1].
  Qed.

  (* inlining is concatenation, in document order, of what each component stands for (depth-first: the
     expansion of a directive is itself such a concatenation one level down) *)
  Definition expand (ri : option (curdoc -> list (string + plain) -> list item)) (c : curdoc)
             (comp : string + plain) : list item :=
    match comp with
    | inr x => [IPlain x]
    | inl name =>
        if e_disabled en then [IErr EUnauthorized] else
        match ri with
        | None => [IErr ETooDeep]
        | Some r => match resolve c name with
                    | inl e => [IErr e]
                    | inr (c', doc) => doc_items r c' doc
                    end
        end
    end.

  Lemma inline_cs_concat : forall ri c cs, inline_cs ri c cs = flat_map (expand ri c) cs.
  Proof.
    intros ri c. induction cs as [|[name|x] rest IH]; cbn [IncludeSpec.inline_cs flat_map expand]; rewrite ?IH; reflexivity.
  Qed.

  Lemma inline_concat : forall d c cs, inline d c cs = flat_map (expand (srec d) c) cs.
  Proof. intros d c cs. rewrite inline_unfold. apply inline_cs_concat. Qed.

  (* there is no include-once: a directive written twice stands for its content twice *)
  Lemma include_twice : forall d c name rest,
      inline d c (inl name :: inl name :: rest)
      = expand (srec d) c (inl name) ++ expand (srec d) c (inl name) ++ inline d c rest.
  Proof. intros d c name rest. rewrite !inline_concat. cbn [flat_map]. reflexivity. Qed.

  (* T5: with includes disabled, a directive reached without an earlier error is UnauthorizedInclude *)
  Theorem disabled_unauthorized : forall d c pre name post a b1,
      e_disabled en = true ->
      compile a ns (map IPlain pre) = (b1, None) ->
      exists a1, add_doc d en ns c (FText (map inr pre ++ inl name :: post)) a = (a1, Some EUnauthorized)
                 /\ R a1 b1.
  Proof.
    intros d c pre name post a b1 Hd Hpre.
    destruct (add_doc_inline d c (FText (map inr pre ++ inl name :: post)) a a (R_refl a)) as [H1 H2].
    cbn [IncludeSpec.doc_items] in *.
    assert (Hi : inline d c (map inr pre ++ inl name :: post)
                 = map IPlain pre ++ IErr EUnauthorized :: inline d c post).
    { rewrite !inline_unfold. clear H1 H2 Hpre. induction pre as [|x pre IH]; cbn [map app IncludeSpec.inline_cs].
      - rewrite Hd. reflexivity.
      - rewrite IH. reflexivity. }
    rewrite Hi, compile_app, Hpre in H1, H2. cbn [compile_items fst snd] in *.
    destruct (add_doc d en ns c (FText (map inr pre ++ inl name :: post)) a) as [a1 ea]. cbn [fst snd] in *.
    subst ea. exists a1. split; [reflexivity|]. eapply R_trans; [exact H1|]. apply touch_R.
  Qed.

  (* ---------------------------------------------------------------- the code as written *)
  Notation add_cs_f := (add_cs_f plain St E step touch log).
  Notation add_doc_fuel := (add_doc_fuel plain St E step touch log).

  Lemma add_cs_f_deep : forall rc' cs c a, add_cs_f true rc' en ns c cs a = Some (add_cs None en ns c cs a).
  Proof.
    intros rc'. induction cs as [|[name|x] rest IH]; intros c a; cbn [Include.add_cs_f Include.add_cs]; [reflexivity| |].
    - destruct (e_disabled en); reflexivity.
    - destruct (step (touch a ns) ns x) as [a' [e|]]; [reflexivity|apply IH].
  Qed.

  Lemma add_cs_f_rec : forall rc' r, (forall c doc a, rc' c doc a = Some (r c doc a)) ->
      forall cs c a, add_cs_f false rc' en ns c cs a = Some (add_cs (Some r) en ns c cs a).
  Proof.
    intros rc' r Hr. induction cs as [|[name|x] rest IH]; intros c a; cbn [Include.add_cs_f Include.add_cs]; [reflexivity| |].
    - destruct (e_disabled en); [reflexivity|].
      destruct (resolve c name) as [e|[c' doc]]; [reflexivity|].
      rewrite Hr. destruct (r c' doc _) as [a' [e|]]; [reflexivity|apply IH].
    - destruct (step (touch a ns) ns x) as [a' [e|]]; [reflexivity|apply IH].
  Qed.

  (* T4: with the limit, the recursion of the code is bounded: limit - depth + 1 levels of fuel are
     enough whatever the include graph, and the result is the structurally recursive model *)
  Theorem fuel_enough : forall L fuel depth c doc a, (depth <= L)%nat -> (L - depth < fuel)%nat ->
      add_doc_fuel (Some L) fuel depth en ns c doc a = Some (add_doc (L - depth) en ns c doc a).
  Proof.
    intros L. induction fuel as [|f IH]; intros depth c doc a Hd Hf; [lia|].
    cbn [Include.add_doc_fuel]. rewrite add_doc_unfold. destruct doc as [cs| |]; cbn [Include.add_doc_with]; try reflexivity.
    destruct (Nat.leb L depth) eqn:Hle.
    - apply Nat.leb_le in Hle. replace (L - depth)%nat with O by lia. cbn [mrec]. apply add_cs_f_deep.
    - apply Nat.leb_gt in Hle. replace (L - depth)%nat with (S (L - S depth)) by lia. cbn [mrec].
      apply add_cs_f_rec. intros c' doc' a'. apply IH; lia.
  Qed.

  (* an include cycle that is entered before anything else fails ends in the depth error *)
  Theorem cycle_too_deep : forall c name, e_disabled en = false ->
      resolve c name = inr (c, FText [inl name]) ->
      forall d a, snd (add_doc d en ns c (FText [inl name]) a) = Some ETooDeep.
  Proof.
    intros c name Hd Hres. induction d as [|d IH]; intros a; rewrite add_doc_unfold;
      cbn [mrec Include.add_doc_with Include.add_cs]; rewrite Hd.
    - reflexivity.
    - rewrite Hres. specialize (IH (match e_cb en with Some _ => log (touch a ns) (name, cur_arg c, ns) | None => touch a ns end)).
      destruct (add_doc d en ns c (FText [inl name]) _) as [a' [e|]]; cbn [snd] in *; [exact IH|discriminate].
  Qed.

  (* callback mode: the callback gets the directive text, the current path and the namespace as
     they are, and the text it returns is compiled with the directive text as current path *)
  Theorem callback_verbatim : forall tbl rc c name a,
      e_cb en = Some tbl -> e_disabled en = false ->
      add_cs (Some rc) en ns c [inl name] a =
      let a1 := log (touch a ns) (name, cur_arg c, ns) in
      match cb_lookup tbl name (cur_arg c) ns with
      | None => (a1, Some EInvalidInclude)
      | Some doc => match rc (CurRaw name) doc a1 with (a2, None) => (a2, None) | bad => bad end
      end.
  Proof.
    intros tbl rc c name a Hcb Hd. cbn [Include.add_cs]. rewrite Hd, Hcb. unfold Include.resolve. rewrite Hcb.
    unfold cb_resolve. destruct (cb_lookup tbl name (cur_arg c) ns); [|reflexivity].
    destruct (rc (CurRaw name) f _) as [a2 [e|]]; reflexivity.
  Qed.
End Proofs.

(* ================================================================ the pinned tree (no limit) *)
Section Pinned.
  Variables plain St E : Type.
  Variable step : St -> string -> plain -> St * option E.
  Variable touch : St -> string -> St.
  Variable log : St -> string * option string * string -> St.

  Definition self_doc : fcontent plain := FText [inl "self.yar"].
  Definition self_env : env plain :=
    {| e_fs := [(["self.yar"], NFile self_doc)]; e_cwd := []; e_cb := None; e_disabled := false |}.

  (* a file that includes itself: no amount of fuel lets the limit-less recursion return *)
  Lemma self_include_diverges : forall fuel depth c a,
      add_doc_fuel plain St E step touch log None fuel depth self_env "default" (CurCanon ["self.yar"]) self_doc a = None
      /\ (c = CurNone -> add_doc_fuel plain St E step touch log None fuel depth self_env "default" c self_doc a = None).
  Proof.
    induction fuel as [|f IH]; intros depth c a; [split; reflexivity|].
    split; [|intros ->]; cbn; rewrite (proj1 (IH _ CurNone _)); reflexivity.
  Qed.
End Pinned.
