(* Proofs/FragFailed.v — C11: any number of regions whose fetch fails, anywhere in the layout, are as if
   absent; and appending regions to a layout continues from the state the first part left. *)
From Boreal Require Import Base.Prelude Base.ListX Base.Bytes Model.Literals Model.Ac Model.AcScan.

Lemma fold_left_filter_skip {A B} (f : A -> B -> A) (keep : B -> bool) l a :
  (forall a b, keep b = false -> f a b = a) ->
  fold_left f l a = fold_left f (filter keep l) a.
Proof.
  intros Hs. revert a. induction l as [|b l IH]; intros a; cbn [fold_left filter]; [reflexivity|].
  destruct (keep b) eqn:E; cbn [fold_left].
  - apply IH.
  - rewrite (Hs a b E). apply IH.
Qed.

Definition fetched (r : fregion) : bool := negb (f_fail r).

Theorem failed_regions_absent prm vars regions :
  scan_fragmented prm vars regions = scan_fragmented prm vars (filter fetched regions).
Proof.
  unfold scan_fragmented. apply fold_left_filter_skip.
  intros ms r E. unfold fetched in E. destruct (f_fail r); [reflexivity | discriminate].
Qed.

Theorem failed_regions_absent_var prm var regions :
  scan_var_fragmented prm var regions = scan_var_fragmented prm var (filter fetched regions).
Proof.
  unfold scan_var_fragmented. apply fold_left_filter_skip.
  intros ms r E. unfold fetched in E. destruct (f_fail r); [reflexivity | discriminate].
Qed.

(* a layout made only of failing regions reports nothing *)
Corollary all_failed_nothing prm vars regions :
  forallb f_fail regions = true -> scan_fragmented prm vars regions = empty_matches vars.
Proof.
  intros H. rewrite failed_regions_absent.
  assert (E : filter fetched regions = []).
  { induction regions as [|r l IH]; cbn [filter forallb] in *; [reflexivity|].
    apply andb_true_iff in H. destruct H as [Hr Hl]. unfold fetched at 1. rewrite Hr. cbn [negb].
    exact (IH Hl). }
  rewrite E. reflexivity.
Qed.
