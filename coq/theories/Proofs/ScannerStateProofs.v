(* Proofs/ScannerStateProofs.v — isolation of clones over arbitrary histories, typing of define_symbol,
   visibility of a symbol update (C13). *)
From Coq Require Import String.
From Boreal Require Import Base.Prelude Model.ScannerState.
Open Scope nat_scope.

(* ------------------------------------------------------------------ lists *)
Lemma length_set_slot {A} (l : list A) i v : length (set_slot l i v) = length l.
Proof. revert i; induction l as [|x l IH]; intros [|i]; cbn [set_slot length]; auto. Qed.

Lemma nth_set_slot_eq {A} (l : list A) i v : i < length l -> nth_error (set_slot l i v) i = Some v.
Proof.
  revert i; induction l as [|x l IH]; intros [|i] H; cbn [set_slot nth_error length] in *; try lia; auto.
  apply IH; lia.
Qed.

Lemma nth_set_slot_neq {A} (l : list A) i j v : i <> j -> nth_error (set_slot l i v) j = nth_error l j.
Proof.
  revert i j; induction l as [|x l IH]; intros [|i] [|j] H; cbn [set_slot nth_error]; auto; try congruence.
Qed.

Lemma nth_error_lt {A} (l : list A) i x : nth_error l i = Some x -> i < length l.
Proof. intros H. apply nth_error_Some. congruence. Qed.

Lemma nth_error_ext' {A} (l1 l2 : list A) : (forall i, nth_error l1 i = nth_error l2 i) -> l1 = l2.
Proof.
  revert l2; induction l1 as [|x l1 IH]; intros [|y l2] H; auto.
  - specialize (H 0). discriminate.
  - specialize (H 0). discriminate.
  - pose proof (H 0) as H0. cbn in H0. injection H0 as ->. f_equal. apply IH. intros i. apply (H (S i)).
Qed.

Lemma nth_error_map_seq {A} (g : nat -> A) n i :
  nth_error (map g (seq 0 n)) i = if Nat.ltb i n then Some (g i) else None.
Proof.
  destruct (Nat.ltb_spec i n) as [H|H].
  - rewrite (map_nth_error g i (seq 0 n) (d := i)); auto.
    rewrite (nth_error_nth' _ 0); [|rewrite seq_length; auto]. rewrite seq_nth; auto.
  - apply nth_error_None. rewrite map_length, seq_length. lia.
Qed.

Lemma NoDup_app_single {A} (l : list A) x : NoDup l -> ~ In x l -> NoDup (l ++ [x]).
Proof.
  induction l as [|y l IH]; intros ND Hn; cbn [app].
  - constructor; [intros []|constructor].
  - inversion ND; subst. constructor.
    + intros Hin. apply in_app_or in Hin as [Hin|[->|[]]]; auto. apply Hn. left. reflexivity.
    + apply IH; auto. intros Hin. apply Hn. right. exact Hin.
Qed.

(* HashMap<TypeId, _>::insert / get *)
Lemma md_get_insert_same {D} k (d : D) m : md_get k (md_insert k d m) = Some d.
Proof.
  induction m as [|[k' d'] r IH]; cbn [md_insert md_get].
  - rewrite N.eqb_refl. reflexivity.
  - destruct (N.eqb_spec k' k) as [->|Hn]; cbn [md_get].
    + rewrite N.eqb_refl. reflexivity.
    + destruct (N.eqb_spec k' k); [contradiction|exact IH].
Qed.

Lemma md_get_insert_other {D} k k' (d : D) m : k' <> k -> md_get k' (md_insert k d m) = md_get k' m.
Proof.
  intros Hn. induction m as [|[k1 d1] r IH]; cbn [md_insert md_get].
  - destruct (N.eqb_spec k k'); [congruence|reflexivity].
  - destruct (N.eqb_spec k1 k) as [->|H1]; cbn [md_get].
    + destruct (N.eqb_spec k k'); [congruence|reflexivity].
    + destruct (N.eqb_spec k1 k'); [reflexivity|exact IH].
Qed.

Section Define.
  Variable compiled params udata : Type.
  Notation scanner := (scanner compiled params udata).
  Notation lop := (lop params udata).

  (* ---------------------------------------------------------------- define_symbol *)
  Lemma define_symbol_cases (s : scanner) name v :
    match sym_lookup name (i_symmap (sc_inner s)) with
    | None => define_symbol s name v = (s, DUnknownName)
    | Some idx =>
        match nth_error (sc_syms s) idx with
        | None => define_symbol s name v = (s, DOk)
        | Some old =>
            if same_type old v
            then define_symbol s name v
                 = ({| sc_inner := sc_inner s; sc_params := sc_params s;
                       sc_syms := set_slot (sc_syms s) idx v; sc_mdata := sc_mdata s |}, DOk)
            else define_symbol s name v = (s, DInvalidType)
        end
    end.
  Proof.
    unfold define_symbol. destruct (sym_lookup _ _) as [idx|]; [|reflexivity].
    destruct (nth_error _ _) as [old|]; [|reflexivity]. destruct (same_type old v); reflexivity.
  Qed.

  (* success iff the name is known and the stored value has the constructor of the new one *)
  Lemma define_symbol_ok_iff (s : scanner) name v :
    wf_scanner s ->
    (snd (define_symbol s name v) = DOk <->
     exists idx old, sym_lookup name (i_symmap (sc_inner s)) = Some idx
                     /\ nth_error (sc_syms s) idx = Some old /\ same_type old v = true).
  Proof.
    intros W. pose proof (define_symbol_cases s name v) as C. pose proof (W name) as Wn.
    destruct (sym_lookup name _) as [idx|].
    - specialize (Wn idx eq_refl). destruct (nth_error (sc_syms s) idx) as [old|] eqn:E.
      + destruct (same_type old v) eqn:T; rewrite C; cbn [snd]; split.
        * intros _. exists idx, old. auto.
        * auto.
        * discriminate.
        * intros (i & o & Hi & Ho & Ht). congruence.
      + apply nth_error_None in E. lia.
    - rewrite C; cbn [snd]. split; [discriminate|]. intros (i & o & Hi & _). discriminate.
  Qed.

  Lemma define_symbol_unknown_iff (s : scanner) name v :
    snd (define_symbol s name v) = DUnknownName <-> sym_lookup name (i_symmap (sc_inner s)) = None.
  Proof.
    pose proof (define_symbol_cases s name v) as C.
    destruct (sym_lookup name _) as [idx|].
    - destruct (nth_error (sc_syms s) idx) as [old|]; [destruct (same_type old v)|]; rewrite C; cbn [snd];
        split; discriminate.
    - rewrite C. cbn [snd]. split; auto.
  Qed.

  Lemma define_symbol_invalid_iff (s : scanner) name v :
    snd (define_symbol s name v) = DInvalidType <->
    exists idx old, sym_lookup name (i_symmap (sc_inner s)) = Some idx
                    /\ nth_error (sc_syms s) idx = Some old /\ same_type old v = false.
  Proof.
    pose proof (define_symbol_cases s name v) as C.
    destruct (sym_lookup name _) as [idx|].
    - destruct (nth_error (sc_syms s) idx) as [old|] eqn:E; [destruct (same_type old v) eqn:T|]; rewrite C; cbn [snd];
        split; try discriminate.
      + intros (i & o & Hi & Ho & Ht). congruence.
      + intros _. exists idx, old. auto.
      + reflexivity.
      + intros (i & o & Hi & Ho & Ht). congruence.
    - rewrite C. cbn [snd]. split; [discriminate|]. intros (i & o & Hi & _). discriminate.
  Qed.

  (* on success exactly one slot changes, nothing else does *)
  Lemma define_symbol_ok_effect (s s' : scanner) name v :
    wf_scanner s -> define_symbol s name v = (s', DOk) ->
    exists idx, sym_lookup name (i_symmap (sc_inner s)) = Some idx
      /\ idx < length (sc_syms s)
      /\ sc_syms s' = set_slot (sc_syms s) idx v
      /\ nth_error (sc_syms s') idx = Some v
      /\ (forall j, j <> idx -> nth_error (sc_syms s') j = nth_error (sc_syms s) j)
      /\ length (sc_syms s') = length (sc_syms s)
      /\ sc_params s' = sc_params s /\ sc_mdata s' = sc_mdata s /\ sc_inner s' = sc_inner s.
  Proof.
    intros W H. pose proof (define_symbol_cases s name v) as C. pose proof (W name) as Wn.
    destruct (sym_lookup name _) as [idx|]; [|congruence].
    specialize (Wn idx eq_refl). exists idx. split; [reflexivity|]. split; [exact Wn|].
    destruct (nth_error (sc_syms s) idx) as [old|] eqn:E.
    - destruct (same_type old v); [|congruence].
      rewrite C in H. injection H as <-. cbn [sc_syms sc_params sc_mdata sc_inner].
      repeat split; auto using nth_set_slot_eq, length_set_slot.
      intros j Hj. apply nth_set_slot_neq. congruence.
    - apply nth_error_None in E. lia.
  Qed.

  (* on failure nothing changes *)
  Lemma define_symbol_err_noop (s : scanner) name v :
    snd (define_symbol s name v) <> DOk -> fst (define_symbol s name v) = s.
  Proof.
    pose proof (define_symbol_cases s name v) as C.
    destruct (sym_lookup name _) as [idx|]; [|rewrite C; reflexivity].
    destruct (nth_error (sc_syms s) idx) as [old|]; [destruct (same_type old v)|]; rewrite C; cbn [fst snd]; congruence.
  Qed.

  (* ---------------------------------------------------------------- invariants of the &mut self methods *)
  Lemma apply_l_inner (s : scanner) (o : lop) : sc_inner (apply_l s o) = sc_inner s.
  Proof.
    destruct o as [name v|p|k d]; unfold apply_l, apply_lop; try reflexivity.
    pose proof (define_symbol_cases s name v) as C.
    destruct (sym_lookup name _) as [idx|]; [|rewrite C; reflexivity].
    destruct (nth_error (sc_syms s) idx) as [old|]; [destruct (same_type old v)|]; rewrite C; reflexivity.
  Qed.

  Lemma apply_l_nsyms (s : scanner) (o : lop) : length (sc_syms (apply_l s o)) = length (sc_syms s).
  Proof.
    destruct o as [name v|p|k d]; unfold apply_l, apply_lop; try reflexivity.
    pose proof (define_symbol_cases s name v) as C.
    destruct (sym_lookup name _) as [idx|]; [|rewrite C; reflexivity].
    destruct (nth_error (sc_syms s) idx) as [old|]; [destruct (same_type old v)|]; rewrite C; cbn [fst sc_syms];
      auto using length_set_slot.
  Qed.

  Lemma apply_l_wf (s : scanner) (o : lop) : wf_scanner s -> wf_scanner (apply_l s o).
  Proof. intros W name idx. rewrite apply_l_inner, apply_l_nsyms. apply W. Qed.

  Lemma fold_apply_inner (l : list lop) (s : scanner) : sc_inner (fold_left apply_l l s) = sc_inner s.
  Proof. revert s; induction l as [|o l IH]; intros s; cbn [fold_left]; auto. rewrite IH. apply apply_l_inner. Qed.

  Lemma fold_apply_wf (l : list lop) (s : scanner) : wf_scanner s -> wf_scanner (fold_left apply_l l s).
  Proof. revert s; induction l as [|o l IH]; intros s W; cbn [fold_left]; auto using apply_l_wf. Qed.

  Lemma clone_eq (s : scanner) : clone s = s.
  Proof. destruct s; reflexivity. Qed.


  (* set_module_data::<M> replaces M's data and leaves every other module's, the params and the symbols alone *)
  Lemma set_module_data_effect (s : scanner) k d :
    let s' := set_module_data s k d in
    md_get k (sc_mdata s') = Some d
    /\ (forall k', k' <> k -> md_get k' (sc_mdata s') = md_get k' (sc_mdata s))
    /\ sc_params s' = sc_params s /\ sc_syms s' = sc_syms s /\ sc_inner s' = sc_inner s.
  Proof.
    cbn [set_module_data sc_mdata sc_params sc_syms sc_inner]. repeat split.
    - apply md_get_insert_same.
    - intros k' Hn. apply md_get_insert_other, Hn.
  Qed.

  Lemma set_scan_params_effect (s : scanner) p :
    let s' := set_scan_params s p in
    sc_params s' = p /\ sc_mdata s' = sc_mdata s /\ sc_syms s' = sc_syms s /\ sc_inner s' = sc_inner s.
  Proof. cbn. repeat split. Qed.

  (* ---------------------------------------------------------------- Compiler::define_symbol + Scanner::new *)
  Lemma compiler_define_nodup syms name v :
    NoDup (map fst syms) -> NoDup (map fst (fst (compiler_define syms name v))).
  Proof.
    intros H. unfold compiler_define. destruct (existsb _ syms) eqn:E; cbn [fst]; auto.
    rewrite map_app. cbn [map fst]. apply NoDup_app_single; auto.
    intros Hin. apply in_map_iff in Hin as ((n & w) & Hn & Hin). cbn [fst] in Hn. subst n.
    assert (T : existsb (fun e : string * extval => String.eqb (fst e) name) syms = true).
    { apply existsb_exists. exists (name, w). split; auto. apply String.eqb_refl. }
    congruence.
  Qed.

  Lemma new_symmap_lookup_ge syms : forall i name idx, sym_lookup name (new_symmap syms i) = Some idx -> i <= idx < i + length syms.
  Proof.
    induction syms as [|[n w] r IH]; intros i name idx H; cbn [new_symmap sym_lookup length] in *; [discriminate|].
    destruct (String.eqb n name).
    - injection H as <-. lia.
    - apply IH in H. lia.
  Qed.

  Lemma new_symmap_lookup syms : forall i k name v,
    NoDup (map fst syms) -> nth_error syms k = Some (name, v) -> sym_lookup name (new_symmap syms i) = Some (i + k).
  Proof.
    induction syms as [|[n w] r IH]; intros i k name v ND H; [destruct k; discriminate|].
    cbn [new_symmap sym_lookup]. destruct k as [|k]; cbn [nth_error] in H.
    - injection H as -> ->. rewrite String.eqb_refl. f_equal. lia.
    - cbn [map fst] in ND. inversion ND as [|? ? Hn ND']; subst.
      destruct (String.eqb_spec n name) as [->|Hne].
      + exfalso. apply Hn. apply in_map_iff. exists (name, v). split; auto. eapply nth_error_In; eauto.
      + rewrite (IH (S i) k name v ND' H). f_equal. lia.
  Qed.

  (* what Scanner::new establishes *)
  Lemma scanner_new_wf (c : compiled) (p0 : params) syms :
    wf_scanner (scanner_new (udata := udata) c p0 syms).
  Proof.
    intros name idx H. unfold scanner_new in *. cbn [sc_inner i_symmap sc_syms] in *.
    apply new_symmap_lookup_ge in H. rewrite map_length. lia.
  Qed.

  Lemma scanner_new_slots (c : compiled) (p0 : params) syms k name v :
    NoDup (map fst syms) -> nth_error syms k = Some (name, v) ->
    let s := scanner_new (udata := udata) c p0 syms in
    sym_lookup name (i_symmap (sc_inner s)) = Some k /\ nth_error (sc_syms s) k = Some v.
  Proof.
    intros ND H s. unfold s, scanner_new. cbn [sc_inner i_symmap sc_syms]. split.
    - apply (new_symmap_lookup syms 0 k name v ND H).
    - rewrite nth_error_map, H. reflexivity.
  Qed.
End Define.
Arguments define_symbol_cases {compiled params udata}.
Arguments define_symbol_ok_iff {compiled params udata}.
Arguments define_symbol_unknown_iff {compiled params udata}.
Arguments define_symbol_invalid_iff {compiled params udata}.
Arguments define_symbol_ok_effect {compiled params udata}.
Arguments define_symbol_err_noop {compiled params udata}.
Arguments apply_l_inner {compiled params udata}.
Arguments apply_l_nsyms {compiled params udata}.
Arguments apply_l_wf {compiled params udata}.
Arguments fold_apply_inner {compiled params udata}.
Arguments fold_apply_wf {compiled params udata}.
Arguments clone_eq {compiled params udata}.
Arguments scanner_new_wf {compiled params udata}.
Arguments set_module_data_effect {compiled params udata}.
Arguments set_scan_params_effect {compiled params udata}.
Arguments scanner_new_slots {compiled params udata}.

Section Proofs.
  Variable compiled params udata input result : Type.
  Notation scanner := (scanner compiled params udata).
  Notation lop := (lop params udata).
  Notation op := (op params udata input).
  Variable scan : scanner -> input -> result.
  Notation step := (step scan).
  Notation run := (run scan).
  Notation outputs := (outputs scan).

  (* ---------------------------------------------------------------- one step of a history: frame *)
  Definition local_effect (c : nat) (o : op) (s : scanner) : scanner :=
    match o with
    | OLocal c' l => if Nat.eqb c' c then apply_l s l else s
    | _ => s
    end.

  Lemma step_length (f : list scanner) (o : op) : length f <= length (fst (step f o)).
  Proof.
    destruct o as [from|c l|c inp]; cbn [step].
    - destruct (nth_error f from); cbn [fst]; [rewrite app_length; cbn; lia|lia].
    - destruct (nth_error f c) as [s|]; [|cbn; lia]. destruct (apply_lop s l). cbn [fst].
      rewrite length_set_slot. lia.
    - destruct (nth_error f c); cbn; lia.
  Qed.

  Lemma step_frame (f : list scanner) (o : op) c s :
    nth_error f c = Some s -> nth_error (fst (step f o)) c = Some (local_effect c o s).
  Proof.
    intros H. destruct o as [from|c' l|c' inp]; cbn [step local_effect].
    - destruct (nth_error f from); cbn [fst]; auto.
      rewrite nth_error_app1; auto. eapply nth_error_lt; eauto.
    - destruct (nth_error f c') as [s1|] eqn:E.
      + unfold apply_l. destruct (apply_lop s1 l) as [s1' r] eqn:A. cbn [fst].
        destruct (Nat.eqb_spec c' c) as [->|N].
        * assert (s1 = s) by congruence. subst s1. rewrite A. cbn [fst].
          apply nth_set_slot_eq. eapply nth_error_lt; eauto.
        * rewrite nth_set_slot_neq; auto.
      + cbn [fst]. destruct (Nat.eqb_spec c' c) as [->|N]; [congruence|auto].
    - destruct (nth_error f c'); cbn [fst]; auto.
  Qed.

  (* an operation addressed to c leaves every other clone as it was *)
  Lemma step_other_unchanged (f : list scanner) c l c' :
    c' <> c -> nth_error (fst (step f (OLocal c l))) c' = nth_error f c'.
  Proof.
    intros N. cbn [step]. destruct (nth_error f c) as [s|]; [|reflexivity].
    destruct (apply_lop s l). cbn [fst]. apply nth_set_slot_neq. congruence.
  Qed.

  Lemma fold_local_effect (c : nat) (h : list op) (s : scanner) :
    fold_left (fun s o => local_effect c o s) h s = fold_left apply_l (own_ops c h) s.
  Proof.
    revert s; induction h as [|o h IH]; intros s; cbn [fold_left own_ops]; auto.
    destruct o as [from|c' l|c' inp]; cbn [local_effect]; auto.
    destruct (Nat.eqb c' c); cbn [fold_left]; auto.
  Qed.

  (* the state of a clone after any history = its own operations folded over the state it had *)
  Lemma run_own (h : list op) (f : list scanner) c s :
    nth_error f c = Some s -> nth_error (run f h) c = Some (fold_left apply_l (own_ops c h) s).
  Proof.
    rewrite <- fold_local_effect. revert f s. induction h as [|o h IH]; intros f s H; cbn [fold_left]; auto.
    unfold run. cbn [fold_left]. apply IH. apply step_frame. exact H.
  Qed.

  Lemma run_app (f : list scanner) h1 h2 : run f (h1 ++ h2) = run (run f h1) h2.
  Proof. unfold run. apply fold_left_app. Qed.

  (* C13_clone_isolated *)
  Lemma clone_isolated (f : list scanner) h1 from h2 sf :
    nth_error (run f h1) from = Some sf ->
    let n := length (run f h1) in
    nth_error (run f (h1 ++ OClone from :: h2)) n = Some (fold_left apply_l (own_ops n h2) sf).
  Proof.
    intros H n. rewrite run_app. unfold run at 1. cbn [fold_left]. fold (run f h1).
    cbn [step]. rewrite H. cbn [fst]. apply run_own.
    rewrite nth_error_app2; [|lia]. fold n. rewrite Nat.sub_diag, clone_eq. reflexivity.
  Qed.

  (* every scan of a clone returns `scan` of that fold *)
  Lemma outputs_app f h1 h2 : outputs f (h1 ++ h2) = outputs f h1 ++ outputs (run f h1) h2.
  Proof.
    revert f; induction h1 as [|o h1 IH]; intros f; cbn [app outputs]; auto.
    destruct (step f o) as [f' x] eqn:E. cbn [app]. rewrite IH. unfold run. cbn [fold_left]. rewrite E. reflexivity.
  Qed.

  Lemma outputs_length f h : length (outputs f h) = length h.
  Proof.
    revert f; induction h as [|o h IH]; intros f; cbn [outputs length]; auto.
    destruct (step f o). cbn [length]. auto.
  Qed.

  Lemma scan_result_own (f : list scanner) h1 c inp h2 s :
    nth_error f c = Some s ->
    nth_error (outputs f (h1 ++ OScan c inp :: h2)) (length h1)
    = Some (OutScan (scan (fold_left apply_l (own_ops c h1) s) inp)).
  Proof.
    intros H. rewrite outputs_app, nth_error_app2; rewrite outputs_length; [|lia].
    rewrite Nat.sub_diag. cbn [outputs step]. rewrite (run_own h1 f c s H). reflexivity.
  Qed.

  (* a scan writes nothing *)
  Lemma scan_no_effect (f : list scanner) c inp : fst (step f (OScan c inp)) = f.
  Proof. cbn [step]. destruct (nth_error f c); reflexivity. Qed.

  (* repeatability: the same input scanned again by the same clone gives the same result, whatever the other
     clones did and whatever was scanned in between, as long as the clone itself was not reconfigured *)
  Lemma scan_repeatable (f : list scanner) c s inp h h3 :
    nth_error f c = Some s -> own_ops c h = [] ->
    nth_error (outputs f (OScan c inp :: h ++ OScan c inp :: h3)) 0
    = nth_error (outputs f (OScan c inp :: h ++ OScan c inp :: h3)) (S (length h)).
  Proof.
    intros H E. cbn [outputs step]. rewrite H. cbn [nth_error].
    rewrite (scan_result_own f h c inp h3 s H), E. reflexivity.
  Qed.

  (* ---------------------------------------------------------------- the closed form: lineage *)
  Notation nfam_r := (@nfam_r params udata input).
  Notation lineage_r := (@lineage_r params udata input).

  Lemma run_snoc f h o : run f (h ++ [o]) = fst (step (run f h) o).
  Proof. rewrite run_app. reflexivity. Qed.

  Lemma run_length_r (s0 : scanner) (hr : list op) : length (run [s0] (rev hr)) = nfam_r hr.
  Proof.
    induction hr as [|o hr IH]; cbn [rev nfam_r]; auto.
    rewrite run_snoc. destruct o as [from|c l|c inp]; cbn [step].
    - rewrite <- IH. destruct (nth_error _ from) as [s|] eqn:E; cbn [fst].
      + apply nth_error_lt in E. apply Nat.ltb_lt in E. rewrite E, app_length. cbn. lia.
      + apply nth_error_None in E. destruct (Nat.ltb_spec from (length (run [s0] (rev hr)))); [lia|reflexivity].
    - destruct (nth_error _ c) as [s|]; [|exact IH]. destruct (apply_lop s l). cbn [fst].
      rewrite length_set_slot. exact IH.
    - destruct (nth_error _ c); exact IH.
  Qed.

  Lemma run_lineage_r (s0 : scanner) (hr : list op) c :
    c < nfam_r hr -> nth_error (run [s0] (rev hr)) c = Some (fold_left apply_l (lineage_r hr c) s0).
  Proof.
    revert c; induction hr as [|o hr IH]; intros c Hc; cbn [rev nfam_r lineage_r] in *.
    - destruct c; [reflexivity|lia].
    - rewrite run_snoc. pose proof (run_length_r s0 hr) as L.
      destruct o as [from|c' l|c' inp].
      + cbn [step]. destruct (Nat.ltb_spec from (nfam_r hr)) as [Hf|Hf]; cbn [andb].
        * rewrite (IH from Hf). cbn [fst].
          destruct (Nat.eqb_spec c (nfam_r hr)) as [->|N].
          -- rewrite nth_error_app2; rewrite L; [|lia]. rewrite Nat.sub_diag, clone_eq. reflexivity.
          -- rewrite nth_error_app1; [|lia]. apply IH. lia.
        * assert (E : nth_error (run [s0] (rev hr)) from = None) by (apply nth_error_None; lia).
          rewrite E. cbn [fst]. apply IH. exact Hc.
      + rewrite (step_frame _ _ c _ (IH c Hc)). cbn [local_effect].
        destruct (Nat.eqb c' c); [rewrite fold_left_app|]; reflexivity.
      + rewrite (step_frame _ _ c _ (IH c Hc)). reflexivity.
  Qed.

  Lemma run_length (s0 : scanner) (h : list op) : length (run [s0] h) = nfam h.
  Proof. unfold nfam. rewrite <- (run_length_r s0), rev_involutive. reflexivity. Qed.

  Lemma run_lineage (s0 : scanner) (h : list op) c :
    c < nfam h -> nth_error (run [s0] h) c = Some (spec_clone s0 h c).
  Proof. unfold nfam, spec_clone, lineage. intros H. rewrite <- (run_lineage_r s0 (rev h) c H), rev_involutive. reflexivity. Qed.

  (* model = spec for the whole family *)
  Lemma run_is_spec (s0 : scanner) (h : list op) : run [s0] h = spec_fam s0 h.
  Proof.
    apply nth_error_ext'. intros c. unfold spec_fam. rewrite nth_error_map_seq.
    destruct (Nat.ltb_spec c (nfam h)) as [H|H].
    - apply run_lineage; auto.
    - apply nth_error_None; rewrite run_length; lia.
  Qed.

  (* ---------------------------------------------------------------- the family stays well formed, inner is never written *)
  Lemma run_inner_wf (s0 : scanner) (h : list op) c s :
    wf_scanner s0 -> nth_error (run [s0] h) c = Some s -> sc_inner s = sc_inner s0 /\ wf_scanner s.
  Proof.
    intros W H. assert (Hc : c < nfam h) by (rewrite <- (run_length s0); eapply nth_error_lt; eauto).
    rewrite (run_lineage s0 h c Hc) in H. injection H as <-. unfold spec_clone.
    split; [apply fold_apply_inner | apply fold_apply_wf, W].
  Qed.

  (* ---------------------------------------------------------------- visibility of an update *)
  Definition slot_of (s : scanner) (name : string) : option nat := sym_lookup name (i_symmap (sc_inner s)).

  (* no later define_symbol of this clone targets slot idx *)
  Definition no_redefine (s : scanner) (idx : nat) (l : list lop) : Prop :=
    forall name v, In (LDefine name v) l -> slot_of s name <> Some idx.

  Lemma apply_l_slot_kept (s : scanner) (o : lop) idx v :
    (forall name w, o = LDefine name w -> slot_of s name <> Some idx) ->
    nth_error (sc_syms s) idx = Some v -> nth_error (sc_syms (apply_l s o)) idx = Some v.
  Proof.
    intros Hn Hv. destruct o as [name w|p|k d]; unfold apply_l, apply_lop; auto.
    pose proof (define_symbol_cases s name w) as C. specialize (Hn name w eq_refl). unfold slot_of in Hn.
    destruct (sym_lookup name _) as [i|]; [|rewrite C; auto].
    destruct (nth_error (sc_syms s) i) as [old|]; [destruct (same_type old w)|]; rewrite C; cbn [fst sc_syms]; auto.
    rewrite nth_set_slot_neq; auto; congruence.
  Qed.

  Lemma fold_slot_kept (l : list lop) (s : scanner) idx v :
    no_redefine s idx l -> nth_error (sc_syms s) idx = Some v ->
    nth_error (sc_syms (fold_left apply_l l s)) idx = Some v.
  Proof.
    revert s; induction l as [|o l IH]; intros s Hn Hv; cbn [fold_left]; auto.
    apply IH.
    - intros name w Hin. unfold slot_of. rewrite apply_l_inner. apply (Hn name w). right. exact Hin.
    - apply apply_l_slot_kept; auto. intros name w ->. apply (Hn name w). left. reflexivity.
  Qed.

  (* C13_symbol_visible_later: after a successful define_symbol on clone c, every later scan of c — whatever
     the other clones do in between — is a scan of a state whose slot holds the new value *)
  Lemma symbol_visible_later (f : list scanner) c s name v s' h2 inp h3 :
    wf_scanner s -> nth_error f c = Some s -> define_symbol s name v = (s', DOk) ->
    no_redefine s' (match slot_of s name with Some i => i | None => 0 end) (own_ops c h2) ->
    exists idx st, slot_of s name = Some idx
      /\ nth_error (outputs f (OLocal c (LDefine name v) :: h2 ++ OScan c inp :: h3)) (S (length h2))
         = Some (OutScan (scan st inp))
      /\ nth_error (sc_syms st) idx = Some v
      /\ st = fold_left apply_l (own_ops c h2) s'.
  Proof.
    intros W Hc Hd Hn. destruct (define_symbol_ok_effect s s' name v W Hd) as (idx & Hl & Hlt & _ & Hv & _).
    unfold slot_of in *. rewrite Hl in Hn. exists idx, (fold_left apply_l (own_ops c h2) s').
    split; [exact Hl|]. split; [|split; [|reflexivity]].
    - cbn [outputs step]. rewrite Hc. unfold apply_lop. rewrite Hd. cbn [nth_error].
      apply scan_result_own. apply nth_set_slot_eq. eapply nth_error_lt; eauto.
    - apply fold_slot_kept; auto.
  Qed.

  (* ... and a clone made earlier (any other member of the family) does not see it *)
  Lemma symbol_not_visible_elsewhere (f : list scanner) c name v c' s1 h2 :
    c' <> c -> nth_error f c' = Some s1 ->
    nth_error (run f (OLocal c (LDefine name v) :: h2)) c' = nth_error (run f h2) c'.
  Proof.
    intros N H. unfold run at 1. cbn [fold_left]. fold (run (fst (step f (OLocal c (LDefine name v)))) h2).
    rewrite (run_own h2 f c' s1 H). apply run_own. rewrite step_other_unchanged; auto.
  Qed.

  (* a clone made later inherits it *)
  Lemma symbol_inherited (f : list scanner) c s name v s' :
    nth_error f c = Some s -> define_symbol s name v = (s', DOk) ->
    let f1 := run f [OLocal c (LDefine name v); OClone c] in
    nth_error f1 (length f) = Some s'.
  Proof.
    intros Hc Hd. unfold run. cbn [fold_left step]. rewrite Hc. unfold apply_lop. rewrite Hd. cbn [fst].
    assert (Hlt : c < length f) by (eapply nth_error_lt; eauto).
    rewrite nth_set_slot_eq; auto. cbn [fst].
    rewrite nth_error_app2; rewrite length_set_slot; [|lia]. rewrite Nat.sub_diag, clone_eq. reflexivity.
  Qed.
End Proofs.
