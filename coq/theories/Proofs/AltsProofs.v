(* Proofs/AltsProofs.v — when is a decomposition whose literals come from an alternation sound?
   Precise condition: the literal part R of h = Concat (A ++ R ++ B) has a FIXED length L (every match of R
   has length L) and the literal list is EXACTLY the language of R.  Then the (pre, post) split satisfies
   `Decomp` (glue and split), as for flat runs.  Instance: an alternation whose branches are runs of
   single-byte parts of one common length.  The open finding "alt glue" is the negation: branches of
   different lengths (or branches cut by a jump, whose used parts have different lengths). *)
From Boreal Require Import Base.Prelude Base.Consts Spec.Regex Model.Hir Model.Widen Model.Validator Model.Raw Model.HirScan
  Model.Decomp Proofs.RegexBasics Proofs.RegexStruct Proofs.HexScanProofs Proofs.ValidatorProofs Proofs.DecompProofs.

Section Fixed.
  Variable md : mods.
  Variable mem : list N.
  Hypothesis Hnc : m_nocase md = false.
  Let fl := flags_of md.

  Definition fixed_len (R : list hir) (L : N) : Prop :=
    forall s e, In e (cat_ends fl mem R s) -> e = s + L.

  Definition lits_exact (R : list hir) (lits : list (list N)) (L : N) : Prop :=
    forall s, In (s + L) (cat_ends fl mem R s) <->
              exists l, In l lits /\ lit_at false l (skipn (N.to_nat s) mem) = true /\ nlen l = L.

  Lemma lit_at_length nc l m : lit_at nc l m = true -> (length l <= length m)%nat.
  Proof.
    revert m. induction l as [|x l IH]; intros [|y m]; cbn [lit_at length]; try lia; try discriminate.
    intros H. apply andb_true_iff in H as [_ H]. apply IH in H. lia.
  Qed.

  Lemma lit_at_fits l s : l <> [] -> lit_at false l (skipn (N.to_nat s) mem) = true -> s + nlen l <= nlen mem.
  Proof.
    intros Hne H. apply lit_at_length in H. rewrite skipn_length in H. unfold nlen.
    destruct l; [congruence|]. cbn [length] in *. lia.
  Qed.

  Variables (A R B : list hir) (lits : list (list N)) (L : N).
  Hypothesis HL : 0 < L.
  Hypothesis Hfix : fixed_len R L.
  Hypothesis Hex : lits_exact R lits L.
  Hypothesis Hlen : forall l, In l lits -> nlen l = L.
  Let h := HConcat (A ++ R ++ B).

  Theorem fixed_glue : DecompGlue md mem h lits (pre_of A R) (post_of R B).
  Proof.
    intros l s a b Hl [Hlit Hfit] Hpre Hpost. rewrite Hnc in Hlit. rewrite (Hlen l Hl) in *.
    assert (Hrun : In (s + L) (cat_ends fl mem R s)) by (apply Hex; exists l; auto).
    assert (HA : In s (cat_ends fl mem A a)).
    { unfold pre_ok, pre_of, M in Hpre. destruct A as [|y A'] eqn:EA.
      - subst a. rewrite cat_ends_nil. left. reflexivity.
      - rewrite ends_concat in Hpre. apply cat_ends_app in Hpre as (x & H1 & H2).
        apply Hfix in H2. replace s with x by lia. exact H1. }
    assert (HB : In b (cat_ends fl mem B (s + L))).
    { unfold post_ok, post_of, M in Hpost. destruct B as [|y B'] eqn:EB.
      - subst b. rewrite cat_ends_nil. left. reflexivity.
      - rewrite ends_concat in Hpost. apply cat_ends_app in Hpost as (y0 & H1 & H2).
        apply Hfix in H1. subst y0. exact H2. }
    unfold M, h. rewrite ends_concat. apply cat_ends_app. exists s. split; [exact HA|].
    apply cat_ends_app. exists (s + L). split; [exact Hrun|exact HB].
  Qed.

  Theorem fixed_split :
    nlen mem <= MAX_SPLIT_MATCH_LENGTH -> DecompSplit md mem h lits (pre_of A R) (post_of R B).
  Proof.
    intros Hwin a b Hm. unfold M, h in Hm. rewrite ends_concat in Hm.
    apply cat_ends_app in Hm as (x & HA & Hm). apply cat_ends_app in Hm as (y & HRx & HB).
    pose proof (Hfix _ _ HRx) as ->.
    pose proof (proj1 (Hex x) HRx) as (l & Hl & Hlit & Hn).
    assert (Hne : l <> []) by (intros ->; unfold nlen in Hn; cbn in Hn; lia).
    pose proof (lit_at_fits l x Hne Hlit) as Hfit. rewrite Hn in Hfit.
    pose proof (ends_ge fl mem (HConcat A) a x HA) as Hax.
    pose proof (ends_le fl mem (HConcat B) (x + L) b Hfit HB) as Hb.
    pose proof (ends_ge fl mem (HConcat B) (x + L) b HB) as Hxb.
    exists l, x. rewrite Hn. split; [exact Hl|]. split; [split; [rewrite Hnc; exact Hlit|rewrite Hn; exact Hfit]|].
    split; [|split; [|repeat split; lia]].
    - unfold pre_ok, pre_of, M. destruct A as [|y0 A'] eqn:EA.
      + rewrite cat_ends_nil in HA. destruct HA as [<-|[]]. reflexivity.
      + rewrite ends_concat. apply cat_ends_app. eauto.
    - unfold post_ok, post_of, M. destruct B as [|y0 B'] eqn:EB.
      + rewrite cat_ends_nil in HB. destruct HB as [<-|[]]. reflexivity.
      + rewrite ends_concat. apply cat_ends_app. eauto.
  Qed.
End Fixed.

(* ------------------------------------------------------------------ instance: equal-length alternation *)
Section EqualAlt.
  Variable md : mods.
  Variable mem : list N.
  Hypothesis Hnc : m_nocase md = false.
  Hypothesis Hbytes : bytes_ok mem.
  Let fl := flags_of md.
  Let da := m_dot_all md.

  (* branches: runs of single-byte parts, all of length L *)
  Variables (brs : list (list hir)) (L : N).
  Hypothesis Hleaf : Forall (fun br => forallb is_leaf br = true) brs.
  Hypothesis HlenL : Forall (fun br => nlen br = L) brs.

  Definition alt_part : list hir := [HGroup (HAlt (map HConcat brs))].
  Definition alt_lits : list (list N) := flat_map (expand da) brs.

  Lemma alt_part_ends s e :
    In e (cat_ends fl mem alt_part s) <-> exists br, In br brs /\ In e (cat_ends fl mem br s).
  Proof.
    unfold alt_part. rewrite cat_ends_cons, bind_In. split.
    - intros (j & Hj & He). rewrite cat_ends_nil in He. destruct He as [<-|[]].
      cbn [ends] in Hj. change (ends fl mem (HAlt (map HConcat brs)) s) with (dedup (alt_ends fl mem s (map HConcat brs))) in Hj.
      apply dedup_In, alt_ends_In in Hj as (x & Hx & Hj). apply in_map_iff in Hx as (br & <- & Hbr).
      exists br. split; [exact Hbr|]. exact Hj.
    - intros (br & Hbr & He). exists e. split; [|rewrite cat_ends_nil; left; reflexivity].
      cbn [ends]. change (ends fl mem (HAlt (map HConcat brs)) s) with (dedup (alt_ends fl mem s (map HConcat brs))).
      apply dedup_In, alt_ends_In. exists (HConcat br). split; [apply in_map; exact Hbr|exact He].
  Qed.

  Lemma alt_fixed : fixed_len md mem alt_part L.
  Proof.
    intros s e He. apply alt_part_ends in He as (br & Hbr & He).
    rewrite Forall_forall in Hleaf, HlenL.
    apply (run_ends md mem Hnc br s e (Hleaf br Hbr)) in He as [-> _]. rewrite (HlenL br Hbr). reflexivity.
  Qed.

  Lemma alt_exact : lits_exact md mem alt_part alt_lits L.
  Proof.
    intros s. rewrite Forall_forall in Hleaf, HlenL. split.
    - intros H. apply alt_part_ends in H as (br & Hbr & He).
      apply (run_ends md mem Hnc br s _ (Hleaf br Hbr)) in He as [_ Hrm].
      apply (run_match_lit md mem Hbytes) in Hrm as (l & Hl & Hlit).
      exists l. split; [apply in_flat_map; eauto|]. split; [exact Hlit|].
      rewrite (expand_len md br l Hl). apply HlenL. exact Hbr.
    - intros (l & Hl & Hlit & Hn). apply in_flat_map in Hl as (br & Hbr & Hl).
      apply alt_part_ends. exists br. split; [exact Hbr|]. apply (run_ends md mem Hnc br s _ (Hleaf br Hbr)).
      split; [rewrite (HlenL br Hbr); reflexivity|]. apply (run_match_lit md mem Hbytes). eauto.
  Qed.

  Lemma alt_lits_len l : In l alt_lits -> nlen l = L.
  Proof.
    intros Hl. apply in_flat_map in Hl as (br & Hbr & Hl). rewrite (expand_len md br l Hl).
    rewrite Forall_forall in HlenL. auto.
  Qed.

  (* an alternation of equal-length runs of single-byte parts, anywhere in a pattern: sound and complete *)
  Theorem equal_alt_glue A B :
    0 < L -> DecompGlue md mem (HConcat (A ++ alt_part ++ B)) alt_lits (pre_of A alt_part) (post_of alt_part B).
  Proof. intros HL. apply (fixed_glue md mem Hnc A alt_part B alt_lits L); auto using alt_fixed, alt_exact, alt_lits_len. Qed.

  Theorem equal_alt_split A B :
    0 < L -> nlen mem <= MAX_SPLIT_MATCH_LENGTH ->
    DecompSplit md mem (HConcat (A ++ alt_part ++ B)) alt_lits (pre_of A alt_part) (post_of alt_part B).
  Proof. intros HL. apply (fixed_split md mem Hnc A alt_part B alt_lits L); auto using alt_fixed, alt_exact, alt_lits_len. Qed.
End EqualAlt.
