(* Proofs/LoopProofs.v — the accumulation loops of the evaluator (and / or / for selections):
   (1) refinement: run on results of the no-scan pass they refine the run on the final results;
   (2) counting: on defined results they compute the counting semantics of Spec/CondSem.v. *)
From Boreal Require Import Base.Prelude Base.Res Model.Eval Spec.CondSem.

(* pointwise: a refines b, and b is not a panic *)
Definition rel (a b : res value) : Prop := refines a b /\ b <> Panic.

Lemma rel_inv a b : rel a b ->
  (a = Needed /\ b <> Panic) \/ (exists v, a = Ok v /\ b = Ok v) \/ (a = Undef /\ b = Undef).
Proof.
  intros [[->| ->] Hb]; [left; split; [reflexivity|assumption]|].
  destruct b; try congruence; [right; left; eauto|right; right; auto|left; split; [reflexivity|discriminate]].
Qed.

(* ------------------------------------------------------------------ and / or *)
Lemma and_loop_true_needed rs :
  Forall (fun r => r <> Panic) rs -> and_loop true rs = Needed \/ and_loop true rs = Ok (VBool false).
Proof.
  induction 1 as [|r rs Hr _ IH]; cbn [and_loop]; [left; reflexivity|].
  destruct r as [v| | |]; try congruence; auto.
  destruct (truthy v); auto.
Qed.

Lemma or_loop_true_needed rs :
  Forall (fun r => r <> Panic) rs -> or_loop true rs = Needed \/ or_loop true rs = Ok (VBool true).
Proof.
  induction 1 as [|r rs Hr _ IH]; cbn [or_loop]; [left; reflexivity|].
  destruct r as [v| | |]; try congruence; auto.
  destruct (truthy v); auto.
Qed.

Lemma rel_left_nopanic rs0 rsM : Forall2 rel rs0 rsM -> Forall (fun r => r <> Panic) rs0.
Proof.
  induction 1 as [|a b l l' H _ IH]; constructor; [|assumption].
  destruct (rel_inv _ _ H) as [[-> _]|[[v [-> _]]|[-> _]]]; discriminate.
Qed.

Lemma and_loop_refines rs0 rsM :
  Forall2 rel rs0 rsM ->
  forall n0 nM : bool, (nM = true -> n0 = true) ->
    refines (and_loop n0 rs0) (and_loop nM rsM) /\ and_loop nM rsM <> Panic.
Proof.
  induction 1 as [|a b l l' H Hl IH]; intros n0 nM Hn; cbn [and_loop].
  - destruct nM; [rewrite (Hn eq_refl); split; [apply refines_refl|discriminate]|].
    destruct n0; split; try discriminate; [left; reflexivity|apply refines_refl].
  - destruct (rel_inv _ _ H) as [[-> Hb]|[[v [-> ->]]|[-> ->]]].
    + (* pass 1 could not evaluate this operand *)
      destruct b as [v| | |]; try congruence.
      * destruct (truthy v).
        -- apply IH. intros _. reflexivity.
        -- split; [|discriminate].
           destruct (and_loop_true_needed l (rel_left_nopanic _ _ Hl)) as [E|E]; rewrite E;
             [left; reflexivity|apply refines_refl].
      * split; [|discriminate].
        destruct (and_loop_true_needed l (rel_left_nopanic _ _ Hl)) as [E|E]; rewrite E;
          [left; reflexivity|apply refines_refl].
      * apply IH. intros _. reflexivity.
    + destruct (truthy v); [apply IH; assumption|split; [apply refines_refl|discriminate]].
    + split; [apply refines_refl|discriminate].
Qed.

Lemma or_loop_refines rs0 rsM :
  Forall2 rel rs0 rsM ->
  forall n0 nM : bool, (nM = true -> n0 = true) ->
    refines (or_loop n0 rs0) (or_loop nM rsM) /\ or_loop nM rsM <> Panic.
Proof.
  induction 1 as [|a b l l' H Hl IH]; intros n0 nM Hn; cbn [or_loop].
  - destruct nM; [rewrite (Hn eq_refl); split; [apply refines_refl|discriminate]|].
    destruct n0; split; try discriminate; [left; reflexivity|apply refines_refl].
  - destruct (rel_inv _ _ H) as [[-> Hb]|[[v [-> ->]]|[-> ->]]].
    + destruct b as [v| | |]; try congruence.
      * destruct (truthy v).
        -- split; [|discriminate].
           destruct (or_loop_true_needed l (rel_left_nopanic _ _ Hl)) as [E|E]; rewrite E;
             [left; reflexivity|apply refines_refl].
        -- apply IH. intros _. reflexivity.
      * apply IH. intros _. reflexivity.
      * apply IH. intros _. reflexivity.
    + destruct (truthy v); [split; [apply refines_refl|discriminate]|apply IH; assumption].
    + apply IH; assumption.
Qed.

(* ------------------------------------------------------------------ for selections *)
(* once enough results are undecided, the loop can no longer answer definitely against them *)
Lemma for_loop_num_covered rs : Forall (fun r => r <> Panic) rs ->
  forall n k, n <= k -> for_loop (FNum n) k rs = Needed \/ for_loop (FNum n) k rs = Ok (VBool true).
Proof.
  induction 1 as [|r rs Hr _ IH]; intros n k Hnk; cbn [for_loop sel_end].
  - left. destruct (N.leb_spec n k); [reflexivity|lia].
  - destruct r as [v| | |]; try congruence.
    + cbn [add_result]. destruct (truthy v).
      * destruct (N.eqb_spec (n - 1) 0); [right; reflexivity|]. apply IH. lia.
      * apply IH. lia.
    + cbn [add_result]. apply IH. lia.
    + apply IH. lia.
Qed.

Lemma for_loop_all_needed rs : Forall (fun r => r <> Panic) rs ->
  forall k, 0 < k -> for_loop FAll k rs = Needed \/ for_loop FAll k rs = Ok (VBool false).
Proof.
  induction 1 as [|r rs Hr _ IH]; intros k Hk; cbn [for_loop sel_end].
  - left. destruct (N.ltb_spec 0 k); [reflexivity|lia].
  - destruct r as [v| | |]; try congruence; cbn [add_result].
    + destruct (truthy v); [apply IH; assumption|right; reflexivity].
    + right; reflexivity.
    + apply IH. lia.
Qed.

Lemma for_loop_none_needed rs : Forall (fun r => r <> Panic) rs ->
  forall k, 0 < k -> for_loop FNone k rs = Needed \/ for_loop FNone k rs = Ok (VBool false).
Proof.
  induction 1 as [|r rs Hr _ IH]; intros k Hk; cbn [for_loop sel_end].
  - left. destruct (N.ltb_spec 0 k); [reflexivity|lia].
  - destruct r as [v| | |]; try congruence; cbn [add_result].
    + destruct (truthy v); [right; reflexivity|apply IH; assumption].
    + apply IH; assumption.
    + apply IH. lia.
Qed.

Ltac needed_or H := destruct H as [E|E]; rewrite E; [left; reflexivity|apply refines_refl].

Lemma for_loop_refines_all rs0 rsM :
  Forall2 rel rs0 rsM ->
  forall k0 kM, kM <= k0 ->
    refines (for_loop FAll k0 rs0) (for_loop FAll kM rsM) /\ for_loop FAll kM rsM <> Panic.
Proof.
  induction 1 as [|a b l l' H Hl IH]; intros k0 kM Hk; cbn [for_loop sel_end].
  - destruct (N.ltb_spec 0 kM); destruct (N.ltb_spec 0 k0); try lia;
      split; try discriminate; try apply refines_refl. left; reflexivity.
  - pose proof (rel_left_nopanic _ _ Hl) as Hnp.
    destruct (rel_inv _ _ H) as [[-> Hb]|[[v [-> ->]]|[-> ->]]]; cbn [add_result].
    + destruct b as [v| | |]; try congruence; cbn [add_result].
      * destruct (truthy v); [apply IH; lia|].
        split; [|discriminate]. needed_or (for_loop_all_needed l Hnp (k0 + 1) ltac:(lia)).
      * split; [|discriminate]. needed_or (for_loop_all_needed l Hnp (k0 + 1) ltac:(lia)).
      * apply IH. lia.
    + destruct (truthy v); [apply IH; assumption|split; [apply refines_refl|discriminate]].
    + split; [apply refines_refl|discriminate].
Qed.

Lemma for_loop_refines_none rs0 rsM :
  Forall2 rel rs0 rsM ->
  forall k0 kM, kM <= k0 ->
    refines (for_loop FNone k0 rs0) (for_loop FNone kM rsM) /\ for_loop FNone kM rsM <> Panic.
Proof.
  induction 1 as [|a b l l' H Hl IH]; intros k0 kM Hk; cbn [for_loop sel_end].
  - destruct (N.ltb_spec 0 kM); destruct (N.ltb_spec 0 k0); try lia;
      split; try discriminate; try apply refines_refl. left; reflexivity.
  - pose proof (rel_left_nopanic _ _ Hl) as Hnp.
    destruct (rel_inv _ _ H) as [[-> Hb]|[[v [-> ->]]|[-> ->]]]; cbn [add_result].
    + destruct b as [v| | |]; try congruence; cbn [add_result].
      * destruct (truthy v); [|apply IH; lia].
        split; [|discriminate]. needed_or (for_loop_none_needed l Hnp (k0 + 1) ltac:(lia)).
      * apply IH. lia.
      * apply IH. lia.
    + destruct (truthy v); [split; [apply refines_refl|discriminate]|apply IH; assumption].
    + apply IH; assumption.
Qed.

(* invariant between the two runs of a counting selection:
   d = k0 - kM results were undecided in pass 1 and decided in the final pass *)
Lemma for_loop_refines_num rs0 rsM :
  Forall2 rel rs0 rsM ->
  forall n0 nM k0 kM, kM <= k0 -> 1 <= nM -> nM <= n0 -> n0 <= nM + (k0 - kM) ->
    refines (for_loop (FNum n0) k0 rs0) (for_loop (FNum nM) kM rsM)
    /\ for_loop (FNum nM) kM rsM <> Panic.
Proof.
  induction 1 as [|a b l l' H Hl IH]; intros n0 nM k0 kM Hk H1 Hle Hge; cbn [for_loop sel_end].
  - destruct (N.leb_spec nM kM); destruct (N.leb_spec n0 k0); try lia;
      split; try discriminate; try apply refines_refl. left; reflexivity.
  - pose proof (rel_left_nopanic _ _ Hl) as Hnp.
    destruct (rel_inv _ _ H) as [[-> Hb]|[[v [-> ->]]|[-> ->]]]; cbn [add_result].
    + destruct b as [v| | |]; try congruence; cbn [add_result].
      * destruct (truthy v).
        -- destruct (N.eqb_spec (nM - 1) 0) as [E0|E0].
           ++ split; [|discriminate].
              needed_or (for_loop_num_covered l Hnp n0 (k0 + 1) ltac:(lia)).
           ++ apply IH; lia.
        -- apply IH; lia.
      * apply IH; lia.
      * apply IH; lia.
    + destruct (truthy v).
      * destruct (N.eqb_spec (n0 - 1) 0) as [E0|E0]; destruct (N.eqb_spec (nM - 1) 0) as [EM|EM]; try lia.
        -- split; [apply refines_refl|discriminate].
        -- split; [|discriminate].
           needed_or (for_loop_num_covered l Hnp (n0 - 1) k0 ltac:(lia)).
        -- apply IH; lia.
      * apply IH; lia.
    + apply IH; lia.
Qed.

Lemma for_loop_refines fs rs0 rsM :
  Forall2 rel rs0 rsM -> (forall n, fs = FNum n -> 1 <= n) ->
  refines (for_loop fs 0 rs0) (for_loop fs 0 rsM) /\ for_loop fs 0 rsM <> Panic.
Proof.
  intros H Hn. destruct fs as [| |n].
  - apply for_loop_refines_all; [assumption|lia].
  - apply for_loop_refines_none; [assumption|lia].
  - specialize (Hn n eq_refl). apply for_loop_refines_num; try assumption; lia.
Qed.

(* ------------------------------------------------------------------ ForIterator::List *)
Definition notbool (r : res value) : Prop := forall b, r <> Ok (VBool b).

(* an item of pass 1 against the same item of the final pass *)
Definition irel (i0 iM : res value * res value) : Prop :=
  rel (fst i0) (fst iM) /\ notbool (fst iM) /\ snd iM <> Panic /\ (fst i0 <> Needed -> rel (snd i0) (snd iM)).

Definition iok (i : res value * res value) : Prop :=
  fst i <> Panic /\ notbool (fst i) /\ (fst i <> Needed -> snd i <> Panic).

Lemma irel_left_ok l0 lM : Forall2 irel l0 lM -> Forall iok l0.
Proof.
  induction 1 as [|[a ab] [c cb] l l' H _ IH]; constructor; [|assumption].
  destruct H as [Hr [Hnb [Hp Hbody]]]. cbn [fst snd] in *. unfold iok; cbn [fst snd].
  assert (Hbody' : a <> Needed -> ab <> Panic).
  { intros Hn. specialize (Hbody Hn).
    destruct (rel_inv _ _ Hbody) as [[-> _]|[[w [-> _]]|[-> _]]]; discriminate. }
  destruct (rel_inv _ _ Hr) as [[-> _]|[[v [-> ->]]|[-> ->]]].
  - split; [discriminate|split; [intros x E; discriminate|assumption]].
  - split; [discriminate|split; assumption].
  - split; [discriminate|split; [intros x E; discriminate|assumption]].
Qed.

Lemma list_loop_nopanic items : Forall (fun i : res value * res value => fst i <> Panic /\ snd i <> Panic) items ->
  forall s k, list_loop s k items <> Panic.
Proof.
  induction 1 as [|[re rb] l [H1 H2] _ IH]; intros s k; cbn [list_loop]; cbn [fst snd] in *.
  - destruct s; cbn [sel_end]; try (destruct (0 <? k); discriminate). destruct (n <=? k); discriminate.
  - destruct re as [v| | |]; try congruence; try discriminate.
    + assert (Hbody : match rb with
                      | Ok v0 => match add_result s (truthy v0) with
                                 | (s', Some x) => Ok (VBool x) | (s', None) => list_loop s' k l end
                      | Undef => match add_result s false with
                                 | (s', Some x) => Ok (VBool x) | (s', None) => list_loop s' k l end
                      | Needed => list_loop s (k + 1) l
                      | Panic => Panic
                      end <> Panic).
      { destruct rb as [w| | |];
          [destruct (add_result s (truthy w)) as [s' [x|]]; [discriminate|apply IH]
          |destruct (add_result s false) as [s' [x|]]; [discriminate|apply IH]
          |apply IH
          |exact H2]. }
      destruct v; [exact Hbody|exact Hbody|discriminate|exact Hbody].
    + destruct (0 <? k); discriminate.
Qed.

Ltac list_item_cases re rb Hok :=
  destruct Hok as [Hp [Hnb Hb]]; cbn [fst snd] in *;
  destruct re as [v| | |]; try congruence.

Lemma list_loop_num_covered items : Forall iok items ->
  forall n k, n <= k -> 1 <= k ->
    list_loop (FNum n) k items = Needed \/ list_loop (FNum n) k items = Ok (VBool true).
Proof.
  induction 1 as [|[re rb] l Hok _ IH]; intros n k Hnk Hk; cbn [list_loop sel_end].
  - left. destruct (N.leb_spec n k); [reflexivity|lia].
  - list_item_cases re rb Hok.
    + destruct v; try (exfalso; eapply Hnb; reflexivity);
        (specialize (Hb ltac:(discriminate));
         destruct rb as [w| | |]; try congruence; cbn [add_result];
         [destruct (truthy w); [destruct (N.eqb_spec (n - 1) 0); [right; reflexivity|apply IH; lia]|apply IH; lia]
         |apply IH; lia|apply IH; lia]).
    + left. destruct (N.ltb_spec 0 k); [reflexivity|lia].
    + left; reflexivity.
Qed.

Lemma list_loop_all_needed items : Forall iok items ->
  forall k, 0 < k -> list_loop FAll k items = Needed \/ list_loop FAll k items = Ok (VBool false).
Proof.
  induction 1 as [|[re rb] l Hok _ IH]; intros k Hk; cbn [list_loop sel_end].
  - left. destruct (N.ltb_spec 0 k); [reflexivity|lia].
  - list_item_cases re rb Hok.
    + destruct v; try (exfalso; eapply Hnb; reflexivity);
        (specialize (Hb ltac:(discriminate));
         destruct rb as [w| | |]; try congruence; cbn [add_result];
         [destruct (truthy w); [apply IH; assumption|right; reflexivity]
         |right; reflexivity|apply IH; lia]).
    + left. destruct (N.ltb_spec 0 k); [reflexivity|lia].
    + left; reflexivity.
Qed.

Lemma list_loop_none_needed items : Forall iok items ->
  forall k, 0 < k -> list_loop FNone k items = Needed \/ list_loop FNone k items = Ok (VBool false).
Proof.
  induction 1 as [|[re rb] l Hok _ IH]; intros k Hk; cbn [list_loop sel_end].
  - left. destruct (N.ltb_spec 0 k); [reflexivity|lia].
  - list_item_cases re rb Hok.
    + destruct v; try (exfalso; eapply Hnb; reflexivity);
        (specialize (Hb ltac:(discriminate));
         destruct rb as [w| | |]; try congruence; cbn [add_result];
         [destruct (truthy w); [right; reflexivity|apply IH; assumption]
         |apply IH; assumption|apply IH; lia]).
    + left. destruct (N.ltb_spec 0 k); [reflexivity|lia].
    + left; reflexivity.
Qed.

(* destructs one related item: pass 1 element undecided / both defined non-boolean / both undefined *)
Lemma irel_cases i0 iM : irel i0 iM ->
  fst i0 = Needed
  \/ (exists v, fst i0 = Ok v /\ fst iM = Ok v /\ (forall b, v <> VBool b) /\ rel (snd i0) (snd iM))
  \/ (fst i0 = Undef /\ fst iM = Undef).
Proof.
  intros [Hr [Hnb [Hp Hbody]]].
  destruct (rel_inv _ _ Hr) as [[E _]|[[v [E1 E2]]|[E1 E2]]]; [left; assumption| |right; right; split; assumption].
  right; left. exists v. repeat split; try assumption.
  - intros b ->. apply (Hnb b). assumption.
  - apply Hbody. rewrite E1. discriminate.
Qed.

Ltac nonbool_value v Hv :=
  destruct v as [z|bs|bb|fl]; [| |exfalso; apply (Hv bb); reflexivity|].

Lemma list_loop_refines_num l0 lM :
  Forall2 irel l0 lM ->
  forall n0 nM k0 kM, kM <= k0 -> 1 <= nM -> nM <= n0 -> n0 <= nM + (k0 - kM) ->
    refines (list_loop (FNum n0) k0 l0) (list_loop (FNum nM) kM lM).
Proof.
  induction 1 as [|[re0 rb0] [reM rbM] l l' H Hl IH]; intros n0 nM k0 kM Hk H1 Hle Hge; cbn [list_loop sel_end].
  - destruct (N.leb_spec nM kM); destruct (N.leb_spec n0 k0); try lia; try apply refines_refl. left; reflexivity.
  - pose proof (irel_left_ok _ _ Hl) as Hok.
    destruct (irel_cases _ _ H) as [E|[[v [E0 [EM [Hv Hb]]]]|[E0 EM]]]; cbn [fst snd] in *; subst.
    + left; reflexivity.
    + assert (Hgoal : refines
        (match rb0 with
         | Ok v0 => let '(s', o) := add_result (FNum n0) (truthy v0) in
                    match o with Some x => Ok (VBool x) | None => list_loop s' k0 l end
         | Undef => let '(s', o) := add_result (FNum n0) false in
                    match o with Some x => Ok (VBool x) | None => list_loop s' k0 l end
         | Needed => list_loop (FNum n0) (k0 + 1) l
         | Panic => Panic end)
        (match rbM with
         | Ok v0 => let '(s', o) := add_result (FNum nM) (truthy v0) in
                    match o with Some x => Ok (VBool x) | None => list_loop s' kM l' end
         | Undef => let '(s', o) := add_result (FNum nM) false in
                    match o with Some x => Ok (VBool x) | None => list_loop s' kM l' end
         | Needed => list_loop (FNum nM) (kM + 1) l'
         | Panic => Panic end)).
      { destruct (rel_inv _ _ Hb) as [[-> Hnp]|[[w [-> ->]]|[-> ->]]]; cbn [add_result].
        - destruct rbM as [w| | |]; try congruence; cbn [add_result].
          + destruct (truthy w).
            * destruct (N.eqb_spec (nM - 1) 0) as [E0|E0].
              -- needed_or (list_loop_num_covered l Hok n0 (k0 + 1) ltac:(lia) ltac:(lia)).
              -- apply IH; lia.
            * apply IH; lia.
          + apply IH; lia.
          + apply IH; lia.
        - destruct (truthy w).
          + destruct (N.eqb_spec (n0 - 1) 0) as [E0|E0]; destruct (N.eqb_spec (nM - 1) 0) as [EM|EM]; try lia.
            * apply refines_refl.
            * needed_or (list_loop_num_covered l Hok (n0 - 1) k0 ltac:(lia) ltac:(lia)).
            * apply IH; lia.
          + apply IH; lia.
        - apply IH; lia. }
      nonbool_value v Hv; exact Hgoal.
    + destruct (N.ltb_spec 0 k0); [left; reflexivity|].
      destruct (N.ltb_spec 0 kM); [lia|apply refines_refl].
Qed.

Lemma list_loop_refines_all l0 lM :
  Forall2 irel l0 lM ->
  forall k0 kM, kM <= k0 -> refines (list_loop FAll k0 l0) (list_loop FAll kM lM).
Proof.
  induction 1 as [|[re0 rb0] [reM rbM] l l' H Hl IH]; intros k0 kM Hk; cbn [list_loop sel_end].
  - destruct (N.ltb_spec 0 kM); destruct (N.ltb_spec 0 k0); try lia; try apply refines_refl. left; reflexivity.
  - pose proof (irel_left_ok _ _ Hl) as Hok.
    destruct (irel_cases _ _ H) as [E|[[v [E0 [EM [Hv Hb]]]]|[E0 EM]]]; cbn [fst snd] in *; subst.
    + left; reflexivity.
    + assert (Hgoal : refines
        (match rb0 with
         | Ok v0 => let '(s', o) := add_result FAll (truthy v0) in
                    match o with Some x => Ok (VBool x) | None => list_loop s' k0 l end
         | Undef => let '(s', o) := add_result FAll false in
                    match o with Some x => Ok (VBool x) | None => list_loop s' k0 l end
         | Needed => list_loop FAll (k0 + 1) l
         | Panic => Panic end)
        (match rbM with
         | Ok v0 => let '(s', o) := add_result FAll (truthy v0) in
                    match o with Some x => Ok (VBool x) | None => list_loop s' kM l' end
         | Undef => let '(s', o) := add_result FAll false in
                    match o with Some x => Ok (VBool x) | None => list_loop s' kM l' end
         | Needed => list_loop FAll (kM + 1) l'
         | Panic => Panic end)).
      { destruct (rel_inv _ _ Hb) as [[-> Hnp]|[[w [-> ->]]|[-> ->]]]; cbn [add_result].
        - destruct rbM as [w| | |]; try congruence; cbn [add_result].
          + destruct (truthy w); [apply IH; lia|].
            needed_or (list_loop_all_needed l Hok (k0 + 1) ltac:(lia)).
          + needed_or (list_loop_all_needed l Hok (k0 + 1) ltac:(lia)).
          + apply IH; lia.
        - destruct (truthy w); [apply IH; assumption|apply refines_refl].
        - apply refines_refl. }
      nonbool_value v Hv; exact Hgoal.
    + destruct (N.ltb_spec 0 k0); [left; reflexivity|].
      destruct (N.ltb_spec 0 kM); [lia|apply refines_refl].
Qed.

Lemma list_loop_refines_none l0 lM :
  Forall2 irel l0 lM ->
  forall k0 kM, kM <= k0 -> refines (list_loop FNone k0 l0) (list_loop FNone kM lM).
Proof.
  induction 1 as [|[re0 rb0] [reM rbM] l l' H Hl IH]; intros k0 kM Hk; cbn [list_loop sel_end].
  - destruct (N.ltb_spec 0 kM); destruct (N.ltb_spec 0 k0); try lia; try apply refines_refl. left; reflexivity.
  - pose proof (irel_left_ok _ _ Hl) as Hok.
    destruct (irel_cases _ _ H) as [E|[[v [E0 [EM [Hv Hb]]]]|[E0 EM]]]; cbn [fst snd] in *; subst.
    + left; reflexivity.
    + assert (Hgoal : refines
        (match rb0 with
         | Ok v0 => let '(s', o) := add_result FNone (truthy v0) in
                    match o with Some x => Ok (VBool x) | None => list_loop s' k0 l end
         | Undef => let '(s', o) := add_result FNone false in
                    match o with Some x => Ok (VBool x) | None => list_loop s' k0 l end
         | Needed => list_loop FNone (k0 + 1) l
         | Panic => Panic end)
        (match rbM with
         | Ok v0 => let '(s', o) := add_result FNone (truthy v0) in
                    match o with Some x => Ok (VBool x) | None => list_loop s' kM l' end
         | Undef => let '(s', o) := add_result FNone false in
                    match o with Some x => Ok (VBool x) | None => list_loop s' kM l' end
         | Needed => list_loop FNone (kM + 1) l'
         | Panic => Panic end)).
      { destruct (rel_inv _ _ Hb) as [[-> Hnp]|[[w [-> ->]]|[-> ->]]]; cbn [add_result].
        - destruct rbM as [w| | |]; try congruence; cbn [add_result].
          + destruct (truthy w); [|apply IH; lia].
            needed_or (list_loop_none_needed l Hok (k0 + 1) ltac:(lia)).
          + apply IH; lia.
          + apply IH; lia.
        - destruct (truthy w); [apply refines_refl|apply IH; assumption].
        - apply IH; assumption. }
      nonbool_value v Hv; exact Hgoal.
    + destruct (N.ltb_spec 0 k0); [left; reflexivity|].
      destruct (N.ltb_spec 0 kM); [lia|apply refines_refl].
Qed.

Lemma irel_right_nopanic l0 lM : Forall2 irel l0 lM ->
  Forall (fun i : res value * res value => fst i <> Panic /\ snd i <> Panic) lM.
Proof.
  induction 1 as [|a b l l' [[_ Hp] [_ [Hb _]]] _ IH]; constructor; [split; assumption|assumption].
Qed.

Lemma list_loop_refines fs l0 lM :
  Forall2 irel l0 lM -> (forall n, fs = FNum n -> 1 <= n) ->
  refines (list_loop fs 0 l0) (list_loop fs 0 lM) /\ list_loop fs 0 lM <> Panic.
Proof.
  intros H Hn. split; [|apply list_loop_nopanic; eapply irel_right_nopanic; eassumption].
  destruct fs as [| |n].
  - apply list_loop_refines_all; [assumption|lia].
  - apply list_loop_refines_none; [assumption|lia].
  - specialize (Hn n eq_refl). apply list_loop_refines_num; try assumption; lia.
Qed.
