(* Proofs/FetchProofs.v — the pagemap optimisation of a file-backed fetch is transparent: reading file-backed
   pages from the backing file and the other pages from /proc/pid/mem gives the process's own view of the
   chunk, provided the kernel is coherent (a page the pagemap does not send to memory holds the file's bytes,
   zero past its end). *)
From Coq Require Import FinFun.
From Boreal Require Import Base.Prelude Model.Process.

(* ---- pointwise description of a sparse file ---- *)
Definition in_seg (seg : N * list N) (x : N) : bool := (fst seg <=? x) && (x <? fst seg + nlen (snd seg)).
Definition over (seg : N * list N) (g : N -> N) : N -> N :=
  fun x => if in_seg seg x then nth (N.to_nat (x - fst seg)) (snd seg) 0 else g x.
Definition mem_fun (segs : list (N * list N)) (g : N -> N) : N -> N := fold_left (fun g seg => over seg g) segs g.

Lemma nth_skipn' {A} (n k : nat) (l : list A) d : nth k (skipn n l) d = nth (n + k) l d.
Proof. revert l; induction n as [|n IH]; intros l; [reflexivity|]. destruct l as [|x l]; [destruct k; reflexivity|]. apply IH. Qed.

Lemma nth_firstn' {A} (n k : nat) (l : list A) d : nth k (firstn n l) d = if (k <? n)%nat then nth k l d else d.
Proof.
  revert k l; induction n as [|n IH]; intros k l.
  - cbn [firstn]. destruct k; reflexivity.
  - destruct l as [|x l]; [cbn [firstn]; destruct k; destruct (_ <? _)%nat; reflexivity|].
    destruct k as [|k]; [reflexivity|]. cbn [firstn nth]. rewrite IH.
    change (S k <? S n)%nat with (k <? n)%nat. reflexivity.
Qed.

Lemma nth_zeros n k : nth k (zeros n) 0 = 0.
Proof. unfold zeros. revert k; induction (N.to_nat n) as [|m IH]; intros [|k]; cbn; auto. Qed.

Lemma zeros_length n : length (zeros n) = N.to_nat n.
Proof. unfold zeros. apply repeat_length. Qed.

Lemma splice_length buf at_ pg : (N.to_nat at_ + length pg <= length buf)%nat ->
  length (splice buf at_ pg) = length buf.
Proof.
  intros H. unfold splice. rewrite !app_length, firstn_length, skipn_length. lia.
Qed.

Lemma splice_nth buf at_ pg k : (N.to_nat at_ + length pg <= length buf)%nat ->
  nth k (splice buf at_ pg) 0
  = if (N.to_nat at_ <=? k)%nat && (k <? N.to_nat at_ + length pg)%nat then nth (k - N.to_nat at_) pg 0 else nth k buf 0.
Proof.
  intros H. unfold splice.
  destruct (Nat.leb_spec (N.to_nat at_) k) as [H1|H1]; cbn [andb].
  - rewrite app_nth2 by (rewrite firstn_length; lia). rewrite firstn_length, Nat.min_l by lia.
    destruct (Nat.ltb_spec k (N.to_nat at_ + length pg)) as [H2|H2].
    + rewrite app_nth1 by lia. reflexivity.
    + rewrite app_nth2 by lia. rewrite nth_skipn'. f_equal. lia.
  - rewrite app_nth1 by (rewrite firstn_length; lia). rewrite nth_firstn'.
    destruct (Nat.ltb_spec k (N.to_nat at_)); [reflexivity|lia].
Qed.

(* one segment laid over a buffer that describes [a, a+len) *)
Lemma overlay_spec a len buf seg g :
  length buf = N.to_nat len ->
  (forall k, (k < N.to_nat len)%nat -> nth k buf 0 = g (a + N.of_nat k)) ->
  length (overlay a len buf seg) = N.to_nat len
  /\ (forall k, (k < N.to_nat len)%nat -> nth k (overlay a len buf seg) 0 = over seg g (a + N.of_nat k)).
Proof.
  intros Hl Hb. destruct seg as [base bs]. unfold overlay, over, in_seg. cbn [fst snd].
  set (lo := N.max a base). set (hi := N.min (a + len) (base + nlen bs)).
  destruct (N.ltb_spec lo hi) as [Hlt|Hge].
  - set (piece := firstn (N.to_nat (hi - lo)) (skipn (N.to_nat (lo - base)) bs)).
    assert (Hpl : length piece = N.to_nat (hi - lo)).
    { subst piece. rewrite firstn_length, skipn_length. unfold nlen in *. lia. }
    assert (Hfit : (N.to_nat (lo - a) + length piece <= length buf)%nat) by (unfold nlen in *; lia).
    split; [rewrite splice_length by exact Hfit; exact Hl|].
    intros k Hk. rewrite splice_nth by exact Hfit. rewrite Hpl.
    destruct (N.leb_spec base (a + N.of_nat k)) as [H1|H1];
      destruct (N.ltb_spec (a + N.of_nat k) (base + nlen bs)) as [H2|H2]; cbn [andb].
    + replace ((N.to_nat (lo - a) <=? k)%nat && (k <? N.to_nat (lo - a) + N.to_nat (hi - lo))%nat) with true
        by (symmetry; apply andb_true_iff; split; [apply Nat.leb_le|apply Nat.ltb_lt]; unfold nlen in *; lia).
      subst piece. rewrite nth_firstn'.
      replace (k - N.to_nat (lo - a) <? N.to_nat (hi - lo))%nat with true
        by (symmetry; apply Nat.ltb_lt; unfold nlen in *; lia).
      rewrite nth_skipn'. f_equal. unfold nlen in *. lia.
    + replace ((N.to_nat (lo - a) <=? k)%nat && (k <? N.to_nat (lo - a) + N.to_nat (hi - lo))%nat) with false
        by (symmetry; apply andb_false_iff; right; apply Nat.ltb_ge; unfold nlen in *; lia).
      apply Hb. exact Hk.
    + replace ((N.to_nat (lo - a) <=? k)%nat && (k <? N.to_nat (lo - a) + N.to_nat (hi - lo))%nat) with false
        by (symmetry; apply andb_false_iff; left; apply Nat.leb_gt; unfold nlen in *; lia).
      apply Hb. exact Hk.
    + replace ((N.to_nat (lo - a) <=? k)%nat && (k <? N.to_nat (lo - a) + N.to_nat (hi - lo))%nat) with false
        by (symmetry; apply andb_false_iff; left; apply Nat.leb_gt; unfold nlen in *; lia).
      apply Hb. exact Hk.
  - split; [exact Hl|]. intros k Hk.
    replace ((base <=? a + N.of_nat k) && (a + N.of_nat k <? base + nlen bs)) with false
      by (symmetry; apply andb_false_iff; destruct (N.leb_spec base (a + N.of_nat k)); [right; apply N.ltb_ge; unfold nlen in *; lia|left; reflexivity]).
    apply Hb. exact Hk.
Qed.

Lemma fold_overlay_spec a len segs : forall buf g,
  length buf = N.to_nat len ->
  (forall k, (k < N.to_nat len)%nat -> nth k buf 0 = g (a + N.of_nat k)) ->
  length (fold_left (overlay a len) segs buf) = N.to_nat len
  /\ (forall k, (k < N.to_nat len)%nat -> nth k (fold_left (overlay a len) segs buf) 0 = mem_fun segs g (a + N.of_nat k)).
Proof.
  induction segs as [|seg segs IH]; intros buf g Hl Hb; cbn [fold_left mem_fun]; [split; assumption|].
  destruct (overlay_spec a len buf seg g Hl Hb) as [Hl' Hb'].
  exact (IH (overlay a len buf seg) (over seg g) Hl' Hb').
Qed.

(* what a read of [a, a+len) returns *)
Lemma read_mem_spec fs a len v : read_mem fs a len = Some v ->
  length v = N.to_nat len
  /\ forall k, (k < N.to_nat len)%nat -> nth k v 0 = mem_fun (mem_segs fs) (fun _ => 0) (a + N.of_nat k).
Proof.
  unfold read_mem. destruct (a + len <=? mem_size fs); [|discriminate]. intros [= <-].
  apply fold_overlay_spec; [apply zeros_length|]. intros k _. apply nth_zeros.
Qed.

(* a read inside a larger read is the corresponding slice *)
Lemma read_mem_slice fs a len v o l : read_mem fs a len = Some v -> o + l <= len ->
  read_mem fs (a + o) l = Some (firstn (N.to_nat l) (skipn (N.to_nat o) v)).
Proof.
  intros Hv Hol. destruct (read_mem_spec fs a len v Hv) as [Hlv Hnv].
  assert (Hsz : a + len <= mem_size fs).
  { unfold read_mem in Hv. destruct (N.leb_spec (a + len) (mem_size fs)); [assumption|discriminate]. }
  destruct (read_mem fs (a + o) l) as [w|] eqn:Hw.
  - destruct (read_mem_spec fs (a + o) l w Hw) as [Hlw Hnw]. f_equal.
    apply (nth_ext _ _ 0 0).
    + rewrite firstn_length, skipn_length. lia.
    + intros k Hk. rewrite Hlw in Hk. rewrite Hnw by exact Hk.
      rewrite nth_firstn'. replace (k <? N.to_nat l)%nat with true by (symmetry; apply Nat.ltb_lt; exact Hk).
      rewrite nth_skipn'. rewrite Hnv by lia. f_equal. lia.
  - exfalso. unfold read_mem in Hw. destruct (N.leb_spec (a + o + l) (mem_size fs)); [discriminate|lia].
Qed.

(* ---- the page loop ---- *)
(* the buffer agrees with the view on every page already handled, and still holds the file's bytes elsewhere *)
Lemma override_pages_spec fs pg (src : N -> bool) st view buf0 :
  0 < pg ->
  forall idxs buf npages,
    read_mem fs st (npages * pg) = Some view ->
    length buf0 = N.to_nat (npages * pg) -> length buf = N.to_nat (npages * pg) ->
    Forall (fun i => i < npages) idxs -> NoDup idxs ->
    (* coherence: a page left to the file holds the file's bytes *)
    (forall i k, In i idxs -> src i = false ->
                 (k < N.to_nat pg)%nat -> nth (N.to_nat (i * pg) + k) view 0 = nth (N.to_nat (i * pg) + k) buf0 0) ->
    (* pages still to handle hold the file's bytes *)
    (forall i k, In i idxs -> (k < N.to_nat pg)%nat ->
                 nth (N.to_nat (i * pg) + k) buf 0 = nth (N.to_nat (i * pg) + k) buf0 0) ->
    exists out, override_pages fs pg src st idxs buf = Some out
                /\ length out = length buf
                /\ (forall i k, In i idxs -> (k < N.to_nat pg)%nat ->
                                nth (N.to_nat (i * pg) + k) out 0 = nth (N.to_nat (i * pg) + k) view 0)
                /\ (forall j, (forall i, In i idxs -> ~ (N.to_nat (i * pg) <= j < N.to_nat (i * pg) + N.to_nat pg)%nat) ->
                              nth j out 0 = nth j buf 0).
Proof.
  intros Hpg. induction idxs as [|i idxs IH]; intros buf npages Hview Hl0 Hlb Hin Hnd Hcoh Hfile.
  - exists buf. cbn [override_pages]. split; [reflexivity|]. split; [reflexivity|].
    split; [intros i k []|intros j _; reflexivity].
  - cbn [override_pages]. inversion Hin as [|? ? Hi Hrest]; subst. inversion Hnd as [|? ? Hni Hnd']; subst.
    destruct (read_mem_spec fs st (npages * pg) view Hview) as [Hlv _].
    destruct (src i) eqn:Epm.
    + (* re-read from memory *)
      rewrite (read_mem_slice fs st (npages * pg) view (i * pg) pg Hview) by nia.
      set (bytes := firstn (N.to_nat pg) (skipn (N.to_nat (i * pg)) view)).
      assert (Hbl : length bytes = N.to_nat pg) by (subst bytes; rewrite firstn_length, skipn_length; nia).
      assert (Hfit : (N.to_nat (i * pg) + length bytes <= length buf)%nat) by nia.
      destruct (IH (splice buf (i * pg) bytes) npages Hview Hl0
                   ltac:(rewrite splice_length by exact Hfit; exact Hlb) Hrest Hnd')
        as [out [E [Hlo [Hdone Hother]]]].
      * intros i' k Hi' Hp Hk. apply Hcoh; [right; exact Hi'|exact Hp|exact Hk].
      * intros i' k Hi' Hk. rewrite splice_nth by exact Hfit.
        assert (i' <> i) by (intros ->; contradiction).
        assert (i' < npages) by (rewrite Forall_forall in Hrest; apply Hrest; exact Hi').
        replace ((N.to_nat (i * pg) <=? N.to_nat (i' * pg) + k)%nat && (N.to_nat (i' * pg) + k <? N.to_nat (i * pg) + length bytes)%nat)
          with false by (symmetry; apply andb_false_iff; rewrite Nat.leb_gt, Nat.ltb_ge, Hbl; nia).
        apply Hfile; [right; exact Hi'|exact Hk].
      * exists out. split; [exact E|]. split; [rewrite Hlo; apply splice_length; exact Hfit|]. split.
        -- intros i' k [<-|Hi'] Hk; [|apply Hdone; assumption].
           rewrite Hother.
           ++ rewrite splice_nth by exact Hfit.
              replace ((N.to_nat (i * pg) <=? N.to_nat (i * pg) + k)%nat && (N.to_nat (i * pg) + k <? N.to_nat (i * pg) + length bytes)%nat)
                with true by (symmetry; apply andb_true_iff; rewrite Nat.leb_le, Nat.ltb_lt, Hbl; lia).
              subst bytes. rewrite nth_firstn'.
              replace (N.to_nat (i * pg) + k - N.to_nat (i * pg) <? N.to_nat pg)%nat with true by (symmetry; apply Nat.ltb_lt; lia).
              rewrite nth_skipn'. f_equal. lia.
           ++ intros i' Hi' Hr. assert (i' <> i) by (intros ->; contradiction). nia.
        -- intros j Hj. rewrite Hother by (intros i' Hi'; apply Hj; right; exact Hi').
           rewrite splice_nth by exact Hfit.
           replace ((N.to_nat (i * pg) <=? j)%nat && (j <? N.to_nat (i * pg) + length bytes)%nat) with false; [reflexivity|].
           symmetry. apply andb_false_iff. rewrite Nat.leb_gt, Nat.ltb_ge, Hbl.
           specialize (Hj i (or_introl eq_refl)). lia.
    + (* left to the file *)
      destruct (IH buf npages Hview Hl0 Hlb Hrest Hnd') as [out [E [Hlo [Hdone Hother]]]].
      * intros i' k Hi' Hp Hk. apply Hcoh; [right; exact Hi'|exact Hp|exact Hk].
      * intros i' k Hi' Hk. apply Hfile; [right; exact Hi'|exact Hk].
      * exists out. split; [exact E|]. split; [exact Hlo|]. split.
        -- intros i' k [<-|Hi'] Hk; [|apply Hdone; assumption].
           rewrite Hother.
           ++ rewrite (Hfile i k (or_introl eq_refl) Hk). symmetry. apply Hcoh; [left; reflexivity|exact Epm|exact Hk].
           ++ intros i' Hi' Hr. assert (i' <> i) by (intros ->; contradiction). nia.
        -- intros j Hj. apply Hother. intros i' Hi'. apply Hj. right. exact Hi'.
Qed.

Lemma in_nseq0 n i : In i (nseq 0 n) <-> i < n.
Proof.
  unfold nseq. rewrite in_map_iff. split.
  - intros [k [<- Hk]]. apply in_seq in Hk. lia.
  - intros H. exists (N.to_nat i). split; [lia|]. apply in_seq. lia.
Qed.

Lemma nodup_nseq0 n : NoDup (nseq 0 n).
Proof.
  unfold nseq. apply Injective_map_NoDup; [|apply seq_NoDup].
  intros x y H. lia.
Qed.

(* C19: a file-backed fetch returns the process's own view of the chunk *)
Theorem fetch_is_view fs prm c view :
  0 < page prm -> r_backed (c_reg c) = true ->
  let st := fst (describe prm c) in
  let ln := fetch_len prm c in
  let off := c_off c + r_foff (c_reg c) in
  let npages := ln / page prm in
  let buf0 := firstn (N.to_nat (N.min (r_fsize (c_reg c) - off) ln)) (skipn (N.to_nat off) (r_file (c_reg c)))
              ++ zeros (ln - N.min (r_fsize (c_reg c) - off) ln) in
  ln mod page prm = 0 ->                              (* whole pages, as for page-aligned mappings *)
  off <= r_fsize (c_reg c) ->                          (* the chunk starts inside the backing file *)
  st / page prm + npages <= pm_entries fs ->           (* the pagemap can be read for these pages *)
  read_mem fs st ln = Some view ->                     (* what the process sees *)
  (* kernel coherence: a page that the pagemap does not send to /proc/pid/mem holds the file's bytes,
     zero past the end of the file *)
  (forall i k, i < npages ->
               page_reread fs (st / page prm) (partial_page (page prm) (r_fsize (c_reg c) - off) ln) i = false ->
               (k < N.to_nat (page prm))%nat ->
               nth (N.to_nat (i * page prm) + k) view 0 = nth (N.to_nat (i * page prm) + k) buf0 0) ->
  model_fetch fs prm c = OFetched st view.
Proof.
  intros Hpg Hb st ln off npages buf0 Hmod Hoff Hpm Hview Hcoh.
  unfold model_fetch. rewrite Hb. fold st ln off.
  destruct (N.ltb_spec (r_fsize (c_reg c)) off) as [Hlt|_]; [lia|].
  fold npages. fold buf0.
  replace ((0 <? npages) && (pm_entries fs <? st / page prm + npages)) with false
    by (symmetry; apply andb_false_iff; right; apply N.ltb_ge; exact Hpm).
  assert (Hln : npages * page prm = ln).
  { subst npages. pose proof (N.div_mod ln (page prm) ltac:(lia)) as E. rewrite Hmod in E. lia. }
  assert (Hl0 : length buf0 = N.to_nat (npages * page prm)).
  { rewrite Hln. subst buf0. rewrite app_length, firstn_length, skipn_length, zeros_length.
    unfold r_fsize, nlen in *. lia. }
  destruct (read_mem_spec fs st ln view Hview) as [Hlv _].
  destruct (override_pages_spec fs (page prm)
              (page_reread fs (st / page prm) (partial_page (page prm) (r_fsize (c_reg c) - off) ln))
              st view buf0 Hpg (nseq 0 npages) buf0 npages
              ltac:(rewrite Hln; exact Hview) Hl0 Hl0
              ltac:(apply Forall_forall; intros i Hi; apply in_nseq0; exact Hi) (nodup_nseq0 npages))
    as [out [E [Hlo [Hdone _]]]].
  - intros i k Hi Hp Hk. apply Hcoh; [apply in_nseq0; exact Hi|exact Hp|exact Hk].
  - intros i k _ _. reflexivity.
  - rewrite E. f_equal. apply (nth_ext _ _ 0 0); [rewrite Hlo, Hl0, Hln, Hlv; reflexivity|].
    intros j Hj. rewrite Hlo, Hl0 in Hj.
    set (i := N.of_nat j / page prm). set (k := (j - N.to_nat (i * page prm))%nat).
    assert (Hi : i < npages) by (subst i; apply N.div_lt_upper_bound; lia).
    assert (Hjk : j = (N.to_nat (i * page prm) + k)%nat).
    { subst k i. pose proof (N.div_mod (N.of_nat j) (page prm) ltac:(lia)). nia. }
    assert (Hk : (k < N.to_nat (page prm))%nat).
    { subst k i. pose proof (N.div_mod (N.of_nat j) (page prm) ltac:(lia)).
      pose proof (N.mod_lt (N.of_nat j) (page prm) ltac:(lia)). nia. }
    rewrite Hjk. apply Hdone; [apply in_nseq0; exact Hi|exact Hk].
Qed.
