(* Proofs/ProcessCover.v — C19: what a tiling covers.  The set of addresses seen through the chunks of a
   mapping is exactly the mapping, the chunk lengths add up to its length, and two different chunk sizes
   see the same set of addresses.  Corollaries of `chunks_tile` and the tiling lemmas. *)
From Boreal Require Import Base.Prelude Model.Process Spec.ProcessSpec Proofs.ProcessProofs.

Definition total_len (l : list (N * N)) : N := fold_right (fun c acc => snd c + acc) 0 l.

Lemma tiles_end_total : forall l pos e, tiles_end pos l = Some e -> e = pos + total_len l.
Proof.
  induction l as [|[s n] l IH]; intros pos e H; cbn [tiles_end] in H; cbn [total_len fold_right snd].
  - inversion H. lia.
  - destruct (N.eqb_spec s pos) as [->|]; [|discriminate]. destruct (N.ltb_spec 0 n); [|discriminate].
    cbn [andb] in H. apply IH in H. fold (total_len l). lia.
Qed.

Theorem tiles_total_len start len l : Tiles start len l -> total_len l = len.
Proof. unfold Tiles. intros H. apply tiles_end_total in H. lia. Qed.

Theorem tiles_cover_exactly start len l a :
  Tiles start len l -> ((exists c, In c l /\ in_chunk a c) <-> start <= a < start + len).
Proof.
  unfold Tiles. intros H. split.
  - intros [c [Hin Hc]]. destruct (tiles_end_bounds l start (start + len) c H Hin) as [B1 [B2 _]].
    unfold in_chunk in Hc. lia.
  - intros Ha. exact (tiles_end_cover l start (start + len) a H Ha).
Qed.

(* two chunk sizes over the same mapping: the same addresses are seen *)
Theorem chunkings_same_addresses prm1 prm2 r cs1 cs2 fuel1 fuel2 a :
  chunk prm1 = Some cs1 -> 0 < page prm1 -> chunk prm2 = Some cs2 -> 0 < page prm2 ->
  0 < r_len r -> r_start r + r_len r <= umax ->
  r_len r <= N.of_nat fuel1 * round_page cs1 (page prm1) ->
  r_len r <= N.of_nat fuel2 * round_page cs2 (page prm2) ->
  ((exists c, In c (walk (S fuel1) prm1 (pinit [r])) /\ in_chunk a c)
   <-> (exists c, In c (walk (S fuel2) prm2 (pinit [r])) /\ in_chunk a c)).
Proof.
  intros C1 P1 C2 P2 Hl Hm F1 F2.
  rewrite (tiles_cover_exactly _ _ _ a (chunks_tile prm1 r cs1 fuel1 C1 P1 Hl Hm F1)).
  rewrite (tiles_cover_exactly _ _ _ a (chunks_tile prm2 r cs2 fuel2 C2 P2 Hl Hm F2)).
  reflexivity.
Qed.
