(* Proofs/SemProofs.v — the evaluator computes the declarative semantics of Spec/CondSem.v
   when the string matches are available: early-exit accumulators = counting. *)
From Boreal Require Import Base.Prelude Base.Res Model.Eval Spec.CondSem Proofs.ExprInd Proofs.LoopProofs Proofs.NoScanProofs.

(* ------------------------------------------------------------------ counting *)
Lemma count_true_cons b bs : count_true (b :: bs) = (if b then 1 else 0) + count_true bs.
Proof.
  unfold count_true, nlen. cbn [filter]. destruct b; cbn [length]; lia.
Qed.

Lemma count_true_le bs : count_true bs <= nlen bs.
Proof.
  induction bs as [|b bs IH]; [unfold count_true, nlen; cbn; lia|].
  rewrite count_true_cons. unfold nlen in *. cbn [length]. destruct b; lia.
Qed.

Lemma nlen_cons {A} (x : A) l : nlen (x :: l) = 1 + nlen l.
Proof. unfold nlen. cbn [length]. lia. Qed.

Lemma holds_to_res o : match to_res o with Ok v => truthy v | _ => false end = holds o.
Proof. destruct o; reflexivity. Qed.

(* ------------------------------------------------------------------ and / or *)
Lemma and_loop_sem os : and_loop false (map to_res os) = Ok (VBool (forallb holds os)).
Proof.
  induction os as [|o os IH]; cbn [map and_loop forallb]; [reflexivity|].
  destruct o as [v|]; cbn [to_res holds]; [|reflexivity].
  destruct (truthy v); cbn [andb]; [exact IH|reflexivity].
Qed.

Lemma or_loop_sem os : or_loop false (map to_res os) = Ok (VBool (existsb holds os)).
Proof.
  induction os as [|o os IH]; cbn [map or_loop existsb]; [reflexivity|].
  destruct o as [v|]; cbn [to_res holds]; [|exact IH].
  destruct (truthy v); cbn [orb]; [reflexivity|exact IH].
Qed.

(* ------------------------------------------------------------------ for selections *)
Lemma for_loop_num_sem os : forall n, 1 <= n ->
  for_loop (FNum n) 0 (map to_res os) = Ok (VBool (n <=? count_true (map holds os))).
Proof.
  induction os as [|o os IH]; intros n Hn; cbn [map for_loop sel_end].
  - unfold count_true, nlen; cbn. destruct (N.leb_spec n 0); [lia|]. destruct (N.leb_spec n 0); [lia|reflexivity].
  - rewrite count_true_cons.
    destruct o as [v|]; cbn [to_res holds add_result].
    + destruct (truthy v).
      * destruct (N.eqb_spec (n - 1) 0) as [E|E].
        -- f_equal. f_equal. symmetry. apply N.leb_le. lia.
        -- rewrite IH by lia. f_equal. f_equal.
           destruct (N.leb_spec (n - 1) (count_true (map holds os))); destruct (N.leb_spec n (1 + count_true (map holds os))); try lia; reflexivity.
      * rewrite IH by lia. reflexivity.
    + rewrite IH by lia. reflexivity.
Qed.

Lemma for_loop_all_sem os :
  for_loop FAll 0 (map to_res os) = Ok (VBool (count_true (map holds os) =? nlen (map holds os))).
Proof.
  induction os as [|o os IH]; cbn [map for_loop sel_end]; [reflexivity|].
  rewrite count_true_cons, nlen_cons. pose proof (count_true_le (map holds os)) as Hle.
  destruct o as [v|]; cbn [to_res holds add_result].
  - destruct (truthy v).
    + rewrite IH. f_equal. f_equal.
      destruct (N.eqb_spec (count_true (map holds os)) (nlen (map holds os)));
        destruct (N.eqb_spec (1 + count_true (map holds os)) (1 + nlen (map holds os))); try lia; reflexivity.
    + f_equal. f_equal. symmetry. apply N.eqb_neq. lia.
  - f_equal. f_equal. symmetry. apply N.eqb_neq. lia.
Qed.

Lemma for_loop_none_sem os :
  for_loop FNone 0 (map to_res os) = Ok (VBool (count_true (map holds os) =? 0)).
Proof.
  induction os as [|o os IH]; cbn [map for_loop sel_end]; [reflexivity|].
  rewrite count_true_cons.
  destruct o as [v|]; cbn [to_res holds add_result].
  - destruct (truthy v).
    + f_equal. f_equal. symmetry. apply N.eqb_neq. lia.
    + rewrite IH. reflexivity.
  - rewrite IH. reflexivity.
Qed.

(* selection evaluation = quota *)
Definition fsel_of_quota (qt : quota) : fsel_eval :=
  match qt with
  | QAtLeast n => FSE (FNum n)
  | QAll => FSE FAll
  | QNone => FSE FNone
  | QTrue => FSV (VBool true)
  | QFalse => FSV (VBool false)
  end.

(* operators never ask for the string matches *)
Lemma float_arith_nn f a b : float_arith f a b <> Needed.
Proof. unfold float_arith. destruct (float_pair a b) as [[x y]|]; discriminate. Qed.

Lemma eq_values_nn a b : eq_values a b <> Needed.
Proof.
  destruct a, b; cbn [eq_values]; try discriminate;
    destruct (float_pair _ _) as [[x y]|]; discriminate.
Qed.

Lemma eval_bin_nn o a b : eval_bin o a b <> Needed.
Proof.
  destruct o; cbn [eval_bin];
    try (destruct (eq_values a b) eqn:E; cbn [bind]; try discriminate; exfalso; exact (eq_values_nn _ _ E));
    destruct a as [n|x|p|fa], b as [m|y|q|fb];
    try apply float_arith_nn;
    try (destruct (float_pair _ _) as [[? ?]|]; discriminate);
    unfold num_op, str_op; cbn [unwrap_number unwrap_bytes bind]; try discriminate;
    repeat match goal with |- context [if ?c then _ else _] => destruct c end; discriminate.
Qed.

Lemma eval_selection_sem k sv nb :
  eval_selection k (to_res sv) nb = Ok (fsel_of_quota (quota_of k sv nb)).
Proof.
  destruct k; cbn [eval_selection quota_of fsel_of_quota]; try reflexivity.
  destruct sv as [[z|b|b|fl]|]; cbn [to_res bind unwrap_number onum]; try reflexivity.
  destruct pct.
  - destruct (pct_quota z nb <=? 0)%Z; reflexivity.
  - destruct (Z.eqb_spec z 0); [reflexivity|].
    destruct (Z.leb_spec z 0); destruct (Z.ltb_spec z 0); try lia; reflexivity.
Qed.

Lemma quota_num_pos k sv nb n : quota_of k sv nb = QAtLeast n -> 1 <= n.
Proof.
  destruct k; cbn [quota_of]; try discriminate.
  - intros [= <-]; lia.
  - destruct (onum sv) as [z|]; [|discriminate]. destruct pct.
    + destruct (Z.leb_spec (pct_quota z nb) 0); [discriminate|]. intros [= <-]. lia.
    + destruct (Z.eqb_spec z 0); [discriminate|]. destruct (Z.ltb_spec z 0); [discriminate|]. intros [= <-]. lia.
Qed.

Lemma for_loop_quota qt os :
  (forall n, qt = QAtLeast n -> 1 <= n) ->
  match fsel_of_quota qt with
  | FSE fs => for_loop fs 0 (map to_res os)
  | FSV v => Ok v
  end = Ok (VBool (quant qt (map holds os))).
Proof.
  intros Hn. destruct qt; cbn [fsel_of_quota quant].
  - apply for_loop_num_sem. apply Hn. reflexivity.
  - apply for_loop_all_sem.
  - apply for_loop_none_sem.
  - reflexivity.
  - reflexivity.
Qed.

(* ------------------------------------------------------------------ ForIterator::List *)
Definition spec_item (it : option value * option value) : option bool :=
  match fst it with
  | Some (VBool _) => None
  | Some _ => Some (holds (snd it))
  | None => None
  end.
Definition model_item (it : option value * option value) : res value * res value :=
  (to_res (fst it), to_res (snd it)).

Lemma list_loop_num_sem its : forall n, 1 <= n ->
  undef_to_false (list_loop (FNum n) 0 (map model_item its))
  = Ok (VBool (n <=? count_true (fst (defined_prefix (map spec_item its))))).
Proof.
  induction its as [|[oe ob] its IH]; intros n Hn; cbn [map list_loop sel_end defined_prefix fst].
  - unfold count_true, nlen; cbn. destruct (N.leb_spec n 0); [lia|]. cbn. destruct (N.leb_spec n 0); [lia|reflexivity].
  - cbn [model_item spec_item fst snd].
    assert (Hstop : Ok (VBool false) = Ok (VBool (n <=? count_true (@nil bool)))).
    { unfold count_true, nlen; cbn. destruct (N.leb_spec n 0); [lia|reflexivity]. }
    destruct oe as [[z|bs|b|fl]|]; cbn [to_res].
    + destruct (defined_prefix (map spec_item its)) as [p d] eqn:Ep. cbn [spec_item fst snd]. cbn [fst] in *.
      rewrite count_true_cons.
      destruct ob as [v|]; cbn [to_res holds add_result].
      * destruct (truthy v).
        -- destruct (N.eqb_spec (n - 1) 0) as [E|E]; cbn [undef_to_false].
           ++ f_equal. f_equal. symmetry. apply N.leb_le. lia.
           ++ rewrite IH by lia. f_equal. f_equal.
              destruct (N.leb_spec (n - 1) (count_true p)); destruct (N.leb_spec n (1 + count_true p)); try lia; reflexivity.
        -- rewrite IH by lia. reflexivity.
      * rewrite IH by lia. reflexivity.
    + destruct (defined_prefix (map spec_item its)) as [p d] eqn:Ep. cbn [spec_item fst snd]. cbn [fst] in *.
      rewrite count_true_cons.
      destruct ob as [v|]; cbn [to_res holds add_result].
      * destruct (truthy v).
        -- destruct (N.eqb_spec (n - 1) 0) as [E|E]; cbn [undef_to_false].
           ++ f_equal. f_equal. symmetry. apply N.leb_le. lia.
           ++ rewrite IH by lia. f_equal. f_equal.
              destruct (N.leb_spec (n - 1) (count_true p)); destruct (N.leb_spec n (1 + count_true p)); try lia; reflexivity.
        -- rewrite IH by lia. reflexivity.
      * rewrite IH by lia. reflexivity.
    + cbn [undef_to_false fst]. exact Hstop.
    + destruct (defined_prefix (map spec_item its)) as [p d] eqn:Ep. cbn [spec_item fst snd]. cbn [fst] in *.
      rewrite count_true_cons.
      destruct ob as [v|]; cbn [to_res holds add_result].
      * destruct (truthy v).
        -- destruct (N.eqb_spec (n - 1) 0) as [E|E]; cbn [undef_to_false].
           ++ f_equal. f_equal. symmetry. apply N.leb_le. lia.
           ++ rewrite IH by lia. f_equal. f_equal.
              destruct (N.leb_spec (n - 1) (count_true p)); destruct (N.leb_spec n (1 + count_true p)); try lia; reflexivity.
        -- rewrite IH by lia. reflexivity.
      * rewrite IH by lia. reflexivity.
    + cbn [undef_to_false fst]. replace (0 <? 0) with false by reflexivity. cbn [undef_to_false]. exact Hstop.
Qed.

Lemma list_loop_all_sem its :
  undef_to_false (list_loop FAll 0 (map model_item its))
  = Ok (VBool (snd (defined_prefix (map spec_item its))
               && (count_true (fst (defined_prefix (map spec_item its)))
                   =? nlen (fst (defined_prefix (map spec_item its)))))).
Proof.
  induction its as [|[oe ob] its IH]; cbn [map list_loop sel_end defined_prefix fst snd]; [reflexivity|].
  cbn [model_item spec_item fst snd].
  destruct oe as [[z|bs|b|fl]|]; cbn [to_res].
  - destruct (defined_prefix (map spec_item its)) as [p d] eqn:Ep. cbn [spec_item fst snd]. cbn [fst snd] in *.
    rewrite count_true_cons, nlen_cons. pose proof (count_true_le p) as Hle.
    destruct ob as [v|]; cbn [to_res holds add_result].
    + destruct (truthy v).
      * rewrite IH. f_equal. f_equal. f_equal.
        destruct (N.eqb_spec (count_true p) (nlen p)); destruct (N.eqb_spec (1 + count_true p) (1 + nlen p)); try lia; reflexivity.
      * cbn [undef_to_false]. f_equal. f_equal.
        replace (0 + count_true p =? 1 + nlen p) with false by (symmetry; apply N.eqb_neq; lia).
        rewrite andb_false_r. reflexivity.
    + cbn [undef_to_false]. f_equal. f_equal.
      replace (0 + count_true p =? 1 + nlen p) with false by (symmetry; apply N.eqb_neq; lia).
      rewrite andb_false_r. reflexivity.
  - destruct (defined_prefix (map spec_item its)) as [p d] eqn:Ep. cbn [spec_item fst snd]. cbn [fst snd] in *.
    rewrite count_true_cons, nlen_cons. pose proof (count_true_le p) as Hle.
    destruct ob as [v|]; cbn [to_res holds add_result].
    + destruct (truthy v).
      * rewrite IH. f_equal. f_equal. f_equal.
        destruct (N.eqb_spec (count_true p) (nlen p)); destruct (N.eqb_spec (1 + count_true p) (1 + nlen p)); try lia; reflexivity.
      * cbn [undef_to_false]. f_equal. f_equal.
        replace (0 + count_true p =? 1 + nlen p) with false by (symmetry; apply N.eqb_neq; lia).
        rewrite andb_false_r. reflexivity.
    + cbn [undef_to_false]. f_equal. f_equal.
      replace (0 + count_true p =? 1 + nlen p) with false by (symmetry; apply N.eqb_neq; lia).
      rewrite andb_false_r. reflexivity.
  - reflexivity.
  - destruct (defined_prefix (map spec_item its)) as [p d] eqn:Ep. cbn [spec_item fst snd]. cbn [fst snd] in *.
    rewrite count_true_cons, nlen_cons. pose proof (count_true_le p) as Hle.
    destruct ob as [v|]; cbn [to_res holds add_result].
    + destruct (truthy v).
      * rewrite IH. f_equal. f_equal. f_equal.
        destruct (N.eqb_spec (count_true p) (nlen p)); destruct (N.eqb_spec (1 + count_true p) (1 + nlen p)); try lia; reflexivity.
      * cbn [undef_to_false]. f_equal. f_equal.
        replace (0 + count_true p =? 1 + nlen p) with false by (symmetry; apply N.eqb_neq; lia).
        rewrite andb_false_r. reflexivity.
    + cbn [undef_to_false]. f_equal. f_equal.
      replace (0 + count_true p =? 1 + nlen p) with false by (symmetry; apply N.eqb_neq; lia).
      rewrite andb_false_r. reflexivity.
  - reflexivity.
Qed.

Lemma list_loop_none_sem its :
  undef_to_false (list_loop FNone 0 (map model_item its))
  = Ok (VBool (snd (defined_prefix (map spec_item its))
               && (count_true (fst (defined_prefix (map spec_item its))) =? 0))).
Proof.
  induction its as [|[oe ob] its IH]; cbn [map list_loop sel_end defined_prefix fst snd]; [reflexivity|].
  cbn [model_item spec_item fst snd].
  destruct oe as [[z|bs|b|fl]|]; cbn [to_res].
  - destruct (defined_prefix (map spec_item its)) as [p d] eqn:Ep. cbn [spec_item fst snd]. cbn [fst snd] in *.
    rewrite count_true_cons.
    destruct ob as [v|]; cbn [to_res holds add_result].
    + destruct (truthy v).
      * cbn [undef_to_false]. f_equal. f_equal.
        replace (1 + count_true p =? 0) with false by (symmetry; apply N.eqb_neq; lia).
        rewrite andb_false_r. reflexivity.
      * rewrite IH. reflexivity.
    + rewrite IH. reflexivity.
  - destruct (defined_prefix (map spec_item its)) as [p d] eqn:Ep. cbn [spec_item fst snd]. cbn [fst snd] in *.
    rewrite count_true_cons.
    destruct ob as [v|]; cbn [to_res holds add_result].
    + destruct (truthy v).
      * cbn [undef_to_false]. f_equal. f_equal.
        replace (1 + count_true p =? 0) with false by (symmetry; apply N.eqb_neq; lia).
        rewrite andb_false_r. reflexivity.
      * rewrite IH. reflexivity.
    + rewrite IH. reflexivity.
  - reflexivity.
  - destruct (defined_prefix (map spec_item its)) as [p d] eqn:Ep. cbn [spec_item fst snd]. cbn [fst snd] in *.
    rewrite count_true_cons.
    destruct ob as [v|]; cbn [to_res holds add_result].
    + destruct (truthy v).
      * cbn [undef_to_false]. f_equal. f_equal.
        replace (1 + count_true p =? 0) with false by (symmetry; apply N.eqb_neq; lia).
        rewrite andb_false_r. reflexivity.
      * rewrite IH. reflexivity.
    + rewrite IH. reflexivity.
  - reflexivity.
Qed.

Definition list_quant (qt : quota) (items : list (option bool)) : bool :=
  let '(bs, alldef) := defined_prefix items in
  if alldef then quant qt bs
  else match qt with QAtLeast k => k <=? count_true bs | _ => false end.

Lemma list_loop_quota qt its :
  (forall n, qt = QAtLeast n -> 1 <= n) ->
  match fsel_of_quota qt with
  | FSE fs => undef_to_false (list_loop fs 0 (map model_item its))
  | FSV v => Ok v
  end = Ok (VBool (match qt with QTrue => true | QFalse => false | _ => list_quant qt (map spec_item its) end)).
Proof.
  intros Hn. unfold list_quant.
  destruct qt; cbn [fsel_of_quota]; try reflexivity.
  - rewrite list_loop_num_sem by (apply Hn; reflexivity).
    destruct (defined_prefix (map spec_item its)) as [bs d]. cbn [fst quant]. destruct d; reflexivity.
  - rewrite list_loop_all_sem.
    destruct (defined_prefix (map spec_item its)) as [bs d]. cbn [fst snd quant]. destruct d; reflexivity.
  - rewrite list_loop_none_sem.
    destruct (defined_prefix (map spec_item its)) as [bs d]. cbn [fst snd quant]. destruct d; reflexivity.
Qed.

(* ------------------------------------------------------------------ the evaluator computes `sem` *)
Lemma bind_num_to_res (o : option value) : bind (to_res o) unwrap_number = to_res (onum o).
Proof. destruct o as [[z|b|b|fl]|]; reflexivity. Qed.

Lemma to_res_obind {A B} (o : option A) (f : A -> option B) :
  to_res (obind o f) = bind (to_res o) (fun a => to_res (f a)).
Proof. destruct o; reflexivity. Qed.

Lemma to_res_of_res {A} (r : res A) : r <> Needed -> r <> Panic -> to_res (of_res r) = r.
Proof. destruct r; cbn; congruence. Qed.

Lemma filter_ext_in' {A} (f g : A -> bool) l : (forall x, f x = g x) -> filter f l = filter g l.
Proof. intros H. induction l as [|x l IH]; cbn [filter]; [reflexivity|]. rewrite H, IH. reflexivity. Qed.

Lemma existsb_ext' {A} (f g : A -> bool) l : (forall x, f x = g x) -> existsb f l = existsb g l.
Proof. intros H. induction l as [|x l IH]; cbn [existsb]; [reflexivity|]. rewrite H, IH. reflexivity. Qed.

Lemma filter_false {A} (f : A -> bool) l : (forall x, f x = false) -> filter f l = [].
Proof. intros H. induction l as [|x l IH]; cbn [filter]; [reflexivity|]. rewrite H. exact IH. Qed.

Section Sem.
  Variable M : list (list smatch).
  Variable prev : list bool.
  Variable ext : list value.
  Variable fsz : option N.
  Variable mem : option (list N).

  Definition envM := {| e_matches := Some M; e_prev := prev; e_ext := ext; e_filesize := fsz; e_mem := mem |}.
  Definition qM := {| q_matches := M; q_prev := prev; q_ext := ext; q_filesize := fsz; q_mem := mem |}.

  Definition sel_ok' (sel : option nat) : Prop := match sel with Some i => (i < length M)%nat | None => True end.
  Definition wv' (v : option nat) : Prop := match v with Some i => (i < length M)%nat | None => True end.

  Lemma wv'_of_bool v : match v with Some i => Nat.ltb i (length M) | None => true end = true -> wv' v.
  Proof. destruct v; cbn; [intros H; apply Nat.ltb_lt; exact H|trivial]. Qed.

  Lemma with_var_sem {A} sel v (f : list smatch -> res A) :
    sel_ok' sel -> wv' v ->
    with_var envM sel v f = match var_ms qM sel v with Some l => f l | None => Undef end.
  Proof.
    intros Hs Hv. unfold with_var, var_ms, var_index, get_var_index. cbn [q_matches qM e_matches envM].
    destruct v as [i|]; cbn [bind obind].
    - destruct (nth_error M i) eqn:E; [reflexivity|]. apply nth_error_None in E. cbn in Hv. lia.
    - destruct sel as [i|]; cbn [bind obind]; [|reflexivity].
      destruct (nth_error M i) eqn:E; [reflexivity|]. apply nth_error_None in E. cbn in Hs. lia.
  Qed.

  Definition Psem (e : expr) : Prop :=
    forall sel stack, wf_expr ext (length M) (length prev) e = true -> sel_ok' sel ->
      eval envM sel stack e = to_res (sem qM sel stack e).

  Lemma map_sem (l : list expr) sel stack :
    Forall Psem l -> forallb (wf_expr ext (length M) (length prev)) l = true -> sel_ok' sel ->
    map (eval envM sel stack) l = map to_res (map (sem qM sel stack) l).
  Proof.
    induction 1 as [|x l Hx _ IH]; cbn [map forallb]; intros Hw Hs; [reflexivity|].
    apply andb_true_iff in Hw as [Hw1 Hw2]. rewrite Hx, IH by assumption. reflexivity.
  Qed.

  Lemma mabs_le_umax m : Z.of_N (mabs m) = Z.min (Z.of_N (m_off m + m_base m)) (Z.of_N umax).
  Proof. unfold mabs, sat_add. lia. Qed.

  Theorem eval_eq_sem : forall e, Psem e.
  Proof.
    induction e using expr_ind'; intros sel stack Hw Hs; cbn [eval sem]; cbn [wf_expr] in Hw.
    - reflexivity.
    - reflexivity.
    - reflexivity.
    - cbn [e_filesize envM q_filesize qM]. destruct fsz; reflexivity.
    - (* EReadInt *)
      rewrite IHe by assumption. rewrite bind_num_to_res.
      cbn [e_mem envM q_mem qM]. destruct (onum (sem qM sel stack e)) as [a|]; cbn [bind to_res obind]; [|reflexivity].
      symmetry. apply to_res_of_res; [|apply Proofs.NoScanProofs.read_int_np].
      unfold read_int. destruct (a <? 0)%Z; [discriminate|]. destruct mem; [|discriminate].
      destruct (_ <=? _); [discriminate|]. destruct (_ <? _); discriminate.
    - (* ECount *)
      rewrite with_var_sem by (try assumption; apply wv'_of_bool; assumption).
      destruct (var_ms qM sel v); reflexivity.
    - (* ECountIn *)
      apply andb_true_iff in Hw as [Hw Hw2]. apply andb_true_iff in Hw as [Hv Hw1].
      rewrite IHe1, IHe2 by assumption. rewrite !bind_num_to_res.
      destruct (onum (sem qM sel stack e1)) as [f|]; cbn [bind to_res obind]; [|reflexivity].
      destruct (onum (sem qM sel stack e2)) as [t|]; cbn [bind to_res obind]; [|reflexivity].
      destruct (Z.ltb_spec t 0).
      + rewrite with_var_sem by (try assumption; apply wv'_of_bool; assumption).
        destruct (var_ms qM sel v) as [l|]; cbn [option_map to_res]; [|reflexivity].
        rewrite filter_false; [reflexivity|]. intros m. apply andb_false_iff. right. apply Z.leb_gt. lia.
      + rewrite with_var_sem by (try assumption; apply wv'_of_bool; assumption).
        destruct (var_ms qM sel v) as [l|]; cbn [option_map to_res]; [|reflexivity].
        unfold count_in. do 4 f_equal. apply filter_ext_in'. intros m.
        unfold z_to_usize_or0. destruct (Z.ltb_spec f 0); f_equal;
          repeat match goal with |- (_ <=? _) = (_ <=? _)%Z => apply eq_true_iff_eq; rewrite N.leb_le, Z.leb_le; lia end.
    - (* EOffset *)
      apply andb_true_iff in Hw as [Hv Hw1].
      rewrite IHe by assumption. rewrite bind_num_to_res.
      destruct (onum (sem qM sel stack e)) as [n|]; cbn [bind to_res obind]; [|reflexivity].
      destruct (n <=? 0)%Z; [reflexivity|].
      rewrite with_var_sem by (try assumption; apply wv'_of_bool; assumption).
      destruct (var_ms qM sel v) as [l|]; cbn [obind to_res]; [|reflexivity].
      destruct (nth_z l (n - 1)) as [m|]; cbn [obind to_res]; [|reflexivity].
      unfold to_i64, umax, i64_max.
      destruct (N.leb_spec (m_off m + m_base m) 18446744073709551615);
        destruct (Z.leb_spec (Z.of_N (m_off m + m_base m)) 9223372036854775807); try reflexivity; lia.
    - (* ELength *)
      apply andb_true_iff in Hw as [Hv Hw1].
      rewrite IHe by assumption. rewrite bind_num_to_res.
      destruct (onum (sem qM sel stack e)) as [n|]; cbn [bind to_res obind]; [|reflexivity].
      destruct (n <=? 0)%Z; [reflexivity|].
      rewrite with_var_sem by (try assumption; apply wv'_of_bool; assumption).
      destruct (var_ms qM sel v) as [l|]; cbn [obind to_res]; [|reflexivity].
      destruct (nth_z l (n - 1)) as [m|]; cbn [obind to_res]; [|reflexivity].
      unfold to_i64. destruct (_ <=? _)%Z; reflexivity.
    - (* EVar *)
      rewrite with_var_sem by (try assumption; apply wv'_of_bool; assumption).
      destruct (var_ms qM sel v); reflexivity.
    - (* EVarAt *)
      apply andb_true_iff in Hw as [Hv Hw1].
      rewrite IHe by assumption. rewrite bind_num_to_res.
      destruct (onum (sem qM sel stack e)) as [o|]; cbn [bind to_res obind]; [|reflexivity].
      destruct (Z.ltb_spec o 0); [reflexivity|].
      rewrite with_var_sem by (try assumption; apply wv'_of_bool; assumption).
      destruct (var_ms qM sel v) as [l|]; cbn [option_map to_res]; [|reflexivity].
      do 2 f_equal. apply existsb_ext'. intros m.
      apply eq_true_iff_eq. rewrite N.eqb_eq, Z.eqb_eq. lia.
    - (* EVarIn *)
      apply andb_true_iff in Hw as [Hw Hw2]. apply andb_true_iff in Hw as [Hv Hw1].
      rewrite IHe1, IHe2 by assumption. rewrite !bind_num_to_res.
      destruct (onum (sem qM sel stack e1)) as [f|]; cbn [bind to_res obind]; [|reflexivity].
      destruct (onum (sem qM sel stack e2)) as [t|]; cbn [bind to_res obind]; [|reflexivity].
      cbv zeta.
      destruct (Z.leb_spec 0 t); destruct (Z.ltb_spec t 0); try lia; cbn [andb orb]; [|reflexivity].
      destruct (Z.leb_spec (Z.max f 0) t); destruct (Z.ltb_spec t f); try lia; cbn [andb orb]; [|reflexivity].
      rewrite with_var_sem by (try assumption; apply wv'_of_bool; assumption).
      destruct (var_ms qM sel v) as [l|]; cbn [option_map to_res]; [|reflexivity].
      do 2 f_equal. apply existsb_ext'. intros m. f_equal;
        apply eq_true_iff_eq; rewrite N.leb_le, Z.leb_le; lia.
    - (* EUn *)
      rewrite IHe by assumption.
      destruct (sem qM sel stack e) as [x|]; cbn [bind to_res obind]; [|reflexivity].
      symmetry. apply to_res_of_res; [destruct o, x; cbn; discriminate|apply Proofs.NoScanProofs.eval_un_np].
    - (* EBin *)
      apply andb_true_iff in Hw as [Hw1 Hw2].
      rewrite IHe1, IHe2 by assumption.
      destruct (sem qM sel stack e1) as [x|]; cbn [bind to_res obind]; [|reflexivity].
      destruct (sem qM sel stack e2) as [y|]; cbn [bind to_res obind]; [|reflexivity].
      symmetry. apply to_res_of_res; [apply eval_bin_nn|apply Proofs.NoScanProofs.eval_bin_np].
    - (* EAnd *)
      rewrite (map_sem l sel stack) by assumption. apply and_loop_sem.
    - (* EOr *)
      rewrite (map_sem l sel stack) by assumption. apply or_loop_sem.
    - (* EDefined *)
      rewrite IHe by assumption. destruct (sem qM sel stack e); reflexivity.
    - (* EFor *)
      apply andb_true_iff in Hw as [Hw Hwb]. apply andb_true_iff in Hw as [Hwse Hwset].
      rewrite IHe1 by assumption. rewrite eval_selection_sem. cbn [bind to_res].
      assert (Hmap : map (fun idx => eval envM (Some idx) stack e2) set
                     = map to_res (map (fun idx => sem qM (Some idx) stack e2) set)).
      { clear IHe1. induction set as [|i set IHs]; cbn [map]; [reflexivity|].
        cbn [forallb] in Hwset. apply andb_true_iff in Hwset as [Hi Hset].
        rewrite IHe2, IHs; try assumption; [reflexivity|]. cbn. apply Nat.ltb_lt. exact Hi. }
      rewrite Hmap.
      rewrite <- (map_map (fun idx => sem qM (Some idx) stack e2) holds).
      apply (for_loop_quota (quota_of k (sem qM sel stack e1) (nlen set))).
      intros n. apply quota_num_pos.
    - (* EForRange *)
      apply andb_true_iff in Hw as [Hw Hwb]. apply andb_true_iff in Hw as [Hw Hwt].
      apply andb_true_iff in Hw as [Hwse Hwf].
      rewrite IHe1 by assumption. rewrite eval_selection_sem. cbn [bind to_res].
      pose proof (quota_num_pos k (sem qM sel stack e1) 0) as Hpos.
      destruct (quota_of k (sem qM sel stack e1) 0) as [n| | | |] eqn:Eq; cbn [fsel_of_quota]; try reflexivity.
      all: rewrite IHe2, IHe3 by assumption; rewrite !bind_num_to_res;
        destruct (onum (sem qM sel stack e2)) as [f|]; cbn [bind to_res undef_to_false]; [|reflexivity];
        destruct (onum (sem qM sel stack e3)) as [t|]; cbn [bind to_res undef_to_false]; [|reflexivity];
        destruct (t <? f)%Z; cbn [undef_to_false]; [reflexivity|];
        assert (Hmap : map (fun z => eval envM sel (stack ++ [VInt z]) e4) (zrange f t)
                       = map to_res (map (fun z => sem qM sel (stack ++ [VInt z]) e4) (zrange f t)))
          by (induction (zrange f t) as [|z zs IHz]; cbn [map]; [reflexivity|];
              rewrite IHe4, IHz by assumption; reflexivity);
        rewrite Hmap; rewrite <- (map_map (fun z => sem qM sel (stack ++ [VInt z]) e4) holds).
      + rewrite for_loop_num_sem by (apply Hpos; reflexivity). reflexivity.
      + rewrite for_loop_all_sem. reflexivity.
      + rewrite for_loop_none_sem. reflexivity.
    - (* EForList *)
      apply andb_true_iff in Hw as [Hw Hwb]. apply andb_true_iff in Hw as [Hw Hnb].
      apply andb_true_iff in Hw as [Hwse Hwel].
      rewrite IHe1 by assumption. rewrite eval_selection_sem. cbn [bind to_res].
      set (its := map (fun el => (sem qM sel stack el,
                                  match sem qM sel stack el with
                                  | Some v => sem qM sel (stack ++ [v]) e2
                                  | None => None end)) elems).
      assert (Hitems : map (fun el => (eval envM sel stack el,
                               match eval envM sel stack el with
                               | Ok v => eval envM sel (stack ++ [v]) e2 | _ => Undef end)) elems
                       = map model_item its).
      { subst its. rewrite map_map. apply map_ext_in. intros el Hin.
        rewrite Forall_forall in H. rewrite forallb_forall in Hwel.
        rewrite (H el Hin sel stack (Hwel el Hin) Hs).
        unfold model_item; cbn [fst snd].
        destruct (sem qM sel stack el) as [v|]; cbn [to_res]; [|reflexivity].
        rewrite IHe2 by assumption. reflexivity. }
      rewrite Hitems.
      assert (Hspec : map (fun el => match sem qM sel stack el with
                                     | Some (VBool _) => None
                                     | Some v => Some (holds (sem qM sel (stack ++ [v]) e2))
                                     | None => None end) elems = map spec_item its).
      { subst its. rewrite map_map. apply map_ext. intros el. unfold spec_item; cbn [fst snd].
        destruct (sem qM sel stack el) as [[z|b|b|fl]|]; reflexivity. }
      rewrite Hspec.
      pose proof (list_loop_quota (quota_of k (sem qM sel stack e1) 0) its
                    (fun n => quota_num_pos k (sem qM sel stack e1) 0 n)) as Hq.
      destruct (quota_of k (sem qM sel stack e1) 0) as [n| | | |] eqn:Eq; cbn [fsel_of_quota] in Hq |- *;
        try exact Hq; unfold list_quant in Hq; rewrite Hq;
        destruct (defined_prefix (map spec_item its)) as [bs [|]]; reflexivity.
    - (* EForRules *)
      apply andb_true_iff in Hw as [Hwse Hwel].
      rewrite IHe by assumption. rewrite eval_selection_sem. cbn [bind to_res e_prev envM q_prev qM].
      assert (Hmap : repeat (Ok (VBool true)) already
                     ++ map (fun i => match nth_error prev i with Some b => Ok (VBool b) | None => Panic end) elems
                     = map to_res (map (fun b : bool => Some (VBool b))
                                       (repeat true already ++ map (fun i => nth i prev false) elems))).
      { rewrite !map_app. f_equal.
        - induction already as [|a IHa]; cbn [repeat map]; [reflexivity|]. rewrite IHa. reflexivity.
        - clear IHe. induction elems as [|i elems IHl]; cbn [map]; [reflexivity|].
          cbn [forallb] in Hwel. apply andb_true_iff in Hwel as [Hi Hel]. rewrite IHl by assumption.
          f_equal. apply Nat.ltb_lt in Hi.
          destruct (nth_error prev i) eqn:E.
          + rewrite (nth_error_nth _ _ _ E). reflexivity.
          + apply nth_error_None in E. lia. }
      rewrite Hmap.
      assert (Hh : map holds (map (fun b : bool => Some (VBool b))
                     (repeat true already ++ map (fun i => nth i prev false) elems))
                   = repeat true already ++ map (fun i => nth i prev false) elems).
      { rewrite map_map. rewrite <- (map_id (repeat true already ++ map (fun i => nth i prev false) elems)) at 2.
        apply map_ext. intros b. reflexivity. }
      pose proof (for_loop_quota (quota_of k (sem qM sel stack e) (nlen elems + N.of_nat already))
                    (map (fun b : bool => Some (VBool b))
                         (repeat true already ++ map (fun i => nth i prev false) elems))
                    (fun n => quota_num_pos k (sem qM sel stack e) (nlen elems + N.of_nat already) n)) as Hq.
      rewrite Hh in Hq. exact Hq.
    - (* ERule *)
      cbn [e_prev envM q_prev qM]. apply Nat.ltb_lt in Hw.
      destruct (nth_error prev i) eqn:E; [reflexivity|]. apply nth_error_None in E. lia.
    - (* EExt *)
      cbn [e_ext envM q_ext qM]. destruct (nth_error ext i); reflexivity.
    - (* EBound *)
      destruct (nth_error stack i); reflexivity.
    - (* EDouble *)
      reflexivity.
  Qed.
End Sem.

Lemma rule_verdict_sem M prev ext fsz mem cond :
  wf_expr ext (length M) (length prev) cond = true ->
  eval_rule (envM M prev ext fsz mem) cond = Ok (sem_rule (qM M prev ext fsz mem) cond).
Proof.
  intros Hw. unfold eval_rule, sem_rule.
  rewrite (eval_eq_sem M prev ext fsz mem cond None [] Hw I).
  destruct (sem (qM M prev ext fsz mem) None [] cond); reflexivity.
Qed.

Lemma eval_never_panics M prev ext fsz mem e sel stack :
  wf_expr ext (length M) (length prev) e = true -> sel_ok' M sel ->
  eval (envM M prev ext fsz mem) sel stack e <> Panic /\ eval (envM M prev ext fsz mem) sel stack e <> Needed.
Proof.
  intros Hw Hs. rewrite (eval_eq_sem M prev ext fsz mem e sel stack Hw Hs).
  destruct (sem _ _ _ _); split; discriminate.
Qed.
