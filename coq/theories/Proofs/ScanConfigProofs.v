(* Proofs/ScanConfigProofs.v — C06: two scan configurations that agree on include_not_matched return
   the very same rule list (not only the same matched rules), and neither reports an error. *)
From Boreal Require Import Base.Prelude Base.Res Model.Eval Spec.CondSem Model.EvalCost Model.Scanner Spec.RuleSetSpec
     Proofs.ScannerProofs Proofs.NoScanScannerProofs.

Theorem scan_options_same_output c1 c2 inp sc :
  c_cb c1 = false -> c_cb c2 = false -> c_nm c1 = c_nm c2 ->
  wf_scanner inp sc = true -> ns_bound (s_nns sc) (s_globals sc) -> ns_bound (s_nns sc) (s_rules sc) ->
  o_rules (run_scan c1 Never inp sc) = o_rules (run_scan c2 Never inp sc)
  /\ o_err (run_scan c1 Never inp sc) = None /\ o_err (run_scan c2 Never inp sc) = None.
Proof.
  intros H1 H2 Hnm Hwf Hg Hr.
  destruct (run_scan_list_spec_any c1 inp sc H1 Hwf Hg Hr) as [E1 R1].
  destruct (run_scan_list_spec_any c2 inp sc H2 Hwf Hg Hr) as [E2 R2].
  rewrite R1, R2, Hnm. repeat split; assumption.
Qed.
