(* Proofs/WireInst.v — the codec theorem instantiated at the tables translated from boreal's source
   (Model/WireSchemas.v, regenerated on every run).  The finite facts are decided by vm_compute. *)
From Boreal Require Import Base.Prelude Model.Wire Model.WireSchemas Model.WireCase Proofs.WireProofs.
From Coq Require Import String.

(* ---------------------------------------------------------------- layer 2: schemas *)
Lemma schemas_agree :
  forallb (fun t => opt_eqb schema_eqb (lookup t write_env) (lookup t read_env)) all_wire_types = true.
Proof. vm_compute. reflexivity. Qed.

Lemma envs_agree : env_eqb write_env read_env = true.
Proof. vm_compute. reflexivity. Qed.

Lemma write_env_wf : wf_envb write_env = true.
Proof. vm_compute. reflexivity. Qed.

Lemma write_env_closed : closed_envb write_env = true.
Proof. vm_compute. reflexivity. Qed.

Lemma all_types_listed : map fst write_env = all_wire_types.
Proof. vm_compute. reflexivity. Qed.

Lemma wire_roundtrip : forall t v bs rest fuel,
  encode write_env v (SRef t) = Some bs -> (vdepth v <= fuel)%nat ->
  decode read_env fuel (SRef t) (bs ++ rest) = Some (v, rest).
Proof.
  intros t v bs rest fuel E D.
  apply (codec_roundtrip_two_sided write_env read_env (SRef t) (SRef t) v bs rest fuel).
  - exact envs_agree.
  - cbn [schema_eqb]. apply String.eqb_refl.
  - exact write_env_wf.
  - reflexivity.
  - exact E.
  - exact D.
Qed.

(* every declared field is either on the wire (on both sides, by schemas_agree) or one of the reviewed
   recomputed fields: `serialize` skips exactly the fields `deserialize` recomputes *)
Lemma unwritten_fields_are_the_rebuilt_ones :
  fields_table_eqb unwritten_fields rebuilt_fields && fields_table_eqb rebuilt_fields expected_rebuilt = true.
Proof. vm_compute. reflexivity. Qed.

(* ---------------------------------------------------------------- header + file *)
Lemma header_agree :
  bytes_eqb wire_magic_write wire_magic_read && bytes_eqb scanner_kind_write scanner_kind_read
  && (wire_version <? two32) = true.
Proof. vm_compute. reflexivity. Qed.

Lemma strip_prefix_app : forall p r, strip_prefix p (p ++ r) = Some r.
Proof. induction p; intros; cbn [strip_prefix app]; [reflexivity | now rewrite N.eqb_refl]. Qed.

Lemma bytes_eqb_eq : forall a b, bytes_eqb a b = true -> a = b.
Proof.
  induction a; intros [|y b] E; cbn [bytes_eqb] in E; try discriminate; [reflexivity|].
  apply andb_true_iff in E as [E1 E2]. apply N.eqb_eq in E1. apply IHa in E2. now subst.
Qed.

Lemma scanner_file_roundtrip : forall v file trailing fuel,
  to_bytes_model v = Some file -> (vdepth v <= fuel)%nat ->
  from_bytes_model fuel (file ++ trailing) = Some (v, trailing).
Proof.
  intros v file trailing fuel E D. unfold to_bytes_model in E.
  destruct (encode write_env v scanner_ref) as [b|] eqn:Eb; [|discriminate].
  assert (F : wire_magic_write ++ scanner_kind_write ++ le 4 wire_version ++ b = file) by congruence.
  rewrite <- F. clear E F.
  pose proof header_agree as H. apply andb_true_iff in H as [H Hv]. apply andb_true_iff in H as [Hm Hk].
  apply bytes_eqb_eq in Hm. apply bytes_eqb_eq in Hk. apply N.ltb_lt in Hv.
  unfold from_bytes_model. rewrite <- Hm, <- Hk.
  rewrite <- !app_assoc, strip_prefix_app, strip_prefix_app, get_le_app by exact Hv.
  rewrite N.eqb_refl. apply wire_roundtrip; assumption.
Qed.

(* ---------------------------------------------------------------- layer 3: rebuild parameters *)
Lemma rebuild_params_agree : list_eqb site_eqb build_sites rebuild_sites = true.
Proof. vm_compute. reflexivity. Qed.

(* DfaValidator::new clears modifiers.wide before build_dfa; the rebuild passes the stored modifiers.
   build_dfa must not look at what was overwritten. *)
Lemma dfa_overwritten_modifiers_unused :
  forallb (fun f => negb (existsb (String.eqb f) dfa_modifiers_read))
          (dfa_modifiers_overwritten_at_build ++ dfa_modifiers_overwritten_at_rebuild) = true.
Proof. vm_compute. reflexivity. Qed.

Lemma site_eqb_eq : forall a b, site_eqb a b = true -> a = b.
Proof.
  intros [n p] [m q] E. unfold site_eqb in E. cbn [site_name site_params] in E.
  apply andb_true_iff in E as [E1 E2]. apply String.eqb_eq in E1. apply params_eqb_eq in E2. now subst.
Qed.

Lemma sites_eqb_eq : forall a b, list_eqb site_eqb a b = true -> a = b.
Proof.
  induction a as [|x a IH]; intros [|y b] E; cbn [list_eqb] in E; try discriminate; [reflexivity|].
  apply andb_true_iff in E as [E1 E2]. apply site_eqb_eq in E1. apply IH in E2. now subst.
Qed.

Lemma rebuild_sites_equal : build_sites = rebuild_sites.
Proof. apply sites_eqb_eq. exact rebuild_params_agree. Qed.

(* ---------------------------------------------------------------- finding 9.9 on the pinned tree
   `Validator::Greedy.full` was built with reverse = false and rebuilt with reverse = true.  With that one
   literal in the rebuild table the agreement is refuted (the real-code witness /a.+foo.b/ on "aafoobb" is
   corpus/C10/greedy_full_direction.json). *)
Definition pinned_rebuild_sites : list site :=
  map (fun s => if String.eqb (site_name s) "Validator/Dfa.full"
                then {| site_name := site_name s;
                        site_params := map (fun pa => if String.eqb (fst pa) "reverse" then (fst pa, "true"%string) else pa)
                                           (site_params s) |}
                else s) rebuild_sites.

Lemma rebuild_params_pinned_refuted : list_eqb site_eqb build_sites pinned_rebuild_sites = false.
Proof. vm_compute. reflexivity. Qed.

(* the direction parameter is not decorative: build_dfa derives the match kind and the NFA direction from it *)
Lemma build_dfa_uses_direction :
  lookup "match_kind.if"%string build_dfa_config = Some "reverse"%string /\
  lookup "thompson.reverse"%string build_dfa_config = Some "reverse"%string /\
  lookup "match_kind.then"%string build_dfa_config <> lookup "match_kind.else"%string build_dfa_config.
Proof. vm_compute. repeat split; discriminate. Qed.

(* ---------------------------------------------------------------- converse direction at the translated tables *)
Lemma read_env_cwf : cwf_envb read_env = true.
Proof. vm_compute. reflexivity. Qed.

Lemma envs_equal : write_env = read_env.
Proof. apply env_eqb_eq. exact envs_agree. Qed.

Lemma strip_prefix_inv : forall p bs r, strip_prefix p bs = Some r -> bs = p ++ r.
Proof.
  induction p as [|x p IH]; intros bs r H; cbn [strip_prefix] in H; [injection H as <-; reflexivity|].
  destruct bs as [|y bs]; [discriminate|]. destruct (x =? y) eqn:E; [|discriminate].
  apply N.eqb_eq in E; subst. apply IH in H. subst. reflexivity.
Qed.

(* every file accepted by from_bytes_unchecked is, up to its ignored tail, exactly what to_bytes writes for the
   scanner it loads: saving a loaded scanner reproduces the file *)
Lemma scanner_file_canonical : forall fuel file v rest,
  byte_list file -> from_bytes_model fuel file = Some (v, rest) ->
  exists body, to_bytes_model v = Some body /\ file = body ++ rest.
Proof.
  intros fuel file v rest B H. unfold from_bytes_model in H.
  destruct (strip_prefix wire_magic_read file) as [b1|] eqn:S1; [|discriminate].
  destruct (strip_prefix scanner_kind_read b1) as [b2|] eqn:S2; [|discriminate].
  destruct (get_le 4 b2) as [[ver b3]|] eqn:G; [|discriminate].
  destruct (ver =? wire_version) eqn:V; [|discriminate]. apply N.eqb_eq in V. subst ver.
  apply strip_prefix_inv in S1. apply strip_prefix_inv in S2. subst file b1.
  apply byte_list_app in B as [_ B]. apply byte_list_app in B as [_ B].
  apply get_le_inv in G as [-> [_ B3]]; [|exact B].
  destruct (decode_encode read_env read_env_cwf fuel scanner_ref b3 v rest eq_refl B3 H) as [a [Ea ->]].
  pose proof header_agree as HA. apply andb_true_iff in HA as [HA _]. apply andb_true_iff in HA as [Hm Hk].
  apply bytes_eqb_eq in Hm. apply bytes_eqb_eq in Hk.
  exists (wire_magic_write ++ scanner_kind_write ++ le 4 wire_version ++ a).
  unfold to_bytes_model. rewrite envs_equal, Ea, Hm, Hk. split; [reflexivity|].
  now rewrite <- !app_assoc.
Qed.

(* ---------------------------------------------------------------- layer 3, interpreted *)
Lemma reload_same_automata : forall m v,
  validator_automata rebuild_sites m v = validator_automata build_sites m v.
Proof. intros. rewrite rebuild_sites_equal. reflexivity. Qed.

(* the witness validator really is a value of the translated Validator schema *)
Lemma greedy_witness_typed :
  encode write_env greedy_witness (SRef "Validator"%string)
  = Some [1; 3; 0; 0; 0; 97; 46; 43; 0; 0; 0; 0; 0; 8; 0; 0; 0; 97; 46; 43; 102; 111; 111; 46; 98; 0; 0; 0; 0; 0].
Proof. vm_compute. reflexivity. Qed.

(* as built: the reverse part runs backwards (MatchKind::All), the full expression forwards *)
Lemma greedy_witness_as_built :
  map (fun a => snd a) (validator_automata build_sites greedy_witness_modifiers greedy_witness) = [true; false].
Proof. vm_compute. reflexivity. Qed.

(* with the pinned literal the reloaded scanner holds a different automaton for the full expression *)
Lemma reload_pinned_refuted :
  validator_automata pinned_rebuild_sites greedy_witness_modifiers greedy_witness
  <> validator_automata build_sites greedy_witness_modifiers greedy_witness.
Proof. vm_compute. discriminate. Qed.

(* ---------------------------------------------------------------- open finding: NaN is not saveable *)
Definition ext_variants : list (string * N * schema) :=
  match lookup "ExternalValue"%string write_env with Some (SEnum vs) => vs | _ => [] end.
Definition float_tag : N :=
  match find_ctor "Float"%string ext_variants with Some (t, _) => t | None => 0 end.

Lemma ext_lookup : lookup "ExternalValue"%string write_env = Some (SEnum ext_variants).
Proof. vm_compute. reflexivity. Qed.

Lemma ext_float : find_ctor "Float"%string ext_variants = Some (float_tag, SStruct [("0"%string, SF64)])
                  /\ (float_tag <? 256) = true.
Proof. vm_compute. split; reflexivity. Qed.

(* a float external symbol can be saved exactly when it is not a NaN *)
Lemma float_symbol_saveable_iff_not_nan : forall bits, bits < two64 ->
  encode write_env (float_symbol bits) (SRef "ExternalValue"%string)
  = if is_nan bits then None else Some (float_tag :: le 8 bits).
Proof.
  intros bits H. apply N.ltb_lt in H. destruct ext_float as [F T].
  unfold float_symbol. cbn [encode resolve]. rewrite ext_lookup. cbv iota. rewrite F, T.
  cbn [encode resolve enc_fields fst snd]. rewrite String.eqb_refl.
  cbn [encode resolve]. rewrite H. destruct (is_nan bits); cbn [andb negb]; [reflexivity|].
  now rewrite app_nil_r.
Qed.

Lemma nan_external_refuted :
  encode write_env (float_symbol quiet_nan_bits) (SRef "ExternalValue"%string) = None.
Proof. vm_compute. reflexivity. Qed.

(* ---------------------------------------------------------------- module table on reload *)
Lemma bytes_eqb_refl : forall a, bytes_eqb a a = true.
Proof. induction a; cbn [bytes_eqb]; [reflexivity | now rewrite N.eqb_refl]. Qed.

Lemma mod_lookup_app_some : forall n a b i, mod_lookup n a = Some i -> mod_lookup n (a ++ b) = Some i.
Proof.
  induction a as [|[m j] a IH]; intros b i H; cbn [mod_lookup app] in *; [discriminate|].
  destruct (bytes_eqb n m); [exact H | now apply IH].
Qed.

Lemma mod_lookup_app_none : forall n a b, mod_lookup n a = None -> mod_lookup n (a ++ b) = mod_lookup n b.
Proof.
  induction a as [|[m j] a IH]; intros b H; cbn [mod_lookup app] in *; [reflexivity|].
  destruct (bytes_eqb n m); [discriminate | now apply IH].
Qed.

(* the module given last under a name is the one a saved import of that name resolves to, built-in or not *)
Lemma user_module_overrides : forall builtins user n impl,
  mod_lookup n (deserialize_params builtins (user ++ [(n, impl)])) = Some impl.
Proof.
  intros. unfold deserialize_params. rewrite rev_app_distr. cbn [rev app mod_lookup]. now rewrite bytes_eqb_refl.
Qed.

(* a module the user did not give resolves to the built-in one *)
Lemma builtin_module_kept : forall builtins user n,
  mod_lookup n (rev user) = None -> In n builtins ->
  mod_lookup n (deserialize_params builtins user) = Some 0.
Proof.
  intros builtins user n H I. unfold deserialize_params. rewrite mod_lookup_app_none by exact H.
  unfold default_params. induction builtins as [|b bs IH]; [contradiction|].
  cbn [map mod_lookup]. destruct (bytes_eqb n b) eqn:E; [reflexivity|].
  destruct I as [->|I]; [now rewrite bytes_eqb_refl in E | now apply IH].
Qed.
