(* Proofs/TextPinned.v — the pinned tree (before fixes F1, F2, F3) violates C01: the faithful model
   of the pinned code differs from the specification on the recorded witnesses (DESIGN 9.1, 9.2, 9.4).
   The same witnesses are replayed on the real code by corpus/C01. *)
From Boreal Require Import Base.Prelude Base.ListX Base.Bytes Model.Literals Model.Atoms Model.Ac Model.AcScan
  Spec.TextSpec.

(* the pinned pipeline: per-variable (atom, start) set, push instead of sorted insert, key halved
   whenever wide *)
(* the atom ranking of the pinned tree (boreal/src/atoms.rs at the pinned commit), written out so that
   the refutations do not depend on today's translated constants *)
Definition byte_rank_pinned (b : N) : N :=
  if memb N.eqb b [0; 204; 255] then 10 else if is_lower b then 18 else 20.
Definition pick_pinned : bytes -> N * N :=
  pick_atom_with (atom_rank_with byte_rank_pinned [0; 32; 204; 255] 10 2).

Definition var_step_pinned := var_step_with insert_match_pinned get_xor_key_pinned.
Definition model_scan_text_pinned (prm : sparams) (d : tdecl) (mem : bytes) : list smatch :=
  let vars := [text_matcher d] in
  match scan_region_with var_step_pinned scan_single_variable_pinned (acscan_new_pinned pick_pinned vars) prm vars
          {| rg_start := 0; rg_mem := mem |} (empty_matches vars) with
  | [r] => r
  | _ => []
  end.

(* each fix on its own *)
Definition model_scan_text_with ins xkey (newf : list matcher -> acscan) prm d mem : list smatch :=
  let vars := [text_matcher d] in
  match scan_region_with (var_step_with ins xkey) scan_single_variable (newf vars) prm vars
          {| rg_start := 0; rg_mem := mem |} (empty_matches vars) with
  | [r] => r
  | _ => []
  end.

Definition prm0 : sparams := {| p_match_max_length := 512; p_max_nb_matches := 1000 |}.
Definition mkd text a w x : tdecl :=
  {| t_text := text; t_ascii := a; t_wide := w; t_nocase := false; t_fullword := false; t_xor := x; t_b64 := None |}.

(* 9.1: "abcdef" xor wide, wide text xored with 0x90: key reported 0x10 *)
Definition w91_d := mkd [97;98;99;100;101;102] false true (Some (0, 255)).
Definition w91_m := xor_bytes 144 (widen [97;98;99;100;101;102]).

Lemma xor_key_pinned_refuted :
  map sm_key (model_scan_text_with insert_match get_xor_key_pinned acscan_new prm0 w91_d w91_m) = [16]
  /\ map sm_key (model_scan_text prm0 w91_d w91_m) = [144]
  /\ map sm_key (model_scan_text_pinned prm0 w91_d w91_m) = [16].
Proof. vm_compute. repeat split. Qed.

(* 9.2: "a\x00" ascii wide on a\0\0\0: offset 0 reported twice *)
Definition w92_d := mkd [97;0] true true None.
Definition w92_m : bytes := [97;0;0;0].

Lemma duplicate_offset_pinned_refuted :
  map sm_off (model_scan_text_pinned prm0 w92_d w92_m) = [0; 0]
  /\ spec_offsets w92_d w92_m = [0]
  /\ map sm_off (model_scan_text prm0 w92_d w92_m) = [0].
Proof. vm_compute. repeat split. Qed.

(* 9.4: "A\0\0\0x" ascii wide: the wide literal shares atom and atom position with the ascii one *)
Definition w94_d := mkd [65;0;0;0;120] true true None.
Definition w94_m : bytes := [122;122] ++ widen [65;0;0;0;120] ++ [122;122].

Lemma literal_dropped_pinned_refuted :
  map sm_off (model_scan_text_pinned prm0 w94_d w94_m) = []
  /\ spec_offsets w94_d w94_m = [2]
  /\ map sm_off (model_scan_text prm0 w94_d w94_m) = [2].
Proof. vm_compute. repeat split. Qed.

(* 9.3: without the sorted insert, overlapping occurrences of two xor literals whose atoms sit at
   different offsets are reported out of order *)
Definition w93_d := mkd [0;0;0;0;97;98] true false (Some (0, 1)).
Definition w93_m : bytes := [1;1;1;1;96;99;0;0;0;0;97;98].
