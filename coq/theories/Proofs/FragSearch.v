(* Proofs/FragSearch.v — C11: `VarMatches::find_at` / `find_in` (boreal/src/evaluator/variable.rs) look
   matches up with `binary_search_by_key` on the absolute address.  On a match vector whose absolute
   addresses are strictly ascending (what ascending region delivery and fix F2 give) the binary
   search is membership (`$a at X`) and its insertion point is the lower bound (`$a in (lo..hi)`). *)
From Coq Require Import Sorting.Sorted.
From Boreal Require Import Base.Prelude Base.ListX Base.Bytes Base.Sorted Model.Literals Model.AcScan Model.Memory
  Spec.FragSpec.

(* ------------------------------------------------------------------ strictly ascending keys *)
Lemma asc_nth_lt l : forall i j, asc l -> (i < j < length l)%nat -> nth i l 0 < nth j l 0.
Proof.
  induction l as [|a l IH]; intros i j Ha Hij; [cbn in Hij; lia|].
  apply asc_cons_inv in Ha as [Ha Hf]. destruct j as [|j]; [lia|]. cbn [length] in Hij.
  destruct i as [|i]; cbn [nth].
  - rewrite Forall_forall in Hf. apply Hf. apply nth_In. lia.
  - apply IH; [exact Ha | lia].
Qed.

Lemma asc_nnth_lt l i j : asc l -> i < j -> j < nlen l -> nnth 0 i l < nnth 0 j l.
Proof. intros Ha Hij Hj. unfold nnth, nlen in *. apply asc_nth_lt; [exact Ha | lia]. Qed.

Lemma asc_nnth_le l i j : asc l -> i <= j -> j < nlen l -> nnth 0 i l <= nnth 0 j l.
Proof.
  intros Ha Hij Hj. destruct (N.eq_dec i j) as [->|Hn]; [lia|].
  apply N.lt_le_incl. apply asc_nnth_lt; auto. lia.
Qed.

(* ------------------------------------------------------------------ the loop *)
Section Search.
  Variables (keys : list N) (target : N).
  Hypothesis Hasc : asc keys.
  Let n := nlen keys.

  (* everything left of base is below the target, everything right of the window is above it *)
  Definition inv (base size : N) : Prop :=
    1 <= size /\ base + size <= n
    /\ (forall i, i < base -> nnth 0 i keys < target)
    /\ (forall i, base + size <= i -> i < n -> target < nnth 0 i keys).

  Lemma loop_inv fuel : forall base size,
    inv base size -> size <= N.of_nat fuel ->
    inv (bsearch_loop fuel keys target base size) 1.
  Proof.
    induction fuel as [|fuel IH]; intros base size (H1 & H2 & HL & HU) Hf; [lia|].
    cbn [bsearch_loop]. destruct (size <=? 1) eqn:E.
    - assert (size = 1) by lia. subst size. repeat split; auto; lia.
    - set (half := size / 2). assert (Hh : 1 <= half /\ half <= size - half /\ half < size) by (unfold half; lia).
      set (mid := base + half).
      destruct (target <? nnth 0 mid keys) eqn:Et.
      + apply IH; [|lia]. repeat split; try lia; [exact HL|].
        intros i Hi Hin. destruct (N.lt_ge_cases i (base + size)) as [Hlt|Hge]; [|now apply HU].
        assert (nnth 0 mid keys <= nnth 0 i keys) by (apply asc_nnth_le; auto; unfold mid, n in *; lia). lia.
      + apply IH; [|lia]. repeat split; try (unfold mid; lia).
        * intros i Hi.
          assert (nnth 0 i keys < nnth 0 mid keys) by (apply asc_nnth_lt; auto; unfold mid, n in *; lia). lia.
        * intros i Hi Hin. apply HU; [unfold mid in Hi; lia | exact Hin].
  Qed.

  Hypothesis Hne : keys <> [].

  Let r := bsearch_loop (length keys) keys target 0 n.

  Lemma final_inv : inv r 1.
  Proof.
    apply loop_inv; [|unfold n, nlen; lia].
    assert (1 <= n) by (unfold n; destruct keys; [congruence | rewrite nlen_cons; lia]).
    repeat split; try lia.
  Qed.

  Lemma bs_unfold :
    binary_search keys target
    = if nnth 0 r keys =? target then (true, r) else (false, if nnth 0 r keys <? target then r + 1 else r).
  Proof. unfold binary_search, r, n. destruct keys; [congruence | reflexivity]. Qed.

  (* Ok(_) iff the key is present *)
  Theorem binary_search_found : fst (binary_search keys target) = true <-> In target keys.
  Proof.
    destruct final_inv as (_ & Hr & HL & HU).
    rewrite bs_unfold. destruct (nnth 0 r keys =? target) eqn:E; cbn [fst].
    - split; [intros _|reflexivity]. apply N.eqb_eq in E. rewrite <- E. unfold nnth. apply nth_In.
      unfold n, nlen in Hr. lia.
    - split; [discriminate|]. intros Hin. exfalso.
      apply (In_nth _ _ 0) in Hin as (j & Hj & Ej).
      assert (Ej' : nnth 0 (N.of_nat j) keys = target) by (unfold nnth; now rewrite Nnat.Nat2N.id).
      destruct (N.lt_trichotomy (N.of_nat j) r) as [Hlt|[Heq|Hgt]].
      + specialize (HL _ Hlt). lia.
      + rewrite Heq in Ej'. lia.
      + assert (target < nnth 0 (N.of_nat j) keys) by (apply HU; unfold n, nlen; lia). lia.
  Qed.

  (* the index returned (Ok or Err) is the lower bound: keys before it are below the target, keys from
     it on are at or above it *)
  Theorem binary_search_lower_bound :
    let idx := snd (binary_search keys target) in
    idx <= n /\ (forall i, i < idx -> nnth 0 i keys < target)
    /\ (forall i, idx <= i -> i < n -> target <= nnth 0 i keys).
  Proof.
    destruct final_inv as (_ & Hr & HL & HU).
    rewrite bs_unfold. destruct (nnth 0 r keys =? target) eqn:E; cbn [snd].
    - apply N.eqb_eq in E. repeat split; [lia | exact HL |].
      intros i Hi Hin. rewrite <- E. apply asc_nnth_le; auto.
    - destruct (nnth 0 r keys <? target) eqn:E2.
      + repeat split; [lia | |].
        * intros i Hi. destruct (N.eq_dec i r) as [->|Hn]; [lia|]. apply HL. lia.
        * intros i Hi Hin. apply N.lt_le_incl. apply HU; lia.
      + repeat split; [lia | exact HL |].
        intros i Hi Hin. assert (nnth 0 r keys <= nnth 0 i keys) by (apply asc_nnth_le; auto). lia.
  Qed.
End Search.

(* ------------------------------------------------------------------ find_at / find_in *)
(* absolute addresses fit usize (true of every reported match: base + offset addresses a byte) *)
Definition no_overflow (t : list smatch) : Prop := forall m, In m t -> sm_off m + sm_base m <= umax.

Lemma abs_off_plain t m : no_overflow t -> In m t -> abs_off m = sm_base m + sm_off m.
Proof. intros H Hm. unfold abs_off, sat_add. specialize (H m Hm). lia. Qed.

Lemma bool_iff_eq (a b : bool) : (a = true <-> b = true) -> a = b.
Proof. destruct a, b; intuition congruence. Qed.

Theorem find_at_spec t x :
  asc (map abs_off t) -> no_overflow t -> find_at t x = spec_at t x.
Proof.
  intros Ha Hno. destruct t as [|m0 t0] eqn:Et; [reflexivity|]. rewrite <- Et in *.
  apply bool_iff_eq. unfold find_at.
  rewrite (binary_search_found (map abs_off t) x Ha) by (rewrite Et; discriminate).
  unfold spec_at. rewrite existsb_exists, in_map_iff. split.
  - intros (m & Hm & Hin). exists m. split; [exact Hin|]. rewrite <- (abs_off_plain t m Hno Hin). lia.
  - intros (m & Hin & Hm). exists m. split; [|exact Hin]. rewrite (abs_off_plain t m Hno Hin). lia.
Qed.

Lemma nnth_map_opt {A} (f : A -> N) i (l : list A) x : nnth_opt i l = Some x -> nnth 0 i (map f l) = f x.
Proof.
  unfold nnth_opt, nnth. intros H. rewrite (nth_indep _ 0 (f x)).
  - rewrite map_nth. f_equal. now apply nth_error_nth.
  - rewrite map_length. apply nth_error_Some. congruence.
Qed.

Theorem find_in_spec t lo hi :
  asc (map abs_off t) -> no_overflow t -> find_in t lo hi = spec_in t lo hi.
Proof.
  intros Ha Hno. destruct t as [|m0 t0] eqn:Et; [reflexivity|]. rewrite <- Et in *.
  assert (Hne : map abs_off t <> []) by (rewrite Et; discriminate).
  pose proof (binary_search_lower_bound (map abs_off t) lo Ha Hne) as (Hidx & HL & HU). cbv zeta in *.
  unfold find_in. set (idx := snd (binary_search (map abs_off t) lo)) in *.
  rewrite nlen_map in *.
  apply bool_iff_eq. unfold spec_in. rewrite existsb_exists. split.
  - destruct (nnth_opt idx t) as [m|] eqn:Em; [|discriminate]. intros Hle.
    assert (Hin : In m t) by (eapply nth_error_In; exact Em).
    assert (Hlt : idx < nlen t).
    { unfold nnth_opt in Em. assert (nth_error t (N.to_nat idx) <> None) by congruence.
      apply nth_error_Some in H. unfold nlen. lia. }
    exists m. split; [exact Hin|]. pose proof (HU idx (N.le_refl _) Hlt) as Hlo.
    rewrite (nnth_map_opt abs_off idx t m Em) in Hlo. rewrite (abs_off_plain t m Hno Hin) in *. lia.
  - intros (m & Hin & Hm). apply (In_nth _ _ m) in Hin as (j & Hj & Ej).
    assert (Ejo : nnth_opt (N.of_nat j) t = Some m).
    { unfold nnth_opt. rewrite Nnat.Nat2N.id. rewrite <- Ej. now apply nth_error_nth'. }
    assert (Hmt : In m t) by (eapply nth_error_In; exact Ejo).
    pose proof (nnth_map_opt abs_off _ t m Ejo) as Ekey.
    assert (Hge : idx <= N.of_nat j).
    { destruct (N.lt_ge_cases (N.of_nat j) idx) as [Hlt|Hge]; [|exact Hge].
      specialize (HL _ Hlt). rewrite Ekey, (abs_off_plain t m Hno Hmt) in HL. lia. }
    assert (Hjn : N.of_nat j < nlen t) by (unfold nlen; lia).
    destruct (nnth_opt idx t) as [m'|] eqn:Em.
    + pose proof (nnth_map_opt abs_off idx t m' Em) as Ek'.
      assert (nnth 0 idx (map abs_off t) <= nnth 0 (N.of_nat j) (map abs_off t))
        by (apply asc_nnth_le; auto; rewrite nlen_map; exact Hjn).
      rewrite Ek', Ekey, (abs_off_plain t m Hno Hmt) in H. lia.
    + exfalso. unfold nnth_opt in Em. apply nth_error_None in Em. unfold nlen in *. lia.
Qed.
