(* Proofs/ModFuncsMath2.v — C16, second part of the math-module proofs: pure integer / list / exact-rational facts.
   1. math.mode = the smallest byte value of maximal count (= MathSpec.mode_spec): the code's tie-breaking
      (`.enumerate().rev().max_by_key()` keeps the last maximum of the reversed enumeration) is in the model.
   2. SerialCorrelation: the streamed sums = the cyclic lag-1 formula of MathSpec.scc_spec (exact integers; the
      final division is a rational, the f64 rounding is outside).
   3. deviation: the sum over the non-empty histogram buckets = the sum over the byte sequence (exact rationals).
   4. all histogram / digest based calls over (offset, size) of a byte slice = the same call's spec on the
      clipped bytes.
   5. checksum32 / crc32 over any slicing = over the whole. *)
From Coq Require Import QArith Qabs Qreduction Qfield.
From Boreal Require Import Base.Prelude Spec.MathSpec Spec.Digest Spec.RangeSpec Model.ModFuncs Model.HashMod
  Model.MathMod Model.StringMod Model.ModFuncsCase Proofs.ModFuncsProofs Proofs.ModFuncsFrag Proofs.ModFuncsMath
  Proofs.ModFuncsCrc.
Open Scope N_scope.

(* ------------------------------------------------------------------ 1. mode *)
(* max_by_key over the reversed list, read from the front of the unreversed one *)
Fixpoint best_opt (l : list (N * N)) : option (N * N) :=
  match l with
  | [] => None
  | a :: l' => Some (match best_opt l' with Some b => keep_last_max b a | None => a end)
  end.

Lemma max_by_key_last_snoc : forall m a,
  max_by_key_last (m ++ [a]) = Some (match max_by_key_last m with Some b => keep_last_max b a | None => a end).
Proof.
  intros m a. unfold max_by_key_last. destruct m as [|x r]; [reflexivity|].
  cbn [app]. now rewrite fold_left_app.
Qed.

Lemma max_by_key_last_rev : forall l, max_by_key_last (rev l) = best_opt l.
Proof.
  induction l as [|a l IH]; [reflexivity|]. cbn [rev best_opt]. now rewrite max_by_key_last_snoc, IH.
Qed.

(* over an enumeration: the chosen pair is (i, h[i]) with h[i] maximal and i the first such index *)
Lemma best_enum : forall h k, h <> [] ->
  exists i, best_opt (enumerate_from k h) = Some (k + N.of_nat i, nth i h 0) /\ (i < length h)%nat
    /\ (forall j, (j < length h)%nat -> nth j h 0 <= nth i h 0)
    /\ (forall j, (j < i)%nat -> nth j h 0 < nth i h 0).
Proof.
  induction h as [|c h IH]; intros k Hne; [congruence|].
  destruct h as [|c' h'].
  - exists 0%nat. cbn. repeat split; try lia.
    + f_equal. f_equal. lia.
    + intros j Hj. destruct j; [lia|lia].
  - destruct (IH (k + 1)) as (i & Hb & Hi & Hmax & Hmin); [discriminate|].
    remember (c' :: h') as t eqn:Et. clear Et IH.
    change (enumerate_from k (c :: t)) with ((k, c) :: enumerate_from (k + 1) t).
    cbn [best_opt]. rewrite Hb. unfold keep_last_max. cbn [snd].
    destruct (nth i t 0 <=? c) eqn:E.
    + exists 0%nat. cbn [nth length]. repeat split; try lia.
      * do 2 f_equal. lia.
      * intros j Hj. destruct j; [lia|]. specialize (Hmax j). lia.
    + exists (S i). cbn [nth length]. repeat split; try lia.
      * do 2 f_equal. lia.
      * intros j Hj. destruct j; [lia|]. apply Hmax. lia.
      * intros j Hj. destruct j; [lia|]. apply Hmin. lia.
Qed.

Lemma find_upto : forall (p : N -> bool) len from i,
  (i < len)%nat -> p (from + N.of_nat i) = true ->
  (forall j, (j < i)%nat -> p (from + N.of_nat j) = false) ->
  find p (upto len from) = Some (from + N.of_nat i).
Proof.
  intros p len; induction len as [|len IH]; intros from i Hi Hp Hf; [lia|]. cbn [upto find].
  destruct i.
  - replace (from + N.of_nat 0) with from in * by lia. now rewrite Hp.
  - assert (H0 : p from = false) by (specialize (Hf 0%nat); replace (from + N.of_nat 0) with from in Hf by lia; apply Hf; lia).
    rewrite H0. replace (from + N.of_nat (S i)) with (from + 1 + N.of_nat i) in * by lia.
    apply IH; [lia|assumption|].
    intros j Hj. specialize (Hf (S j)). replace (from + N.of_nat (S j)) with (from + 1 + N.of_nat j) in Hf by lia.
    apply Hf. lia.
Qed.

Lemma histogram_length : forall s, length (histogram s) = 256%nat.
Proof. intros. unfold histogram, all_bytes. rewrite map_length. apply upto_length. Qed.

Lemma histogram_ne : forall s, histogram s <> [].
Proof. intros s H. pose proof (histogram_length s) as L. rewrite H in L. discriminate. Qed.

(* the model's mode over a distribution whose counters are a histogram *)
Lemma mode_of_histogram : forall s,
  exists i, best_opt (enumerate_from 0 (histogram s)) = Some (N.of_nat i, nth i (histogram s) 0)
    /\ (i < 256)%nat
    /\ (forall j, (j < 256)%nat -> nth j (histogram s) 0 <= nth i (histogram s) 0)
    /\ (forall j, (j < i)%nat -> nth j (histogram s) 0 < nth i (histogram s) 0).
Proof.
  intros s. destruct (best_enum (histogram s) 0 (histogram_ne s)) as (i & Hb & Hi & Hmax & Hmin).
  rewrite histogram_length in *. rewrite N.add_0_l in Hb. exists i. auto.
Qed.

Lemma mode_spec_first_max : forall s i, (i < 256)%nat ->
  (forall j, (j < 256)%nat -> nth j (histogram s) 0 <= nth i (histogram s) 0) ->
  (forall j, (j < i)%nat -> nth j (histogram s) 0 < nth i (histogram s) 0) ->
  mode_spec s = Z.of_N (N.of_nat i).
Proof.
  intros s i Hi Hmax Hmin. unfold mode_spec, all_bytes.
  set (h := histogram s) in *.
  assert (Hl : length h = 256%nat) by apply histogram_length.
  rewrite (find_upto _ 256 0 i Hi).
  - now rewrite N.add_0_l.
  - rewrite N.add_0_l. apply forallb_forall. intros c Hc.
    destruct (In_nth _ _ 0 Hc) as (j & Hj & <-). rewrite Nat2N.id. specialize (Hmax j). lia.
  - intros j Hj. rewrite N.add_0_l, Nat2N.id.
    destruct (forallb (fun c => c <=? nth j h 0) h) eqn:E; [|reflexivity].
    rewrite forallb_forall in E. assert (Hin : In (nth i h 0) h) by (apply nth_In; lia).
    specialize (E _ Hin).
    specialize (Hmin j Hj). lia.
Qed.

Lemma mode_call_dist : forall s, Forall (fun b => b < 256) s ->
  (match max_by_key_last (rev (enumerate_from 0 (counters (distribution_from_bytes s)))) with
   | Some (i, _) => RInt (Z.of_N i)
   | None => RUndef
   end) = RInt (mode_spec s)
  /\ exists i, mode_spec s = Z.of_N i /\ i < 256
       /\ (forall b, b < 256 -> count_of b s <= count_of i s)
       /\ (forall b, b < i -> count_of b s < count_of i s).
Proof.
  intros s Hf. rewrite counters_histogram by assumption. rewrite max_by_key_last_rev.
  destruct (mode_of_histogram s) as (i & Hb & Hi & Hmax & Hmin). rewrite Hb.
  rewrite (mode_spec_first_max s i Hi Hmax Hmin). split; [reflexivity|].
  exists (N.of_nat i). split; [reflexivity|]. split; [lia|].
  assert (Hn : forall b, b < 256 -> nth (N.to_nat b) (histogram s) 0 = count_of b s) by (intros; now apply histogram_nth).
  split.
  - intros b Hb'. rewrite <- !Hn by lia. rewrite Nat2N.id. apply Hmax. lia.
  - intros b Hb'. rewrite <- !Hn by lia. rewrite Nat2N.id. apply Hmin. lia.
Qed.

(* C16_math_mode: math.mode() over a byte slice *)
Lemma mode_whole : forall mem, Forall (fun x => x < 256) mem ->
  mode_call (Direct mem) [] = RInt (mode_spec mem)
  /\ exists i, mode_spec mem = Z.of_N i /\ i < 256
       /\ (forall b, b < 256 -> count_of b mem <= count_of i mem)
       /\ (forall b, b < i -> count_of b mem < count_of i mem).
Proof.
  intros mem Hf. unfold mode_call. cbn [dist_of_args get_direct with_dist]. now apply mode_call_dist.
Qed.

(* ------------------------------------------------------------------ 2. serial correlation *)
Open Scope Z_scope.

Fixpoint lag (l : list N) (p : Z) : Z :=
  match l with [] => 0 | c :: r => p * Z.of_N c + lag r (Z.of_N c) end.

Lemma scc_fold_sums : forall l st,
  scct1 (fold_left scc_byte l st) = scct1 st + lag l (sprev st)
  /\ scct2 (fold_left scc_byte l st) = scct2 st + Z.of_N (sum_list l)
  /\ scct3 (fold_left scc_byte l st) = scct3 st + Z.of_N (sum_list (map (fun x => x * x)%N l)).
Proof.
  induction l as [|c r IH]; intros st; cbn [fold_left lag map].
  - unfold sum_list. cbn. lia.
  - destruct (IH (scc_byte st c)) as (H1 & H2 & H3). rewrite H1, H2, H3. cbn [scc_byte scct1 scct2 scct3 sprev].
    unfold sum_list. cbn [fold_right]. lia.
Qed.

Lemma lag_cyclic : forall r p x,
  Z.of_N (mul_pairs (p :: r) (r ++ [x])) = lag r (Z.of_N p) + Z.of_N (x * last (p :: r) 0%N)%N.
Proof.
  induction r as [|c r IH]; intros p x.
  - cbn. lia.
  - change (mul_pairs (p :: c :: r) ((c :: r) ++ [x])) with (p * c + mul_pairs (c :: r) (r ++ [x]))%N.
    rewrite N2Z.inj_add, IH. cbn [lag].
    change (last (p :: c :: r) 0%N) with (last (c :: r) 0%N). lia.
Qed.

(* C16_math_serial_correlation *)
Lemma scc_bytes : forall s, compute_from_bytes scc_d s = RFloat (scc_spec s).
Proof.
  intros s. unfold compute_from_bytes. cbn [md_finalize md_update md_init scc_d opt_float].
  destruct s as [|s0 r].
  - reflexivity.
  - unfold scc_update.
    set (st1 := {| scct1 := scct1 scc_init; scct2 := scct2 scc_init; scct3 := scct3 scc_init;
                   sprev := sprev scc_init; sfirst := if sfirst_range scc_init then s0 else sfirst scc_init;
                   sfirst_range := false; slast := last (s0 :: r) 0%N; snb := snb scc_init |}).
    destruct (scc_fold_fields (s0 :: r) st1) as (F1 & F2 & F3 & F4).
    destruct (scc_fold_sums (s0 :: r) st1) as (S1 & S2 & S3).
    set (st2 := fold_left scc_byte (s0 :: r) st1) in *.
    unfold scc_finalize. cbn [scct1 scct2 scct3 sfirst slast snb].
    rewrite F1, F3, F4, S1, S2, S3. cbn [st1 scct1 scct2 scct3 sprev sfirst slast snb scc_init sfirst_range].
    assert (Hn : (0 <? 0 + nlen (s0 :: r))%N = true) by (unfold nlen; cbn [length]; lia).
    rewrite Hn. unfold scc_spec. cbn [rot1].
    rewrite (lag_cyclic r s0 s0). cbn [lag].
    replace (0 + nlen (s0 :: r))%N with (nlen (s0 :: r)) by lia.
    replace (0 * Z.of_N s0 + lag r (Z.of_N s0)) with (lag r (Z.of_N s0)) by lia.
    repeat match goal with |- context [0 + ?x] => replace (0 + x) with x by lia end.
    reflexivity.
Qed.
Close Scope Z_scope.

(* ------------------------------------------------------------------ 3. deviation: histogram sum = sequence sum *)
Lemma sumq_map_ext : forall (A : Type) (f f' : A -> Q) l,
  (forall c, In c l -> f c == f' c)%Q -> (sumq (map f l) == sumq (map f' l))%Q.
Proof.
  intros A f f' l; induction l as [|a l IH]; intros H; cbn [map sumq fold_right]; [reflexivity|].
  fold (sumq (map f l)). fold (sumq (map f' l)).
  rewrite IH by (intros c Hc; apply H; now right). rewrite (H a) by now left. reflexivity.
Qed.

Lemma sumq_map_plus : forall (A : Type) (f1 f2 : A -> Q) l,
  (sumq (map (fun c => f1 c + f2 c) l) == sumq (map f1 l) + sumq (map f2 l))%Q.
Proof.
  intros A f1 f2 l; induction l as [|a l IH]; cbn [map sumq fold_right]; [ring|].
  fold (sumq (map (fun c => f1 c + f2 c)%Q l)). fold (sumq (map f1 l)). fold (sumq (map f2 l)).
  rewrite IH. ring.
Qed.

Lemma sumq_zero : forall (A : Type) (f : A -> Q) l, (forall c, In c l -> f c == 0)%Q -> (sumq (map f l) == 0)%Q.
Proof.
  intros A f l; induction l as [|a l IH]; intros H; cbn [map sumq fold_right]; [reflexivity|].
  fold (sumq (map f l)). rewrite IH by (intros c Hc; apply H; now right). rewrite (H a) by now left. ring.
Qed.

Lemma sumq_filter : forall (A : Type) (F : A -> Q) (P : A -> bool) l,
  (forall x, P x = false -> F x == 0)%Q -> (sumq (map F (filter P l)) == sumq (map F l))%Q.
Proof.
  intros A F P l H; induction l as [|a l IH]; cbn [filter map sumq fold_right]; [reflexivity|].
  fold (sumq (map F l)). destruct (P a) eqn:E; cbn [map sumq fold_right].
  - fold (sumq (map F (filter P l))). now rewrite IH.
  - rewrite IH, (H a E). ring.
Qed.

Lemma NQ_add : forall a b, (NQ (a + b) == NQ a + NQ b)%Q.
Proof. intros. unfold NQ. rewrite N2Z.inj_add, inject_Z_plus. reflexivity. Qed.

Lemma enumerate_map_upto : forall (f : N -> N) len k,
  enumerate_from k (map f (upto len k)) = map (fun c => (c, f c)) (upto len k).
Proof. induction len; intros k; cbn [upto map enumerate_from]; [reflexivity|]. now rewrite IHlen. Qed.

Section Buckets.
  Variable g : N -> Q.

  Lemma sum_indicator : forall len from x,
    (sumq (map (fun c => g c * NQ (if c =? x then 1 else 0)) (upto len from))
     == if (from <=? x) && (x <? from + N.of_nat len) then g x else 0)%Q.
  Proof.
    induction len as [|len IH]; intros from x; cbn [upto map sumq fold_right].
    - destruct ((from <=? x) && (x <? from + N.of_nat 0)) eqn:E; [lia|reflexivity].
    - fold (sumq (map (fun c => (g c * NQ (if c =? x then 1 else 0))%Q) (upto len (from + 1)))).
      rewrite IH.
      destruct (from =? x) eqn:E0.
      + assert (from = x) by lia. subst x.
        destruct ((from + 1 <=? from) && (from <? from + 1 + N.of_nat len)) eqn:E1; [lia|].
        destruct ((from <=? from) && (from <? from + N.of_nat (S len))) eqn:E2; [|lia].
        unfold NQ. cbn. ring.
      + destruct ((from + 1 <=? x) && (x <? from + 1 + N.of_nat len)) eqn:E1;
          destruct ((from <=? x) && (x <? from + N.of_nat (S len))) eqn:E2; try lia; unfold NQ; cbn; ring.
  Qed.

  (* sum over the value range of g(c) * (number of occurrences of c) = sum of g over the occurrences *)
  Lemma bucket_sum : forall s len from,
    (forall x, In x s -> from <= x /\ x < from + N.of_nat len) ->
    (sumq (map (fun c => g c * NQ (count_of c s)) (upto len from)) == sumq (map g s))%Q.
  Proof.
    induction s as [|x s IH]; intros len from Hr.
    - cbn [map sumq fold_right]. apply sumq_zero. intros c _. unfold count_of, NQ. cbn. ring.
    - rewrite (sumq_map_ext _ _ (fun c => g c * NQ (if c =? x then 1 else 0) + g c * NQ (count_of c s))%Q).
      + rewrite sumq_map_plus, sum_indicator, IH by (intros y Hy; apply Hr; now right).
        destruct (Hr x (or_introl eq_refl)) as [H1 H2].
        destruct ((from <=? x) && (x <? from + N.of_nat len)) eqn:E; [|lia].
        cbn [map sumq fold_right]. reflexivity.
      + intros c _. rewrite count_of_cons, NQ_add. ring.
  Qed.
End Buckets.

Lemma Forall_firstn' : forall (P : N -> Prop) a (l : list N), Forall P l -> Forall P (firstn a l).
Proof.
  intros P a; induction a as [|a IH]; intros l H; [constructor|].
  destruct l as [|x l]; [constructor|]. inversion H; subst. cbn [firstn]. constructor; auto.
Qed.
Lemma Forall_skipn' : forall (P : N -> Prop) b (l : list N), Forall P l -> Forall P (skipn b l).
Proof.
  intros P b; induction b as [|b IH]; intros l H; [exact H|].
  destruct l as [|x l]; [constructor|]. inversion H; subst. cbn [skipn]. auto.
Qed.
Lemma Forall_clip : forall (P : N -> Prop) a b (l : list N), Forall P l -> Forall P (firstn a (skipn b l)).
Proof. intros. now apply Forall_firstn', Forall_skipn'. Qed.

(* C16_math_deviation: compute_deviation over the histogram = mean absolute deviation over the byte sequence *)
Lemma deviation_bytes : forall s mu, Forall (fun b => b < 256) s ->
  compute_deviation (distribution_from_bytes s) mu = of_opt_f (deviation_spec s mu).
Proof.
  intros s mu Hf. unfold compute_deviation, deviation_spec.
  rewrite counters_histogram, nb_values_bytes by assumption.
  destruct s as [|x r]; [reflexivity|].
  remember (x :: r) as s eqn:Es.
  assert (Hn : nlen s =? 0 = false) by (subst s; unfold nlen; cbn [length]; lia).
  rewrite Hn. rewrite Es at 1. cbv iota. rewrite <- Es at 1.
    unfold of_opt_f. f_equal. unfold fq. f_equal. apply Qred_complete. unfold qdiv_n.
    apply Qmult_comp; [|reflexivity].
    unfold histogram, all_bytes. rewrite enumerate_map_upto.
    rewrite sumq_filter.
    + rewrite map_map. cbn [fst snd].
      apply (bucket_sum (fun c => Qabs (NQ c - mu)) s 256 0).
      intros y Hy. rewrite Forall_forall in Hf. specialize (Hf y Hy). lia.
    + intros [c n] Hc. cbn [fst snd] in *. assert (n = 0) as -> by lia. unfold NQ. cbn. ring.
Qed.

(* ------------------------------------------------------------------ 4. calls over (offset, size) of a byte slice *)
Lemma on_range_clip : forall S (cb : S -> list N -> S) l o n s,
  (0 <= o <= i64max)%Z -> (0 <= n <= i64max)%Z ->
  on_range cb (Direct l) (Z.to_N o) (Z.to_N o + Z.to_N n) s =
    match clip_direct l o n with Some bytes => OrOk (cb s bytes) | None => OrNone end.
Proof.
  intros S cb l o n s Ho Hn. unfold on_range. rewrite on_range_direct by lia. unfold clip_direct.
  destruct (o <? 0)%Z eqn:E1; [lia|]. destruct (n <? 0)%Z eqn:E2; [lia|]. cbn [orb].
  destruct (Z.of_N (nlen l) <=? o)%Z eqn:E3; destruct (nlen l <=? Z.to_N o) eqn:E4; try lia; [reflexivity|].
  f_equal. f_equal. f_equal; [lia|f_equal; lia].
Qed.

Lemma clip_none_neg : forall l o n, (o < 0)%Z \/ (n < 0)%Z -> clip_direct l o n = None.
Proof.
  intros l o n H. unfold clip_direct.
  destruct (o <? 0)%Z eqn:E1; [reflexivity|]. destruct (n <? 0)%Z eqn:E2; [reflexivity|lia].
Qed.

Lemma clip_forall : forall (P : N -> Prop) l o n bytes, Forall P l -> clip_direct l o n = Some bytes -> Forall P bytes.
Proof.
  intros P l o n bytes Hf Hc. unfold clip_direct in Hc.
  destruct ((o <? 0)%Z || (n <? 0)%Z || (Z.of_N (nlen l) <=? o)%Z); [discriminate|].
  injection Hc as <-. now apply Forall_clip.
Qed.

Lemma clip_length : forall l o n bytes, clip_direct l o n = Some bytes -> nlen bytes <= nlen l.
Proof.
  intros l o n bytes Hc. unfold clip_direct in Hc.
  destruct ((o <? 0)%Z || (n <? 0)%Z || (Z.of_N (nlen l) <=? o)%Z); [discriminate|].
  injection Hc as <-. rewrite nlen_firstn, nlen_skipn. lia.
Qed.

Lemma distribution_direct : forall l o n, (o <= i64max)%Z -> (n <= i64max)%Z ->
  distribution_zz (Direct l) o n =
    match clip_direct l o n with Some bytes => DOk (distribution_from_bytes bytes) | None => DNone end.
Proof.
  intros l o n Ho Hn. unfold distribution_zz, to_usize.
  destruct (o <? 0)%Z eqn:E1; [now rewrite clip_none_neg by lia|].
  destruct (n <? 0)%Z eqn:E2; [now rewrite clip_none_neg by lia|].
  unfold distribution, checked_add, umax. unfold i64max in *.
  destruct (Z.to_N o + Z.to_N n <=? 18446744073709551615) eqn:E3; [|lia].
  rewrite on_range_clip by (unfold i64max; lia).
  destruct (clip_direct l o n); reflexivity.
Qed.

Lemma compute_from_mem_direct : forall d l o n, (o <= i64max)%Z -> (n <= i64max)%Z ->
  compute_from_mem d (Direct l) o n =
    match clip_direct l o n with Some bytes => compute_from_bytes d bytes | None => RUndef end.
Proof.
  intros d l o n Ho Hn. unfold compute_from_mem.
  destruct (o <? 0)%Z eqn:E1; [rewrite start_end_neg, clip_none_neg by lia; reflexivity|].
  destruct (n <? 0)%Z eqn:E2; [rewrite start_end_neg, clip_none_neg by lia; reflexivity|].
  rewrite start_end_total by (unfold i64max in *; lia).
  rewrite on_range_clip by (unfold i64max in *; lia).
  destruct (clip_direct l o n); reflexivity.
Qed.

Lemma sum_list_bound : forall l, Forall (fun b => b < 256) l -> sum_list l <= 255 * nlen l.
Proof.
  unfold sum_list. induction l as [|x l IH]; intros H; [unfold nlen; cbn; lia|].
  inversion H; subst. specialize (IH H3). cbn [fold_right]. unfold nlen in *. cbn [length]. lia.
Qed.

(* the continuations of count / percentage on a histogram *)
Lemma count_k : forall l b, Forall (fun x => x < 256) l ->
  match counters_get (counters (distribution_from_bytes l)) b with Some v => RInt (Z.of_N v) | None => RUndef end
  = of_opt_z (count_spec b l).
Proof.
  intros l b Hf. rewrite counters_histogram by assumption. unfold count_spec.
  destruct (256 <=? b) eqn:E; [now rewrite histogram_get_high by lia|now rewrite histogram_get by lia].
Qed.

Lemma percentage_k : forall l b, Forall (fun x => x < 256) l ->
  match counters_get (counters (distribution_from_bytes l)) b with
  | Some v => if nb_values (distribution_from_bytes l) =? 0 then RUndef
              else RFloat (fq (qdiv_n (NQ v) (nb_values (distribution_from_bytes l))))
  | None => RUndef
  end = of_opt_f (percentage_spec b l).
Proof.
  intros l b Hf. rewrite counters_histogram, nb_values_bytes by assumption. unfold percentage_spec.
  destruct (256 <=? b) eqn:E; [now rewrite histogram_get_high by lia|]. rewrite histogram_get by lia.
  destruct l as [|x r]; [reflexivity|].
  destruct (nlen (x :: r) =? 0) eqn:E3; [unfold nlen in E3; cbn in E3; lia|reflexivity].
Qed.

(* C16_math_ranges: every math call over (offset, size) of a byte slice = its specification on the clipped bytes *)
Lemma math_ranges : forall mem o n c,
  Forall (fun x => x < 256) mem -> 255 * nlen mem <= umax -> (o <= i64max)%Z -> (n <= i64max)%Z ->
  (forall f, In f [MEntropy; MMean; MSerial; MMonte; MMode] ->
     snd (model_call (Direct mem) c f [AInt o; AInt n]) = spec_call (Direct mem) f [AInt o; AInt n])
  /\ (forall mu, snd (model_call (Direct mem) c MDeviation [AInt o; AInt n; AFlt mu])
                 = spec_call (Direct mem) MDeviation [AInt o; AInt n; AFlt mu])
  /\ (forall b f, In f [MCount; MPercentage] ->
        snd (model_call (Direct mem) c f [AInt b; AInt o; AInt n]) = spec_call (Direct mem) f [AInt b; AInt o; AInt n]).
Proof.
  intros mem o n c Hf Hsz Ho Hn.
  assert (Hclip : forall bytes, clip_direct mem o n = Some bytes ->
            Forall (fun x => x < 256) bytes /\ sum_list bytes <= umax /\ nlen bytes <= umax).
  { intros bytes Hc. pose proof (clip_forall _ _ _ _ _ Hf Hc) as Hb. pose proof (clip_length _ _ _ _ Hc) as Hl.
    pose proof (sum_list_bound bytes Hb). repeat split; [assumption|lia|lia]. }
  repeat split.
  - intros f Hin. cbn in Hin.
    destruct Hin as [<-|[<-|[<-|[<-|[<-|[]]]]]]; cbn [model_call snd spec_call spec_data spec_range whole_or_range];
      unfold entropy_call, digest_call, mode_call; cbn [dist_of_args];
      rewrite ?distribution_direct, ?compute_from_mem_direct by assumption;
      destruct (clip_direct mem o n) as [bytes|] eqn:Ec; cbn [with_dist]; try reflexivity;
      destruct (Hclip bytes eq_refl) as (Hb & Hs & Hl).
    + now apply entropy_bytes.
    + now apply mean_bytes.
    + apply scc_bytes.
    + apply monte_bytes.
    + now apply mode_call_dist.
  - intros mu. cbn [model_call snd spec_call spec_data spec_range]. unfold deviation_call.
    rewrite distribution_direct by assumption.
    destruct (clip_direct mem o n) as [bytes|] eqn:Ec; cbn [with_dist]; [|reflexivity].
    destruct (Hclip bytes eq_refl) as (Hb & Hs & Hl). now apply deviation_bytes.
  - intros b f Hin. cbn in Hin.
    destruct Hin as [<-|[<-|[]]]; cbn [model_call snd spec_call whole_or_range spec_range];
      unfold count_call, percentage_call, to_usize; cbn [dist_of_args];
      (destruct (b <? 0)%Z eqn:Eb; [reflexivity|]);
      rewrite distribution_direct by assumption;
      destruct (clip_direct mem o n) as [bytes|] eqn:Ec; cbn [with_dist]; try reflexivity;
      destruct (Hclip bytes eq_refl) as (Hb & Hs & Hl).
    + now apply count_k.
    + now apply percentage_k.
Qed.

(* the same calls on a literal string *)
Lemma math_literals : forall m s c, Forall (fun x => x < 256) s -> sum_list s <= umax -> nlen s <= umax ->
  (forall f, In f [MEntropy; MMean; MSerial; MMonte] ->
     snd (model_call m c f [AStr s]) = spec_call m f [AStr s])
  /\ (forall mu, snd (model_call m c MDeviation [AStr s; AFlt mu]) = spec_call m MDeviation [AStr s; AFlt mu]).
Proof.
  intros m s c Hf Hs Hl. split.
  - intros f Hin. cbn in Hin.
    destruct Hin as [<-|[<-|[<-|[<-|[]]]]]; cbn [model_call snd spec_call spec_data];
      unfold entropy_call, digest_call.
    + now apply entropy_bytes.
    + now apply mean_bytes.
    + apply scc_bytes.
    + apply monte_bytes.
  - intros mu. cbn [model_call snd spec_call spec_data]. unfold deviation_call. now apply deviation_bytes.
Qed.

(* ------------------------------------------------------------------ 5. hash digests over any slicing *)
Lemma digest_fold_concat : forall d, streaming d -> (forall st, d_update d st [] = st) ->
  forall slices st, fold_left (d_update d) slices st = d_update d st (concat slices).
Proof.
  intros d Hs Hn slices; induction slices as [|a r IH]; intros st; cbn [fold_left concat]; [now rewrite Hn|].
  now rewrite IH, Hs.
Qed.

(* C16_checksum_crc_slices *)
Lemma checksum_crc_slices : forall slices,
  d_finalize checksum_d (fold_left (d_update checksum_d) slices (d_init checksum_d))
    = RInt (Z.of_N (checksum32_ref (concat slices)))
  /\ (Forall (fun b => b < 256) (concat slices) ->
      d_finalize crc_d (fold_left (d_update crc_d) slices (d_init crc_d)) = RInt (Z.of_N (crc32_ref (concat slices)))).
Proof.
  intros slices. split.
  - rewrite (digest_fold_concat checksum_d checksum_streaming) by reflexivity. apply checksum32_correct.
  - intros Hf. rewrite (digest_fold_concat crc_d crc_streaming) by reflexivity.
    now apply Proofs.ModFuncsCrc.crc32_correct.
Qed.

(* crc32 / checksum32 over (offset, size) of a byte slice = reference of the clipped bytes *)
Lemma hash_int_ranges : forall mem o n c, Forall (fun x => x < 256) mem -> (o <= i64max)%Z -> (n <= i64max)%Z ->
  snd (model_call (Direct mem) c HCrc32 [AInt o; AInt n]) = spec_call (Direct mem) HCrc32 [AInt o; AInt n]
  /\ snd (model_call (Direct mem) c HChecksum32 [AInt o; AInt n]) = spec_call (Direct mem) HChecksum32 [AInt o; AInt n].
Proof.
  intros mem o n c Hf Ho Hn. cbn [model_call snd spec_call spec_data spec_range].
  rewrite !hash_range by assumption. unfold clip_direct.
  destruct ((o <? 0)%Z || (n <? 0)%Z || (Z.of_N (nlen mem) <=? o)%Z); [split; reflexivity|].
  split; [apply Proofs.ModFuncsCrc.crc32_correct; now apply Forall_clip|apply checksum32_correct].
Qed.

(* ------------------------------------------------------------------ 6. math calls over fragmented memory *)
Lemma collect_bounds : forall (P : N -> Prop) rs pos want t,
  collect rs pos want = Some t -> Forall P (flat rs) -> Forall P t /\ nlen t <= nlen (flat rs).
Proof.
  intros P rs; induction rs as [|r rs IH]; intros pos want t Hc Hf; cbn [collect] in Hc.
  - injection Hc as <-. split; [constructor|unfold nlen; cbn; lia].
  - unfold flat in *. cbn [map concat] in *. fold (flat rs) in *. apply Forall_app in Hf as [Hd Hr].
    rewrite nlen_app.
    assert (Ha : Forall P (avail r) /\ nlen (avail r) <= nlen (rg_data r)).
    { unfold avail. split; [now apply Forall_firstn'|rewrite nlen_firstn; lia]. }
    destruct Ha as [Ha1 Ha2].
    destruct (negb (rg_start r =? pos)); [discriminate|].
    destruct (rg_len r =? 0).
    { destruct (IH _ _ _ Hc Hr) as [H1 H2]. split; [assumption|lia]. }
    destruct (rg_fail r); [discriminate|].
    destruct (want <=? nlen (avail r)).
    { injection Hc as <-. unfold takeN. split; [now apply Forall_firstn'|rewrite nlen_firstn; lia]. }
    destruct (is_short r).
    { injection Hc as <-. split; [assumption|lia]. }
    destruct (collect rs (pos + rg_len r) (want - rg_len r)) as [t'|] eqn:Ec; [|discriminate].
    injection Hc as <-. destruct (IH _ _ _ Ec Hr) as [H1 H2].
    split; [apply Forall_app; now split|rewrite nlen_app; lia].
Qed.

Lemma spec_frag_bounds : forall (P : N -> Prop) rs start n t,
  spec_frag rs start n = Some t -> Forall P (flat rs) -> Forall P t /\ nlen t <= nlen (flat rs).
Proof.
  intros P rs; induction rs as [|r rs IH]; intros start n t Hc Hf; cbn [spec_frag] in Hc; [discriminate|].
  unfold flat in *. cbn [map concat] in *. fold (flat rs) in *. apply Forall_app in Hf as [Hd Hr].
  rewrite nlen_app.
  destruct (start <? rg_start r); [discriminate|].
  destruct (start <? rg_start r + rg_len r).
  - destruct (rg_fail r); [discriminate|].
    set (a := skipn (N.to_nat (start - rg_start r)) (avail r)) in *.
    assert (Ha : Forall P a /\ nlen a <= nlen (rg_data r)).
    { unfold a, avail. split; [now apply Forall_skipn', Forall_firstn'|rewrite nlen_skipn, nlen_firstn; lia]. }
    destruct Ha as [Ha1 Ha2].
    destruct a as [|a0 a'] eqn:Ea; [discriminate|]. rewrite <- Ea in *.
    destruct (n <=? nlen a).
    { injection Hc as <-. unfold takeN. split; [now apply Forall_firstn'|rewrite nlen_firstn; lia]. }
    destruct (is_short r).
    { injection Hc as <-. split; [assumption|lia]. }
    destruct (collect rs (rg_start r + rg_len r) (n - nlen a)) as [t'|] eqn:Ec; [|discriminate].
    injection Hc as <-. destruct (collect_bounds P _ _ _ _ Ec Hr) as [H1 H2].
    split; [apply Forall_app; now split|rewrite nlen_app; lia].
  - destruct (IH _ _ _ Hc Hr) as [H1 H2]. split; [assumption|lia].
Qed.

Lemma on_range_no_refetch : forall S (cb : S -> list N -> S) rs a b s, on_range cb (Frag false rs) a b s = OrNone.
Proof. intros. unfold on_range, on_range_gen. destruct (b <? a); reflexivity. Qed.

Lemma spec_range_frag : forall refetch rs o n, (0 <= o)%Z -> (0 <= n)%Z ->
  spec_range (Frag refetch rs) o n = if refetch then spec_frag rs (Z.to_N o) (Z.to_N n) else None.
Proof.
  intros refetch rs o n Ho Hn. unfold spec_range.
  destruct (o <? 0)%Z eqn:E1; [lia|]. destruct (n <? 0)%Z eqn:E2; [lia|]. destruct refetch; reflexivity.
Qed.

Lemma spec_range_neg : forall m o n, (o < 0)%Z \/ (n < 0)%Z -> spec_range m o n = None.
Proof.
  intros m o n H. destruct m as [l|refetch rs]; cbn [spec_range]; [now apply clip_none_neg|].
  destruct (o <? 0)%Z eqn:E1; [reflexivity|]. destruct (n <? 0)%Z eqn:E2; [reflexivity|lia].
Qed.

(* a MathDigest whose streaming law holds on the states reachable from its initial state *)
Lemma compute_from_mem_frag : forall d inv, mstreaming d inv -> inv (md_init d) ->
  (forall st, inv st -> md_update d st [] = st) ->
  forall refetch rs o n, regions_ok rs -> (o <= i64max)%Z -> (n <= i64max)%Z ->
  compute_from_mem d (Frag refetch rs) o n =
    match spec_range (Frag refetch rs) o n with Some t => compute_from_bytes d t | None => RUndef end.
Proof.
  intros d inv Hs Hi Hnil refetch rs o n Hok Ho Hn. unfold compute_from_mem.
  destruct (o <? 0)%Z eqn:E1; [rewrite start_end_neg, spec_range_neg by lia; reflexivity|].
  destruct (n <? 0)%Z eqn:E2; [rewrite start_end_neg, spec_range_neg by lia; reflexivity|].
  rewrite start_end_total by (unfold i64max in *; lia). rewrite spec_range_frag by lia.
  destruct refetch; [|now rewrite on_range_no_refetch].
  assert (Happ : forall s a b, inv s -> md_update d (md_update d s a) b = md_update d s (a ++ b))
    by (intros s a b Hs'; now destruct (Hs s a b Hs')).
  assert (Hinv : forall s a, inv s -> inv (md_update d s a)) by (intros s a Hs'; now destruct (Hs s a [] Hs')).
  rewrite (on_range_frag_inv _ (md_update d) inv Happ Hinv Hnil) by (assumption || lia).
  replace (Z.to_N o + Z.to_N n - Z.to_N o) with (Z.to_N n) by lia.
  destruct (spec_frag rs (Z.to_N o) (Z.to_N n)); reflexivity.
Qed.

Lemma dist_update_nil : forall st, dist_update st [] = st.
Proof. intros [cs n]. unfold dist_update. cbn. f_equal. unfold nlen. cbn. lia. Qed.

Lemma distribution_frag : forall refetch rs o n, regions_ok rs -> (o <= i64max)%Z -> (n <= i64max)%Z ->
  distribution_zz (Frag refetch rs) o n =
    match spec_range (Frag refetch rs) o n with Some t => DOk (distribution_from_bytes t) | None => DNone end.
Proof.
  intros refetch rs o n Hok Ho Hn. unfold distribution_zz, to_usize.
  destruct (o <? 0)%Z eqn:E1; [now rewrite spec_range_neg by lia|].
  destruct (n <? 0)%Z eqn:E2; [now rewrite spec_range_neg by lia|].
  rewrite spec_range_frag by lia.
  unfold distribution, checked_add, umax. unfold i64max in *.
  destruct (Z.to_N o + Z.to_N n <=? 18446744073709551615) eqn:E3; [|lia].
  destruct refetch; [|now rewrite on_range_no_refetch].
  rewrite (on_range_frag _ dist_update dist_streaming dist_update_nil) by (assumption || lia).
  replace (Z.to_N o + Z.to_N n - Z.to_N o) with (Z.to_N n) by lia.
  destruct (spec_frag rs (Z.to_N o) (Z.to_N n)); reflexivity.
Qed.

Lemma scc_update_nil : forall st, scc_update st [] = st.
Proof. intros st. destruct st. unfold scc_update. cbn. f_equal. unfold nlen. cbn. lia. Qed.

Lemma mc_update_nil : forall st, mc_inv st -> mc_update st [] = st.
Proof.
  intros st Hi. unfold mc_inv in Hi. rewrite mc_update_feed by assumption. rewrite app_nil_r.
  rewrite mc_chunks_short by assumption. destruct st; reflexivity.
Qed.

Definition mean_inv (st : md_state mean_d) : Prop := snd st <= umax.
Lemma mean_streaming_inv : mstreaming mean_d mean_inv.
Proof.
  intros st a b Hi. split; [now destruct (mean_streaming st a b I)|].
  destruct st as [s k]. unfold mean_inv. cbn. unfold sat_add. lia.
Qed.
Lemma mean_init_inv : mean_inv (md_init mean_d).
Proof. unfold mean_inv, umax. cbn. lia. Qed.
Lemma mean_update_nil : forall st, mean_inv st -> md_update mean_d st [] = st.
Proof.
  intros [s k] Hi. unfold mean_inv in Hi. cbn in *. f_equal. unfold sat_add, nlen. cbn [length]. lia.
Qed.

(* C16_math_fragmented: every math call over (offset, size) of a fragmented memory = its specification on the bytes
   RangeSpec.spec_frag describes (undefined when the scan mode forbids refetching) *)
Lemma math_fragmented : forall refetch rs o n c,
  regions_ok rs -> Forall (fun x => x < 256) (flat rs) -> 255 * nlen (flat rs) <= umax ->
  (o <= i64max)%Z -> (n <= i64max)%Z ->
  let m := Frag refetch rs in
  (forall f, In f [MEntropy; MMean; MSerial; MMonte; MMode] ->
     snd (model_call m c f [AInt o; AInt n]) = spec_call m f [AInt o; AInt n])
  /\ (forall mu, snd (model_call m c MDeviation [AInt o; AInt n; AFlt mu]) = spec_call m MDeviation [AInt o; AInt n; AFlt mu])
  /\ (forall b f, In f [MCount; MPercentage] ->
        snd (model_call m c f [AInt b; AInt o; AInt n]) = spec_call m f [AInt b; AInt o; AInt n]).
Proof.
  intros refetch rs o n c Hok Hf Hsz Ho Hn m.
  assert (Hclip : forall bytes, spec_range m o n = Some bytes ->
            Forall (fun x => x < 256) bytes /\ sum_list bytes <= umax /\ nlen bytes <= umax).
  { intros bytes Hc. unfold m, spec_range in Hc.
    destruct ((o <? 0)%Z || (n <? 0)%Z || negb refetch); [discriminate|].
    destruct (spec_frag_bounds _ _ _ _ _ Hc Hf) as [Hb Hl].
    pose proof (sum_list_bound bytes Hb). repeat split; [assumption|lia|lia]. }
  assert (Hmean := compute_from_mem_frag mean_d _ mean_streaming_inv mean_init_inv mean_update_nil).
  repeat split.
  - intros f Hin. cbn in Hin.
    destruct Hin as [<-|[<-|[<-|[<-|[<-|[]]]]]]; cbn [model_call snd spec_call spec_data whole_or_range];
      unfold entropy_call, digest_call, mode_call; cbn [dist_of_args]; unfold m in *.
    + rewrite distribution_frag by assumption.
      destruct (spec_range (Frag refetch rs) o n) as [bytes|] eqn:Ec; cbn [with_dist]; [|reflexivity].
      destruct (Hclip bytes eq_refl) as (Hb & Hs & Hl). now apply entropy_bytes.
    + rewrite Hmean by assumption.
      destruct (spec_range (Frag refetch rs) o n) as [bytes|] eqn:Ec; [|reflexivity].
      destruct (Hclip bytes eq_refl) as (Hb & Hs & Hl). now apply mean_bytes.
    + rewrite (compute_from_mem_frag scc_d _ scc_streaming I (fun st _ => scc_update_nil st)) by assumption.
      destruct (spec_range (Frag refetch rs) o n) as [bytes|] eqn:Ec; [|reflexivity]. apply scc_bytes.
    + assert (Hmi : mc_inv (md_init mc_d)) by (unfold mc_inv; cbn; lia).
      rewrite (compute_from_mem_frag mc_d _ mc_streaming Hmi mc_update_nil) by assumption.
      destruct (spec_range (Frag refetch rs) o n) as [bytes|] eqn:Ec; [|reflexivity]. apply monte_bytes.
    + rewrite distribution_frag by assumption.
      destruct (spec_range (Frag refetch rs) o n) as [bytes|] eqn:Ec; cbn [with_dist]; [|reflexivity].
      destruct (Hclip bytes eq_refl) as (Hb & Hs & Hl). now apply mode_call_dist.
  - intros mu. cbn [model_call snd spec_call spec_data]. unfold deviation_call, m in *.
    rewrite distribution_frag by assumption.
    destruct (spec_range (Frag refetch rs) o n) as [bytes|] eqn:Ec; cbn [with_dist]; [|reflexivity].
    destruct (Hclip bytes eq_refl) as (Hb & Hs & Hl). now apply deviation_bytes.
  - intros b f Hin. cbn in Hin.
    destruct Hin as [<-|[<-|[]]]; cbn [model_call snd spec_call whole_or_range];
      unfold count_call, percentage_call, to_usize, m in *; cbn [dist_of_args];
      (destruct (b <? 0)%Z eqn:Eb; [reflexivity|]);
      rewrite distribution_frag by assumption;
      (destruct (spec_range (Frag refetch rs) o n) as [bytes|] eqn:Ec; cbn [with_dist]; [|reflexivity]);
      destruct (Hclip bytes eq_refl) as (Hb & Hs & Hl).
    + now apply count_k.
    + now apply percentage_k.
Qed.
