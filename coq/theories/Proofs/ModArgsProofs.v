(* Proofs/ModArgsProofs.v — the entry-point / RVA kernels of Model/ModArgs.v never reach Panic, for all header
   contents (C09). *)
From Boreal Require Import Base.Prelude Base.Res Model.ModArgs.

Lemma sub_chk_ok a b : b <= a -> sub_chk a b = Ok (a - b).
Proof. intros H. unfold sub_chk. destruct (b <=? a) eqn:E; [reflexivity|lia]. Qed.

(* ---------------------------------------------------------------- entrypoint.rs, PE *)
Lemma nearest_section_le :
  forall secs va nva noff, nva <= va -> fst (nearest_section secs va nva noff) <= va.
Proof.
  induction secs as [|s rest IH]; intros va nva noff H; cbn [nearest_section fst]; [exact H|].
  destruct ((s_va s <=? va) && (nva <=? s_va s)) eqn:E.
  - apply IH. apply andb_true_iff in E as [E1 _]. lia.
  - apply IH. exact H.
Qed.

Lemma pe_rva_to_file_offset_no_panic :
  forall secs va, model_pe_rva_to_file_offset secs va <> Panic.
Proof.
  intros secs va. unfold model_pe_rva_to_file_offset.
  rewrite (sub_chk_ok va (fst (nearest_section (firstn 60 secs) va 0 0))).
  - cbn [bind]. discriminate.
  - apply nearest_section_le. lia.
Qed.

(* the unchecked subtraction is the only place that could panic, and the value it yields is the distance to the
   nearest section start at or below va *)
Lemma pe_rva_to_file_offset_value :
  forall secs va,
    model_pe_rva_to_file_offset secs va
    = Ok (checked_add64 (snd (nearest_section (firstn 60 secs) va 0 0))
                        (va - fst (nearest_section (firstn 60 secs) va 0 0))).
Proof.
  intros secs va. unfold model_pe_rva_to_file_offset.
  rewrite (sub_chk_ok va (fst (nearest_section (firstn 60 secs) va 0 0))); [reflexivity|].
  apply nearest_section_le. lia.
Qed.

Lemma pe_entry_point_no_panic : forall h memory, model_pe_entry_point h memory <> Panic.
Proof.
  intros h memory. unfold model_pe_entry_point.
  destruct (negb _); [discriminate|]. destruct memory; [discriminate|].
  rewrite pe_rva_to_file_offset_value. cbn [bind]. discriminate.
Qed.

(* ---------------------------------------------------------------- elf entry_point *)
Lemma range_hit_no_panic :
  forall addr size off entry r, range_hit addr size off entry = Some r -> exists v, r = Ok v.
Proof.
  intros addr size off entry r. unfold range_hit.
  destruct ((addr <=? entry) && (entry <? sat_add64 addr size)) eqn:E; [|discriminate].
  intros H; inversion H; subst r. apply andb_true_iff in E as [E1 _].
  rewrite sub_chk_ok by lia. cbn [bind]. eexists; reflexivity.
Qed.

Lemma elf_find_segment_no_panic : forall segs entry, elf_find_segment segs entry <> Panic.
Proof.
  induction segs as [|s rest IH]; intros entry; cbn [elf_find_segment]; [discriminate|].
  destruct (range_hit (p_vaddr s) (p_memsz s) (p_offset s) entry) as [r|] eqn:E; [|apply IH].
  destruct (range_hit_no_panic _ _ _ _ _ E) as [v ->]. cbn [bind]. discriminate.
Qed.

Lemma elf_find_section_no_panic : forall secs entry, elf_find_section secs entry <> Panic.
Proof.
  induction secs as [|s rest IH]; intros entry; cbn [elf_find_section]; [discriminate|].
  destruct ((sh_type s =? SHT_NULL) || (sh_type s =? SHT_NOBITS)); [apply IH|].
  destruct (range_hit (sh_addr s) (sh_size s) (sh_offset s) entry) as [r|] eqn:E; [|apply IH].
  destruct (range_hit_no_panic _ _ _ _ _ E) as [v ->]. cbn [bind]. discriminate.
Qed.

Lemma elf_entry_no_panic : forall h memory, model_elf_entry h memory <> Panic.
Proof.
  intros h memory. unfold model_elf_entry, model_elf_entry_point.
  destruct memory; [discriminate|].
  destruct (e_type h =? ET_EXEC); [apply elf_find_segment_no_panic|apply elf_find_section_no_panic].
Qed.

(* a hit lies inside the segment: the file offset is p_offset + (entry - p_vaddr), saturated *)
Lemma range_hit_value :
  forall addr size off entry r,
    range_hit addr size off entry = Some r ->
    addr <= entry /\ entry < sat_add64 addr size /\ r = Ok (sat_add64 (entry - addr) off).
Proof.
  intros addr size off entry r. unfold range_hit.
  destruct ((addr <=? entry) && (entry <? sat_add64 addr size)) eqn:E; [|discriminate].
  intros H; inversion H; subst r. apply andb_true_iff in E as [E1 E2].
  rewrite sub_chk_ok by lia. cbn [bind]. repeat split; lia.
Qed.

(* ---------------------------------------------------------------- pe/utils.rs *)
Lemma adjusted_range_no_panic :
  forall s realign, exists off, get_adjusted_section_file_range s realign = Ok (off, s_rawsize s) /\ off <= s_raw s.
Proof.
  intros s realign. unfold get_adjusted_section_file_range. destruct realign.
  - rewrite sub_chk_ok.
    + cbn [bind]. eexists; split; [reflexivity|lia].
    + apply N.mod_le. discriminate.
  - cbn [bind]. eexists; split; [reflexivity|lia].
Qed.

Lemma get_file_range_at_no_panic : forall secs realign va, get_file_range_at secs realign va <> Panic.
Proof.
  induction secs as [|s rest IH]; intros realign va; cbn [get_file_range_at]; [discriminate|].
  destruct (va <? s_va s); [apply IH|].
  destruct (adjusted_range_no_panic s realign) as [off [-> _]]. cbn [bind].
  destruct (N.max (s_vsize s) (s_rawsize s) <=? va - s_va s); [apply IH|].
  destruct (va - s_va s <? s_rawsize s) eqn:E; [|apply IH].
  destruct (checked_add32 off (va - s_va s)); [|apply IH].
  rewrite sub_chk_ok by lia. cbn [bind]. discriminate.
Qed.

Lemma va_to_file_offset_inner_no_panic :
  forall secs realign va, va_to_file_offset_inner secs realign va <> Panic.
Proof.
  intros secs realign va. unfold va_to_file_offset_inner.
  pose proof (get_file_range_at_no_panic secs realign va) as H.
  destruct (get_file_range_at secs realign va) as [[[off rem]|]| | |]; cbn [bind]; try discriminate; try contradiction.
  destruct (min_va secs); discriminate.
Qed.

Lemma va_to_file_offset_no_panic :
  forall mem_len secs realign va, va_to_file_offset mem_len secs realign va <> Panic.
Proof.
  intros mem_len secs realign va. unfold va_to_file_offset.
  pose proof (va_to_file_offset_inner_no_panic secs realign va) as H.
  destruct (va_to_file_offset_inner secs realign va); cbn [bind]; try discriminate; contradiction.
Qed.

Lemma rva_to_offset_no_panic : forall mem_len h arg, model_rva_to_offset mem_len h arg <> Panic.
Proof.
  intros mem_len h arg. unfold model_rva_to_offset.
  destruct ((arg <? 0)%Z || (Z.of_N u32max <? arg)%Z); [discriminate|apply va_to_file_offset_no_panic].
Qed.

(* the result of va_to_file_offset is an offset inside the scanned bytes *)
Lemma va_to_file_offset_in_bounds :
  forall mem_len secs realign va v, va_to_file_offset mem_len secs realign va = Ok (Some v) -> v < mem_len.
Proof.
  intros mem_len secs realign va v. unfold va_to_file_offset.
  destruct (va_to_file_offset_inner secs realign va) as [[x|]| | |]; cbn [bind]; try discriminate.
  destruct (mem_len <=? u32max); [|discriminate].
  destruct (x <? mem_len) eqn:E; [|discriminate]. intros H; inversion H; subst. lia.
Qed.

Lemma max_section_file_offset_no_panic :
  forall secs mx, forallb section_u32 secs = true -> max_section_file_offset secs mx <> Panic.
Proof.
  induction secs as [|s rest IH]; intros mx H; cbn [max_section_file_offset]; [discriminate|].
  cbn [forallb] in H. apply andb_true_iff in H as [Hs Hr].
  unfold section_u32 in Hs. repeat (apply andb_true_iff in Hs as [Hs ?]).
  unfold add_chk64. destruct (s_raw s + s_rawsize s <=? u64max) eqn:E.
  - cbn [bind]. apply IH. exact Hr.
  - unfold u32max, u64max in *. lia.
Qed.

(* ---------------------------------------------------------------- version-info walks: termination *)
(* after the fix the walk ends within (end - offset) + 1 iterations, whatever lengths the file declares *)
Lemma walk_fixed_terminates :
  forall read fuel offset end_, (N.to_nat (end_ - offset) < fuel)%nat -> walk_fixed read fuel offset end_ <> None.
Proof.
  intros read fuel; induction fuel as [|fuel IH]; intros offset end_ H; [lia|].
  cbn [walk_fixed]. destruct (offset <? end_) eqn:E; [|discriminate].
  destruct (read offset) as [len|]; [|discriminate].
  destruct (0 <? len) eqn:El; [|discriminate].
  apply IH. lia.
Qed.

(* finding C09-version-info-zero-length: on the pinned tree a child that declares length 0 never advances the walk;
   no amount of fuel suffices *)
Lemma walk_pinned_refuted :
  forall fuel, walk_pinned (fun _ => Some 0) fuel 0 1 = None.
Proof.
  induction fuel as [|fuel IH]; [reflexivity|].
  cbn [walk_pinned]. change (0 <? 1) with true. cbn iota. replace (0 + 0) with 0 by reflexivity. exact IH.
Qed.

(* on inputs whose children all declare positive lengths the two loops agree: the fix changes nothing else *)
Lemma walk_fixed_eq_pinned :
  forall read fuel offset end_,
    (forall o len, read o = Some len -> 0 < len) ->
    walk_fixed read fuel offset end_ = walk_pinned read fuel offset end_.
Proof.
  intros read fuel; induction fuel as [|fuel IH]; intros offset end_ H; [reflexivity|].
  cbn [walk_fixed walk_pinned]. destruct (offset <? end_); [|reflexivity].
  destruct (read offset) as [len|] eqn:E; [|reflexivity].
  pose proof (H _ _ E) as Hl. destruct (0 <? len) eqn:El; [apply IH; exact H|lia].
Qed.

(* ---------------------------------------------------------------- dotnet finalize: method ranges *)
Lemma index_loop_no_panic : forall count i len, i + N.of_nat count <= len -> index_loop count i len <> Panic.
Proof.
  induction count as [|c IH]; intros i len H; cbn [index_loop]; [discriminate|].
  destruct (i <? len) eqn:E; [apply IH; lia|lia].
Qed.

Lemma finalize_methods_fixed_no_panic :
  forall classes_rev last len, finalize_methods true classes_rev last len <> Panic.
Proof.
  induction classes_rev as [|[idx|] rest IH]; intros last len; cbn [finalize_methods]; [discriminate| |apply IH].
  destruct (idx <=? len) eqn:E; cbn [bind]; [|apply IH].
  pose proof (index_loop_no_panic (N.to_nat (N.min last len - idx)) idx len) as H.
  destruct (index_loop (N.to_nat (N.min last len - idx)) idx len); cbn [bind]; try discriminate; [apply IH|].
  exfalso. apply H; [lia|reflexivity].
Qed.

(* finding C09-dotnet-method-range: a class whose method list index exceeds the method count poisons the range of
   the class visited next *)
Lemma finalize_methods_pinned_refuted :
  finalize_methods false [Some 1000; Some 5] 29 29 = Panic.
Proof. vm_compute. reflexivity. Qed.

(* the repair is conservative: when every index is within the table, both loops do the same *)
Lemma finalize_methods_fix_conservative :
  forall classes_rev last len,
    last <= len -> Forall (fun o => match o with Some idx => idx <= len | None => True end) classes_rev ->
    finalize_methods true classes_rev last len = finalize_methods false classes_rev last len.
Proof.
  induction classes_rev as [|[idx|] rest IH]; intros last len Hl HF; cbn [finalize_methods]; [reflexivity| |].
  - inversion HF as [|? ? H0 Hr]; subst. replace (N.min last len) with last by lia.
    rewrite (IH idx len H0 Hr). reflexivity.
  - inversion HF as [|? ? H0 Hr]; subst. apply IH; assumption.
Qed.

(* ---------------------------------------------------------------- macho fat recursion *)
Lemma macho_nested_fixed : forall files fuel pos, macho_parse true files (S fuel) true pos = Some tt.
Proof. intros files fuel pos. cbn [macho_parse]. destruct (files pos); reflexivity. Qed.

(* after the fix two frames always suffice, whatever the arch offsets are *)
Lemma macho_parse_fixed_bounded :
  forall files pos fuel, macho_parse true files (S (S fuel)) false pos = Some tt.
Proof.
  intros files pos fuel. cbn [macho_parse]. destruct (files pos) as [|arches|]; try reflexivity.
  cbn [andb]. induction arches as [|a l IH]; [reflexivity|].
  change (macho_parse true files (S fuel) true a) with
    (match files a with MThin => Some tt | MOther => Some tt | MFat _ => Some tt end).
  destruct (files a); exact IH.
Qed.

(* finding C09-macho-fat-recursion: a fat file whose arch points at itself needs more frames than any stack has *)
Lemma fat_depth_pinned_refuted :
  forall fuel, macho_parse false (fun _ => MFat [0]) fuel false 0 = None
               /\ macho_parse false (fun _ => MFat [0]) fuel true 0 = None.
Proof.
  induction fuel as [|fuel [IH1 IH2]]; [split; reflexivity|].
  split; cbn [macho_parse andb]; rewrite IH2; reflexivity.
Qed.
