(* Proofs/WidenProofs.v — `widen_correct`: for a HIR without word boundaries, matching the widened HIR
   (boreal/src/matcher/widener.rs, Model/Widen.v) on the raw bytes is the same as matching the
   original HIR under the `wide` reading of the reference semantics (every consumed byte followed by
   a NUL): same ends, in the same priority order, from every offset of every input. *)
From Boreal Require Import Base.Prelude Spec.Regex Model.Widen Model.Validator
  Proofs.RegexBasics Proofs.RegexStruct.

(* ------------------------------------------------------------------ dedup *)
Lemma NoDup_filter_N (P : N -> bool) l : NoDup l -> NoDup (filter P l).
Proof.
  induction 1 as [|x r Hx Hr IH]; cbn [filter]; [constructor|].
  destruct (P x); [|exact IH]. constructor; [|exact IH]. intros H. apply filter_In in H as [H _]. auto.
Qed.

Lemma dedup_NoDup l : NoDup (dedup l).
Proof.
  induction l as [|x r IH]; cbn [dedup]; constructor.
  - intros H. apply filter_In in H as [_ H]. rewrite N.eqb_refl in H. discriminate.
  - apply NoDup_filter_N. exact IH.
Qed.

Lemma filter_id (P : N -> bool) l : (forall x, In x l -> P x = true) -> filter P l = l.
Proof.
  induction l as [|y r IH]; intros H; cbn [filter]; [reflexivity|].
  rewrite (H y (or_introl eq_refl)). f_equal. apply IH. intros x Hx. apply H. right. exact Hx.
Qed.

Lemma dedup_id l : NoDup l -> dedup l = l.
Proof.
  induction 1 as [|x r Hx Hr IH]; cbn [dedup]; [reflexivity|]. rewrite IH. f_equal.
  apply filter_id. intros y Hy. apply negb_true_iff, N.eqb_neq. intros ->. auto.
Qed.

Lemma dedup_idem l : dedup (dedup l) = dedup l.
Proof. apply dedup_id, dedup_NoDup. Qed.

Lemma bind_single a f : bind [a] f = dedup (f a).
Proof. unfold bind. cbn [flat_map]. rewrite app_nil_r. reflexivity. Qed.

Lemma bind_nil f : bind [] f = [].
Proof. reflexivity. Qed.

Lemma bind_ext l f g : (forall x, f x = g x) -> bind l f = bind l g.
Proof.
  intros H. unfold bind. f_equal. induction l as [|y r IH]; cbn [flat_map]; [reflexivity|]. rewrite H, IH. reflexivity.
Qed.

Lemma flat_map_single (l : list N) : flat_map (fun j => [j]) l = l.
Proof. induction l as [|y r IH]; cbn [flat_map app]; [reflexivity|]. rewrite IH. reflexivity. Qed.

Lemma bind_ret l : NoDup l -> bind l (fun j => [j]) = l.
Proof. intros H. unfold bind. rewrite flat_map_single. apply dedup_id. exact H. Qed.

(* ------------------------------------------------------------------ results have no repetition *)
Lemma step1_NoDup w p mem i : NoDup (step1 w p mem i).
Proof.
  unfold step1. destruct (byte_at mem i); [|constructor]. destruct (p n); [|constructor].
  destruct w; [destruct (is_nul_at mem (i + 1))|]; repeat constructor; intros [].
Qed.

Lemma with_self_NoDup g p more : NoDup (with_self g p more).
Proof. unfold with_self. destruct g; apply dedup_NoDup. Qed.

Lemma ends_NoDup fl mem h : forall i, NoDup (ends fl mem h i).
Proof.
  induction h using hir_ind2; intros i.
  - rewrite ends_alt. apply dedup_NoDup.
  - cbn [ends]. destruct (assert_ok _ _ _ _); repeat constructor. intros [].
  - cbn [ends]. apply step1_NoDup.
  - cbn [ends]. apply step1_NoDup.
  - rewrite ends_concat. destruct l as [|x r].
    + rewrite cat_ends_nil. repeat constructor. intros [].
    + rewrite cat_ends_cons. apply dedup_NoDup.
  - cbn [ends]. apply step1_NoDup.
  - cbn [ends]. repeat constructor. intros [].
  - cbn [ends]. apply step1_NoDup.
  - cbn [ends]. apply IHh.
  - cbn [ends]. apply NoDup_filter_N. unfold rep_ends.
    destruct k; try apply with_self_NoDup; cbn [rep_bounds]; apply dedup_NoDup.
Qed.

(* ------------------------------------------------------------------ extensionality of repetitions *)
Lemma sweep_ext f f' ps reach tbl : (forall p, f p = f' p) -> sweep f ps reach tbl = sweep f' ps reach tbl.
Proof.
  intros H. revert reach tbl. induction ps as [|p r IH]; intros reach tbl; cbn [sweep]; [reflexivity|].
  destruct (existsb _ reach); [rewrite H|]; apply IH.
Qed.

Lemma rep_ends_ext f f' k g n i : (forall p, f p = f' p) -> rep_ends f k g n i = rep_ends f' k g n i.
Proof.
  intros H. unfold rep_ends. destruct k; try (rewrite H; reflexivity);
    cbn [rep_bounds]; rewrite (sweep_ext f f' _ _ _ H); reflexivity.
Qed.

(* ------------------------------------------------------------------ the leaves *)
Definition is_leafb (h : hir) : bool :=
  match h with HLit _ | HMask _ _ _ | HClass _ | HDot => true | _ => false end.

Section Widen.
  Variable fl : rflags.
  Hypothesis Hw : wide fl = false.
  Let wfl : rflags := {| nocase := nocase fl; dot_all := dot_all fl; wide := true |}.
  Variable mem : list N.

  Lemma nul_test c : eq_nocase (nocase fl) 0 c = (c =? 0).
  Proof.
    unfold eq_nocase. change (swapcase 0) with 0. rewrite (N.eqb_sym 0 c).
    destruct (c =? 0); destruct (nocase fl); reflexivity.
  Qed.

  Lemma step1_splice p i K :
    bind (step1 false p mem i) (fun j => bind (step1 false (eq_nocase (nocase fl) 0) mem j) K)
    = bind (step1 true p mem i) K.
  Proof.
    unfold step1 at 1 3. destruct (byte_at mem i) as [b|]; [|reflexivity].
    destruct (p b); [|reflexivity].
    rewrite bind_single. unfold step1, is_nul_at.
    destruct (byte_at mem (i + 1)) as [c|]; [|reflexivity].
    rewrite nul_test. destruct (c =? 0); [|reflexivity].
    rewrite !bind_single. replace (i + 1 + 1) with (i + 2) by lia. apply dedup_idem.
  Qed.

  Lemma leaf_splice x i K :
    is_leafb x = true ->
    bind (ends fl mem x i) (fun j => bind (ends fl mem (HLit 0) j) K) = bind (ends wfl mem x i) K.
  Proof.
    destruct x; cbn [is_leafb]; try discriminate; intros _; cbn [ends]; rewrite Hw;
      cbn [wfl wide nocase dot_all]; apply step1_splice.
  Qed.

  (* ------------------------------------------------------------------ the visitor *)
  Definition wsingle (c : wctx) (x : hir) : hir := last (widen_in c x) HEmpty.

  Lemma widen_in_single c x :
    c <> WConcat \/ is_leafb x = false -> widen_in c x = [wsingle c x].
  Proof.
    intros H. unfold wsingle.
    destruct x; try reflexivity; try (destruct k; reflexivity);
      destruct c; try reflexivity; destruct H as [H|H]; try congruence; discriminate.
  Qed.

  Definition go_cat : list hir -> list hir :=
    fix go (l : list hir) : list hir := match l with [] => [] | x :: r => widen_in WConcat x ++ go r end.
  Definition go_alt : list hir -> list hir :=
    fix go (l : list hir) : list hir := match l with [] => [] | x :: r => widen_in WOther x ++ go r end.

  Lemma widen_in_concat c l : widen_in c (HConcat l) = [HConcat (go_cat l)].
  Proof. reflexivity. Qed.
  Lemma widen_in_alt c l : widen_in c (HAlt l) = [HAlt (go_alt l)].
  Proof. reflexivity. Qed.

  Lemma go_alt_map l : go_alt l = map (wsingle WOther) l.
  Proof.
    induction l as [|x r IH]; cbn [go_alt map]; [reflexivity|].
    rewrite widen_in_single by (left; discriminate). cbn [app]. f_equal. exact IH.
  Qed.

  (* what is proved of each node: its single-node widening has the same ends (B); spliced into a
     concatenation it behaves like the node under the wide reading (C) *)
  Definition widen_ok (x : hir) : Prop :=
    (forall c, c <> WConcat \/ is_leafb x = false ->
       forall i, ends fl mem (wsingle c x) i = ends wfl mem x i)
    /\ (forall G i, cat_ends fl mem (widen_in WConcat x ++ G) i = bind (ends wfl mem x i) (cat_ends fl mem G)).

  Lemma splice_of_single x :
    is_leafb x = false ->
    (forall i, ends fl mem (wsingle WConcat x) i = ends wfl mem x i) ->
    forall G i, cat_ends fl mem (widen_in WConcat x ++ G) i = bind (ends wfl mem x i) (cat_ends fl mem G).
  Proof.
    intros Hl HB G i. rewrite widen_in_single by (right; exact Hl). cbn [app].
    rewrite cat_ends_cons, HB. reflexivity.
  Qed.

  Lemma leaf_ok x : is_leafb x = true -> widen_ok x.
  Proof.
    intros Hl. split.
    - intros c [Hc|Hc]; [|congruence]. intros i.
      assert (E : ends fl mem (wsingle c x) i = cat_ends fl mem [x; HLit 0] i).
      { destruct x; cbn [is_leafb] in Hl; try discriminate; destruct c; try congruence; reflexivity. }
      rewrite E. rewrite cat_ends_cons.
      rewrite (bind_ext _ _ (fun j => bind (ends fl mem (HLit 0) j) (fun k => [k]))).
      2:{ intros j. rewrite cat_ends_cons. apply bind_ext. intros k. apply cat_ends_nil. }
      rewrite leaf_splice by exact Hl. apply bind_ret, ends_NoDup.
    - intros G i.
      assert (E : widen_in WConcat x = [x; HLit 0]).
      { destruct x; cbn [is_leafb] in Hl; try discriminate; reflexivity. }
      rewrite E. cbn [app]. rewrite cat_ends_cons.
      rewrite (bind_ext _ _ (fun j => bind (ends fl mem (HLit 0) j) (cat_ends fl mem G))).
      2:{ intros j. apply cat_ends_cons. }
      apply leaf_splice. exact Hl.
  Qed.

  Lemma nonleaf_ok x :
    is_leafb x = false ->
    (forall c i, ends fl mem (wsingle c x) i = ends wfl mem x i) -> widen_ok x.
  Proof.
    intros Hl HB. split; [intros c _ i; apply HB|]. apply splice_of_single; [exact Hl|apply HB].
  Qed.

  Theorem widen_node_ok : forall h, has_word_boundary h = false -> widen_ok h.
  Proof.
    induction h using hir_ind2; intros Hnb.
    - (* alternation *)
      apply nonleaf_ok; [reflexivity|]. intros c i. unfold wsingle. rewrite widen_in_alt. cbn [last].
      rewrite !ends_alt. f_equal. rewrite go_alt_map.
      cbn [has_word_boundary] in Hnb.
      induction H as [|x r Hx Hr IH]; cbn [map alt_ends]; [reflexivity|].
      apply orb_false_iff in Hnb as [Hnx Hnr].
      f_equal; [|apply IH; exact Hnr].
      apply (proj1 (Hx Hnx)). left. discriminate.
    - (* assertion *)
      apply nonleaf_ok; [reflexivity|]. intros c i.
      destruct k; cbn [has_word_boundary] in Hnb; try discriminate; unfold wsingle; cbn [widen_in last ends];
        rewrite Hw; reflexivity.
    - apply leaf_ok. reflexivity.
    - apply leaf_ok. reflexivity.
    - (* concatenation *)
      apply nonleaf_ok; [reflexivity|]. intros c i. unfold wsingle. rewrite widen_in_concat. cbn [last].
      rewrite !ends_concat. cbn [has_word_boundary] in Hnb. revert i.
      induction H as [|x r Hx Hr IH]; intros i; cbn [go_cat]; [reflexivity|].
      apply orb_false_iff in Hnb as [Hnx Hnr].
      rewrite (proj2 (Hx Hnx)). rewrite cat_ends_cons. apply bind_ext. intros j. apply IH. exact Hnr.
    - apply leaf_ok. reflexivity.
    - apply nonleaf_ok; [reflexivity|]. intros c i. reflexivity.
    - apply leaf_ok. reflexivity.
    - (* group *)
      apply nonleaf_ok; [reflexivity|]. intros c i. unfold wsingle. cbn [widen_in last ends].
      apply (proj1 (IHh Hnb)). left. discriminate.
    - (* repetition *)
      apply nonleaf_ok; [reflexivity|]. intros c i. unfold wsingle. cbn [widen_in last ends].
      f_equal. apply rep_ends_ext. intros p.
      apply (proj1 (IHh Hnb)). left. discriminate.
  Qed.

  Theorem widen_correct h :
    has_word_boundary h = false ->
    forall i, ends fl mem (widen_hir h) i = ends wfl mem h i.
  Proof.
    intros Hnb i. unfold widen_hir. apply (proj1 (widen_node_ok h Hnb) WTop). left. discriminate.
  Qed.
End Widen.

(* the validators of a wide string without word boundaries search the original HIR under the wide
   reading of the reference semantics *)
Lemma wide_dfa_fwd md h mt mem s lim :
  is_wide_mt mt = true -> has_word_boundary h = false ->
  dfa_fwd md h mt mem s lim = lf_end (wide_flags_of md) mem h s lim.
Proof.
  intros Hm Hb. unfold dfa_fwd, use_custom, hir_for. rewrite Hm, Hb, andb_false_r. cbn [andb].
  unfold lf_end. rewrite (widen_correct (flags_of md) eq_refl mem h Hb). reflexivity.
Qed.

Lemma find_ext_N (P Q : N -> bool) l : (forall x, P x = Q x) -> find P l = find Q l.
Proof. intros H. induction l as [|y r IH]; cbn [find]; [reflexivity|]. rewrite H, IH. reflexivity. Qed.

Lemma wide_dfa_rev md h mt mem lo e :
  is_wide_mt mt = true -> has_word_boundary h = false -> lo <= e ->
  dfa_rev md h mt mem lo e = rev_min_start (wide_flags_of md) mem h lo e.
Proof.
  intros Hm Hb Hle. unfold dfa_rev, use_custom, hir_for. rewrite Hm, Hb, andb_false_r. cbn [andb].
  replace (lo <=? e) with true by lia. unfold rev_min_start.
  apply find_ext_N. intros x. rewrite (widen_correct (flags_of md) eq_refl mem h Hb). reflexivity.
Qed.
