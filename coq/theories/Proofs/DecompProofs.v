(* Proofs/DecompProofs.v — theorem B of DESIGN §7 C02: the flat split of a pattern around ANY run of
   single-byte parts satisfies `Decomp` (glue and split), for every input.  Case-sensitive patterns
   (hex strings, regexes without nocase), plain reading. *)
From Boreal Require Import Base.Prelude Spec.Regex Model.Hir Model.Widen Model.Validator Model.Raw Model.HirScan
  Model.Decomp Proofs.RegexBasics Proofs.RegexStruct Proofs.HexScanProofs Proofs.ValidatorProofs.

Definition bytes_ok (mem : list N) : Prop := Forall (fun b => b < 256) mem.

(* ------------------------------------------------------------------ concatenation *)
Lemma cat_ends_app fl mem l1 l2 a b :
  In b (cat_ends fl mem (l1 ++ l2) a) <-> exists x, In x (cat_ends fl mem l1 a) /\ In b (cat_ends fl mem l2 x).
Proof.
  revert a. induction l1 as [|y r IH]; intros a.
  - cbn [app]. rewrite cat_ends_nil. split.
    + intros H. exists a. split; [left; reflexivity|exact H].
    + intros (x & [<-|[]] & H). exact H.
  - cbn [app]. rewrite !cat_ends_cons, bind_In. split.
    + intros (z & Hz & H). apply IH in H as (x & H1 & H2). exists x. split; [|exact H2].
      apply bind_In. eauto.
    + intros (x & H1 & H2). apply bind_In in H1 as (z & Hz & H1). exists z. split; [exact Hz|].
      apply IH. eauto.
Qed.

(* ------------------------------------------------------------------ single-byte nodes *)
Section Flat.
  Variable md : mods.
  Variable mem : list N.
  Hypothesis Hnc : m_nocase md = false.
  Let fl := flags_of md.
  Let da := m_dot_all md.

  Lemma step1_plain p i j :
    In j (step1 false p mem i) <-> exists b, byte_at mem i = Some b /\ p b = true /\ j = i + 1.
  Proof.
    unfold step1. destruct (byte_at mem i) as [b|].
    - destruct (p b) eqn:E.
      + split; [intros [<-|[]]; eauto|]. intros (b' & [= <-] & _ & ->). left. reflexivity.
      + split; [intros []|]. intros (b' & [= <-] & H & _). congruence.
    - split; [intros []|]. intros (b' & H & _). discriminate.
  Qed.

  Lemma leaf_ends x i j :
    is_leaf x = true ->
    (In j (ends fl mem x i) <-> exists b, byte_at mem i = Some b /\ leaf_mem da x b = true /\ j = i + 1).
  Proof.
    destruct x; cbn [is_leaf]; try discriminate; intros _; cbn [ends leaf_mem]; unfold fl, flags_of;
      cbn [wide nocase dot_all]; rewrite ?Hnc; rewrite step1_plain; try reflexivity.
    unfold eq_nocase. cbn [andb]. setoid_rewrite orb_false_r. reflexivity.
  Qed.

  (* a run of single-byte nodes matches exactly the strings it denotes, byte by byte *)
  Fixpoint run_match (r : list hir) (s : N) : Prop :=
    match r with
    | [] => True
    | x :: r' => exists b, byte_at mem s = Some b /\ leaf_mem da x b = true /\ run_match r' (s + 1)
    end.

  Lemma run_ends r s e :
    forallb is_leaf r = true ->
    (In e (cat_ends fl mem r s) <-> e = s + nlen r /\ run_match r s).
  Proof.
    revert s. induction r as [|x r IH]; intros s; cbn [forallb].
    - intros _. rewrite cat_ends_nil. cbn [run_match In]. unfold nlen. cbn [length]. split.
      + intros [<-|[]]. split; [lia|exact I].
      + intros [-> _]. left. lia.
    - intros H. apply andb_true_iff in H as [Hx Hr].
      rewrite cat_ends_cons, bind_In. cbn [run_match]. split.
      + intros (y & Hy & He). apply (leaf_ends x s y Hx) in Hy as (b & Hb & Hm & ->).
        apply (IH (s + 1) Hr) in He as [-> Hrm]. split; [unfold nlen; cbn [length]; lia|eauto].
      + intros [-> (b & Hb & Hm & Hrm)]. exists (s + 1). split.
        * apply (leaf_ends x s (s + 1) Hx). eauto.
        * apply (IH (s + 1) Hr). split; [unfold nlen; cbn [length]; lia|exact Hrm].
  Qed.

  (* ------------------------------------------------------------------ literals of the run *)
  Lemma skipn_byte_at s b :
    byte_at mem s = Some b -> skipn (N.to_nat s) mem = b :: skipn (N.to_nat (s + 1)) mem.
  Proof.
    unfold byte_at. replace (N.to_nat (s + 1)) with (S (N.to_nat s)) by lia.
    generalize (N.to_nat s) as k. intros k. revert mem. clear.
    induction k as [|k IH]; intros [|y m]; cbn [nth_error skipn]; try discriminate.
    - intros [= ->]. reflexivity.
    - intros H. rewrite (IH m H). reflexivity.
  Qed.

  Lemma skipn_none s : byte_at mem s = None -> skipn (N.to_nat s) mem = [].
  Proof.
    unfold byte_at. intros H. apply nth_error_None in H. apply skipn_all2. exact H.
  Qed.

  Lemma lit_at_cons b l s :
    lit_at false (b :: l) (skipn (N.to_nat s) mem) = true <->
    byte_at mem s = Some b /\ lit_at false l (skipn (N.to_nat (s + 1)) mem) = true.
  Proof.
    destruct (byte_at mem s) as [c|] eqn:E.
    - rewrite (skipn_byte_at s c E). cbn [lit_at]. rewrite andb_true_iff, N.eqb_eq. split.
      + intros [-> H]. auto.
      + intros [[= ->] H]. auto.
    - rewrite (skipn_none s E). cbn [lit_at]. split; [discriminate|intros [H _]; discriminate].
  Qed.

  Lemma leaf_bytes_In x b : In b (leaf_bytes da x) <-> leaf_mem da x b = true /\ b < 256.
  Proof. unfold leaf_bytes. rewrite filter_In, iota_In. intuition lia. Qed.

  Lemma expand_In r l :
    In l (expand da r) <-> Forall2 (fun x b => leaf_mem da x b = true /\ b < 256) r l.
  Proof.
    revert l. induction r as [|x r IH]; intros l; cbn [expand].
    - split; [intros [<-|[]]; constructor|]. intros H. inversion H. left. reflexivity.
    - rewrite in_flat_map. split.
      + intros (b & Hb & Hl). apply in_map_iff in Hl as (l' & <- & Hl'). constructor.
        * apply leaf_bytes_In. exact Hb.
        * apply IH. exact Hl'.
      + intros H. inversion H as [|? b ? l' Hb Hl']; subst. exists b. split.
        * apply leaf_bytes_In. exact Hb.
        * apply in_map. apply IH. exact Hl'.
  Qed.

  Hypothesis Hbytes : bytes_ok mem.

  Lemma byte_at_ok s b : byte_at mem s = Some b -> b < 256.
  Proof.
    unfold byte_at. intros H. apply nth_error_In in H. unfold bytes_ok in Hbytes.
    rewrite Forall_forall in Hbytes. auto.
  Qed.

  (* the run matches at s  <->  one of its literals occurs at s *)
  Lemma run_match_lit r s :
    run_match r s <-> exists l, In l (expand da r) /\ lit_at false l (skipn (N.to_nat s) mem) = true.
  Proof.
    revert s. induction r as [|x r IH]; intros s; cbn [run_match].
    - split; [intros _; exists []; split; [left; reflexivity|reflexivity]|trivial].
    - split.
      + intros (b & Hb & Hm & Hr). apply IH in Hr as (l & Hl & Hlit). exists (b :: l). split.
        * apply expand_In. constructor; [split; [exact Hm|eapply byte_at_ok; eauto]|apply expand_In; exact Hl].
        * apply lit_at_cons. auto.
      + intros (l & Hl & Hlit). apply expand_In in Hl. inversion Hl as [|? b ? l' [Hm _] Hl']; subst.
        apply lit_at_cons in Hlit as [Hb Hlit]. exists b. repeat split; try assumption.
        apply IH. exists l'. split; [apply expand_In; exact Hl'|exact Hlit].
  Qed.

  Lemma Forall2_len {A B} (R : A -> B -> Prop) l1 l2 : Forall2 R l1 l2 -> length l1 = length l2.
  Proof. induction 1; cbn [length]; congruence. Qed.

  Lemma expand_len r l : In l (expand da r) -> nlen l = nlen r.
  Proof.
    intros H. apply expand_In in H. unfold nlen. f_equal. symmetry. eapply Forall2_len; eauto.
  Qed.

  Lemma run_match_len r s : r <> [] -> run_match r s -> s + nlen r <= nlen mem.
  Proof.
    revert s. induction r as [|x r IH]; intros s Hne; [congruence|]. cbn [run_match].
    intros (b & Hb & _ & Hr). apply byte_at_Some in Hb.
    destruct r as [|y r'].
    - unfold nlen at 1. cbn [length]. lia.
    - assert (Hr' : s + 1 + nlen (y :: r') <= nlen mem) by (apply IH; [discriminate|exact Hr]).
      unfold nlen at 1. cbn [length]. unfold nlen at 1 in Hr'. cbn [length] in Hr'. lia.
  Qed.

  (* ------------------------------------------------------------------ theorem B *)
  Variables (A R B : list hir).
  Hypothesis HR : forallb is_leaf R = true.
  Hypothesis HRne : R <> [].
  Let h := HConcat (A ++ R ++ B).

  Lemma run_at l s :
    In l (expand da R) -> lit_at false l (skipn (N.to_nat s) mem) = true ->
    nlen l = nlen R /\ In (s + nlen R) (cat_ends fl mem R s).
  Proof.
    intros Hl Hlit. split; [apply expand_len; exact Hl|].
    apply run_ends; [exact HR|]. split; [reflexivity|]. apply run_match_lit. eauto.
  Qed.

  Theorem flat_glue : DecompGlue md mem h (expand da R) (pre_of A R) (post_of R B).
  Proof.
    intros l s a b Hl [Hlit Hlen] Hpre Hpost. rewrite Hnc in Hlit.
    destruct (run_at l s Hl Hlit) as [Hn Hrun]. rewrite Hn in *.
    assert (HA : In s (cat_ends fl mem A a)).
    { unfold pre_ok, pre_of, M in Hpre. destruct A as [|y A'] eqn:EA.
      - subst a. rewrite cat_ends_nil. left. reflexivity.
      - rewrite ends_concat in Hpre. apply cat_ends_app in Hpre as (x & H1 & H2).
        apply (run_ends R x _ HR) in H2 as [H2 _]. replace s with x by lia. exact H1. }
    assert (HB : In b (cat_ends fl mem B (s + nlen R))).
    { unfold post_ok, post_of, M in Hpost. destruct B as [|y B'] eqn:EB.
      - subst b. rewrite cat_ends_nil. left. reflexivity.
      - rewrite ends_concat in Hpost. apply cat_ends_app in Hpost as (y0 & H1 & H2).
        apply (run_ends R s _ HR) in H1 as [-> _]. exact H2. }
    unfold M, h. rewrite ends_concat. apply cat_ends_app. exists s. split; [exact HA|].
    apply cat_ends_app. exists (s + nlen R). split; [exact Hrun|exact HB].
  Qed.

  Theorem flat_split :
    nlen mem <= MAX_SPLIT_MATCH_LENGTH ->
    DecompSplit md mem h (expand da R) (pre_of A R) (post_of R B).
  Proof.
    intros Hwin a b Hm. unfold M, h in Hm. rewrite ends_concat in Hm.
    apply cat_ends_app in Hm as (x & HA & Hm). apply cat_ends_app in Hm as (y & HRx & HB).
    pose proof HRx as HRx'. apply (run_ends R x y HR) in HRx' as [-> Hrm].
    pose proof (run_match_len R x HRne Hrm) as Hlen.
    apply run_match_lit in Hrm as (l & Hl & Hlit).
    pose proof (expand_len R l Hl) as Hn.
    assert (Hax : a <= x).
    { exact (ends_ge fl mem (HConcat A) a x HA). }
    assert (Hb : b <= nlen mem).
    { exact (ends_le fl mem (HConcat B) (x + nlen R) b Hlen HB). }
    assert (Hxb : x <= b).
    { pose proof (ends_ge fl mem (HConcat B) (x + nlen R) b HB). lia. }
    exists l, x. rewrite Hn. split; [exact Hl|]. split; [split; [rewrite Hnc; exact Hlit|rewrite Hn; exact Hlen]|].
    split; [|split; [|repeat split; lia]].
    - unfold pre_ok, pre_of, M. destruct A as [|y0 A'] eqn:EA.
      + rewrite cat_ends_nil in HA. destruct HA as [<-|[]]. reflexivity.
      + rewrite ends_concat. apply cat_ends_app. eauto.
    - unfold post_ok, post_of, M. destruct B as [|y0 B'] eqn:EB.
      + rewrite cat_ends_nil in HB. destruct HB as [<-|[]]. reflexivity.
      + rewrite ends_concat. apply cat_ends_app. eauto.
  Qed.
End Flat.
