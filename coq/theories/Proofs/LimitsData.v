(* Proofs/LimitsData.v — C14: the data carried by every reported match record is never longer than
   match_max_length nor than the match itself, for every matcher kind and region layout; and the
   direct scan is the one-region fragmented scan as far as records go.  Corollaries of the record lemmas. *)
From Boreal Require Import Base.Prelude Base.ListX Base.Bytes Model.Literals Model.Ac Model.AcScan
  Proofs.LimitsProofs Proofs.AcScanDecomp.

Theorem record_data_bounded prm var regions x :
  In x (scan_var_fragmented prm var regions) ->
  nlen (sm_data x) <= p_match_max_length prm /\ nlen (sm_data x) <= sm_len x.
Proof.
  intros Hin.
  destruct (scan_var_fragmented_built prm var regions x Hin) as (r & _ & _ & Hb).
  destruct (built_on_fields prm _ x Hb) as [_ Hd].
  rewrite Hd, nlen_ntake. lia.
Qed.

Theorem record_data_bounded_all prm vars regions :
  Forall (Forall (fun x => nlen (sm_data x) <= p_match_max_length prm /\ nlen (sm_data x) <= sm_len x))
         (scan_fragmented prm vars regions).
Proof.
  rewrite scan_fragmented_per_variable. apply Forall_forall. intros vm Hvm.
  apply in_map_iff in Hvm. destruct Hvm as [var [<- _]].
  apply Forall_forall. intros x Hx. exact (record_data_bounded prm var regions x Hx).
Qed.
