(* Proofs/TextAtoms.v — per-literal completeness of the atom scan: the atom picked in a literal is a
   factor of it, so every (case-insensitive) occurrence of the literal in the input is among the
   candidates its variable receives, with exactly the literal's span. *)
From Boreal Require Import Base.Prelude Base.ListX Base.Bytes Base.Consts Model.Literals Model.Atoms Model.Ac
  Model.AcScan Proofs.AcScanDecomp.

(* ------------------------------------------------------------------ pick_atom_in_literal *)
Lemma last_max_from_range ks : forall i bi b,
  last_max_from i bi b ks = bi \/ (i <= last_max_from i bi b ks < i + nlen ks).
Proof.
  induction ks as [|k ks IH]; intros i bi b; cbn [last_max_from]; [now left|].
  rewrite nlen_cons. destruct (b <=? k).
  - destruct (IH (i + 1) i k) as [E|E]; right; lia.
  - destruct (IH (i + 1) bi b) as [E|E]; [now left | right; lia].
Qed.

Lemma last_max_idx_lt ks : ks <> [] -> last_max_idx ks < nlen ks.
Proof.
  destruct ks as [|k ks]; [congruence|]. intros _. unfold last_max_idx. rewrite nlen_cons.
  destruct (last_max_from_range ks 1 0 k) as [E|E]; lia.
Qed.

Lemma nlen_windows lit : nlen (windows lit) = nlen lit + 1 - ATOM_SIZE.
Proof. unfold windows. now rewrite nlen_map, nlen_iota. Qed.

Lemma pick_atom_bounds lit s e :
  pick_atom_in_literal lit = (s, e) -> lit <> [] -> s + e < nlen lit.
Proof.
  unfold pick_atom_in_literal, pick_atom_with. intros H Hne.
  assert (0 < nlen lit) by (destruct lit; [congruence | rewrite nlen_cons; lia]).
  destruct (nlen lit <=? ATOM_SIZE) eqn:E.
  - inversion H; subst. lia.
  - inversion H; subst. clear H.
    set (ks := map atom_rank (windows lit)).
    assert (Hlt : last_max_idx ks < nlen ks).
    { apply last_max_idx_lt. unfold ks. intros Hc.
      assert (Hz : nlen (map atom_rank (windows lit)) = 0) by now rewrite Hc.
      rewrite nlen_map, nlen_windows in Hz. unfold ATOM_SIZE in *. lia. }
    unfold ks in Hlt at 2. rewrite nlen_map, nlen_windows in Hlt. unfold ATOM_SIZE in *. lia.
Qed.

(* ------------------------------------------------------------------ candidates of a variable alone *)
Lemma own_cands_free var rg :
  own_cands var rg
  = cands_free (var_lit_infos 0 var) rg (ac_maxlen (acs_pats (acscan_new [var]))).
Proof.
  unfold own_cands. change 0 with (N.of_nat 0) at 1.
  rewrite (var_cands_free (acscan_new [var]) 0 rg (acscan_new_pats [var])).
  f_equal. cbn [acscan_new acs_infos]. apply (filter_var_all_infos [var] 0 var eq_refl).
Qed.

Lemma in_var_lit_infos var k lit :
  nth_error (mt_literals var) k = Some lit -> In (mk_info 0 (N.of_nat k) lit) (var_lit_infos 0 var).
Proof.
  intros H. unfold var_lit_infos, mapi. apply in_mapi_from. exists k, lit. split; [exact H|].
  unfold mk_info. destruct (pick_atom_in_literal lit). reflexivity.
Qed.

(* every occurrence of literal k at offset o (compared ignoring ASCII case, which covers the exact
   comparison) yields the candidate (k, o, o + |lit|) *)
Theorem occurrence_is_candidate var rg k lit o :
  nth_error (mt_literals var) k = Some lit -> lit <> [] ->
  o + nlen lit <= nlen (rg_mem rg) ->
  lower_bytes (slice o (o + nlen lit) (rg_mem rg)) = lower_bytes lit ->
  In (N.of_nat k, o, o + nlen lit) (own_cands var rg).
Proof.
  intros Hk Hne Hfit Hocc. rewrite own_cands_free.
  destruct (pick_atom_in_literal lit) as [so eo] eqn:Ep.
  pose proof (pick_atom_bounds lit so eo Ep Hne) as Hb.
  set (li := mk_info 0 (N.of_nat k) lit).
  assert (Hli : In li (var_lit_infos 0 var)) by now apply in_var_lit_infos.
  assert (Hatom : li_atom li = lower_bytes (slice so (nlen lit - eo) lit)).
  { unfold li, mk_info. now rewrite Ep. }
  assert (Hso : li_so li = so) by (unfold li, mk_info; now rewrite Ep).
  assert (Heo : li_eo li = eo) by (unfold li, mk_info; now rewrite Ep).
  assert (Hlit : li_lit li = N.of_nat k) by (unfold li, mk_info; now rewrite Ep).
  set (L := nlen lit - eo - so).
  set (e := o + nlen lit - eo).
  assert (HL : nlen (li_atom li) = L).
  { rewrite Hatom, nlen_lower, nlen_slice. unfold L. lia. }
  unfold cands_free. apply in_flat_map. exists e. split.
  { apply in_iota. unfold e. lia. }
  apply in_flat_map. exists L. split.
  { unfold lens_desc. apply -> in_rev. apply in_iota.
    assert (nlen (li_atom li) <= ac_maxlen (acs_pats (acscan_new [var]))).
    { apply atom_len_le_maxlen. now rewrite all_lit_infos_single. }
    unfold L in *. lia. }
  unfold cands_at. replace (L <=? e) with true by (unfold L, e; lia).
  apply in_flat_map. exists li. split.
  - apply filter_In. split; [exact Hli|]. apply bytes_eqb_eq. rewrite Hatom.
    replace (e - L) with (o + so) by (unfold e, L; lia).
    replace e with (o + (nlen lit - eo)) by (unfold e; lia).
    rewrite <- (slice_slice o (o + nlen lit) so (nlen lit - eo)) by lia.
    rewrite (lower_slice so (nlen lit - eo) (slice o (o + nlen lit) (rg_mem rg))), Hocc, <- lower_slice.
    reflexivity.
  - unfold lit_cand. rewrite Hso, Heo, Hlit.
    replace (e - L <? so) with false by (unfold e, L; lia).
    replace (nlen (rg_mem rg) <? e + eo) with false by (unfold e; lia).
    replace (e - L - so) with o by (unfold e, L; lia).
    replace (e + eo) with (o + nlen lit) by (unfold e; lia).
    now left.
Qed.

(* conversely a candidate always names a literal of the variable and a span inside the region *)
Lemma candidate_in_bounds var rg i s e :
  In (i, s, e) (own_cands var rg) -> e <= nlen (rg_mem rg).
Proof.
  rewrite own_cands_free. unfold cands_free. intros H.
  apply in_flat_map in H as (e0 & _ & H). apply in_flat_map in H as (L & _ & H).
  unfold cands_at in H. destruct (L <=? e0); [|destruct H].
  apply in_flat_map in H as (li & _ & H). unfold lit_cand in H.
  destruct (e0 - L <? li_so li); [destruct H|].
  destruct (nlen (rg_mem rg) <? e0 + li_eo li) eqn:E; [destruct H|].
  destruct H as [H|[]]. inversion H; subst. lia.
Qed.
