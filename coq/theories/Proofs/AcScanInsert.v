(* Proofs/AcScanInsert.v — invariants of `insert_match` / `truncate_matches` (fix F2):
   within one region the saved matches stay strictly ascending by offset, one per offset; an
   insertion never removes a match; the new offset is present afterwards. *)
From Coq Require Import Sorting.Sorted.
From Boreal Require Import Base.Prelude Base.ListX Base.Bytes Base.Sorted Model.Literals Model.AcScan.

Definition all_base (b : N) (v : list smatch) : Prop := forall y, In y v -> sm_base y = b.

Lemma all_base_nil b : all_base b [].
Proof. intros y []. Qed.

Lemma all_base_rev b v : all_base b v -> all_base b (rev v).
Proof. intros H y Hy. apply H. now apply in_rev. Qed.

(* ---- insert_rev on a descending same-base list *)
Lemma insert_rev_in rv x y : In y (insert_rev rv x) -> y = x \/ In y rv.
Proof.
  induction rv as [|z rv IH]; cbn [insert_rev In].
  - intuition.
  - destruct ((sm_base z =? sm_base x) && (sm_off x <? sm_off z)); cbn [In].
    + intros [->|H]; [auto|]. apply IH in H. intuition.
    + destruct ((sm_base z =? sm_base x) && (sm_off z =? sm_off x)); cbn [In]; intuition.
Qed.

Lemma insert_rev_keeps rv x y : In y rv -> In y (insert_rev rv x).
Proof.
  induction rv as [|z rv IH]; cbn [insert_rev In]; [tauto|].
  destruct ((sm_base z =? sm_base x) && (sm_off x <? sm_off z)); cbn [In].
  - intros [->|H]; auto.
  - destruct ((sm_base z =? sm_base x) && (sm_off z =? sm_off x)); cbn [In]; intuition.
Qed.

Lemma insert_rev_has_off rv x : In (sm_off x) (map sm_off (insert_rev rv x)).
Proof.
  induction rv as [|z rv IH]; cbn [insert_rev map In]; [auto|].
  destruct ((sm_base z =? sm_base x) && (sm_off x <? sm_off z)) eqn:E1; cbn [map In]; [auto|].
  destruct ((sm_base z =? sm_base x) && (sm_off z =? sm_off x)) eqn:E2; cbn [map In]; [|auto].
  left. lia.
Qed.

Lemma insert_rev_desc b rv x :
  all_base b rv -> sm_base x = b -> desc (map sm_off rv) -> desc (map sm_off (insert_rev rv x)).
Proof.
  induction rv as [|z rv IH]; intros Hb Hx Hd; cbn [insert_rev map].
  - constructor; constructor.
  - assert (Hz : sm_base z = b) by (apply Hb; now left).
    assert (Hb' : all_base b rv) by (intros y Hy; apply Hb; now right).
    cbn [map] in Hd. apply desc_cons_inv in Hd as [Hd Hf].
    rewrite Hz, Hx, N.eqb_refl. cbn [andb].
    destruct (sm_off x <? sm_off z) eqn:E1; cbn [map].
    + constructor; [apply IH; auto|].
      apply Forall_forall. intros o Ho. apply in_map_iff in Ho as (y & <- & Hy).
      apply insert_rev_in in Hy as [->|Hy]; [lia|].
      rewrite Forall_forall in Hf. apply Hf. now apply in_map.
    + destruct (sm_off z =? sm_off x) eqn:E2; cbn [map].
      * constructor; auto.
      * constructor; [constructor; auto|].
        constructor; [lia|]. eapply Forall_impl; [|exact Hf]. cbn. intros. lia.
Qed.

(* ---- insert_match *)
Lemma insert_match_in v x y : In y (insert_match v x) -> y = x \/ In y v.
Proof.
  unfold insert_match. intros H. apply in_rev in H. apply insert_rev_in in H as [->|H]; [auto|].
  right. now apply in_rev.
Qed.

Lemma insert_match_keeps v x y : In y v -> In y (insert_match v x).
Proof.
  unfold insert_match. intros H. apply -> in_rev. apply insert_rev_keeps. now apply -> in_rev.
Qed.

Lemma insert_match_has_off v x : In (sm_off x) (map sm_off (insert_match v x)).
Proof.
  unfold insert_match. rewrite map_rev. apply -> in_rev. apply insert_rev_has_off.
Qed.

Lemma insert_match_all_base b v x : all_base b v -> sm_base x = b -> all_base b (insert_match v x).
Proof. intros Hv Hx y Hy. apply insert_match_in in Hy as [->|Hy]; auto. Qed.

Lemma insert_match_asc b v x :
  all_base b v -> sm_base x = b -> asc (map sm_off v) -> asc (map sm_off (insert_match v x)).
Proof.
  intros Hb Hx Ha. unfold insert_match. rewrite map_rev. apply desc_rev_asc.
  apply (insert_rev_desc b); auto using all_base_rev.
  rewrite map_rev. now apply asc_rev_desc.
Qed.

(* an offset already present: nothing changes ("one per offset, first arrival wins") *)
Lemma insert_rev_dup b rv x :
  all_base b rv -> sm_base x = b -> desc (map sm_off rv) -> In (sm_off x) (map sm_off rv) ->
  insert_rev rv x = rv.
Proof.
  induction rv as [|z rv IH]; intros Hb Hx Hd Hin; cbn [insert_rev map In] in *; [tauto|].
  assert (Hz : sm_base z = b) by (apply Hb; now left).
  assert (Hb' : all_base b rv) by (intros y Hy; apply Hb; now right).
  apply desc_cons_inv in Hd as [Hd Hf].
  rewrite Hz, Hx, N.eqb_refl. cbn [andb].
  destruct (sm_off x <? sm_off z) eqn:E1.
  - f_equal. apply IH; auto. destruct Hin as [E|E]; [lia|exact E].
  - destruct (sm_off z =? sm_off x) eqn:E2; [reflexivity|].
    exfalso. destruct Hin as [E|E]; [lia|].
    rewrite Forall_forall in Hf. specialize (Hf _ E). lia.
Qed.

Lemma insert_match_dup b v x :
  all_base b v -> sm_base x = b -> asc (map sm_off v) -> In (sm_off x) (map sm_off v) ->
  insert_match v x = v.
Proof.
  intros Hb Hx Ha Hin. unfold insert_match.
  rewrite (insert_rev_dup b); auto using all_base_rev.
  - apply rev_involutive.
  - rewrite map_rev. now apply asc_rev_desc.
  - rewrite map_rev. now apply -> in_rev.
Qed.

(* ---- truncation *)
Lemma truncate_id prm v : nlen v <= p_max_nb_matches prm -> truncate_matches prm v = v.
Proof. intros. unfold truncate_matches. now apply ntake_all. Qed.

Lemma truncate_len prm v : nlen (truncate_matches prm v) <= p_max_nb_matches prm.
Proof. unfold truncate_matches. rewrite nlen_ntake. lia. Qed.

Lemma truncate_in prm v y : In y (truncate_matches prm v) -> In y v.
Proof.
  unfold truncate_matches, ntake. intros H.
  rewrite <- (firstn_skipn (N.to_nat (p_max_nb_matches prm)) v). apply in_or_app. now left.
Qed.
