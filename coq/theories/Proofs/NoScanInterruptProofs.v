(* Proofs/NoScanInterruptProofs.v — timeouts in configurations where rules are evaluated before the
   string scan (callback API): outside the two recorded classes, the events delivered by the interrupted
   scan are a prefix of those of the complete scan.
   - the timeout fires after the first pass: both runs coincide up to there (simulation);
   - it fires while the ordinary rules are evaluated in the first pass: the handler flushes the rules
     decided so far, which are a prefix of the rules the complete scan reports (no-scan soundness at
     scanner level), and nothing of the string scan precedes them (hypothesis: no match-limit events and,
     for fragmented memory, no import events — class C15-noscan-timeout-flush-order otherwise);
   - it fires while global rules are evaluated in the first pass: class C15-timeout-unvalidated-globals. *)
From Boreal Require Import Base.Prelude Base.Res Model.Eval Spec.CondSem Model.EvalCost Model.Scanner
     Spec.RuleSetSpec Proofs.SemProofs Proofs.ScannerProofs Proofs.InterruptProofs Proofs.NoScanScannerProofs
     Proofs.CallbackProofs.

(* ---- emitting under a timeout interruption is emitting ---- *)
Lemma emit_all_T j l s : emit_all (TimeoutAt j) l s = emit_all Never l s.
Proof. revert s; induction l as [|e l IH]; intros s; cbn [emit_all]; [reflexivity|]. unfold bindM, emit. apply IH. Qed.

Lemma send_imports_T c j inp s : send_imports c (TimeoutAt j) inp s = send_imports c Never inp s.
Proof. unfold send_imports. destruct (_ && _); [apply emit_all_T|reflexivity]. Qed.

Lemma report_T c j r s : report c (TimeoutAt j) r s = report c Never r s.
Proof. unfold report. destruct (er_matched r); [destruct (c_ev_match c)|destruct (c_ev_nomatch c)]; reflexivity. Qed.

Lemma flush_list_T c j l : forall s, flush_list c (TimeoutAt j) l s = flush_list c Never l s.
Proof.
  induction l as [|r l IH]; intros s; cbn [flush_list]; [reflexivity|].
  unfold bindM. rewrite report_T. destruct (report c Never r s) as [s' [u|e]]; [apply IH|reflexivity].
Qed.

Lemma flush_T c j s : flush c (TimeoutAt j) s = flush c Never s.
Proof.
  unfold flush. destruct (c_cb c); [|reflexivity]. unfold bindM, get_pend, clear_pend. apply flush_list_T.
Qed.

(* ---- the first pass delivers nothing to the callback ---- *)
Definition EvsSame {A} (m : M A) : Prop := forall s, evs (fst (m s)) = evs s.

Lemma evssame_ret {A} (a : A) : EvsSame (ret a). Proof. intros s; reflexivity. Qed.
Lemma evssame_fail {A} e : EvsSame (@fail A e). Proof. intros s; reflexivity. Qed.
Lemma evssame_bind {A B} (m : M A) (f : A -> M B) : EvsSame m -> (forall a, EvsSame (f a)) -> EvsSame (bindM m f).
Proof.
  intros Hm Hf s. unfold bindM. specialize (Hm s). destruct (m s) as [s1 [a|e]]; cbn [fst] in *; [|exact Hm].
  rewrite (Hf a s1). exact Hm.
Qed.
Lemma evssame_tick it n : EvsSame (tick it n).
Proof.
  intros s. unfold tick. destruct (n =? 0); [reflexivity|]. destruct it as [|k|j]; try reflexivity.
  destruct (j <=? nchecks s); [reflexivity|]. destruct (j <=? nchecks s + n); reflexivity.
Qed.
Lemma evssame_push r : EvsSame (push r). Proof. intros s; reflexivity. Qed.
Lemma evssame_clear : EvsSame clear_pend. Proof. intros s; reflexivity. Qed.
Lemma evssame_fixup c x : EvsSame (fixup c x).
Proof. intros s. unfold fixup, bindM, get_pend, set_pend. destruct (c_nm c); reflexivity. Qed.

Lemma evssame_eval_rule_inner c it inp x r : EvsSame (eval_rule_inner c it inp x r false).
Proof.
  unfold eval_rule_inner. rewrite andb_false_r.
  destruct (ns_disabled x (r_ns r)).
  - destruct (r_private r); [apply evssame_ret|]. destruct (c_nm c); [|apply evssame_ret].
    apply evssame_bind; [apply evssame_push|intros _; apply evssame_ret].
  - apply evssame_bind; [apply evssame_tick|]. intros _.
    destruct (eval_rule _ _) as [m| | |]; try apply evssame_fail; [|apply evssame_ret].
    destruct (r_private r); [apply evssame_ret|]. destruct (m || c_nm c); [|apply evssame_ret].
    apply evssame_bind; [apply evssame_push|intros _; apply evssame_ret].
Qed.

Lemma evssame_eval_globals c it inp gs : forall x u, EvsSame (eval_globals c it inp x gs u).
Proof.
  induction gs as [|g gs IH]; intros x u; cbn [eval_globals]; [apply evssame_ret|].
  apply evssame_bind; [apply evssame_eval_rule_inner|]. intros [x' [[|]|]]; apply IH.
Qed.

Lemma evssame_eval_rules c it inp rs : forall x, EvsSame (eval_rules c it inp x rs false).
Proof.
  induction rs as [|r rs IH]; intros x; cbn [eval_rules]; [apply evssame_ret|].
  apply evssame_bind; [apply evssame_eval_rule_inner|]. intros [x' [b|]]; [apply IH|apply evssame_ret].
Qed.

(* the part of the first pass that follows the global rules *)
Definition pass1_rest (c : cfg) (it : intr) (inp : inputs) (sc : scanner) (xu : ectx * bool) : M nsres :=
  if all_disabled (fst xu) then bindM clear_pend (fun _ => ret NSDone)
  else if snd xu then ret NSUndecidable
  else bindM (fixup c (fst xu)) (fun _ =>
         bindM (eval_rules c it inp (fst xu) (s_rules sc) false) (fun ok => ret (if ok then NSDone else NSUndecidable))).

Definition pass1_globals (c : cfg) (it : intr) (inp : inputs) (sc : scanner) : M (ectx * bool) :=
  eval_globals c it inp (ctx0 sc None) (s_globals sc) false.

Lemma pass1_split c it inp sc s :
  eval_without_matches c it inp sc s = bindM (pass1_globals c it inp sc) (pass1_rest c it inp sc) s.
Proof.
  unfold eval_without_matches, pass1_globals, pass1_rest, bindM.
  destruct (eval_globals c it inp (ctx0 sc None) (s_globals sc) false s) as [s1 [[x u]|e]]; reflexivity.
Qed.

(* what follows the first pass *)
Definition after_pass1 (c : cfg) (it : intr) (inp : inputs) (sc : scanner) (r : nsres) : M unit :=
  match r with
  | NSDone => flush c it
  | NSUndecidable => bindM clear_pend (fun _ => full_scan c it inp sc)
  end.

Lemma good_after_pass1 c it inp sc r : it <> Never ->
  Good it (after_pass1 c Never inp sc r) (after_pass1 c it inp sc r).
Proof.
  intros Hit. destruct r; cbn [after_pass1].
  - apply good_flush. exact Hit.
  - apply good_bind; [apply good_clear|]. intros _. apply good_full_scan. exact Hit.
Qed.

(* no event of the string scan can precede the rule events *)
Definition no_scan_events (c : cfg) (inp : inputs) : Prop :=
  limit_events c (i_ac inp) = [] /\ (if c_direct c then [] else import_events c inp) = [].

Lemma pre_events_only_direct_imports c inp :
  no_scan_events c inp -> pre_events c inp = (if c_direct c then import_events c inp else []).
Proof. intros [H1 H2]. unfold pre_events. rewrite H1, H2, !app_nil_r. reflexivity. Qed.

Definition imports_first (c : cfg) (it : intr) (inp : inputs) : M unit :=
  if c_direct c then send_imports c it inp else ret tt.

Definition s_after_imports (c : cfg) (inp : inputs) : sstate := fst (imports_first c Never inp s_init).

(* do_scan, for configurations with the first pass, after the import events *)
Definition ds_rest (c : cfg) (it : intr) (inp : inputs) (sc : scanner) : M unit :=
  bindM (on_timeout (eval_without_matches c it inp sc) (bindM (flush c it) (fun _ => fail ETimeout)))
        (after_pass1 c it inp sc).

Lemma do_scan_noscan_split c it inp sc s : can_noscan c = true ->
  do_scan c it inp sc s = bindM (imports_first c it inp) (fun _ => ds_rest c it inp sc) s.
Proof.
  intros Hns. unfold do_scan, ds_rest, imports_first. rewrite Hns. unfold bindM.
  destruct ((if c_direct c then send_imports c it inp else ret tt) s) as [s1 [u|e]]; [|reflexivity].
  destruct (on_timeout _ _ s1) as [s2 [[|]|e]]; reflexivity.
Qed.

(* C15, callback API, configurations with the first evaluation pass *)
Theorem timeout_prefix_noscan c j inp sc :
  c_cb c = true -> can_noscan c = true -> 1 <= j ->
  wf_scanner inp sc = true -> ns_bound (s_nns sc) (s_globals sc) -> ns_bound (s_nns sc) (s_rules sc) ->
  (* not while the global rules of the first pass are evaluated *)
  nchecks (fst (pass1_globals c Never inp sc (s_after_imports c inp))) < j ->
  (* no string-scan event when the timeout fires inside the first pass *)
  (j <= nchecks (fst (eval_without_matches c Never inp sc (s_after_imports c inp))) -> no_scan_events c inp) ->
  exists later, o_events (run_scan c Never inp sc) = o_events (run_scan c (TimeoutAt j) inp sc) ++ later.
Proof.
  intros Hcb Hns Hj Hw Hbg Hbr Hglob Hnoev.
  assert (Hit : TimeoutAt j <> Never) by discriminate.
  pose proof (can_noscan_nm c Hns) as Hnm.
  unfold run_scan. fold s_init. rewrite !do_scan_noscan_split by exact Hns.
  (* the import events of a direct scan come first in both runs *)
  assert (HI : imports_first c (TimeoutAt j) inp s_init = imports_first c Never inp s_init).
  { unfold imports_first. destruct (c_direct c); [apply send_imports_T|reflexivity]. }
  assert (HIok : exists sI, imports_first c Never inp s_init = (sI, inl tt) /\ nchecks sI = 0 /\ pend sI = []
                            /\ evs sI = rev (if c_direct c then import_events c inp else [])).
  { unfold imports_first. destruct (c_direct c).
    - rewrite send_imports_cb by exact Hcb. eexists. split; [reflexivity|]. cbn [nchecks pend evs updE s_init].
      rewrite app_nil_r. repeat split.
    - exists s_init. repeat split. }
  destruct HIok as [sI [EI [HIn [HIp HIe]]]].
  assert (HsI : s_after_imports c inp = sI) by (unfold s_after_imports; rewrite EI; reflexivity).
  rewrite HsI in *.
  unfold bindM at 1. rewrite EI. unfold bindM at 1. rewrite HI, EI.
  (* first pass *)
  set (P1 := fun it => eval_without_matches c it inp sc).
  assert (HextP1 : Ext (P1 Never)) by (apply (good_eval_without_matches c (AbortAt 1) ltac:(discriminate) inp sc)).
  assert (HdsN : ds_rest c Never inp sc sI
                 = bindM (P1 Never) (after_pass1 c Never inp sc) sI).
  { unfold ds_rest, bindM. rewrite (on_timeout_noop (eval_without_matches c Never inp sc)) by apply HextP1. reflexivity. }
  destruct (good_eval_without_matches c (TimeoutAt j) Hit inp sc) as [_ SP1].
  specialize (SP1 sI ltac:(cbn [insync]; lia)). fold (P1 Never) (P1 (TimeoutAt j)) in SP1.
  destruct SP1 as [[Hs1 Eq]|[Er [Hat [Hck _]]]].
  - (* the first pass completes identically: the rest is simulated *)
    assert (HdsT : ds_rest c (TimeoutAt j) inp sc sI
                   = bindM (P1 Never) (after_pass1 c (TimeoutAt j) inp sc) sI).
    { unfold ds_rest, bindM. fold (P1 (TimeoutAt j)).
      rewrite on_timeout_noop by (rewrite Eq; apply HextP1). rewrite Eq. reflexivity. }
    rewrite HdsN, HdsT. unfold bindM.
    destruct (P1 Never sI) as [s1 r1]. cbn [fst] in Hs1.
    destruct r1 as [r|e]; [|cbn [o_events]; exists []; symmetry; apply app_nil_r].
    destruct (good_after_pass1 c (TimeoutAt j) inp sc r Hit) as [_ SK]. specialize (SK s1 Hs1).
    destruct SK as [[_ EqK]|[_ [_ [_ [n En]]]]].
    + rewrite EqK. exists []. symmetry. apply app_nil_r.
    + destruct (after_pass1 c (TimeoutAt j) inp sc r s1) as [s2 r2].
      destruct (after_pass1 c Never inp sc r s1) as [s3 r3]. cbn [fst o_events] in *.
      exists (rev n). rewrite En. apply rev_app_distr.
  - (* the timeout fires inside the first pass, after the global rules *)
    cbn [atpoint] in Hat.
    assert (Hin : j <= nchecks (fst (P1 Never sI))) by lia.
    specialize (Hnoev Hin). pose proof (pre_events_only_direct_imports c inp Hnoev) as Hpre.
    (* the complete run *)
    assert (HN : exists k, do_scan c Never inp sc s_init
                 = ({| pend := []; evs := rev ((if c_direct c then import_events c inp else [])
                                               ++ events_of c (scan_result c inp sc)); nchecks := k |}, inl tt)).
    { destruct (do_scan_noscan_cb c inp sc Hcb Hns Hw Hbg Hbr) as [k [pre [E [Hp|Hp]]]]; exists k; unfold s_init; rewrite E;
        [rewrite Hp|rewrite Hp, Hpre]; reflexivity. }
    destruct HN as [kN EN]. rewrite do_scan_noscan_split in EN by exact Hns.
    unfold bindM at 1 in EN. rewrite EI in EN.
    rewrite EN. cbn [o_events evs]. rewrite rev_involutive.
    clear HdsN EN.
    (* the interrupted run: split the first pass at the end of the global rules *)
    unfold ds_rest. unfold bindM at 1. fold (P1 (TimeoutAt j)).
    assert (HP1T : P1 (TimeoutAt j) sI
                   = bindM (pass1_globals c (TimeoutAt j) inp sc) (pass1_rest c (TimeoutAt j) inp sc) sI)
      by apply pass1_split.
    assert (HP1N : P1 Never sI = bindM (pass1_globals c Never inp sc) (pass1_rest c Never inp sc) sI)
      by apply pass1_split.
    (* globals: identical in both runs *)
    destruct (good_eval_globals c (TimeoutAt j) Hit inp (s_globals sc) (ctx0 sc None) false) as [_ SG].
    specialize (SG sI ltac:(cbn [insync]; lia)).
    fold (pass1_globals c Never inp sc) (pass1_globals c (TimeoutAt j) inp sc) in SG.
    assert (EG : pass1_globals c (TimeoutAt j) inp sc sI = pass1_globals c Never inp sc sI).
    { destruct SG as [[_ E]|[_ [Hat' [Hck' _]]]]; [exact E|]. exfalso. cbn [atpoint] in Hat'. lia. }
    (* pure description of the global rules of the first pass *)
    pose proof Hw as Hw'. unfold wf_scanner in Hw'. apply andb_true_iff in Hw' as [Hwg Hwr].
    unfold pass1_globals, ctx0 in *.
    destruct (eval_globals_pass1 c inp (s_globals sc) (repeat false (s_nns sc)) (repeat false (s_nns sc))
                (i_matches inp) false sI eq_refl (fun ns H => H) Hwg ltac:(rewrite repeat_length; exact Hbg))
      as [k1 [dis1 [reps1 [unk [E1 [Hl1 [Hs1 Heq]]]]]]].
    cbn [orb] in E1. rewrite HIp in E1. cbn [app] in E1.
    rewrite (g_fold_ms _ c inp (s_globals sc) _ (repeat false (s_nns sc)) (i_matches inp)) in Hwr.
    pose proof (g_fold_length c inp (s_globals sc) (repeat false (s_nns sc)) (i_matches inp)) as HlD.
    unfold bindM in HP1T, HP1N. unfold pass1_globals, ctx0 in HP1T, HP1N. rewrite EG in HP1T. rewrite E1 in HP1T, HP1N.
    unfold pass1_rest in HP1T, HP1N. cbn [fst snd] in HP1T, HP1N. unfold all_disabled in HP1T, HP1N.
    cbn [x_disabled] in HP1T, HP1N.
    destruct (forallb (fun b : bool => b) dis1) eqn:Eall.
    { (* no check is made after the globals: the timeout cannot fire there *)
      exfalso. rewrite HP1T in Er. unfold bindM, clear_pend, ret in Er. cbn [snd] in Er. discriminate. }
    destruct unk.
    { exfalso. rewrite HP1T in Er. unfold ret in Er. cbn [snd] in Er. discriminate. }
    destruct (Heq eq_refl eq_refl) as [Hd Hr]. subst dis1 reps1.
    set (D := fst (fst (g_fold c inp (repeat false (s_nns sc)) (i_matches inp) (s_globals sc)))) in *.
    set (m := snd (fst (g_fold c inp (repeat false (s_nns sc)) (i_matches inp) (s_globals sc)))) in *.
    set (greps := snd (g_fold c inp (repeat false (s_nns sc)) (i_matches inp) (s_globals sc))) in *.
    set (x := {| x_matches := None; x_prev := []; x_disabled := D |}) in *.
    unfold bindM in HP1T, HP1N. rewrite fixup_list' in HP1T, HP1N. cbn [x_disabled pend upd evs nchecks] in HP1T, HP1N.
    set (sF := upd (upd sI greps k1) (fix_list c (x_disabled x) greps) k1) in *.
    (* the ordinary rules of the first pass: pending lists are prefixes *)
    destruct (goodp_eval_rules c (TimeoutAt j) Hit inp (s_rules sc) x false) as [_ SR].
    specialize (SR sF ltac:(subst sF; cbn [insync nchecks upd];
                             pose proof Hglob as Hg'; rewrite E1 in Hg'; cbn [fst nchecks upd] in Hg'; exact Hg')).
    destruct (eval_rules_pass1 c inp (s_rules sc) D m [] sF Hwr) as [k2 [ok [reps [E2 [_ [rest Hrest]]]]]].
    fold x in E2.
    destruct SR as [[_ EqR]|[ErR [more Em]]].
    { (* the rules complete identically: then the first pass did not time out *)
      exfalso. rewrite HP1T in Er. rewrite EqR, E2 in Er. unfold ret in Er. cbn [snd] in Er. discriminate. }
    unfold on_timeout. rewrite HP1T. rewrite E2 in Em. cbn [fst pend upd] in Em.
    destruct (eval_rules c (TimeoutAt j) inp x (s_rules sc) false sF) as [s2 r2] eqn:ET. cbn [fst snd] in *. subst r2.
    cbn [fst snd].
    (* the handler flushes the pending rules *)
    unfold bindM at 1. rewrite flush_T. unfold flush. rewrite Hcb. unfold bindM, get_pend, clear_pend.
    rewrite flush_list_never. unfold fail. cbn [ierr]. cbn [o_events evs pend updE fst snd].
    assert (Hev2 : evs s2 = evs sI).
    { pose proof (evssame_eval_rules c (TimeoutAt j) inp (s_rules sc) x sF) as H2. rewrite ET in H2. cbn [fst] in H2.
      rewrite H2. subst sF. reflexivity. }
    rewrite Hev2, HIe, rev_app_distr, !rev_involutive.
    (* pend s2 is a prefix of the complete result *)
    assert (Hres : scan_result c inp sc = pend s2 ++ more ++ rest).
    { unfold scan_result. fold D m greps.
      destruct (g_fold c inp (repeat false (s_nns sc)) (i_matches inp) (s_globals sc)) as [[D' m'] g'] eqn:Eg.
      cbn [fst snd] in *. subst D m greps. rewrite Hnm. cbn [negb andb]. rewrite Eall.
      rewrite Hrest. rewrite (app_assoc (pend s2)). rewrite <- Em. subst sF x. cbn [pend upd x_disabled].
      rewrite app_assoc. reflexivity. }
    rewrite Hres, events_of_app. exists (events_of c (more ++ rest)). rewrite app_assoc. reflexivity.
Qed.

(* ---- recorded finding C15-noscan-timeout-flush-order (open): witness ----
   Rule 0 is decided without the string scan, rule 1 needs it; string 0 reaches the match limit.
   The complete scan delivers the limit event first; a timeout at the check of rule 1 flushes rule 0
   alone, which is not a prefix. *)
Definition kf15n_scanner : scanner :=
  {| s_globals := [];
     s_rules := [{| r_ns := 0; r_id := 0; r_global := false; r_private := false; r_nvars := 0; r_cond := EBool true |};
                 {| r_ns := 0; r_id := 1; r_global := false; r_private := false; r_nvars := 1; r_cond := EVar (Some 0%nat) |}];
     s_nns := 1 |}.
Definition kf15n_inputs : inputs :=
  {| i_matches := [[{| m_base := 0; m_off := 0; m_len := 1 |}]]; i_ext := []; i_filesize := Some 2; i_mem := Some [97; 98];
     i_ac := [[0]]; i_imports := [] |}.
Definition kf15n_cfg : cfg :=
  {| c_full := false; c_nm := false; c_cb := true; c_ev_match := true; c_ev_nomatch := false; c_ev_import := false;
     c_ev_limit := true; c_direct := true; c_frag_noscan := false |}.

Lemma noscan_flush_order_refuted :
  can_noscan kf15n_cfg = true
  /\ o_events (run_scan kf15n_cfg Never kf15n_inputs kf15n_scanner) = [EvLimit 0; EvMatch 0; EvMatch 1]
  /\ o_events (run_scan kf15n_cfg (TimeoutAt 2) kf15n_inputs kf15n_scanner) = [EvMatch 0]
  /\ ~ no_scan_events kf15n_cfg kf15n_inputs.
Proof.
  split; [reflexivity|]. split; [vm_compute; reflexivity|]. split; [vm_compute; reflexivity|].
  intros [H _]. vm_compute in H. discriminate H.
Qed.

(* ------------------------------------------------------------------ list API *)
(* string scan and global rules of the full pass, from any state *)
Definition scan_p01 (c : cfg) (it : intr) (inp : inputs) (sc : scanner) : M (ectx * bool) :=
  bindM (scan_p0 c it inp) (fun _ : unit => scan_p1 c it inp sc).

(* the rules pending when the full pass is interrupted are a prefix of those it ends with, from any
   state with nothing pending, when the timeout does not fire among the global rules *)
Lemma full_scan_pend_prefix c j inp sc s0 :
  c_cb c = false -> pend s0 = [] -> nchecks s0 < j ->
  (j <= nchecks s0 + i_ac_checks inp \/ nchecks (fst (scan_p01 c Never inp sc s0)) < j) ->
  exists more, pend (fst (full_scan c Never inp sc s0)) = pend (fst (full_scan c (TimeoutAt j) inp sc s0)) ++ more.
Proof.
  intros Hcb Hp0 Hs0 Hwhere. assert (Hit : TimeoutAt j <> Never) by discriminate.
  rewrite !full_scan_split.
  destruct Hwhere as [Hac|Hafter].
  - destruct (good_ac_phase c (TimeoutAt j) Hit (i_ac inp)) as [_ S0].
    specialize (S0 s0 ltac:(cbn [insync]; lia)).
    destruct (ac_phase_never_checks c (i_ac inp) s0) as [sN [EN Hn]].
    pose proof (pendsame_ac_phase c (TimeoutAt j) (i_ac inp) s0) as Hp.
    destruct S0 as [[Hs1 _]|[Er _]].
    + exfalso. cbn [insync] in Hs1. rewrite EN in Hs1. cbn [fst] in Hs1. rewrite Hn in Hs1.
      unfold i_ac_checks in Hac. lia.
    + destruct (ac_phase c (TimeoutAt j) (i_ac inp) s0) as [s2 r2] eqn:E2. cbn [fst snd] in *. subst r2.
      rewrite (bind_fail_first (scan_p0 c (TimeoutAt j) inp) _ s0 s2 ETimeout E2).
      cbn [fst]. rewrite Hp, Hp0. eexists. reflexivity.
  - set (P := fun it => scan_p01 c it inp sc).
    assert (HP : Good (TimeoutAt j) (P Never) (P (TimeoutAt j))).
    { unfold P, scan_p01, scan_p0, scan_p1. apply good_bind; [apply good_ac_phase; exact Hit|]. intros _.
      apply good_bind; [destruct (c_direct c); [apply good_ret|apply good_send_imports; exact Hit]|]. intros _.
      apply good_eval_globals. exact Hit. }
    assert (Hassoc : forall it, bindM (scan_p0 c it inp) (fun _ : unit => bindM (scan_p1 c it inp sc) (scan_rest c it inp sc)) s0
                                = bindM (P it) (scan_rest c it inp sc) s0).
    { intros it. unfold P, scan_p01, bindM. destruct (scan_p0 c it inp s0) as [st [u|e]]; reflexivity. }
    rewrite !Hassoc.
    destruct HP as [_ SP]. specialize (SP s0 ltac:(cbn [insync]; lia)).
    assert (Esame : P (TimeoutAt j) s0 = P Never s0 /\ nchecks (fst (P Never s0)) < j).
    { destruct SP as [[Hs1 Eq]|[_ [Hat [Hck _]]]].
      - split; [exact Eq|]. exact Hafter.
      - exfalso. cbn [atpoint] in Hat. fold (P Never) in Hafter. lia. }
    destruct Esame as [Esame HsyncG]. clear SP.
    unfold bindM. rewrite Esame.
    destruct (P Never s0) as [sG rG]. cbn [fst] in HsyncG.
    destruct rG as [xu|e]; [|exists []; symmetry; apply app_nil_r].
    exact (scan_rest_prefix c j inp sc xu sG Hcb HsyncG).
Qed.

(* state in which the full pass starts after an undecided first pass *)
Definition pass2_start (c : cfg) (inp : inputs) (sc : scanner) : sstate :=
  fst (clear_pend (fst (eval_without_matches c Never inp sc s_init))).

(* C15, list API, configurations with the first evaluation pass: the rules returned with the Timeout
   error are a prefix of the rules of the complete scan, provided the timeout does not fire while
   global rules are being evaluated (in either pass) *)
Theorem timeout_rules_prefix_noscan c j inp sc :
  c_cb c = false -> can_noscan c = true -> 1 <= j ->
  wf_scanner inp sc = true -> ns_bound (s_nns sc) (s_globals sc) -> ns_bound (s_nns sc) (s_rules sc) ->
  nchecks (fst (pass1_globals c Never inp sc s_init)) < j ->
  (nchecks (pass2_start c inp sc) < j ->
   j <= nchecks (pass2_start c inp sc) + i_ac_checks inp
   \/ nchecks (fst (scan_p01 c Never inp sc (pass2_start c inp sc))) < j) ->
  exists more, o_rules (run_scan c Never inp sc) = o_rules (run_scan c (TimeoutAt j) inp sc) ++ more.
Proof.
  intros Hcb Hns Hj Hw Hbg Hbr Hglob Hsecond.
  assert (Hit : TimeoutAt j <> Never) by discriminate.
  pose proof (can_noscan_nm c Hns) as Hnm.
  (* the complete run *)
  destruct (do_scan_noscan_list c inp sc Hcb Hns Hw Hbg Hbr s_init eq_refl) as [kN EN].
  unfold run_scan. fold s_init. rewrite EN. cbn [o_rules pend upd]. rewrite Hcb.
  rewrite do_scan_noscan_split in EN |- * by exact Hns.
  assert (HI : forall it, imports_first c it inp s_init = (s_init, inl tt)).
  { intros it. unfold imports_first, send_imports. rewrite Hcb. destruct (c_direct c); reflexivity. }
  unfold bindM at 1 in EN. rewrite HI in EN. unfold bindM at 1. rewrite HI.
  set (P1 := fun it => eval_without_matches c it inp sc).
  assert (HextP1 : Ext (P1 Never)) by (apply (good_eval_without_matches c (AbortAt 1) ltac:(discriminate) inp sc)).
  assert (HdsN : ds_rest c Never inp sc s_init = bindM (P1 Never) (after_pass1 c Never inp sc) s_init).
  { unfold ds_rest, bindM. rewrite (on_timeout_noop (eval_without_matches c Never inp sc)) by apply HextP1. reflexivity. }
  rewrite HdsN in EN.
  destruct (good_eval_without_matches c (TimeoutAt j) Hit inp sc) as [_ SP1].
  specialize (SP1 s_init ltac:(cbn [insync s_init nchecks]; lia)). fold (P1 Never) (P1 (TimeoutAt j)) in SP1.
  destruct SP1 as [[Hs1 Eq]|[Er [Hat [Hck _]]]].
  - (* the first pass completes identically *)
    assert (HdsT : ds_rest c (TimeoutAt j) inp sc s_init
                   = bindM (P1 Never) (after_pass1 c (TimeoutAt j) inp sc) s_init).
    { unfold ds_rest, bindM. fold (P1 (TimeoutAt j)).
      rewrite on_timeout_noop by (rewrite Eq; apply HextP1). rewrite Eq. reflexivity. }
    rewrite HdsT. unfold bindM in EN |- *.
    unfold pass2_start in Hsecond. fold (P1 Never) in Hsecond.
    destruct (P1 Never s_init) as [s1 r1]. cbn [fst] in Hs1, Hsecond.
    destruct r1 as [r|e]; [|discriminate EN].
    destruct r; cbn [after_pass1] in EN |- *.
    + (* decided without the string scan: nothing more is checked *)
      unfold flush in EN |- *. rewrite Hcb in EN |- *. unfold ret in EN |- *.
      injection EN as EN. cbn [o_rules]. rewrite EN. cbn [pend upd]. exists []. symmetry. apply app_nil_r.
    + unfold bindM, clear_pend in EN |- *. unfold clear_pend in Hsecond. cbn [fst nchecks] in Hsecond.
      set (s1' := {| pend := []; evs := evs s1; nchecks := nchecks s1 |}) in *.
      destruct (full_scan_pend_prefix c j inp sc s1' Hcb eq_refl Hs1 (Hsecond Hs1)) as [more Em].
      rewrite EN in Em. cbn [fst pend upd] in Em.
      destruct (full_scan c (TimeoutAt j) inp sc s1') as [s2 r2]. cbn [fst o_rules] in *.
      exists more. exact Em.
  - (* the timeout fires inside the first pass, after the global rules *)
    cbn [atpoint] in Hat. clear EN HdsN.
    unfold ds_rest. unfold bindM at 1. fold (P1 (TimeoutAt j)).
    assert (HP1T : P1 (TimeoutAt j) s_init
                   = bindM (pass1_globals c (TimeoutAt j) inp sc) (pass1_rest c (TimeoutAt j) inp sc) s_init)
      by apply pass1_split.
    destruct (good_eval_globals c (TimeoutAt j) Hit inp (s_globals sc) (ctx0 sc None) false) as [_ SG].
    specialize (SG s_init ltac:(cbn [insync s_init nchecks]; lia)).
    fold (pass1_globals c Never inp sc) (pass1_globals c (TimeoutAt j) inp sc) in SG.
    assert (EG : pass1_globals c (TimeoutAt j) inp sc s_init = pass1_globals c Never inp sc s_init).
    { destruct SG as [[_ E]|[_ [Hat' [Hck' _]]]]; [exact E|]. exfalso. cbn [atpoint] in Hat'. lia. }
    pose proof Hw as Hw'. unfold wf_scanner in Hw'. apply andb_true_iff in Hw' as [Hwg Hwr].
    unfold pass1_globals, ctx0 in *.
    destruct (eval_globals_pass1 c inp (s_globals sc) (repeat false (s_nns sc)) (repeat false (s_nns sc))
                (i_matches inp) false s_init eq_refl (fun ns H => H) Hwg ltac:(rewrite repeat_length; exact Hbg))
      as [k1 [dis1 [reps1 [unk [E1 [Hl1 [Hsub1 Heq]]]]]]].
    cbn [orb] in E1. cbn [pend s_init app] in E1.
    rewrite (g_fold_ms _ c inp (s_globals sc) _ (repeat false (s_nns sc)) (i_matches inp)) in Hwr.
    unfold bindM in HP1T. unfold pass1_globals, ctx0 in HP1T. rewrite EG in HP1T. rewrite E1 in HP1T.
    unfold pass1_rest in HP1T. cbn [fst snd] in HP1T. unfold all_disabled in HP1T. cbn [x_disabled] in HP1T.
    destruct (forallb (fun b : bool => b) dis1) eqn:Eall.
    { exfalso. rewrite HP1T in Er. unfold bindM, clear_pend, ret in Er. cbn [snd] in Er. discriminate. }
    destruct unk.
    { exfalso. rewrite HP1T in Er. unfold ret in Er. cbn [snd] in Er. discriminate. }
    destruct (Heq eq_refl eq_refl) as [Hd Hr]. subst dis1 reps1.
    set (D := fst (fst (g_fold c inp (repeat false (s_nns sc)) (i_matches inp) (s_globals sc)))) in *.
    set (m := snd (fst (g_fold c inp (repeat false (s_nns sc)) (i_matches inp) (s_globals sc)))) in *.
    set (greps := snd (g_fold c inp (repeat false (s_nns sc)) (i_matches inp) (s_globals sc))) in *.
    set (x := {| x_matches := None; x_prev := []; x_disabled := D |}) in *.
    unfold bindM in HP1T. rewrite fixup_list' in HP1T. cbn [x_disabled pend upd evs nchecks] in HP1T.
    set (sF := upd (upd s_init greps k1) (fix_list c (x_disabled x) greps) k1) in *.
    destruct (goodp_eval_rules c (TimeoutAt j) Hit inp (s_rules sc) x false) as [_ SR].
    specialize (SR sF ltac:(subst sF; cbn [insync nchecks upd];
                             pose proof Hglob as Hg'; rewrite E1 in Hg'; cbn [fst nchecks upd] in Hg'; exact Hg')).
    destruct (eval_rules_pass1 c inp (s_rules sc) D m [] sF Hwr) as [k2 [ok [reps [E2 [_ [rest Hrest]]]]]].
    fold x in E2.
    destruct SR as [[_ EqR]|[ErR [more Em]]].
    { exfalso. rewrite HP1T in Er. rewrite EqR, E2 in Er. unfold ret in Er. cbn [snd] in Er. discriminate. }
    unfold on_timeout. rewrite HP1T. rewrite E2 in Em. cbn [fst pend upd] in Em.
    destruct (eval_rules c (TimeoutAt j) inp x (s_rules sc) false sF) as [s2 r2] eqn:ET. cbn [fst snd] in *. subst r2.
    cbn [ierr]. unfold bindM at 1. unfold flush. rewrite Hcb. unfold ret, fail. cbn [o_rules].
    (* pend s2 is a prefix of the complete result *)
    unfold scan_result. fold D m greps.
    destruct (g_fold c inp (repeat false (s_nns sc)) (i_matches inp) (s_globals sc)) as [[D' m'] g'] eqn:Eg.
    cbn [fst snd] in *. subst D m greps. rewrite Hnm. cbn [negb andb]. rewrite Eall.
    exists (more ++ rest). rewrite Hrest. rewrite (app_assoc (pend s2)). rewrite <- Em. subst sF x. cbn [pend upd x_disabled].
    rewrite app_assoc. reflexivity.
Qed.
