(* Proofs/NoScanScannerProofs.v — the evaluation pass done before the string scan, at the level of the
   whole rule set: whenever it decides (NSDone) the rules it leaves pending are exactly those the full
   pass reports; otherwise its results are discarded and the full pass runs.  Hence the list of reported
   rules does not depend on whether the no-scan optimisation is allowed. *)
From Boreal Require Import Base.Prelude Base.Res Model.Eval Spec.CondSem Model.EvalCost Model.Scanner
     Spec.RuleSetSpec Proofs.NoScanProofs Proofs.SemProofs Proofs.ScannerProofs Proofs.InterruptProofs.

Lemma ectx_eta x : {| x_matches := x_matches x; x_prev := x_prev x; x_disabled := x_disabled x |} = x.
Proof. destruct x; reflexivity. Qed.

(* one rule in the first pass: decided with the verdict of the full pass, or undecidable *)
Lemma eval_rule_inner_pass1 c inp x ms r cb :
  c_cb c && cb = false -> x_matches x = None -> wf_rule inp ms (length (x_prev x)) r = true ->
  forall s, exists k,
    eval_rule_inner c Never inp x r cb s
    = (upd s (pend s ++ reported_of c r (pure_verdict inp (x_disabled x) ms (x_prev x) r)) k,
       inl (x, RBool (pure_verdict inp (x_disabled x) ms (x_prev x) r)))
    \/ (nth (r_ns r) (x_disabled x) false = false
        /\ eval_rule_inner c Never inp x r cb s = (upd s (pend s) k, inl (x, RUndecidable))).
Proof.
  intros Hcb Hm Hw s. unfold eval_rule_inner, pure_verdict, reported_of, ns_disabled. rewrite Hm, Hcb.
  replace {| x_matches := None; x_prev := x_prev x; x_disabled := x_disabled x |} with x
    by (rewrite <- Hm; symmetry; apply ectx_eta).
  destruct (nth (r_ns r) (x_disabled x) false) eqn:Ed.
  - cbn [orb]. destruct (r_private r); cbn [negb andb].
    + exists (nchecks s). left. unfold ret. rewrite app_nil_r, upd_id. reflexivity.
    + destruct (c_nm c).
      * exists (nchecks s). left. unfold bindM, push, ret. reflexivity.
      * exists (nchecks s). left. unfold ret. rewrite app_nil_r, upd_id. reflexivity.
  - unfold bindM.
    set (e0 := {| e_matches := None; e_prev := x_prev x; e_ext := i_ext inp;
                  e_filesize := i_filesize inp; e_mem := i_mem inp |}).
    destruct (tick_never (cost_rule e0 (r_cond r)) s) as [k Hk]. rewrite Hk.
    change e0 with (en0 (x_prev x) (i_ext inp) (i_filesize inp) (i_mem inp)).
    pose proof (no_scan_sound (firstn (r_nvars r) ms) (x_prev x) (i_ext inp) (i_filesize inp) (i_mem inp)
                  (r_cond r) None [] Hw I (Forall_nil _)) as [Href Hnp].
    pose proof (rule_verdict_sem (firstn (r_nvars r) ms) (x_prev x) (i_ext inp) (i_filesize inp) (i_mem inp)
                  (r_cond r) Hw) as Hsem.
    fold (rule_q inp ms (x_prev x) r) in Hsem.
    unfold eval_rule in *.
    change (NoScanProofs.enM (firstn (r_nvars r) ms) (x_prev x) (i_ext inp) (i_filesize inp) (i_mem inp))
      with (envM (firstn (r_nvars r) ms) (x_prev x) (i_ext inp) (i_filesize inp) (i_mem inp)) in *.
    destruct Href as [E|E]; rewrite E.
    + (* undecidable *)
      exists k. right. split; [reflexivity|]. unfold ret. reflexivity.
    + (* decided: the same answer as with the matches *)
      set (v := sem_rule (rule_q inp ms (x_prev x) r) (r_cond r)) in *.
      assert (Ev : match eval (envM (firstn (r_nvars r) ms) (x_prev x) (i_ext inp) (i_filesize inp) (i_mem inp)) None [] (r_cond r) with
                   | Ok v0 => Ok (truthy v0) | Undef => Ok false | Needed => Needed | Panic => Panic end = Ok v) by exact Hsem.
      rewrite Ev.
      destruct (r_private r); cbn [negb andb].
      * exists k. left. unfold ret. cbn [pend upd]. rewrite app_nil_r. reflexivity.
      * destruct (v || c_nm c).
        -- exists k. left. unfold push, ret. reflexivity.
        -- exists k. left. unfold ret. cbn [pend upd]. rewrite app_nil_r. reflexivity.
Qed.

Definition sub_flags (a b : list bool) : Prop := forall ns, nth ns a false = true -> nth ns b false = true.

Lemma sub_flags_set a b n : length a = length b -> sub_flags a b -> sub_flags (set_nth a n true) (set_nth b n true).
Proof.
  intros Hl H ns. destruct (Nat.eq_dec n ns) as [->|Hne].
  - destruct (Nat.lt_ge_cases ns (length a)) as [Hlt|Hge].
    + rewrite !nth_set_nth_eq by lia. trivial.
    + rewrite nth_overflow by (rewrite set_nth_length; lia). discriminate.
  - rewrite !nth_set_nth_neq by assumption. apply H.
Qed.

Lemma sub_flags_set_r a b n : sub_flags a b -> sub_flags a (set_nth b n true).
Proof.
  intros H ns Ha. destruct (Nat.eq_dec n ns) as [->|Hne].
  - destruct (Nat.lt_ge_cases ns (length b)) as [Hlt|Hge].
    + apply nth_set_nth_eq. exact Hlt.
    + specialize (H ns Ha). rewrite nth_overflow in H by lia. discriminate.
  - rewrite nth_set_nth_neq by assumption. apply H. exact Ha.
Qed.

Lemma g_fold_sub c inp gs : forall dis ms, ns_bound (length dis) gs ->
  sub_flags dis (fst (fst (g_fold c inp dis ms gs))).
Proof. intros dis ms Hb ns H. apply g_fold_mono; assumption. Qed.

(* the global rules in the first pass, against the pure fold of the full pass *)
Lemma eval_globals_pass1 c inp gs :
  forall dis_a dis_b ms u s,
    length dis_a = length dis_b -> sub_flags dis_a dis_b ->
    wf_globals inp ms gs = true -> ns_bound (length dis_a) gs ->
    exists k dis1 reps1 unk,
      eval_globals c Never inp {| x_matches := None; x_prev := []; x_disabled := dis_a |} gs u s
      = (upd s (pend s ++ reps1) k, inl ({| x_matches := None; x_prev := []; x_disabled := dis1 |}, u || unk))
      /\ length dis1 = length dis_a
      /\ sub_flags dis1 (fst (fst (g_fold c inp dis_b ms gs)))
      /\ (unk = false -> dis_a = dis_b ->
          dis1 = fst (fst (g_fold c inp dis_b ms gs)) /\ reps1 = snd (g_fold c inp dis_b ms gs)).
Proof.
  induction gs as [|g gs IH]; intros dis_a dis_b ms u s Hl Hsub Hw Hb; cbn [eval_globals g_fold wf_globals] in *.
  - exists (nchecks s), dis_a, [], false. unfold ret. rewrite app_nil_r, upd_id, orb_false_r. cbn [fst snd].
    split; [reflexivity|]. split; [reflexivity|]. split; [exact Hsub|]. intros _ E. split; [exact E|reflexivity].
  - apply andb_true_iff in Hw as [Hw1 Hw2]. inversion Hb as [|? ? Hg Hrest]; subst.
    unfold bindM at 1.
    destruct (eval_rule_inner_pass1 c inp {| x_matches := None; x_prev := []; x_disabled := dis_a |} ms g false
                (andb_false_r _) eq_refl Hw1 s) as [k1 [E1|[Hnd E1]]]; rewrite E1; cbn [x_disabled x_prev] in *.
    + (* decided in the first pass *)
      set (va := pure_verdict inp dis_a ms [] g). set (vb := pure_verdict inp dis_b ms [] g).
      set (dis_a' := if va then dis_a else set_nth dis_a (r_ns g) true).
      set (dis_b' := if vb then dis_b else set_nth dis_b (r_ns g) true).
      assert (Hla : length dis_a' = length dis_a) by (subst dis_a'; destruct va; [reflexivity|apply set_nth_length]).
      assert (Hlb : length dis_b' = length dis_b) by (subst dis_b'; destruct vb; [reflexivity|apply set_nth_length]).
      assert (Hsub' : sub_flags dis_a' dis_b').
      { subst dis_a' dis_b' va vb. unfold pure_verdict.
        destruct (nth (r_ns g) dis_a false) eqn:Ea.
        - rewrite (Hsub _ Ea). apply sub_flags_set; assumption.
        - destruct (nth (r_ns g) dis_b false) eqn:Eb.
          + destruct (sem_rule (rule_q inp ms [] g) (r_cond g)).
            * apply sub_flags_set_r. exact Hsub.
            * apply sub_flags_set; assumption.
          + destruct (sem_rule (rule_q inp ms [] g) (r_cond g)); [exact Hsub|apply sub_flags_set; assumption]. }
      destruct (IH dis_a' dis_b' (skipn (r_nvars g) ms) u (upd s (pend s ++ reported_of c g va) k1)
                  ltac:(lia) Hsub' Hw2 ltac:(rewrite Hla; exact Hrest)) as [k2 [dis1 [reps1 [unk [E2 [Hl1 [Hs1 Heq]]]]]]].
      destruct (g_fold c inp dis_b' (skipn (r_nvars g) ms) gs) as [[D m] reps] eqn:Eg. cbn [fst snd] in *.
      exists k2, dis1, (reported_of c g va ++ reps1), unk.
      split.
      { cbn [x_matches]. subst dis_a'. destruct va; cbn iota in E2; rewrite E2; cbn [pend upd evs];
          rewrite <- app_assoc; reflexivity. }
      split; [lia|]. split; [exact Hs1|].
      intros Hu Hab. subst dis_b. assert (va = vb) by reflexivity.
      assert (dis_a' = dis_b') by (subst dis_a' dis_b'; rewrite H; reflexivity).
      destruct (Heq Hu H0) as [Hd Hr]. split; [exact Hd|]. rewrite Hr. fold vb. rewrite <- H. reflexivity.
    + (* undecidable: the flags do not change in the first pass *)
      set (vb := pure_verdict inp dis_b ms [] g).
      set (dis_b' := if vb then dis_b else set_nth dis_b (r_ns g) true).
      assert (Hlb : length dis_b' = length dis_b) by (subst dis_b'; destruct vb; [reflexivity|apply set_nth_length]).
      assert (Hsub' : sub_flags dis_a dis_b').
      { subst dis_b'. destruct vb; [exact Hsub|apply sub_flags_set_r; exact Hsub]. }
      destruct (IH dis_a dis_b' (skipn (r_nvars g) ms) true (upd s (pend s) k1)
                  ltac:(lia) Hsub' Hw2 Hrest) as [k2 [dis1 [reps1 [unk [E2 [Hl1 [Hs1 Heq]]]]]]].
      destruct (g_fold c inp dis_b' (skipn (r_nvars g) ms) gs) as [[D m] reps] eqn:Eg. cbn [fst snd] in *.
      exists k2, dis1, reps1, true. rewrite E2. cbn [pend upd evs orb].
      split; [rewrite orb_true_r; reflexivity|]. split; [exact Hl1|]. split; [exact Hs1|]. discriminate.
Qed.

Lemma eval_rules_pass1 c inp rs :
  forall dis ms prev s, wf_rules inp ms (length prev) rs = true ->
  exists k ok reps,
    eval_rules c Never inp {| x_matches := None; x_prev := prev; x_disabled := dis |} rs false s
    = (upd s (pend s ++ reps) k, inl ok)
    /\ (ok = true -> reps = r_fold c inp dis ms prev rs)
    /\ (exists rest, r_fold c inp dis ms prev rs = reps ++ rest).
Proof.
  induction rs as [|r rs IH]; intros dis ms prev s Hw; cbn [eval_rules r_fold wf_rules] in *.
  - exists (nchecks s), true, []. unfold ret. rewrite app_nil_r, upd_id. split; [reflexivity|]. split; [reflexivity|].
    exists []. reflexivity.
  - apply andb_true_iff in Hw as [Hw1 Hw2].
    unfold bindM.
    destruct (eval_rule_inner_pass1 c inp {| x_matches := None; x_prev := prev; x_disabled := dis |} ms r false
                (andb_false_r _) eq_refl Hw1 s) as [k1 [E1|[_ E1]]]; rewrite E1; cbn [x_disabled x_prev x_matches].
    + set (v := pure_verdict inp dis ms prev r).
      assert (Hlen : length (prev ++ [v]) = S (length prev)) by (rewrite app_length; cbn; lia).
      rewrite <- Hlen in Hw2.
      destruct (IH dis (skipn (r_nvars r) ms) (prev ++ [v]) (upd s (pend s ++ reported_of c r v) k1) Hw2)
        as [k2 [ok [reps [E2 [Hok [rest Hrest]]]]]].
      exists k2, ok, (reported_of c r v ++ reps). rewrite E2. cbn [pend upd evs]. rewrite <- app_assoc.
      split; [reflexivity|]. split.
      * intros H. rewrite (Hok H). reflexivity.
      * exists rest. rewrite Hrest. apply app_assoc.
    + exists k1, false, []. unfold ret. rewrite app_nil_r. split; [reflexivity|]. split; [discriminate|].
      eexists. reflexivity.
Qed.

Lemma sub_flags_all a b : length a = length b -> sub_flags a b ->
  forallb (fun x : bool => x) a = true -> forallb (fun x : bool => x) b = true.
Proof.
  revert b; induction a as [|x a IH]; intros [|y b] Hl Hs Ha; cbn [forallb length] in *; try lia; try reflexivity.
  apply andb_true_iff in Ha as [Hx Ha]. apply andb_true_iff. split.
  - apply (Hs 0%nat). exact Hx.
  - apply IH; [lia| |exact Ha]. intros ns H. apply (Hs (S ns)). exact H.
Qed.

Lemma upd_upd s p k p' k' : upd (upd s p k) p' k' = upd s p' k'.
Proof. reflexivity. Qed.

Lemma can_noscan_nm c : can_noscan c = true -> c_nm c = false.
Proof.
  unfold can_noscan. intros H. apply andb_true_iff in H as [H _]. apply andb_true_iff in H as [_ H].
  apply negb_true_iff in H. exact H.
Qed.

(* the whole scan when the no-scan pass is allowed, list API *)
Theorem do_scan_noscan_list c inp sc :
  c_cb c = false -> can_noscan c = true ->
  wf_scanner inp sc = true -> ns_bound (s_nns sc) (s_globals sc) -> ns_bound (s_nns sc) (s_rules sc) ->
  forall s, pend s = [] ->
  exists k, do_scan c Never inp sc s = (upd s (scan_result c inp sc) k, inl tt).
Proof.
  intros Hcb Hns Hw Hbg Hbr s Hp. pose proof (can_noscan_nm c Hns) as Hnm.
  pose proof Hw as Hw'. unfold wf_scanner in Hw'. apply andb_true_iff in Hw' as [Hwg Hwr].
  unfold do_scan. rewrite Hns. unfold bindM at 1.
  replace ((if c_direct c then send_imports c Never inp else ret tt) s) with (s, @inl unit err tt)
    by (destruct (c_direct c); [rewrite send_imports_list by exact Hcb; reflexivity|reflexivity]).
  unfold bindM at 1.
  rewrite InterruptProofs.on_timeout_noop
    by (destruct (InterruptProofs.good_eval_without_matches c (AbortAt 1) ltac:(discriminate) inp sc) as [E _];
        apply E).
  unfold eval_without_matches. unfold bindM at 1. unfold ctx0.
  destruct (eval_globals_pass1 c inp (s_globals sc) (repeat false (s_nns sc)) (repeat false (s_nns sc))
              (i_matches inp) false s eq_refl (fun ns H => H) Hwg ltac:(rewrite repeat_length; exact Hbg))
    as [k1 [dis1 [reps1 [unk [E1 [Hl1 [Hs1 Heq]]]]]]].
  rewrite E1. clear E1. cbn [orb]. rewrite Hp. cbn [app].
  rewrite (g_fold_ms _ c inp (s_globals sc) _ (repeat false (s_nns sc)) (i_matches inp)) in Hwr.
  pose proof (g_fold_length c inp (s_globals sc) (repeat false (s_nns sc)) (i_matches inp)) as HlD.
  unfold scan_result.
  destruct (g_fold c inp (repeat false (s_nns sc)) (i_matches inp) (s_globals sc)) as [[D m] greps] eqn:Eg.
  cbn [fst snd] in *. rewrite Hnm. cbn [negb andb].
  unfold all_disabled. cbn [x_disabled].
  destruct (forallb (fun b : bool => b) dis1) eqn:Eall.
  - (* every namespace already disabled in the first pass *)
    rewrite (sub_flags_all dis1 D ltac:(lia) Hs1 Eall).
    unfold bindM, clear_pend, ret, flush. rewrite Hcb. exists k1. reflexivity.
  - destruct unk.
    + (* an undecided global rule: the first pass is discarded *)
      unfold ret at 1. unfold bindM at 1. unfold clear_pend.
      destruct (full_scan_list c inp sc Hcb Hw {| pend := []; evs := evs s; nchecks := k1 |} eq_refl) as [k2 E2].
      cbn [upd pend evs nchecks]. rewrite E2. exists k2. unfold scan_result. rewrite Eg, Hnm. reflexivity.
    + destruct (Heq eq_refl eq_refl) as [-> ->]. rewrite Eall.
      unfold bindM at 1. rewrite fixup_list'. cbn [x_disabled pend upd evs nchecks].
      unfold bindM at 1.
      match goal with |- context [eval_rules c Never inp ?x (s_rules sc) false ?st] =>
        destruct (eval_rules_pass1 c inp (s_rules sc) D m [] st Hwr) as [k2 [ok [reps [E2 [Hok _]]]]]; rewrite E2
      end.
      destruct ok.
      * (* every rule decided: the pending rules are the result *)
        rewrite (Hok eq_refl).
        unfold ret, flush. rewrite Hcb. unfold ret. cbn [pend upd evs]. exists k2. reflexivity.
      * (* some rule needs its strings: the first pass is discarded *)
        unfold ret at 1. unfold bindM at 1. unfold clear_pend. cbn [pend upd evs nchecks].
        destruct (full_scan_list c inp sc Hcb Hw {| pend := []; evs := evs s; nchecks := k2 |} eq_refl) as [k3 E3].
        rewrite E3. exists k3. unfold scan_result. rewrite Eg, Hnm. cbn [negb andb]. rewrite Eall. reflexivity.
Qed.

(* C06 at the level of the scanner: whether or not the no-scan pass is allowed, the list API returns the
   rules of the declarative semantics *)
Theorem run_scan_list_spec_any c inp sc :
  c_cb c = false ->
  wf_scanner inp sc = true -> ns_bound (s_nns sc) (s_globals sc) -> ns_bound (s_nns sc) (s_rules sc) ->
  o_err (run_scan c Never inp sc) = None
  /\ o_rules (run_scan c Never inp sc) = spec_reported sc inp (c_nm c).
Proof.
  intros Hcb Hw Hbg Hbr. destruct (can_noscan c) eqn:Hns.
  - unfold run_scan.
    destruct (do_scan_noscan_list c inp sc Hcb Hns Hw Hbg Hbr {| pend := []; evs := []; nchecks := 0 |} eq_refl) as [k E].
    rewrite E. cbn [o_err o_rules upd pend]. rewrite Hcb. split; [reflexivity|]. apply scan_result_spec; assumption.
  - destruct (run_scan_list_spec c inp sc Hcb Hns Hw Hbg Hbr) as [H1 [H2 _]]. split; assumption.
Qed.

(* matched rules do not depend on include_not_matched *)
Lemma filter_map_comm {A B} (f : A -> B) (p : B -> bool) l : filter p (map f l) = map f (filter (fun x => p (f x)) l).
Proof.
  induction l as [|x l IH]; cbn [map filter]; [reflexivity|]. destruct (p (f x)); cbn [map]; rewrite IH; reflexivity.
Qed.

Lemma filter_filter {A} (p q : A -> bool) l : filter p (filter q l) = filter (fun x => q x && p x) l.
Proof.
  induction l as [|x l IH]; cbn [filter]; [reflexivity|].
  destruct (q x); cbn [filter andb]; [destruct (p x)|]; rewrite IH; reflexivity.
Qed.

Lemma spec_matched_nm sc inp nm :
  filter er_matched (spec_reported sc inp nm) = spec_reported sc inp false.
Proof.
  unfold spec_reported. rewrite filter_map_comm. cbn [er_matched]. rewrite filter_filter. f_equal.
  apply SemProofs.filter_ext_in'. intros [r b]. cbn [fst snd].
  destruct (r_private r), b, nm; reflexivity.
Qed.

Theorem scan_options_same_matches c1 c2 inp sc :
  c_cb c1 = false -> c_cb c2 = false ->
  wf_scanner inp sc = true -> ns_bound (s_nns sc) (s_globals sc) -> ns_bound (s_nns sc) (s_rules sc) ->
  filter er_matched (o_rules (run_scan c1 Never inp sc)) = filter er_matched (o_rules (run_scan c2 Never inp sc)).
Proof.
  intros H1 H2 Hw Hbg Hbr.
  destruct (run_scan_list_spec_any c1 inp sc H1 Hw Hbg Hbr) as [_ E1].
  destruct (run_scan_list_spec_any c2 inp sc H2 Hw Hbg Hbr) as [_ E2].
  rewrite E1, E2, !spec_matched_nm. reflexivity.
Qed.
