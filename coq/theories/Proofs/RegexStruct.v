(* Proofs/RegexStruct.v — structural facts about `ends` (Spec/Regex.v): induction principle for the
   nested datatype, range of the results, concatenation, runs of single-byte leaves. *)
From Boreal Require Import Base.Prelude Spec.Regex Proofs.RegexBasics.

(* ------------------------------------------------------------------ induction principle *)
Section HirInd.
  Variable P : hir -> Prop.
  Hypothesis Halt : forall l, Forall P l -> P (HAlt l).
  Hypothesis Hassert : forall k, P (HAssert k).
  Hypothesis Hclass : forall c, P (HClass c).
  Hypothesis Hmask : forall v m n, P (HMask v m n).
  Hypothesis Hconcat : forall l, Forall P l -> P (HConcat l).
  Hypothesis Hdot : P HDot.
  Hypothesis Hempty : P HEmpty.
  Hypothesis Hlit : forall b, P (HLit b).
  Hypothesis Hgroup : forall h, P h -> P (HGroup h).
  Hypothesis Hrep : forall h k g, P h -> P (HRep h k g).

  Fixpoint hir_ind2 (h : hir) : P h :=
    match h with
    | HAlt l => Halt l ((fix go (l : list hir) : Forall P l :=
                           match l with [] => Forall_nil _ | x :: r => Forall_cons _ (hir_ind2 x) (go r) end) l)
    | HAssert k => Hassert k
    | HClass c => Hclass c
    | HMask v m n => Hmask v m n
    | HConcat l => Hconcat l ((fix go (l : list hir) : Forall P l :=
                                 match l with [] => Forall_nil _ | x :: r => Forall_cons _ (hir_ind2 x) (go r) end) l)
    | HDot => Hdot
    | HEmpty => Hempty
    | HLit b => Hlit b
    | HGroup h' => Hgroup h' (hir_ind2 h')
    | HRep h' k g => Hrep h' k g (hir_ind2 h')
    end.
End HirInd.

(* ------------------------------------------------------------------ unfolding equations *)
Definition cat_ends (fl : rflags) (mem : list N) : list hir -> N -> list N :=
  fix cat (l : list hir) : N -> list N :=
    match l with [] => fun i => [i] | h' :: r => fun i => bind (ends fl mem h' i) (cat r) end.

Lemma ends_concat fl mem l : ends fl mem (HConcat l) = cat_ends fl mem l.
Proof. reflexivity. Qed.

Lemma cat_ends_nil fl mem i : cat_ends fl mem [] i = [i].
Proof. reflexivity. Qed.

Lemma cat_ends_cons fl mem x r i : cat_ends fl mem (x :: r) i = bind (ends fl mem x i) (cat_ends fl mem r).
Proof. reflexivity. Qed.

Definition alt_ends (fl : rflags) (mem : list N) (i : N) : list hir -> list N :=
  fix alts (l : list hir) : list N :=
    match l with [] => [] | h' :: r => ends fl mem h' i ++ alts r end.

Lemma ends_alt fl mem l i : ends fl mem (HAlt l) i = dedup (alt_ends fl mem i l).
Proof. reflexivity. Qed.

Lemma alt_ends_In fl mem i l j : In j (alt_ends fl mem i l) <-> exists x, In x l /\ In j (ends fl mem x i).
Proof.
  induction l as [|y r IH]; cbn [alt_ends In].
  - split; [tauto|intros (x & [] & _)].
  - rewrite in_app_iff, IH. split.
    + intros [H|(x & H1 & H2)]; [exists y; auto|exists x; auto].
    + intros (x & [->|H1] & H2); [auto|right; eauto].
Qed.

(* ------------------------------------------------------------------ range *)
Lemma byte_at_Some mem i b : byte_at mem i = Some b -> i < nlen mem.
Proof.
  unfold byte_at, nlen. intros H.
  assert (N.to_nat i < length mem)%nat by (apply nth_error_Some; congruence). lia.
Qed.

Lemma step1_range w p mem i j : In j (step1 w p mem i) -> i <= j <= nlen mem.
Proof.
  unfold step1. destruct (byte_at mem i) as [b|] eqn:E; [|intros []].
  apply byte_at_Some in E. destruct (p b); [|intros []].
  destruct w.
  - unfold is_nul_at. destruct (byte_at mem (i + 1)) as [c|] eqn:E2; [|intros []].
    apply byte_at_Some in E2. destruct (c =? 0); [|intros []]. intros [<-|[]]. lia.
  - intros [<-|[]]. lia.
Qed.

Lemma ends_ge fl mem h : forall i j, In j (ends fl mem h i) -> i <= j.
Proof.
  induction h using hir_ind2; intros i j.
  - rewrite ends_alt, dedup_In, alt_ends_In. intros (x & Hx & Hj).
    rewrite Forall_forall in H. eapply H; eauto.
  - cbn [ends]. destruct (assert_ok _ _ _ _); [intros [<-|[]]; lia|intros []].
  - cbn [ends]. intros Hj. apply step1_range in Hj. lia.
  - cbn [ends]. intros Hj. apply step1_range in Hj. lia.
  - rewrite ends_concat. revert i j.
    induction H as [|x r Hx Hr IH]; intros i j.
    + rewrite cat_ends_nil. intros [<-|[]]. lia.
    + rewrite cat_ends_cons, bind_In. intros (y & Hy & Hj).
      apply Hx in Hy. apply IH in Hj. lia.
  - cbn [ends]. intros Hj. apply step1_range in Hj. lia.
  - cbn [ends]. intros [<-|[]]. lia.
  - cbn [ends]. intros Hj. apply step1_range in Hj. lia.
  - cbn [ends]. apply IHh.
  - cbn [ends]. intros Hj. apply filter_In in Hj as [_ Hj]. lia.
Qed.

Lemma ends_le fl mem h : forall i j, i <= nlen mem -> In j (ends fl mem h i) -> j <= nlen mem.
Proof.
  induction h using hir_ind2; intros i j Hi.
  - rewrite ends_alt, dedup_In, alt_ends_In. intros (x & Hx & Hj).
    rewrite Forall_forall in H. eapply H; eauto.
  - cbn [ends]. destruct (assert_ok _ _ _ _); [intros [<-|[]]; lia|intros []].
  - cbn [ends]. intros Hj. apply step1_range in Hj. lia.
  - cbn [ends]. intros Hj. apply step1_range in Hj. lia.
  - rewrite ends_concat. revert i j Hi.
    induction H as [|x r Hx Hr IH]; intros i j Hi.
    + rewrite cat_ends_nil. intros [<-|[]]. lia.
    + rewrite cat_ends_cons, bind_In. intros (y & Hy & Hj).
      apply Hx in Hy; [|exact Hi]. eapply IH; eauto.
  - cbn [ends]. intros Hj. apply step1_range in Hj. lia.
  - cbn [ends]. intros [<-|[]]. lia.
  - cbn [ends]. intros Hj. apply step1_range in Hj. lia.
  - cbn [ends]. apply IHh. exact Hi.
  - cbn [ends]. intros Hj. apply filter_In in Hj as [_ Hj]. lia.
Qed.
