(* Proofs/LimitsProofs.v — C14: invariants over the hit sequence.  Limit: the matches of a string never
   exceed string_max_nb_matches, on the atom path (insert, truncate) and on the raw path (test, push,
   test), over any number of regions, for every matcher.  Records: every saved match is
   `StringMatch::new` of some span of the region being scanned.  Prefix (raw path): the limited list
   is the first `lim` matches of the unlimited one. *)
From Boreal Require Import Base.Prelude Base.ListX Base.Bytes Base.Sorted Model.Literals Model.Ac Model.AcScan
  Model.Limits Proofs.AcScanInsert Proofs.AcScanDecomp.

(* ------------------------------------------------------------------ limit *)
Lemma var_step_limit prm rg var vm c :
  nlen vm <= p_max_nb_matches prm -> nlen (var_step prm rg var vm c) <= p_max_nb_matches prm.
Proof.
  intros H. destruct c as [[i s] e]. unfold var_step, var_step_with.
  destruct (confirm_ac_literal var (rg_mem rg) s e i); [apply truncate_len | exact H].
Qed.

Lemma fold_var_step_limit prm rg var cs : forall vm,
  nlen vm <= p_max_nb_matches prm -> nlen (fold_left (var_step prm rg var) cs vm) <= p_max_nb_matches prm.
Proof.
  induction cs as [|c cs IH]; intros vm H; cbn [fold_left]; [exact H|]. apply IH. now apply var_step_limit.
Qed.

Lemma single_loop_limit prm rg var fuel : forall offset vm,
  nlen vm <= p_max_nb_matches prm -> nlen (single_loop fuel prm rg var offset vm) <= p_max_nb_matches prm.
Proof.
  induction fuel as [|fuel IH]; intros offset vm H; cbn [single_loop]; [exact H|].
  destruct (offset <? nlen (rg_mem rg)); [|exact H].
  destruct (p_max_nb_matches prm <=? nlen vm) eqn:E; [exact H|].
  destruct (mt_find_next var (rg_mem rg) offset) as [[s e]|]; [|exact H].
  assert (Hn : nlen (vm ++ [string_match_new prm rg s e 0]) = nlen vm + 1) by (rewrite nlen_app; reflexivity).
  destruct (p_max_nb_matches prm <=? nlen (vm ++ [string_match_new prm rg s e 0])) eqn:E2; [lia|].
  apply IH. lia.
Qed.

Lemma scan_var_region_limit prm var rg vm :
  nlen vm <= p_max_nb_matches prm -> nlen (scan_var_region prm var rg vm) <= p_max_nb_matches prm.
Proof.
  intros H. unfold scan_var_region.
  pose proof (fold_var_step_limit prm rg var (own_cands var rg) vm H) as H1.
  destruct (mt_literals var); [|exact H1]. now apply single_loop_limit.
Qed.

Lemma scan_var_fragmented_limit prm var regions :
  nlen (scan_var_fragmented prm var regions) <= p_max_nb_matches prm.
Proof.
  unfold scan_var_fragmented.
  assert (G : forall vm, nlen vm <= p_max_nb_matches prm ->
    nlen (fold_left (fun vm r => if f_fail r then vm
             else scan_var_region prm var {| rg_start := f_start r; rg_mem := f_mem r |} vm) regions vm)
    <= p_max_nb_matches prm).
  { induction regions as [|r regions IH]; intros vm H; cbn [fold_left]; [exact H|].
    apply IH. destruct (f_fail r); [exact H | now apply scan_var_region_limit]. }
  apply G. cbn. lia.
Qed.

(* every string of every rule set, direct or fragmented *)
Theorem limit_fragmented prm vars regions :
  Forall (fun vm => nlen vm <= p_max_nb_matches prm) (scan_fragmented prm vars regions).
Proof.
  rewrite scan_fragmented_per_variable. apply Forall_forall. intros vm H.
  apply in_map_iff in H as (var & <- & _). apply scan_var_fragmented_limit.
Qed.

Theorem limit_direct prm vars mem :
  Forall (fun vm => nlen vm <= p_max_nb_matches prm) (scan_direct prm vars mem).
Proof.
  rewrite scan_direct_per_variable. apply Forall_forall. intros vm H.
  apply in_map_iff in H as (var & <- & _). unfold scan_var_direct. apply scan_var_region_limit. cbn. lia.
Qed.

(* the pinned raw loop (limit tested only after the push) exceeds the limit over several regions *)
Definition always_matcher : matcher :=
  {| mt_literals := [];
     mt_mods := {| m_fullword := false; m_wide := false; m_ascii := true; m_nocase := false; m_xor_start := None |};
     mt_process := fun _ _ _ _ _ => AcNone;
     mt_find_next := fun mem o => if o <? nlen mem then Some (o, o + 1) else None |}.
Definition prm_lim2 : sparams := {| p_match_max_length := 512; p_max_nb_matches := 2 |}.
Definition three_regions : list mregion :=
  [ {| rg_start := 0; rg_mem := [97] |}; {| rg_start := 100; rg_mem := [97] |}; {| rg_start := 200; rg_mem := [97] |} ].

Lemma raw_limit_pinned_refuted :
  nlen (fold_left (fun vm rg => scan_single_variable_pinned prm_lim2 rg always_matcher vm) three_regions []) = 3
  /\ nlen (fold_left (fun vm rg => scan_single_variable prm_lim2 rg always_matcher vm) three_regions []) = 2.
Proof. vm_compute. split; reflexivity. Qed.

(* ------------------------------------------------------------------ records *)
(* x was built by StringMatch::new on region rg *)
Definition built_on (prm : sparams) (rg : mregion) (x : smatch) : Prop :=
  exists s e k, x = string_match_new prm rg s e k.

Lemma built_on_fields prm rg x :
  built_on prm rg x ->
  sm_base x = rg_start rg
  /\ sm_data x = ntake (N.min (sm_len x) (p_match_max_length prm)) (ndrop (sm_off x) (rg_mem rg)).
Proof. intros (s & e & k & ->). split; reflexivity. Qed.

Lemma fold_insert_built prm rg l : forall vm x,
  In x (fold_left (fun acc se => insert_match acc (string_match_new prm rg (fst se) (snd se) 0)) l vm) ->
  In x vm \/ built_on prm rg x.
Proof.
  induction l as [|se l IH]; intros vm x H; cbn [fold_left] in H; [now left|].
  apply IH in H as [H|H]; [|now right].
  apply insert_match_in in H as [->|H]; [right | now left]. now exists (fst se), (snd se), 0.
Qed.

Lemma var_step_built prm rg var vm c x :
  In x (var_step prm rg var vm c) -> In x vm \/ built_on prm rg x.
Proof.
  destruct c as [[i s] e]. unfold var_step, var_step_with.
  destruct (confirm_ac_literal var (rg_mem rg) s e i) as [t|]; [|now left].
  intros H. apply truncate_in in H.
  destruct (mt_process var (rg_mem rg) s e (start_position rg vm) t) as [|s' e'|l].
  - now left.
  - apply insert_match_in in H as [->|H]; [right | now left]. now exists s', e', (get_xor_key var i).
  - now apply fold_insert_built in H.
Qed.

Lemma single_loop_built prm rg var fuel : forall offset vm x,
  In x (single_loop fuel prm rg var offset vm) -> In x vm \/ built_on prm rg x.
Proof.
  induction fuel as [|fuel IH]; intros offset vm x H; cbn [single_loop] in H; [now left|].
  destruct (offset <? nlen (rg_mem rg)); [|now left].
  destruct (p_max_nb_matches prm <=? nlen vm); [now left|].
  destruct (mt_find_next var (rg_mem rg) offset) as [[s e]|]; [|now left].
  assert (G : In x (vm ++ [string_match_new prm rg s e 0]) -> In x vm \/ built_on prm rg x).
  { intros Hx. apply in_app_or in Hx as [Hx|[<-|[]]]; [now left | right]. now exists s, e, 0. }
  destruct (p_max_nb_matches prm <=? nlen (vm ++ [string_match_new prm rg s e 0])); [now apply G|].
  apply IH in H as [H|H]; [now apply G | now right].
Qed.

Theorem scan_var_region_built prm var rg vm x :
  In x (scan_var_region prm var rg vm) -> In x vm \/ built_on prm rg x.
Proof.
  unfold scan_var_region.
  assert (G : forall cs vm0, In x (fold_left (var_step prm rg var) cs vm0) -> In x vm0 \/ built_on prm rg x).
  { induction cs as [|c cs IH]; intros vm0 H; cbn [fold_left] in H; [now left|].
    apply IH in H as [H|H]; [|now right]. now apply var_step_built in H. }
  destruct (mt_literals var).
  - intros H. apply single_loop_built in H as [H|H]; [|now right]. now apply G in H.
  - apply G.
Qed.

(* every reported match of a fragmented scan was built on one of the fetched regions *)
Theorem scan_var_fragmented_built prm var regions x :
  In x (scan_var_fragmented prm var regions) ->
  exists r, In r regions /\ f_fail r = false /\ built_on prm {| rg_start := f_start r; rg_mem := f_mem r |} x.
Proof.
  unfold scan_var_fragmented.
  assert (G : forall vm, In x (fold_left (fun vm r => if f_fail r then vm
             else scan_var_region prm var {| rg_start := f_start r; rg_mem := f_mem r |} vm) regions vm) ->
    In x vm \/ exists r, In r regions /\ f_fail r = false
                         /\ built_on prm {| rg_start := f_start r; rg_mem := f_mem r |} x).
  { induction regions as [|r regions IH]; intros vm H; cbn [fold_left] in H; [now left|].
    apply IH in H as [H|(r' & Hr' & Hf & Hb)].
    - destruct (f_fail r) eqn:Ef; [now left|].
      apply scan_var_region_built in H as [H|H]; [now left|].
      right. exists r. repeat split; auto. now left.
    - right. exists r'. repeat split; auto. now right. }
  intros H. apply G in H as [[]|H]. exact H.
Qed.

(* ------------------------------------------------------------------ prefix, raw path *)
(* the unlimited loop *)
Definition prm_unl (prm : sparams) (big : N) : sparams :=
  {| p_match_max_length := p_match_max_length prm; p_max_nb_matches := big |}.

Lemma smn_prm_indep prm big rg s e k :
  string_match_new (prm_unl prm big) rg s e k = string_match_new prm rg s e k.
Proof. reflexivity. Qed.

(* one region: the limited loop returns the first `lim` elements of what the unlimited loop returns,
   as long as the unlimited loop itself does not hit its own bound `big` *)
Lemma single_loop_prefix prm big rg var fuel : forall offset vm,
  p_max_nb_matches prm <= big ->
  nlen (single_loop fuel (prm_unl prm big) rg var offset vm) < big ->
  single_loop fuel prm rg var offset (ntake (p_max_nb_matches prm) vm)
  = ntake (p_max_nb_matches prm) (single_loop fuel (prm_unl prm big) rg var offset vm).
Proof.
  set (lim := p_max_nb_matches prm).
  induction fuel as [|fuel IH]; intros offset vm Hbig Hlt; cbn [single_loop] in *; [reflexivity|].
  destruct (offset <? nlen (rg_mem rg)); [|reflexivity].
  cbn [prm_unl p_max_nb_matches] in *. fold lim.
  destruct (big <=? nlen vm) eqn:Eb; [lia|].
  destruct (mt_find_next var (rg_mem rg) offset) as [[s e]|] eqn:Ef.
  2:{ destruct (lim <=? nlen (ntake lim vm)); reflexivity. }
  rewrite smn_prm_indep in *.
  set (x := string_match_new prm rg s e 0) in *.
  assert (Hn : nlen (vm ++ [x]) = nlen vm + 1) by (rewrite nlen_app; reflexivity).
  destruct (big <=? nlen (vm ++ [x])) eqn:Eb2; [lia|].
  destruct (lim <=? nlen (ntake lim vm)) eqn:El.
  - (* already full: the limited loop stops; the unlimited result extends vm, whose first lim are kept *)
    rewrite nlen_ntake in El.
    assert (Hvm : lim <= nlen vm) by lia.
    specialize (IH (s + 1) (vm ++ [x]) Hbig Hlt).
    rewrite <- IH. rewrite ntake_app_le by lia.
    destruct fuel; cbn [single_loop]; [reflexivity|].
    destruct (s + 1 <? nlen (rg_mem rg)); [|reflexivity].
    fold lim. replace (lim <=? nlen (ntake lim vm)) with true by (rewrite nlen_ntake; lia). reflexivity.
  - rewrite nlen_ntake in El. assert (Hvm : nlen vm < lim) by lia.
    rewrite (ntake_all lim vm) by lia.
    destruct (lim <=? nlen (vm ++ [x])) eqn:El2.
    + (* the push fills the list *)
      specialize (IH (s + 1) (vm ++ [x]) Hbig Hlt). rewrite <- IH.
      rewrite (ntake_all lim (vm ++ [x])) by lia.
      destruct fuel; cbn [single_loop]; [reflexivity|].
      destruct (s + 1 <? nlen (rg_mem rg)); [|reflexivity].
      fold lim. rewrite El2. reflexivity.
    + specialize (IH (s + 1) (vm ++ [x]) Hbig Hlt).
      rewrite (ntake_all lim (vm ++ [x])) in IH by lia. exact IH.
Qed.

Lemma single_loop_grows prm rg var fuel : forall offset vm,
  nlen vm <= nlen (single_loop fuel prm rg var offset vm).
Proof.
  induction fuel as [|fuel IH]; intros offset vm; cbn [single_loop]; [lia|].
  destruct (offset <? nlen (rg_mem rg)); [|lia].
  destruct (p_max_nb_matches prm <=? nlen vm); [lia|].
  destruct (mt_find_next var (rg_mem rg) offset) as [[s e]|]; [|lia].
  assert (Hn : nlen (vm ++ [string_match_new prm rg s e 0]) = nlen vm + 1) by (rewrite nlen_app; reflexivity).
  destruct (p_max_nb_matches prm <=? nlen (vm ++ [string_match_new prm rg s e 0])); [lia|].
  specialize (IH (s + 1) (vm ++ [string_match_new prm rg s e 0])). lia.
Qed.

Lemma scan_single_variable_prefix prm big rg var vm :
  p_max_nb_matches prm <= big ->
  nlen (scan_single_variable (prm_unl prm big) rg var vm) < big ->
  scan_single_variable prm rg var (ntake (p_max_nb_matches prm) vm)
  = ntake (p_max_nb_matches prm) (scan_single_variable (prm_unl prm big) rg var vm).
Proof. unfold scan_single_variable. apply single_loop_prefix. Qed.

Lemma scan_single_variable_grows prm rg var vm : nlen vm <= nlen (scan_single_variable prm rg var vm).
Proof. apply single_loop_grows. Qed.

(* raw path over any sequence of regions (each with its own matcher function): limited = first lim of unlimited *)
Theorem raw_regions_prefix prm big (rgs : list (mregion * matcher)) : forall vm,
  p_max_nb_matches prm <= big ->
  nlen (fold_left (fun vm rv => scan_single_variable (prm_unl prm big) (fst rv) (snd rv) vm) rgs vm) < big ->
  fold_left (fun vm rv => scan_single_variable prm (fst rv) (snd rv) vm) rgs (ntake (p_max_nb_matches prm) vm)
  = ntake (p_max_nb_matches prm)
          (fold_left (fun vm rv => scan_single_variable (prm_unl prm big) (fst rv) (snd rv) vm) rgs vm).
Proof.
  induction rgs as [|[rg var] rgs IH]; intros vm Hbig Hlt; cbn [fold_left fst snd] in *; [reflexivity|].
  assert (G : forall l vm0, nlen vm0 <= nlen (fold_left
      (fun vm rv => scan_single_variable (prm_unl prm big) (fst rv) (snd rv) vm) l vm0)).
  { induction l as [|rv l IHl]; intros vm0; cbn [fold_left]; [lia|].
    specialize (IHl (scan_single_variable (prm_unl prm big) (fst rv) (snd rv) vm0)).
    pose proof (scan_single_variable_grows (prm_unl prm big) (fst rv) (snd rv) vm0). lia. }
  rewrite (scan_single_variable_prefix prm big); auto.
  specialize (G rgs (scan_single_variable (prm_unl prm big) rg var vm)). lia.
Qed.
