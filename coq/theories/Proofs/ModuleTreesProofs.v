(* Proofs/ModuleTreesProofs.v — finite facts about the *generated* Model/ModuleTrees.v (re-checked on every run,
   because the file is regenerated from /repo on every run): every declared tree is well formed, and every
   (counter, collection) pair / cap entry points at fields of the right kind. *)
From Coq Require Import String.
From Boreal Require Import Base.Prelude Model.ModuleTypes Model.ModuleTrees Model.ModuleTypesCase.

Definition all_trees_wf : bool := forallb (fun kv => wf_mtype (snd kv)) module_trees.

Definition all_count_pairs_well_typed : bool :=
  forallb (fun e => match e with
                    | (m, prefix, counter, coll) => count_pair_well_typed (module_tree m) prefix counter coll
                    end) count_pairs.

Definition all_caps_well_typed : bool :=
  forallb (fun e => match e with (m, p, _) => cap_well_typed (module_tree m) p end) collection_caps
  && forallb (fun e => match e with (m, p, _) => bytes_cap_well_typed (module_tree m) p end) bytes_caps
  && forallb (fun e => match e with (m, p, _) => int_cap_well_typed (module_tree m) p end) int_caps.

Definition all_static_functions_wf : bool :=
  forallb (fun e => match e with
                    | (_, _, TFunction args ret) => wf_mtype (TFunction args ret)
                    | _ => false
                    end) static_functions.

Lemma trees_wf : all_trees_wf = true.
Proof. vm_compute. reflexivity. Qed.

Lemma count_pairs_well_typed : all_count_pairs_well_typed = true.
Proof. vm_compute. reflexivity. Qed.

Lemma caps_well_typed : all_caps_well_typed = true.
Proof. vm_compute. reflexivity. Qed.

Lemma static_functions_wf : all_static_functions_wf = true.
Proof. vm_compute. reflexivity. Qed.

(* pointwise forms *)
Lemma count_pair_in_well_typed :
  forall m prefix counter coll, In (m, prefix, counter, coll) count_pairs ->
    count_pair_well_typed (module_tree m) prefix counter coll = true.
Proof.
  intros m prefix counter coll HIn.
  pose proof count_pairs_well_typed as H. unfold all_count_pairs_well_typed in H.
  rewrite forallb_forall in H. exact (H _ HIn).
Qed.

Lemma tree_in_wf : forall m t, In (m, t) module_trees -> wf_mtype t = true.
Proof.
  intros m t HIn. pose proof trees_wf as H. unfold all_trees_wf in H.
  rewrite forallb_forall in H. exact (H _ HIn).
Qed.
