(* Proofs/TextMain.v — C01: for every well-formed text-string declaration and every input, the model of
   the whole pipeline (new_bytes → AcScan::new → overlapping AC search → handle_possible_match →
   confirm_ac_literal → check_fullword → get_xor_key → insert/truncate) reports exactly the
   specified offsets, each with the length / key / data of a true encoding occurrence. *)
From Boreal Require Import Base.Prelude Base.ListX Base.Bytes Base.Sorted Base.Consts
  Model.Base64 Model.Literals Model.Atoms Model.Ac Model.AcScan Spec.TextSpec Model.TextCase
  Proofs.AcScanInsert Proofs.AcScanDecomp Proofs.TextFullword Proofs.TextAtoms Proofs.TextLiterals.

Section Main.
  Variables (d : tdecl) (m : bytes) (prm : sparams).
  Hypothesis Hwf : wf_decl d = true.
  Hypothesis Hb64 : b64_okb d = true.

  Let v := text_matcher d.
  Let rg := {| rg_start := 0; rg_mem := m |}.
  Let md := new_bytes_mods d.

  (* ---------------------------------------------------------------- the model, unfolded *)
  Lemma single_loop_none fuel offset vm :
    single_loop fuel prm rg v offset vm = vm.
  Proof.
    destruct fuel; cbn [single_loop]; [reflexivity|].
    destruct (offset <? nlen (rg_mem rg)); [|reflexivity].
    destruct (p_max_nb_matches prm <=? nlen vm); reflexivity.
  Qed.

  Lemma model_scan_text_fold :
    model_scan_text prm d m = fold_left (var_step prm rg v) (own_cands v rg) [].
  Proof.
    unfold model_scan_text. rewrite scan_direct_per_variable. cbn [map].
    unfold scan_var_direct, scan_var_region. fold rg. fold v.
    destruct (mt_literals v); [|reflexivity]. apply single_loop_none.
  Qed.

  (* what a candidate contributes *)
  Definition accepted (c : N * N * N) : option smatch :=
    let '(i, s, e) := c in
    match confirm_ac_literal v m s e i with
    | None => None
    | Some t => if validate_fullword md m s e t
                then Some (string_match_new prm rg s e (get_xor_key v i)) else None
    end.

  Lemma var_step_text vm c :
    var_step prm rg v vm c =
    match confirm_ac_literal v m (snd (fst c)) (snd c) (fst (fst c)) with
    | None => vm
    | Some _ => truncate_matches prm (match accepted c with Some x => insert_match vm x | None => vm end)
    end.
  Proof.
    destruct c as [[i s] e]. unfold var_step, var_step_with, accepted, v, md, rg.
    cbn [fst snd rg_mem mt_process text_matcher literals_matcher]. unfold literals_process.
    destruct (confirm_ac_literal _ m s e i) as [t|]; [|reflexivity].
    destruct (validate_fullword (new_bytes_mods d) m s e t); reflexivity.
  Qed.

  (* ---------------------------------------------------------------- soundness of one candidate *)
  Definition good (x : smatch) : Prop :=
    sm_base x = 0
    /\ (exists e, In e (enc_set d) /\ occ d m (sm_off x) e = true
                  /\ sm_len x = nlen (e_bytes e) /\ sm_key x = e_key e)
    /\ sm_data x = slice (sm_off x) (sm_off x + N.min (sm_len x) (p_match_max_length prm)) m.

  Lemma eq_test_len (nocase : bool) (lit w : bytes) :
    (if nocase then eq_nocase lit w else bytes_eqb lit w) = true -> nlen lit = nlen w /\ lower_bytes w = lower_bytes lit.
  Proof.
    destruct nocase; intros H.
    - apply eq_nocase_iff in H. split; [|now symmetry].
      rewrite <- (nlen_lower lit), <- (nlen_lower w). now rewrite H.
    - apply bytes_eqb_eq in H. now subst.
  Qed.

  Lemma accepted_good i s e x :
    e <= nlen m -> accepted (i, s, e) = Some x -> good x /\ sm_off x = s.
  Proof.
    intros He. unfold accepted.
    destruct (confirm_ac_literal v m s e i) as [t|] eqn:Ec; [|discriminate].
    destruct (validate_fullword md m s e t) eqn:Ef; [|discriminate].
    intros Hx. inversion Hx; subst x; clear Hx.
    apply confirm_inv in Ec as (lit & Hlit & Htest & Ht).
    unfold v in Hlit, Htest, Ht. cbn [text_matcher literals_matcher mt_literals mt_mods] in Hlit, Htest, Ht.
    destruct (lit_to_enc d i lit Hwf Hb64 Hlit) as (e0 & He0 & Hl1 & Hl2 & Hl3).
    assert (Hbytes : e_bytes e0 = lit) by congruence.
    pose proof (enc_nonempty d e0 Hwf He0) as Hne. rewrite Hbytes in Hne.
    pose proof (eq_test_len _ _ _ Htest) as [Hlen Hlow].
    assert (Hpos : 0 < nlen lit) by (destruct lit; [congruence | rewrite nlen_cons; lia]).
    rewrite nlen_slice in Hlen.
    assert (Hse : s < e) by lia. assert (Hn : e = s + nlen lit) by lia.
    split; [|reflexivity]. unfold good, string_match_new, rg. cbn [sm_base sm_off sm_len sm_data sm_key rg_start rg_mem].
    split; [reflexivity|]. split.
    - exists e0. split; [exact He0|]. rewrite Hbytes. split; [|split; [lia | exact Hl2]].
      unfold occ, occurs_at. rewrite Hbytes. apply andb_true_intro. split.
      + apply andb_true_intro. split; [lia|]. rewrite <- Hn.
        cbn [new_bytes_mods m_nocase] in Htest. exact Htest.
      + rewrite validate_fullword_delimited in Ef by lia.
        unfold md in Ef. cbn [new_bytes_mods m_fullword] in Ef.
        destruct (t_fullword d) eqn:Efw; [|reflexivity]. cbn [negb orb] in *.
        rewrite <- Hl3 by reflexivity. rewrite <- Ht. replace (nlen lit) with (e - s) by lia. exact Ef.
    - unfold slice. f_equal. lia.
  Qed.

  (* ---------------------------------------------------------------- completeness of one occurrence *)
  Lemma occ_accepted o e0 :
    In e0 (enc_set d) -> occ d m o e0 = true ->
    exists i x, In (i, o, o + nlen (e_bytes e0)) (own_cands v rg) /\ accepted (i, o, o + nlen (e_bytes e0)) = Some x.
  Proof.
    intros He0 Hocc. unfold occ, occurs_at in Hocc.
    apply andb_true_iff in Hocc as [Hocc Hfw]. apply andb_true_iff in Hocc as [Hfit Htest].
    destruct (enc_to_lit d e0 Hwf Hb64 He0) as (i & Hl1 & Hl2 & Hl3).
    pose proof (enc_nonempty d e0 Hwf He0) as Hne.
    set (lit := e_bytes e0) in *.
    assert (Hpos : 0 < nlen lit) by (destruct lit; [congruence | rewrite nlen_cons; lia]).
    pose proof (eq_test_len _ _ _ Htest) as [Hlen Hlow].
    exists i. eexists. split.
    - replace i with (N.of_nat (N.to_nat i)) by lia.
      apply (occurrence_is_candidate v rg (N.to_nat i) lit o); auto.
      + unfold rg. cbn [rg_mem]. lia.
    - unfold accepted. unfold v at 1. 
      rewrite (confirm_intro (text_matcher d) m o (o + nlen lit) i lit).
      + rewrite validate_fullword_delimited by lia.
        unfold md. cbn [new_bytes_mods m_fullword text_matcher literals_matcher mt_mods mt_literals].
        replace (o + nlen lit - o) with (nlen lit) by lia.
        destruct (t_fullword d) eqn:Efw; cbn [negb orb] in *; [|reflexivity].
        rewrite (Hl3 eq_refl). rewrite Hfw. reflexivity.
      + exact Hl1.
      + cbn [text_matcher literals_matcher mt_mods new_bytes_mods m_nocase]. exact Htest.
  Qed.

  (* ---------------------------------------------------------------- the fold over the candidates *)
  Definition Inv (vm : list smatch) : Prop :=
    all_base 0 vm /\ asc (map sm_off vm) /\ (forall x, In x vm -> good x).

  Lemma Inv_nil : Inv [].
  Proof. split; [apply all_base_nil|]. split; [apply asc_nil | intros x []]. Qed.

  Lemma good_in_spec x : good x -> In (sm_off x) (spec_offsets d m).
  Proof.
    intros (_ & (e0 & He0 & Hocc & _ & _) & _). unfold spec_offsets. apply filter_In. split.
    - apply in_iota. pose proof (enc_nonempty d e0 Hwf He0) as Hne.
      unfold occ, occurs_at in Hocc. apply andb_true_iff in Hocc as [Hocc _].
      apply andb_true_iff in Hocc as [Hfit _].
      assert (0 < nlen (e_bytes e0)) by (destruct (e_bytes e0); [congruence | rewrite nlen_cons; lia]). lia.
    - apply existsb_exists. exists e0. auto.
  Qed.

  Hypothesis Hlim : nlen (spec_offsets d m) <= p_max_nb_matches prm.

  Lemma Inv_len vm : Inv vm -> nlen vm <= p_max_nb_matches prm.
  Proof.
    intros (_ & Ha & Hg).
    assert (length (map sm_off vm) <= length (spec_offsets d m))%nat.
    { apply asc_incl_length; [exact Ha|]. intros o Ho. apply in_map_iff in Ho as (x & <- & Hx).
      apply good_in_spec. auto. }
    rewrite map_length in H. unfold nlen in *. lia.
  Qed.

  Lemma Inv_insert vm x : Inv vm -> good x -> Inv (insert_match vm x).
  Proof.
    intros (Hb & Ha & Hg) Hx. pose proof Hx as (Hbx & _). split; [|split].
    - now apply insert_match_all_base.
    - now apply (insert_match_asc 0).
    - intros y Hy. apply insert_match_in in Hy as [->|Hy]; auto.
  Qed.

  Lemma step_cases vm c :
    snd c <= nlen m -> Inv vm ->
    (accepted c = None /\ var_step prm rg v vm c = vm) \/
    (exists x, accepted c = Some x /\ good x /\ sm_off x = snd (fst c) /\ var_step prm rg v vm c = insert_match vm x).
  Proof.
    intros Hc Hinv. rewrite var_step_text. destruct c as [[i s] e]. cbn [fst snd] in *.
    destruct (accepted (i, s, e)) as [x|] eqn:Ea.
    - right. exists x. destruct (accepted_good i s e x Hc Ea) as [Hg Ho].
      split; [reflexivity|]. split; [exact Hg|]. split; [exact Ho|].
      unfold accepted in Ea. destruct (confirm_ac_literal v m s e i) as [t|]; [|discriminate].
      apply truncate_id. apply Inv_len. now apply Inv_insert.
    - left. split; [reflexivity|]. destruct (confirm_ac_literal v m s e i) as [t|]; [|reflexivity].
      apply truncate_id. now apply Inv_len.
  Qed.

  Lemma step_Inv vm c : snd c <= nlen m -> Inv vm -> Inv (var_step prm rg v vm c).
  Proof.
    intros Hc Hinv. destruct (step_cases vm c Hc Hinv) as [[_ ->]|(x & _ & Hg & _ & ->)]; [exact Hinv|].
    now apply Inv_insert.
  Qed.

  Lemma step_keeps vm c o :
    snd c <= nlen m -> Inv vm -> In o (map sm_off vm) -> In o (map sm_off (var_step prm rg v vm c)).
  Proof.
    intros Hc Hinv Ho. destruct (step_cases vm c Hc Hinv) as [[_ ->]|(x & _ & _ & _ & ->)]; [exact Ho|].
    apply in_map_iff in Ho as (y & <- & Hy). apply in_map. now apply insert_match_keeps.
  Qed.

  Lemma fold_Inv cs : forall vm,
    Forall (fun c => snd c <= nlen m) cs -> Inv vm -> Inv (fold_left (var_step prm rg v) cs vm).
  Proof.
    induction cs as [|c cs IH]; intros vm Hcs Hinv; cbn [fold_left]; [exact Hinv|].
    inversion Hcs; subst. apply IH; auto. now apply step_Inv.
  Qed.

  Lemma fold_keeps cs : forall vm o,
    Forall (fun c => snd c <= nlen m) cs -> Inv vm -> In o (map sm_off vm) ->
    In o (map sm_off (fold_left (var_step prm rg v) cs vm)).
  Proof.
    induction cs as [|c cs IH]; intros vm o Hcs Hinv Ho; cbn [fold_left]; [exact Ho|].
    inversion Hcs; subst. apply IH; auto; [now apply step_Inv | now apply step_keeps].
  Qed.

  Lemma fold_covers cs : forall vm c x,
    Forall (fun c => snd c <= nlen m) cs -> Inv vm -> In c cs -> accepted c = Some x ->
    In (snd (fst c)) (map sm_off (fold_left (var_step prm rg v) cs vm)).
  Proof.
    induction cs as [|c0 cs IH]; intros vm c x Hcs Hinv Hin Hacc; [destruct Hin|].
    cbn [fold_left]. inversion Hcs as [|? ? Hc0 Hcs']; subst. destruct Hin as [->|Hin].
    - apply fold_keeps; auto; [now apply step_Inv|].
      destruct (step_cases vm c Hc0 Hinv) as [[E _]|(y & Hy & _ & Hoff & ->)]; [congruence|].
      rewrite <- Hoff. apply insert_match_has_off.
    - apply (IH _ c x); auto. now apply step_Inv.
  Qed.

  Lemma cands_bounded : Forall (fun c => snd c <= nlen m) (own_cands v rg).
  Proof.
    apply Forall_forall. intros [[i s] e] H. cbn [snd].
    apply (candidate_in_bounds v rg i s e) in H. exact H.
  Qed.

  Theorem text_matches_main :
    let r := model_scan_text prm d m in
    map sm_off r = spec_offsets d m
    /\ Forall (fun x => exists e, In e (enc_set d) /\ occ d m (sm_off x) e = true
                         /\ sm_len x = nlen (e_bytes e) /\ sm_key x = e_key e) r
    /\ Forall (fun x => sm_base x = 0
                        /\ sm_data x = slice (sm_off x) (sm_off x + N.min (sm_len x) (p_match_max_length prm)) m) r.
  Proof.
    intros r. unfold r. rewrite model_scan_text_fold.
    set (res := fold_left (var_step prm rg v) (own_cands v rg) []).
    assert (Hinv : Inv res) by (apply fold_Inv; [apply cands_bounded | apply Inv_nil]).
    destruct Hinv as (Hb & Ha & Hg). split; [|split].
    - apply asc_unique; [exact Ha | apply asc_filter, asc_iota |].
      intros o. split.
      + intros Ho. apply in_map_iff in Ho as (x & <- & Hx). apply good_in_spec. auto.
      + intros Ho. unfold spec_offsets in Ho. apply filter_In in Ho as [_ Ho].
        apply existsb_exists in Ho as (e0 & He0 & Hocc).
        destruct (occ_accepted o e0 He0 Hocc) as (i & x & Hin & Hacc).
        apply (fold_covers (own_cands v rg) [] (i, o, o + nlen (e_bytes e0)) x);
          auto using cands_bounded, Inv_nil.
    - apply Forall_forall. intros x Hx. destruct (Hg x Hx) as (_ & He & _). exact He.
    - apply Forall_forall. intros x Hx. destruct (Hg x Hx) as (H0 & _ & Hd). auto.
  Qed.
End Main.

(* un-xoring a reported match with its key gives the declared text (widened for a wide occurrence) *)
Lemma unxor_text d m o e :
  t_xor d <> None -> t_nocase d = false -> In e (enc_set d) -> occ d m o e = true ->
  xor_bytes (e_key e) (slice o (o + nlen (e_bytes e)) m) = (if e_wide e then widen (t_text d) else t_text d)
  /\ (exists lo hi, t_xor d = Some (lo, hi) /\ lo <= e_key e <= hi).
Proof.
  intros Hx Hnc He Hocc. unfold enc_set in He. destruct (t_xor d) as [[lo hi]|]; [|congruence].
  apply in_flat_map in He as (f & Hf & He). apply in_map_iff in He as (k & <- & Hk).
  cbn [e_key e_bytes e_wide] in *. unfold keys in Hk. apply in_iota in Hk.
  unfold occ, occurs_at in Hocc. rewrite Hnc in Hocc. cbn [e_bytes] in Hocc.
  apply andb_true_iff in Hocc as [Hocc _]. apply andb_true_iff in Hocc as [_ Heq].
  apply bytes_eqb_eq in Heq. rewrite <- Heq, xor_bytes_involutive. split.
  - unfold plain_forms in Hf. apply in_app_or in Hf as [Hf|Hf].
    + destruct (eff_ascii d); [|destruct Hf]. destruct Hf as [<-|[]]. reflexivity.
    + destruct (t_wide d); [|destruct Hf]. destruct Hf as [<-|[]]. reflexivity.
  - exists lo, hi. split; [reflexivity | lia].
Qed.
