(* Proofs/TextFullword.v — `check_fullword` (index arithmetic on the haystack) is the declarative
   delimiter rule of Spec/TextSpec.v, for both the ascii and the wide variant. *)
From Boreal Require Import Base.Prelude Base.ListX Base.Bytes Model.Literals Model.AcScan Spec.TextSpec.

Lemma is_alnum_0 : is_alnum 0 = false.
Proof. reflexivity. Qed.

Lemma alnum_before_spec m s :
  alnum_before m s = (0 <? s) && is_alnum (nnth 0 (s - 1) m).
Proof.
  unfold alnum_before. destruct (1 <=? s) eqn:E.
  - replace (0 <? s) with true by lia. cbn [andb].
    replace s with (s - 1 + 1) at 2 by lia. rewrite (slice_one 0).
    destruct (s - 1 <? nlen m) eqn:E2; [reflexivity|].
    unfold nnth. rewrite nth_overflow; [reflexivity|]. unfold nlen in E2. lia.
  - replace (0 <? s) with false by lia. reflexivity.
Qed.

Lemma alnum_after_spec m e :
  alnum_after m e = (e <? nlen m) && is_alnum (nnth 0 e m).
Proof.
  unfold alnum_after. rewrite (slice_one 0). destruct (e <? nlen m); reflexivity.
Qed.

Lemma wide_alnum_before_spec m s :
  s <= nlen m ->
  wide_alnum_before m s = (1 <? s) && (nnth 0 (s - 1) m =? 0) && is_alnum (nnth 0 (s - 2) m).
Proof.
  intros Hs. unfold wide_alnum_before. destruct (2 <=? s) eqn:E.
  - replace (1 <? s) with true by lia. cbn [andb].
    replace s with (s - 2 + 2) at 2 by lia. rewrite (slice_two 0).
    replace (s - 2 + 1 <? nlen m) with true by lia.
    replace (s - 2 + 1) with (s - 1) by lia. apply andb_comm.
  - replace (1 <? s) with false by lia. reflexivity.
Qed.

Lemma wide_alnum_after_spec m e :
  wide_alnum_after m e = (e + 1 <? nlen m) && is_alnum (nnth 0 e m) && (nnth 0 (e + 1) m =? 0).
Proof.
  unfold wide_alnum_after. rewrite (slice_two 0).
  destruct (e + 1 <? nlen m); [reflexivity|]. cbn [andb]. destruct (e <? nlen m); reflexivity.
Qed.

(* check_fullword is the delimiter rule *)
Lemma check_fullword_delimited m s e t :
  s <= e -> e <= nlen m ->
  check_fullword m s e t = delimited (mt_is_wide t) m s (e - s).
Proof.
  intros Hse He. unfold check_fullword, delimited.
  replace (s + (e - s)) with e by lia.
  destruct (mt_is_wide t).
  - rewrite wide_alnum_before_spec by lia. rewrite wide_alnum_after_spec. reflexivity.
  - rewrite alnum_before_spec, alnum_after_spec. reflexivity.
Qed.

Lemma validate_fullword_delimited md m s e t :
  s <= e -> e <= nlen m ->
  validate_fullword md m s e t = negb (m_fullword md) || delimited (mt_is_wide t) m s (e - s).
Proof.
  intros. unfold validate_fullword. now rewrite check_fullword_delimited.
Qed.
