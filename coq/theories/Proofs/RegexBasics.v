(* Proofs/RegexBasics.v — list facts used by the regex / validator proofs: iota, find, dedup, bind. *)
From Boreal Require Import Base.Prelude Spec.Regex.

Lemma nrange_In lo n x : In x (nrange lo n) <-> lo <= x < lo + N.of_nat n.
Proof.
  revert lo. induction n as [|n IH]; intros lo; cbn [nrange In].
  - split; [tauto|lia].
  - rewrite IH. split; [intros [->|H]; lia|intros H].
    destruct (N.eq_dec lo x); [left; assumption|right; lia].
Qed.

Lemma iota_In lo n x : In x (iota lo n) <-> lo <= x < lo + n.
Proof. unfold iota. rewrite nrange_In. lia. Qed.

Lemma nrange_app lo a b : nrange lo (a + b) = nrange lo a ++ nrange (lo + N.of_nat a) b.
Proof.
  revert lo. induction a as [|a IH]; intros lo; cbn [nrange Nat.add app].
  - f_equal. lia.
  - f_equal. rewrite IH. do 2 f_equal. lia.
Qed.

(* splitting an interval at a point *)
Lemma iota_split lo n k : k <= n -> iota lo n = iota lo k ++ iota (lo + k) (n - k).
Proof.
  intros H. unfold iota.
  replace (N.to_nat n) with (N.to_nat k + N.to_nat (n - k))%nat by lia.
  rewrite nrange_app. do 2 f_equal. lia.
Qed.

Lemma iota_cons lo n : 0 < n -> iota lo n = lo :: iota (lo + 1) (n - 1).
Proof.
  intros H. unfold iota. replace (N.to_nat n) with (S (N.to_nat (n - 1))) by lia. reflexivity.
Qed.

Lemma iota_nil lo : iota lo 0 = [].
Proof. reflexivity. Qed.

(* `find` over an interval: the result is the least element satisfying the predicate *)
Lemma find_iota_Some P lo n s :
  find P (iota lo n) = Some s ->
  lo <= s < lo + n /\ P s = true /\ (forall x, lo <= x < s -> P x = false).
Proof.
  unfold iota.
  assert (G : forall k l, find P (nrange l k) = Some s ->
              l <= s < l + N.of_nat k /\ P s = true /\ (forall x, l <= x < s -> P x = false)).
  { induction k as [|k IH]; intros l; cbn [nrange find]; [intros H0; discriminate H0|].
    destruct (P l) eqn:E.
    - intros [= <-]. repeat split; try lia. exact E.
    - intros H. apply IH in H as (H1 & H2 & H3). repeat split; try lia; [exact H2|].
      intros x Hx. destruct (N.eq_dec x l) as [->|]; [exact E|apply H3; lia]. }
  intros H. apply G in H. destruct H as (H1 & H2 & H3). repeat split; try assumption; lia.
Qed.

Lemma find_iota_None P lo n : find P (iota lo n) = None -> forall x, lo <= x < lo + n -> P x = false.
Proof.
  intros H x Hx. eapply find_none in H; [exact H|]. apply iota_In. exact Hx.
Qed.

Lemma find_iota_least P lo n s :
  lo <= s < lo + n -> P s = true -> (forall x, lo <= x < s -> P x = false) ->
  find P (iota lo n) = Some s.
Proof.
  intros Hs Ps Hl. destruct (find P (iota lo n)) as [t|] eqn:E.
  - apply find_iota_Some in E as (H1 & H2 & H3). f_equal.
    destruct (N.lt_trichotomy t s) as [L|[L|L]]; [|exact L|].
    + rewrite Hl in H2 by lia. discriminate.
    + rewrite H3 in Ps by lia. discriminate.
  - eapply find_iota_None in E; [|exact Hs]. congruence.
Qed.

(* ---- dedup / bind: membership is that of the underlying list; the head is preserved *)
Lemma dedup_In l x : In x (dedup l) <-> In x l.
Proof.
  induction l as [|y r IH]; cbn [dedup In]; [tauto|].
  rewrite filter_In, IH. split.
  - intros [H|[H _]]; auto.
  - intros [H|H]; [auto|]. destruct (N.eq_dec y x) as [->|Hn]; [auto|].
    right. split; [exact H|]. apply negb_true_iff, N.eqb_neq. congruence.
Qed.

Lemma dedup_hd l : hd_error (dedup l) = hd_error l.
Proof. destruct l; reflexivity. Qed.

Lemma bind_In l f x : In x (bind l f) <-> exists y, In y l /\ In x (f y).
Proof. unfold bind. rewrite dedup_In, in_flat_map. tauto. Qed.

Lemma mem_N_In x l : mem_N x l = true <-> In x l.
Proof.
  unfold mem_N. rewrite existsb_exists. split.
  - intros (y & H & E). apply N.eqb_eq in E. subst. exact H.
  - intros H. exists x. split; [exact H|apply N.eqb_refl].
Qed.

Lemma nonempty_In {A} (l : list A) : nonempty l = true <-> exists x, In x l.
Proof.
  destruct l as [|y r]; cbn [nonempty]; split; try discriminate.
  - intros [x []].
  - intros _. exists y. left. reflexivity.
  - reflexivity.
Qed.

Lemma hd_error_In {A} (l : list A) x : hd_error l = Some x -> In x l.
Proof. destruct l; cbn [hd_error]; [discriminate|intros [= ->]; left; reflexivity]. Qed.
