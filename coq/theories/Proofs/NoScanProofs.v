(* Proofs/NoScanProofs.v — soundness of the evaluation pass done before the string scan:
   whatever `eval` answers without the matches (other than Needed) it answers with any matches. *)
From Boreal Require Import Base.Prelude Base.Res Model.Eval Spec.CondSem Proofs.ExprInd Proofs.LoopProofs.

(* refinement + no panic at any result type *)
Definition relg {A} (a b : res A) : Prop := refines a b /\ b <> Panic.

Lemma relg_rel (a b : res value) : relg a b <-> rel a b.
Proof. reflexivity. Qed.

Lemma relg_refl {A} (a : res A) : a <> Panic -> relg a a.
Proof. intros H; split; [apply refines_refl|assumption]. Qed.

Lemma relg_bind' {A B} (a b : res A) (f g : A -> res B) :
  relg a b -> (forall x, b = Ok x -> relg (f x) (g x)) -> relg (bind a f) (bind b g).
Proof.
  intros [[->| ->] Hb] Hf.
  - split; [left; reflexivity|]. destruct b; cbn [bind]; try congruence; try discriminate. apply Hf. reflexivity.
  - destruct b; cbn [bind]; try congruence; try (split; [apply refines_refl|discriminate]). apply Hf. reflexivity.
Qed.

Lemma relg_bind {A B} (a b : res A) (f g : A -> res B) :
  relg a b -> (forall x, relg (f x) (g x)) -> relg (bind a f) (bind b g).
Proof. intros H Hf. apply relg_bind'; [assumption|intros x _; apply Hf]. Qed.

Lemma relg_bind_same {A B} (a b : res A) (f : A -> res B) :
  relg a b -> (forall x, f x <> Panic) -> relg (bind a f) (bind b f).
Proof. intros H Hf. apply relg_bind; [assumption|]. intros x. apply relg_refl. apply Hf. Qed.

(* ---- operators never panic ---- *)
Lemma unwrap_number_np v : unwrap_number v <> Panic.
Proof. destruct v; discriminate. Qed.

Lemma to_i64_np n : to_i64 n <> Panic.
Proof. unfold to_i64. destruct (_ <=? _)%Z; discriminate. Qed.

Lemma read_int_np m ty a : read_int m ty a <> Panic.
Proof.
  unfold read_int. destruct (a <? 0)%Z; [discriminate|]. destruct m; [|discriminate].
  destruct (_ <=? _); [discriminate|]. destruct (_ <? _); discriminate.
Qed.

Lemma eval_un_np o v : eval_un o v <> Panic.
Proof. destruct o, v; cbn; discriminate. Qed.

Lemma str_op_np ci f a b : str_op ci f a b <> Panic.
Proof. unfold str_op. destruct a, b; cbn; try discriminate. Qed.

Lemma float_arith_np f a b : float_arith f a b <> Panic.
Proof. unfold float_arith. destruct (float_pair a b) as [[x y]|]; discriminate. Qed.

Lemma eq_values_np a b : eq_values a b <> Panic.
Proof.
  destruct a, b; cbn [eq_values]; try discriminate;
    destruct (float_pair _ _) as [[x y]|]; discriminate.
Qed.

Lemma eval_bin_np o a b : eval_bin o a b <> Panic.
Proof.
  destruct o; cbn [eval_bin]; try apply str_op_np;
    try (destruct (eq_values a b) eqn:E; cbn [bind]; try discriminate; exfalso; exact (eq_values_np _ _ E));
    destruct a as [n|x|p|fa], b as [m|y|q|fb];
    try apply float_arith_np;
    try (destruct (float_pair _ _) as [[? ?]|]; discriminate);
    unfold num_op; cbn [unwrap_number bind]; try discriminate;
    repeat match goal with |- context [if ?c then _ else _] => destruct c end; discriminate.
Qed.

Lemma relg_num (a b : res value) : relg a b -> relg (bind a unwrap_number) (bind b unwrap_number).
Proof. intros H. apply relg_bind_same; [assumption|apply unwrap_number_np]. Qed.

Section NoScan.
  Variable M : list (list smatch).
  Variable prev : list bool.
  Variable ext : list value.
  Variable fsz : option N.
  Variable mem : option (list N).

  Definition en0 := {| e_matches := None; e_prev := prev; e_ext := ext; e_filesize := fsz; e_mem := mem |}.
  Definition enM := {| e_matches := Some M; e_prev := prev; e_ext := ext; e_filesize := fsz; e_mem := mem |}.

  Definition sel_ok (sel : option nat) : Prop := match sel with Some i => (i < length M)%nat | None => True end.
  Definition stack_ok (stack : list value) : Prop := Forall (fun v => nonbool_val v = true) stack.
  Definition wv (v : option nat) : Prop := match v with Some i => (i < length M)%nat | None => True end.

  Lemma with_var_rel {A} sel v (f0 f : list smatch -> res A) :
    sel_ok sel -> wv v -> (forall l, f l <> Panic) ->
    relg (with_var en0 sel v f0) (with_var enM sel v f).
  Proof.
    intros Hs Hv Hf. unfold with_var.
    assert (Hidx : forall i, get_var_index sel v = Ok i -> (i < length M)%nat).
    { intros i. unfold get_var_index. destruct v as [j|]; [intros [= <-]; exact Hv|].
      destruct sel as [j|]; [intros [= <-]; exact Hs|discriminate]. }
    destruct (get_var_index sel v) as [i| | |] eqn:E; cbn [bind e_matches en0 enM].
    - split; [left; reflexivity|]. specialize (Hidx i eq_refl).
      destruct (nth_error M i) eqn:En; [apply Hf|]. apply nth_error_None in En. lia.
    - split; [apply refines_refl|discriminate].
    - split; [apply refines_refl|discriminate].
    - unfold get_var_index in E. destruct v; [discriminate|]. destruct sel; discriminate.
  Qed.

  Lemma wv_of_bool v : match v with Some i => Nat.ltb i (length M) | None => true end = true -> wv v.
  Proof. destruct v; cbn; [intros H; apply Nat.ltb_lt; exact H|trivial]. Qed.

  (* selections *)
  Lemma eval_selection_rel k (r0 rM : res value) nb :
    relg r0 rM -> relg (eval_selection k r0 nb) (eval_selection k rM nb).
  Proof.
    intros H. destruct k; cbn [eval_selection]; try (apply relg_refl; discriminate).
    pose proof (relg_num _ _ H) as [[E|E] Hnp].
    - rewrite E. split; [left; reflexivity|].
      destruct (bind rM unwrap_number) as [z| | |]; try congruence; try discriminate.
      destruct pct; repeat match goal with |- context [if ?c then _ else _] => destruct c end; discriminate.
    - rewrite E. apply relg_refl.
      destruct (bind rM unwrap_number) as [z| | |]; try congruence; try discriminate.
      destruct pct; repeat match goal with |- context [if ?c then _ else _] => destruct c end; discriminate.
  Qed.

  Lemma eval_selection_num_pos k r nb n : eval_selection k r nb = Ok (FSE (FNum n)) -> 1 <= n.
  Proof.
    destruct k; cbn [eval_selection]; try discriminate.
    - intros [= <-]. lia.
    - destruct (bind r unwrap_number) as [z| | |]; try discriminate.
      destruct pct.
      + destruct (Z.leb_spec (pct_quota z nb) 0); [discriminate|]. intros [= <-]. lia.
      + destruct (Z.eqb_spec z 0); [discriminate|]. destruct (Z.leb_spec z 0); [discriminate|].
        intros [= <-]. lia.
  Qed.

  Lemma undef_to_false_rel (a b : res value) : relg a b -> relg (undef_to_false a) (undef_to_false b).
  Proof.
    intros H. destruct (rel_inv _ _ H) as [[-> Hb]|[[v [-> ->]]|[-> ->]]]; cbn [undef_to_false].
    - split; [left; reflexivity|]. destruct b; cbn; try congruence; discriminate.
    - apply relg_refl; discriminate.
    - apply relg_refl; discriminate.
  Qed.

  Lemma nonbool_sound e sel stack b :
    nonbool ext e = true -> stack_ok stack -> eval enM sel stack e <> Ok (VBool b).
  Proof.
    intros Hn Hs. destruct e; cbn [nonbool] in Hn; try discriminate Hn; cbn [eval].
    - discriminate.
    - discriminate.
    - cbn [e_filesize enM]. destruct fsz; discriminate.
    - destruct (bind (eval enM sel stack e) unwrap_number) as [z| | |]; cbn [bind]; try discriminate.
      unfold read_int. destruct (z <? 0)%Z; [discriminate|]. cbn [e_mem enM]. destruct mem; [|discriminate].
      destruct (_ <=? _); [discriminate|]. destruct (_ <? _); discriminate.
    - unfold with_var. destruct (get_var_index sel v); cbn [bind]; try discriminate.
      cbn [e_matches enM]. destruct (nth_error M a); discriminate.
    - destruct (bind (eval enM sel stack e1) unwrap_number) as [z| | |]; cbn [bind]; try discriminate.
      destruct (bind (eval enM sel stack e2) unwrap_number) as [z2| | |]; cbn [bind]; try discriminate.
      destruct (z2 <? 0)%Z; unfold with_var; (destruct (get_var_index sel v); cbn [bind]; try discriminate;
        cbn [e_matches enM]; destruct (nth_error M a); discriminate).
    - destruct (bind (eval enM sel stack e) unwrap_number) as [z| | |]; cbn [bind]; try discriminate.
      destruct (z <=? 0)%Z; [discriminate|]. unfold with_var.
      destruct (get_var_index sel v); cbn [bind]; try discriminate.
      cbn [e_matches enM]. destruct (nth_error M a); [|discriminate].
      destruct (nth_z l (z - 1)); [|discriminate]. destruct (_ <=? _); [|discriminate].
      unfold to_i64. destruct (_ <=? _)%Z; discriminate.
    - destruct (bind (eval enM sel stack e) unwrap_number) as [z| | |]; cbn [bind]; try discriminate.
      destruct (z <=? 0)%Z; [discriminate|]. unfold with_var.
      destruct (get_var_index sel v); cbn [bind]; try discriminate.
      cbn [e_matches enM]. destruct (nth_error M a); [|discriminate].
      destruct (nth_z l (z - 1)); [|discriminate]. unfold to_i64. destruct (_ <=? _)%Z; discriminate.
    - destruct o; try discriminate; destruct (eval enM sel stack e) as [x| | |]; cbn [bind]; try discriminate;
        destruct x; cbn; discriminate.
    - destruct (eval enM sel stack e1) as [x| | |]; cbn [bind]; try discriminate.
      destruct (eval enM sel stack e2) as [y| | |]; cbn [bind]; try discriminate.
      destruct o; try discriminate; destruct x, y; cbn; try discriminate;
        repeat match goal with |- context [if ?c then _ else _] => destruct c end; discriminate.
    - cbn [e_ext enM]. destruct (nth_error ext i) as [v|]; [|discriminate].
      destruct v; discriminate.
    - destruct (nth_error stack i) as [v|] eqn:E; [|discriminate].
      apply nth_error_In in E. unfold stack_ok in Hs. rewrite Forall_forall in Hs. specialize (Hs v E).
      destruct v; discriminate.
  Qed.

  Definition Pns (e : expr) : Prop :=
    forall sel stack, wf_expr ext (length M) (length prev) e = true -> sel_ok sel -> stack_ok stack ->
      relg (eval en0 sel stack e) (eval enM sel stack e).

  Lemma map_rel (l : list expr) sel stack :
    Forall Pns l -> forallb (wf_expr ext (length M) (length prev)) l = true -> sel_ok sel -> stack_ok stack ->
    Forall2 rel (map (eval en0 sel stack) l) (map (eval enM sel stack) l).
  Proof.
    induction 1 as [|x l Hx _ IH]; cbn [map forallb]; intros Hw Hs Hst; [constructor|].
    apply andb_true_iff in Hw as [Hw1 Hw2]. constructor; [apply Hx; assumption|apply IH; assumption].
  Qed.

  Theorem no_scan_sound : forall e, Pns e.
  Proof.
    induction e using expr_ind'; intros sel stack Hw Hs Hst; cbn [eval]; cbn [wf_expr] in Hw.
    - apply relg_refl; discriminate.
    - apply relg_refl; discriminate.
    - apply relg_refl; discriminate.
    - cbn [e_filesize en0 enM]. apply relg_refl. destruct fsz; discriminate.
    - (* EReadInt *)
      apply relg_bind_same; [apply relg_num; apply IHe; assumption|]. intros x. apply read_int_np.
    - (* ECount *)
      apply with_var_rel; [assumption|apply wv_of_bool; assumption|discriminate].
    - (* ECountIn *)
      apply andb_true_iff in Hw as [Hw Hw2]. apply andb_true_iff in Hw as [Hv Hw1].
      apply relg_bind; [apply relg_num; apply IHe1; assumption|]. intros f.
      apply relg_bind; [apply relg_num; apply IHe2; assumption|]. intros t.
      destruct (t <? 0)%Z; (apply with_var_rel; [assumption|apply wv_of_bool; assumption|discriminate]).
    - (* EOffset *)
      apply andb_true_iff in Hw as [Hv Hw1].
      apply relg_bind; [apply relg_num; apply IHe; assumption|]. intros n.
      destruct (n <=? 0)%Z; [apply relg_refl; discriminate|].
      apply with_var_rel; [assumption|apply wv_of_bool; assumption|].
      intros l. destruct (nth_z l (n - 1)); [|discriminate]. destruct (_ <=? _); [apply to_i64_np|discriminate].
    - (* ELength *)
      apply andb_true_iff in Hw as [Hv Hw1].
      apply relg_bind; [apply relg_num; apply IHe; assumption|]. intros n.
      destruct (n <=? 0)%Z; [apply relg_refl; discriminate|].
      apply with_var_rel; [assumption|apply wv_of_bool; assumption|].
      intros l. destruct (nth_z l (n - 1)); [apply to_i64_np|discriminate].
    - (* EVar *)
      apply with_var_rel; [assumption|apply wv_of_bool; assumption|discriminate].
    - (* EVarAt *)
      apply andb_true_iff in Hw as [Hv Hw1].
      apply relg_bind; [apply relg_num; apply IHe; assumption|]. intros o.
      destruct (o <? 0)%Z; [apply relg_refl; discriminate|].
      apply with_var_rel; [assumption|apply wv_of_bool; assumption|discriminate].
    - (* EVarIn *)
      apply andb_true_iff in Hw as [Hw Hw2]. apply andb_true_iff in Hw as [Hv Hw1].
      apply relg_bind; [apply relg_num; apply IHe1; assumption|]. intros f.
      apply relg_bind; [apply relg_num; apply IHe2; assumption|]. intros t.
      cbv zeta. destruct ((0 <=? t)%Z && (Z.max f 0 <=? t)%Z); [|apply relg_refl; discriminate].
      apply with_var_rel; [assumption|apply wv_of_bool; assumption|discriminate].
    - (* EUn *)
      apply relg_bind_same; [apply IHe; assumption|]. intros x; apply eval_un_np.
    - (* EBin *)
      apply andb_true_iff in Hw as [Hw1 Hw2].
      apply relg_bind; [apply IHe1; assumption|]. intros x.
      apply relg_bind_same; [apply IHe2; assumption|]. intros y; apply eval_bin_np.
    - (* EAnd *)
      apply and_loop_refines; [apply map_rel; assumption|trivial].
    - (* EOr *)
      apply or_loop_refines; [apply map_rel; assumption|trivial].
    - (* EDefined *)
      specialize (IHe sel stack Hw Hs Hst).
      destruct (rel_inv _ _ IHe) as [[-> Hb]|[[v [-> ->]]|[-> ->]]].
      + split; [left; reflexivity|]. destruct (eval enM sel stack e); try congruence; discriminate.
      + apply relg_refl; discriminate.
      + apply relg_refl; discriminate.
    - (* EFor *)
      apply andb_true_iff in Hw as [Hw Hwb]. apply andb_true_iff in Hw as [Hwse Hwset].
      apply relg_bind'; [apply eval_selection_rel; apply IHe1; assumption|].
      intros [fs|v] Esel; [|apply relg_refl; discriminate].
      apply for_loop_refines.
      + clear Esel. induction set as [|i set IHs]; cbn [map]; [constructor|].
        cbn [forallb] in Hwset. apply andb_true_iff in Hwset as [Hi Hset].
        constructor; [|apply IHs; assumption].
        apply IHe2; [assumption| |assumption]. cbn. apply Nat.ltb_lt. exact Hi.
      + intros n ->. eapply eval_selection_num_pos. exact Esel.
    - (* EForRange *)
      apply andb_true_iff in Hw as [Hw Hwb]. apply andb_true_iff in Hw as [Hw Hwt].
      apply andb_true_iff in Hw as [Hwse Hwf].
      apply relg_bind'; [apply eval_selection_rel; apply IHe1; assumption|].
      intros [fs|v] Esel; [|apply relg_refl; discriminate].
      apply undef_to_false_rel.
      apply relg_bind; [apply relg_num; apply IHe2; assumption|]. intros f.
      apply relg_bind; [apply relg_num; apply IHe3; assumption|]. intros t.
      destruct (t <? f)%Z; [apply relg_refl; discriminate|].
      apply for_loop_refines.
      + induction (zrange f t) as [|z zs IHz]; cbn [map]; [constructor|].
        constructor; [|exact IHz].
        apply IHe4; [assumption|assumption|]. apply Forall_app. split; [assumption|]. constructor; [reflexivity|constructor].
      + intros n ->. eapply eval_selection_num_pos. exact Esel.
    - (* EForList *)
      apply andb_true_iff in Hw as [Hw Hwb]. apply andb_true_iff in Hw as [Hw Hnb].
      apply andb_true_iff in Hw as [Hwse Hwel].
      apply relg_bind'; [apply eval_selection_rel; apply IHe1; assumption|].
      intros [fs|v] Esel; [|apply relg_refl; discriminate].
      apply undef_to_false_rel.
      apply list_loop_refines.
      + clear Esel. induction H as [|el elems Hel _ IHl]; cbn [map]; [constructor|].
        cbn [forallb] in Hwel, Hnb. apply andb_true_iff in Hwel as [Hwel1 Hwel2].
        apply andb_true_iff in Hnb as [Hnb1 Hnb2].
        constructor; [|apply IHl; assumption].
        pose proof (Hel sel stack Hwel1 Hs Hst) as Hre.
        unfold irel. cbn [fst snd]. split; [exact Hre|]. split.
        { intros b. apply nonbool_sound; assumption. }
        destruct (rel_inv _ _ Hre) as [[E0 Hnp]|[[v [E0 EM]]|[E0 EM]]].
        * rewrite E0. split.
          -- destruct (eval enM sel stack el) as [v| | |] eqn:EM; try discriminate.
             assert (Hv : nonbool_val v = true).
             { destruct v; try reflexivity. exfalso. eapply (nonbool_sound el sel stack); eassumption. }
             apply (IHe2 sel (stack ++ [v])); [assumption|assumption|].
             apply Forall_app. split; [assumption|constructor; [exact Hv|constructor]].
          -- intros C; exfalso; apply C; reflexivity.
        * rewrite E0, EM.
          assert (Hv : nonbool_val v = true).
          { destruct v; try reflexivity. exfalso. eapply (nonbool_sound el sel stack); eassumption. }
          assert (Hbody : relg (eval en0 sel (stack ++ [v]) e2) (eval enM sel (stack ++ [v]) e2)).
          { apply IHe2; [assumption|assumption|].
            apply Forall_app. split; [assumption|constructor; [exact Hv|constructor]]. }
          split; [apply Hbody|intros _; exact Hbody].
        * rewrite E0, EM. split; [discriminate|intros _; apply relg_refl; discriminate].
      + intros n ->. eapply eval_selection_num_pos. exact Esel.
    - (* EForRules *)
      apply andb_true_iff in Hw as [Hwse Hwel].
      apply relg_bind'; [apply eval_selection_rel; apply IHe; assumption|].
      intros [fs|v] Esel; [|apply relg_refl; discriminate].
      cbn [e_prev en0 enM].
      apply for_loop_refines.
      + apply Forall2_app.
        * generalize already. intros a. induction a as [|a IHa]; cbn [repeat]; [constructor|].
          constructor; [apply relg_refl; discriminate|exact IHa].
        * clear Esel. induction elems as [|i elems IHl]; cbn [map]; [constructor|].
          cbn [forallb] in Hwel. apply andb_true_iff in Hwel as [Hi Hel].
          constructor; [|apply IHl; assumption].
          apply relg_refl. apply Nat.ltb_lt in Hi.
          destruct (nth_error prev i) eqn:E; [discriminate|]. apply nth_error_None in E. lia.
      + intros n ->. eapply eval_selection_num_pos. exact Esel.
    - (* ERule *)
      cbn [e_prev en0 enM]. apply relg_refl. apply Nat.ltb_lt in Hw.
      destruct (nth_error prev i) eqn:E; [discriminate|]. apply nth_error_None in E. lia.
    - (* EExt *)
      cbn [e_ext en0 enM]. apply relg_refl. destruct (nth_error ext i); discriminate.
    - (* EBound *)
      apply relg_refl. destruct (nth_error stack i); discriminate.
    - (* EDouble *)
      apply relg_refl; discriminate.
  Qed.
End NoScan.

Lemma no_scan_rule_verdict :
  forall (M : list (list smatch)) prev ext fsz mem cond b,
    wf_expr ext (length M) (length prev) cond = true ->
    eval_rule (en0 prev ext fsz mem) cond = Ok b ->
    eval_rule (enM M prev ext fsz mem) cond = Ok b.
Proof.
  intros M prev ext fsz mem cond b Hw.
  destruct (no_scan_sound M prev ext fsz mem cond None [] Hw I (Forall_nil _)) as [[E|E] Hnp];
    unfold eval_rule; rewrite E; [discriminate|trivial].
Qed.

(* ---- the pinned ForIterator::List (before fix 571ee8b) ---- *)
Fixpoint list_loop_pinned (s : fsel) (needed : N) (items : list (res value * res value)) : res value :=
  match items with
  | [] => sel_end s needed
  | (re, rb) :: rest =>
      match re with
      | Ok (VBool _) => Undef
      | Ok _ =>
          let step (b : bool) :=
            let '(s', o) := add_result s b in
            match o with Some x => Ok (VBool x) | None => list_loop_pinned s' needed rest end in
          match rb with
          | Ok v => step (truthy v)
          | Undef => step false
          | Needed => list_loop_pinned s (needed + 1) rest
          | Panic => Panic
          end
      | Undef => Undef   (* pinned: regardless of undecided earlier bodies *)
      | Needed => Needed
      | Panic => Panic
      end
  end.

Lemma list_loop_pinned_refuted :
  exists l0 lM, Forall2 irel l0 lM /\
    ~ refines (list_loop_pinned (FNum 1) 0 l0) (list_loop_pinned (FNum 1) 0 lM).
Proof.
  exists [(Ok (VInt 0), Needed); (Undef, Undef)], [(Ok (VInt 0), Ok (VBool true)); (Undef, Undef)].
  split.
  - constructor; [|constructor; [|constructor]].
    + unfold irel, rel, notbool; cbn [fst snd].
      split; [split; [right; reflexivity|discriminate]|].
      split; [intros x E; discriminate|]. split; [discriminate|].
      intros _. split; [left; reflexivity|discriminate].
    + unfold irel, rel, notbool; cbn [fst snd].
      split; [split; [right; reflexivity|discriminate]|].
      split; [intros x E; discriminate|]. split; [discriminate|].
      intros _. split; [right; reflexivity|discriminate].
  - cbn. intros [H|H]; discriminate.
Qed.
