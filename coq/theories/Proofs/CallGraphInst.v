(* Proofs/CallGraphInst.v — the checker evaluated on the call graph generated from /repo on this run
   (Model/CallGraph.v), and the depth theorem instantiated on it. *)
From Boreal Require Import Base.Prelude Base.ConstsParser Model.CallGraphCheck Model.CallGraph Proofs.CallGraphProofs.

(* computed: the call graph minus the guarded functions has no cycle, all guards have a known class *)
Lemma graph_checked : guards_cut_all_cycles graph = true.
Proof. vm_compute. reflexivity. Qed.

Lemma graph_depth_bounded :
  forall le ls lc li chain, is_path graph chain = true -> respects graph le ls lc li chain ->
    (length chain <= depth_bound graph le ls lc li)%nat.
Proof. exact (depth_bounded graph graph_checked). Qed.

(* the six guards the theorem relies on are there (ids are positions in CallGraph.cg_names) *)
Lemma graph_guard_classes :
  map snd (cg_guards graph) = [0; 0; 1; 1; 2; 3].
Proof. vm_compute. reflexivity. Qed.

(* with the default limits of this tree, and with the largest limits a caller can configure for the parser *)
Definition default_bound : nat :=
  depth_bound graph default_expr_recursion_limit default_string_recursion_limit
              default_max_condition_depth max_include_depth.
