(* Proofs/CallGraphInst.v — the checker evaluated on the call graph generated from /repo on this run
   (Model/CallGraph.v), and the depth theorem instantiated on it. *)
From Boreal Require Import Base.Prelude Base.ConstsParser Model.CallGraphCheck Model.CallGraph Proofs.CallGraphProofs Proofs.CallGraphFlow.

(* computed: the call graph minus the guarded functions has no cycle, all guards have a known class *)
Lemma graph_checked : guards_cut_all_cycles graph = true.
Proof. vm_compute. reflexivity. Qed.

Lemma graph_depth_bounded :
  forall le ls lc li chain, is_path graph chain = true -> respects graph le ls lc li chain ->
    (length chain <= depth_bound graph le ls lc li)%nat.
Proof. exact (depth_bounded graph graph_checked). Qed.

(* the same bound from the operational reading of the guards (no per-class hypothesis on the chain) *)
Lemma graph_depth_bounded_exec :
  forall le ls lc li chain, is_path graph chain = true -> guards_pass graph (lim4 le ls lc li) [] chain ->
    (length chain <= depth_bound graph le ls lc li)%nat.
Proof. exact (depth_bounded_exec graph graph_checked). Qed.

(* counter balance of every guarded function of this tree, on every path of its control-flow graph *)
Lemma graph_counter_balanced :
  forall p, In p (cg_progs graph) ->
  forall c k e n v, reach p c k e -> nth_error (gp_nodes p) k = Some n -> gn_instr n = IRetOk v ->
    elook e v = Some c.
Proof. intros p Hin. exact (ok_exit_balanced p (progs_ok_balanced graph graph_checked p Hin)). Qed.

Lemma graph_counter_never_below :
  forall p, In p (cg_progs graph) ->
  forall c k e n v d, reach p c k e -> nth_error (gp_nodes p) k = Some n -> elook (gn_cert n) v = Some d ->
    exists m, elook e v = Some m /\ (c <= m)%nat.
Proof. intros p Hin. exact (never_below_entry p (progs_ok_balanced graph graph_checked p Hin)). Qed.

Lemma graph_call_counter :
  forall p, In p (cg_progs graph) ->
  forall c k e n cs srcs s d, reach p c k e -> nth_error (gp_nodes p) k = Some n -> gn_instr n = ICall cs srcs ->
    In s srcs -> elook (gn_cert n) s = Some d ->
    exists m, elook e s = Some m /\ (c + call_delta (gn_cert n) srcs <= m)%nat.
Proof. intros p Hin. exact (call_counter p (progs_ok_balanced graph graph_checked p Hin)). Qed.

Lemma graph_uncovered_in_copy :
  forall p n cs srcs callee, In p (cg_progs graph) -> In n (gp_nodes p) -> gn_instr n = ICall cs srcs -> In callee cs ->
    if Nat.leb 1 (call_delta (gn_cert n) srcs) then is_edge graph (gp_fn p) callee = true
    else exists f', gp_copy p = Some f' /\ guarded graph f' = false /\ is_edge graph f' callee = true.
Proof. exact (progs_ok_uncovered_in_copy graph graph_checked). Qed.

(* the six guards the theorem relies on are there (ids are positions in CallGraph.cg_names) *)
Lemma graph_guard_classes :
  map snd (cg_guards graph) = [0; 0; 1; 1; 2; 3].
Proof. vm_compute. reflexivity. Qed.

(* with the default limits of this tree, and with the largest limits a caller can configure for the parser *)
Definition default_bound : nat :=
  depth_bound graph default_expr_recursion_limit default_string_recursion_limit
              default_max_condition_depth max_include_depth.
