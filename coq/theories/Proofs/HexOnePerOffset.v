(* Proofs/HexOnePerOffset.v — C02: "at most one match per offset" said directly — the offsets reported
   for a string that goes through the Aho-Corasick pass are pairwise distinct, and two reported matches
   at the same offset are the same match.  Corollaries of the strict ordering. *)
From Coq Require Import Sorted.
From Boreal Require Import Base.Prelude Spec.Regex Model.Hir Model.HirScan Proofs.HexScanProofs.

Lemma strictly_sorted_nodup (l : list (N * N)) :
  StronglySorted (fun a b => fst a < fst b) l -> NoDup (map fst l).
Proof.
  induction 1 as [|a l Hs IH Hf]; cbn [map]; constructor.
  - intros Hin. apply in_map_iff in Hin. destruct Hin as [b [E Hb]].
    rewrite Forall_forall in Hf. specialize (Hf b Hb). lia.
  - exact IH.
Qed.

Theorem ac_scan_offsets_distinct use_sp d mem max_nb :
  NoDup (map fst (ac_scan use_sp d mem max_nb)).
Proof. apply strictly_sorted_nodup. exact (ac_scan_ascending use_sp d mem max_nb). Qed.

Lemma strictly_sorted_same_offset (l : list (N * N)) x y :
  StronglySorted (fun a b => fst a < fst b) l -> In x l -> In y l -> fst x = fst y -> x = y.
Proof.
  induction 1 as [|a l Hs IH Hf]; intros Hx Hy E; [destruct Hx|].
  rewrite Forall_forall in Hf.
  destruct Hx as [<-|Hx], Hy as [<-|Hy].
  - reflexivity.
  - specialize (Hf y Hy). lia.
  - specialize (Hf x Hx). lia.
  - exact (IH Hx Hy E).
Qed.

Theorem ac_scan_one_per_offset use_sp d mem max_nb x y :
  In x (ac_scan use_sp d mem max_nb) -> In y (ac_scan use_sp d mem max_nb) -> fst x = fst y -> x = y.
Proof. apply strictly_sorted_same_offset. exact (ac_scan_ascending use_sp d mem max_nb). Qed.
