(* Proofs/TextBase64.v — boreal's `encode_base64` (byte arithmetic with shifts and masks, special cases
   for the three alignments and the 1- and 2-byte remainders) is the declarative trimmed base64 of
   Spec/TextSpec.v (character i kept iff its 6 bits lie inside the text's bits), for every alphabet,
   every non-empty byte string and the three alignments.  Hence `b64_okb d = true` for every
   well-formed declaration. *)
From Boreal Require Import Base.Prelude Base.ListX Base.Bytes Base.Consts Model.Base64 Model.Literals
  Spec.TextSpec Model.TextCase Proofs.AcScanDecomp Proofs.TextLiterals.

(* ------------------------------------------------------------------ finite sweeps over bytes *)
Definition all256 (p : N -> bool) : bool := forallb p (iota 0 256).

Lemma all256_spec p : all256 p = true -> forall a, a < 256 -> p a = true.
Proof.
  intros H a Ha. unfold all256 in H. rewrite forallb_forall in H. apply H. apply in_iota. lia.
Qed.

Lemma all256x2_spec (p : N -> N -> bool) :
  all256 (fun a => all256 (p a)) = true -> forall a b, a < 256 -> b < 256 -> p a b = true.
Proof.
  intros H a b Ha Hb. apply (all256_spec (p a)); [|exact Hb]. now apply (all256_spec _ H).
Qed.

(* ------------------------------------------------------------------ the four 6-bit groups of a byte pair *)
Definition tb (c k : N) : bool := N.testbit c k.
Definition Hhi6 (c : N) : N := val_of_bits 0 [tb c 7; tb c 6; tb c 5; tb c 4; tb c 3; tb c 2].
Definition Hlo2hi4 (a b : N) : N := val_of_bits 0 [tb a 1; tb a 0; tb b 7; tb b 6; tb b 5; tb b 4].
Definition Hlo4hi2 (a b : N) : N := val_of_bits 0 [tb a 3; tb a 2; tb a 1; tb a 0; tb b 7; tb b 6].
Definition Hlo6 (c : N) : N := val_of_bits 0 [tb c 5; tb c 4; tb c 3; tb c 2; tb c 1; tb c 0].

Definition sidx (v s : N) : N := N.land (N.shiftr v s) 63.

(* model side: the shifted/masked words are those groups *)
Lemma sweep_hi_zero :
  all256 (fun c => (N.land (N.shiftr c 12) 63 =? 0) && (N.land (N.shiftr c 18) 63 =? 0)
                   && (N.land (N.shiftr (N.shiftl c 8) 18) 63 =? 0)
                   && (N.land (N.shiftr (N.shiftl c 16) 6) 63 =? 0)
                   && (N.land (N.shiftr (N.shiftl c 16) 0) 63 =? 0)
                   && (N.land (N.shiftr (N.shiftl c 8) 0) 63 =? 0)
                   && (N.land (N.shiftr c 10) 63 =? 0)) = true.
Proof. vm_compute. reflexivity. Qed.

Lemma sweep_single :
  all256 (fun c => (N.land (N.shiftr (N.shiftl c 16) 18) 63 =? Hhi6 c)
                   && (N.land (N.shiftr c 0) 63 =? Hlo6 c)
                   && (N.land (N.shiftr c 2) 63 =? Hhi6 c)
                   && (N.land c 63 =? Hlo6 c)
                   && (N.land (N.shiftr (N.shiftl c 8) 10) 63 =? Hhi6 c)) = true.
Proof. vm_compute. reflexivity. Qed.

Lemma sweep_pair :
  all256 (fun a => all256 (fun b =>
    (N.lor (N.land (N.shiftr (N.shiftl a 16) 12) 63) (N.land (N.shiftr (N.shiftl b 8) 12) 63) =? Hlo2hi4 a b)
    && (N.lor (N.land (N.shiftr (N.shiftl a 8) 6) 63) (N.land (N.shiftr b 6) 63) =? Hlo4hi2 a b)
    && (N.lor (N.land (N.shiftr (N.shiftl a 8) 4) 63) (N.land (N.shiftr b 4) 63) =? Hlo2hi4 a b))) = true.
Proof. vm_compute. reflexivity. Qed.

Ltac split_andb H :=
  repeat match type of H with
         | (_ && _) = true => let H1 := fresh H in apply andb_true_iff in H as [H H1]
         end.

Ltac facts1 sw c Hc :=
  let F := fresh "F" in pose proof (all256_spec _ sw c Hc) as F; cbv beta in F; split_andb F.
Ltac facts2 sw a b Ha Hb :=
  let F := fresh "F" in pose proof (all256x2_spec _ sw a b Ha Hb) as F; cbv beta in F; split_andb F.
Ltac use_facts :=
  repeat match goal with Hz : (_ =? _) = true |- _ => apply N.eqb_eq in Hz end;
  repeat match goal with Hz : ?l = _ |- context [?l] => rewrite Hz end;
  rewrite ?N.lor_0_r, ?N.lor_0_l; try reflexivity; try assumption.

Section Words.
  Variables c0 c1 c2 : N.
  Hypotheses (H0 : c0 < 256) (H1 : c1 < 256) (H2 : c2 < 256).
  Let v := N.lor (N.lor (N.shiftl c0 16) (N.shiftl c1 8)) c2.
  Let w := N.lor (N.shiftl c0 8) c1.

  Lemma word3 :
    sidx v 18 = Hhi6 c0 /\ sidx v 12 = Hlo2hi4 c0 c1 /\ sidx v 6 = Hlo4hi2 c1 c2 /\ sidx v 0 = Hlo6 c2.
  Proof.
    unfold sidx, v. rewrite !N.shiftr_lor, !N.land_lor_distr_l.
    facts1 sweep_hi_zero c0 H0. facts1 sweep_hi_zero c1 H1. facts1 sweep_hi_zero c2 H2.
    facts1 sweep_single c0 H0. facts1 sweep_single c2 H2.
    facts2 sweep_pair c0 c1 H0 H1. facts2 sweep_pair c1 c2 H1 H2.
    repeat split; use_facts.
  Qed.

  Lemma word2 : sidx w 10 = Hhi6 c0 /\ sidx w 4 = Hlo2hi4 c0 c1 /\ sidx w 6 = Hlo4hi2 c0 c1 /\ sidx w 0 = Hlo6 c1.
  Proof.
    unfold sidx, w. rewrite !N.shiftr_lor, !N.land_lor_distr_l.
    facts1 sweep_hi_zero c0 H0. facts1 sweep_hi_zero c1 H1.
    facts1 sweep_single c0 H0. facts1 sweep_single c1 H1.
    facts2 sweep_pair c0 c1 H0 H1.
    repeat split; use_facts.
  Qed.

  Lemma word1 : N.land (N.shiftr c0 2) 63 = Hhi6 c0 /\ N.land c0 63 = Hlo6 c0.
  Proof. facts1 sweep_single c0 H0. split; use_facts. Qed.
End Words.

(* ------------------------------------------------------------------ index-level forms (alphabet factored out) *)
Definition look (alphabet : bytes) (v : N) : N := nnth 0 v alphabet.

Fixpoint chunks_idx (s : bytes) : list N :=
  match s with
  | c0 :: c1 :: c2 :: rest =>
      let v := N.lor (N.lor (N.shiftl c0 16) (N.shiftl c1 8)) c2 in
      sidx v 18 :: sidx v 12 :: sidx v 6 :: sidx v 0 :: chunks_idx rest
  | [a] => [N.land (N.shiftr a 2) 63]
  | [a; b] => let v := N.lor (N.shiftl a 8) b in [sidx v 10; sidx v 4]
  | [] => []
  end.

Lemma list_ind3 (P : bytes -> Prop) :
  P [] -> (forall a, P [a]) -> (forall a b, P [a; b]) ->
  (forall a b c r, P r -> P (a :: b :: c :: r)) -> forall s, P s.
Proof.
  intros Hn H1 H2 H3. fix IH 1. intros s.
  destruct s as [|a [|b [|c r]]]; [exact Hn | apply H1 | apply H2 | apply H3, IH].
Qed.

Lemma b64_chunks_idx alphabet s : b64_chunks alphabet s = map (look alphabet) (chunks_idx s).
Proof.
  induction s as [| a | a b | a b c r IH] using list_ind3; try reflexivity.
  cbn [b64_chunks chunks_idx map]. now rewrite IH.
Qed.

Definition chars_at (stream : list bool) (lo hi i : N) : list N :=
  if (lo <=? 6 * i) && (6 * i + 6 <=? hi)
  then [val_of_bits 0 (slice (6 * i) (6 * i + 6) stream)] else [].

Definition spec_idx (s : bytes) (off : N) : list N :=
  flat_map (chars_at (bits_of (repeat 0 (N.to_nat off) ++ s ++ [0; 0])) (8 * off) (8 * (off + nlen s)))
           (iota 0 ((8 * (off + nlen s) + 5) / 6)).

Lemma map_flat_map' {A B C} (g : B -> C) (f : A -> list B) l :
  map g (flat_map f l) = flat_map (fun x => map g (f x)) l.
Proof. induction l as [|x l IH]; cbn [flat_map map]; [reflexivity|]. now rewrite map_app, IH. Qed.

Lemma spec_b64_idx alphabet s off : spec_b64 alphabet s off = map (look alphabet) (spec_idx s off).
Proof.
  unfold spec_b64, spec_idx. rewrite map_flat_map'. apply flat_map_ext. intros i. unfold chars_at.
  destruct ((8 * off <=? 6 * i) && (6 * i + 6 <=? 8 * (off + nlen s))); reflexivity.
Qed.

(* ------------------------------------------------------------------ splitting off the first 24 bits *)
Lemma slice_app_l {A} a b (x t : list A) : b <= nlen x -> slice a b (x ++ t) = slice a b x.
Proof.
  intros H. unfold slice, ntake, ndrop, nlen in *. rewrite skipn_app, firstn_app.
  replace (N.to_nat (b - a) - length (skipn (N.to_nat a) x))%nat with O by (rewrite skipn_length; lia).
  cbn [firstn]. now rewrite app_nil_r.
Qed.

Lemma slice_app_r {A} a b (x t : list A) : slice (nlen x + a) (nlen x + b) (x ++ t) = slice a b t.
Proof.
  unfold slice. replace (nlen x + b - (nlen x + a)) with (b - a) by lia. f_equal.
  unfold ndrop, nlen. rewrite skipn_app.
  rewrite skipn_all2 by lia. cbn [app]. f_equal. lia.
Qed.

Lemma flat_map_iota_shift {B} (f g : N -> list B) k n : forall j,
  (forall i, j <= i < j + N.of_nat n -> f (k + i) = g i) ->
  flat_map f (iota_nat (k + j) n) = flat_map g (iota_nat j n).
Proof.
  induction n as [|n IH]; intros j H; cbn [iota_nat flat_map]; [reflexivity|].
  rewrite H by lia. f_equal. replace (k + j + 1) with (k + (j + 1)) by lia. apply IH. intros i Hi. apply H. lia.
Qed.

Lemma split24 (x t : list bool) lo r :
  nlen x = 24 -> lo <= 24 ->
  flat_map (chars_at (x ++ t) lo (24 + 8 * r)) (iota 0 ((24 + 8 * r + 5) / 6))
  = flat_map (chars_at x lo 24) [0; 1; 2; 3] ++ flat_map (chars_at t 0 (8 * r)) (iota 0 ((8 * r + 5) / 6)).
Proof.
  intros Hx Hlo.
  replace ((24 + 8 * r + 5) / 6) with (4 + (8 * r + 5) / 6) by lia.
  rewrite iota_app, flat_map_app. f_equal.
  - change (iota 0 4) with [0; 1; 2; 3]. apply flat_map_ext_in. intros i Hi.
    assert (i < 4) by (cbn [In] in Hi; lia).
    unfold chars_at. rewrite slice_app_l by lia.
    replace (6 * i + 6 <=? 24 + 8 * r) with true by lia. replace (6 * i + 6 <=? 24) with true by lia. reflexivity.
  - unfold iota. change (0 + 4) with (4 + 0). apply flat_map_iota_shift. intros i Hi.
    unfold chars_at. replace (6 * (4 + i)) with (nlen x + 6 * i) by lia.
    replace (nlen x + 6 * i + 6) with (nlen x + (6 * i + 6)) by lia. rewrite slice_app_r.
    replace (lo <=? nlen x + 6 * i) with true by lia. replace (0 <=? 6 * i) with true by lia.
    replace (nlen x + (6 * i + 6) <=? 24 + 8 * r) with (6 * i + 6 <=? 8 * r) by lia. reflexivity.
Qed.

(* the first 24 bits, symbolically *)
Lemma head0 (x0 x1 x2 x3 x4 x5 x6 x7 x8 x9 x10 x11 x12 x13 x14 x15 x16 x17 x18 x19 x20 x21 x22 x23 : bool) :
  flat_map (chars_at [x0;x1;x2;x3;x4;x5;x6;x7;x8;x9;x10;x11;x12;x13;x14;x15;x16;x17;x18;x19;x20;x21;x22;x23] 0 24)
           [0; 1; 2; 3]
  = [val_of_bits 0 [x0;x1;x2;x3;x4;x5]; val_of_bits 0 [x6;x7;x8;x9;x10;x11];
     val_of_bits 0 [x12;x13;x14;x15;x16;x17]; val_of_bits 0 [x18;x19;x20;x21;x22;x23]].
Proof. reflexivity. Qed.

Lemma head1 (x0 x1 x2 x3 x4 x5 x6 x7 x8 x9 x10 x11 x12 x13 x14 x15 x16 x17 x18 x19 x20 x21 x22 x23 : bool) :
  flat_map (chars_at [x0;x1;x2;x3;x4;x5;x6;x7;x8;x9;x10;x11;x12;x13;x14;x15;x16;x17;x18;x19;x20;x21;x22;x23] 8 24)
           [0; 1; 2; 3]
  = [val_of_bits 0 [x12;x13;x14;x15;x16;x17]; val_of_bits 0 [x18;x19;x20;x21;x22;x23]].
Proof. reflexivity. Qed.

Lemma head2 (x0 x1 x2 x3 x4 x5 x6 x7 x8 x9 x10 x11 x12 x13 x14 x15 x16 x17 x18 x19 x20 x21 x22 x23 : bool) :
  flat_map (chars_at [x0;x1;x2;x3;x4;x5;x6;x7;x8;x9;x10;x11;x12;x13;x14;x15;x16;x17;x18;x19;x20;x21;x22;x23] 16 24)
           [0; 1; 2; 3]
  = [val_of_bits 0 [x18;x19;x20;x21;x22;x23]].
Proof. reflexivity. Qed.

Lemma bits8 c : bits_of_byte 8 c = [tb c 7; tb c 6; tb c 5; tb c 4; tb c 3; tb c 2; tb c 1; tb c 0].
Proof. reflexivity. Qed.

Lemma bits_of_cons c s : bits_of (c :: s) = bits_of_byte 8 c ++ bits_of s.
Proof. reflexivity. Qed.

(* ------------------------------------------------------------------ spec_idx, unfolded for the shapes encode_base64 distinguishes *)
Lemma spec_idx0_form r :
  spec_idx r 0 = flat_map (chars_at (bits_of (r ++ [0; 0])) 0 (8 * nlen r)) (iota 0 ((8 * nlen r + 5) / 6)).
Proof.
  unfold spec_idx. change (repeat 0 (N.to_nat 0)) with (@nil N). cbn [app].
  replace (8 * 0) with 0 by lia. replace (0 + nlen r) with (nlen r) by lia. reflexivity.
Qed.

Lemma spec_split p0 p1 p2 r lo :
  lo <= 24 ->
  flat_map (chars_at (bits_of (p0 :: p1 :: p2 :: r ++ [0; 0])) lo (24 + 8 * nlen r))
           (iota 0 ((24 + 8 * nlen r + 5) / 6))
  = flat_map (chars_at (bits_of_byte 8 p0 ++ bits_of_byte 8 p1 ++ bits_of_byte 8 p2) lo 24) [0; 1; 2; 3]
    ++ spec_idx r 0.
Proof.
  intros Hlo. rewrite spec_idx0_form, !bits_of_cons, !app_assoc.
  rewrite <- (app_assoc (bits_of_byte 8 p0)). apply split24; [reflexivity | exact Hlo].
Qed.

Lemma byte_lt a : byte_ok a = true -> a < 256.
Proof. unfold byte_ok. lia. Qed.

Theorem chunks_spec s : bytes_ok s = true -> chunks_idx s = spec_idx s 0.
Proof.
  induction s as [| a | a b | a b c r IH] using list_ind3; intros Hok.
  - reflexivity.
  - cbn [bytes_ok forallb] in Hok. rewrite andb_true_r in Hok. apply byte_lt in Hok.
    change (spec_idx [a] 0) with [Hhi6 a]. cbn [chunks_idx]. f_equal. apply (word1 a Hok).
  - cbn [bytes_ok forallb] in Hok. rewrite andb_true_r in Hok. apply andb_true_iff in Hok as [Ha Hb].
    apply byte_lt in Ha, Hb.
    change (spec_idx [a; b] 0) with [Hhi6 a; Hlo2hi4 a b]. cbn [chunks_idx].
    destruct (word2 a b Ha Hb) as (E1 & E2 & _). now rewrite E1, E2.
  - cbn [bytes_ok forallb] in Hok. apply andb_true_iff in Hok as [Ha Hok]. apply andb_true_iff in Hok as [Hb Hok].
    apply andb_true_iff in Hok as [Hc Hok]. apply byte_lt in Ha, Hb, Hc.
    cbn [chunks_idx]. destruct (word3 a b c Ha Hb Hc) as (E1 & E2 & E3 & E4). rewrite E1, E2, E3, E4.
    rewrite (IH Hok).
    unfold spec_idx at 2. change (repeat 0 (N.to_nat 0)) with (@nil N). cbn [app].
    replace (8 * 0) with 0 by lia.
    replace (8 * (0 + nlen (a :: b :: c :: r))) with (24 + 8 * nlen r) by (rewrite !nlen_cons; lia).
    rewrite spec_split by lia. rewrite !bits8. cbn [app]. rewrite head0. reflexivity.
Qed.

Definition opt_of_idx (l : list N) : option (list N) := match l with [] => None | _ => Some l end.

(* encode_base64 at index level *)
Definition enc_idx (s : bytes) (off : N) : option (list N) :=
  match off with
  | 1 => match s with
         | s0 :: s1 :: rest => let v := N.lor (N.shiftl s0 8) s1 in Some (sidx v 6 :: sidx v 0 :: chunks_idx rest)
         | _ => None
         end
  | 2 => match s with
         | s0 :: rest => Some (N.land s0 63 :: chunks_idx rest)
         | [] => None
         end
  | _ => Some (chunks_idx s)
  end.

Lemma encode_base64_idx s alpha off :
  off < 3 ->
  encode_base64 s alpha off
  = option_map (map (look (match alpha with Some a => a | None => BASE64_DEFAULT_ALPHABET end))) (enc_idx s off).
Proof.
  intros Hoff. assert (Hc : off = 0 \/ off = 1 \/ off = 2) by lia.
  destruct Hc as [E|[E|E]]; subst off; unfold encode_base64, enc_idx.
  - change (0 mod 3) with 0. cbn [option_map]. now rewrite b64_chunks_idx.
  - change (1 mod 3) with 1. destruct s as [|s0 [|s1 rest]]; try reflexivity.
    cbn [option_map map]. now rewrite b64_chunks_idx.
  - change (2 mod 3) with 2. destruct s as [|s0 rest]; try reflexivity.
    cbn [option_map map]. now rewrite b64_chunks_idx.
Qed.

Lemma chunks_idx_nonempty s : s <> [] -> chunks_idx s <> [].
Proof. destruct s as [|a [|b [|c r]]]; [congruence | discriminate | discriminate | discriminate]. Qed.

Theorem enc_idx_spec s off :
  bytes_ok s = true -> s <> [] -> off < 3 -> enc_idx s off = opt_of_idx (spec_idx s off).
Proof.
  intros Hok Hne Hoff. assert (Hc : off = 0 \/ off = 1 \/ off = 2) by lia.
  destruct Hc as [E|[E|E]]; subst off; unfold enc_idx.
  - rewrite <- chunks_spec by exact Hok. pose proof (chunks_idx_nonempty s Hne).
    destruct (chunks_idx s); [congruence | reflexivity].
  - destruct s as [|s0 [|s1 rest]]; [congruence | |].
    + change (spec_idx [s0] 1) with (@nil N). reflexivity.
    + cbn [bytes_ok forallb] in Hok. apply andb_true_iff in Hok as [H0 Hok]. apply andb_true_iff in Hok as [H1 Hok].
      apply byte_lt in H0, H1.
      unfold spec_idx. change (repeat 0 (N.to_nat 1)) with [0]. cbn [app].
      replace (8 * 1) with 8 by lia.
      replace (8 * (1 + nlen (s0 :: s1 :: rest))) with (24 + 8 * nlen rest) by (rewrite !nlen_cons; lia).
      rewrite spec_split by lia. rewrite !bits8. cbn [app]. rewrite head1.
      destruct (word2 s0 s1 H0 H1) as (_ & _ & E3 & E4). rewrite E3, E4.
      rewrite (chunks_spec rest Hok). reflexivity.
  - destruct s as [|s0 rest]; [congruence|].
    cbn [bytes_ok forallb] in Hok. apply andb_true_iff in Hok as [H0 Hok]. apply byte_lt in H0.
    unfold spec_idx. change (repeat 0 (N.to_nat 2)) with [0; 0]. cbn [app].
    replace (8 * 2) with 16 by lia.
    replace (8 * (2 + nlen (s0 :: rest))) with (24 + 8 * nlen rest) by (rewrite !nlen_cons; lia).
    rewrite spec_split by lia. rewrite !bits8. cbn [app]. rewrite head2.
    destruct (word1 s0 H0) as (_ & E). rewrite E. rewrite (chunks_spec rest Hok). reflexivity.
Qed.

(* ------------------------------------------------------------------ for every alphabet *)
Theorem encode_base64_spec s alpha off :
  bytes_ok s = true -> s <> [] -> off < 3 ->
  encode_base64 s alpha off
  = opt_of_bytes (spec_b64 (match alpha with Some a => a | None => BASE64_DEFAULT_ALPHABET end) s off).
Proof.
  intros Hok Hne Hoff. rewrite encode_base64_idx by exact Hoff. rewrite spec_b64_idx.
  rewrite (enc_idx_spec s off Hok Hne Hoff).
  destruct (spec_idx s off); reflexivity.
Qed.

(* ------------------------------------------------------------------ every well-formed declaration passes the validation *)
Lemma bytes_ok_wide s : bytes_ok s = true -> bytes_ok (string_to_wide s) = true.
Proof.
  unfold string_to_wide. induction s as [|b s IH]; intros H; [reflexivity|].
  cbn [bytes_ok forallb] in H. apply andb_true_iff in H as [Hb Hs].
  cbn [flat_map app bytes_ok forallb]. rewrite Hb. cbn [andb]. change (byte_ok 0) with true. cbn [andb]. now apply IH.
Qed.

Lemma opt_eqb_bytes_refl (x : option bytes) : opt_eqb bytes_eqb x x = true.
Proof. destruct x; [apply bytes_eqb_refl | reflexivity]. Qed.

Theorem b64_okb_wf d : wf_decl d = true -> b64_okb d = true.
Proof.
  intros Hwf. unfold b64_okb. destruct (t_b64 d) as [b|]; [|reflexivity].
  pose proof (wf_split d Hwf) as (Hne & Hok & _ & _).
  apply forallb_forall. intros lit Hlit. apply forallb_forall. intros off Hoff.
  assert (Hl : bytes_ok lit = true /\ lit <> []).
  { unfold base_literals in Hlit.
    assert (Hw : string_to_wide (t_text d) <> []) by (rewrite string_to_wide_widen; now apply widen_nonempty).
    destruct (t_wide d); [destruct (c_ascii d)|]; cbn [In] in Hlit;
      repeat destruct Hlit as [<-|Hlit]; try destruct Hlit; auto using bytes_ok_wide. }
  destruct Hl as [Hlok Hlne].
  assert (off < 3) by (cbn [In] in Hoff; lia).
  rewrite (encode_base64_spec lit (b_alpha b) off Hlok Hlne H). apply opt_eqb_bytes_refl.
Qed.
