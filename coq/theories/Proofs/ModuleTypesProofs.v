(* Proofs/ModuleTypesProofs.v — soundness of the compile-time type check of module value uses w.r.t. the scan-time
   evaluation (C17), panic-freedom of evaluate_ops (C09), and the relation between the boolean conformance check
   evaluated on dumps and the full predicate. *)
From Coq Require Import String.
From Boreal Require Import Base.Prelude Base.Res Model.ModuleTypes.

(* ------------------------------------------------------------------ nested induction principles (by hand) *)
Section mvalue_ind'.
  Variable P : mvalue -> Prop.
  Hypothesis HInt : forall z, P (VInteger z).
  Hypothesis HFloat : forall b, P (VFloat b).
  Hypothesis HBytes : forall b, P (VBytes b).
  Hypothesis HRegex : forall r, P (VRegex r).
  Hypothesis HBool : forall b, P (VBoolean b).
  Hypothesis HObj : forall fields, Forall (fun kv => P (snd kv)) fields -> P (VObject fields).
  Hypothesis HArr : forall elems, Forall P elems -> P (VArray elems).
  Hypothesis HDict : forall entries, Forall (fun kv => P (snd kv)) entries -> P (VDict entries).
  Hypothesis HFun : forall f, (forall args r, f args = Some r -> P r) -> P (VFunction f).
  Hypothesis HUndef : P VUndefined.

  Fixpoint mvalue_ind' (v : mvalue) : P v :=
    match v with
    | VInteger z => HInt z
    | VFloat b => HFloat b
    | VBytes b => HBytes b
    | VRegex r => HRegex r
    | VBoolean b => HBool b
    | VObject fields =>
        HObj fields ((fix go (l : list (string * mvalue)) : Forall (fun kv => P (snd kv)) l :=
                        match l with
                        | [] => Forall_nil _
                        | (k, v') :: l' => Forall_cons (k, v') (mvalue_ind' v') (go l')
                        end) fields)
    | VArray elems =>
        HArr elems ((fix go (l : list mvalue) : Forall P l :=
                       match l with
                       | [] => Forall_nil _
                       | v' :: l' => Forall_cons v' (mvalue_ind' v') (go l')
                       end) elems)
    | VDict entries =>
        HDict entries ((fix go (l : list (list N * mvalue)) : Forall (fun kv => P (snd kv)) l :=
                          match l with
                          | [] => Forall_nil _
                          | (k, v') :: l' => Forall_cons (k, v') (mvalue_ind' v') (go l')
                          end) entries)
    | VFunction f =>
        HFun f (fun args r (E : f args = Some r) =>
                  (match f args as o return o = Some r -> P r with
                   | Some r' => fun E' =>
                       eq_ind r' P (mvalue_ind' r') r
                              (f_equal (fun o => match o with Some x => x | None => r' end) E')
                   | None => fun E' =>
                       False_ind _ (eq_ind None (fun o => match o with None => True | Some _ => False end) I _ E')
                   end) E)
    | VUndefined => HUndef
    end.
End mvalue_ind'.

Section mtype_ind'.
  Variable P : mtype -> Prop.
  Hypothesis HInt : P TInteger.
  Hypothesis HFloat : P TFloat.
  Hypothesis HBytes : P TBytes.
  Hypothesis HRegex : P TRegex.
  Hypothesis HBool : P TBoolean.
  Hypothesis HObj : forall fields, Forall (fun kt => P (snd kt)) fields -> P (TObject fields).
  Hypothesis HArr : forall e, P e -> P (TArray e).
  Hypothesis HDict : forall e, P e -> P (TDict e).
  Hypothesis HFun : forall args ret, Forall (Forall P) args -> P ret -> P (TFunction args ret).

  Fixpoint mtype_ind' (t : mtype) : P t :=
    match t with
    | TInteger => HInt
    | TFloat => HFloat
    | TBytes => HBytes
    | TRegex => HRegex
    | TBoolean => HBool
    | TObject fields =>
        HObj fields ((fix go (l : list (string * mtype)) : Forall (fun kt => P (snd kt)) l :=
                        match l with
                        | [] => Forall_nil _
                        | (k, t') :: l' => Forall_cons (k, t') (mtype_ind' t') (go l')
                        end) fields)
    | TArray e => HArr e (mtype_ind' e)
    | TDict e => HDict e (mtype_ind' e)
    | TFunction args ret =>
        HFun args ret
             ((fix go (l : list (list mtype)) : Forall (Forall P) l :=
                 match l with
                 | [] => Forall_nil _
                 | a :: l' =>
                     Forall_cons a ((fix go2 (m : list mtype) : Forall P m :=
                                       match m with
                                       | [] => Forall_nil _
                                       | t' :: m' => Forall_cons t' (mtype_ind' t') (go2 m')
                                       end) a) (go l')
                 end) args)
             (mtype_ind' ret)
    end.
End mtype_ind'.

(* ------------------------------------------------------------------ unfolding lemmas for the nested fixpoints *)
Definition Conforms_fields (ftys : list (string * mtype)) (l : list (string * mvalue)) : Prop :=
  (fix go (l : list (string * mvalue)) : Prop :=
     match l with
     | [] => True
     | (k, v') :: l' =>
         match assoc k ftys with
         | Some t => Conforms t v' /\ go l'
         | None => v' = VUndefined /\ go l'
         end
     end) l.

Definition Conforms_elems (elem : mtype) (l : list mvalue) : Prop :=
  (fix go (l : list mvalue) : Prop :=
     match l with [] => True | v' :: l' => Conforms elem v' /\ go l' end) l.

Definition Conforms_entries (elem : mtype) (l : list (list N * mvalue)) : Prop :=
  (fix go (l : list (list N * mvalue)) : Prop :=
     match l with [] => True | (_, v') :: l' => Conforms elem v' /\ go l' end) l.

Lemma Conforms_obj ftys fields : Conforms (TObject ftys) (VObject fields) = Conforms_fields ftys fields.
Proof. reflexivity. Qed.
Lemma Conforms_arr e elems : Conforms (TArray e) (VArray elems) = Conforms_elems e elems.
Proof. reflexivity. Qed.
Lemma Conforms_dict e entries : Conforms (TDict e) (VDict entries) = Conforms_entries e entries.
Proof. reflexivity. Qed.

Lemma Conforms_fields_get ftys fields name t v' :
  Conforms_fields ftys fields -> assoc name ftys = Some t -> assoc name fields = Some v' -> Conforms t v'.
Proof.
  induction fields as [|[k v0] l IH]; cbn [assoc Conforms_fields]; intros H Ht Hv; [discriminate|].
  destruct (String.eqb name k) eqn:En.
  - apply String.eqb_eq in En; subst k. inversion Hv; subst v0. rewrite Ht in H. exact (proj1 H).
  - apply IH; try assumption. destruct (assoc k ftys); exact (proj2 H).
Qed.

Lemma Conforms_elems_nth e elems i v' :
  Conforms_elems e elems -> vec_get elems i = Some v' -> Conforms e v'.
Proof.
  revert i; induction elems as [|v0 l IH]; intros i H Hn; cbn [vec_get] in Hn; [discriminate|].
  destruct (i =? 0).
  - inversion Hn; subst v0. exact (proj1 H).
  - exact (IH _ (proj2 H) Hn).
Qed.

Lemma Conforms_entries_get e entries key v' :
  Conforms_entries e entries -> dict_get key entries = Some v' -> Conforms e v'.
Proof.
  induction entries as [|[k v0] l IH]; cbn [dict_get Conforms_entries]; intros H Hg; [discriminate|].
  destruct (bytes_eqb key k).
  - inversion Hg; subst v0. exact (proj1 H).
  - exact (IH (proj2 H) Hg).
Qed.

Lemma Conforms_undefined ty : Conforms ty VUndefined.
Proof. destruct ty; exact I. Qed.

(* ------------------------------------------------------------------ C17: access soundness *)
Lemma access_sound :
  forall path ty v exprs ty' r,
    Conforms ty v ->
    typechecks ty path = Some ty' ->
    model_evaluate_ops v (ops_of path) exprs = Ok r ->
    Conforms ty' r.
Proof.
  induction path as [|op path IH]; intros ty v exprs ty' r HC HT HE.
  - cbn in HT, HE. inversion HT; inversion HE; subst. exact HC.
  - cbn [typechecks] in HT. destruct (type_step ty op) as [ty1|] eqn:Es; [|discriminate].
    destruct op as [name|sty|args]; cbn [ops_of map op_of model_evaluate_ops] in HE; cbn [type_step] in Es.
    + (* subfield *)
      destruct ty as [| | | | |ftys| | |]; try discriminate.
      destruct v as [| | | | |fields| | | |]; try discriminate; try (exact (False_ind _ HC)).
      destruct (assoc name fields) as [v1|] eqn:Ev; [|discriminate].
      rewrite Conforms_obj in HC.
      exact (IH _ _ _ _ _ (Conforms_fields_get _ _ _ _ _ HC Es Ev) HT HE).
    + (* subscript *)
      destruct exprs as [|sub exprs']; [discriminate|].
      destruct ty as [| | | | | |e|e|]; try discriminate.
      * destruct (ety_eqb sty EInteger); [|discriminate]. inversion Es; subst ty1.
        destruct v as [| | | | | |elems| | |]; try discriminate; try (exact (False_ind _ HC)).
        destruct sub as [index| | | |]; try discriminate.
        destruct (usize_try_from index) as [i|]; [|discriminate].
        destruct (vec_get elems i) as [v1|] eqn:En; [|discriminate].
        rewrite Conforms_arr in HC.
        exact (IH _ _ _ _ _ (Conforms_elems_nth _ _ _ _ HC En) HT HE).
      * destruct (ety_eqb sty EBytes); [|discriminate]. inversion Es; subst ty1.
        destruct v as [| | | | | | |entries| |]; try discriminate; try (exact (False_ind _ HC)).
        destruct sub as [|?|key| |]; try discriminate.
        destruct (dict_get key entries) as [v1|] eqn:Eg; [|discriminate].
        rewrite Conforms_dict in HC.
        exact (IH _ _ _ _ _ (Conforms_entries_get _ _ _ _ HC Eg) HT HE).
    + (* call *)
      destruct ty as [| | | | | | | |valid ret]; try discriminate.
      destruct (check_all_arguments_types valid args); [|discriminate]. inversion Es; subst ty1.
      destruct v as [| | | | | | | |f|]; try discriminate; try (exact (False_ind _ HC)).
      destruct (f (firstn (length args) exprs)) as [v1|] eqn:Ef; [|discriminate].
      cbn [Conforms] in HC. specialize (HC (firstn (length args) exprs)). rewrite Ef in HC.
      exact (IH _ _ _ _ _ HC HT HE).
Qed.

(* what the evaluator finally hands to the condition: a primitive of the expression type the compiler assigned *)
Definition prim_has_type (p : prim) (e : ety) : Prop :=
  match p, e with
  | PInteger _, EInteger | PFloat _, EFloat | PBytes _, EBytes | PRegex _, ERegex | PBoolean _, EBoolean => True
  | _, _ => False
  end.

Lemma expr_value_typed :
  forall path ty v exprs ty' e p,
    Conforms ty v ->
    typechecks ty path = Some ty' ->
    expression_type ty' = Some e ->
    model_module_expr v (ops_of path) exprs = Ok p ->
    prim_has_type p e.
Proof.
  intros path ty v exprs ty' e p HC HT He HM. unfold model_module_expr in HM.
  destruct (model_evaluate_ops v (ops_of path) exprs) as [r| | |] eqn:HE; cbn [bind] in HM; try discriminate.
  pose proof (access_sound _ _ _ _ _ _ HC HT HE) as HR.
  destruct r; cbn [value_to_prim] in HM; try discriminate; cbn [Conforms] in HR; subst ty'.
  - inversion HM; subst. inversion He; subst. exact I.
  - destruct (f64_is_nan bits); [discriminate|]. inversion HM; subst. inversion He; subst. exact I.
  - inversion HM; subst. inversion He; subst. exact I.
  - discriminate He.
  - inversion HM; subst. inversion He; subst. exact I.
Qed.

(* `for x in <use>`: every element bound to x conforms to the type the body is compiled against *)
Lemma iterator_elems_sound :
  forall path ty v exprs ty' elem r,
    Conforms ty v ->
    typechecks ty path = Some ty' ->
    iterator_elem_type ty' = Some elem ->
    model_evaluate_ops v (ops_of path) exprs = Ok r ->
    match r with
    | VArray elems => Forall (Conforms elem) elems
    | VDict entries => Forall (fun kv => Conforms elem (snd kv)) entries
    | VUndefined => True
    | _ => False
    end.
Proof.
  intros path ty v exprs ty' elem r HC HT HI HE.
  pose proof (access_sound _ _ _ _ _ _ HC HT HE) as HR.
  destruct ty'; try discriminate; inversion HI; subst elem; destruct r; cbn [Conforms] in HR;
    try discriminate; try contradiction; try exact I.
  - fold (Conforms_elems ty' elems) in HR. clear HE. induction elems as [|x l IHl]; constructor.
    + exact (proj1 HR).
    + exact (IHl (proj2 HR)).
  - fold (Conforms_entries ty' entries) in HR. clear HE. induction entries as [|[k x] l IHl]; constructor.
    + exact (proj1 HR).
    + exact (IHl (proj2 HR)).
Qed.

(* ------------------------------------------------------------------ boolean check vs predicate *)
Lemma conforms_of_Conforms : forall v ty, Conforms ty v -> conforms ty v = true.
Proof.
  induction v using mvalue_ind'; intros ty HC; cbn [Conforms conforms] in *; try (subst ty; reflexivity).
  - destruct ty as [| | | | |ftys| | |]; try contradiction.
    induction fields as [|[k v0] l IHl]; [reflexivity|].
    inversion H as [|? ? H0 Hl]; subst. destruct (assoc k ftys) as [t|].
    + destruct HC as [HC0 HCl]. cbn [snd] in H0. rewrite (H0 _ HC0). cbn [andb]. exact (IHl Hl HCl).
    + destruct HC as [HC0 HCl]. subst v0. cbn [is_undefined andb]. exact (IHl Hl HCl).
  - destruct ty as [| | | | | |e| |]; try contradiction.
    induction elems as [|v0 l IHl]; [reflexivity|].
    inversion H as [|? ? H0 Hl]; subst. destruct HC as [HC0 HCl]. rewrite (H0 _ HC0). cbn [andb]. exact (IHl Hl HCl).
  - destruct ty as [| | | | | | |e|]; try contradiction.
    induction entries as [|[k v0] l IHl]; [reflexivity|].
    inversion H as [|? ? H0 Hl]; subst. destruct HC as [HC0 HCl]. cbn [snd] in H0. rewrite (H0 _ HC0). cbn [andb].
    exact (IHl Hl HCl).
  - destruct ty; try contradiction; reflexivity.
  - reflexivity.
Qed.

Lemma Conforms_of_conforms : forall v ty, fn_free v = true -> conforms ty v = true -> Conforms ty v.
Proof.
  induction v using mvalue_ind'; intros ty HF HC; cbn [Conforms conforms fn_free] in *;
    try (destruct ty; try discriminate; reflexivity).
  - destruct ty as [| | | | |ftys| | |]; try discriminate.
    induction fields as [|[k v0] l IHl]; [exact I|].
    inversion H as [|? ? H0 Hl]; subst.
    apply andb_true_iff in HF as [HF0 HFl]. cbn [snd] in H0.
    destruct (assoc k ftys) as [t|]; apply andb_true_iff in HC as [HC0 HCl].
    + split; [exact (H0 _ HF0 HC0)|exact (IHl Hl HFl HCl)].
    + split; [destruct v0; try discriminate; reflexivity|exact (IHl Hl HFl HCl)].
  - destruct ty as [| | | | | |e| |]; try discriminate.
    induction elems as [|v0 l IHl]; [exact I|].
    inversion H as [|? ? H0 Hl]; subst.
    apply andb_true_iff in HF as [HF0 HFl]. apply andb_true_iff in HC as [HC0 HCl].
    split; [exact (H0 _ HF0 HC0)|exact (IHl Hl HFl HCl)].
  - destruct ty as [| | | | | | |e|]; try discriminate.
    induction entries as [|[k v0] l IHl]; [exact I|].
    inversion H as [|? ? H0 Hl]; subst. cbn [snd] in H0.
    apply andb_true_iff in HF as [HF0 HFl]. apply andb_true_iff in HC as [HC0 HCl].
    split; [exact (H0 _ HF0 HC0)|exact (IHl Hl HFl HCl)].
Qed.

Lemma conforms_reflects : forall v ty, fn_free v = true -> (conforms ty v = true <-> Conforms ty v).
Proof. intros v ty HF; split; [exact (Conforms_of_conforms v ty HF)|exact (conforms_of_Conforms v ty)]. Qed.

(* the statement in the boolean form evaluated by the check, for function-free values (a dump) *)
Lemma access_sound_bool :
  forall path ty v exprs ty' r,
    fn_free v = true ->
    conforms ty v = true ->
    typechecks ty path = Some ty' ->
    model_evaluate_ops v (ops_of path) exprs = Ok r ->
    conforms ty' r = true.
Proof.
  intros path ty v exprs ty' r HF HC HT HE.
  apply conforms_of_Conforms. eapply access_sound; eauto. apply Conforms_of_conforms; assumption.
Qed.

(* ------------------------------------------------------------------ C09: evaluate_ops never panics *)
Lemma evaluate_ops_no_panic : forall ops v exprs, model_evaluate_ops v ops exprs <> Panic.
Proof.
  induction ops as [|op ops IH]; intros v exprs; cbn [model_evaluate_ops]; [discriminate|].
  destruct op as [name| |n].
  - destruct v; try discriminate. destruct (assoc name fields); [apply IH|discriminate].
  - destruct exprs as [|sub exprs']; [discriminate|].
    destruct v; try discriminate.
    + destruct sub; try discriminate. destruct (usize_try_from z); [|discriminate].
      destruct (vec_get elems n); [apply IH|discriminate].
    + destruct sub; try discriminate. destruct (dict_get b entries); [apply IH|discriminate].
  - destruct v; try discriminate. destruct (f (firstn n exprs)); [apply IH|discriminate].
Qed.

Lemma module_expr_no_panic : forall ops v exprs, model_module_expr v ops exprs <> Panic.
Proof.
  intros ops v exprs. unfold model_module_expr.
  pose proof (evaluate_ops_no_panic ops v exprs) as H.
  destruct (model_evaluate_ops v ops exprs) as [r| | |]; cbn [bind]; try discriminate; [|contradiction].
  destruct r; cbn [value_to_prim]; try discriminate. destruct (f64_is_nan bits); discriminate.
Qed.

(* evaluate_ops never asks for string matches either *)
Lemma evaluate_ops_no_needed : forall ops v exprs, model_evaluate_ops v ops exprs <> Needed.
Proof.
  induction ops as [|op ops IH]; intros v exprs; cbn [model_evaluate_ops]; [discriminate|].
  destruct op as [name| |n].
  - destruct v; try discriminate. destruct (assoc name fields); [apply IH|discriminate].
  - destruct exprs as [|sub exprs']; [discriminate|].
    destruct v; try discriminate.
    + destruct sub; try discriminate. destruct (usize_try_from z); [|discriminate].
      destruct (vec_get elems n); [apply IH|discriminate].
    + destruct sub; try discriminate. destruct (dict_get b entries); [apply IH|discriminate].
  - destruct v; try discriminate. destruct (f (firstn n exprs)); [apply IH|discriminate].
Qed.

(* ------------------------------------------------------------------ finding C17-valid-on-boolean (fixed in /repo)
   On the pinned tree pe.signatures[i].valid_on was declared `function(integer) -> integer` and its closure returned
   Value::Boolean: the premise of access_sound fails for such a value and the conclusion fails with it — the
   compiler types `valid_on(t) == 1` as an integer comparison and the evaluator gets a boolean. *)
Local Open Scope string_scope.
Definition valid_on_type : mtype := TObject [("valid_on", TFunction [[TInteger]] TInteger)].
Definition valid_on_pinned : mvalue := VObject [("valid_on", VFunction (fun _ => Some (VBoolean true)))].
Definition valid_on_fixed : mvalue := VObject [("valid_on", VFunction (fun _ => Some (VInteger 1)))].
Definition valid_on_path : list top := [TopSubfield "valid_on"; TopCall [EInteger]].

Lemma valid_on_pinned_refuted :
  ~ Conforms valid_on_type valid_on_pinned
  /\ typechecks valid_on_type valid_on_path = Some TInteger
  /\ expression_type TInteger = Some EInteger
  /\ exists p, model_module_expr valid_on_pinned (ops_of valid_on_path) [PInteger 0] = Ok p
               /\ ~ prim_has_type p EInteger.
Proof.
  split; [|split; [reflexivity|split; [reflexivity|]]].
  - cbn. intros [H _]. specialize (H []). discriminate H.
  - exists (PBoolean true). split; [reflexivity|]. cbn. tauto.
Qed.

Lemma valid_on_fixed_conforms : Conforms valid_on_type valid_on_fixed.
Proof. cbn. split; [intros _; reflexivity|exact I]. Qed.

(* ------------------------------------------------------------------ no shape mismatch turns into undefined *)
Lemma explain_ops_agrees :
  forall ops v exprs,
    model_evaluate_ops v ops exprs
    = match explain_ops v ops exprs with XOk r => Ok r | XMissing => Undef | XMismatch => Undef end.
Proof.
  induction ops as [|op ops IH]; intros v exprs; cbn [model_evaluate_ops explain_ops]; [reflexivity|].
  destruct op as [name| |n].
  - destruct v; try reflexivity. destruct (assoc name fields); [apply IH|reflexivity].
  - destruct exprs as [|sub exprs']; [reflexivity|].
    destruct v; try reflexivity.
    + destruct sub; try reflexivity. destruct (usize_try_from z); [|reflexivity].
      destruct (vec_get elems n); [apply IH|reflexivity].
    + destruct sub; try reflexivity. destruct (dict_get b entries); [apply IH|reflexivity].
  - destruct v; try reflexivity. destruct (f (firstn n exprs)); [apply IH|reflexivity].
Qed.

Lemma no_shape_mismatch :
  forall path ty v exprs ty',
    Conforms ty v ->
    typechecks ty path = Some ty' ->
    exprs_match path exprs ->
    explain_ops v (ops_of path) exprs <> XMismatch.
Proof.
  induction path as [|op path IH]; intros ty v exprs ty' HC HT HM; [discriminate|].
  cbn [typechecks] in HT. destruct (type_step ty op) as [ty1|] eqn:Es; [|discriminate].
  destruct op as [name|sty|args]; cbn [ops_of map op_of explain_ops]; cbn [type_step] in Es; cbn [exprs_match] in HM.
  - destruct ty as [| | | | |ftys| | |]; try discriminate.
    destruct v as [| | | | |fields| | | |]; try (exact (False_ind _ HC)); try discriminate;
      try (cbn in HC; discriminate HC).
    destruct (assoc name fields) as [v1|] eqn:Ev; [|discriminate].
    rewrite Conforms_obj in HC.
    exact (IH _ _ _ _ (Conforms_fields_get _ _ _ _ _ HC Es Ev) HT HM).
  - destruct exprs as [|sub exprs']; [contradiction|]. destruct HM as [Hk HM].
    destruct ty as [| | | | | |e|e|]; try discriminate.
    + destruct (ety_eqb sty EInteger) eqn:Ee; [|discriminate]. inversion Es; subst ty1.
      destruct sty; try discriminate.
      destruct v as [| | | | | |elems| | |]; try (exact (False_ind _ HC)); try discriminate;
        try (cbn in HC; discriminate HC).
      destruct sub; try discriminate.
      destruct (usize_try_from z) as [i|]; [|discriminate].
      destruct (vec_get elems i) as [v1|] eqn:En; [|discriminate].
      rewrite Conforms_arr in HC.
      exact (IH _ _ _ _ (Conforms_elems_nth _ _ _ _ HC En) HT HM).
    + destruct (ety_eqb sty EBytes) eqn:Ee; [|discriminate]. inversion Es; subst ty1.
      destruct sty; try discriminate.
      destruct v as [| | | | | | |entries| |]; try (exact (False_ind _ HC)); try discriminate;
        try (cbn in HC; discriminate HC).
      destruct sub; try discriminate.
      destruct (dict_get b entries) as [v1|] eqn:Eg; [|discriminate].
      rewrite Conforms_dict in HC.
      exact (IH _ _ _ _ (Conforms_entries_get _ _ _ _ HC Eg) HT HM).
  - destruct ty as [| | | | | | | |valid ret]; try discriminate.
    destruct (check_all_arguments_types valid args); [|discriminate]. inversion Es; subst ty1.
    destruct v as [| | | | | | | |f|]; try (exact (False_ind _ HC)); try discriminate;
      try (cbn in HC; discriminate HC).
    destruct (f (firstn (length args) exprs)) as [v1|] eqn:Ef; [|discriminate].
    cbn [Conforms] in HC. specialize (HC (firstn (length args) exprs)). rewrite Ef in HC.
    exact (IH _ _ _ _ HC HT HM).
Qed.
