#!/bin/sh
# usage: cq.sh <file.v> <line>  — show the proof state after the first <line> lines
head -n "$2" "$1" > /tmp/cq_$$.v; echo "Show." >> /tmp/cq_$$.v
coqtop -Q theories Boreal -w -notation-overridden < /tmp/cq_$$.v 2>&1 | tail -n "${3:-45}"
rm -f /tmp/cq_$$.v
