# vlib/core.py — orchestration shared by all property checks.
import fcntl, hashlib, json, os, re, subprocess, sys, time, glob, shutil
from concurrent.futures import ThreadPoolExecutor

VERIF = os.path.dirname(os.path.dirname(os.path.abspath(__file__)))
REPO = os.environ.get("VERIF_REPO", "/repo")
COQ = os.path.join(VERIF, "coq")
HARNESS = os.path.join(VERIF, "harness")
LOCKS = os.path.join(VERIF, ".locks")
REPLAYS = os.path.join(VERIF, "replays")
CASES_TMP = os.path.join(COQ, "cases_tmp")
NPROC = 16

FORBIDDEN = [r"\bAdmitted\b", r"\badmit\b", r"\bAxiom\b", r"\bAxioms\b", r"\bParameter\b", r"\bParameters\b",
             r"\bConjecture\b", r"\bAdmit Obligations\b", r"Unset Guard Checking", r"bypass_check",
             r"Unset Positivity Checking", r"Unset Universe Checking", r"type-in-type", r"impredicative-set",
             r"\bgive_up\b", r"\bAbort All\b"]
# Print Assumptions lines that are acceptable (kernel primitives / stdlib axioms named in DESIGN §3)
ASSUMPTION_ALLOW = [
    r"^Closed under the global context$",
]

# ------------------------------------------------------------------ PRNG
MASK = (1 << 64) - 1


class Rng:
    """splitmix64; every random choice of a run derives from one state."""

    def __init__(self, seed):
        self.s = seed & MASK

    def next(self):
        self.s = (self.s + 0x9E3779B97F4A7C15) & MASK
        z = self.s
        z = ((z ^ (z >> 30)) * 0xBF58476D1CE4E5B9) & MASK
        z = ((z ^ (z >> 27)) * 0x94D049BB133111EB) & MASK
        return z ^ (z >> 31)

    def below(self, n):
        return self.next() % n if n > 0 else 0

    def range(self, lo, hi):  # inclusive
        return lo + self.below(hi - lo + 1)

    def choice(self, l):
        return l[self.below(len(l))]

    def chance(self, num, den):
        return self.below(den) < num

    def bytes(self, n, alphabet=None):
        if alphabet:
            return bytes(self.choice(alphabet) for _ in range(n))
        return bytes(self.below(256) for _ in range(n))

    def shuffle(self, l):
        l = list(l)
        for i in range(len(l) - 1, 0, -1):
            j = self.below(i + 1)
            l[i], l[j] = l[j], l[i]
        return l

    def fork(self, tag):
        h = hashlib.sha256(("%d/%s" % (self.s, tag)).encode()).digest()
        return Rng(int.from_bytes(h[:8], "little"))


# ------------------------------------------------------------------ Gallina printing
def gN(n):
    assert n >= 0, n
    return "%d" % n


def gZ(n):
    return "(%d)%%Z" % n


def gbool(b):
    return "true" if b else "false"


def glist(items):
    return "[" + "; ".join(items) + "]"


def gbytes(b):
    return "[" + ";".join("%d" % x for x in b) + "]"


def gopt(x, f=lambda v: v):
    return "None" if x is None else "(Some %s)" % f(x)


def gpair(*xs):
    return "(" + ", ".join(xs) + ")"


def gstr(s):
    """Coq string literal (for identifiers / names; ascii only)."""
    return '"' + s.replace('"', '""') + '"'


# ------------------------------------------------------------------ locks / shell
class Lock:
    def __init__(self, name):
        os.makedirs(LOCKS, exist_ok=True)
        self.path = os.path.join(LOCKS, name + ".lock")

    def __enter__(self):
        self.f = open(self.path, "w")
        fcntl.flock(self.f, fcntl.LOCK_EX)
        return self

    def __exit__(self, *a):
        fcntl.flock(self.f, fcntl.LOCK_UN)
        self.f.close()


def sh(cmd, cwd=None, timeout=1800, env=None, input=None):
    e = dict(os.environ)
    if env:
        e.update(env)
    # own process group: on a timeout the whole tree goes (make's coqc / cargo's rustc children would otherwise
    # live on as orphans and keep cores busy for hours)
    p = subprocess.Popen(cmd, cwd=cwd, env=e, stdin=subprocess.PIPE if input is not None else None,
                         stdout=subprocess.PIPE, stderr=subprocess.STDOUT, shell=isinstance(cmd, str),
                         start_new_session=True)
    try:
        out, _ = p.communicate(input=input, timeout=timeout)
        return p.returncode, out.decode("utf-8", "replace")
    except subprocess.TimeoutExpired:
        import signal
        try:
            os.killpg(p.pid, signal.SIGKILL)
        except ProcessLookupError:
            pass
        out, _ = p.communicate()
        return 124, (out.decode("utf-8", "replace") if out else "") + "\n[timeout after %ss]" % timeout


def write_if_changed(path, content):
    try:
        if open(path).read() == content:
            return False
    except FileNotFoundError:
        pass
    os.makedirs(os.path.dirname(path), exist_ok=True)
    tmp = path + ".tmp%d" % os.getpid()
    open(tmp, "w").write(content)
    os.replace(tmp, path)
    return True


# ------------------------------------------------------------------ Coq build
def coq_sources():
    out = []
    for root, _, files in os.walk(os.path.join(COQ, "theories")):
        if "/Cases" in root:
            continue
        for f in files:
            if f.endswith(".v"):
                out.append(os.path.relpath(os.path.join(root, f), COQ))
    return sorted(out)


COQPROJECT_HEAD = ("-Q theories Boreal\n"
                   "-arg -w -arg -notation-overridden,-deprecated-hint-without-locality,"
                   "-deprecated-instance-without-locality\n")


def coq_prepare():
    """(re)generate _CoqProject and Makefile when the file set changed."""
    content = COQPROJECT_HEAD + "\n".join(coq_sources()) + "\n"
    changed = write_if_changed(os.path.join(COQ, "_CoqProject"), content)
    if changed or not os.path.exists(os.path.join(COQ, "Makefile")):
        rc, out = sh(["coq_makefile", "-f", "_CoqProject", "-o", "Makefile"], cwd=COQ)
        if rc != 0:
            raise RuntimeError("coq_makefile failed: " + out)


def coq_make(targets, timeout=1500):
    """Build .vo targets (full .vo builds). Returns (ok, log)."""
    with Lock("coq"):
        coq_prepare()
        rc, out = sh(["make", "-j%d" % NPROC] + targets, cwd=COQ, timeout=timeout)
        return rc == 0, out


def coq_assumptions(prop_file):
    """Recompile a Properties file to a scratch output and return its stdout (Print Assumptions)."""
    d = os.path.join(CASES_TMP, "pa_%d" % os.getpid())
    os.makedirs(d, exist_ok=True)
    out_vo = os.path.join(d, os.path.basename(prop_file)[:-2] + ".vo")
    rc, out = sh(["coqc", "-noglob", "-Q", "theories", "Boreal", "-w", "-notation-overridden", "-o", out_vo, prop_file],
                 cwd=COQ, timeout=900)
    shutil.rmtree(d, ignore_errors=True)
    return rc == 0, out


def audit_sources():
    """Forbidden-token grep over the whole development. Returns list of hits."""
    hits = []
    for rel in coq_sources():
        txt = open(os.path.join(COQ, rel)).read()
        # strip comments (non-nested good enough; nested handled by loop)
        prev = None
        while prev != txt:
            prev = txt
            txt = re.sub(r"\(\*[^()]*?\*\)", " ", txt, flags=re.S)
        txt = re.sub(r"\(\*.*?\*\)", " ", txt, flags=re.S)
        for pat in FORBIDDEN:
            for m in re.finditer(pat, txt):
                hits.append("%s: %s" % (rel, m.group(0)))
        if rel.startswith("theories/") and re.search(r"^\s*(Variable|Hypothesis|Variables|Hypotheses|Context)\b", txt, flags=re.M):
            # only allowed inside a Section
            depth = 0
            for line in txt.splitlines():
                if re.match(r"\s*Section\b", line):
                    depth += 1
                elif re.match(r"\s*End\b", line) and depth > 0:
                    depth -= 1
                elif re.match(r"\s*(Variable|Hypothesis|Variables|Hypotheses)\b", line) and depth == 0:
                    hits.append("%s: %s outside a Section" % (rel, line.strip()))
    return hits


def audit_property_file(prop_id, allow_extra=()):
    """Properties/<id>.v contains only pinned statements closed by `exact`; returns (theorems, problems)."""
    path = os.path.join(COQ, "theories", "Properties", prop_id + ".v")
    txt = open(path).read()
    txt_nc = re.sub(r"\(\*.*?\*\)", " ", txt, flags=re.S)
    problems = []
    theorems = re.findall(r"^\s*Theorem\s+(\w+)", txt_nc, flags=re.M)
    proofs = re.findall(r"Proof\.(.*?)Qed\.", txt_nc, flags=re.S)
    for p in proofs:
        body = p.strip()
        if not (re.fullmatch(r"exact\s+[^.]*\.", body, flags=re.S) or re.fullmatch(r"(vm_compute|unfold \w+(, \w+)*; (simpl|cbn); lia|reflexivity|vm_compute\. reflexivity|vm_compute; reflexivity)\.?( reflexivity\.)?", body)
                or re.fullmatch(r"vm_compute\.\s*(reflexivity|discriminate|split; reflexivity|repeat split)\.", body)):
            problems.append("proof in Properties/%s.v is not `exact <lemma>`: %s" % (prop_id, body[:80]))
    for t in theorems:
        if not re.search(r"Print Assumptions\s+%s\s*\." % re.escape(t), txt_nc):
            problems.append("no `Print Assumptions %s.`" % t)
    return theorems, problems


def check_assumptions_output(out, n_expected, allow_extra=()):
    """Every Print Assumptions block must be on the allow list."""
    problems = []
    lines = [l.rstrip() for l in out.splitlines() if l.strip()]
    closed = sum(1 for l in lines if l.strip() == "Closed under the global context")
    axioms = []
    in_ax = False
    for l in lines:
        if l.startswith("Axioms:"):
            in_ax = True
            continue
        if in_ax:
            if re.match(r"^\S", l) and ":" in l:
                name = l.split(":")[0].strip()
                axioms.append(name)
            elif l.strip() == "Closed under the global context":
                in_ax = False
    bad = [a for a in axioms if not any(re.fullmatch(p, a) for p in allow_extra)]
    if bad:
        problems.append("unexpected axioms: " + ", ".join(sorted(set(bad))))
    if closed + (1 if axioms else 0) < 1 and n_expected:
        problems.append("no Print Assumptions output")
    return {"closed": closed, "axioms": sorted(set(axioms))}, problems


# ------------------------------------------------------------------ harness
# Cargo decides whether a path dependency must be rebuilt from modification times.  A working tree whose files change
# content while their times go backwards (a change to /repo undone by restoring the saved files, a checkout restored
# from a snapshot) would leave the previous build in place: the harness would run code that is no longer in /repo.
# Every build of code from /repo therefore goes through cargo_build: a digest of the *content* of the local sources
# is kept beside the build output, and when it differs from the digest of the last successful build the cargo
# fingerprints of the local packages are removed, which makes cargo compile them again (rustc's incremental cache is
# content-addressed, so what did not change is reused).
_SRC_DIRS = ("boreal", "boreal-parser", "boreal-cli", "boreal-test-helpers")
_SRC_SKIP = {"target", ".git", "assets", "__pycache__"}


def _digest_tree(h, root):
    if os.path.isfile(root):
        h.update(root.encode() + b"\0")
        h.update(hashlib.sha256(open(root, "rb").read()).digest())
        return
    for dp, dns, fns in os.walk(root):
        dns[:] = sorted(d for d in dns if d not in _SRC_SKIP)
        for fn in sorted(fns):
            p = os.path.join(dp, fn)
            try:
                data = open(p, "rb").read()
            except OSError:
                continue
            h.update(p.encode() + b"\0")
            h.update(hashlib.sha256(data).digest())


def source_digest(crate_dir=None):
    """sha256 over the content of everything cargo compiles from local paths: /repo's packages and manifests and,
    when given, the harness crate itself (test assets and build output excluded)."""
    h = hashlib.sha256()
    for d in _SRC_DIRS:
        _digest_tree(h, os.path.join(REPO, d))
    for f in ("Cargo.toml", "Cargo.lock"):
        if os.path.exists(os.path.join(REPO, f)):
            _digest_tree(h, os.path.join(REPO, f))
    if crate_dir and os.path.abspath(crate_dir) != os.path.abspath(REPO):
        for f in ("src", "Cargo.toml", "Cargo.lock", "build.rs", os.path.join(".cargo", "config.toml")):
            if os.path.exists(os.path.join(crate_dir, f)):
                _digest_tree(h, os.path.join(crate_dir, f))
    return h.hexdigest()


def cargo_build(cmd, cwd, profile_dir, pkgs, timeout=1500, env=None, retry=None):
    """Run the cargo command `cmd` in `cwd` so that its output reflects the current content of the local sources
    (see above).  `profile_dir`: debug | release | checked; `pkgs`: names of the local packages.  Call with the
    cargo lock of that target directory held.  `retry`: called once after a failed build, before a second attempt."""
    tdir = os.path.join(cwd, "target", profile_dir)
    stamp = os.path.join(tdir, ".verif_source_digest")
    digest = source_digest(cwd)
    try:
        last = open(stamp).read().strip()
    except OSError:
        last = None
    if last != digest:
        try:
            os.remove(stamp)
        except OSError:
            pass
        fpd = os.path.join(tdir, ".fingerprint")
        rx = re.compile(r"^(%s)-[0-9a-f]{16}$" % "|".join(re.escape(p.replace("-", "_")) + "|" + re.escape(p) for p in pkgs))
        if os.path.isdir(fpd):
            for e in os.listdir(fpd):
                if rx.match(e):
                    shutil.rmtree(os.path.join(fpd, e), ignore_errors=True)
    rc, out = sh(cmd, cwd=cwd, timeout=timeout, env=env)
    if rc != 0 and retry is not None:
        retry()
        rc, out = sh(cmd, cwd=cwd, timeout=timeout, env=env)
    if rc == 0 and source_digest(cwd) == digest:
        os.makedirs(tdir, exist_ok=True)
        with open(stamp, "w") as f:
            f.write(digest + "\n")
    return rc, out


HARNESS_PKGS = ("boreal", "boreal-parser", "bvh")


def harness_build(bins=("scan",), release=False, timeout=1500, profile=None):
    """profile: None (dev, or release when `release`) or the name of a custom profile of harness/Cargo.toml"""
    with Lock("cargo"):
        lock_src = os.path.join(REPO, "Cargo.lock")
        lock_dst = os.path.join(HARNESS, "Cargo.lock")
        if not os.path.exists(lock_dst):
            shutil.copy(lock_src, lock_dst)
        pdir = profile or ("release" if release else "debug")
        cmd = ["cargo", "build", "--offline", "--quiet"] + (["--profile", profile] if profile else
                                                              (["--release"] if release else []))
        for b in bins:
            cmd += ["--bin", b]
        env = {"CARGO_NET_OFFLINE": "true", "RUSTFLAGS": "--cfg boreal_verif"}
        # a stale lock file can be the cause of a failure: retry once from the repo's lock
        rc, out = cargo_build(cmd, HARNESS, pdir, HARNESS_PKGS, timeout=timeout, env=env,
                              retry=lambda: shutil.copy(lock_src, lock_dst))
        bind = os.path.join(HARNESS, "target", pdir)
        return rc == 0, out, bind


def harness_run(bind, sub, cases, timeout=900, shards=NPROC, extra_args=()):
    """Send cases (JSON objects) to the harness binary `sub`, one per line; returns list of outputs (parsed
    JSON or {"crash": ...} when the harness process died on that case)."""
    binp = os.path.join(bind, sub)
    if not cases:
        return []
    shards = max(1, min(shards, len(cases)))
    chunks = [cases[i::shards] for i in range(shards)]

    def run(chunk):
        inp = "\n".join(json.dumps(c) for c in chunk) + "\n"
        rc, out = sh([binp] + list(extra_args), input=inp.encode(), timeout=timeout)
        res = []
        for line in out.splitlines():
            if line.startswith("{"):
                try:
                    res.append(json.loads(line))
                except ValueError:
                    pass
        if len(res) != len(chunk):
            # process died: rerun one by one to attribute
            res = []
            for c in chunk:
                rc1, out1 = sh([binp] + list(extra_args), input=(json.dumps(c) + "\n").encode(), timeout=120)
                got = None
                for line in out1.splitlines():
                    if line.startswith("{"):
                        try:
                            got = json.loads(line)
                        except ValueError:
                            pass
                res.append(got if got is not None else {"crash": rc1, "output": out1[-2000:]})
        return res

    with ThreadPoolExecutor(max_workers=shards) as ex:
        results = list(ex.map(run, chunks))
    out = [None] * len(cases)
    for s, r in enumerate(results):
        for k, v in enumerate(r):
            out[s + k * shards] = v
    return out


# ------------------------------------------------------------------ Coq evaluation of cases
TRIPLE_RE = re.compile(r"\((true|false),(true|false),(\d+)\)")


REEVAL_BUDGET = 60
REEVAL_LEFT = REEVAL_BUDGET


def coq_eval(tag, header, terms, per_shard=None, timeout=900):
    """Evaluate Gallina terms of type bool*bool*N with vm_compute.
    Returns (list of (corr_ok, spec_ok, kf) or None, logs)."""
    if not terms:
        return [], ""
    os.makedirs(CASES_TMP, exist_ok=True)
    n = len(terms)
    if per_shard is None:
        per_shard = max(1, (n + NPROC - 1) // NPROC)
    shards = [terms[i:i + per_shard] for i in range(0, n, per_shard)]
    pid = os.getpid()

    def run(ix):
        name = "%s_%d_%d" % (tag, pid, ix)
        path = os.path.join(CASES_TMP, name + ".v")
        body = [header, ""]
        for t in shards[ix]:
            body.append("Eval vm_compute in (%s)." % t)
        open(path, "w").write("\n".join(body) + "\n")
        rc, out = sh(["coqc", "-noglob", "-Q", "theories", "Boreal", "-w", "-notation-overridden", path], cwd=COQ,
                     timeout=timeout)
        flat = re.sub(r"\s+", "", out.replace("%N", ""))
        res = [(a == "true", b == "true", int(c)) for a, b, c in TRIPLE_RE.findall(flat)]
        for f in glob.glob(os.path.join(CASES_TMP, name + ".*")) + glob.glob(os.path.join(CASES_TMP, "." + name + ".*")):
            if rc == 0 or not f.endswith(".v"):
                try:
                    os.remove(f)
                except OSError:
                    pass
        if rc != 0 or len(res) != len(shards[ix]):
            return [None] * len(shards[ix]), "shard %d rc=%d\n%s" % (ix, rc, out[-3000:])
        return res, ""

    with ThreadPoolExecutor(max_workers=NPROC) as ex:
        rs = list(ex.map(run, range(len(shards))))
    out, logs = [], ""
    failed = []
    for ix, (r, l) in enumerate(rs):
        if l and len(shards[ix]) > 1:
            failed.append((len(out), shards[ix]))
        out.extend(r)
        logs += l[-600:]
    # a failing shard is re-evaluated case by case, so that one bad case does not hide the others; the number of
    # such re-evaluations is capped per check run (REEVAL_BUDGET): past it the cases stay "could not be evaluated"
    if failed and per_shard != 1:
        global REEVAL_LEFT
        for pos, terms_ in failed:
            take = terms_[:max(0, REEVAL_LEFT)]
            if not take:
                logs += "re-evaluation budget used up; %d cases left unevaluated\n" % len(terms_)
                continue
            REEVAL_LEFT -= len(take)
            sub, sublogs = coq_eval(tag + "r", header, take, per_shard=1, timeout=min(timeout, 60))
            out[pos:pos + len(take)] = sub
            logs += sublogs[-600:]
    return out, logs


# ------------------------------------------------------------------ known findings / evidence / replay
def load_known_findings():
    p = os.path.join(VERIF, "known_findings.json")
    try:
        return json.load(open(p))
    except FileNotFoundError:
        return {"findings": []}


# Case files kept under corpus/ name files of this tree (assets of /repo, synthetic files of .work/) with the
# placeholders ${REPO} and ${VERIF}: a case recorded in one place (a scratch copy, another checkout) must replay in
# any other.  Absolute paths written by earlier versions of the tools (…/repo/…, …/verif/.work/…) are mapped too.
_LEGACY = [(re.compile(r"^/(?:[^/]+/)*?repo/(?=boreal[^/]*/)"), "${REPO}/"),
           (re.compile(r"^/(?:[^/]+/)*?verif/(?=\.work/|corpus/|harness/)"), "${VERIF}/")]


def _map_strings(o, f):
    if isinstance(o, str):
        return f(o)
    if isinstance(o, list):
        return [_map_strings(x, f) for x in o]
    if isinstance(o, dict):
        return {k: _map_strings(v, f) for k, v in o.items()}
    return o


def portable_paths(o):
    """absolute paths into this tree -> placeholders (for files committed under corpus/)"""
    def f(s):
        for pre, ph in ((REPO + "/", "${REPO}/"), (VERIF + "/", "${VERIF}/")):
            if s.startswith(pre):
                return ph + s[len(pre):]
        for rx, ph in _LEGACY:
            if rx.match(s):
                return rx.sub(ph, s, 1)
        return s
    return _map_strings(o, f)


def local_paths(o):
    """placeholders (and legacy absolute paths) -> paths of this tree"""
    def f(s):
        for rx, ph in _LEGACY:
            if rx.match(s):
                s = rx.sub(ph, s, 1)
                break
        if s.startswith("${REPO}/"):
            return REPO + s[len("${REPO}"):]
        if s.startswith("${VERIF}/"):
            return VERIF + s[len("${VERIF}"):]
        return s
    return _map_strings(o, f)


def load_case_file(path):
    return local_paths(json.load(open(path)))


def write_replay(prop, seed, name, obj):
    os.makedirs(REPLAYS, exist_ok=True)
    path = os.path.join(REPLAYS, "%s_%s_%s.json" % (prop, seed, name))
    json.dump(obj, open(path, "w"), indent=1, sort_keys=True, default=str)
    return path


def write_evidence(prop, ev):
    os.makedirs(os.path.join(VERIF, "evidence"), exist_ok=True)
    path = os.path.join(VERIF, "evidence", prop + ".json")
    json.dump(ev, open(path, "w"), indent=1, sort_keys=True, default=str)
    return path


def repo_head():
    rc, out = sh(["git", "-C", REPO, "rev-parse", "HEAD"])
    rc2, out2 = sh(["git", "-C", REPO, "status", "--porcelain"])
    return out.strip(), bool(out2.strip())
