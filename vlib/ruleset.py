# vlib/ruleset.py — rule sets over namespaces (global / private / references / rule sets):
# generation, YARA text, Gallina `scanner` + `inputs` terms (Model/Scanner.v).
import json
from . import cond
from .core import gN, gZ, gbool, glist, gbytes, gopt

POOL = [("a", b"ab"), ("b", b"abc"), ("c", b"zz"), ("d", b"a"), ("e", b"\x00\x01"), ("f", b"xyz")]
MEMS = [b"abcabcab a\x00\x01xx", b"", b"a", b"ab", b"zzzab\x00\x01\x00\x01abc", b"xyz", b"aaaaaaaa",
        b"ab zz xyz", b"\xff\xfe\x00\x01abcab"]
# regex strings without any literal: boreal scans them on their own after the Aho-Corasick pass of a region
# (no timeout check, no match-limit event); names start with an upper-case letter
RAW_POOL = [("R", b"[a-z]+[0-9]+"), ("S", b"\\d+[a-z]?"), ("T", b"[0-9]+"), ("U", b"[^ ]+")]
RAW_MEMS = [b"ab1 c22 abc9 zz", b"a1b2c3 xyz 9", b"x1z xy 007 ab", b"abcabc123123 zz9z"]


# text strings with the `nocase` modifier (names start with N or M); inputs in another case than written
NOCASE_POOL = [("N", b"Ab"), ("M", b"xYz"), ("N", b"a")]
MIXED_MEMS = [b"ABcabCAB a", b"XYZ xyz xYz ab AB", b"aB", b"Zz AB xyZ A", b"abAB\x00\x01Ab"]


def is_raw(name):
    return name[1] in "RSTU"


def is_nocase(name):
    return name[1] in "NM"


def occurrences(name, p, mem):
    """Offsets at which the plain text string (name, p) occurs in mem."""
    p = bytes(p)
    if is_nocase(name):
        return cond.find_all(mem.lower(), p.lower())
    return cond.find_all(mem, p)


def add_compile_noise(rng, rs):
    """Things that must not change what the rule set means: (a) texts the compiler refuses — a second rule with
    the name of a rule already declared in that namespace (other flags, other condition) — after which the same
    compiler is used further; (b) external symbols carrying the name of a rule (a rule name takes precedence
    over a symbol of that name).  Recorded in rs["refused"] / rs["csymbols"]; the model does not see them."""
    refused, syms = [], []
    rules = rs["rules"]
    for i, r in enumerate(rules):
        if i + 1 < len(rules) and rng.chance(1, 3):
            v = rng.choice(rules[:i + 1])
            refused.append({"after": i, "ns": v["ns"], "name": v["name"], "global": rng.chance(1, 2),
                            "private": rng.chance(1, 3), "cond": rng.chance(1, 2)})
        if rng.chance(1, 4):
            syms.append({"name": r["name"], **rng.choice([{"bool": True}, {"bool": False}, {"int": 0}, {"int": 7}])})
    rs["refused"], rs["csymbols"] = refused, syms
    return rs


def gen_ruleset(rng, max_rules=6, max_ns=3, depth=2, allow_for=True, cond_kinds=None, global_refs_ordinary=False,
                poison=0, raw_regex=0, nocase=0):
    """Returns a JSON-serialisable rule set: {"rules": [...]} in declaration order."""
    nns = rng.range(1, max_ns)
    nrules = rng.range(1, max_rules)
    rules = []
    forbidden = {}   # ns -> set of prefixes used in wildcard sets
    per_ns_names = {}
    ordinary_count = 0
    for i in range(nrules):
        ns = rng.below(nns)
        kind = rng.below(10)
        is_global = kind < 3
        is_private = kind in (2, 3, 4)
        letter = rng.choice("rs")
        # name must not start with a forbidden prefix of this namespace
        name = None
        # rule names are unique inside a namespace only: number them per namespace, so that two namespaces
        # often declare rules of the same name
        idx = per_ns_names.setdefault(ns, [0])
        for attempt in range(20):
            cand = "%s%d" % (letter, idx[0])
            if not any(cand.startswith(p) for p in forbidden.get(ns, ())):
                name = cand
                break
            letter = rng.choice("tuvw")
        if name is None:
            continue
        idx[0] += 1
        nstr = rng.range(0, 3)
        strs = [rng.choice(RAW_POOL) if (raw_regex and rng.below(100) < raw_regex)
                else rng.choice(NOCASE_POOL) if (nocase and rng.below(100) < nocase) else rng.choice(POOL)
                for _ in range(nstr)]
        # unique names inside a rule
        strings = []
        for k, (n, p) in enumerate(strs):
            strings.append(["_%s%d" % (n, k), list(p)])
        earlier = [r for r in rules if r["ns"] == ns]
        earlier_ord = [r for r in earlier if not r["global"]]
        earlier_glob = [r for r in earlier if r["global"]]
        g = cond.Gen(rng, max(1, len(strings)), 10, (), max_depth=depth, allow_for=allow_for, of_at_in=True)

        def leaf():
            c = rng.below(12)
            if c < 2:
                return ("bool", rng.chance(1, 2))
            if c < 6 and strings:
                return ("var", rng.below(len(strings)))
            if c < 8 and earlier_ord and (not is_global or global_refs_ordinary):
                r = rng.choice(earlier_ord)
                return ("rule", r["ord_index"], r["name"])
            if c == 8 and earlier_glob:
                r = rng.choice(earlier_glob)
                return ("ruleg", r["name"])
            if c == 9 and (earlier_ord or earlier_glob) and (not is_global or global_refs_ordinary):
                # rule set by prefix
                pref = rng.choice(earlier)["name"][0]
                elems = [r["ord_index"] for r in earlier_ord if r["name"].startswith(pref)]
                already = len([r for r in earlier_glob if r["name"].startswith(pref)])
                if elems or already:
                    n = len(elems) + already
                    ksel = rng.choice(["any", "all", "none", "expr", "pct"])
                    se = None
                    if ksel == "expr":
                        se = ("int", rng.choice([0, 1, 2, n, n + 1]))
                    if ksel == "pct":
                        cands = [p for p in [1, 50, 100, 150] if cond.pct_exact(p, n)]
                        se = ("int", rng.choice(cands))
                    forbidden.setdefault(ns, set()).add(pref)
                    return ("forrules", ksel, se, already, sorted(elems), pref + "*")
            if strings and allow_for:
                return g.gbool(rng.range(0, depth))
            return ("bool", rng.chance(2, 3))

        shape = rng.below(6)
        if shape == 0:
            c = leaf()
        elif shape == 1:
            c = ("and", [leaf(), leaf()])
        elif shape == 2:
            c = ("or", [leaf(), leaf()])
        elif shape == 3:
            c = ("un", "not", leaf())
        elif shape == 4:
            c = ("and", [leaf(), ("or", [leaf(), leaf()])])
        else:
            c = leaf()
        if poison and strings and rng.below(100) < poison:
            c = poison_cond(rng, len(strings))
        if cond.has_big_range(c):
            c = ("bool", True)
        r = {"ns": ns, "name": name, "global": is_global, "private": is_private, "strings": strings, "cond": c,
             "id": len(rules)}
        if not is_global:
            r["ord_index"] = ordinary_count
            ordinary_count += 1
        rules.append(r)
    # namespaces exist only once a rule is added to them: number them by first use
    remap = {}
    for r in rules:
        if r["ns"] not in remap:
            remap[r["ns"]] = len(remap)
        r["ns"] = remap[r["ns"]]
    return json.loads(json.dumps({"rules": rules, "nns": len(remap)}, default=lambda b: list(b)))


def poison_cond(rng, nstr):
    """Conditions mixing operands decidable without strings (constants, undefined values, reads) with string
    queries, in the positions where the no-scan pass has to keep track of undecided operands."""
    r = rng
    UNDEF_I = [("readint", "uint8", ("int", 1000)), ("bin", "div", ("int", 1), ("int", 0)),
               ("bin", "shl", ("int", 1), ("un", "neg", ("int", 1)))]
    def v():
        return r.below(nstr)
    def sdep_bool(idn=None):
        c = r.below(6)
        if c == 0:
            return ("var", v())
        if c == 1 and idn is not None:
            return ("varat", v(), ("bound", idn))
        if c == 2 and idn is not None:
            return ("bin", "eq", ("count", v()), ("bound", idn))
        if c == 3:
            return ("bin", r.choice(["gt", "eq", "le"]), ("count", v()), ("int", r.choice([0, 1, 2, 3])))
        if c == 4:
            return ("varat", v(), ("int", r.choice([0, 1, 3])))
        return ("un", "not", ("var", v()))
    def const_bool():
        c = r.below(5)
        if c == 0:
            return ("bool", True)
        if c == 1:
            return ("bool", False)
        if c == 2:
            return ("bin", "eq", r.choice(UNDEF_I), ("int", 0))      # undefined
        if c == 3:
            return ("bin", "lt", ("filesize",), ("int", r.choice([0, 5, 100])))
        return ("defined", r.choice(UNDEF_I))
    def elem():
        c = r.below(4)
        if c == 0:
            return r.choice(UNDEF_I)
        if c == 1:
            return ("count", v())
        return ("int", r.choice([0, 1, 2, 3]))
    def sel(n):
        c = r.below(6)
        if c < 3:
            return r.choice(["any", "all", "none"]), None
        if c == 3:
            return "expr", ("count", v())
        if c == 4:
            return "expr", r.choice(UNDEF_I)
        return "expr", ("int", r.choice([0, 1, 2, n, n + 1]))
    t = r.below(10)
    if t >= 8:
        # sibling loops: the first one's body needs strings, the second one only reads its own identifier
        # (bound identifiers must not leak from one loop to the next in the pass done before the string scan)
        def loop(body, lo, hi):
            k, se = sel(3)
            if r.chance(1, 2):
                return ("forrange", k, se, ("int", lo), ("int", hi), body)
            return ("forlist", k, se, [("int", z) for z in range(lo, hi + 1)], body)
        a = r.choice([0, 1, 3])
        first = loop(sdep_bool(0), a, a + r.choice([0, 1, 2]))
        b = r.choice([0, 1, 2])
        probe = r.choice([("bin", "eq", ("bound", 0), ("int", r.choice([0, 1, 2, 3, 4, 5]))),
                          ("bin", "ge", ("bound", 0), ("int", r.choice([2, 3, 4]))),
                          ("bin", "eq", ("readint", "uint8", ("bound", 0)), ("int", r.choice([97, 98, 99, 0])))])
        second = loop(probe, b, b + r.choice([0, 1]))
        return (r.choice(["or", "and"]), [first, second] if r.chance(3, 4) else [second, first])
    if t == 0:
        k, se = sel(3)
        return ("forlist", k, se, [elem() for _ in range(r.range(1, 4))], r.choice([sdep_bool(0), const_bool()]))
    if t == 1:
        k, se = sel(3)
        return ("forrange", k, se, ("int", 0), r.choice([("int", 2), ("count", v())]), r.choice([sdep_bool(0), const_bool()]))
    if t == 2:
        ops = [r.choice([sdep_bool(), const_bool()]) for _ in range(r.range(2, 4))]
        return (r.choice(["and", "or"]), ops)
    if t == 3:
        vs = sorted(set(v() for _ in range(r.range(1, nstr + 1))))
        k, se = sel(len(vs))
        body = r.choice([("var", None), ("bin", "gt", ("count", None), r.choice(UNDEF_I + [("int", 0), ("int", 1)])),
                         const_bool(), ("varat", None, ("int", r.choice([0, 3])))])
        return ("for", k, se, vs, body)
    if t == 4:
        return ("un", "not", (r.choice(["and", "or"]), [sdep_bool(), const_bool(), sdep_bool()]))
    if t == 5:
        return ("defined", ("bin", "add", ("count", v()), r.choice(UNDEF_I + [("int", 1)])))
    if t == 6:
        inner = (r.choice(["and", "or"]), [sdep_bool(), const_bool()])
        return (r.choice(["and", "or"]), [const_bool(), inner, ("un", "not", inner)])
    k, se = sel(2)
    return ("forlist", k, se, [elem(), elem()],
            ("or", [sdep_bool(0), ("forlist", "any", None, [elem()], sdep_bool(1))]))


def rule_text(r, printer_cls=cond.Printer):
    from .props.c04 import tup
    names = [s[0] for s in r["strings"]]
    pr = printer_cls(names)
    mods = ("global " if r["global"] else "") + ("private " if r["private"] else "")
    txt = "%srule %s {\n" % (mods, r["name"])
    if r["strings"]:
        txt += "  strings:\n" + "".join("    $%s = %s\n" % (n, ("/%s/" % bytes(p).decode()) if is_raw(n)
                                                      else cond.ybytes(bytes(p)) + (" nocase" if is_nocase(n) else ""))
                                       for n, p in r["strings"])
    txt += "  condition:\n    %s\n}\n" % pr.y(tup(r["cond"]))
    return txt


def harness_rules(rs, imports=()):
    """One add_rules_str_in_namespace call per rule, in declaration order (imports go with the first rule, so
    that no extra namespace is created)."""
    out = []
    for i, r in enumerate(rs["rules"]):
        out.append({"ns": "ns%d" % r["ns"], "src": rule_text(r)})
        for x in rs.get("refused", ()):
            if x["after"] == i:
                mods = ("global " if x["global"] else "") + ("private " if x["private"] else "")
                out.append({"ns": "ns%d" % x["ns"], "expect_error": True,
                            "src": "%srule %s { condition: %s }\n" % (mods, x["name"], "true" if x["cond"] else "false")})
    if imports and out:
        out[0]["src"] = "".join('import "%s"\n' % m for m in imports) + out[0]["src"]
    return out


def g_rule(r):
    from .props.c04 import tup
    pr = cond.Printer([s[0] for s in r["strings"]])
    return ("{| r_ns := %d%%nat; r_id := %d; r_global := %s; r_private := %s; r_nvars := %d%%nat; r_cond := %s |}"
            % (r["ns"], r["id"], gbool(r["global"]), gbool(r["private"]), len(r["strings"]), pr.g(tup(r["cond"]))))


def g_scanner(rs):
    gl = [r for r in rs["rules"] if r["global"]]
    od = [r for r in rs["rules"] if not r["global"]]
    return "{| s_globals := %s; s_rules := %s; s_nns := %d%%nat |}" % (
        glist(g_rule(r) for r in gl), glist(g_rule(r) for r in od), rs["nns"])


MODULE_IDS = {"math": 1, "time": 2, "hash": 3, "string": 4}


def ordered_rules(rs):
    return [r for r in rs["rules"] if r["global"]] + [r for r in rs["rules"] if not r["global"]]


def simulate_strings(rs, regions, limit=1000):
    """String scan of plain text strings (<= 4 bytes, so the atom of a literal is the literal itself).
    regions: list of (base, bytes).  Returns (matches per variable [(base, off, len)], hits) where hits has one
    entry per Aho-Corasick hit in scan order: the list of string ids (rule id * 100 + string index) reaching the
    match limit while that hit is handled.  Mirrors AcScan::new (atoms lower-cased and de-duplicated across
    variables, fan-out in registration order), the overlapping search order (end offset, then longer pattern
    first), literal confirmation, insertion and truncation."""
    import re as _re
    variables = []          # (literal, string id)
    nocase = set()          # variable indexes of nocase strings
    raw = {}                # variable index -> compiled regex (strings without literal)
    for r in ordered_rules(rs):
        for k, (n, p) in enumerate(r["strings"]):
            if is_raw(n):
                raw[len(variables)] = _re.compile(bytes(p), _re.S)
            else:
                assert len(p) <= 4
                if is_nocase(n):
                    nocase.add(len(variables))
            variables.append((bytes(p), r["id"] * 100 + k))
    atoms = {}              # lowered atom -> [variable index]
    for vi, (lit, _) in enumerate(variables):
        if vi not in raw:
            atoms.setdefault(lit.lower(), []).append(vi)
    matches = [[] for _ in variables]
    reached = set()
    hits = []
    for base, mem in regions:
        low = mem.lower()
        occ = []
        for a in atoms:
            for o in cond.find_all(low, a):
                occ.append((o + len(a), -len(a), o, a))
        occ.sort()
        for end, _, o, a in occ:
            evs = []
            for vi in atoms[a]:
                lit, sid = variables[vi]
                if (mem[o:o + len(lit)].lower() != lit.lower()) if vi in nocase else (mem[o:o + len(lit)] != lit):
                    continue
                m = (base, o, len(lit))
                if m not in matches[vi]:
                    matches[vi].append(m)
                if len(matches[vi]) > limit:
                    del matches[vi][limit:]
                    if vi not in reached:
                        reached.add(vi)
                        evs.append(sid)
            hits.append(evs)
        # strings without literal: searched from every start in turn (scan_single_variable), up to the limit
        for vi, rx in raw.items():
            offset = 0
            while offset < len(mem) and len(matches[vi]) < limit:
                mt = rx.search(mem, offset)
                if mt is None:
                    break
                offset = mt.start() + 1
                matches[vi].append((base, mt.start(), mt.end() - mt.start()))
    return matches, hits


def g_inputs(rs, mem, ac_checks=None, direct=True, regions=None, limit=1000, imports=()):
    if regions is None:
        regions = [(0, mem)]
    matches, hits = simulate_strings(rs, regions, limit)
    ms = [glist("{| m_base := %d; m_off := %d; m_len := %d |}" % m for m in l) for l in matches]
    return ("{| i_matches := %s; i_ext := []; i_filesize := %s; i_mem := %s; i_ac := %s; i_imports := %s |}"
            % (glist(ms), "Some %d" % len(mem) if direct else "None",
               "(Some %s)" % gbytes(mem) if direct else "None",
               glist(glist("%d" % x for x in h) for h in hits),
               glist("%d" % MODULE_IDS[m] for m in imports)))


def rule_key(rs, ns_name, name):
    for r in rs["rules"]:
        if "ns%d" % r["ns"] == ns_name and r["name"] == name:
            return r["id"]
    return None
