# vlib/ruleset.py — rule sets over namespaces (global / private / references / rule sets):
# generation, YARA text, Gallina `scanner` + `inputs` terms (Model/Scanner.v).
import json
from . import cond
from .core import gN, gZ, gbool, glist, gbytes, gopt

POOL = [("a", b"ab"), ("b", b"abc"), ("c", b"zz"), ("d", b"a"), ("e", b"\x00\x01"), ("f", b"xyz")]
MEMS = [b"abcabcab a\x00\x01xx", b"", b"a", b"ab", b"zzzab\x00\x01\x00\x01abc", b"xyz", b"aaaaaaaa",
        b"ab zz xyz", b"\xff\xfe\x00\x01abcab"]


def gen_ruleset(rng, max_rules=6, max_ns=3, depth=2, allow_for=True, cond_kinds=None, global_refs_ordinary=False):
    """Returns a JSON-serialisable rule set: {"rules": [...]} in declaration order."""
    nns = rng.range(1, max_ns)
    nrules = rng.range(1, max_rules)
    rules = []
    forbidden = {}   # ns -> set of prefixes used in wildcard sets
    per_ns_names = {}
    ordinary_count = 0
    for i in range(nrules):
        ns = rng.below(nns)
        kind = rng.below(10)
        is_global = kind < 3
        is_private = kind in (2, 3, 4)
        letter = rng.choice("rs")
        # name must not start with a forbidden prefix of this namespace
        name = None
        for attempt in range(20):
            cand = "%s%d" % (letter, i)
            if not any(cand.startswith(p) for p in forbidden.get(ns, ())):
                name = cand
                break
            letter = rng.choice("tuvw")
        if name is None:
            continue
        nstr = rng.range(0, 3)
        strs = [rng.choice(POOL) for _ in range(nstr)]
        # unique names inside a rule
        strings = []
        for k, (n, p) in enumerate(strs):
            strings.append(["_%s%d" % (n, k), list(p)])
        earlier = [r for r in rules if r["ns"] == ns]
        earlier_ord = [r for r in earlier if not r["global"]]
        earlier_glob = [r for r in earlier if r["global"]]
        g = cond.Gen(rng, max(1, len(strings)), 10, (), max_depth=depth, allow_for=allow_for)

        def leaf():
            c = rng.below(12)
            if c < 2:
                return ("bool", rng.chance(1, 2))
            if c < 6 and strings:
                return ("var", rng.below(len(strings)))
            if c < 8 and earlier_ord and (not is_global or global_refs_ordinary):
                r = rng.choice(earlier_ord)
                return ("rule", r["ord_index"], r["name"])
            if c == 8 and earlier_glob:
                r = rng.choice(earlier_glob)
                return ("ruleg", r["name"])
            if c == 9 and (earlier_ord or earlier_glob) and (not is_global or global_refs_ordinary):
                # rule set by prefix
                pref = rng.choice(earlier)["name"][0]
                elems = [r["ord_index"] for r in earlier_ord if r["name"].startswith(pref)]
                already = len([r for r in earlier_glob if r["name"].startswith(pref)])
                if elems or already:
                    n = len(elems) + already
                    ksel = rng.choice(["any", "all", "none", "expr", "pct"])
                    se = None
                    if ksel == "expr":
                        se = ("int", rng.choice([0, 1, 2, n, n + 1]))
                    if ksel == "pct":
                        cands = [p for p in [1, 50, 100, 150] if __import__("math").ceil(p / 100.0 * n) == -((-p * n) // 100)]
                        se = ("int", rng.choice(cands))
                    forbidden.setdefault(ns, set()).add(pref)
                    return ("forrules", ksel, se, already, sorted(elems), pref + "*")
            if strings and allow_for:
                return g.gbool(rng.range(0, depth))
            return ("bool", rng.chance(2, 3))

        shape = rng.below(6)
        if shape == 0:
            c = leaf()
        elif shape == 1:
            c = ("and", [leaf(), leaf()])
        elif shape == 2:
            c = ("or", [leaf(), leaf()])
        elif shape == 3:
            c = ("un", "not", leaf())
        elif shape == 4:
            c = ("and", [leaf(), ("or", [leaf(), leaf()])])
        else:
            c = leaf()
        if cond.has_big_range(c):
            c = ("bool", True)
        r = {"ns": ns, "name": name, "global": is_global, "private": is_private, "strings": strings, "cond": c,
             "id": len(rules)}
        if not is_global:
            r["ord_index"] = ordinary_count
            ordinary_count += 1
        rules.append(r)
    return json.loads(json.dumps({"rules": rules, "nns": nns}, default=lambda b: list(b)))


def rule_text(r, printer_cls=cond.Printer):
    from .props.c04 import tup
    names = [s[0] for s in r["strings"]]
    pr = printer_cls(names)
    mods = ("global " if r["global"] else "") + ("private " if r["private"] else "")
    txt = "%srule %s {\n" % (mods, r["name"])
    if r["strings"]:
        txt += "  strings:\n" + "".join("    $%s = %s\n" % (n, cond.ybytes(bytes(p))) for n, p in r["strings"])
    txt += "  condition:\n    %s\n}\n" % pr.y(tup(r["cond"]))
    return txt


def harness_rules(rs):
    """One add_rules_str_in_namespace call per rule, in declaration order."""
    return [{"ns": "ns%d" % r["ns"], "src": rule_text(r)} for r in rs["rules"]]


def g_rule(r):
    from .props.c04 import tup
    pr = cond.Printer([s[0] for s in r["strings"]])
    return ("{| r_ns := %d%%nat; r_id := %d; r_global := %s; r_private := %s; r_nvars := %d%%nat; r_cond := %s |}"
            % (r["ns"], r["id"], gbool(r["global"]), gbool(r["private"]), len(r["strings"]), pr.g(tup(r["cond"]))))


def g_scanner(rs):
    gl = [r for r in rs["rules"] if r["global"]]
    od = [r for r in rs["rules"] if not r["global"]]
    return "{| s_globals := %s; s_rules := %s; s_nns := %d%%nat |}" % (
        glist(g_rule(r) for r in gl), glist(g_rule(r) for r in od), rs["nns"])


def g_inputs(rs, mem, ac_checks=0, direct=True):
    gl = [r for r in rs["rules"] if r["global"]]
    od = [r for r in rs["rules"] if not r["global"]]
    ms = []
    for r in gl + od:
        for _, p in r["strings"]:
            offs = cond.find_all(mem, bytes(p))
            ms.append(glist("{| m_base := 0; m_off := %d; m_len := %d |}" % (o, len(p)) for o in offs))
    return ("{| i_matches := %s; i_ext := []; i_filesize := %s; i_mem := %s; i_ac_checks := %d |}"
            % (glist(ms), "Some %d" % len(mem) if direct else "None",
               "(Some %s)" % gbytes(mem) if direct else "None", ac_checks))


def rule_key(rs, ns_name, name):
    for r in rs["rules"]:
        if "ns%d" % r["ns"] == ns_name and r["name"] == name:
            return r["id"]
    return None
